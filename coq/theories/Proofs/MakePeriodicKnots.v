(* C08, knot level of make_periodic (Model/Periodic.v: basis_make_periodic) on the instance R.

   Open (clamped) basis:  k = repeat s p ++ mid ++ repeat e p,  s < mid < e, sorted, order p >= 2,
   0 <= cont <= p - 2 and cont <= length mid ("the interior knots allow it": the code takes cont+1
   knots next to each end as ghost knots).  For b' = basis_make_periodic (mkBasis p k 0) cont:
     mp_order, mp_per1, mp_length, mp_nfun, mp_start, mp_end, mp_sorted, mp_sorted_list,
     mp_mult_start, mp_mult_end   (the seam knot has multiplicity p-1-cont at both ends of the domain)
     mp_images                    (ghost knots = exact periodic images, kn k' (i+n') = kn k' i + (e-s))
     mp_seam_smooth               (with Proofs/SeamContinuity.v: the wrapped sum of b' has equal one-sided
                                   derivatives of order <= cont at the two ends of the domain)
     mp_seam_rows                 (the model's dense rows: ref_row true k' p per1 r s = ref_row false k' p per1 r e)
   Open/close:
     open_knots_of b0             the open knot vector of a periodic basis: start and end repeated p times
                                  around the knots strictly inside (what split at the seam produces)
     open_of_make_periodic        open_knots_of (make_periodic b cont) = knots of b
     close_open_make_periodic     make_periodic (open (make_periodic b cont)) cont = make_periodic b cont
     open_close_knots             for ANY periodic knot list in canonical form (exact images, seam knot at
                                  positions cont+1 .. p-1): make_periodic (open k0) cont has knots k0
     make_periodic_canonical      results of make_periodic are in canonical form
   The periodic branch of obj_split (Model/Split.v) at knot level, after the insertion:
     seam_inserted_knots          ghost head ++ open knots (the start raised to multiplicity p)
     seam_bisect                  bisect_left finds the seam at index cont + 1
     split_roll_opens, split_opens_at_seam
                                  basis_roll at that index and dropping the last per1 knots = the open knots
   NOT proved in general: that split_insert (periodic insert_knot with ghost-knot repair, cont+1 times) turns the
   knots of make_periodic b cont into seam_inserted_knots; this step is only executed on Q (open_close_executed).
   Concrete instances: mp_example_hyps / mp_example_knots (quadratic C1), mp_example_knots_cubic, circle_open_knots,
   circle_open_close (the knot vector of splipy's circle). *)
From Coq Require Import List Arith Reals Lra Lia Bool ZArith.
From SplipyModel Require Import Spec.BSpline Spec.Deriv Model.Num Model.BasisDef Model.BasisEval Model.Tensor Model.Obj
  Model.Knots Model.KnotInsert Model.Split Model.Periodic Proofs.KnotList Proofs.SpanCorrect Proofs.Bridge Proofs.EvaluateSpec Proofs.SeamContinuity.
Import ListNotations.
Open Scope R_scope.

(* ---------- list tools ---------- *)
Lemma nth_app_if {A} (l1 l2 : list A) i d :
  nth i (l1 ++ l2) d = if (i <? length l1)%nat then nth i l1 d else nth (i - length l1) l2 d.
Proof. destruct (Nat.ltb_spec i (length l1)); [apply app_nth1|apply app_nth2]; lia. Qed.
Lemma nth_repeat_lt {A} (x d : A) m i : (i < m)%nat -> nth i (repeat x m) d = x.
Proof. revert i; induction m; intros i H; [lia|]. destruct i; cbn; [reflexivity|apply IHm; lia]. Qed.
Lemma nth_firstn_lt {A} (l : list A) m i d : (i < m)%nat -> nth i (firstn m l) d = nth i l d.
Proof.
  revert l i; induction m; intros l i H; [lia|]. destruct l; [destruct i; reflexivity|].
  destruct i; cbn; [reflexivity|apply IHm; lia].
Qed.
Lemma nth_skipn_add {A} (l : list A) a i d : nth i (skipn a l) d = nth (a + i) l d.
Proof.
  revert l; induction a; intros l; [reflexivity|]. destruct l; [destruct i; reflexivity|].
  cbn. apply IHa.
Qed.
Lemma nth_slice {A} (l : list A) a b i d : (i < b - a)%nat -> nth i (slice_list l a b) d = nth (a + i) l d.
Proof. intros H. unfold slice_list. rewrite nth_firstn_lt by exact H. apply nth_skipn_add. Qed.
Lemma length_slice {A} (l : list A) a b : length (slice_list l a b) = Nat.min (b - a) (length l - a).
Proof. unfold slice_list. rewrite firstn_length, skipn_length. reflexivity. Qed.
Lemma nth_map0 (f : R -> R) l i : (i < length l)%nat -> nth i (map f l) 0 = f (nth i l 0).
Proof.
  revert i; induction l as [|a l IH]; intros i H; cbn in *; [lia|].
  destruct i; [reflexivity|]. apply IH. lia.
Qed.
Lemma slice_mid {A} (l1 l2 l3 : list A) a b : a = length l1 -> (b = length l1 + length l2)%nat ->
  slice_list (l1 ++ l2 ++ l3) a b = l2.
Proof.
  intros -> ->. unfold slice_list. rewrite skipn_app, skipn_all, Nat.sub_diag. cbn [skipn app].
  replace (length l1 + length l2 - length l1)%nat with (length l2) by lia.
  rewrite firstn_app, firstn_all, Nat.sub_diag. cbn [firstn]. apply app_nil_r.
Qed.
Lemma open_split (p : nat) (s e : R) mid : (1 <= p)%nat ->
  repeat s p ++ mid ++ repeat e p = repeat s (p - 1) ++ (s :: mid ++ [e]) ++ repeat e (p - 1).
Proof.
  intros H. destruct p as [|p]; [lia|]. replace (S p - 1)%nat with p by lia.
  cbn [repeat]. rewrite (repeat_cons p s). rewrite <- !app_assoc. cbn [app]. rewrite <- !app_assoc. reflexivity.
Qed.
Lemma sorted_list_of_adj (l : list R) :
  (forall i, (S i < length l)%nat -> nth i l 0 <= nth (S i) l 0) -> @sorted_list R NumR l = true.
Proof.
  induction l as [|a l IH]; intros H; [reflexivity|].
  cbn [sorted_list]. destruct l as [|b l']; [reflexivity|].
  apply andb_true_iff. split.
  - cbn [nleb NumR]. pose proof (H 0%nat ltac:(cbn; lia)) as H0. cbn in H0.
    destruct (Rleb_spec a b); [reflexivity|lra].
  - apply IH. intros i Hi. apply (H (S i)). cbn [length] in *. lia.
Qed.

(* ---------- make_periodic on an open knot vector ---------- *)
Definition open_knots (p : nat) (s e : R) (mid : list R) : list R := repeat s p ++ mid ++ repeat e p.

Section MakePeriodic.
Variables (p cont : nat) (s e : R) (mid : list R).
Hypothesis Hp : (cont + 2 <= p)%nat.
Let M := length mid.
Let k := open_knots p s e mid.
Let nk := s :: mid ++ [e].
Local Notation b := (@mkBasis R p k 0).
Local Notation b' := (@basis_make_periodic R NumR b cont).
Local Notation k' := (b_knots b').
Let T := e - s.
Let NK (j : nat) : R := nth j nk 0.
Let n' := (p + M - cont - 1)%nat.

Lemma k_length : length k = (2 * p + M)%nat.
Proof. unfold k, open_knots. rewrite !app_length, !repeat_length. fold M. lia. Qed.
Lemma nk_length : length nk = (M + 2)%nat.
Proof. unfold nk. cbn [length]. rewrite app_length. cbn [length]. fold M. lia. Qed.
Lemma k_split : k = repeat s (p - 1) ++ nk ++ repeat e (p - 1).
Proof. unfold k, open_knots, nk. apply open_split. lia. Qed.

Lemma nk_of_open : slice_list k (p - 1) (length k - (p - 1)) = nk.
Proof.
  rewrite k_length. rewrite k_split. apply slice_mid.
  - rewrite repeat_length. reflexivity.
  - rewrite repeat_length, nk_length. lia.
Qed.
Lemma open_start : @b_start R NumR b = s.
Proof.
  unfold b_start. cbn [b_order b_knots]. rewrite (kn_in k (p-1) ltac:(rewrite k_length; lia) 0).
  unfold k, open_knots. rewrite nth_app_if, repeat_length.
  destruct (Nat.ltb_spec (p-1) p); [|lia]. apply nth_repeat_lt. lia.
Qed.
Lemma open_end : @b_end R NumR b = e.
Proof.
  unfold b_end. cbn [b_order b_knots]. rewrite k_length.
  rewrite (kn_in k (2*p+M-p) ltac:(rewrite k_length; lia) 0).
  unfold k, open_knots. rewrite !nth_app_if, repeat_length. fold M.
  destruct (Nat.ltb_spec (2*p+M-p) p); [lia|].
  destruct (Nat.ltb_spec (2*p+M-p-p) M); [lia|]. apply nth_repeat_lt. lia.
Qed.

(* the knot vector produced by make_periodic, in closed form *)
Lemma mp_knots : k' = map (fun x => x - T) (slice_list nk (M - cont) (M + 1)) ++ repeat s (p - 2 - cont)
                        ++ nk ++ repeat e (p - 2 - cont) ++ map (fun x => x + T) (slice_list nk 1 (cont + 2)).
Proof.
  unfold basis_make_periodic. cbv zeta. cbn [b_order b_knots].
  rewrite nk_of_open, open_start, open_end, nk_length.
  replace (p - 1 - (p - 1 - cont - 1))%nat with (cont + 1)%nat by lia.
  replace (p - 1 - cont - 1)%nat with (p - 2 - cont)%nat by lia.
  replace (M + 2 - (cont + 1) - 1)%nat with (M - cont)%nat by lia.
  replace (M + 2 - 1)%nat with (M + 1)%nat by lia.
  replace (cont + 1 + 1)%nat with (cont + 2)%nat by lia.
  reflexivity.
Qed.

Theorem mp_order : b_order b' = p.
Proof. reflexivity. Qed.
Theorem mp_per1 : b_per1 b' = (cont + 1)%nat.
Proof. reflexivity. Qed.

Hypothesis HM : (cont <= M)%nat.

Lemma head_length : length (slice_list nk (M - cont) (M + 1)) = (cont + 1)%nat.
Proof. rewrite length_slice, nk_length. lia. Qed.
Lemma tail_length : length (slice_list nk 1 (cont + 2)) = (cont + 1)%nat.
Proof. rewrite length_slice, nk_length. lia. Qed.

(* length formula: as many knots as the open basis, i.e. n' + p + (cont + 1) *)
Theorem mp_length : length k' = (2 * p + M)%nat.
Proof.
  rewrite mp_knots. rewrite !app_length, !map_length, head_length, tail_length, !repeat_length, nk_length. lia.
Qed.
Theorem mp_nfun : @b_nfun R b' = n'.
Proof. unfold b_nfun. rewrite mp_length. change (b_order b') with p. change (b_per1 b') with (cont + 1)%nat. unfold n'. lia. Qed.

Ltac split_app :=
  rewrite mp_knots; rewrite !nth_app_if;
  rewrite ?map_length, ?head_length, ?tail_length, ?repeat_length, ?nk_length;
  repeat match goal with |- context[(?a <? ?b)%nat] => destruct (Nat.ltb_spec a b); try lia end.

(* the five regions of k' *)
Lemma kp_a i : (i <= cont)%nat -> nth i k' 0 = NK (M - cont + i) - T.
Proof.
  intros H. split_app. rewrite nth_map0 by (rewrite head_length; lia). rewrite nth_slice by lia. reflexivity.
Qed.
Lemma kp_b i : (cont < i < p - 1)%nat -> nth i k' 0 = s.
Proof. intros H. split_app. apply nth_repeat_lt. lia. Qed.
Lemma kp_c i : (p - 1 <= i <= p + M)%nat -> nth i k' 0 = NK (i - (p - 1)).
Proof. intros H. split_app. unfold NK. f_equal. lia. Qed.
Lemma kp_d i : (p + M < i < 2 * p + M - cont - 1)%nat -> nth i k' 0 = e.
Proof. intros H. split_app. apply nth_repeat_lt. lia. Qed.
Lemma kp_e i : (2 * p + M - cont - 1 <= i < 2 * p + M)%nat -> nth i k' 0 = NK (i - (2 * p + M - cont - 1) + 1) + T.
Proof.
  intros H. split_app. rewrite nth_map0 by (rewrite tail_length; lia). rewrite nth_slice by lia.
  unfold NK. f_equal. f_equal. lia.
Qed.

Lemma NK_0 : NK 0%nat = s.
Proof. reflexivity. Qed.
Lemma NK_last : NK (M + 1)%nat = e.
Proof.
  unfold NK, nk. replace (M + 1)%nat with (S M) by lia. cbn [nth].
  rewrite nth_app_if. fold M. destruct (Nat.ltb_spec M M); [lia|]. rewrite Nat.sub_diag. reflexivity.
Qed.
Lemma NK_mid j : (1 <= j <= M)%nat -> NK j = nth (j - 1) mid 0.
Proof.
  intros H. unfold NK, nk. destruct j as [|j]; [lia|]. cbn [nth]. replace (S j - 1)%nat with j by lia.
  apply app_nth1. fold M. lia.
Qed.

Theorem mp_start : @b_start R NumR b' = s.
Proof.
  unfold b_start. change (b_order b') with p. rewrite (kn_in k' (p - 1) ltac:(rewrite mp_length; lia) 0).
  rewrite kp_c by lia. rewrite Nat.sub_diag. apply NK_0.
Qed.
Theorem mp_end : @b_end R NumR b' = e.
Proof.
  unfold b_end. rewrite mp_length. change (b_order b') with p.
  rewrite (kn_in k' (2*p+M-p) ltac:(rewrite mp_length; lia) 0).
  rewrite kp_c by lia. replace (2*p+M-p-(p-1))%nat with (M+1)%nat by lia. apply NK_last.
Qed.

(* ghost knots are the exact periodic images *)
Lemma images_nth i : (i + n' < 2 * p + M)%nat -> nth (i + n') k' 0 = nth i k' 0 + T.
Proof.
  intros H. unfold n' in *. set (j := (i + (p + M - cont - 1))%nat) in *.
  destruct (Nat.le_gt_cases i cont) as [A|A].
  { rewrite (kp_a i) by exact A. rewrite (kp_c j) by (unfold j; lia).
    replace (j - (p - 1))%nat with (M - cont + i)%nat by (unfold j; lia). ring. }
  destruct (Nat.lt_ge_cases i (p - 1)) as [B|B].
  { rewrite (kp_b i) by lia.
    destruct (Nat.eq_dec j (p + M)) as [E|E].
    - rewrite (kp_c j) by lia. replace (j - (p - 1))%nat with (M + 1)%nat by lia.
      rewrite NK_last. unfold T. ring.
    - rewrite (kp_d j) by (unfold j in *; lia). unfold T. ring. }
  destruct (Nat.eq_dec i (p - 1)) as [C|C].
  { rewrite (kp_c i) by lia. replace (i - (p - 1))%nat with 0%nat by lia. rewrite NK_0.
    destruct (Nat.eq_dec j (p + M)) as [E|E].
    - rewrite (kp_c j) by lia. replace (j - (p - 1))%nat with (M + 1)%nat by lia.
      rewrite NK_last. unfold T. ring.
    - rewrite (kp_d j) by (unfold j in *; lia). unfold T. ring. }
  rewrite (kp_c i) by lia. rewrite (kp_e j) by (unfold j in *; lia). f_equal. f_equal. unfold j. lia.
Qed.
Theorem mp_images i : (i + @b_nfun R b' < length k')%nat ->
  @kn R NumR k' (i + @b_nfun R b') = @kn R NumR k' i + (@b_end R NumR b' - @b_start R NumR b').
Proof.
  rewrite mp_nfun, mp_length, mp_start, mp_end. intros H.
  rewrite (kn_in k' (i + n') ltac:(rewrite mp_length; lia) 0).
  rewrite (kn_in k' i ltac:(rewrite mp_length; lia) 0). apply images_nth. exact H.
Qed.

(* ---------- order: needs the open knots to be sorted ---------- *)
Hypothesis Hsorted : sorted (@kn R NumR k).        (* follows from sorted_list k = true by kn_sorted *)

Lemma NK_is_k j : (j <= M + 1)%nat -> NK j = @kn R NumR k (p - 1 + j).
Proof.
  intros H. rewrite (kn_in k (p - 1 + j) ltac:(rewrite k_length; lia) 0).
  unfold NK. rewrite k_split. rewrite nth_app_if, repeat_length.
  destruct (Nat.ltb_spec (p - 1 + j) (p - 1)); [lia|].
  rewrite nth_app_if, nk_length. destruct (Nat.ltb_spec (p - 1 + j - (p - 1)) (M + 2)); [|lia].
  cbv beta. f_equal. lia.
Qed.
Lemma NK_mono i j : (i <= j <= M + 1)%nat -> NK i <= NK j.
Proof. intros H. rewrite !NK_is_k by lia. apply Hsorted. lia. Qed.
Lemma NK_ge_s j : (j <= M + 1)%nat -> s <= NK j.
Proof. intros H. rewrite <- NK_0. apply NK_mono. lia. Qed.
Lemma NK_le_e j : (j <= M + 1)%nat -> NK j <= e.
Proof. intros H. rewrite <- NK_last. apply NK_mono. lia. Qed.
Lemma s_le_e : s <= e.
Proof. rewrite <- NK_0. apply NK_le_e. lia. Qed.

Lemma kp_step i : (S i < 2 * p + M)%nat -> nth i k' 0 <= nth (S i) k' 0.
Proof.
  intros H. pose proof s_le_e as Hse.
  destruct (Nat.le_gt_cases i cont) as [A|A].
  { rewrite (kp_a i) by exact A. pose proof (NK_le_e (M - cont + i) ltac:(lia)) as U.
    destruct (Nat.le_gt_cases (S i) cont) as [A2|A2].
    - rewrite (kp_a (S i)) by exact A2. pose proof (NK_mono (M - cont + i) (M - cont + S i) ltac:(lia)). cbv beta in *. lra.
    - destruct (Nat.lt_ge_cases (S i) (p - 1)) as [B2|B2].
      + rewrite (kp_b (S i)) by lia. unfold T. cbv beta in *. lra.
      + rewrite (kp_c (S i)) by lia. pose proof (NK_ge_s (S i - (p - 1)) ltac:(lia)). unfold T. cbv beta in *. lra. }
  destruct (Nat.lt_ge_cases i (p - 1)) as [B|B].
  { rewrite (kp_b i) by lia.
    destruct (Nat.lt_ge_cases (S i) (p - 1)) as [B2|B2].
    - rewrite (kp_b (S i)) by lia. lra.
    - rewrite (kp_c (S i)) by lia. apply NK_ge_s. lia. }
  destruct (Nat.le_gt_cases i (p + M)) as [C|C].
  { rewrite (kp_c i) by lia.
    destruct (Nat.le_gt_cases (S i) (p + M)) as [C2|C2].
    - rewrite (kp_c (S i)) by lia. apply NK_mono. lia.
    - pose proof (NK_le_e (i - (p - 1)) ltac:(lia)) as U.
      destruct (Nat.lt_ge_cases (S i) (2 * p + M - cont - 1)) as [D2|D2].
      + rewrite (kp_d (S i)) by lia. exact U.
      + rewrite (kp_e (S i)) by lia. pose proof (NK_ge_s (S i - (2 * p + M - cont - 1) + 1) ltac:(lia)).
        unfold T. cbv beta in *. lra. }
  destruct (Nat.lt_ge_cases i (2 * p + M - cont - 1)) as [D|D].
  { rewrite (kp_d i) by lia.
    destruct (Nat.lt_ge_cases (S i) (2 * p + M - cont - 1)) as [D2|D2].
    - rewrite (kp_d (S i)) by lia. lra.
    - rewrite (kp_e (S i)) by lia. pose proof (NK_ge_s (S i - (2 * p + M - cont - 1) + 1) ltac:(lia)).
      unfold T. cbv beta in *. lra. }
  rewrite (kp_e i), (kp_e (S i)) by lia.
  pose proof (NK_mono (i - (2 * p + M - cont - 1) + 1) (S i - (2 * p + M - cont - 1) + 1) ltac:(lia)). cbv beta in *. lra.
Qed.

Theorem mp_sorted_list : @sorted_list R NumR k' = true.
Proof. apply sorted_list_of_adj. intros i Hi. rewrite mp_length in Hi. apply kp_step. exact Hi. Qed.
Theorem mp_sorted : sorted (@kn R NumR k').
Proof. apply kn_sorted. exact mp_sorted_list. Qed.

(* ---------- multiplicity of the seam knot: needs the interior knots strictly inside ---------- *)
Hypothesis Hse : s < e.
Hypothesis Hin : Forall (fun x => s < x < e) mid.

Lemma NK_inner j : (1 <= j <= M)%nat -> s < NK j < e.
Proof.
  intros H. rewrite NK_mid by exact H.
  pose proof (proj1 (Forall_forall _ mid) Hin (nth (j - 1) mid 0)) as F. apply F. apply nth_In. fold M. lia.
Qed.
Lemma NK_1_gt : s < NK 1%nat.
Proof.
  destruct (Nat.eq_dec M 0) as [Z|Z].
  - replace 1%nat with (M + 1)%nat by lia. rewrite NK_last. exact Hse.
  - apply NK_inner. lia.
Qed.
Lemma NK_M_lt : NK M < e.
Proof.
  destruct (Nat.eq_dec M 0) as [Z|Z].
  - rewrite Z. rewrite NK_0. exact Hse.
  - apply NK_inner. lia.
Qed.

Local Notation K' := (@kn R NumR k').
Lemma K'_nth i : (i < 2 * p + M)%nat -> K' i = nth i k' 0.
Proof. intros H. apply kn_in. rewrite mp_length. exact H. Qed.

(* K' cont < s = K' (cont+1) = ... = K' (p-1) < K' p : multiplicity p - 1 - cont at the start *)
Theorem mp_mult_start :
  K' cont < s /\ (forall i, (cont + 1 <= i <= p - 1)%nat -> K' i = s) /\ s < K' p.
Proof.
  split; [|split].
  - rewrite K'_nth by lia. rewrite kp_a by lia. replace (M - cont + cont)%nat with M by lia.
    pose proof NK_M_lt. unfold T. cbv beta in *. lra.
  - intros i Hi. rewrite K'_nth by lia. destruct (Nat.eq_dec i (p - 1)) as [->|N].
    + rewrite kp_c by lia. rewrite Nat.sub_diag. apply NK_0.
    + apply kp_b. lia.
  - rewrite K'_nth by lia. rewrite kp_c by lia. replace (p - (p - 1))%nat with 1%nat by lia. apply NK_1_gt.
Qed.
(* K' (p+M-1) < e = K' (p+M) = ... = K' (2p+M-cont-2) < K' (2p+M-cont-1) : the same multiplicity at the end *)
Theorem mp_mult_end :
  K' (p + M - 1) < e /\ (forall i, (p + M <= i <= 2 * p + M - cont - 2)%nat -> K' i = e)
  /\ e < K' (2 * p + M - cont - 1).
Proof.
  split; [|split].
  - rewrite K'_nth by lia. rewrite kp_c by lia. replace (p + M - 1 - (p - 1))%nat with M by lia. apply NK_M_lt.
  - intros i Hi. rewrite K'_nth by lia. destruct (Nat.eq_dec i (p + M)) as [->|N].
    + rewrite kp_c by lia. replace (p + M - (p - 1))%nat with (M + 1)%nat by lia. apply NK_last.
    + apply kp_d. lia.
  - rewrite K'_nth by lia. rewrite kp_e by lia. rewrite Nat.sub_diag. cbn [Nat.add].
    pose proof NK_1_gt. unfold T. cbv beta in *. lra.
Qed.

(* seam smoothness of the result (Proofs/SeamContinuity.v): for every periodic coefficient sequence the sum over
   all n_all = n' + cont + 1 = length k' - p functions has the same r-th derivative from the right at the start
   and from the left at the end, r <= cont *)
Theorem mp_seam_smooth (c : nat -> R) r : (forall i, c (i + n')%nat = c i) -> (r <= cont)%nat ->
  sumf (fun i => c i * dB true K' r (p - 1) i s) 0 (length k' - p)
  = sumf (fun i => c i * dB false K' r (p - 1) i e) 0 (length k' - p).
Proof.
  intros Hc Hr. destruct mp_mult_start as [S1 [S2 S3]]. destruct mp_mult_end as [E1 [E2 E3]].
  pose proof (seam_derivatives_list K' mp_sorted (p - 1) n' cont T ltac:(unfold n'; lia) ltac:(lia)) as Q.
  assert (Hper : forall i, (i + n' <= n' + cont + (p - 1) + 1)%nat -> K' (i + n')%nat = K' i + T).
  { intros i Hi. unfold n' in Hi. rewrite !K'_nth by (unfold n'; lia). apply images_nth. unfold n'. lia. }
  specialize (Q Hper c Hc).
  rewrite (S2 (S cont) ltac:(lia)), (S2 (p - 1)%nat ltac:(lia)) in Q.
  replace (S (p - 1)) with p in Q by lia.
  specialize (Q S1 eq_refl S3 r Hr).
  rewrite (E2 (p - 1 + n')%nat ltac:(unfold n'; lia)) in Q.
  rewrite mp_length. replace (2 * p + M - p)%nat with (n' + cont + 1)%nat by (unfold n'; lia). exact Q.
Qed.

(* the same for the model's dense evaluation rows (ref_row = what basis_evaluate returns, Proofs/EvaluateSpec.v:
   evaluate_spec): the row of r-th derivatives from the right at the start equals the row from the left at the
   end, column by column (each column sums the wrapped images i = c mod n') *)
Theorem mp_seam_rows r : (r <= cont)%nat ->
  @ref_row R NumR true k' p (cont + 1) r s = @ref_row R NumR false k' p (cont + 1) r e.
Proof.
  intros Hr. unfold ref_row. cbv zeta.
  replace (length k' - p - (cont + 1))%nat with n' by (rewrite mp_length; unfold n'; lia).
  apply map_ext. intros c. cbn [nadd n0 NumR].
  rewrite (fold_cond_sum (fun i => (i mod n' =? c)%nat) (fun i => @dBq R NumR true K' r (p - 1) i s)).
  rewrite (fold_cond_sum (fun i => (i mod n' =? c)%nat) (fun i => @dBq R NumR false K' r (p - 1) i e)).
  f_equal.
  pose proof (mp_seam_smooth (fun i => if (i mod n' =? c)%nat then 1 else 0) r) as Q.
  assert (Hc : forall i, (if ((i + n') mod n' =? c)%nat then 1 else 0) = (if (i mod n' =? c)%nat then 1 else 0)).
  { intros i. replace (i + n')%nat with (i + 1 * n')%nat by lia. rewrite Nat.mod_add by (unfold n'; lia). reflexivity. }
  specialize (Q Hc Hr).
  etransitivity; [|etransitivity; [exact Q|]]; apply sumf_ext; intros i _; rewrite dBq_R;
    destruct (i mod n' =? c)%nat; ring.
Qed.
End MakePeriodic.

(* ---------- open / close ---------- *)
(* the open knot vector of a periodic basis: start and end with multiplicity p around the knots strictly
   between them, the ghost knots dropped.  (This is the knot vector SplineObject.split produces when a periodic
   direction is opened at its seam: obj_split inserts start up to multiplicity p, rolls the seam to the front
   and drops the last per1 knots; see the report for what is and is not proved about that path.) *)
Definition open_knots_of (b0 : basis R) : list R :=
  let p := b_order b0 in let k0 := b_knots b0 in
  repeat (@b_start R NumR b0) p ++ slice_list k0 p (length k0 - p) ++ repeat (@b_end R NumR b0) p.

Section OpenClose.
Variables (p cont : nat) (s e : R) (mid : list R).
Hypothesis Hp : (cont + 2 <= p)%nat.
Hypothesis HM : (cont <= length mid)%nat.
Local Notation k := (open_knots p s e mid).
Local Notation b := (@mkBasis R p k 0).
Local Notation b' := (@basis_make_periodic R NumR b cont).

Lemma mp_interior : slice_list (b_knots b') p (length (b_knots b') - p) = mid.
Proof.
  rewrite (mp_length p cont s e mid Hp HM). rewrite (mp_knots p cont s e mid Hp).
  set (hd := map _ (slice_list _ (length mid - cont) _)).
  set (tl := map _ (slice_list _ 1 _)).
  assert (Hh : length hd = (cont + 1)%nat) by (unfold hd; rewrite map_length; apply (head_length p cont s e mid Hp HM)).
  transitivity (slice_list ((hd ++ repeat s (p - 2 - cont) ++ [s]) ++ mid ++ ([e] ++ repeat e (p - 2 - cont) ++ tl))
                           p (2 * p + length mid - p)).
  { f_equal. rewrite <- !app_assoc. cbn [app]. rewrite <- !app_assoc. reflexivity. }
  apply slice_mid.
  - rewrite !app_length, Hh, repeat_length. cbn [length]. lia.
  - rewrite !app_length, Hh, repeat_length. cbn [length]. lia.
Qed.

(* opening the result of make_periodic gives the open knot vector back *)
Theorem open_of_make_periodic : open_knots_of b' = k.
Proof.
  unfold open_knots_of. cbv zeta. change (b_order b') with p.
  rewrite (mp_start p cont s e mid Hp HM), (mp_end p cont s e mid Hp HM), mp_interior. reflexivity.
Qed.
(* ... and closing it again returns the same periodic basis *)
Theorem close_open_make_periodic :
  @basis_make_periodic R NumR (mkBasis (b_order b') (open_knots_of b') 0) cont = b'.
Proof. rewrite open_of_make_periodic. reflexivity. Qed.
End OpenClose.

(* the intrinsic version: ANY periodic knot list in canonical form *)
Section Canonical.
Variables (p cont : nat) (k0 : list R).
Hypothesis Hp : (cont + 2 <= p)%nat.
Hypothesis Hlen : (2 * p + cont <= length k0)%nat.     (* at least p - 1 functions: cont <= number of interior knots *)
Local Notation b0 := (@mkBasis R p k0 (cont + 1)).
Local Notation K0 := (@kn R NumR k0).
Let s := @b_start R NumR b0.
Let e := @b_end R NumR b0.
Let n0 := @b_nfun R b0.
(* ghost knots are exact periodic images *)
Hypothesis Himg : forall i, (i + n0 < length k0)%nat -> K0 (i + n0)%nat = K0 i + (e - s).
(* the copies of the seam knot sit at positions cont+1 .. p-1 *)
Hypothesis Hmult : forall i, (cont + 1 <= i <= p - 1)%nat -> K0 i = s.

Let M := (length k0 - 2 * p)%nat.
Let mid := slice_list k0 p (length k0 - p).

Lemma mid_length : length mid = M.
Proof. unfold mid, M. rewrite length_slice. lia. Qed.
Lemma open_is : open_knots_of b0 = open_knots p s e mid.
Proof. reflexivity. Qed.
Lemma n0_eq : n0 = (p + M - cont - 1)%nat.
Proof. unfold n0, b_nfun, M. cbn [b_knots b_order b_per1]. lia. Qed.
Lemma s_eq : s = K0 (p - 1).
Proof. reflexivity. Qed.
Lemma e_eq : e = K0 (p + M).
Proof. unfold e, b_end. cbn [b_knots b_order]. f_equal. unfold M. lia. Qed.

Lemma NK0 j : (j <= M + 1)%nat -> nth j (s :: mid ++ [e]) 0 = K0 (p - 1 + j).
Proof.
  intros H. destruct (Nat.eq_dec j 0) as [->|Z].
  { cbn [nth]. rewrite Nat.add_0_r. apply s_eq. }
  destruct j as [|j]; [lia|]. cbn [nth]. rewrite nth_app_if, mid_length.
  destruct (Nat.ltb_spec j M) as [L|L].
  - unfold mid. rewrite nth_slice by (unfold M in *; lia).
    rewrite (kn_in k0 (p - 1 + S j) ltac:(unfold M in *; lia) 0). f_equal. lia.
  - replace (j - M)%nat with 0%nat by lia. cbn [nth]. rewrite e_eq. f_equal. lia.
Qed.

Theorem open_close_knots :
  b_knots (@basis_make_periodic R NumR (mkBasis p (open_knots_of b0) 0) cont) = k0.
Proof.
  rewrite open_is.
  assert (HM : (cont <= length mid)%nat) by (rewrite mid_length; unfold M; lia).
  pose proof (mp_length p cont s e mid Hp HM) as HL. rewrite mid_length in HL.
  assert (Hk0 : length k0 = (2 * p + M)%nat) by (unfold M; lia).
  apply (nth_ext _ _ 0 0); [rewrite HL; lia|].
  intros i Hi. rewrite HL in Hi.
  rewrite <- (kn_in k0 i ltac:(lia) 0).
  pose proof n0_eq as Hn0.
  destruct (Nat.le_gt_cases i cont) as [A|A].
  { rewrite (kp_a p cont s e mid Hp HM) by exact A. rewrite mid_length. cbv beta.
    rewrite NK0 by lia. pose proof (Himg i ltac:(lia)) as I.
    replace (p - 1 + (M - cont + i))%nat with (i + n0)%nat by lia. lra. }
  destruct (Nat.lt_ge_cases i (p - 1)) as [B|B].
  { rewrite (kp_b p cont s e mid Hp HM) by lia. symmetry. apply Hmult. lia. }
  destruct (Nat.le_gt_cases i (p + M)) as [C|C].
  { rewrite (kp_c p cont s e mid Hp HM) by (rewrite mid_length; lia). cbv beta.
    rewrite NK0 by lia. f_equal. lia. }
  destruct (Nat.lt_ge_cases i (2 * p + M - cont - 1)) as [D|D].
  { rewrite (kp_d p cont s e mid Hp HM) by (rewrite mid_length; lia).
    pose proof (Himg (i - n0)%nat ltac:(lia)) as I. replace (i - n0 + n0)%nat with i in I by lia.
    rewrite (Hmult (i - n0)%nat) in I by lia. lra. }
  rewrite (kp_e p cont s e mid Hp HM) by (rewrite mid_length; lia). rewrite mid_length. cbv beta.
  rewrite NK0 by lia.
  pose proof (Himg (i - n0)%nat ltac:(lia)) as I. replace (i - n0 + n0)%nat with i in I by lia.
  replace (p - 1 + (i - (2 * p + M - cont - 1) + 1))%nat with (i - n0)%nat by lia. lra.
Qed.
End Canonical.

(* ---------- the roll + truncate step of SplineObject.split in a periodic direction ---------- *)
Lemma open_nth_lo p s e mid i : (i < p)%nat -> nth i (open_knots p s e mid) 0 = s.
Proof.
  intros H. unfold open_knots. rewrite nth_app_if, repeat_length.
  destruct (Nat.ltb_spec i p); [|lia]. apply nth_repeat_lt. exact H.
Qed.
Lemma open_nth_hi p s e mid i : (p + length mid <= i < 2 * p + length mid)%nat -> nth i (open_knots p s e mid) 0 = e.
Proof.
  intros H. unfold open_knots. rewrite !nth_app_if, repeat_length.
  destruct (Nat.ltb_spec i p); [lia|]. destruct (Nat.ltb_spec (i - p) (length mid)); [lia|].
  apply nth_repeat_lt. lia.
Qed.
Lemma open_nth_nk p s e mid i : (1 <= p)%nat -> (p - 1 <= i <= p + length mid)%nat ->
  nth i (open_knots p s e mid) 0 = nth (i - (p - 1)) (s :: mid ++ [e]) 0.
Proof.
  intros Hp H. unfold open_knots. rewrite open_split by exact Hp.
  rewrite nth_app_if, repeat_length. destruct (Nat.ltb_spec i (p - 1)); [lia|].
  rewrite nth_app_if. cbn [length]. rewrite app_length. cbn [length].
  destruct (Nat.ltb_spec (i - (p - 1)) (S (length mid + 1))); [reflexivity|lia].
Qed.
Lemma open_length p s e mid : length (open_knots p s e mid) = (2 * p + length mid)%nat.
Proof. unfold open_knots. rewrite !app_length, !repeat_length. lia. Qed.

Section SplitRoll.
Variables (p cont : nat) (s e : R) (mid : list R).
Hypothesis Hp : (cont + 2 <= p)%nat.
Hypothesis HM : (cont <= length mid)%nat.
Let M := length mid.
Let nk := s :: mid ++ [e].
Let T := e - s.
Let hd := map (fun x => x - T) (slice_list nk (M - cont) (M + 1)).

(* the knot vector of the periodic basis make_periodic b cont after the start knot has been raised to
   multiplicity p (what split_insert does at the seam): the cont+1 ghost knots in front, followed by the open
   knot vector; no ghost knots are left behind the end *)
Definition seam_inserted_knots : list R := hd ++ open_knots p s e mid.

Lemma hd_length : length hd = (cont + 1)%nat.
Proof. unfold hd. rewrite map_length. apply (head_length p cont s e mid Hp HM). Qed.
Lemma hd_nth j : (j <= cont)%nat -> nth j hd 0 = nth (M - cont + j) nk 0 - T.
Proof.
  intros H. unfold hd. rewrite nth_map0 by (unfold nk, M; rewrite (head_length p cont s e mid Hp HM); lia).
  rewrite nth_slice by lia. reflexivity.
Qed.
Lemma kI_length : length seam_inserted_knots = (cont + 1 + (2 * p + M))%nat.
Proof. unfold seam_inserted_knots. rewrite app_length, hd_length, open_length. reflexivity. Qed.
Lemma kI_nth_hd j : (j <= cont)%nat -> nth j seam_inserted_knots 0 = nth (M - cont + j) nk 0 - T.
Proof.
  intros H. unfold seam_inserted_knots. rewrite nth_app_if, hd_length.
  destruct (Nat.ltb_spec j (cont + 1)); [|lia]. apply hd_nth. exact H.
Qed.
Lemma kI_nth_open j : (cont + 1 <= j)%nat -> nth j seam_inserted_knots 0 = nth (j - (cont + 1)) (open_knots p s e mid) 0.
Proof.
  intros H. unfold seam_inserted_knots. rewrite nth_app_if, hd_length.
  destruct (Nat.ltb_spec j (cont + 1)); [lia|]. reflexivity.
Qed.

(* basis.roll(cont+1) followed by dropping the last per1 = cont+1 knots (obj_split, periodic branch) gives the
   open knot vector *)
Theorem split_roll_opens :
  let bI := @mkBasis R p seam_inserted_knots (cont + 1) in
  let kk := b_knots (@basis_roll R NumR bI (cont + 1)) in
  firstn (length kk - b_per1 bI) kk = open_knots p s e mid.
Proof.
  cbv zeta. unfold basis_roll. cbv zeta. cbn [b_knots b_order b_per1 nsub NumR].
  set (kI := seam_inserted_knots).
  assert (HL : length kI = (cont + 1 + (2 * p + M))%nat) by apply kI_length.
  rewrite HL.
  replace (cont + 1 + (2 * p + M) - p - (cont + 1))%nat with (p + M)%nat by lia.
  set (left := slice_list kI (cont + 1) (p + M)).
  assert (Hleft : length left = (p + M - cont - 1)%nat) by (unfold left; rewrite length_slice, HL; lia).
  rewrite Hleft.
  replace (cont + 1 + (2 * p + M) - (p + M - cont - 1))%nat with (p + 2 * cont + 2)%nat by lia.
  set (t1 := @kn R NumR kI 0 - @kn R NumR kI (p + M)).
  assert (Ht1 : t1 = - T).
  { unfold t1. rewrite (kn_in kI 0 ltac:(lia) 0), (kn_in kI (p + M) ltac:(lia) 0).
    unfold kI. rewrite kI_nth_hd by lia. rewrite kI_nth_open by lia.
    rewrite open_nth_nk by (fold M; lia). fold nk. fold M.
    replace (p + M - (cont + 1) - (p - 1))%nat with (M - cont + 0)%nat by lia. ring. }
  set (right := map (fun x => x - t1) (slice_list kI 0 (p + 2 * cont + 2))).
  assert (Hright : length right = (p + 2 * cont + 2)%nat) by (unfold right; rewrite map_length, length_slice, HL; lia).
  rewrite app_length, Hleft, Hright.
  replace (p + M - cont - 1 + (p + 2 * cont + 2) - (cont + 1))%nat with (2 * p + M)%nat by lia.
  apply (nth_ext _ _ 0 0).
  { rewrite firstn_length, app_length, Hleft, Hright, open_length. fold M. lia. }
  intros i Hi. rewrite firstn_length, app_length, Hleft, Hright in Hi.
  assert (Hi' : (i < 2 * p + M)%nat) by lia.
  rewrite nth_firstn_lt by exact Hi'. rewrite nth_app_if, Hleft.
  destruct (Nat.ltb_spec i (p + M - cont - 1)) as [A|A].
  - unfold left. rewrite nth_slice by lia. unfold kI. rewrite kI_nth_open by lia. f_equal. lia.
  - set (j := (i - (p + M - cont - 1))%nat). assert (Hj : (j < p + cont + 1)%nat) by (unfold j; lia).
    unfold right. rewrite nth_map0 by (rewrite length_slice, HL; lia). rewrite nth_slice by lia.
    cbn [Nat.add]. rewrite Ht1.
    destruct (Nat.le_gt_cases j cont) as [B|B].
    + unfold kI. rewrite kI_nth_hd by exact B.
      rewrite (open_nth_nk p s e mid i) by (fold M; unfold j in *; lia). fold nk.
      replace (i - (p - 1))%nat with (M - cont + j)%nat by (unfold j in *; lia). ring.
    + unfold kI. rewrite kI_nth_open by lia. rewrite open_nth_lo by lia.
      rewrite open_nth_hi by (fold M; unfold j in *; lia). unfold T. ring.
Qed.

(* the ghost knots in front of the inserted knot vector are those of make_periodic b cont *)
Lemma seam_inserted_head i : (i <= cont)%nat ->
  nth i seam_inserted_knots 0
  = nth i (b_knots (@basis_make_periodic R NumR (mkBasis p (open_knots p s e mid) 0) cont)) 0.
Proof. intros H. rewrite kI_nth_hd by exact H. rewrite (kp_a p cont s e mid Hp HM i H). reflexivity. Qed.

(* the position the roll is made at: obj_split uses mu = bisect_left(knots, start), which is cont + 1 *)
Hypothesis Hsorted : sorted (@kn R NumR (open_knots p s e mid)).
Hypothesis Hse : s < e.
Hypothesis Hin : Forall (fun x => s < x < e) mid.

Lemma kI_step i : (S i < length seam_inserted_knots)%nat ->
  nth i seam_inserted_knots 0 <= nth (S i) seam_inserted_knots 0.
Proof.
  intros H. rewrite kI_length in H.
  destruct (Nat.le_gt_cases i cont) as [A|A].
  - rewrite (kI_nth_hd i) by exact A.
    destruct (Nat.le_gt_cases (S i) cont) as [A2|A2].
    + rewrite (kI_nth_hd (S i)) by exact A2.
      pose proof (NK_mono p cont s e mid Hp HM Hsorted (M - cont + i) (M - cont + S i) ltac:(fold M; lia)) as Q.
      fold nk in Q. lra.
    + rewrite (kI_nth_open (S i)) by lia. rewrite open_nth_lo by lia.
      pose proof (NK_le_e p cont s e mid Hp HM Hsorted (M - cont + i) ltac:(fold M; lia)) as Q.
      fold nk in Q. unfold T. lra.
  - rewrite (kI_nth_open i), (kI_nth_open (S i)) by lia.
    rewrite <- (kn_in (open_knots p s e mid) (i - (cont + 1)) ltac:(rewrite open_length; fold M; lia) 0).
    rewrite <- (kn_in (open_knots p s e mid) (S i - (cont + 1)) ltac:(rewrite open_length; fold M; lia) 0).
    apply Hsorted. lia.
Qed.
Lemma kI_sorted : sorted (@kn R NumR seam_inserted_knots).
Proof. apply kn_sorted. apply sorted_list_of_adj. exact kI_step. Qed.

Theorem seam_bisect : @py_bisect_left R NumR seam_inserted_knots s = (cont + 1)%nat.
Proof.
  unfold py_bisect_left.
  destruct (bisect_left_spec (@kn R NumR seam_inserted_knots) kI_sorted s (length seam_inserted_knots)) as (A & B & C).
  cbv zeta in *. set (r := @bisect_left R NumR _ s _) in *. pose proof kI_length as HL.
  destruct (Nat.le_gt_cases r cont) as [L|L].
  { exfalso. pose proof (C cont ltac:(lia)) as Q. rewrite (kn_in seam_inserted_knots cont ltac:(lia) 0) in Q.
    rewrite kI_nth_hd in Q by lia. replace (M - cont + cont)%nat with M in Q by lia.
    pose proof (NK_M_lt p cont s e mid Hp HM Hse Hin) as W. fold M nk in W. unfold T in Q. lra. }
  destruct (Nat.le_gt_cases r (cont + 1)) as [L2|L2]; [lia|].
  exfalso. pose proof (B (cont + 1)%nat ltac:(lia)) as Q. rewrite (kn_in seam_inserted_knots (cont + 1) ltac:(lia) 0) in Q.
  rewrite kI_nth_open in Q by lia. rewrite open_nth_lo in Q by lia. lra.
Qed.

(* the knot-level effect of the periodic branch of obj_split after the insertion: bisect, roll, truncate *)
Theorem split_opens_at_seam :
  let bI := @mkBasis R p seam_inserted_knots (cont + 1) in
  let mu := @py_bisect_left R NumR (b_knots bI) (List.hd 0 [s]) in
  let kk := b_knots (@basis_roll R NumR bI mu) in
  firstn (length kk - b_per1 bI) kk = open_knots p s e mid.
Proof.
  cbv zeta. cbn [b_knots List.hd]. rewrite seam_bisect. apply split_roll_opens.
Qed.
End SplitRoll.

(* the result of make_periodic is in canonical form, so open_close_knots applies to it (non-vacuity of the
   canonical-form hypotheses, and a second proof of close_open_make_periodic at knot level) *)
Theorem make_periodic_canonical (p cont : nat) (s e : R) (mid : list R) :
  (cont + 2 <= p)%nat -> (cont <= length mid)%nat -> s < e -> Forall (fun x => s < x < e) mid ->
  let b' := @basis_make_periodic R NumR (mkBasis p (open_knots p s e mid) 0) cont in
  let k0 := b_knots b' in
  (2 * p + cont <= length k0)%nat /\
  (forall i, (i + @b_nfun R b' < length k0)%nat ->
     @kn R NumR k0 (i + @b_nfun R b') = @kn R NumR k0 i + (@b_end R NumR b' - @b_start R NumR b')) /\
  (forall i, (cont + 1 <= i <= p - 1)%nat -> @kn R NumR k0 i = @b_start R NumR b').
Proof.
  intros Hp HM Hse Hin b' k0. split; [|split].
  - unfold k0, b'. rewrite (mp_length p cont s e mid Hp HM). lia.
  - intros i Hi. apply (mp_images p cont s e mid Hp HM i Hi).
  - intros i Hi. unfold b'. rewrite (mp_start p cont s e mid Hp HM).
    apply (mp_mult_start p cont s e mid Hp HM Hse Hin). exact Hi.
Qed.

(* ---------- concrete instances ---------- *)
Ltac list_eq := repeat (apply f_equal2; [lra|]); reflexivity.
Ltac sorted_concrete :=
  apply kn_sorted; cbn [open_knots repeat app sorted_list nleb NumR];
  repeat (apply andb_true_intro; split); try reflexivity;
  match goal with |- Rleb ?a ?b = true => destruct (Rleb_spec a b); [reflexivity|lra] end.

(* open quadratic basis [0,0,0,1,2,3,4,4,4] made C1-periodic: knots [-2,-1,0,1,2,3,4,5,6], 4 functions *)
Example mp_example_hyps :
  (1 + 2 <= 3)%nat /\ (1 <= length [1; 2; 3])%nat /\ sorted (@kn R NumR (open_knots 3 0 4 [1; 2; 3])) /\ 0 < 4
  /\ Forall (fun x => 0 < x < 4) [1; 2; 3].
Proof.
  split; [lia|]. split; [cbn; lia|]. split; [sorted_concrete|]. split; [lra|].
  repeat constructor; lra.
Qed.
Example mp_example_knots :
  b_knots (@basis_make_periodic R NumR (mkBasis 3 (open_knots 3 0 4 [1; 2; 3]) 0) 1) = [-2; -1; 0; 1; 2; 3; 4; 5; 6].
Proof.
  rewrite mp_knots by lia. cbn [length Nat.sub Nat.add slice_list skipn firstn map app repeat]. list_eq.
Qed.
(* C0-periodic cubic with a non-uniform interior: [0,0,0,0,1,2.5,3,4,4,4,4] -> [-1,0,0,0,1,2.5,3,4,4,4,5] *)
Example mp_example_knots_cubic :
  b_knots (@basis_make_periodic R NumR (mkBasis 4 (open_knots 4 0 4 [1; 5/2; 3]) 0) 0)
  = [-1; 0; 0; 0; 1; 5/2; 3; 4; 4; 4; 5].
Proof.
  rewrite mp_knots by lia. cbn [length Nat.sub Nat.add slice_list skipn firstn map app repeat]. list_eq.
Qed.

(* the knot vector of splipy's circle (quadratic, C0-periodic, 8 functions) is in canonical form *)
Example circle_open_knots :
  open_knots_of (mkBasis 3 [-1; 0; 0; 1; 1; 2; 2; 3; 3; 4; 4; 5] 1) = [0; 0; 0; 1; 1; 2; 2; 3; 3; 4; 4; 4].
Proof. reflexivity. Qed.
Example circle_open_close :
  let k0 := [-1; 0; 0; 1; 1; 2; 2; 3; 3; 4; 4; 5] in
  b_knots (@basis_make_periodic R NumR (mkBasis 3 (open_knots_of (mkBasis 3 k0 1)) 0) 0) = k0.
Proof.
  intros k0. apply (open_close_knots 3 0 k0); [lia|cbn; lia| |].
  - intros i Hi. cbn in Hi. do 4 (destruct i as [|i]; [cbn; lra|]). lia.
  - intros i Hi. assert (i = 1%nat \/ i = 2%nat) as [-> | ->] by lia; reflexivity.
Qed.

(* ---------- the whole path executed on Q (model check of the part not proved in general) ----------
   a C1-periodic cubic with a non-uniform interior: obj_split at the seam (split_insert, bisect, roll, truncate)
   returns the open knot vector, and make_periodic with the same continuity returns the periodic one *)
From Coq Require Import QArith.
From SplipyModel Require Import Extract.Exec.
Example open_close_executed :
  let bo := q_mkBasis 4 [0; 0; 0; 0; 1; 5#2; 3; 4; 4; 4; 4]%Q 0 in
  let bp := @basis_make_periodic Q NumQ bo 1 in
  let o := q_mkObj [bp] [[0]; [1]; [3]; [2]; [5]]%Q 1 false in
  match q_obj_split (1#1000000) o 0 [0%Q] with
  | Ok [o'] => let b1 := nth 0 (o_bases o') bo in
       map Qred (b_knots bp) = [-3#2; -1; 0; 0; 1; 5#2; 3; 4; 4; 5; 13#2]%Q /\
       map Qred (b_knots b1) = map Qred (b_knots bo) /\ b_per1 b1 = 0%nat /\
       map Qred (b_knots (@basis_make_periodic Q NumQ b1 1)) = map Qred (b_knots bp)
  | _ => False
  end.
Proof. vm_compute. repeat split; reflexivity. Qed.

