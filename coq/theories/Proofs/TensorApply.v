(* Lifting lemma: applying a matrix C along a parametric direction of the control net
   (Model.Tensor.apply_dir) commutes with tensor-product evaluation when the row of basis values in
   that direction satisfies  N_old = N_new x C.  Every pardim, every direction. *)
From Coq Require Import List Arith Reals Lra Lia Bool ZArith.
From SplipyModel Require Import Spec.BSpline Model.Num Model.Tensor Model.KnotInsert
  Proofs.TensorLemmas Proofs.EvalConsequences Proofs.InsertMatrix.
Import ListNotations.
Open Scope R_scope.

Definition lcf (N : list R) (g : nat -> R) : R := sumf (fun i => nth i N 0 * g i) 0 (length N).

(* scalar contraction of a flat-indexed function *)
Fixpoint tsum (rows : list (list R)) (f : nat -> R) : R :=
  match rows with
  | [] => f 0%nat
  | N :: rest =>
    let m := prodl (map (@length R) rest) in
    lcf N (fun i => tsum rest (fun s => f (i * m + s)%nat))
  end.

Lemma lcf_ext N g h : (forall i, (i < length N)%nat -> g i = h i) -> lcf N g = lcf N h.
Proof. intros H. unfold lcf. apply sumf_ext. intros i Hi. rewrite H by lia. reflexivity. Qed.

Lemma tsum_ext rows : forall f g, (forall i, (i < prodl (map (@length R) rows))%nat -> f i = g i) -> tsum rows f = tsum rows g.
Proof.
  induction rows as [|N rest IH]; intros f g H; cbn [tsum].
  - apply H. cbn. lia.
  - cbv zeta. apply lcf_ext. intros i Hi. apply IH. intros s Hs. apply H.
    cbn [map prodl fold_right]. fold (prodl (map (@length R) rest)). nia.
Qed.

Lemma lcf_sum N (cs : list R) (G : nat -> nat -> R) :
  lcf N (fun i => sumf (fun j => nth j cs 0 * G j i) 0 (length cs))
  = sumf (fun j => nth j cs 0 * lcf N (G j)) 0 (length cs).
Proof.
  unfold lcf.
  rewrite (sumf_ext _ (fun i => sumf (fun j => nth i N 0 * (nth j cs 0 * G j i)) 0 (length cs))).
  2:{ intros i _. rewrite <- sumf_scal. reflexivity. }
  rewrite sumf_exchange.
  apply sumf_ext. intros j _. rewrite <- sumf_scal. apply sumf_ext. intros i _. ring.
Qed.

(* tsum is linear in the net *)
Lemma tsum_lin rows (cs : list R) : forall (G : nat -> nat -> R),
  tsum rows (fun idx => sumf (fun j => nth j cs 0 * G j idx) 0 (length cs))
  = sumf (fun j => nth j cs 0 * tsum rows (G j)) 0 (length cs).
Proof.
  induction rows as [|N rest IH]; intros G; cbn [tsum]; [reflexivity|]. cbv zeta.
  rewrite <- lcf_sum. apply lcf_ext. intros i _.
  rewrite <- (IH (fun j s => G j (i * prodl (map (@length R) rest) + s)%nat)). reflexivity.
Qed.

Lemma lc_map_seq c N (Fv : nat -> list R) : forall off,
  lc c N (map Fv (seq off (length N))) = sumf (fun i => nth i N 0 * coord c (Fv (off + i)%nat)) 0 (length N).
Proof.
  induction N as [|x N IH]; intros off; [reflexivity|].
  cbn [length seq map]. rewrite lc_cons, (IH (S off)). cbn [sumf nth].
  rewrite Nat.add_0_r. f_equal. rewrite <- sumf_shift. apply sumf_ext. intros i _. cbn [nth].
  replace (S off + i)%nat with (off + S i)%nat by lia. reflexivity.
Qed.

Lemma nth_chunk {A} (l : list A) m i s d : (s < m)%nat -> nth s (chunk m i l) d = nth (i * m + s) l d.
Proof. intros H. unfold chunk. rewrite nth_firstn_lt by exact H. apply nth_skipn_add. Qed.

Definition cnet (dim c : nat) (cps : list (list R)) : nat -> R := fun idx => coord c (nth idx cps (@vzero R NumR dim)).

(* T1: coordinates of the vector-valued evaluation are scalar contractions *)
Theorem teval_tsum dim c rows : (c < dim)%nat -> forall cps, net_ok dim rows cps ->
  coord c (@teval R NumR dim rows cps) = tsum rows (cnet dim c cps).
Proof.
  intros Hc. induction rows as [|N rest IH]; intros cps [Hv Hl]; cbn [teval tsum]; [reflexivity|]. cbv zeta.
  cbn [map prodl fold_right] in Hl. fold (prodl (map (@length R) rest)) in Hl.
  destruct (Nat.eq_dec (length N) 0) as [E|E].
  { destruct N; [|cbn in E; lia]. cbn. apply coord_vzero. }
  assert (Hm : (length cps / length N = prodl (map (@length R) rest))%nat).
  { rewrite Hl, Nat.mul_comm. apply Nat.div_mul. exact E. }
  rewrite Hm. set (m := prodl (map (@length R) rest)) in *.
  assert (Hsub : forall i, (i < length N)%nat -> net_ok dim rest (chunk m i cps)).
  { intros i Hi. split; [apply Forall_chunk; exact Hv|]. apply length_chunk. rewrite Hl. nia. }
  rewrite vlincomb_coord with (dim := dim); [| |exact Hc].
  + rewrite (lc_map_seq c N (fun i => @teval R NumR dim rest (chunk m i cps)) 0). unfold lcf.
    apply sumf_ext. intros i Hi. cbn [Nat.add]. f_equal. rewrite IH by (apply Hsub; lia).
    apply tsum_ext. intros s Hs. unfold cnet. rewrite nth_chunk by exact Hs. reflexivity.
  + apply Forall_forall. intros v Hin. apply in_map_iff in Hin. destruct Hin as (i & <- & Hi). apply in_seq in Hi.
    apply teval_length. apply Hsub. lia.
Qed.

(* ---------- structure of apply_dir ---------- *)
Lemma nth_concat_uniform {A} (L : list (list A)) m r s d : Forall (fun l => length l = m) L -> (s < m)%nat ->
  nth (r * m + s) (concat L) d = nth s (nth r L []) d.
Proof.
  revert r; induction L as [|l L IH]; intros r HL Hs.
  - cbn [concat]. rewrite (nth_overflow (@nil A)) by (cbn; lia). destruct r; cbn [nth]; destruct s; reflexivity.
  - inversion HL as [|? ? Hl HL']; subst. cbn [concat]. destruct r as [|r].
    + cbn [Nat.mul Nat.add nth]. apply app_nth1. lia.
    + rewrite app_nth2 by nia. replace (S r * length l + s - length l)%nat with (r * length l + s)%nat by nia.
      cbn [nth]. apply IH; assumption.
Qed.

Lemma length_concat_uniform {A} (L : list (list A)) m : Forall (fun l => length l = m) L -> length (concat L) = (length L * m)%nat.
Proof. induction 1 as [|l L Hl HL IH]; cbn [concat length]; [reflexivity|]. rewrite app_length, IH, Hl. lia. Qed.

Definition upd_nat (l : list nat) (i v : nat) : list nat := @upd nat l i v.

Lemma length_apply_dir dim (C : list (list R)) : forall shape d cps, (d < length shape)%nat ->
  length cps = prodl shape -> (0 < prodl shape)%nat ->
  length (@apply_dir R NumR dim shape d C cps) = prodl (@upd nat shape d (length C)).
Proof.
  induction shape as [|n shape IH]; intros d cps Hd Hl Hpos; [cbn in Hd; lia|].
  cbn [apply_dir]. cbv zeta.
  cbn [prodl fold_right] in Hl, Hpos. fold (prodl shape) in Hl, Hpos.
  assert (Hn : (0 < n)%nat) by nia. assert (Hps : (0 < prodl shape)%nat) by nia.
  assert (Hm : (length cps / n = prodl shape)%nat) by (rewrite Hl, Nat.mul_comm; apply Nat.div_mul; lia).
  rewrite Hm. destruct d as [|d].
  - rewrite (length_concat_uniform _ (prodl shape)).
    + rewrite map_length. cbn [upd prodl fold_right]. reflexivity.
    + apply Forall_forall. intros l Hin. apply in_map_iff in Hin. destruct Hin as (row & <- & _).
      unfold chunks_lincomb. rewrite map_length, seq_length. reflexivity.
  - rewrite (length_concat_uniform _ (prodl (@upd nat shape d (length C)))).
    + rewrite !map_length, seq_length. cbn [upd prodl fold_right]. reflexivity.
    + apply Forall_forall. intros l Hin. apply in_map_iff in Hin. destruct Hin as (ch & <- & Hch).
      apply in_map_iff in Hch. destruct Hch as (i & <- & Hi). apply in_seq in Hi.
      apply IH; [cbn in Hd; lia| |exact Hps]. apply length_chunk. rewrite Hl. nia.
Qed.

Lemma Forall_apply_dir dim (C : list (list R)) : forall shape d cps,
  Forall (fun v => length v = dim) cps -> Forall (fun v => length v = dim) (@apply_dir R NumR dim shape d C cps).
Proof.
  induction shape as [|n shape IH]; intros d cps Hv; cbn [apply_dir]; [exact Hv|]. cbv zeta.
  destruct d as [|d].
  - apply Forall_concat. apply Forall_forall. intros l Hin. apply in_map_iff in Hin. destruct Hin as (row & <- & _).
    unfold chunks_lincomb. apply Forall_forall. intros v Hin. apply in_map_iff in Hin. destruct Hin as (s & <- & _).
    apply vlincomb_length. apply Forall_forall. intros u Hu. apply in_map_iff in Hu. destruct Hu as (ch & <- & Hch).
    apply in_map_iff in Hch. destruct Hch as (i & <- & _).
    destruct (Nat.lt_ge_cases s (length (chunk (length cps / n) i cps))) as [L|L].
    + pose proof (Forall_chunk _ (length cps / n) i cps Hv) as FC. rewrite Forall_forall in FC. apply FC. apply nth_In. exact L.
    + rewrite nth_overflow by exact L. apply length_vzero.
  - apply Forall_concat. apply Forall_forall. intros l Hin. apply in_map_iff in Hin. destruct Hin as (ch & <- & Hch).
    apply in_map_iff in Hch. destruct Hch as (i & <- & _). apply IH. apply Forall_chunk. exact Hv.
Qed.

(* matrix-vector relation between the old and the new row of basis values *)
Definition row_rel (N N' : list R) (C : list (list R)) : Prop :=
  length C = length N' /\ Forall (fun row => length row = length N) C /\
  forall j, (j < length N)%nat -> nth j N 0 = sumf (fun r => nth r N' 0 * nth j (nth r C []) 0) 0 (length N').

Lemma lc_rowsum c (row : list R) (vs : list (list R)) : length row = length vs ->
  lc c row vs = sumf (fun j => nth j row 0 * coord c (nth j vs [])) 0 (length row).
Proof.
  revert vs; induction row as [|x row IH]; intros vs Hl; [reflexivity|].
  destruct vs as [|v vs]; [cbn in Hl; lia|]. rewrite lc_cons. cbn [length sumf nth]. f_equal.
  rewrite IH by (cbn in Hl; lia). rewrite <- sumf_shift. reflexivity.
Qed.

(* main theorem *)
Theorem tsum_apply_dir dim c (C : list (list R)) : forall rows d N' cps,
  (d < length rows)%nat -> (c < dim)%nat ->
  net_ok dim rows cps -> (0 < prodl (map (@length R) rows))%nat ->
  row_rel (nth d rows []) N' C ->
  tsum (@upd (list R) rows d N') (cnet dim c (@apply_dir R NumR dim (map (@length R) rows) d C cps))
  = tsum rows (cnet dim c cps).
Proof.
  induction rows as [|N rest IH]; intros d N' cps Hd Hc [Hv Hl] Hpos HR; [cbn in Hd; lia|].
  cbn [map prodl fold_right] in Hl, Hpos. fold (prodl (map (@length R) rest)) in Hl, Hpos.
  set (m := prodl (map (@length R) rest)) in *.
  assert (HN : (0 < length N)%nat) by nia. assert (Hmp : (0 < m)%nat) by nia.
  assert (Hm : (length cps / length N = m)%nat) by (rewrite Hl, Nat.mul_comm; apply Nat.div_mul; lia).
  destruct d as [|d].
  - (* the matrix acts on the outermost direction *)
    cbn [nth] in HR. destruct HR as (HC1 & HC2 & HC3).
    cbn [upd tsum map apply_dir]. cbv zeta. rewrite Hm. fold m.
    set (chunks := map (fun i => chunk m i cps) (seq 0 (length N))).
    set (new := concat (map (fun row => @chunks_lincomb R NumR m row chunks dim) C)).
    (* rewrite every inner contraction of the new net *)
    assert (Inner : forall r, (r < length N')%nat ->
      tsum rest (fun s => cnet dim c new (r * m + s)%nat)
      = sumf (fun j => nth j (nth r C []) 0 * tsum rest (fun s => cnet dim c cps (j * m + s)%nat)) 0 (length N)).
    { intros r Hr.
      assert (Hrow : length (nth r C []) = length N).
      { rewrite Forall_forall in HC2. apply HC2. apply nth_In. lia. }
      rewrite <- Hrow.
      rewrite <- (tsum_lin rest (nth r C []) (fun j idx => cnet dim c cps (j * m + idx)%nat)).
      apply tsum_ext. intros s Hs. fold m in Hs. unfold cnet at 1. unfold new.
      rewrite (nth_concat_uniform _ m r s) by
        (try exact Hs; apply Forall_forall; intros l Hin; apply in_map_iff in Hin; destruct Hin as (row & <- & _);
         unfold chunks_lincomb; rewrite map_length, seq_length; reflexivity).
      rewrite (nth_indep _ [] (@chunks_lincomb R NumR m [] chunks dim)) by (rewrite map_length; lia).
      rewrite (map_nth (fun row => @chunks_lincomb R NumR m row chunks dim)).
      unfold chunks_lincomb.
      rewrite (nth_indep _ _ ((fun c0 => @vlincomb R NumR dim (nth r C []) (map (fun ch => nth c0 ch (@vzero R NumR dim)) chunks)) 0%nat))
        by (rewrite map_length, seq_length; exact Hs).
      rewrite (map_nth (fun c0 => @vlincomb R NumR dim (nth r C []) (map (fun ch => nth c0 ch (@vzero R NumR dim)) chunks))).
      rewrite seq_nth by exact Hs. cbn [Nat.add].
      rewrite vlincomb_coord with (dim := dim); [| |exact Hc].
      + rewrite lc_rowsum by (unfold chunks; rewrite !map_length, seq_length; exact Hrow).
        apply sumf_ext. intros j Hj. f_equal. unfold cnet, chunks.
        rewrite (nth_indep _ [] ((fun ch => nth s ch (@vzero R NumR dim)) [])) by (rewrite !map_length, seq_length; lia).
        rewrite (map_nth (fun ch => nth s ch (@vzero R NumR dim))).
        rewrite (nth_indep _ [] ((fun i => chunk m i cps) 0%nat)) by (rewrite map_length, seq_length; lia).
        rewrite (map_nth (fun i => chunk m i cps)). rewrite seq_nth by lia. cbn [Nat.add].
        rewrite nth_chunk by exact Hs. reflexivity.
      + apply Forall_forall. intros v Hin. apply in_map_iff in Hin. destruct Hin as (ch & <- & Hch).
        unfold chunks in Hch. apply in_map_iff in Hch. destruct Hch as (i & <- & Hi). apply in_seq in Hi.
        assert (Lc : length (chunk m i cps) = m) by (apply length_chunk; rewrite Hl; nia).
        pose proof (Forall_chunk _ m i cps Hv) as FC. rewrite Forall_forall in FC. apply FC. apply nth_In. lia. }
    unfold lcf.
    rewrite (sumf_ext _ (fun r => nth r N' 0 * sumf (fun j => nth j (nth r C []) 0 * tsum rest (fun s => cnet dim c cps (j * m + s)%nat)) 0 (length N))).
    2:{ intros r Hr. rewrite Inner by lia. reflexivity. }
    rewrite (sumf_ext _ (fun r => sumf (fun j => nth r N' 0 * nth j (nth r C []) 0 * tsum rest (fun s => cnet dim c cps (j * m + s)%nat)) 0 (length N))).
    2:{ intros r _. rewrite <- sumf_scal. apply sumf_ext. intros j _. ring. }
    rewrite sumf_exchange. apply sumf_ext. intros j Hj.
    set (T := tsum rest (fun s => cnet dim c cps (j * m + s)%nat)).
    rewrite (sumf_ext _ (fun r => T * (nth r N' 0 * nth j (nth r C []) 0))) by (intros; ring).
    rewrite sumf_scal. rewrite <- (HC3 j ltac:(lia)). ring.
  - (* the matrix acts on an inner direction: recurse into every chunk *)
    cbn [nth] in HR. cbn [upd tsum map apply_dir length] in *. cbv zeta. rewrite Hm. fold m.
    assert (Hd' : (d < length rest)%nat) by lia.
    set (m' := prodl (map (@length R) (@upd (list R) rest d N'))).
    unfold lcf. apply sumf_ext. intros i Hi.
    f_equal.
    assert (Hch : net_ok dim rest (chunk m i cps)).
    { split; [apply Forall_chunk; exact Hv|]. apply length_chunk. rewrite Hl. fold m. nia. }
    transitivity (tsum rest (cnet dim c (chunk m i cps))).
    2:{ apply tsum_ext. intros s Hs. unfold cnet. rewrite nth_chunk by exact Hs. reflexivity. }
    rewrite <- (IH d N' (chunk m i cps) Hd' Hc Hch Hmp HR).
    apply tsum_ext. intros s Hs. fold m' in Hs.
    assert (Hlen_new : forall i0, (i0 < length N)%nat ->
       length (@apply_dir R NumR dim (map (@length R) rest) d C (chunk m i0 cps)) = m').
    { intros i0 Hi0. rewrite length_apply_dir.
      - unfold m'. f_equal. destruct HR as (HC1 & _). rewrite HC1.
        clear. revert d. induction rest as [|a rest IHr]; intros d; [reflexivity|]. destruct d; cbn [upd map]; [reflexivity|]. f_equal. apply IHr.
      - rewrite map_length. exact Hd'.
      - apply length_chunk. rewrite Hl. fold m. nia.
      - exact Hmp. }
    unfold cnet at 1.
    rewrite (nth_concat_uniform _ m' i s).
    + rewrite (nth_indep _ [] ((fun ch => @apply_dir R NumR dim (map (@length R) rest) d C ch) [])) by (rewrite !map_length, seq_length; lia).
      rewrite (map_nth (fun ch => @apply_dir R NumR dim (map (@length R) rest) d C ch)).
      rewrite (nth_indep _ [] ((fun i1 => chunk m i1 cps) 0%nat)) by (rewrite map_length, seq_length; lia).
      rewrite (map_nth (fun i1 => chunk m i1 cps)). rewrite seq_nth by lia. reflexivity.
    + apply Forall_forall. intros l Hin. apply in_map_iff in Hin. destruct Hin as (ch & <- & Hin).
      apply in_map_iff in Hin. destruct Hin as (i0 & <- & Hi0). apply in_seq in Hi0. apply Hlen_new. lia.
    + exact Hs.
Qed.
