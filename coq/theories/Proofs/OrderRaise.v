(* C05: raise_order(1) on a non-periodic direction preserves the evaluated map (FULL statement for that case).
   The order-change matrix of the model (two-sided inverse of the new collocation matrix at the new Greville
   points, times the old collocation matrix) IS the nestedness matrix of Proofs/RaiseNested.v, because that
   matrix also solves the collocation system and the system has a two-sided inverse. *)
From Coq Require Import List Arith Reals Lra Lia Bool ZArith Permutation.
From SplipyModel Require Import Spec.BSpline Spec.Deriv Spec.Boehm Spec.DegreeElev Spec.Nested
  Model.Num Model.BasisDef Model.BasisEval Model.Tensor Model.Obj Model.KnotInsert Model.Solve Model.Interp Model.Order
  Proofs.Bridge Proofs.KnotList Proofs.SpanCorrect Proofs.EvaluateSpec Proofs.EvalConsequences Proofs.InsertMatrix
  Proofs.TensorLemmas Proofs.TensorApply Proofs.OrderProofs Proofs.LinAlg Proofs.RaiseNested.
Import ListNotations.
Open Scope R_scope.

(* ---- snap depends on the knot list only through its set of values ---- *)
Lemma kn_In (k : list R) i : (i < length k)%nat -> In (@kn R NumR k i) k.
Proof. intros Hi. rewrite (kn_in k i Hi 0). apply nth_In, Hi. Qed.

Lemma snap1_values (k1 k2 : list R) tol t :
  sorted (@kn R NumR k1) -> sorted (@kn R NumR k2) -> (forall x, In x k1 <-> In x k2) ->
  @snap1 R NumR k1 tol t = @snap1 R NumR k2 tol t.
Proof.
  intros S1 S2 E. unfold snap1. cbv zeta.
  destruct (bisect_left_spec (@kn R NumR k1) S1 t (length k1)) as (A1 & B1 & C1).
  destruct (bisect_left_spec (@kn R NumR k2) S2 t (length k2)) as (A2 & B2 & C2). cbv zeta in *.
  set (i1 := @bisect_left R NumR (@kn R NumR k1) t (length k1)) in *.
  set (i2 := @bisect_left R NumR (@kn R NumR k2) t (length k2)) in *.
  (* the first knot >= t *)
  assert (Up : forall (ka kb : list R) ia ib, sorted (@kn R NumR kb) ->
             (forall x, In x ka -> In x kb) -> (ia < length ka)%nat -> t <= @kn R NumR ka ia ->
             (ib <= length kb)%nat -> (forall j, (j < ib)%nat -> @kn R NumR kb j < t) ->
             (ib < length kb)%nat /\ @kn R NumR kb ib <= @kn R NumR ka ia).
  { intros ka kb ia ib Sb Inc Hia Hge Hib Hlt.
    destruct (In_nth kb _ 0 (Inc _ (kn_In ka ia Hia))) as (j & Hj & Ej). rewrite <- (kn_in kb j Hj 0) in Ej.
    assert (ib <= j)%nat. { destruct (Nat.le_gt_cases ib j); [assumption|]. pose proof (Hlt j ltac:(lia)). lra. }
    split; [lia|]. rewrite <- Ej. apply Sb. assumption. }
  (* the last knot < t *)
  assert (Dn : forall (ka kb : list R) ia ib, sorted (@kn R NumR kb) ->
             (forall x, In x ka -> In x kb) -> (0 < ia <= length ka)%nat -> @kn R NumR ka (ia - 1) < t ->
             (ib <= length kb)%nat -> (forall j, (ib <= j < length kb)%nat -> t <= @kn R NumR kb j) ->
             (0 < ib)%nat /\ @kn R NumR ka (ia - 1) <= @kn R NumR kb (ib - 1)).
  { intros ka kb ia ib Sb Inc Hia Hlt Hib Hge.
    destruct (In_nth kb _ 0 (Inc _ (kn_In ka (ia - 1) ltac:(lia)))) as (j & Hj & Ej). rewrite <- (kn_in kb j Hj 0) in Ej.
    assert (j < ib)%nat. { destruct (Nat.le_gt_cases ib j); [|assumption]. pose proof (Hge j ltac:(lia)). lra. }
    split; [lia|]. rewrite <- Ej. apply Sb. lia. }
  assert (E12 : forall x, In x k1 -> In x k2) by (intros; apply E; assumption).
  assert (E21 : forall x, In x k2 -> In x k1) by (intros; apply E; assumption).
  assert (Hup : ((i1 <? length k1) = (i2 <? length k2))%nat /\ ((i1 < length k1)%nat -> @kn R NumR k1 i1 = @kn R NumR k2 i2)).
  { destruct (Nat.ltb_spec i1 (length k1)) as [L1|L1]; destruct (Nat.ltb_spec i2 (length k2)) as [L2|L2].
    - split; [reflexivity|]. intros _.
      destruct (Up k1 k2 i1 i2 S2 E12 L1 (C1 i1 ltac:(lia)) A2 B2) as [_ U1].
      destruct (Up k2 k1 i2 i1 S1 E21 L2 (C2 i2 ltac:(lia)) A1 B1) as [_ U2]. lra.
    - exfalso. destruct (Up k1 k2 i1 i2 S2 E12 L1 (C1 i1 ltac:(lia)) A2 B2) as [U0 _]. lia.
    - exfalso. destruct (Up k2 k1 i2 i1 S1 E21 L2 (C2 i2 ltac:(lia)) A1 B1) as [U0 _]. lia.
    - split; [reflexivity|]. intros; lia. }
  assert (Hdn : ((0 <? i1) = (0 <? i2))%nat /\ ((0 < i1)%nat -> @kn R NumR k1 (i1 - 1) = @kn R NumR k2 (i2 - 1))).
  { destruct (Nat.ltb_spec 0 i1) as [L1|L1]; destruct (Nat.ltb_spec 0 i2) as [L2|L2].
    - split; [reflexivity|]. intros _.
      destruct (Dn k1 k2 i1 i2 S2 E12 ltac:(lia) (B1 (i1 - 1)%nat ltac:(lia)) A2 C2) as [_ U1].
      destruct (Dn k2 k1 i2 i1 S1 E21 ltac:(lia) (B2 (i2 - 1)%nat ltac:(lia)) A1 C1) as [_ U2]. lra.
    - exfalso. destruct (Dn k1 k2 i1 i2 S2 E12 ltac:(lia) (B1 (i1 - 1)%nat ltac:(lia)) A2 C2) as [U0 _]. lia.
    - exfalso. destruct (Dn k2 k1 i2 i1 S1 E21 ltac:(lia) (B2 (i2 - 1)%nat ltac:(lia)) A1 C1) as [U0 _]. lia.
    - split; [reflexivity|]. intros; lia. }
  destruct Hup as [Hu1 Hu2]. destruct Hdn as [Hd1 Hd2]. rewrite <- Hu1, <- Hd1.
  destruct (Nat.ltb_spec i1 (length k1)) as [L1|L1]; cbn [andb].
  - rewrite <- (Hu2 L1). destruct (@nltb R NumR _ tol); [reflexivity|].
    destruct (Nat.ltb_spec 0 i1) as [Z1|Z1]; cbn [andb]; [|reflexivity]. rewrite <- (Hd2 Z1). reflexivity.
  - destruct (Nat.ltb_spec 0 i1) as [Z1|Z1]; cbn [andb]; [|reflexivity]. rewrite <- (Hd2 Z1). reflexivity.
Qed.

(* ---- rows of a non-periodic collocation matrix are rows of Cox-de Boor values ---- *)
Lemma sumf_pick (f : nat -> R) c b n : (b <= c < b + n)%nat ->
  sumf (fun i => if (i =? c)%nat then f i else 0) b n = f c.
Proof.
  revert b; induction n as [|n IH]; intros b Hc; [lia|]. cbn [sumf].
  destruct (Nat.eqb_spec b c) as [->|N].
  - rewrite sumf_zero; [ring|]. intros i Hi. destruct (Nat.eqb_spec i c); [lia|reflexivity].
  - rewrite IH by lia. ring.
Qed.

Lemma ref_row_nonper side (k : list R) p t c : sorted (@kn R NumR k) -> (1 <= p)%nat -> (c < length k - p)%nat ->
  nth c (@ref_row R NumR side k p 0 0 t) 0 = B side (@kn R NumR k) (p - 1) c t.
Proof.
  intros HK Hp Hc. rewrite (ref_row_entry k p 0 side 0 t c) by lia.
  replace (length k - p - 0)%nat with (length k - p)%nat by lia.
  rewrite (sumf_ext _ (fun i => if (i =? c)%nat then B side (@kn R NumR k) (p - 1) i t else 0)).
  - apply sumf_pick. lia.
  - intros i Hi. rewrite Nat.mod_small by lia. reflexivity.
Qed.

Definition Brow (side : bool) (k : list R) (p : nat) (t : R) : list R :=
  map (fun j => B side (@kn R NumR k) (p - 1) j t) (seq 0 (length k - p)).

Lemma colloc_row (k : list R) p tol pts s :
  sorted (@kn R NumR k) -> (1 <= p)%nat -> (2 * p <= length k)%nat -> 0 < tol -> (s < length pts)%nat ->
  nth s (@colloc R NumR tol (mkBasis p k 0) 0 pts) [] =
    match @normalise R NumR k p 0 tol true (@snap1 R NumR k tol (nth s pts 0)) with
    | None => repeat 0 (length k - p)
    | Some (t, side) => Brow side k p t
    end.
Proof.
  intros HK Hp Hlen Htol Hs. unfold colloc. cbn [b_knots b_order b_per1].
  pose proof (basis_evaluate_spec k p 0 HK Hp Hlen tol Htol 0 true pts s Hs) as ES. cbv zeta in ES. rewrite ES.
  destruct (Nat.leb_spec p 0); [lia|]. replace (length k - p - 0)%nat with (length k - p)%nat by lia.
  destruct (@normalise R NumR k p 0 tol true _) as [[t side]|]; [|reflexivity].
  apply (nth_ext _ _ 0 0).
  - rewrite (ref_row_length k p 0). unfold Brow. rewrite map_length, seq_length. lia.
  - intros c Hc. rewrite (ref_row_length k p 0) in Hc. rewrite ref_row_nonper by (assumption || lia).
    unfold Brow. rewrite (nth_map_gen _ _ c 0 0%nat) by (rewrite seq_length; lia). rewrite seq_nth by lia. reflexivity.
Qed.

Lemma colloc_mat (k : list R) p tol pts :
  sorted (@kn R NumR k) -> (1 <= p)%nat -> (2 * p <= length k)%nat -> 0 < tol ->
  mat (length pts) (length k - p) (@colloc R NumR tol (mkBasis p k 0) 0 pts).
Proof.
  intros HK Hp Hlen Htol.
  assert (HL : length (@colloc R NumR tol (mkBasis p k 0) 0 pts) = length pts).
  { unfold colloc, basis_evaluate. cbv zeta. destruct (_ <=? _)%nat; rewrite !map_length; reflexivity. }
  split; [exact HL|]. apply Forall_forall. intros row Hr. destruct (In_nth _ _ [] Hr) as (s & Hs & <-). rewrite HL in Hs.
  rewrite colloc_row by assumption. destruct (@normalise R NumR k p 0 tol true _) as [[t side]|].
  - unfold Brow. rewrite map_length, seq_length. reflexivity.
  - apply repeat_length.
Qed.

(* ---------------------------------------------------------------------------------------------- *)
(* Generic part: whenever the old functions are combinations of the new ones (some matrix C), the domains
   agree and the knot values agree, the model's order-change matrix IS C. *)
Section Generic.
Variables l L : list R.
Variables p P : nat.
Variable tol : R.
Hypothesis Hl : sorted (@kn R NumR l).
Hypothesis HL : sorted (@kn R NumR L).
Hypothesis Hvals : forall x, In x l <-> In x L.
Hypothesis Hp : (1 <= p)%nat.
Hypothesis HP : (1 <= P)%nat.
Hypothesis Hlen : (2 * p <= length l)%nat.
Hypothesis HLen : (2 * P <= length L)%nat.
Hypothesis Htol : 0 < tol.
Local Notation n := (length l - p)%nat.
Local Notation N := (length L - P)%nat.
Hypothesis Hn : (0 < N)%nat.
Hypothesis Hstart : @kn R NumR L (P - 1) = @kn R NumR l (p - 1).
Hypothesis Hend : @kn R NumR L (length L - P) = @kn R NumR l (length l - p).
Hypothesis Hnest : exists C : list (list R), mat N n C /\
    forall side t i, (i < n)%nat ->
      B side (@kn R NumR l) (p - 1) i t = sumf (fun r => B side (@kn R NumR L) (P - 1) r t * ment C r i) 0 N.

Let b := @mkBasis R p l 0.
Let b' := @mkBasis R P L 0.

Lemma normalise_same t0 : @normalise R NumR L P 0 tol true t0 = @normalise R NumR l p 0 tol true t0.
Proof. unfold normalise. cbv zeta. rewrite Hstart, Hend. reflexivity. Qed.

(* both collocation matrices at the same points use the same normalised (parameter, side) per row *)
Lemma colloc_rows_same pts s : (s < length pts)%nat ->
  (nth s (@colloc R NumR tol b 0 pts) [] = repeat 0 n /\ nth s (@colloc R NumR tol b' 0 pts) [] = repeat 0 N) \/
  (exists t side, nth s (@colloc R NumR tol b 0 pts) [] = Brow side l p t /\ nth s (@colloc R NumR tol b' 0 pts) [] = Brow side L P t).
Proof.
  intros Hs. unfold b, b'.
  rewrite (colloc_row l p tol pts s Hl Hp Hlen Htol Hs), (colloc_row L P tol pts s HL HP HLen Htol Hs).
  rewrite (snap1_values L l tol (nth s pts 0) HL Hl ltac:(intros; symmetry; apply Hvals)).
  rewrite normalise_same.
  destruct (@normalise R NumR l p 0 tol true _) as [[t side]|]; [right; exists t, side; auto|left; auto].
Qed.

Lemma Brow_nth side k pp t i : (i < length k - pp)%nat -> nth i (Brow side k pp t) 0 = B side (@kn R NumR k) (pp - 1) i t.
Proof. intros Hi. unfold Brow. rewrite (nth_map_gen _ _ i 0 0%nat) by (rewrite seq_length; lia). rewrite seq_nth by lia. reflexivity. Qed.

Theorem order_change_is_nested M :
  @order_change_matrix R NumR tol b b' = Ok M ->
  mat N n M /\
  forall side t i, (i < n)%nat ->
    B side (@kn R NumR l) (p - 1) i t = sumf (fun r => B side (@kn R NumR L) (P - 1) r t * ment M r i) 0 N.
Proof.
  unfold order_change_matrix. cbv zeta.
  set (pts := @greville_pts R NumR b').
  set (A := @colloc R NumR tol b' 0 pts). set (Bm := @colloc R NumR tol b 0 pts).
  destruct (@inverse R NumR A) as [Ai|e] eqn:EI; [|discriminate]. intros [= <-].
  assert (Hpts : length pts = N).
  { unfold pts, greville_pts. rewrite map_length, seq_length. unfold b', b_nfun. cbn [b_knots b_order b_per1]. lia. }
  assert (HA : mat N N A).
  { unfold A, b'. rewrite <- Hpts at 1. apply colloc_mat; assumption. }
  assert (HB : mat N n Bm).
  { unfold Bm, b. rewrite <- Hpts. apply colloc_mat; assumption. }
  destruct (inverse_spec A Ai EI) as (_ & HAiA & HAi). destruct HA as [LA FA]. rewrite LA in HAiA, HAi.
  destruct Hnest as (C & HC & HCe).
  assert (EB : Bm = @matmul R NumR A C).
  { apply (mat_ext N n); [exact HB|apply (matmul_mat N N n); [split; assumption|exact HC|exact Hn]|].
    intros s i Hsn Hi. rewrite (matmul_ent N N n) by (try assumption; split; assumption).
    unfold ment at 1. unfold ment at 1.
    destruct (colloc_rows_same pts s ltac:(lia)) as [[E1 E2]|(t & side & E1 & E2)]; fold Bm in E1; fold A in E2; rewrite E1.
    - rewrite nth_repeat. symmetry. apply sumf_zero. intros r _. rewrite E2, nth_repeat. ring.
    - rewrite Brow_nth by exact Hi. rewrite (HCe side t i Hi). apply sumf_ext. intros r Hr.
      rewrite E2, Brow_nth by lia. reflexivity. }
  assert (EM : @matmul R NumR Ai Bm = C).
  { rewrite EB. rewrite <- (matmul_assoc N N N n Ai A C HAi (conj LA FA) HC Hn Hn). rewrite HAiA.
    apply (matmul_ident_l N n C HC Hn). }
  rewrite EM. split; [exact HC|exact HCe].
Qed.

(* row form used by the tensor lifting lemma *)
Definition Nold (side : bool) (t : R) : list R := Brow side l p t.
Definition Nnew (side : bool) (t : R) : list R := Brow side L P t.

Theorem order_change_row_rel M side t : @order_change_matrix R NumR tol b b' = Ok M -> row_rel (Nold side t) (Nnew side t) M.
Proof.
  intros HM. destruct (order_change_is_nested M HM) as ([LM FM] & HE).
  unfold row_rel, Nold, Nnew, Brow. rewrite !map_length, !seq_length. split; [exact LM|]. split; [exact FM|].
  intros j Hj. rewrite (nth_map_gen _ _ j 0 0%nat) by (rewrite seq_length; exact Hj). rewrite seq_nth by exact Hj. cbn [Nat.add].
  rewrite (HE side t j Hj). apply sumf_ext. intros r Hr.
  rewrite (nth_map_gen _ _ r 0 0%nat) by (rewrite seq_length; lia). rewrite seq_nth by lia. reflexivity.
Qed.

(* the change of basis in direction d (the other directions are arbitrary rows) leaves every coordinate of the
   tensor-product evaluation unchanged, for every parameter and both one-sided variants *)
Theorem order_change_preserves_map M dim c side t (rows : list (list R)) d cps :
  @order_change_matrix R NumR tol b b' = Ok M ->
  (d < length rows)%nat -> (c < dim)%nat -> nth d rows [] = Nold side t ->
  net_ok dim rows cps -> (0 < prodl (map (@length R) rows))%nat ->
  coord c (@teval R NumR dim (@upd (list R) rows d (Nnew side t))
                  (@apply_dir R NumR dim (map (@length R) rows) d M cps))
  = coord c (@teval R NumR dim rows cps).
Proof.
  intros HM Hd Hc Hrow Hnet Hpos.
  assert (RR : row_rel (nth d rows []) (Nnew side t) M) by (rewrite Hrow; apply order_change_row_rel; exact HM).
  rewrite (teval_tsum dim c rows Hc cps Hnet).
  rewrite <- (tsum_apply_dir dim c M rows d (Nnew side t) cps Hd Hc Hnet Hpos RR).
  apply teval_tsum; [exact Hc|].
  destruct Hnet as [Hv Hl0]. split; [apply Forall_apply_dir; exact Hv|].
  rewrite length_apply_dir; [| rewrite map_length; exact Hd | exact Hl0 | exact Hpos ].
  f_equal. destruct RR as (HC1 & _). rewrite HC1.
  clear. revert d. induction rows as [|a rows IHr]; intros d; [reflexivity|]. destruct d; cbn [upd map]; [reflexivity|]. f_equal. apply IHr.
Qed.

(* lowering back: the matrix of the reverse change of basis is a left inverse of M, so lower_order
   restores the control points exactly (provided the lower basis is the original one) *)
Theorem lower_after_raise M M2 :
  (0 < n)%nat ->
  @order_change_matrix R NumR tol b b' = Ok M -> @order_change_matrix R NumR tol b' b = Ok M2 ->
  @matmul R NumR M2 M = @ident R NumR n.
Proof.
  intros Hn0 HM. destruct (order_change_is_nested M HM) as (HMm & HE).
  unfold order_change_matrix. cbv zeta.
  set (pts := @greville_pts R NumR b).
  set (A := @colloc R NumR tol b 0 pts). set (Bm := @colloc R NumR tol b' 0 pts).
  destruct (@inverse R NumR A) as [Ai|e] eqn:EI; [|discriminate]. intros [= <-].
  assert (Hpts : length pts = n).
  { unfold pts, greville_pts. rewrite map_length, seq_length. unfold b, b_nfun. cbn [b_knots b_order b_per1]. lia. }
  assert (HA : mat n n A) by (unfold A, b; rewrite <- Hpts at 1; apply colloc_mat; assumption).
  assert (HB : mat n N Bm) by (unfold Bm, b'; rewrite <- Hpts; apply colloc_mat; assumption).
  destruct (inverse_spec A Ai EI) as (_ & HAiA & HAi). destruct HA as [LA FA]. rewrite LA in HAiA, HAi.
  assert (EB : @matmul R NumR Bm M = A).
  { apply (mat_ext n n); [apply (matmul_mat n N n); assumption|split; assumption|].
    intros s i Hsn Hi. rewrite (matmul_ent n N n) by assumption.
    unfold ment at 3. 
    destruct (colloc_rows_same pts s ltac:(lia)) as [[E1 E2]|(t & side & E1 & E2)]; fold A in E1; fold Bm in E2; rewrite E1.
    - rewrite nth_repeat. apply sumf_zero. intros r _. unfold ment at 1. rewrite E2, nth_repeat. ring.
    - rewrite Brow_nth by exact Hi. rewrite (HE side t i Hi). apply sumf_ext. intros r Hr.
      unfold ment at 1. rewrite E2, Brow_nth by lia. reflexivity. }
  rewrite (matmul_assoc n n N n Ai Bm M HAi HB HMm Hn0 Hn). rewrite EB. exact HAiA.
Qed.
End Generic.
