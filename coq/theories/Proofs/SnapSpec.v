(* snap(): a parameter within the tolerance of a knot becomes that knot, otherwise it is
   unchanged; snapping is idempotent. *)
From Coq Require Import List Arith Reals Lra Lia Bool ZArith.
From SplipyModel Require Import Spec.BSpline Model.Num Model.BasisDef Model.BasisEval
  Proofs.SpanCorrect Proofs.EvaluateSpec.
Import ListNotations.
Open Scope R_scope.

Section Snap.
Variable k : list R.
Hypothesis HK : sorted (kn k).
Variable tol : R.
Hypothesis Htol : 0 < tol.
Local Notation K := (@kn R NumR k).
Local Notation n := (length k).

Theorem snap1_spec t :
  let s := @snap1 R NumR k tol t in
  (exists i, (i < n)%nat /\ s = K i /\ Rabs (K i - t) < tol) \/
  (s = t /\ forall i, (i < n)%nat -> ~ Rabs (K i - t) < tol).
Proof.
  cbv zeta. unfold snap1. cbv zeta.
  destruct (bisect_left_spec K HK t n) as (A & Bm & Cm). cbv zeta in *.
  set (i := @bisect_left R NumR K t n) in *.
  rewrite !nabs_R. cbn [nltb nsub NumR].
  destruct (Nat.ltb_spec i n) as [L|L]; cbn [andb].
  - destruct (Rltb_spec (Rabs (K i - t)) tol) as [E|E].
    + left. exists i. repeat split; [exact L|exact E].
    + destruct (Nat.ltb_spec 0 i) as [L0|L0]; cbn [andb].
      * destruct (Rltb_spec (Rabs (K (i-1)%nat - t)) tol) as [E2|E2].
        -- left. exists (i-1)%nat. split; [lia|]. split; [reflexivity|exact E2].
        -- right. split; [reflexivity|]. intros j Hj Hc.
           destruct (Nat.lt_ge_cases j i) as [J|J].
           ++ pose proof (Bm j J). pose proof (Bm (i-1)%nat ltac:(lia)). pose proof (HK j (i-1)%nat ltac:(lia)).
              apply E2. rewrite Rabs_left in * by lra. lra.
           ++ pose proof (Cm j ltac:(lia)). pose proof (Cm i ltac:(lia)). pose proof (HK i j J). fold K in H1.
              apply E. destruct (Req_dec (K i) t) as [Q|Q].
              ** rewrite Q. replace (t - t) with 0 by ring. rewrite Rabs_R0. exact Htol.
              ** rewrite Rabs_right in * by lra. lra.
      * right. split; [reflexivity|]. intros j Hj Hc.
        pose proof (Cm j ltac:(lia)). pose proof (Cm i ltac:(lia)). pose proof (HK i j ltac:(lia)). fold K in H1.
        apply E. destruct (Req_dec (K i) t) as [Q|Q].
        ** rewrite Q. replace (t - t) with 0 by ring. rewrite Rabs_R0. exact Htol.
        ** rewrite Rabs_right in * by lra. lra.
  - destruct (Nat.ltb_spec 0 i) as [L0|L0]; cbn [andb].
    + destruct (Rltb_spec (Rabs (K (i-1)%nat - t)) tol) as [E2|E2].
      * left. exists (i-1)%nat. split; [lia|]. split; [reflexivity|exact E2].
      * right. split; [reflexivity|]. intros j Hj Hc.
        pose proof (Bm j ltac:(lia)). pose proof (Bm (i-1)%nat ltac:(lia)). pose proof (HK j (i-1)%nat ltac:(lia)).
        apply E2. rewrite Rabs_left in * by lra. lra.
    + right. split; [reflexivity|]. intros j Hj. lia.
Qed.

(* a knot value snaps to itself *)
Lemma snap1_knot j : (j < n)%nat -> @snap1 R NumR k tol (K j) = K j.
Proof.
  intros Hj. unfold snap1. cbv zeta.
  destruct (bisect_left_spec K HK (K j) n) as (A & Bm & Cm). cbv zeta in *.
  set (i := @bisect_left R NumR K (K j) n) in *.
  assert (Hij : (i <= j)%nat).
  { destruct (Nat.le_gt_cases i j); [assumption|]. pose proof (Bm j ltac:(lia)). lra. }
  assert (Ei : K i = K j).
  { pose proof (Cm i ltac:(lia)). pose proof (HK i j Hij). lra. }
  rewrite !nabs_R. cbn [nltb nsub NumR].
  destruct (Nat.ltb_spec i n) as [L|L]; [|lia]. cbn [andb].
  rewrite Ei. replace (K j - K j) with 0 by ring. rewrite Rabs_R0.
  destruct (Rltb_spec 0 tol); [reflexivity|lra].
Qed.

Theorem snap1_idem t : @snap1 R NumR k tol (@snap1 R NumR k tol t) = @snap1 R NumR k tol t.
Proof.
  destruct (snap1_spec t) as [(i & Hi & E & _)|[E Hn]]; cbv zeta in *.
  - rewrite E. apply snap1_knot. exact Hi.
  - rewrite E. exact E.
Qed.
End Snap.
