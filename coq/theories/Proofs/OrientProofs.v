(* C17: algebra of orientations (signed permutations): composition, identity, sections, index maps; soundness of compute. *)
From Coq Require Import List Arith Lia Bool ZArith Permutation.
From SplipyModel Require Import Model.Num Model.BasisDef Model.Tensor Model.Obj Model.Orient Proofs.EvalConsequences.
Import ListNotations.

Definition wf_orient (n : nat) (o : orient) : Prop :=
  length (o_perm o) = n /\ length (o_flip o) = n /\ Forall (fun x => x < n) (o_perm o).

Lemma nth_map_seq_nat {A} (f : nat -> A) n d dflt : d < n -> nth d (map f (seq 0 n)) dflt = f d.
Proof. intros H. rewrite (nth_map_gen f (seq 0 n) d dflt 0) by (rewrite seq_length; exact H). rewrite seq_nth by exact H. reflexivity. Qed.

Lemma wf_perm_lt n o d : wf_orient n o -> d < n -> nth d (o_perm o) 0 < n.
Proof. intros (L & _ & Fa) Hd. rewrite Forall_forall in Fa. apply Fa, nth_In. lia. Qed.

Lemma ocompose_wf n l r : wf_orient n l -> wf_orient n r -> wf_orient n (ocompose l r).
Proof.
  intros Hl Hr. destruct Hl as (Ll & Fl & Pl). unfold wf_orient, ocompose. cbn [o_perm o_flip].
  rewrite !map_length, !seq_length, Ll. repeat split; try reflexivity.
  apply Forall_forall. intros x Hx. apply in_map_iff in Hx. destruct Hx as (d & <- & Hd). apply in_seq in Hd.
  apply (wf_perm_lt n r); [exact Hr|]. apply (wf_perm_lt n l); [repeat split; assumption|lia].
Qed.

Lemma ocompose_perm n l r d : wf_orient n l -> d < n ->
  nth d (o_perm (ocompose l r)) 0 = nth (nth d (o_perm l) 0) (o_perm r) 0.
Proof. intros (Ll & _ & _) Hd. unfold ocompose. cbn [o_perm]. rewrite Ll.
  exact (nth_map_seq_nat (fun d0 => nth (nth d0 (o_perm l) 0) (o_perm r) 0) n d 0 Hd). Qed.
Lemma ocompose_flip n l r d : wf_orient n l -> d < n ->
  nth d (o_flip (ocompose l r)) false = xorb (nth d (o_flip l) false) (nth (nth d (o_perm l) 0) (o_flip r) false).
Proof. intros (Ll & _ & _) Hd. unfold ocompose. cbn [o_flip]. rewrite Ll.
  exact (nth_map_seq_nat (fun d0 => xorb (nth d0 (o_flip l) false) (nth (nth d0 (o_perm l) 0) (o_flip r) false)) n d false Hd). Qed.

Lemma orient_ext n a b : wf_orient n a -> wf_orient n b ->
  (forall d, d < n -> nth d (o_perm a) 0 = nth d (o_perm b) 0) ->
  (forall d, d < n -> nth d (o_flip a) false = nth d (o_flip b) false) -> a = b.
Proof.
  intros (La & Fa & _) (Lb & Fb & _) HP HF. destruct a as [pa fa], b as [pb fb]. cbn [o_perm o_flip] in *. f_equal.
  - apply (nth_ext _ _ 0 0); [lia|]. intros d Hd. apply HP. lia.
  - apply (nth_ext _ _ false false); [lia|]. intros d Hd. apply HF. lia.
Qed.

(* composition is associative *)
Theorem ocompose_assoc n l m r : wf_orient n l -> wf_orient n m -> wf_orient n r ->
  ocompose (ocompose l m) r = ocompose l (ocompose m r).
Proof.
  intros Hl Hm Hr.
  pose proof (ocompose_wf n l m Hl Hm) as Hlm. pose proof (ocompose_wf n m r Hm Hr) as Hmr.
  apply (orient_ext n); [apply ocompose_wf; assumption|apply ocompose_wf; assumption| |].
  - intros d Hd. rewrite (ocompose_perm n) by assumption. rewrite (ocompose_perm n l m) by assumption.
    rewrite (ocompose_perm n l) by assumption. rewrite (ocompose_perm n m r) by (try assumption; apply (wf_perm_lt n l); assumption).
    reflexivity.
  - intros d Hd. rewrite (ocompose_flip n) by assumption. rewrite (ocompose_flip n l m) by assumption.
    rewrite (ocompose_perm n l m) by assumption.
    rewrite (ocompose_flip n l) by assumption. rewrite (ocompose_flip n m r) by (try assumption; apply (wf_perm_lt n l); assumption).
    destruct (nth d (o_flip l) false), (nth (nth d (o_perm l) 0) (o_flip m) false), (nth (nth (nth d (o_perm l) 0) (o_perm m) 0) (o_flip r) false); reflexivity.
Qed.

Lemma oident_wf n : wf_orient n (oident n).
Proof.
  unfold wf_orient, oident. cbn [o_perm o_flip]. rewrite seq_length, repeat_length. repeat split; try reflexivity.
  apply Forall_forall. intros x Hx. apply in_seq in Hx. lia.
Qed.
Lemma nth_repeat_false d n : nth d (repeat false n) false = false.
Proof. revert d; induction n as [|n IH]; intros [|d]; cbn; auto. Qed.

(* the identity orientation is a two-sided unit *)
Theorem ocompose_ident_l n o : wf_orient n o -> ocompose (oident n) o = o.
Proof.
  intros Ho. apply (orient_ext n); [apply ocompose_wf; [apply oident_wf|exact Ho]|exact Ho| |].
  - intros d Hd. rewrite (ocompose_perm n) by (try apply oident_wf; exact Hd). unfold oident. cbn [o_perm]. rewrite seq_nth by exact Hd. reflexivity.
  - intros d Hd. rewrite (ocompose_flip n) by (try apply oident_wf; exact Hd). unfold oident. cbn [o_perm o_flip].
    rewrite seq_nth by exact Hd. rewrite nth_repeat_false. cbn [Nat.add]. destruct (nth d (o_flip o) false); reflexivity.
Qed.
Theorem ocompose_ident_r n o : wf_orient n o -> ocompose o (oident n) = o.
Proof.
  intros Ho. apply (orient_ext n); [apply ocompose_wf; [exact Ho|apply oident_wf]|exact Ho| |].
  - intros d Hd. rewrite (ocompose_perm n) by assumption. unfold oident. cbn [o_perm].
    rewrite seq_nth by (apply (wf_perm_lt n o); assumption). reflexivity.
  - intros d Hd. rewrite (ocompose_flip n) by assumption. unfold oident. cbn [o_flip]. rewrite nth_repeat_false.
    destruct (nth d (o_flip o) false); reflexivity.
Qed.

(* sections map contravariantly: (l * r).map_section = l.map_section after r.map_section *)
Theorem omap_section_compose n l r s : wf_orient n l -> wf_orient n r -> length s = n ->
  omap_section (ocompose l r) s = omap_section l (omap_section r s).
Proof.
  intros Hl Hr Ls. pose proof (ocompose_wf n l r Hl Hr) as Hlr.
  destruct Hl as (Ll & Fl & Pl). destruct Hr as (Lr & Fr & Pr). destruct Hlr as (Llr & _ & _).
  unfold omap_section. rewrite Llr, Ll, Lr. apply map_ext_in. intros d Hd. apply in_seq in Hd.
  rewrite (ocompose_perm n l r d) by (repeat split; try assumption; lia).
  rewrite (ocompose_flip n l r d) by (repeat split; try assumption; lia).
  assert (Hld : nth d (o_perm l) 0 < n) by (rewrite Forall_forall in Pl; apply Pl, nth_In; lia).
  rewrite (nth_map_seq_nat (fun d0 => match nth (nth d0 (o_perm r) 0) s None with None => None | Some e => Some (xorb e (nth d0 (o_flip r) false)) end) n _ None Hld).
  destruct (nth (nth (nth d (o_perm l) 0) (o_perm r) 0) s None) as [e|]; [|reflexivity].
  f_equal. destruct e, (nth d (o_flip l) false), (nth (nth d (o_perm l) 0) (o_flip r) false); reflexivity.
Qed.

(* index maps of map_array compose: if s1 is the source index of idx under l (in the intermediate system, whose
   shape is the result shape of r) and s2 the source index of s1 under r, then s2 is the source index of idx under l * r *)
Definition is_src (o : orient) (shape idx s : list nat) : Prop :=
  length s = length (o_perm o) /\
  forall d, d < length (o_perm o) ->
    nth (nth d (o_perm o) 0) s 0 = if nth d (o_flip o) false then nth (nth d (o_perm o) 0) shape 0 - 1 - nth d idx 0 else nth d idx 0.

Theorem is_src_compose n l r shape idx s1 s2 : wf_orient n l -> wf_orient n r ->
  (forall d, d < n -> nth d idx 0 < nth d (oshape l (oshape r shape)) 0) ->
  is_src l (oshape r shape) idx s1 -> is_src r shape s1 s2 -> is_src (ocompose l r) shape idx s2.
Proof.
  intros Hl Hr Hidx (L1 & S1) (L2 & S2). pose proof (ocompose_wf n l r Hl Hr) as Hlr.
  destruct Hl as (Ll & Fl & Pl). destruct Hr as (Lr & Fr & Pr). destruct Hlr as (Llr & _ & _).
  split; [rewrite L2, Llr, Lr; reflexivity|].
  intros d Hd. rewrite Llr in Hd.
  rewrite (ocompose_perm n l r d) by (repeat split; assumption).
  rewrite (ocompose_flip n l r d) by (repeat split; assumption).
  assert (Hld : nth d (o_perm l) 0 < n) by (rewrite Forall_forall in Pl; apply Pl, nth_In; lia).
  rewrite (S2 (nth d (o_perm l) 0)) by lia.
  rewrite (S1 d) by lia.
  (* the size of the intermediate direction l.perm[d] is the size of the final direction r.perm[l.perm[d]] *)
  assert (Esh : nth (nth d (o_perm l) 0) (oshape r shape) 0 = nth (nth (nth d (o_perm l) 0) (o_perm r) 0) shape 0).
  { unfold oshape. rewrite (nth_map_gen _ (o_perm r) _ 0 0) by lia. reflexivity. }
  specialize (Hidx d Hd). unfold oshape at 1 in Hidx. rewrite (nth_map_gen _ (o_perm l) d 0 0) in Hidx by lia.
  rewrite Esh in *.
  destruct (nth d (o_flip l) false), (nth (nth d (o_perm l) 0) (o_flip r) false); cbn [xorb]; lia.
Qed.

(* compute: an orientation is returned only if it maps the (weight-normalised) control net of b onto that of a
   within the tolerances, the shapes agree, and the bases match direction by direction *)
Section Compute.
Context {F : Type} `{Num F}.
Theorem orient_compute_sound (atol rtol ktol : F) (a b : obj F) o : orient_compute atol rtol ktol a b = Some o ->
  let rat := o_rat a || o_rat b in
  let ca := norm_weights rat (if o_rat a then o_cps a else if rat then map (fun v => v ++ [n1]) (o_cps a) else o_cps a) in
  let cb := norm_weights rat (if o_rat b then o_cps b else if rat then map (fun v => v ++ [n1]) (o_cps b) else o_cps b) in
  list_eq_dec_b (oshape o (o_shape b)) (o_shape a) = true /\
  nets_close atol rtol ca (omap_net o (o_shape b) cb) = true /\
  forall i, i < length (o_bases a) ->
    basis_matches ktol (nth i (o_bases a) (mkBasis 0 [] 0)) (nth (nth i (o_perm o) 0) (o_bases b) (mkBasis 0 [] 0)) (nth i (o_flip o) false) = true.
Proof.
  unfold orient_compute. cbv zeta. destruct (negb _); [discriminate|]. intros Hf. apply find_some in Hf. destruct Hf as [_ Hf].
  apply andb_true_iff in Hf. destruct Hf as [Hf H3]. apply andb_true_iff in Hf. destruct Hf as [H1 H2].
  split; [exact H1|]. split; [exact H2|]. intros i Hi. rewrite forallb_forall in H3. apply H3. apply in_seq. lia.
Qed.
End Compute.

(* completeness of the search: itertools.permutations x product([False, True]) enumerates every signed
   permutation, so compute reports "no match" only if no signed permutation passes its test *)
Section Complete.
Context {F : Type} `{Num F}.

Lemma perms_fuel_S f (l : list nat) : l <> [] ->
  @perms_fuel (S f) l = flat_map (fun x => map (cons x) (@perms_fuel f (filter (fun y => negb (y =? x)) l))) l.
Proof. destruct l; [congruence|reflexivity]. Qed.

Lemma perms_complete fuel : forall (l p : list nat), NoDup l -> NoDup p -> (forall x, In x p <-> In x l) -> length l <= fuel ->
  In p (@perms_fuel fuel l).
Proof.
  induction fuel as [|f IH]; intros l p Hl Hp Hin Hlen.
  - destruct l; [|cbn in Hlen; lia]. destruct p as [|x p]; [left; reflexivity|]. exfalso. apply (Hin x). left. reflexivity.
  - destruct p as [|x p].
    + destruct l as [|y l]; [left; reflexivity|]. exfalso. apply (Hin y). left. reflexivity.
    + assert (Hx : In x l) by (apply Hin; left; reflexivity).
      rewrite perms_fuel_S by (intros E; rewrite E in Hx; destruct Hx).
      apply in_flat_map. exists x. split; [exact Hx|]. apply in_map.
      set (l' := filter (fun y0 => negb (y0 =? x)) l).
      inversion Hp as [|? ? Hnx Hp']; subst.
      assert (Hin' : forall z, In z p <-> In z l').
      { intros z. unfold l'. rewrite filter_In. split.
        - intros Hz. split; [apply Hin; right; exact Hz|]. destruct (Nat.eqb_spec z x) as [->|]; [contradiction|reflexivity].
        - intros [Hz Hne]. destruct (Nat.eqb_spec z x); [discriminate|]. destruct (proj2 (Hin z) Hz) as [E|E]; [congruence|exact E]. }
      apply IH; [apply NoDup_filter; exact Hl|exact Hp'|exact Hin'|].
      assert (E1 : length p = length l').
      { apply Permutation.Permutation_length. apply Permutation.NoDup_Permutation; [exact Hp'|apply NoDup_filter; exact Hl|exact Hin']. }
      assert (E2 : length (x :: p) = length l).
      { apply Permutation.Permutation_length. apply Permutation.NoDup_Permutation; [exact Hp|exact Hl|exact Hin]. }
      cbn [length] in E2. lia.
Qed.

Lemma flips_complete n : forall f : list bool, length f = n -> In f (@flips n).
Proof.
  induction n as [|n IH]; intros f Hf.
  - destruct f; [left; reflexivity|discriminate].
  - destruct f as [|b f]; [discriminate|]. cbn [flips]. apply in_flat_map. exists b. split; [destruct b; cbn; auto|].
    apply in_map. apply IH. cbn in Hf. lia.
Qed.

(* a genuine signed permutation of n directions *)
Definition signed_perm (n : nat) (o : orient) : Prop :=
  NoDup (o_perm o) /\ (forall x, In x (o_perm o) <-> x < n) /\ length (o_flip o) = n.

Lemma all_candidates n o : signed_perm n o ->
  In o (flat_map (fun p => map (fun f => mkOrient p f) (@flips n)) (@perms_fuel n (seq 0 n))).
Proof.
  intros (Hnd & Hin & Hfl). destruct o as [p f]. cbn [o_perm o_flip] in *.
  apply in_flat_map. exists p. split.
  - apply perms_complete; [apply seq_NoDup|exact Hnd| |rewrite seq_length; lia].
    intros x. rewrite in_seq. rewrite Hin. lia.
  - apply in_map. apply flips_complete. exact Hfl.
Qed.

Theorem orient_compute_complete (atol rtol ktol : F) (a b : obj F) :
  orient_compute atol rtol ktol a b = None ->
  length (o_bases a) = length (o_bases b) -> o_dim a = o_dim b ->
  forall o, signed_perm (length (o_bases a)) o ->
    (let rat := o_rat a || o_rat b in
     let ca := norm_weights rat (if o_rat a then o_cps a else if rat then map (fun v => v ++ [n1]) (o_cps a) else o_cps a) in
     let cb := norm_weights rat (if o_rat b then o_cps b else if rat then map (fun v => v ++ [n1]) (o_cps b) else o_cps b) in
     list_eq_dec_b (oshape o (o_shape b)) (o_shape a) &&
     nets_close atol rtol ca (omap_net o (o_shape b) cb) &&
     forallb (fun i => basis_matches ktol (nth i (o_bases a) (mkBasis 0 [] 0)) (nth (nth i (o_perm o) 0) (o_bases b) (mkBasis 0 [] 0)) (nth i (o_flip o) false))
             (seq 0 (length (o_bases a)))) = false.
Proof.
  unfold orient_compute. cbv zeta. intros Hnone Hn Hd o Ho.
  rewrite <- Hn, Hd, !Nat.eqb_refl in Hnone. cbn [andb negb] in Hnone.
  apply (find_none _ _ Hnone o). apply all_candidates. exact Ho.
Qed.
End Complete.

(* the 2 / 8 / 48 orientations of curves, surfaces, volumes: closed under composition, every one has an inverse *)
Definition all_orients (n : nat) : list orient :=
  flat_map (fun p => map (fun f => mkOrient p f) (flips n)) (perms_fuel n (seq 0 n)).
Definition orient_eqb (a b : orient) : bool :=
  list_eq_dec_b (o_perm a) (o_perm b) && (length (o_flip a) =? length (o_flip b)) && forallb (fun xy => Bool.eqb (fst xy) (snd xy)) (combine (o_flip a) (o_flip b)).
Theorem orientation_group_small : forall n, n <= 3 ->
  length (all_orients n) = Nat.pow 2 n * fact n /\
  forallb (fun l => forallb (fun r => existsb (orient_eqb (ocompose l r)) (all_orients n)) (all_orients n)) (all_orients n) = true /\
  forallb (fun l => existsb (fun r => orient_eqb (ocompose l r) (oident n) && orient_eqb (ocompose r l) (oident n)) (all_orients n)) (all_orients n) = true.
Proof. intros n Hn. destruct n as [|[|[|[|n]]]]; [| | | |lia]; vm_compute; repeat split; reflexivity. Qed.
