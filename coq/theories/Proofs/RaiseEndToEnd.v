(* C05, end to end on the model's own functions: for an object all of whose directions are non-periodic and clamped,
   [obj_raise_order tol o raises = Ok o'] implies [obj_eval tol o' ts = obj_eval tol o ts] at every parameter tuple
   of the domain -- any pardim, any amounts (0 included), rational or not. *)
From Coq Require Import List Arith Reals Lra Lia Bool ZArith Permutation.
From SplipyModel Require Import Spec.BSpline Model.Num Model.BasisDef Model.BasisEval Model.Tensor Model.Obj Model.KnotInsert Model.Solve Model.Interp Model.Order
  Proofs.KnotList Proofs.SpanCorrect Proofs.EvaluateSpec Proofs.EvalConsequences Proofs.SnapSpec Proofs.TensorLemmas Proofs.ObjEval
  Proofs.InsertMatrix Proofs.TensorApply Proofs.OrderProofs Proofs.LinAlg Proofs.RaiseNested Proofs.OrderRaise Proofs.RaiseAmount
  Proofs.InsertEndToEnd Proofs.ChangeDirEval.
Import ListNotations.
Open Scope R_scope.

(* a direction on which raise_order is proved: non-periodic, sorted, clamped, knots separated by more than the
   tolerance, non-degenerate domain *)
Definition good_dir (tol : R) (b : basis R) : Prop :=
  b_per1 b = 0%nat /\ lsorted (b_knots b) /\ open_knots (b_knots b) (b_order b) /\ separated tol (b_knots b) /\
  nth 0 (b_knots b) 0 < nth (length (b_knots b) - 1) (b_knots b) 0.

Section E2E.
Variable tol : R.
Hypothesis Htol : 0 < tol.
Variable ts : list R.

Lemma change_bases_eval : forall (news : list (basis R)) (o : obj R) (d : nat) (o' : obj R),
  wf_obj_R tol o ->
  (d + length news = length (o_bases o))%nat ->
  (forall j, (j < length news)%nat ->
     good_dir tol (nth (d + j) (o_bases o) dflt_basis) /\
     exists a, nth j news dflt_basis = @basis_raise_order R NumR tol (nth (d + j) (o_bases o) dflt_basis) a) ->
  (forall i, (i < length (o_bases o))%nat -> in_dom tol (nth i (o_bases o) dflt_basis) (nth i ts 0)) ->
  @obj_change_bases R NumR tol o d news = Ok o' ->
  @obj_eval R NumR tol o' ts = @obj_eval R NumR tol o ts.
Proof.
  induction news as [|bn rest IH]; intros o d o' Hwf Hlen Hnews Hdom Hch.
  - cbn [obj_change_bases] in Hch. injection Hch as <-. reflexivity.
  - cbn [obj_change_bases] in Hch. cbv zeta in Hch. change (mkBasis 0 [] 0) with dflt_basis in Hch.
    assert (Hd : (d < length (o_bases o))%nat) by (cbn [length] in Hlen; lia).
    destruct (Hnews 0%nat ltac:(cbn; lia)) as ((Hper & Hs & Hopen & Hsep & Hdm) & a & Ebn).
    rewrite Nat.add_0_r in Hper, Hs, Hopen, Hsep, Hdm, Ebn. cbn [nth] in Ebn.
    set (bo := nth d (o_bases o) dflt_basis) in *.
    destruct (bd_wf tol o Hwf d Hd) as (HK & Hp & Hl & Hn & Hw). fold bo in HK, Hp, Hl, Hn, Hw.
    assert (Ebo : bo = mkBasis (b_order bo) (b_knots bo) 0).
    { destruct bo as [pp kk per]. cbn [b_per1 b_order b_knots] in *. rewrite Hper. reflexivity. }
    set (l := b_knots bo) in *. set (p := b_order bo) in *.
    destruct (raise_dir_facts l p a tol Hs Hp Hl Hopen Htol Hsep Hdm) as (EB & HKL & HLl & HNp & Hvals & Hst & Hen & Hrel).
    set (L := chain l (@knot_spans R NumR tol (mkBasis p l 0) true) a) in *.
    assert (Ebn' : bn = mkBasis (p + a) L 0) by (rewrite Ebn, Ebo; exact EB).
    destruct (@order_change_matrix R NumR tol bo bn) as [M|e] eqn:EM; [|discriminate].
    assert (HrelM : forall side t, row_rel (Brow side l p t) (Brow side L (p + a) t) M).
    { intros side t. apply Hrel. rewrite <- Ebo, <- Ebn. exact EM. }
    (* the intermediate object *)
    set (o1 := mkObj (upd (o_bases o) d bn) (@apply_dir R NumR (@o_ncomp R o) (@o_shape R o) d M (o_cps o)) (o_dim o) (o_rat o)) in *.
    assert (Eo1 : o1 = mkObj (upd (o_bases o) d (mkBasis (p + a) L 0)) (@apply_dir R NumR (@o_ncomp R o) (@o_shape R o) d M (o_cps o)) (o_dim o) (o_rat o))
      by (unfold o1; rewrite Ebn'; reflexivity).
    assert (Hsnap : forall u, @snap1 R NumR L tol u = @snap1 R NumR l tol u).
    { intros u. apply snap1_values; [exact HKL|exact HK|]. intros x. symmetry. apply Hvals. }
    assert (Hwf1 : wf_obj_R tol o1).
    { rewrite Eo1. apply (change_dir_wf tol o Hwf d Hd Hper L (p + a) M HKL ltac:(lia) HLl HNp Hst Hen HrelM). }
    assert (Hev1 : @obj_eval R NumR tol o1 ts = @obj_eval R NumR tol o ts).
    { rewrite Eo1. apply (change_dir_eval tol Htol o Hwf d Hd Hper L (p + a) M HKL ltac:(lia) HLl Hst Hen HrelM ts Hdom); apply Hsnap. }
    rewrite <- Hev1. apply (IH o1 (S d) o' Hwf1).
    + unfold o1. cbn [o_bases]. rewrite upd_length. cbn [length] in Hlen. lia.
    + intros j Hj. unfold o1. cbn [o_bases]. rewrite upd_nth_other by lia.
      replace (S d + j)%nat with (d + S j)%nat by lia. destruct (Hnews (S j) ltac:(cbn [length]; lia)) as (G & a' & E'). split; [exact G|].
      exists a'. exact E'.
    + intros i Hi. unfold o1 in *. cbn [o_bases] in *. rewrite upd_length in Hi.
      destruct (Nat.eq_dec i d) as [->|Hne].
      * rewrite upd_nth_same by exact Hd. rewrite Ebn'. unfold in_dom. cbn [b_per1 b_knots]. intros _.
        unfold b_start, b_end. cbn [b_knots b_order]. rewrite Hst, Hen, Hsnap. apply (Hdom d Hd Hper).
      * rewrite upd_nth_other by exact Hne. apply Hdom. exact Hi.
    + exact Hch.
Qed.

(* SplineObject.raise_order with one amount per direction: evaluation is unchanged *)
Theorem raise_order_eval (o o' : obj R) (raises : list nat) :
  wf_obj_R tol o -> length raises = length (o_bases o) ->
  (forall i, (i < length (o_bases o))%nat -> good_dir tol (nth i (o_bases o) dflt_basis)) ->
  (forall i, (i < length (o_bases o))%nat -> in_dom tol (nth i (o_bases o) dflt_basis) (nth i ts 0)) ->
  @obj_raise_order R NumR tol o raises = Ok o' ->
  @obj_eval R NumR tol o' ts = @obj_eval R NumR tol o ts.
Proof.
  intros Hwf Hlr Hgood Hdom. unfold obj_raise_order.
  destruct (forallb _ raises); [intros [= <-]; reflexivity|].
  destruct (_ && _); [discriminate|].
  intros Hch. refine (change_bases_eval _ o 0%nat o' Hwf _ _ Hdom Hch).
  - rewrite map_length, combine_length, Hlr, Nat.min_id. reflexivity.
  - intros j Hj. rewrite map_length, combine_length, Hlr, Nat.min_id in Hj. cbn [Nat.add].
    split; [apply Hgood; exact Hj|]. exists (nth j raises 0%nat).
    rewrite (nth_map_gen _ _ j dflt_basis (dflt_basis, 0%nat)) by (rewrite combine_length, Hlr, Nat.min_id; exact Hj).
    rewrite combine_nth by (symmetry; exact Hlr). reflexivity.
Qed.
End E2E.
