(* C04 at object level (non-periodic direction): inserting a knot with BSplineBasis.insert_knot's
   matrix applied along that direction leaves every coordinate of the tensor-product evaluation
   unchanged, for every parameter and both one-sided variants; the new knot vector is the old one
   plus the inserted value. *)
From Coq Require Import List Arith Reals Lra Lia Bool ZArith Permutation.
From SplipyModel Require Import Proofs.KnotList.
From SplipyModel Require Import Spec.BSpline Spec.Boehm Model.Num Model.BasisDef Model.BasisEval Model.Tensor Model.Obj
  Model.KnotInsert Proofs.SpanCorrect Proofs.TensorLemmas Proofs.EvalConsequences Proofs.InsertMatrix Proofs.TensorApply.
Import ListNotations.
Open Scope R_scope.

Lemma nth_mat_of_writes rows cols asg r c : (r < rows)%nat -> (c < cols)%nat ->
  nth c (nth r (@mat_of_writes R NumR rows cols asg) []) 0 = @lookup_last R NumR asg r c.
Proof.
  intros Hr Hc. unfold mat_of_writes.
  rewrite (nth_map_gen _ _ r [] 0%nat) by (rewrite seq_length; exact Hr). rewrite seq_nth by exact Hr.
  rewrite (nth_map_gen _ _ c 0 0%nat) by (rewrite seq_length; exact Hc). rewrite seq_nth by exact Hc. reflexivity.
Qed.

Lemma insert_at_perm {A} (l : list A) i v : Permutation (insert_at l i v) (v :: l).
Proof.
  unfold insert_at. rewrite <- (firstn_skipn i l) at 3.
  symmetry. apply Permutation_middle.
Qed.
Lemma insert_at_length {A} (l : list A) i v : length (insert_at l i v) = S (length l).
Proof.
  unfold insert_at. rewrite app_length. cbn [length].
  pose proof (f_equal (@length A) (firstn_skipn i l)) as E. rewrite app_length in E. lia.
Qed.

Section Ins.
Variable k : list R.
Variables (p : nat) (x : R).
Local Notation K := (@kn R NumR k).
Local Notation n := (length k - p)%nat.
Hypothesis HK : sorted K.
Hypothesis Hp : (1 <= p)%nat.
Hypothesis Hlen : (2 * p <= length k)%nat.
Hypothesis Hx : K (p - 1)%nat <= x < K n.
Local Notation mu := (@py_bisect_right R NumR k x).
Local Notation q := (p - 1)%nat.
Local Notation Cmat := (@mat_of_writes R NumR (n + 1) n (@insert_writes R NumR k p n mu x)).
Local Notation knew := (insert_at k mu x).

(* what the model of BSplineBasis.insert_knot returns on a non-periodic basis *)
Lemma basis_insert_knot_nonperiodic :
  @basis_insert_knot R NumR (mkBasis p k 0) x = Ok (mkBasis p knew 0, Cmat).
Proof.
  destruct (mu_bracket k p x HK Hp Hlen Hx) as [Hmu Hbr].
  unfold basis_insert_knot, wrap_knot, b_start, b_end, b_nfun. cbn [b_per1 b_order b_knots Nat.eqb negb].
  cbn [nltb NumR]. destruct (Rltb_spec x (K (p - 1)%nat)) as [A1|A1]; [lra|]. destruct (Rltb_spec (K n) x) as [A2|A2]; [lra|]. cbn [orb].
  replace (length k - p - 0)%nat with n by lia.
  match goal with |- (if negb (forallb ?f ?l) then _ else _) = _ => assert (E : forallb f l = true) end.
  { apply forallb_forall. intros i Hi. apply in_seq in Hi.
    repeat (apply andb_true_iff; split).
    - apply Nat.ltb_lt. lia.
    - destruct (nleb _ _); [apply Nat.ltb_lt; lia|reflexivity].
    - destruct (nleb _ _); [apply Nat.ltb_lt; lia|reflexivity].
    - destruct (_ && _); [reflexivity|apply Nat.ltb_lt; lia]. }
  rewrite E. cbn [negb]. reflexivity.
Qed.

(* the new knot list is sorted and is the old one plus x *)
Lemma insert_knots_sorted : sorted (@kn R NumR knew).
Proof.
  destruct (mu_bracket k p x HK Hp Hlen Hx) as [Hmu Hbr].
  pose proof (k'_sorted K HK mu x ltac:(lia) (proj1 Hbr) (proj2 Hbr)) as S'.
  assert (G : forall i j, (i <= j <= length k)%nat -> @kn R NumR knew i <= @kn R NumR knew j).
  { intros i j Hij. rewrite !(kn_insert_at k p mu x Hp Hmu) by lia. apply S'. lia. }
  intros i j Hij.
  assert (Hl : length knew = S (length k)) by apply insert_at_length.
  assert (Clamp : forall i0, @kn R NumR knew i0 = @kn R NumR knew (Nat.min i0 (length k))).
  { intros i0. destruct (Nat.le_gt_cases i0 (length k)); [rewrite Nat.min_l by lia; reflexivity|].
    rewrite Nat.min_r by lia. unfold kn. rewrite nth_overflow by lia.
    symmetry. unfold kn. rewrite (nth_indep knew (last knew 0) 0) by lia.
    replace (length k) with (length knew - 1)%nat by lia. apply nth_last_len. intro E0. rewrite E0 in Hl. cbn in Hl. lia. }
  rewrite (Clamp i), (Clamp j). apply G. lia.
Qed.
End Ins.

Section Obj.
Variable k : list R.
Variables (p : nat) (x : R).
Local Notation K := (@kn R NumR k).
Local Notation n := (length k - p)%nat.
Hypothesis HK : sorted K.
Hypothesis Hp : (1 <= p)%nat.
Hypothesis Hlen : (2 * p <= length k)%nat.
Hypothesis Hx : K (p - 1)%nat <= x < K n.
Local Notation mu := (@py_bisect_right R NumR k x).
Local Notation q := (p - 1)%nat.
Local Notation Cmat := (@mat_of_writes R NumR (n + 1) n (@insert_writes R NumR k p n mu x)).
Local Notation knew := (insert_at k mu x).

(* rows of basis values before / after, as functions of (side, t) *)
Definition Nold (side : bool) (t : R) : list R := map (fun j => B side K q j t) (seq 0 n).
Definition Nnew (side : bool) (t : R) : list R := map (fun r => B side (@kn R NumR knew) q r t) (seq 0 (n + 1)).

Lemma row_rel_insert side t : row_rel (Nold side t) (Nnew side t) Cmat.
Proof.
  destruct (mu_bracket k p x HK Hp Hlen Hx) as [Hmu Hbr].
  unfold row_rel, Nold, Nnew. rewrite !map_length, !seq_length.
  split; [unfold mat_of_writes; rewrite map_length, seq_length; reflexivity|]. split.
  - apply Forall_forall. intros row Hin. unfold mat_of_writes in Hin. apply in_map_iff in Hin.
    destruct Hin as (r & <- & _). rewrite map_length, seq_length. reflexivity.
  - intros j Hj.
    rewrite (nth_map_gen _ _ j 0 0%nat) by (rewrite seq_length; exact Hj). rewrite seq_nth by exact Hj. cbn [Nat.add].
    rewrite <- (insert_row_identity k p x HK Hp Hlen Hx side j t Hj).
    replace (n + 1)%nat with (S n) by lia.
    apply sumf_ext. intros r Hr.
    rewrite (nth_map_gen _ _ r 0 0%nat) by (rewrite seq_length; lia). rewrite seq_nth by lia. cbn [Nat.add].
    rewrite nth_mat_of_writes by lia. f_equal.
    apply B_ext. intros i Hi. symmetry. apply (kn_insert_at k p mu x Hp Hmu); lia.
Qed.

(* C04.3: insertion in direction d (non-periodic there; the other directions are arbitrary rows) leaves
   every coordinate of the evaluation unchanged *)
Theorem insert_knot_preserves_map dim c side t (rows : list (list R)) d cps :
  (d < length rows)%nat -> (c < dim)%nat -> nth d rows [] = Nold side t ->
  net_ok dim rows cps -> (0 < prodl (map (@length R) rows))%nat ->
  coord c (@teval R NumR dim (@upd (list R) rows d (Nnew side t))
                  (@apply_dir R NumR dim (map (@length R) rows) d Cmat cps))
  = coord c (@teval R NumR dim rows cps).
Proof.
  intros Hd Hc Hrow Hnet Hpos.
  assert (RR : row_rel (nth d rows []) (Nnew side t) Cmat) by (rewrite Hrow; apply row_rel_insert).
  rewrite (teval_tsum dim c rows Hc cps Hnet).
  rewrite <- (tsum_apply_dir dim c Cmat rows d (Nnew side t) cps Hd Hc Hnet Hpos RR).
  apply teval_tsum; [exact Hc|].
  destruct Hnet as [Hv Hl]. split; [apply Forall_apply_dir; exact Hv|].
  rewrite length_apply_dir; [| rewrite map_length; exact Hd | exact Hl | exact Hpos ].
  f_equal. destruct RR as (HC1 & _). rewrite HC1.
  clear. revert d. induction rows as [|a rows IHr]; intros d; [reflexivity|]. destruct d; cbn [upd map]; [reflexivity|]. f_equal. apply IHr.
Qed.
End Obj.
