(* C15, end to end on the model's own functions [obj_section] / [obj_eval] (and [const_par_curve], Model/ConstPar.v):
   a section of an object evaluates to the object restricted to the corresponding boundary, in the documented order
   of edges() / faces() / corners(); a constant-parameter curve of a surface evaluates to the surface on that
   parameter line; the first control points of an extruded net are the profile.

   Common core (section 0-2): PINNING a set of directions of an object, each with an arbitrary row r of coefficients
   (the net is contracted with the 1 x n matrix [r] along that direction and the direction is dropped), evaluates
   to the object at the parameter tuple completed by a parameter t in each pinned direction, as soon as the row of
   basis values of that direction at t IS r.  Sections are the instance r = unit row (first / last index) at the
   start / end of a clamped direction; const_par_curve is the instance r = row i of the accumulated knot insertion
   matrix. *)
From Coq Require Import List Arith Reals Lra Lia Bool ZArith Permutation QArith.
From SplipyModel Require Import Spec.BSpline Spec.Boehm Model.Num Model.BasisDef Model.BasisEval Model.Tensor Model.Obj Model.KnotInsert Model.Section Model.Factory
  Model.Tol Model.Solve Model.Interp Model.ConstPar Model.Knots
  Proofs.KnotList Proofs.SpanCorrect Proofs.EvaluateSpec Proofs.EvalConsequences Proofs.SnapSpec Proofs.SnapChar Proofs.TensorLemmas Proofs.ObjEval
  Proofs.InsertMatrix Proofs.TensorApply Proofs.InsertObj Proofs.OrderRaise Proofs.InsertEndToEnd Proofs.ChangeDirEval Proofs.RestrictDirEval
  Proofs.InterpProofs Proofs.SectionProofs Proofs.LinAlg Proofs.SplitCompose Extract.Exec.
Import ListNotations.
Open Scope R_scope.

(* ====================================================================================================== *)
(* 0. Pinning directions: definitions                                                                      *)
(* ====================================================================================================== *)
(* one entry per direction: None = the direction stays free; Some (t, r) = the direction is pinned, t is the
   parameter it is pinned at, r the row of coefficients the net is contracted with *)
Definition pin : Type := option (R * list R).

Fixpoint gsec_cps (ncomp : nat) (shape : list nat) (pins : list pin) (d : nat) (cps : list (list R)) : list (list R) * list nat :=
  match pins with
  | [] => (cps, shape)
  | Some (_, r) :: rest => gsec_cps ncomp (upd shape d 1%nat) rest (S d) (@apply_dir R NumR ncomp shape d [r] cps)
  | None :: rest => gsec_cps ncomp shape rest (S d) cps
  end.

(* the entries of l in the free directions *)
Fixpoint free_of {A} (pins : list pin) (l : list A) : list A :=
  match pins, l with
  | None :: ps, a :: l' => a :: free_of ps l'
  | Some _ :: ps, _ :: l' => free_of ps l'
  | _, _ => []
  end.

(* the rows, with the trivial row [1] in the pinned directions *)
Fixpoint ones (pins : list pin) (rows : list (list R)) : list (list R) :=
  match pins, rows with
  | None :: ps, N :: rows' => N :: ones ps rows'
  | Some _ :: ps, _ :: rows' => [1] :: ones ps rows'
  | _, _ => rows
  end.

(* the parameter tuple of the full object: the parameters ts of the free directions, completed by the pinned ones *)
Fixpoint fill (pins : list pin) (ts : list R) : list R :=
  match pins with
  | [] => []
  | Some (t, _) :: ps => t :: fill ps ts
  | None :: ps => hd 0 ts :: fill ps (tl ts)
  end.

Definition pin_row (pn : pin) (N : list R) : Prop := match pn with Some (_, r) => N = r | None => True end.

(* ====================================================================================================== *)
(* 1. Tensor level                                                                                         *)
(* ====================================================================================================== *)
Lemma row_rel_one (r : list R) : row_rel r [1] [r].
Proof.
  unfold row_rel. cbn [length]. split; [reflexivity|]. split; [constructor; [reflexivity|constructor]|].
  intros j Hj. cbn [sumf nth]. ring.
Qed.

Lemma prodl_app (a b : list nat) : prodl (a ++ b) = (prodl a * prodl b)%nat.
Proof. unfold prodl. induction a as [|x a IH]; cbn [app fold_right]; [lia|]. rewrite IH. lia. Qed.

Lemma upd_app_mid {A} (pre : list A) x y post : upd (pre ++ x :: post) (length pre) y = pre ++ y :: post.
Proof. induction pre as [|a pre IH]; cbn [app length upd]; [reflexivity|]. f_equal. exact IH. Qed.

Lemma map_length_upd (rows : list (list R)) (N' : list R) dd : map (@length R) (upd rows dd N') = upd (map (@length R) rows) dd (length N').
Proof. revert dd. induction rows as [|a rows IH]; intros dd; [destruct dd; reflexivity|]. destruct dd; cbn [upd map]; [reflexivity|]. f_equal. apply IH. Qed.

Lemma gsec_tsum ncomp : forall pins post, Forall2 pin_row pins post -> forall pre cps,
  net_ok ncomp (pre ++ post) cps -> (0 < prodl (map (@length R) (pre ++ post)))%nat ->
  snd (gsec_cps ncomp (map (@length R) (pre ++ post)) pins (length pre) cps) = map (@length R) (pre ++ ones pins post) /\
  net_ok ncomp (pre ++ ones pins post) (fst (gsec_cps ncomp (map (@length R) (pre ++ post)) pins (length pre) cps)) /\
  (0 < prodl (map (@length R) (pre ++ ones pins post)))%nat /\
  forall c, (c < ncomp)%nat ->
    tsum (pre ++ ones pins post) (cnet ncomp c (fst (gsec_cps ncomp (map (@length R) (pre ++ post)) pins (length pre) cps)))
    = tsum (pre ++ post) (cnet ncomp c cps).
Proof.
  induction 1 as [|pn N pins post Hpn HF IH]; intros pre cps Hnet Hpos.
  - cbn [gsec_cps ones fst snd]. split; [reflexivity|]. split; [exact Hnet|]. split; [exact Hpos|]. intros; reflexivity.
  - destruct pn as [[t r]|]; cbn [pin_row] in Hpn.
    + subst N. cbn [gsec_cps ones].
      set (rows := pre ++ r :: post) in *.
      assert (Hd : (length pre < length rows)%nat) by (unfold rows; rewrite app_length; cbn [length]; lia).
      assert (Hnth : nth (length pre) rows [] = r) by (unfold rows; apply nth_middle).
      assert (Hupd : upd rows (length pre) [1] = (pre ++ [[1]]) ++ post).
      { unfold rows. rewrite upd_app_mid, <- app_assoc. reflexivity. }
      assert (Hshape : upd (map (@length R) rows) (length pre) 1%nat = map (@length R) ((pre ++ [[1]]) ++ post)).
      { rewrite <- Hupd, map_length_upd. reflexivity. }
      set (cps1 := @apply_dir R NumR ncomp (map (@length R) rows) (length pre) [r] cps).
      assert (Hnet1 : net_ok ncomp ((pre ++ [[1]]) ++ post) cps1).
      { destruct Hnet as [Hv Hl]. split; [apply Forall_apply_dir; exact Hv|].
        unfold cps1. rewrite length_apply_dir; [|rewrite map_length; exact Hd|exact Hl|exact Hpos].
        cbn [length]. rewrite Hshape. reflexivity. }
      assert (Hpos1 : (0 < prodl (map (@length R) ((pre ++ [[1%R]]) ++ post)))%nat).
      { unfold rows in Hpos. rewrite !map_app, !prodl_app in *. cbn [map prodl fold_right length] in *.
        fold (prodl (map (@length R) post)) in *. nia. }
      destruct (IH (pre ++ [[1]]) cps1 Hnet1 Hpos1) as (I1 & I2 & I3 & I4).
      rewrite app_length in I1, I2, I4. cbn [length] in I1, I2, I4. rewrite Nat.add_1_r in I1, I2, I4.
      rewrite <- Hshape in I1, I2, I4. fold cps1.
      rewrite <- app_assoc in I1, I2, I3, I4. cbn [app] in I1, I2, I3, I4.
      split; [exact I1|]. split; [exact I2|]. split; [exact I3|].
      intros c Hc. rewrite (I4 c Hc).
      rewrite <- (tsum_apply_dir ncomp c [r] rows (length pre) [1] cps Hd Hc Hnet Hpos ltac:(rewrite Hnth; apply row_rel_one)).
      rewrite Hupd, <- app_assoc. reflexivity.
    + cbn [gsec_cps ones].
      assert (E : pre ++ N :: post = (pre ++ [N]) ++ post) by (rewrite <- app_assoc; reflexivity).
      rewrite E in Hnet, Hpos.
      destruct (IH (pre ++ [N]) cps Hnet Hpos) as (I1 & I2 & I3 & I4).
      rewrite app_length in I1, I2, I4. cbn [length] in I1, I2, I4. rewrite Nat.add_1_r in I1, I2, I4.
      assert (E' : forall X : list (list R), (pre ++ [N]) ++ X = pre ++ N :: X) by (intros X; rewrite <- app_assoc; reflexivity).
      rewrite !E' in I1. rewrite !E' in I2. rewrite !E' in I3.
      split; [exact I1|]. split; [exact I2|]. split; [exact I3|].
      intros c Hc. specialize (I4 c Hc). rewrite !E' in I4. exact I4.
Qed.

Lemma free_of_map {A B} (f : A -> B) : forall pins l, free_of pins (map f l) = map f (free_of pins l).
Proof.
  induction pins as [|pn pins IH]; intros l; [reflexivity|].
  destruct l as [|a l]; [destruct pn; reflexivity|]. destruct pn; cbn [free_of map]; [apply IH|f_equal; apply IH].
Qed.

Lemma prodl_ones : forall pins rows, length pins = length rows ->
  prodl (map (@length R) (ones pins rows)) = prodl (map (@length R) (free_of pins rows)).
Proof.
  induction pins as [|pn pins IH]; intros rows Hl; destruct rows as [|N rows]; try (cbn in Hl; lia); [reflexivity|].
  cbn [length] in Hl. destruct pn; cbn [ones free_of map prodl fold_right length].
  - fold (prodl (map (@length R) (ones pins rows))). rewrite IH by lia. unfold prodl. lia.
  - fold (prodl (map (@length R) (ones pins rows))). fold (prodl (map (@length R) (free_of pins rows))). rewrite IH by lia. reflexivity.
Qed.

Lemma tsum_ones : forall pins rows, length pins = length rows -> forall f,
  tsum (ones pins rows) f = tsum (free_of pins rows) f.
Proof.
  induction pins as [|pn pins IH]; intros rows Hl f; destruct rows as [|N rows]; try (cbn in Hl; lia); [reflexivity|].
  cbn [length] in Hl. destruct pn; cbn [ones free_of].
  - transitivity (tsum (ones pins rows) f); [exact (tsum_drop_one [] (ones pins rows) f)|apply IH; lia].
  - cbn [tsum]. cbv zeta. rewrite prodl_ones by lia. apply lcf_ext. intros i _. apply IH. lia.
Qed.

Lemma Forall2_length' {A B} (P : A -> B -> Prop) l1 l2 : Forall2 P l1 l2 -> length l1 = length l2.
Proof. induction 1; cbn [length]; [reflexivity|f_equal; assumption]. Qed.

(* contraction of the pinned net with the rows of the free directions = contraction of the full net with all rows *)
Theorem gsec_teval ncomp pins rows cps :
  Forall2 pin_row pins rows -> net_ok ncomp rows cps -> (0 < prodl (map (@length R) rows))%nat ->
  net_ok ncomp (free_of pins rows) (fst (gsec_cps ncomp (map (@length R) rows) pins 0 cps)) /\
  @teval R NumR ncomp (free_of pins rows) (fst (gsec_cps ncomp (map (@length R) rows) pins 0 cps)) = @teval R NumR ncomp rows cps.
Proof.
  intros HF Hnet Hpos.
  pose proof (Forall2_length' _ _ _ HF) as Hl.
  destruct (gsec_tsum ncomp pins rows HF [] cps Hnet Hpos) as (I1 & I2 & I3 & I4). cbn [app length] in *.
  set (cps' := fst (gsec_cps ncomp (map (@length R) rows) pins 0 cps)) in *.
  assert (Hnet' : net_ok ncomp (free_of pins rows) cps').
  { destruct I2 as [Hv Hlen]. split; [exact Hv|]. rewrite Hlen. apply prodl_ones. exact Hl. }
  split; [exact Hnet'|].
  apply (nth_ext _ _ 0 0).
  - rewrite (teval_length _ _ _ Hnet'), (teval_length _ _ _ Hnet). reflexivity.
  - intros c Hc. rewrite (teval_length _ _ _ Hnet') in Hc.
    change (nth c ?v 0) with (coord c v).
    rewrite (teval_tsum ncomp c _ Hc _ Hnet'), (teval_tsum ncomp c _ Hc _ Hnet).
    rewrite <- (I4 c Hc). symmetry. apply tsum_ones. exact Hl.
Qed.

(* ====================================================================================================== *)
(* 2. Object level                                                                                         *)
(* ====================================================================================================== *)
Lemma rows_at_cons tol (b : basis R) bs ts :
  @rows_at R NumR tol (b :: bs) [] [] ts = @basis_row R NumR tol b 0 true (hd 0 ts) :: @rows_at R NumR tol bs [] [] (tl ts).
Proof.
  unfold rows_at. cbn [length seq map]. f_equal.
  - cbn [nth]. destruct ts; reflexivity.
  - rewrite <- seq_shift, map_map. apply map_ext. intros i. rewrite !nth_nil_any. cbn [nth].
    f_equal. destruct ts; [destruct i|]; reflexivity.
Qed.

(* a pinned direction: the parameter passes validation unchanged and the row of basis values there is r *)
Definition pin_ok (tol : R) (pn : pin) (b : basis R) : Prop :=
  match pn with
  | Some (t, r) => @validate1 R NumR tol b t = Ok t /\ @basis_row R NumR tol b 0 true t = r
  | None => True
  end.

Lemma gsec_validate tol : forall pins bs, Forall2 (pin_ok tol) pins bs -> forall ts,
  @validate R NumR tol bs (fill pins ts)
  = match @validate R NumR tol (free_of pins bs) ts with Err e => Err e | Ok r => Ok (fill pins r) end.
Proof.
  induction 1 as [|pn b pins bs Hpn HF IH]; intros ts; [destruct ts; reflexivity|].
  destruct pn as [[t r]|]; cbn [pin_ok] in Hpn.
  - destruct Hpn as [Hv _]. cbn [fill validate hd tl free_of]. rewrite Hv, IH.
    destruct (@validate R NumR tol (free_of pins bs) ts); reflexivity.
  - cbn [fill validate hd tl free_of]. change (@n0 R NumR) with 0.
    destruct (@validate1 R NumR tol b (hd 0 ts)) as [t'|e]; [|reflexivity].
    rewrite IH. destruct (@validate R NumR tol (free_of pins bs) (tl ts)); reflexivity.
Qed.

Lemma gsec_rows tol : forall pins bs, Forall2 (pin_ok tol) pins bs -> forall r,
  Forall2 pin_row pins (@rows_at R NumR tol bs [] [] (fill pins r)) /\
  free_of pins (@rows_at R NumR tol bs [] [] (fill pins r)) = @rows_at R NumR tol (free_of pins bs) [] [] r.
Proof.
  induction 1 as [|pn b pins bs Hpn HF IH]; intros r; [split; [constructor|reflexivity]|].
  destruct pn as [[t rr]|]; cbn [pin_ok] in Hpn.
  - destruct Hpn as [_ Hr]. cbn [fill]. rewrite rows_at_cons. cbn [hd tl free_of]. destruct (IH r) as [A B].
    split; [constructor; [exact Hr|exact A]|exact B].
  - cbn [fill]. rewrite !rows_at_cons. cbn [hd tl free_of]. destruct (IH (tl r)) as [A B].
    split; [constructor; [exact I|exact A]|]. rewrite rows_at_cons. f_equal. exact B.
Qed.

Definition pinned_obj (o : obj R) (pins : list pin) : obj R :=
  mkObj (free_of pins (o_bases o)) (fst (gsec_cps (@o_ncomp R o) (@o_shape R o) pins 0 (o_cps o))) (o_dim o) (o_rat o).

Lemma free_of_Forall {A} (P : A -> Prop) : forall pins l, Forall P l -> Forall P (free_of pins l).
Proof.
  induction pins as [|pn pins IH]; intros l Hl; [constructor|].
  destruct l as [|a l]; [destruct pn; constructor|]. inversion Hl; subst.
  destruct pn; cbn [free_of]; [apply IH; assumption|constructor; [assumption|apply IH; assumption]].
Qed.

Section Pinned.
Variable tol : R.
Variable o : obj R.
Hypothesis Hwf : wf_obj_R tol o.
Variable pins : list pin.
Hypothesis Hpins : Forall2 (pin_ok tol) pins (o_bases o).

(* MAIN LEMMA: the pinned object at ts = the object at ts completed by the pinned parameters (also when
   validation fails: both sides are then the same ValueError) *)
Theorem pinned_eval ts : @obj_eval R NumR tol (pinned_obj o pins) ts = @obj_eval R NumR tol o (fill pins ts).
Proof.
  unfold obj_eval.
  change (o_bases (pinned_obj o pins)) with (free_of pins (o_bases o)).
  change (o_rat (pinned_obj o pins)) with (o_rat o). change (o_dim (pinned_obj o pins)) with (o_dim o).
  rewrite (gsec_validate tol pins (o_bases o) Hpins ts).
  destruct (@validate R NumR tol (free_of pins (o_bases o)) ts) as [r|e]; [|reflexivity].
  assert (EH : @eval_h R NumR tol (pinned_obj o pins) [] [] r = @eval_h R NumR tol o [] [] (fill pins r)).
  { unfold eval_h, pinned_obj. cbn [o_bases o_cps]. change (@o_ncomp R (mkObj _ _ (o_dim o) (o_rat o))) with (@o_ncomp R o).
    destruct (gsec_rows tol pins (o_bases o) Hpins r) as [HR HFr]. rewrite <- HFr.
    rewrite <- (cd_shape_rows tol o (fill pins r)).
    destruct Hwf as (HB & HV & HL).
    apply gsec_teval; [exact HR| |].
    - split; [exact HV|]. rewrite cd_shape_rows. exact HL.
    - rewrite cd_shape_rows. apply (cd_pos tol o Hwf). }
  rewrite EH. reflexivity.
Qed.

Theorem pinned_wf : wf_obj_R tol (pinned_obj o pins).
Proof.
  pose proof (cd_pos tol o Hwf) as Hpos. destruct Hwf as (HB & HV & HL).
  destruct (gsec_rows tol pins (o_bases o) Hpins []) as [HR HFr].
  set (rows := @rows_at R NumR tol (o_bases o) [] [] (fill pins [])) in *.
  assert (Hsh : map (@length R) rows = @o_shape R o) by apply cd_shape_rows.
  destruct (gsec_teval (@o_ncomp R o) pins rows (o_cps o) HR) as [[Hv Hl] _].
  { split; [exact HV|]. rewrite Hsh. exact HL. }
  { rewrite Hsh. exact Hpos. }
  rewrite Hsh in Hv, Hl.
  unfold pinned_obj. split; [|split]; cbn [o_bases o_cps].
  - apply free_of_Forall. exact HB.
  - exact Hv.
  - rewrite Hl. f_equal. unfold o_shape at 1. cbn [o_bases]. rewrite <- (free_of_map (@length R)), Hsh. unfold o_shape. apply free_of_map.
Qed.
End Pinned.

(* ====================================================================================================== *)
(* 3. Sections                                                                                             *)
(* ====================================================================================================== *)
(* the row of B-spline values at a knot of multiplicity p-1 (order p): a unit row.  Right-sided: k_m <= t < k_{m+1}
   with k_j = t for the p-1 indices m-(p-1) < j <= m; left-sided: t = k_{m+1} > k_m with k_j = t for m+1 <= j <= m+p-1 *)
Lemma Brow_nth0 side (k : list R) pp t i : (i < length k - pp)%nat -> nth i (Brow side k pp t) 0 = B side (@kn R NumR k) (pp - 1) i t.
Proof. intros Hi. unfold Brow. rewrite (nth_map_gen _ _ i 0 0%nat) by (rewrite seq_length; lia). rewrite seq_nth by lia. reflexivity. Qed.

Lemma Brow_full_mult_right (k : list R) p m t :
  sorted (@kn R NumR k) -> (1 <= p)%nat -> @kn R NumR k m <= t < @kn R NumR k (S m) -> (p - 1 <= m)%nat ->
  (forall j, (m - (p - 1) < j <= m)%nat -> @kn R NumR k j = t) ->
  Brow true k p t = unit_row (length k - p) (m - (p - 1)).
Proof.
  intros HK Hp Ht Hm Hmul. apply (nth_ext _ _ 0 0).
  - unfold Brow. rewrite map_length, seq_length, unit_row_length. reflexivity.
  - intros c Hc. unfold Brow in Hc. rewrite map_length, seq_length in Hc.
    rewrite Brow_nth0 by exact Hc. rewrite unit_row_nth by exact Hc.
    destruct (Nat.eq_dec (p - 1) 0) as [E|E].
    + rewrite E. rewrite Nat.sub_0_r. apply (B0_span true (@kn R NumR k) HK m t). cbn. exact Ht.
    + assert (Et : t = @kn R NumR k m) by (symmetry; apply Hmul; lia).
      apply (B_at_full_mult_knot (@kn R NumR k) HK m t Et); [rewrite <- Et; apply Ht|exact Hm|exact Hmul].
Qed.

Lemma Brow_full_mult_left (k : list R) p m t :
  sorted (@kn R NumR k) -> t = @kn R NumR k (S m) -> @kn R NumR k m < @kn R NumR k (S m) ->
  (forall j, (m + 1 <= j <= m + (p - 1))%nat -> @kn R NumR k j = t) ->
  Brow false k p t = unit_row (length k - p) m.
Proof.
  intros HK Et Hlt Hmul. apply (nth_ext _ _ 0 0).
  - unfold Brow. rewrite map_length, seq_length, unit_row_length. reflexivity.
  - intros c Hc. unfold Brow in Hc. rewrite map_length, seq_length in Hc.
    rewrite Brow_nth0 by exact Hc. rewrite unit_row_nth by exact Hc.
    apply (B_at_full_mult_knot_left (@kn R NumR k) HK m t Et Hlt (p - 1)%nat Hmul).
Qed.

(* how a pinned direction is established on a non-periodic basis: t is not moved by snap, lies in the domain,
   and the Cox-de Boor row at t (taken from the left within tol of the end, as evaluate does) is r *)
Lemma pin_ok_intro tol p (k : list R) t r :
  0 < tol -> wf_basis_R tol (mkBasis p k 0) ->
  @snap1 R NumR k tol t = t -> @kn R NumR k (p - 1) <= t <= @kn R NumR k (length k - p) ->
  Brow (if Rltb (Rabs (t - @kn R NumR k (length k - p))) tol then false else true) k p t = r ->
  pin_ok tol (Some (t, r)) (mkBasis p k 0).
Proof.
  intros Htol (HK & Hp & Hlen & Hn & Hw) Hsn Ht Hr. cbn [b_knots b_order] in *. unfold b_start, b_end in Hw. cbn [b_knots b_order] in Hw.
  cbn [pin_ok]. split.
  - rewrite validate1_ok.
    + cbn [b_knots]. rewrite Hsn. reflexivity.
    + intros _. unfold b_start, b_end. cbn [b_knots b_order]. rewrite Hsn. exact Ht.
  - rewrite (basis_row_nonper tol k p t HK Hp Hlen Htol). rewrite Hsn.
    rewrite (normalise_nonper_true k p tol t Htol Hw Ht). exact Hr.
Qed.

Definition clamped_start (b : basis R) : Prop :=
  (forall j, (j < b_order b)%nat -> @kn R NumR (b_knots b) j = @b_start R NumR b) /\
  @b_start R NumR b < @kn R NumR (b_knots b) (b_order b).
Definition clamped_end (b : basis R) : Prop :=
  let n := (length (b_knots b) - b_order b)%nat in
  (forall j, (n <= j < n + b_order b)%nat -> @kn R NumR (b_knots b) j = @b_end R NumR b) /\
  @kn R NumR (b_knots b) (n - 1) < @b_end R NumR b.

Lemma start_pin_ok tol (b : basis R) : 0 < tol -> wf_basis_R tol b -> b_per1 b = 0%nat -> clamped_start b ->
  pin_ok tol (Some (@b_start R NumR b, unit_row (@b_nfun R b) 0)) b.
Proof.
  intros Htol Hwf Hper [Hm Hlt]. destruct b as [p k per]. cbn [b_per1] in Hper. subst per.
  pose proof Hwf as (HK & Hp & Hlen & Hn & Hw).
  unfold b_start, b_end, b_nfun in *. cbn [b_knots b_order b_per1] in *.
  apply pin_ok_intro; try assumption.
  - apply snap1_knot; [exact HK|exact Htol|lia].
  - lra.
  - destruct (Rltb_spec (Rabs (@kn R NumR k (p - 1) - @kn R NumR k (length k - p))) tol) as [A|A].
    + exfalso. rewrite Rabs_left1 in A by lra. lra.
    + rewrite (Brow_full_mult_right k p (p - 1) _ HK Hp).
      * f_equal; lia.
      * replace (S (p - 1)) with p by lia. lra.
      * lia.
      * intros j Hj. apply Hm. lia.
Qed.

Lemma end_pin_ok tol (b : basis R) : 0 < tol -> wf_basis_R tol b -> b_per1 b = 0%nat -> clamped_end b ->
  pin_ok tol (Some (@b_end R NumR b, unit_row (@b_nfun R b) (@b_nfun R b - 1))) b.
Proof.
  intros Htol Hwf Hper [Hm Hlt]. destruct b as [p k per]. cbn [b_per1] in Hper. subst per.
  pose proof Hwf as (HK & Hp & Hlen & Hn & Hw).
  unfold b_start, b_end, b_nfun in *. cbn [b_knots b_order b_per1] in *.
  apply pin_ok_intro; try assumption.
  - apply snap1_knot; [exact HK|exact Htol|lia].
  - lra.
  - destruct (Rltb_spec (Rabs (@kn R NumR k (length k - p) - @kn R NumR k (length k - p))) tol) as [A|A].
    + rewrite (Brow_full_mult_left k p (length k - p - 1) _ HK).
      * f_equal; lia.
      * f_equal. lia.
      * replace (S (length k - p - 1)) with (length k - p)%nat by lia. exact Hlt.
      * intros j Hj. apply Hm. lia.
    + exfalso. apply A. replace (@kn R NumR k (length k - p) - @kn R NumR k (length k - p)) with 0 by ring. rewrite Rabs_R0. exact Htol.
Qed.

(* selector per direction (Model/Section.v): 0 = first index, 1 = last index, anything else = free *)
Definition sec_pin (s : nat) (b : basis R) : pin :=
  if (s =? 0)%nat then Some (@b_start R NumR b, unit_row (@b_nfun R b) 0)
  else if (s =? 1)%nat then Some (@b_end R NumR b, unit_row (@b_nfun R b) (@b_nfun R b - 1)) else None.
Fixpoint sec_pins (sels : list nat) (bs : list (basis R)) : list pin :=
  match sels, bs with
  | s :: sels', b :: bs' => sec_pin s b :: sec_pins sels' bs'
  | _, _ => []
  end.

(* the hypothesis on a pinned direction: non-periodic, and clamped at the chosen end *)
Definition sec_ok (s : nat) (b : basis R) : Prop :=
  if (s =? 0)%nat then b_per1 b = 0%nat /\ clamped_start b
  else if (s =? 1)%nat then b_per1 b = 0%nat /\ clamped_end b else True.

(* the parameter tuple of the object that corresponds to the tuple ts of the section: the start / end of the
   pinned directions is inserted at their positions *)
Fixpoint sec_fill (sels : list nat) (bs : list (basis R)) (ts : list R) : list R :=
  match sels, bs with
  | s :: sels', b :: bs' =>
    if (s =? 0)%nat then @b_start R NumR b :: sec_fill sels' bs' ts
    else if (s =? 1)%nat then @b_end R NumR b :: sec_fill sels' bs' ts
    else hd 0 ts :: sec_fill sels' bs' (tl ts)
  | _, _ => []
  end.

Lemma sec_pins_ok tol : 0 < tol -> forall sels bs, Forall (wf_basis_R tol) bs -> Forall2 sec_ok sels bs ->
  Forall2 (pin_ok tol) (sec_pins sels bs) bs.
Proof.
  intros Htol sels bs Hwf H. induction H as [|s b sels bs Hs HF IH]; [constructor|].
  inversion Hwf as [|? ? Hb Hbs]; subst. cbn [sec_pins]. constructor; [|apply IH; exact Hbs].
  unfold sec_pin, sec_ok in *. destruct (s =? 0)%nat; [destruct Hs; apply start_pin_ok; assumption|].
  destruct (s =? 1)%nat; [destruct Hs; apply end_pin_ok; assumption|exact I].
Qed.

Lemma sec_fill_pins : forall sels bs ts, fill (sec_pins sels bs) ts = sec_fill sels bs ts.
Proof.
  induction sels as [|s sels IH]; intros bs ts; [reflexivity|]. destruct bs as [|b bs]; [reflexivity|].
  cbn [sec_pins sec_fill]. unfold sec_pin. destruct (s =? 0)%nat; [cbn [fill]; f_equal; apply IH|].
  destruct (s =? 1)%nat; cbn [fill]; f_equal; apply IH.
Qed.

Lemma sel_matrix_unit n idx : @sel_matrix R NumR n idx = [unit_row n idx].
Proof. reflexivity. Qed.

Lemma section_cps_gsec ncomp : forall sels bs, length sels = length bs -> forall pre cps,
  @section_cps R NumR ncomp (pre ++ map (@b_nfun R) bs) sels (length pre) cps
  = gsec_cps ncomp (pre ++ map (@b_nfun R) bs) (sec_pins sels bs) (length pre) cps.
Proof.
  induction sels as [|s sels IH]; intros bs Hl pre cps; [reflexivity|].
  destruct bs as [|b bs]; [cbn in Hl; lia|]. cbn [length] in Hl.
  cbn [section_cps sec_pins map]. rewrite nth_middle, !upd_app_mid, !sel_matrix_unit. unfold sec_pin.
  assert (E : forall x : nat, pre ++ x :: map (@b_nfun R) bs = (pre ++ [x]) ++ map (@b_nfun R) bs) by (intros x; rewrite <- app_assoc; reflexivity).
  assert (L : forall x : nat, S (length pre) = length (pre ++ [x])) by (intros x; rewrite app_length; cbn [length]; lia).
  destruct (s =? 0)%nat.
  - cbn [gsec_cps]. rewrite upd_app_mid. rewrite (E 1%nat), (L 1%nat). apply IH. lia.
  - destruct (s =? 1)%nat.
    + cbn [gsec_cps]. rewrite upd_app_mid. rewrite (E 1%nat), (L 1%nat). apply IH. lia.
    + cbn [gsec_cps]. rewrite (E (@b_nfun R b)), (L (@b_nfun R b)). apply IH. lia.
Qed.

Lemma sec_free : forall sels (bs : list (basis R)),
  map snd (filter (fun sb : nat * basis R => negb ((fst sb =? 0)%nat || (fst sb =? 1)%nat)) (combine sels bs))
  = free_of (sec_pins sels bs) bs.
Proof.
  induction sels as [|s sels IH]; intros bs; [reflexivity|]. destruct bs as [|b bs]; [reflexivity|].
  cbn [combine filter fst sec_pins]. unfold sec_pin.
  destruct (s =? 0)%nat; cbn [orb negb free_of]; [apply IH|].
  destruct (s =? 1)%nat; cbn [negb free_of map snd]; [apply IH|f_equal; apply IH].
Qed.

(* the model's section IS the pinned object with unit rows *)
Lemma obj_section_pinned (o : obj R) sels : length sels = length (o_bases o) ->
  @obj_section R NumR o sels = pinned_obj o (sec_pins sels (o_bases o)).
Proof.
  intros Hl. unfold obj_section, pinned_obj. f_equal; [apply sec_free|].
  f_equal. exact (section_cps_gsec (@o_ncomp R o) sels (o_bases o) Hl [] (o_cps o)).
Qed.

Section SectionEval.
Variable tol : R.
Hypothesis Htol : 0 < tol.
Variable o : obj R.
Hypothesis Hwf : wf_obj_R tol o.
Variable sels : list nat.
Hypothesis Hsels : Forall2 sec_ok sels (o_bases o).

(* 2. the general selector *)
Theorem section_eval ts :
  @obj_eval R NumR tol (@obj_section R NumR o sels) ts = @obj_eval R NumR tol o (sec_fill sels (o_bases o) ts).
Proof.
  rewrite obj_section_pinned by (apply (Forall2_length' _ _ _ Hsels)).
  rewrite <- sec_fill_pins. apply pinned_eval; [exact Hwf|].
  apply sec_pins_ok; [exact Htol|apply Hwf|exact Hsels].
Qed.

Theorem section_wf : wf_obj_R tol (@obj_section R NumR o sels).
Proof.
  rewrite obj_section_pinned by (apply (Forall2_length' _ _ _ Hsels)).
  apply pinned_wf; [exact Hwf|]. apply sec_pins_ok; [exact Htol|apply Hwf|exact Hsels].
Qed.
End SectionEval.

(* ---------- 1. pinning ONE direction ---------- *)
Definition one_sel (n d : nat) (last : bool) : list nat :=
  repeat 2%nat d ++ (if last then 1%nat else 0%nat) :: repeat 2%nat (n - d - 1).

Lemma sec_fill_free : forall (bs : list (basis R)) ts, length ts = length bs -> sec_fill (repeat 2%nat (length bs)) bs ts = ts.
Proof.
  induction bs as [|b bs IH]; intros ts Hl; [destruct ts; [reflexivity|cbn in Hl; lia]|].
  destruct ts as [|t ts]; [cbn in Hl; lia|]. cbn [length repeat sec_fill Nat.eqb hd tl]. f_equal. apply IH. cbn in Hl. lia.
Qed.

Lemma skipn_nth_cons {A} (l : list A) d dflt : (d < length l)%nat -> skipn d l = nth d l dflt :: skipn (S d) l.
Proof. revert d; induction l as [|a l IH]; intros d Hd; [cbn in Hd; lia|]. destruct d; [reflexivity|]. cbn [skipn nth]. apply IH. cbn in Hd. lia. Qed.

Lemma sec_fill_prefix : forall d (bs : list (basis R)) ts rest, (d <= length bs)%nat -> (d <= length ts)%nat ->
  sec_fill (repeat 2%nat d ++ rest) bs ts = firstn d ts ++ sec_fill rest (skipn d bs) (skipn d ts).
Proof.
  induction d as [|d IH]; intros bs ts rest Hb Ht; [reflexivity|].
  destruct bs as [|b bs]; [cbn in Hb; lia|]. destruct ts as [|t ts]; [cbn in Ht; lia|].
  cbn [repeat app sec_fill Nat.eqb hd tl firstn skipn]. f_equal. apply IH; cbn in *; lia.
Qed.

Lemma Forall2_sec_free : forall bs : list (basis R), Forall2 sec_ok (repeat 2%nat (length bs)) bs.
Proof. induction bs as [|b bs IH]; cbn [length repeat]; constructor; [exact I|exact IH]. Qed.

Lemma Forall2_one_sel s : forall d (bs : list (basis R)), (d < length bs)%nat -> sec_ok s (nth d bs dflt_basis) ->
  Forall2 sec_ok (repeat 2%nat d ++ s :: repeat 2%nat (length bs - d - 1)) bs.
Proof.
  induction d as [|d IH]; intros bs Hd Hs; (destruct bs as [|b bs]; [cbn in Hd; lia|]).
  - cbn [length repeat app nth] in *. replace (S (length bs) - 0 - 1)%nat with (length bs) by lia.
    constructor; [exact Hs|apply Forall2_sec_free].
  - cbn [length repeat app nth] in *. constructor; [exact I|]. replace (S (length bs) - S d - 1)%nat with (length bs - d - 1)%nat by lia.
    apply IH; [lia|exact Hs].
Qed.

Theorem section_eval_one tol (o : obj R) d (last : bool) ts :
  0 < tol -> wf_obj_R tol o -> (d < length (o_bases o))%nat ->
  let bd := nth d (o_bases o) dflt_basis in
  b_per1 bd = 0%nat -> (if last then clamped_end bd else clamped_start bd) ->
  length ts = (length (o_bases o) - 1)%nat ->
  @obj_eval R NumR tol (@obj_section R NumR o (one_sel (length (o_bases o)) d last)) ts
  = @obj_eval R NumR tol o (firstn d ts ++ (if last then @b_end R NumR bd else @b_start R NumR bd) :: skipn d ts).
Proof.
  intros Htol Hwf Hd bd Hper Hcl Hts. unfold one_sel.
  rewrite (section_eval tol Htol o Hwf).
  - f_equal. rewrite sec_fill_prefix by lia. f_equal.
    rewrite (skipn_nth_cons (o_bases o) d dflt_basis Hd). fold bd.
    assert (Hrest : sec_fill (repeat 2%nat (length (o_bases o) - d - 1)) (skipn (S d) (o_bases o)) (skipn d ts) = skipn d ts).
    { replace (length (o_bases o) - d - 1)%nat with (length (skipn (S d) (o_bases o))) by (rewrite skipn_length; lia).
      apply sec_fill_free. rewrite !skipn_length. lia. }
    destruct last; cbn [sec_fill Nat.eqb]; rewrite Hrest; reflexivity.
  - apply Forall2_one_sel; [exact Hd|]. fold bd. destruct last; cbn [sec_ok Nat.eqb]; unfold sec_ok; cbn [Nat.eqb]; split; assumption.
Qed.

(* ---------- corners: every direction pinned ---------- *)
Fixpoint corner_rows (sels : list nat) (bs : list (basis R)) : list (list R) :=
  match sels, bs with
  | s :: sels', b :: bs' => unit_row (@b_nfun R b) (if (s =? 0)%nat then 0%nat else (@b_nfun R b - 1)%nat) :: corner_rows sels' bs'
  | _, _ => []
  end.
(* the flat (C order) index of the corner control point *)
Fixpoint corner_flat (sels shape : list nat) : nat :=
  match sels, shape with
  | s :: sels', n :: shape' => ((if (s =? 0)%nat then 0 else n - 1) * prodl shape' + corner_flat sels' shape')%nat
  | _, _ => 0%nat
  end.
(* ... is the model's [ravel] of the multi-index (0 or n_i - 1 per direction) *)
Lemma corner_flat_ravel : forall sels shape,
  corner_flat sels shape = ravel shape (map (fun sn : nat * nat => if (fst sn =? 0)%nat then 0%nat else (snd sn - 1)%nat) (combine sels shape)).
Proof.
  induction sels as [|s sels IH]; intros shape; [destruct shape; reflexivity|]. destruct shape as [|n shape]; [reflexivity|].
  cbn [corner_flat combine map ravel fst snd]. rewrite IH. reflexivity.
Qed.

Definition all_pinned (sels : list nat) : Prop := Forall (fun s => s = 0%nat \/ s = 1%nat) sels.

Lemma corner_flat_lt : forall sels shape, length sels = length shape -> Forall (fun n => 0 < n)%nat shape ->
  (corner_flat sels shape < prodl shape)%nat.
Proof.
  induction sels as [|s sels IH]; intros shape Hl Hp; destruct shape as [|n shape]; try (cbn in Hl; lia); [cbn; lia|].
  inversion Hp; subst. cbn [corner_flat prodl fold_right]. fold (prodl shape).
  specialize (IH shape ltac:(cbn in Hl; lia) ltac:(assumption)). destruct (s =? 0)%nat; nia.
Qed.

Lemma tsum_corner_rows : forall sels bs, length sels = length bs -> Forall (fun b => 0 < @b_nfun R b)%nat bs -> forall f,
  tsum (corner_rows sels bs) f = f (corner_flat sels (map (@b_nfun R) bs)).
Proof.
  induction sels as [|s sels IH]; intros bs Hl Hp f; destruct bs as [|b bs]; try (cbn in Hl; lia); [reflexivity|].
  inversion Hp; subst. cbn [corner_rows corner_flat map tsum]. cbv zeta.
  assert (Hsh : map (@length R) (corner_rows sels bs) = map (@b_nfun R) bs).
  { clear - Hl. cbn in Hl. revert bs Hl. induction sels as [|s' sels IH']; intros bs Hl; destruct bs as [|b' bs]; try (cbn in Hl; lia); [reflexivity|].
    cbn [corner_rows map]. rewrite unit_row_length. f_equal. apply IH'. cbn in Hl. lia. }
  rewrite Hsh. rewrite lcf_unit by (destruct (s =? 0)%nat; lia).
  rewrite IH by (try assumption; cbn in Hl; lia). reflexivity.
Qed.

Lemma corner_rows_pins : forall sels bs, length sels = length bs -> all_pinned sels ->
  Forall2 pin_row (sec_pins sels bs) (corner_rows sels bs) /\ (forall A (l : list A), free_of (sec_pins sels bs) l = []) /\
  map (@length R) (corner_rows sels bs) = map (@b_nfun R) bs.
Proof.
  induction sels as [|s sels IH]; intros bs Hl Hp; destruct bs as [|b bs]; try (cbn in Hl; lia).
  - split; [constructor|]. split; [intros A l; destruct l; reflexivity|reflexivity].
  - inversion Hp as [|? ? Hs Hp']; subst. destruct (IH bs ltac:(cbn in Hl; lia) Hp') as (I1 & I2 & I3).
    cbn [sec_pins corner_rows map]. rewrite unit_row_length, I3. unfold sec_pin.
    destruct Hs as [-> | ->]; cbn [Nat.eqb]; (split; [constructor; [reflexivity|exact I1]|]); (split; [|reflexivity]);
      intros A l; destruct l; cbn [free_of]; try reflexivity; apply I2.
Qed.

(* the corner section consists of exactly the corner control point (in homogeneous coordinates when rational, as
   SplineObject.corners documents) -- a statement about the net only *)
Theorem section_corner_cps tol (o : obj R) sels :
  wf_obj_R tol o -> length sels = length (o_bases o) -> all_pinned sels ->
  o_bases (@obj_section R NumR o sels) = [] /\
  o_cps (@obj_section R NumR o sels) = [nth (corner_flat sels (@o_shape R o)) (o_cps o) []] /\
  (corner_flat sels (@o_shape R o) < length (o_cps o))%nat.
Proof.
  intros Hwf Hl Hp. pose proof (cd_pos tol o Hwf) as Hpos. destruct Hwf as (HB & HV & HL).
  assert (Hnf : Forall (fun b => 0 < @b_nfun R b)%nat (o_bases o)).
  { apply Forall_forall. intros b Hb. rewrite Forall_forall in HB. apply (HB b Hb). }
  destruct (corner_rows_pins sels (o_bases o) Hl Hp) as (P1 & P2 & P3).
  assert (Hlt : (corner_flat sels (@o_shape R o) < length (o_cps o))%nat).
  { rewrite HL. apply corner_flat_lt; [unfold o_shape; rewrite map_length; exact Hl|].
    unfold o_shape. apply Forall_forall. intros n Hn. apply in_map_iff in Hn. destruct Hn as (b & <- & Hb).
    rewrite Forall_forall in Hnf. apply (Hnf b Hb). }
  rewrite (obj_section_pinned o sels Hl). unfold pinned_obj. cbn [o_bases o_cps].
  split; [apply P2|]. split; [|exact Hlt].
  fold (@o_shape R o) in P3. rewrite <- P3.
  destruct (gsec_teval (@o_ncomp R o) (sec_pins sels (o_bases o)) (corner_rows sels (o_bases o)) (o_cps o) P1) as [[Hv Hlen] Hev].
  { split; [exact HV|]. rewrite P3. exact HL. }
  { rewrite P3. exact Hpos. }
  rewrite P2 in Hlen, Hev. cbn [map prodl fold_right] in Hlen. cbn [teval] in Hev.
  set (cps' := fst (gsec_cps (@o_ncomp R o) (map (@length R) (corner_rows sels (o_bases o))) (sec_pins sels (o_bases o)) 0 (o_cps o))) in *.
  destruct cps' as [|x [|y rest]]; try (cbn in Hlen; lia). cbn [nth] in Hev. f_equal. rewrite Hev.
  assert (Hnet : net_ok (@o_ncomp R o) (corner_rows sels (o_bases o)) (o_cps o)) by (split; [exact HV|rewrite P3; exact HL]).
  rewrite P3. fold (@o_shape R o).
  apply (nth_ext _ _ 0 0).
  - rewrite (teval_length _ _ _ Hnet). rewrite Forall_forall in HV. symmetry. apply HV. apply nth_In. exact Hlt.
  - intros c Hc. rewrite (teval_length _ _ _ Hnet) in Hc.
    change (nth c ?v 0) with (coord c v).
    rewrite (teval_tsum (@o_ncomp R o) c _ Hc _ Hnet).
    rewrite (tsum_corner_rows sels (o_bases o) Hl Hnf). unfold cnet. fold (@o_shape R o).
    rewrite (nth_indep _ (@vzero R NumR (@o_ncomp R o)) []) by exact Hlt. reflexivity.
Qed.

(* ... and, when the pinned ends are clamped, the object evaluated at the corner parameters is that control point
   (divided by its weight when rational) *)
Theorem section_corner tol (o : obj R) sels :
  0 < tol -> wf_obj_R tol o -> Forall2 sec_ok sels (o_bases o) -> all_pinned sels ->
  let P := nth (corner_flat sels (@o_shape R o)) (o_cps o) [] in
  @obj_eval R NumR tol o (sec_fill sels (o_bases o) []) = Ok (if o_rat o then @project_rat R NumR (o_dim o) P else P).
Proof.
  intros Htol Hwf Hs Hp P.
  rewrite <- (section_eval tol Htol o Hwf sels Hs []).
  destruct (section_corner_cps tol o sels Hwf (Forall2_length' _ _ _ Hs) Hp) as (Hb & Hc & _).
  unfold obj_eval, eval_h. rewrite Hb, Hc. cbn [validate]. unfold rows_at. cbn [length seq map teval nth].
  reflexivity.
Qed.

(* ====================================================================================================== *)
(* 3b. The control net of a section is the sliced net (self.controlpoints[slices])                        *)
(* ====================================================================================================== *)
Fixpoint unit_rows (shape idxs : list nat) : list (list R) :=
  match shape, idxs with
  | n :: shape', i :: idxs' => unit_row n i :: unit_rows shape' idxs'
  | _, _ => []
  end.

Lemma unit_rows_shape : forall shape idxs, length idxs = length shape -> map (@length R) (unit_rows shape idxs) = shape.
Proof.
  induction shape as [|n shape IH]; intros idxs Hl; [destruct idxs; reflexivity|].
  destruct idxs as [|i idxs]; [cbn in Hl; lia|]. cbn [unit_rows map]. rewrite unit_row_length. f_equal. apply IH. cbn in Hl. lia.
Qed.

Lemma tsum_unit_rows : forall idxs shape, Forall2 lt idxs shape -> forall f, tsum (unit_rows shape idxs) f = f (ravel shape idxs).
Proof.
  induction 1 as [|i n idxs shape Hi HF IH]; intros f; [reflexivity|].
  cbn [unit_rows tsum ravel]. cbv zeta. rewrite (unit_rows_shape shape idxs (Forall2_length' _ _ _ HF)).
  rewrite lcf_unit by exact Hi. rewrite IH. reflexivity.
Qed.

Lemma ravel_lt : forall idxs shape, Forall2 lt idxs shape -> (ravel shape idxs < prodl shape)%nat.
Proof.
  induction 1 as [|i n idxs shape Hi HF IH]; [cbn; lia|].
  cbn [ravel prodl fold_right]. fold (prodl shape). nia.
Qed.

(* contracting a net with unit rows picks the entry at the (C order) flat index *)
Lemma teval_unit_rows ncomp shape idxs (cps : list (list R)) :
  Forall2 lt idxs shape -> Forall (fun v => length v = ncomp) cps -> length cps = prodl shape ->
  @teval R NumR ncomp (unit_rows shape idxs) cps = nth (ravel shape idxs) cps [].
Proof.
  intros HF Hv Hl. pose proof (ravel_lt idxs shape HF) as Hlt.
  assert (Hnet : net_ok ncomp (unit_rows shape idxs) cps).
  { split; [exact Hv|]. rewrite (unit_rows_shape shape idxs (Forall2_length' _ _ _ HF)). exact Hl. }
  apply (nth_ext _ _ 0 0).
  - rewrite (teval_length _ _ _ Hnet). rewrite Forall_forall in Hv. symmetry. apply Hv, nth_In. lia.
  - intros c Hc. rewrite (teval_length _ _ _ Hnet) in Hc. change (nth c ?v 0) with (coord c v).
    rewrite (teval_tsum ncomp c _ Hc _ Hnet). rewrite (tsum_unit_rows idxs shape HF). unfold cnet.
    rewrite (nth_indep _ (@vzero R NumR ncomp) []) by lia. reflexivity.
Qed.

(* the multi-index of the object that corresponds to the multi-index js of the section *)
Fixpoint sec_idx (sels shape js : list nat) : list nat :=
  match sels, shape with
  | s :: sels', n :: shape' =>
    if (s =? 0)%nat then 0%nat :: sec_idx sels' shape' js
    else if (s =? 1)%nat then (n - 1)%nat :: sec_idx sels' shape' js
    else hd 0%nat js :: sec_idx sels' shape' (tl js)
  | _, _ => []
  end.

Lemma sec_unit_rows : forall sels (bs : list (basis R)) js, length sels = length bs -> Forall (fun b => 0 < @b_nfun R b)%nat bs ->
  Forall2 lt js (free_of (sec_pins sels bs) (map (@b_nfun R) bs)) ->
  Forall2 lt (sec_idx sels (map (@b_nfun R) bs) js) (map (@b_nfun R) bs) /\
  Forall2 pin_row (sec_pins sels bs) (unit_rows (map (@b_nfun R) bs) (sec_idx sels (map (@b_nfun R) bs) js)) /\
  free_of (sec_pins sels bs) (unit_rows (map (@b_nfun R) bs) (sec_idx sels (map (@b_nfun R) bs) js))
  = unit_rows (free_of (sec_pins sels bs) (map (@b_nfun R) bs)) js.
Proof.
  induction sels as [|s sels IH]; intros bs js Hl Hp Hjs; destruct bs as [|b bs]; try (cbn in Hl; lia).
  - cbn [sec_pins map free_of] in *. inversion Hjs; subst. split; [constructor|]. split; [constructor|reflexivity].
  - inversion Hp as [|? ? Hb Hp']; subst. cbn [sec_pins map sec_idx] in *. unfold sec_pin in *.
    destruct (s =? 0)%nat.
    + cbn [free_of] in Hjs. destruct (IH bs js ltac:(cbn in Hl; lia) Hp' Hjs) as (A & B & C).
      cbn [unit_rows free_of]. split; [constructor; [exact Hb|exact A]|]. split; [constructor; [reflexivity|exact B]|exact C].
    + destruct (s =? 1)%nat.
      * cbn [free_of] in Hjs. destruct (IH bs js ltac:(cbn in Hl; lia) Hp' Hjs) as (A & B & C).
        cbn [unit_rows free_of]. split; [constructor; [lia|exact A]|]. split; [constructor; [reflexivity|exact B]|exact C].
      * cbn [free_of] in Hjs. inversion Hjs as [|j n' js' sh' Hj Hjs' E1 E2]; subst. cbn [hd tl].
        destruct (IH bs js' ltac:(cbn in Hl; lia) Hp' Hjs') as (A & B & C).
        cbn [unit_rows free_of]. split; [constructor; [exact Hj|exact A]|]. split; [constructor; [exact I|exact B]|]. f_equal. exact C.
Qed.

(* entry js of the section's net = entry (sec_idx ... js) of the object's net: the pinned directions sit at their
   first / last index, the free ones at js *)
Theorem section_cps_slice tol (o : obj R) sels js :
  wf_obj_R tol o -> length sels = length (o_bases o) -> Forall2 lt js (@o_shape R (@obj_section R NumR o sels)) ->
  nth (ravel (@o_shape R (@obj_section R NumR o sels)) js) (o_cps (@obj_section R NumR o sels)) []
  = nth (ravel (@o_shape R o) (sec_idx sels (@o_shape R o) js)) (o_cps o) [].
Proof.
  intros Hwf Hl Hjs. pose proof (cd_pos tol o Hwf) as Hpos. destruct Hwf as (HB & HV & HL).
  assert (Hnf : Forall (fun b => 0 < @b_nfun R b)%nat (o_bases o)).
  { apply Forall_forall. intros b Hb. rewrite Forall_forall in HB. apply (HB b Hb). }
  rewrite (obj_section_pinned o sels Hl) in *. unfold pinned_obj in *. cbn [o_bases o_cps] in *.
  unfold o_shape in Hjs at 1. cbn [o_bases] in Hjs. rewrite <- free_of_map in Hjs.
  unfold o_shape at 1. cbn [o_bases]. rewrite <- free_of_map.
  destruct (sec_unit_rows sels (o_bases o) js Hl Hnf Hjs) as (A & B & C). fold (@o_shape R o) in *.
  set (idx := sec_idx sels (@o_shape R o) js) in *.
  assert (Hsh : map (@length R) (unit_rows (@o_shape R o) idx) = @o_shape R o) by (apply unit_rows_shape, (Forall2_length' _ _ _ A)).
  destruct (gsec_teval (@o_ncomp R o) (sec_pins sels (o_bases o)) (unit_rows (@o_shape R o) idx) (o_cps o) B) as [[Hv Hlen] Hev].
  { split; [exact HV|]. rewrite Hsh. exact HL. }
  { rewrite Hsh. exact Hpos. }
  rewrite Hsh in Hv, Hlen, Hev. rewrite C in Hlen, Hev.
  rewrite (unit_rows_shape _ js (Forall2_length' _ _ _ Hjs)) in Hlen.
  rewrite (teval_unit_rows _ _ _ _ Hjs Hv Hlen) in Hev. rewrite (teval_unit_rows _ _ _ _ A HV HL) in Hev. exact Hev.
Qed.

(* ====================================================================================================== *)
(* 4. The documented ORDER of edges() / faces() / corners()                                               *)
(* ====================================================================================================== *)
(* TRANSCRIPTION of splipy/utils/__init__.py:

     def sections(src_dim, tgt_dim):
         nfixed = src_dim - tgt_dim
         for fixed in combinations(range(src_dim), r=nfixed):
             for indices in product([0, -1], repeat=nfixed):
                 args = [None] * src_dim
                 for f, i in zip(fixed, indices[::-1]):
                     args[f] = i
                 yield args

   with the selector encoding of Model/Section.v: 0 -> 0 (first index), -1 -> 1 (last index), None -> 2 (free). *)
(* itertools.combinations(l, r): lexicographic in the positions *)
Fixpoint combs (l : list nat) (r : nat) : list (list nat) :=
  match l with
  | [] => match r with O => [[]] | S _ => [] end
  | x :: l' => match r with O => [[]] | S r' => map (cons x) (combs l' r') ++ combs l' (S r') end
  end.
(* itertools.product([0, -1], repeat=r): the last position runs fastest *)
Fixpoint prod01 (r : nat) : list (list nat) :=
  match r with
  | O => [[]]
  | S r' => flat_map (fun h => map (cons h) (prod01 r')) [0%nat; 1%nat]
  end.
Definition sections (src tgt : nat) : list (list nat) :=
  flat_map (fun fixed =>
              map (fun indices => fold_left (fun args fi => upd args (fst fi) (snd fi)) (combine fixed (rev indices)) (repeat 2%nat src))
                  (prod01 (src - tgt)))
           (combs (seq 0 src) (src - tgt)).

(* the selector lists, in the order the methods produce them (computed from the transcription) *)
(* Surface.edges:   return tuple(self.section( *args) for args in sections(2, 1))      -- umin, umax, vmin, vmax *)
Example surface_edges_order : sections 2 1 = [[0;2]; [1;2]; [2;0]; [2;1]]%nat.
Proof. reflexivity. Qed.
(* Volume.faces:    boundary_faces = [self.section( *args) for args in sections(3, 2)]  -- umin, umax, vmin, vmax, wmin, wmax *)
Example volume_faces_order : sections 3 2 = [[0;2;2]; [1;2;2]; [2;0;2]; [2;1;2]; [2;2;0]; [2;2;1]]%nat.
Proof. reflexivity. Qed.
(* Volume.edges:    return tuple(self.section( *args) for args in sections(3, 1))
   -- (umin,vmin) (umax,vmin) (umin,vmax) (umax,vmax) (umin,wmin) (umax,wmin) (umin,wmax) (umax,wmax)
      (vmin,wmin) (vmax,wmin) (vmin,wmax) (vmax,wmax) *)
Example volume_edges_order : sections 3 1 =
  [[0;0;2]; [1;0;2]; [0;1;2]; [1;1;2];  [0;2;0]; [1;2;0]; [0;2;1]; [1;2;1];  [2;0;0]; [2;1;0]; [2;0;1]; [2;1;1]]%nat.
Proof. reflexivity. Qed.
(* SplineObject.corners(order='C'): for i, args in enumerate(sections(self.pardim, 0)): result[i,:] = self.section( *args)
   -- the FIRST direction runs fastest: (0,0,0), (1,0,0), (0,1,0), (1,1,0), (0,0,1), ... as documented *)
Example curve_corners_order : sections 1 0 = [[0]; [1]]%nat.
Proof. reflexivity. Qed.
Example surface_corners_order : sections 2 0 = [[0;0]; [1;0]; [0;1]; [1;1]]%nat.
Proof. reflexivity. Qed.
Example volume_corners_order : sections 3 0 = [[0;0;0]; [1;0;0]; [0;1;0]; [1;1;0]; [0;0;1]; [1;0;1]; [0;1;1]; [1;1;1]]%nat.
Proof. reflexivity. Qed.

(* TRANSCRIPTIONS of the methods themselves *)
(* surface.py:  def edges(self): return tuple(self.section( *args) for args in sections(2, 1)) *)
Definition surface_edges (o : obj R) : list (obj R) := map (@obj_section R NumR o) (sections 2 1).
(* volume.py:   def edges(self): return tuple(self.section( *args) for args in sections(3, 1)) *)
Definition volume_edges (o : obj R) : list (obj R) := map (@obj_section R NumR o) (sections 3 1).
(* volume.py:   def faces(self):
                    boundary_faces = [self.section( *args) for args in sections(3, 2)]
                    for i,b in enumerate(self.bases):
                        if b.periodic > -1: boundary_faces[2*i] = None; boundary_faces[2*i+1] = None
                    return tuple(boundary_faces) *)
Definition volume_faces (o : obj R) : list (option (obj R)) :=
  map (fun js : nat * list nat =>
         if (b_per1 (nth (fst js / 2) (o_bases o) dflt_basis) =? 0)%nat then Some (@obj_section R NumR o (snd js)) else None)
      (combine (seq 0 6) (sections 3 2)).
(* splineobject.py: def corners(self, order='C'):
                        for i, args in enumerate(sections(self.pardim, 0)): result[i,:] = self.section( *args)
   (the section with every direction pinned is the bare control point, weight included) *)
Definition obj_corners (o : obj R) : list (list R) :=
  map (fun s => hd [] (o_cps (@obj_section R NumR o s))) (sections (@o_pardim R o) 0).

Definition dflt_obj : obj R := mkObj [] [] 0 false.

(* every entry of a list of sections evaluates to the restriction given by its selector *)
Theorem sections_eval tol (o : obj R) (secs : list (list nat)) i ts :
  0 < tol -> wf_obj_R tol o -> (i < length secs)%nat -> Forall2 sec_ok (nth i secs []) (o_bases o) ->
  @obj_eval R NumR tol (nth i (map (@obj_section R NumR o) secs) dflt_obj) ts
  = @obj_eval R NumR tol o (sec_fill (nth i secs []) (o_bases o) ts).
Proof.
  intros Htol Hwf Hi Hs. rewrite (nth_indep _ dflt_obj (@obj_section R NumR o [])) by (rewrite map_length; exact Hi).
  rewrite (map_nth (@obj_section R NumR o)). apply section_eval; assumption.
Qed.

(* Surface.edges(), entry by entry.  "open" direction = non-periodic and clamped at both ends *)
Definition open_dir (b : basis R) : Prop := b_per1 b = 0%nat /\ clamped_start b /\ clamped_end b.

Theorem surface_edges_eval tol (o : obj R) bu bv :
  0 < tol -> wf_obj_R tol o -> o_bases o = [bu; bv] ->
  let E := surface_edges o in
  (b_per1 bu = 0%nat -> clamped_start bu -> forall v, @obj_eval R NumR tol (nth 0 E dflt_obj) [v] = @obj_eval R NumR tol o [@b_start R NumR bu; v]) /\
  (b_per1 bu = 0%nat -> clamped_end bu   -> forall v, @obj_eval R NumR tol (nth 1 E dflt_obj) [v] = @obj_eval R NumR tol o [@b_end R NumR bu; v]) /\
  (b_per1 bv = 0%nat -> clamped_start bv -> forall u, @obj_eval R NumR tol (nth 2 E dflt_obj) [u] = @obj_eval R NumR tol o [u; @b_start R NumR bv]) /\
  (b_per1 bv = 0%nat -> clamped_end bv   -> forall u, @obj_eval R NumR tol (nth 3 E dflt_obj) [u] = @obj_eval R NumR tol o [u; @b_end R NumR bv]).
Proof.
  intros Htol Hwf Hb E. unfold E, surface_edges.
  repeat split; intros Hp Hc t.
  - rewrite (sections_eval tol o (sections 2 1) 0 [t] Htol Hwf ltac:(cbn; lia)); rewrite Hb; [reflexivity|].
    change (Forall2 sec_ok [0; 2]%nat [bu; bv]). constructor; [split; assumption|constructor; [exact I|constructor]].
  - rewrite (sections_eval tol o (sections 2 1) 1 [t] Htol Hwf ltac:(cbn; lia)); rewrite Hb; [reflexivity|].
    change (Forall2 sec_ok [1; 2]%nat [bu; bv]). constructor; [split; assumption|constructor; [exact I|constructor]].
  - rewrite (sections_eval tol o (sections 2 1) 2 [t] Htol Hwf ltac:(cbn; lia)); rewrite Hb; [reflexivity|].
    change (Forall2 sec_ok [2; 0]%nat [bu; bv]). constructor; [exact I|constructor; [split; assumption|constructor]].
  - rewrite (sections_eval tol o (sections 2 1) 3 [t] Htol Hwf ltac:(cbn; lia)); rewrite Hb; [reflexivity|].
    change (Forall2 sec_ok [2; 1]%nat [bu; bv]). constructor; [exact I|constructor; [split; assumption|constructor]].
Qed.

(* Volume.faces(), entry by entry; the two faces of a periodic direction are None *)
Theorem volume_faces_eval tol (o : obj R) bu bv bw :
  0 < tol -> wf_obj_R tol o -> o_bases o = [bu; bv; bw] ->
  let F := volume_faces o in
  (b_per1 bu = 0%nat -> clamped_start bu -> exists f, nth 0 F None = Some f /\
     forall v w, @obj_eval R NumR tol f [v; w] = @obj_eval R NumR tol o [@b_start R NumR bu; v; w]) /\
  (b_per1 bu = 0%nat -> clamped_end bu -> exists f, nth 1 F None = Some f /\
     forall v w, @obj_eval R NumR tol f [v; w] = @obj_eval R NumR tol o [@b_end R NumR bu; v; w]) /\
  (b_per1 bv = 0%nat -> clamped_start bv -> exists f, nth 2 F None = Some f /\
     forall u w, @obj_eval R NumR tol f [u; w] = @obj_eval R NumR tol o [u; @b_start R NumR bv; w]) /\
  (b_per1 bv = 0%nat -> clamped_end bv -> exists f, nth 3 F None = Some f /\
     forall u w, @obj_eval R NumR tol f [u; w] = @obj_eval R NumR tol o [u; @b_end R NumR bv; w]) /\
  (b_per1 bw = 0%nat -> clamped_start bw -> exists f, nth 4 F None = Some f /\
     forall u v, @obj_eval R NumR tol f [u; v] = @obj_eval R NumR tol o [u; v; @b_start R NumR bw]) /\
  (b_per1 bw = 0%nat -> clamped_end bw -> exists f, nth 5 F None = Some f /\
     forall u v, @obj_eval R NumR tol f [u; v] = @obj_eval R NumR tol o [u; v; @b_end R NumR bw]) /\
  (b_per1 bu <> 0%nat -> nth 0 F None = None /\ nth 1 F None = None) /\
  (b_per1 bv <> 0%nat -> nth 2 F None = None /\ nth 3 F None = None) /\
  (b_per1 bw <> 0%nat -> nth 4 F None = None /\ nth 5 F None = None) /\
  length F = 6%nat.
Proof.
  intros Htol Hwf Hb F.
  assert (E : F = [ (if (b_per1 bu =? 0)%nat then Some (@obj_section R NumR o [0;2;2]%nat) else None);
                    (if (b_per1 bu =? 0)%nat then Some (@obj_section R NumR o [1;2;2]%nat) else None);
                    (if (b_per1 bv =? 0)%nat then Some (@obj_section R NumR o [2;0;2]%nat) else None);
                    (if (b_per1 bv =? 0)%nat then Some (@obj_section R NumR o [2;1;2]%nat) else None);
                    (if (b_per1 bw =? 0)%nat then Some (@obj_section R NumR o [2;2;0]%nat) else None);
                    (if (b_per1 bw =? 0)%nat then Some (@obj_section R NumR o [2;2;1]%nat) else None) ]).
  { unfold F, volume_faces. rewrite Hb. reflexivity. }
  rewrite E. cbn [nth length].
  assert (S : forall sel, Forall2 sec_ok sel [bu; bv; bw] -> forall ts,
            @obj_eval R NumR tol (@obj_section R NumR o sel) ts = @obj_eval R NumR tol o (sec_fill sel [bu; bv; bw] ts)).
  { intros sel Hs ts. rewrite <- Hb. apply section_eval; [exact Htol|exact Hwf|rewrite Hb; exact Hs]. }
  assert (T : forall (b : basis R) sel full, b_per1 b = 0%nat -> Forall2 sec_ok sel [bu; bv; bw] ->
            (forall a c, sec_fill sel [bu; bv; bw] [a; c] = full a c) ->
            exists f, (if (b_per1 b =? 0)%nat then Some (@obj_section R NumR o sel) else None) = Some f /\
              forall a c, @obj_eval R NumR tol f [a; c] = @obj_eval R NumR tol o (full a c)).
  { intros b sel full Hp Hs Hf. rewrite Hp. cbn [Nat.eqb]. eexists. split; [reflexivity|]. intros a c. rewrite S by exact Hs. rewrite Hf. reflexivity. }
  assert (Nn : forall (b : basis R) (x : option (obj R)), b_per1 b <> 0%nat -> (if (b_per1 b =? 0)%nat then x else None) = None).
  { intros b x Hne. destruct (Nat.eqb_spec (b_per1 b) 0); [contradiction|reflexivity]. }
  split; [intros Hp Hc; apply (T bu [0;2;2]%nat (fun v w => [@b_start R NumR bu; v; w]) Hp); [|intros; reflexivity];
          constructor; [split; assumption|]; constructor; [exact I|]; constructor; [exact I|constructor]|].
  split; [intros Hp Hc; apply (T bu [1;2;2]%nat (fun v w => [@b_end R NumR bu; v; w]) Hp); [|intros; reflexivity];
          constructor; [split; assumption|]; constructor; [exact I|]; constructor; [exact I|constructor]|].
  split; [intros Hp Hc; apply (T bv [2;0;2]%nat (fun u w => [u; @b_start R NumR bv; w]) Hp); [|intros; reflexivity];
          constructor; [exact I|]; constructor; [split; assumption|]; constructor; [exact I|constructor]|].
  split; [intros Hp Hc; apply (T bv [2;1;2]%nat (fun u w => [u; @b_end R NumR bv; w]) Hp); [|intros; reflexivity];
          constructor; [exact I|]; constructor; [split; assumption|]; constructor; [exact I|constructor]|].
  split; [intros Hp Hc; apply (T bw [2;2;0]%nat (fun u v => [u; v; @b_start R NumR bw]) Hp); [|intros; reflexivity];
          constructor; [exact I|]; constructor; [exact I|]; constructor; [split; assumption|constructor]|].
  split; [intros Hp Hc; apply (T bw [2;2;1]%nat (fun u v => [u; v; @b_end R NumR bw]) Hp); [|intros; reflexivity];
          constructor; [exact I|]; constructor; [exact I|]; constructor; [split; assumption|constructor]|].
  split; [intros Hne; split; apply Nn; exact Hne|].
  split; [intros Hne; split; apply Nn; exact Hne|].
  split; [intros Hne; split; apply Nn; exact Hne|reflexivity].
Qed.

(* Volume.edges(): entry i is the restriction to the two pinned ends listed in volume_edges_order *)
Theorem volume_edges_eval tol (o : obj R) i ts :
  0 < tol -> wf_obj_R tol o -> (i < 12)%nat -> Forall2 sec_ok (nth i (sections 3 1) []) (o_bases o) ->
  @obj_eval R NumR tol (nth i (volume_edges o) dflt_obj) ts
  = @obj_eval R NumR tol o (sec_fill (nth i (sections 3 1) []) (o_bases o) ts).
Proof. intros Htol Hwf Hi Hs. apply sections_eval; [exact Htol|exact Hwf|exact Hi|exact Hs]. Qed.

(* e.g. entry 1 = (umax, vmin), entry 10 = (vmin, wmax) *)
Corollary volume_edges_eval_1_10 tol (o : obj R) bu bv bw :
  0 < tol -> wf_obj_R tol o -> o_bases o = [bu; bv; bw] -> open_dir bu -> open_dir bv -> open_dir bw ->
  (forall w, @obj_eval R NumR tol (nth 1 (volume_edges o) dflt_obj) [w] = @obj_eval R NumR tol o [@b_end R NumR bu; @b_start R NumR bv; w]) /\
  (forall u, @obj_eval R NumR tol (nth 10 (volume_edges o) dflt_obj) [u] = @obj_eval R NumR tol o [u; @b_start R NumR bv; @b_end R NumR bw]).
Proof.
  intros Htol Hwf Hb (Pu & Su & Eu) (Pv & Sv & Ev) (Pw & Sw & Ew). split; intros t.
  - rewrite (volume_edges_eval tol o 1 [t] Htol Hwf ltac:(lia)); rewrite Hb; [reflexivity|].
    change (Forall2 sec_ok [1; 0; 2]%nat [bu; bv; bw]).
    constructor; [split; assumption|]. constructor; [split; assumption|]. constructor; [exact I|constructor].
  - rewrite (volume_edges_eval tol o 10 [t] Htol Hwf ltac:(lia)); rewrite Hb; [reflexivity|].
    change (Forall2 sec_ok [2; 0; 1]%nat [bu; bv; bw]).
    constructor; [exact I|]. constructor; [split; assumption|]. constructor; [split; assumption|constructor].
Qed.

(* corners(): entry i is the control point at the i-th corner (first direction fastest), and the object evaluates to
   it (divided by the weight when rational) at the corresponding corner of the parameter domain *)
Lemma sections_corners_ok n : (n <= 3)%nat -> Forall (fun sel => length sel = n /\ all_pinned sel) (sections n 0).
Proof.
  intros Hn. destruct n as [|[|[|[|n]]]]; try lia; unfold all_pinned;
    repeat (constructor; [split; [reflexivity|repeat (constructor; [(left; reflexivity) || (right; reflexivity)|])]; constructor|]); constructor.
Qed.

Lemma open_sec_ok : forall sel (bs : list (basis R)), length sel = length bs -> all_pinned sel -> Forall open_dir bs -> Forall2 sec_ok sel bs.
Proof.
  induction sel as [|s sel IH]; intros bs Hl Hp Ho; destruct bs as [|b bs]; try (cbn in Hl; lia); [constructor|].
  inversion Hp as [|? ? Hs Hp']; subst. inversion Ho as [|? ? (P & S & E) Ho']; subst.
  constructor; [|apply IH; [cbn in Hl; lia|exact Hp'|exact Ho']].
  destruct Hs as [-> | ->]; unfold sec_ok; cbn [Nat.eqb]; split; assumption.
Qed.

Theorem corners_eval tol (o : obj R) i :
  0 < tol -> wf_obj_R tol o -> (@o_pardim R o <= 3)%nat -> (i < length (sections (@o_pardim R o) 0))%nat ->
  let sel := nth i (sections (@o_pardim R o) 0) [] in
  let P := nth i (obj_corners o) [] in
  P = nth (corner_flat sel (@o_shape R o)) (o_cps o) [] /\
  (Forall open_dir (o_bases o) ->
   @obj_eval R NumR tol o (sec_fill sel (o_bases o) []) = Ok (if o_rat o then @project_rat R NumR (o_dim o) P else P)).
Proof.
  intros Htol Hwf Hn Hi sel P.
  pose proof (sections_corners_ok (@o_pardim R o) Hn) as Hall. rewrite Forall_forall in Hall.
  destruct (Hall sel (nth_In _ _ Hi)) as [Hl Hp]. unfold o_pardim in Hl.
  destruct (section_corner_cps tol o sel Hwf Hl Hp) as (_ & Hc & _).
  assert (EP : P = nth (corner_flat sel (@o_shape R o)) (o_cps o) []).
  { unfold P, obj_corners. rewrite (nth_indep _ [] (hd [] (o_cps (@obj_section R NumR o [])))) by (rewrite map_length; exact Hi).
    rewrite (map_nth (fun s => hd [] (o_cps (@obj_section R NumR o s)))). fold sel. rewrite Hc. reflexivity. }
  split; [exact EP|]. intros Ho. rewrite EP.
  apply (section_corner tol o sel Htol Hwf (open_sec_ok sel (o_bases o) Hl Hp Ho) Hp).
Qed.

(* ====================================================================================================== *)
(* 5. extrude: the bottom of the extruded net is the profile                                             *)
(* ====================================================================================================== *)
(* surface_factory.extrude:  cp[:n, :] = curve.controlpoints (bottom); curve += amount; cp[n:, :] = curve.controlpoints (top);
   return Surface(curve.bases[0], BSplineBasis(2), cp, curve.rational).
   The model has the net only (Model/Factory.v extrude_cps, in the order of the cp array above: extrusion index slow,
   profile index fast); there is no object-level extrude in the model, so the statement is at net level. *)
Theorem extrude_bottom_is_profile dim rat (amount : list R) (prof : list (list R)) :
  firstn (length prof) (@extrude_cps R NumR dim rat amount prof) = prof /\
  length (@extrude_cps R NumR dim rat amount prof) = (2 * length prof)%nat /\
  forall j, (j < length prof)%nat -> nth j (@extrude_cps R NumR dim rat amount prof) [] = nth j prof [].
Proof.
  unfold extrude_cps. split; [|split].
  - rewrite firstn_app, Nat.sub_diag, firstn_all. cbn [firstn]. apply app_nil_r.
  - rewrite app_length, map_length. lia.
  - intros j Hj. apply app_nth1. exact Hj.
Qed.

(* ====================================================================================================== *)
(* 6. Surface.const_par_curve (Model/ConstPar.v), non-periodic direction                                  *)
(* ====================================================================================================== *)
(* ---------- row relations compose under the model's matmul; the identity ---------- *)
Lemma row_rel_mat N N' C : row_rel N N' C -> mat (length N') (length N) C.
Proof. intros (A & B & _). split; assumption. Qed.

Lemma row_rel_matmul N N1 N2 C1 C2 : (0 < length N1)%nat -> row_rel N N1 C1 -> row_rel N1 N2 C2 ->
  row_rel N N2 (@matmul R NumR C2 C1).
Proof.
  intros Hpos R1 R2. pose proof (row_rel_mat _ _ _ R1) as M1. pose proof (row_rel_mat _ _ _ R2) as M2.
  pose proof (matmul_mat _ _ _ C2 C1 M2 M1 Hpos) as [ML MF].
  destruct R1 as (_ & _ & E1). destruct R2 as (_ & _ & E2).
  split; [exact ML|]. split; [exact MF|].
  intros j Hj. rewrite (E1 j Hj).
  rewrite (sumf_ext _ (fun l => sumf (fun r => nth r N2 0 * (ment C2 r l * ment C1 l j)) 0 (length N2))).
  2:{ intros l Hl. rewrite (E2 l ltac:(lia)). rewrite Rmult_comm, <- sumf_scal. apply sumf_ext. intros r _. unfold ment. ring. }
  rewrite sumf_exchange. apply sumf_ext. intros r Hr.
  change (nth j (nth r (@matmul R NumR C2 C1) []) 0) with (ment (@matmul R NumR C2 C1) r j).
  rewrite (matmul_ent _ _ _ C2 C1 r j M2 M1 Hpos ltac:(lia) Hj).
  rewrite <- sumf_scal. reflexivity.
Qed.

Lemma row_rel_ident N : row_rel N N (@ident R NumR (length N)).
Proof.
  destruct (ident_mat (length N)) as [IL IF]. split; [exact IL|]. split; [exact IF|].
  intros j Hj. rewrite (sumf_ext _ (fun r => if (r =? j)%nat then nth r N 0 else 0)).
  - symmetry. apply (sumf_pick (fun r => nth r N 0)). lia.
  - intros r Hr. change (nth j (nth r (@ident R NumR (length N)) []) 0) with (ment (@ident R NumR (length N)) r j).
    rewrite ident_ent by lia. destruct (r =? j)%nat; ring.
Qed.

Lemma ident_row n i : (i < n)%nat -> nth i (@ident R NumR n) [] = unit_row n i.
Proof.
  intros Hi. unfold ident. rewrite (nth_map_gen _ _ i [] 0%nat) by (rewrite seq_length; exact Hi). rewrite seq_nth by exact Hi.
  unfold unit_row. apply map_ext. intros j. cbn [Nat.add n0 n1 NumR]. rewrite Nat.eqb_sym. reflexivity.
Qed.

(* if the new row is the unit row e_i, the old row is row i of the matrix *)
Lemma row_rel_unit N n i C : row_rel N (unit_row n i) C -> (i < n)%nat -> N = nth i C [].
Proof.
  intros (HL & HF & HE) Hi. rewrite unit_row_length in HL, HE.
  assert (Hrow : length (nth i C []) = length N) by (rewrite Forall_forall in HF; apply HF, nth_In; lia).
  apply (nth_ext _ _ 0 0); [symmetry; exact Hrow|].
  intros j Hj. rewrite (HE j Hj).
  rewrite (sumf_ext _ (fun r => if (r =? i)%nat then nth j (nth r C []) 0 else 0)).
  - apply (sumf_pick (fun r => nth j (nth r C []) 0)). lia.
  - intros r Hr. rewrite unit_row_nth by lia. destruct (r =? i)%nat; ring.
Qed.

(* ---------- the insertion loop ---------- *)
Lemma insert_start (k : list R) p x : sorted (@kn R NumR k) -> (1 <= p)%nat -> (2 * p <= length k)%nat ->
  @kn R NumR k (p - 1) <= x < @kn R NumR k (length k - p) ->
  let k1 := insert_at k (@py_bisect_right R NumR k x) x in
  @kn R NumR k1 (p - 1) = @kn R NumR k (p - 1) /\ @kn R NumR k1 (length k1 - p) = @kn R NumR k (length k - p).
Proof.
  intros HK Hp Hlen Hx k1. destruct (mu_bracket k p x HK Hp Hlen Hx) as [Hmu Hbr]. unfold k1. split.
  - rewrite (kn_insert_at k p _ x Hp Hmu (p - 1)%nat ltac:(lia) ltac:(lia)). apply k'_lt; lia.
  - rewrite insert_at_length.
    rewrite (kn_insert_at k p _ x Hp Hmu (S (length k) - p)%nat ltac:(lia) ltac:(lia)).
    rewrite k'_gt by lia. f_equal. lia.
Qed.

Lemma cpc_insert_spec p (k0 : list R) x : forall m (k : list R) C,
  sorted (@kn R NumR k) -> (1 <= p)%nat -> (2 * p <= length k)%nat ->
  @kn R NumR k (p - 1) <= x < @kn R NumR k (length k - p) ->
  (forall side t, row_rel (Brow side k0 p t) (Brow side k p t) C) ->
  exists kf Cf, @cpc_insert R NumR m (mkBasis p k 0) x C = Ok (mkBasis p kf 0, Cf) /\
    sorted (@kn R NumR kf) /\ length kf = (length k + m)%nat /\ Permutation kf (repeat x m ++ k) /\
    @kn R NumR kf (p - 1) = @kn R NumR k (p - 1) /\ @kn R NumR kf (length kf - p) = @kn R NumR k (length k - p) /\
    (forall side t, row_rel (Brow side k0 p t) (Brow side kf p t) Cf).
Proof.
  induction m as [|m IH]; intros k C HK Hp Hlen Hx HR.
  - exists k, C. cbn [cpc_insert repeat app]. split; [reflexivity|]. split; [exact HK|]. split; [lia|].
    split; [apply Permutation_refl|]. split; [reflexivity|]. split; [reflexivity|exact HR].
  - cbn [cpc_insert]. rewrite (basis_insert_knot_nonperiodic k p x HK Hp Hlen Hx).
    set (k1 := insert_at k (@py_bisect_right R NumR k x) x).
    set (Ci := @mat_of_writes R NumR (length k - p + 1) (length k - p) (@insert_writes R NumR k p (length k - p) (@py_bisect_right R NumR k x) x)).
    destruct (insert_start k p x HK Hp Hlen Hx) as [Hs1 He1]. fold k1 in Hs1, He1.
    assert (HK1 : sorted (@kn R NumR k1)) by (apply (insert_knots_sorted k p x HK Hp Hlen Hx)).
    assert (Hl1 : length k1 = S (length k)) by apply insert_at_length.
    assert (HR1 : forall side t, row_rel (Brow side k p t) (Brow side k1 p t) Ci).
    { intros side t. pose proof (row_rel_insert k p x HK Hp Hlen Hx side t) as RR.
      unfold InsertObj.Nold, InsertObj.Nnew in RR. unfold Brow. fold k1 in RR. rewrite Hl1.
      replace (S (length k) - p)%nat with (length k - p + 1)%nat by lia. exact RR. }
    destruct (IH k1 (@matmul R NumR Ci C) HK1 Hp ltac:(lia) ltac:(rewrite Hs1, He1; exact Hx)) as (kf & Cf & E & A1 & A2 & A3 & A4 & A5 & A6).
    { intros side t. apply (row_rel_matmul _ (Brow side k p t)); [unfold Brow; rewrite map_length, seq_length; lia|apply HR|apply HR1]. }
    exists kf, Cf. split; [exact E|]. split; [exact A1|]. split; [lia|]. split.
    + rewrite A3. cbn [repeat app]. transitivity (repeat x m ++ x :: k).
      * apply Permutation_app_head. apply insert_at_perm.
      * apply Permutation_sym. apply Permutation_middle.
    + split; [rewrite A4; exact Hs1|]. split; [rewrite A5; exact He1|exact A6].
Qed.

Lemma mult_perm k1 k2 x : Permutation k1 k2 -> mult k1 x = mult k2 x.
Proof. intros HP. unfold mult. apply Permutation_count_occ. exact HP. Qed.
Lemma mult_repeat_app x c k : mult (repeat x c ++ k) x = (c + mult k x)%nat.
Proof.
  unfold mult. rewrite count_occ_app. f_equal. induction c as [|c IH]; [reflexivity|].
  cbn [repeat]. rewrite count_occ_cons_eq by reflexivity. f_equal. exact IH.
Qed.

(* the number of iterations: order - 1 - multiplicity *)
Lemma cpc_mult_exact p (k : list R) x c : (1 <= p)%nat ->
  Z.to_nat ((match c with None => (Z.of_nat p - 1)%Z | Some z => z end) + 1) = (p - mult k x)%nat ->
  @cpc_mult R (mkBasis p k 0) c = (p - 1 - mult k x)%nat.
Proof. intros Hp Hn. unfold cpc_mult. cbn [b_order]. destruct c as [z|]; lia. Qed.

(* the row of the refined basis at the knot x of multiplicity p-1: the unit row at bisect_left - 1 *)
Lemma Brow_at_C0_knot (kf : list R) p x : sorted (@kn R NumR kf) -> (1 <= p)%nat -> (2 * p <= length kf)%nat ->
  @kn R NumR kf (p - 1) <= x < @kn R NumR kf (length kf - p) -> mult kf x = (p - 1)%nat ->
  let i := (@py_bisect_left R NumR kf x - 1)%nat in
  (i < length kf - p)%nat /\ Brow true kf p x = unit_row (length kf - p) i.
Proof.
  intros HK Hp Hlen Hx Hm i.
  pose proof (count_bisect kf x HK) as Hc. rewrite Hm in Hc.
  pose proof (bisect_lr_le kf x HK) as Hle.
  pose proof (fun j Hj => bisect_window kf x j HK Hj) as W.
  unfold py_bisect_left, py_bisect_right in *.
  destruct (bisect_right_spec (@kn R NumR kf) HK x (length kf)) as (B1 & B2 & B3). cbv zeta in *.
  set (bl := @bisect_left R NumR (@kn R NumR kf) x (length kf)) in *.
  set (br := @bisect_right R NumR (@kn R NumR kf) x (length kf)) in *.
  assert (Hbr1 : (p <= br)%nat).
  { destruct (Nat.le_gt_cases p br) as [L|L]; [exact L|]. pose proof (B3 (p - 1)%nat ltac:(lia)). lra. }
  assert (Hbr2 : (br <= length kf - p)%nat).
  { destruct (Nat.le_gt_cases br (length kf - p)) as [L|L]; [exact L|]. pose proof (B2 (length kf - p)%nat L). lra. }
  assert (Ei : i = (br - 1 - (p - 1))%nat) by (unfold i; lia).
  split; [lia|]. rewrite Ei.
  apply (Brow_full_mult_right kf p (br - 1) x HK Hp).
  - split; [apply B2; lia|]. replace (S (br - 1)) with br by lia. apply B3. lia.
  - lia.
  - intros j Hj. apply (W j ltac:(lia)). lia.
Qed.

Lemma knot_sep_snap (k : list R) tol x : sorted (@kn R NumR k) -> 0 < tol -> knot_sep tol k x -> @snap1 R NumR k tol x = x.
Proof.
  intros HK Htol Hsep. destruct (In_dec Req_EM_T x k) as [Hin|Hnin]; [apply snap1_member; assumption|].
  apply snap1_far_all; [exact HK|exact Htol|]. intros v Hv.
  destruct (Hsep v Hv) as [E|[L|L]]; [subst v; contradiction| |]; unfold Rabs; destruct (Rcase_abs (v - x)); lra.
Qed.

(* the parameter tuple of the surface on the line "direction d = x": (x, s) resp. (s, x) *)
Definition cpc_params (d : nat) (x s : R) : list R := if (d =? 0)%nat then [x; s] else [s; x].
Definition cpc_pins (d : nat) (x : R) (row : list R) : list pin :=
  if (d =? 0)%nat then [Some (x, row); None] else [None; Some (x, row)].

Section ConstPar.
Variable tol : R.
Hypothesis Htol : 0 < tol.
Variable o : obj R.
Hypothesis Hwf : wf_obj_R tol o.
Variables bu bv : basis R.
Hypothesis Hb : o_bases o = [bu; bv].
Variable d : nat.
Hypothesis Hd : (d < 2)%nat.
Variable p : nat.
Variable k : list R.
Hypothesis Hbd : nth d [bu; bv] dflt_basis = mkBasis p k 0.
Variable x : R.
Local Notation bd := (@mkBasis R p k 0).
Local Notation n := (length k - p)%nat.

Lemma cpc_bd_wf : wf_basis_R tol bd.
Proof.
  destruct Hwf as (HB & _). rewrite Hb in HB. rewrite Forall_forall in HB. rewrite <- Hbd. apply HB.
  apply nth_In. cbn [length]. exact Hd.
Qed.

Lemma cpc_shape_d : nth d (@o_shape R o) 0%nat = n.
Proof.
  unfold o_shape. rewrite Hb. rewrite (nth_map_gen _ _ d 0%nat dflt_basis) by (cbn [length]; exact Hd).
  rewrite Hbd. unfold b_nfun. cbn [b_knots b_order b_per1]. lia.
Qed.

(* assembling: whatever the loop returned, if the selected row is the row of basis values at x *)
Lemma cpc_assemble c (b' : basis R) (C : list (list R)) :
  @basis_continuity R NumR tol bd x = Ok c ->
  @cpc_insert R NumR (@cpc_mult R bd c) bd x (@ident R NumR n) = Ok (b', C) ->
  b_per1 b' = 0%nat ->
  (@py_bisect_left R NumR (b_knots b') x - 1 < length C)%nat ->
  pin_ok tol (Some (x, nth (@py_bisect_left R NumR (b_knots b') x - 1) C [])) bd ->
  exists cv, @const_par_curve R NumR tol o x d = Ok cv /\ wf_obj_R tol cv /\
    o_bases cv = [nth (1 - d) [bu; bv] dflt_basis] /\
    forall s, @obj_eval R NumR tol cv [s] = @obj_eval R NumR tol o (cpc_params d x s).
Proof.
  intros Hc Hins Hp' Hi Hpin.
  set (i := (@py_bisect_left R NumR (b_knots b') x - 1)%nat) in *.
  set (row := nth i C []) in *.
  assert (Hpins : Forall2 (pin_ok tol) (cpc_pins d x row) (o_bases o)).
  { rewrite Hb. unfold cpc_pins. destruct d as [|[|dd]]; [| |lia]; cbn [Nat.eqb nth] in *; rewrite <- Hbd in Hpin.
    - constructor; [exact Hpin|]. constructor; [exact I|constructor].
    - constructor; [exact I|]. constructor; [exact Hpin|constructor]. }
  exists (pinned_obj o (cpc_pins d x row)). split; [|split; [|split]].
  - unfold const_par_curve. cbv zeta.
    replace (2 <=? d)%nat with false by (symmetry; apply Nat.leb_gt; exact Hd).
    change (@mkBasis R 0 [] 0) with dflt_basis. rewrite cpc_shape_d. rewrite Hb, Hbd, Hc, Hins, Hp'. cbn [Nat.eqb].
    fold i. replace (length C <=? i)%nat with false by (symmetry; apply Nat.leb_gt; exact Hi). fold row.
    f_equal. unfold pinned_obj, cpc_pins. rewrite Hb.
    destruct d as [|[|dd]]; [| |lia]; reflexivity.
  - apply pinned_wf; assumption.
  - unfold pinned_obj, cpc_pins. cbn [o_bases]. rewrite Hb. destruct d as [|[|dd]]; [| |lia]; reflexivity.
  - intros s. rewrite (pinned_eval tol o Hwf _ Hpins). f_equal.
    unfold cpc_pins, cpc_params. destruct d as [|[|dd]]; [| |lia]; reflexivity.
Qed.

Hypothesis Hsep : knot_sep tol k x.

(* (a) x in [start, end) with multiplicity at most order - 1 (any interior value; also an unclamped start) *)
Theorem cpc_interior :
  @kn R NumR k (p - 1) <= x < @kn R NumR k (length k - p) -> (mult k x <= p - 1)%nat ->
  exists cv, @const_par_curve R NumR tol o x d = Ok cv /\ wf_obj_R tol cv /\
    o_bases cv = [nth (1 - d) [bu; bv] dflt_basis] /\
    forall s, @obj_eval R NumR tol cv [s] = @obj_eval R NumR tol o (cpc_params d x s).
Proof.
  intros Hx Hm. pose proof cpc_bd_wf as Hbw. pose proof Hbw as (HK & Hp & Hlen & Hn & Hw).
  cbn [b_knots b_order] in HK, Hp, Hlen. unfold b_start, b_end in Hw. cbn [b_knots b_order] in Hw.
  destruct (continuity_exact tol k p x HK Htol Hsep ltac:(lra)) as (c & Hc & Hcn).
  pose proof (cpc_mult_exact p k x c Hp Hcn) as Hmult.
  destruct (cpc_insert_spec p k x (p - 1 - mult k x) k (@ident R NumR n) HK Hp Hlen Hx) as (kf & Cf & E & A1 & A2 & A3 & A4 & A5 & A6).
  { intros side t. pose proof (row_rel_ident (Brow side k p t)) as RI.
    unfold Brow in RI at 3. rewrite map_length, seq_length in RI. exact RI. }
  assert (Hmf : mult kf x = (p - 1)%nat).
  { rewrite (mult_perm _ _ x A3), mult_repeat_app. lia. }
  destruct (Brow_at_C0_knot kf p x A1 Hp ltac:(lia) ltac:(rewrite A4, A5; exact Hx) Hmf) as (Hi & Hrow).
  set (i := (@py_bisect_left R NumR kf x - 1)%nat) in *.
  pose proof (A6 true x) as RR. rewrite Hrow in RR.
  pose proof (row_rel_unit _ _ _ _ RR Hi) as Erow.
  assert (HlC : length Cf = (length kf - p)%nat).
  { destruct RR as (HL & _). rewrite HL, unit_row_length. reflexivity. }
  apply (cpc_assemble c (mkBasis p kf 0) Cf Hc).
  - rewrite Hmult. exact E.
  - reflexivity.
  - cbn [b_knots]. fold i. rewrite HlC. exact Hi.
  - cbn [b_knots]. fold i. apply pin_ok_intro; [exact Htol|exact Hbw|apply knot_sep_snap; assumption|lra|].
    assert (Hend : In (@kn R NumR k (length k - p)) k) by (apply kn_In'; lia).
    destruct (Rltb_spec (Rabs (x - @kn R NumR k (length k - p))) tol) as [A|A]; [|exact Erow].
    exfalso. destruct (Hsep _ Hend) as [Q|[Q|Q]]; [lra|lra|]. rewrite Rabs_left1 in A by lra. lra.
Qed.

(* (b) x = start of a clamped direction: no insertion, first row of the identity *)
Theorem cpc_start :
  x = @kn R NumR k (p - 1) -> clamped_start bd ->
  exists cv, @const_par_curve R NumR tol o x d = Ok cv /\ wf_obj_R tol cv /\
    o_bases cv = [nth (1 - d) [bu; bv] dflt_basis] /\
    forall s, @obj_eval R NumR tol cv [s] = @obj_eval R NumR tol o (cpc_params d x s).
Proof.
  intros Hx Hcl. pose proof cpc_bd_wf as Hbw. pose proof Hbw as (HK & Hp & Hlen & Hn & Hw).
  cbn [b_knots b_order] in HK, Hp, Hlen. unfold b_start, b_end in Hw. cbn [b_knots b_order] in Hw.
  unfold b_nfun in Hn. cbn [b_knots b_order b_per1] in Hn.
  destruct (continuity_exact tol k p x HK Htol Hsep ltac:(lra)) as (c & Hc & Hcn).
  pose proof (cpc_mult_exact p k x c Hp Hcn) as Hmult.
  pose proof (start_pin_ok tol bd Htol Hbw eq_refl Hcl) as Hpin.
  destruct Hcl as [Hm Hlt]. unfold b_start in Hm, Hlt, Hpin. unfold b_nfun in Hpin. cbn [b_knots b_order b_per1] in Hm, Hlt, Hpin.
  pose proof (fun j Hj => bisect_window k x j HK Hj) as W.
  pose proof (count_bisect k x HK) as Hcb.
  assert (W0 : (@py_bisect_left R NumR k x <= 0 < @py_bisect_right R NumR k x)%nat) by (apply W; [lia|rewrite Hx; apply Hm; lia]).
  assert (W1 : (@py_bisect_left R NumR k x <= p - 1 < @py_bisect_right R NumR k x)%nat) by (apply W; [lia|rewrite Hx; reflexivity]).
  assert (Hm0 : (p - 1 - mult k x = 0)%nat) by lia.
  apply (cpc_assemble c bd (@ident R NumR n) Hc).
  - rewrite Hmult, Hm0. reflexivity.
  - reflexivity.
  - cbn [b_knots]. destruct (ident_mat n) as [IL _]. rewrite IL. lia.
  - cbn [b_knots]. replace (@py_bisect_left R NumR k x - 1)%nat with 0%nat by lia.
    rewrite ident_row by lia. rewrite Hx. replace (length k - p - 0)%nat with n in Hpin by lia. exact Hpin.
Qed.

(* (c) x = end of a clamped direction: no insertion, last row of the identity *)
Theorem cpc_end :
  x = @kn R NumR k (length k - p) -> clamped_end bd ->
  exists cv, @const_par_curve R NumR tol o x d = Ok cv /\ wf_obj_R tol cv /\
    o_bases cv = [nth (1 - d) [bu; bv] dflt_basis] /\
    forall s, @obj_eval R NumR tol cv [s] = @obj_eval R NumR tol o (cpc_params d x s).
Proof.
  intros Hx Hcl. pose proof cpc_bd_wf as Hbw. pose proof Hbw as (HK & Hp & Hlen & Hn & Hw).
  cbn [b_knots b_order] in HK, Hp, Hlen. unfold b_start, b_end in Hw. cbn [b_knots b_order] in Hw.
  unfold b_nfun in Hn. cbn [b_knots b_order b_per1] in Hn.
  destruct (continuity_exact tol k p x HK Htol Hsep ltac:(lra)) as (c & Hc & Hcn).
  pose proof (cpc_mult_exact p k x c Hp Hcn) as Hmult.
  pose proof (end_pin_ok tol bd Htol Hbw eq_refl Hcl) as Hpin.
  destruct Hcl as [Hm Hlt]. unfold b_end in Hm, Hlt, Hpin. unfold b_nfun in Hpin. cbn [b_knots b_order b_per1] in Hm, Hlt, Hpin. cbv zeta in Hm, Hlt.
  pose proof (fun j Hj => bisect_window k x j HK Hj) as W.
  pose proof (count_bisect k x HK) as Hcb.
  assert (W0 : (@py_bisect_left R NumR k x <= n < @py_bisect_right R NumR k x)%nat) by (apply W; [lia|rewrite Hx; reflexivity]).
  assert (W1 : (@py_bisect_left R NumR k x <= n + p - 1 < @py_bisect_right R NumR k x)%nat) by (apply W; [lia|rewrite Hx; apply Hm; lia]).
  assert (W2 : (n <= @py_bisect_left R NumR k x)%nat).
  { destruct (Nat.le_gt_cases n (@py_bisect_left R NumR k x)) as [L|L]; [exact L|].
    assert (Q : @kn R NumR k (n - 1) = x) by (apply (W (n - 1)%nat ltac:(lia)); lia). rewrite Hx in Q. lra. }
  assert (Hm0 : (p - 1 - mult k x = 0)%nat) by lia.
  apply (cpc_assemble c bd (@ident R NumR n) Hc).
  - rewrite Hmult, Hm0. reflexivity.
  - reflexivity.
  - cbn [b_knots]. destruct (ident_mat n) as [IL _]. rewrite IL. lia.
  - cbn [b_knots]. replace (@py_bisect_left R NumR k x - 1)%nat with (n - 1)%nat by lia.
    rewrite ident_row by lia. rewrite Hx. replace (length k - p - 0)%nat with n in Hpin by lia. exact Hpin.
Qed.
End ConstPar.

(* 4. MAIN THEOREM for const_par_curve, non-periodic direction: at every value x of the domain that is an exact knot
   value or at distance >= tol from every knot (knot_sep: within the tolerance, continuity() counts the neighbouring
   knot and evaluate() moves x onto it), of multiplicity <= order-1 inside (a knot of multiplicity = order makes
   the surface discontinuous across that line) or at a clamped end: const_par_curve succeeds, returns a well-formed
   curve on the basis of the other direction, and the curve at s is the surface at (x, s) resp. (s, x) *)
Theorem const_par_curve_eval tol (o : obj R) bu bv d x :
  0 < tol -> wf_obj_R tol o -> o_bases o = [bu; bv] -> (d < 2)%nat ->
  let b := nth d [bu; bv] dflt_basis in
  b_per1 b = 0%nat -> knot_sep tol (b_knots b) x ->
  ((@b_start R NumR b <= x < @b_end R NumR b /\ (mult (b_knots b) x <= b_order b - 1)%nat) \/
   (x = @b_start R NumR b /\ clamped_start b) \/ (x = @b_end R NumR b /\ clamped_end b)) ->
  exists cv, @const_par_curve R NumR tol o x d = Ok cv /\ wf_obj_R tol cv /\
    o_bases cv = [nth (1 - d) [bu; bv] dflt_basis] /\
    forall s, @obj_eval R NumR tol cv [s] = @obj_eval R NumR tol o (cpc_params d x s).
Proof.
  intros Htol Hwf Hb Hd b Hper Hsep Hcase.
  assert (Hbd : nth d [bu; bv] dflt_basis = mkBasis (b_order b) (b_knots b) 0).
  { fold b. destruct b as [pp kk per]. cbn [b_per1 b_order b_knots] in *. rewrite Hper. reflexivity. }
  destruct Hcase as [[Hx Hm]|[[Hx Hc]|[Hx Hc]]].
  - apply (cpc_interior tol Htol o Hwf bu bv Hb d Hd (b_order b) (b_knots b) Hbd x Hsep Hx Hm).
  - apply (cpc_start tol Htol o Hwf bu bv Hb d Hd (b_order b) (b_knots b) Hbd x Hsep Hx). fold b in Hbd. rewrite <- Hbd. exact Hc.
  - apply (cpc_end tol Htol o Hwf bu bv Hb d Hd (b_order b) (b_knots b) Hbd x Hsep Hx). fold b in Hbd. rewrite <- Hbd. exact Hc.
Qed.

(* ====================================================================================================== *)
(* 7. The hypotheses are satisfiable: order 3 x order 2 surface on the open knot vectors                  *)
(*    [0,0,0,1,2,2,2] x [0,0,1,1] (4 x 2 control points), tol = 1/100                                    *)
(* ====================================================================================================== *)
Section Example.
Let ku : list R := [0;0;0;1;2;2;2].
Let kv : list R := [0;0;1;1].
Let bu := @mkBasis R 3 ku 0.
Let bv := @mkBasis R 2 kv 0.
Let o := @mkObj R [bu; bv] [[0;0]; [0;1]; [1;0]; [1;2]; [2;1]; [2;3]; [4;0]; [4;1]] 2 false.
Let tol := 1/100.

Lemma ex_ku_sorted : sorted (@kn R NumR ku).
Proof.
  apply kn_sorted. unfold ku. cbn [sorted_list nleb NumR].
  repeat (match goal with |- context [Rleb ?a ?b] => destruct (Rleb_spec a b); [|lra] end). reflexivity.
Qed.
Lemma ex_kv_sorted : sorted (@kn R NumR kv).
Proof.
  apply kn_sorted. unfold kv. cbn [sorted_list nleb NumR].
  repeat (match goal with |- context [Rleb ?a ?b] => destruct (Rleb_spec a b); [|lra] end). reflexivity.
Qed.

Lemma ex_wf : wf_obj_R tol o.
Proof.
  split; [|split].
  - constructor; [|constructor; [|constructor]].
    + split; [exact ex_ku_sorted|]. unfold bu, ku. cbn [b_order b_knots]. split; [lia|]. split; [cbn; lia|]. split; [cbn; lia|].
      unfold b_start, b_end, tol. cbn. lra.
    + split; [exact ex_kv_sorted|]. unfold bv, kv. cbn [b_order b_knots]. split; [lia|]. split; [cbn; lia|]. split; [cbn; lia|].
      unfold b_start, b_end, tol. cbn. lra.
  - repeat constructor.
  - reflexivity.
Qed.

Lemma ex_open_u : open_dir bu.
Proof.
  unfold open_dir, clamped_start, clamped_end, b_start, b_end, bu, ku. cbn [b_per1 b_order b_knots]. cbv zeta.
  split; [reflexivity|]. split; (split; [intros j Hj; cbn in Hj|cbn; lra]).
  - do 3 (destruct j as [|j]; [reflexivity|]). lia.
  - do 4 (destruct j as [|j]; [lia|]). do 3 (destruct j as [|j]; [reflexivity|]). lia.
Qed.
Lemma ex_open_v : open_dir bv.
Proof.
  unfold open_dir, clamped_start, clamped_end, b_start, b_end, bv, kv. cbn [b_per1 b_order b_knots]. cbv zeta.
  split; [reflexivity|]. split; (split; [intros j Hj; cbn in Hj|cbn; lra]).
  - do 2 (destruct j as [|j]; [reflexivity|]). lia.
  - do 2 (destruct j as [|j]; [lia|]). do 2 (destruct j as [|j]; [reflexivity|]). lia.
Qed.

(* the four edges, in the documented order *)
Theorem example_edges :
  let E := surface_edges o in
  (forall v, @obj_eval R NumR tol (nth 0 E dflt_obj) [v] = @obj_eval R NumR tol o [0; v]) /\
  (forall v, @obj_eval R NumR tol (nth 1 E dflt_obj) [v] = @obj_eval R NumR tol o [2; v]) /\
  (forall u, @obj_eval R NumR tol (nth 2 E dflt_obj) [u] = @obj_eval R NumR tol o [u; 0]) /\
  (forall u, @obj_eval R NumR tol (nth 3 E dflt_obj) [u] = @obj_eval R NumR tol o [u; 1]).
Proof.
  destruct ex_open_u as (Pu & Su & Eu). destruct ex_open_v as (Pv & Sv & Ev).
  destruct (surface_edges_eval tol o bu bv ltac:(unfold tol; lra) ex_wf eq_refl) as (A & B & C & D).
  cbv zeta. split; [exact (A Pu Su)|]. split; [exact (B Pu Eu)|]. split; [exact (C Pv Sv)|exact (D Pv Ev)].
Qed.

(* the corner (umax, vmin) = entry 1 of corners() is the control point with flat index 6 = (3, 0), and the surface
   evaluates to it at (2, 0) *)
Theorem example_corner :
  nth 1 (obj_corners o) [] = [4; 0] /\ @obj_eval R NumR tol o [2; 0] = Ok [4; 0].
Proof.
  destruct (corners_eval tol o 1 ltac:(unfold tol; lra) ex_wf ltac:(cbn; lia) ltac:(cbn; lia)) as [A B].
  split; [rewrite A; reflexivity|].
  specialize (B ltac:(constructor; [exact ex_open_u|constructor; [exact ex_open_v|constructor]])).
  rewrite A in B. exact B.
Qed.

Lemma ex_sep_u x : x = 1 \/ x = 1/2 \/ x = 0 \/ x = 2 -> knot_sep tol ku x.
Proof.
  intros Hx. unfold knot_sep, tol, ku. intros v Hv. cbn [In] in Hv.
  repeat (destruct Hv as [<-|Hv]; [destruct Hx as [-> | [-> | [-> | ->]]]; lra|]). destruct Hv.
Qed.

(* constant-parameter curves: at the simple knot u = 1 (one insertion), at the new value u = 1/2 (two insertions),
   at the two ends u = 0, u = 2 (none), and in the other direction at v = 1/3 (one insertion) *)
Theorem example_const_par :
  (forall x, x = 1 \/ x = 1/2 \/ x = 0 \/ x = 2 ->
     exists cv, @const_par_curve R NumR tol o x 0 = Ok cv /\ wf_obj_R tol cv /\
       forall s, @obj_eval R NumR tol cv [s] = @obj_eval R NumR tol o [x; s]) /\
  (exists cv, @const_par_curve R NumR tol o (1/3) 1 = Ok cv /\ wf_obj_R tol cv /\
       forall s, @obj_eval R NumR tol cv [s] = @obj_eval R NumR tol o [s; 1/3]).
Proof.
  assert (Htol : 0 < tol) by (unfold tol; lra).
  split.
  - intros x Hx.
    destruct (const_par_curve_eval tol o bu bv 0 x Htol ex_wf eq_refl ltac:(lia) eq_refl (ex_sep_u x Hx)) as (cv & A & B & _ & C).
    + cbn [nth]. destruct ex_open_u as (_ & Su & Eu).
      destruct Hx as [-> | [-> | [-> | ->]]].
      * left. split; [unfold b_start, b_end; cbn; lra|]. unfold mult, bu, ku. cbn [b_knots b_order count_occ].
        repeat (match goal with |- context [Req_EM_T ?a ?b] => destruct (Req_EM_T a b); [try lra|try lra] end); lia.
      * left. split; [unfold b_start, b_end; cbn; lra|]. unfold mult, bu, ku. cbn [b_knots b_order count_occ].
        repeat (match goal with |- context [Req_EM_T ?a ?b] => destruct (Req_EM_T a b); [try lra|try lra] end); lia.
      * right. left. split; [reflexivity|exact Su].
      * right. right. split; [reflexivity|exact Eu].
    + exists cv. split; [exact A|]. split; [exact B|exact C].
  - destruct (const_par_curve_eval tol o bu bv 1 (1/3) Htol ex_wf eq_refl ltac:(lia) eq_refl) as (cv & A & B & _ & C).
    + cbn [nth]. unfold knot_sep, tol, bv, kv. cbn [b_knots]. intros v Hv. cbn [In] in Hv.
      repeat (destruct Hv as [<-|Hv]; [lra|]). destruct Hv.
    + cbn [nth]. left. split; [unfold b_start, b_end; cbn; lra|]. unfold mult, bv, kv. cbn [b_knots b_order count_occ].
      repeat (match goal with |- context [Req_EM_T ?a ?b] => destruct (Req_EM_T a b); [try lra|try lra] end); lia.
    + exists cv. split; [exact A|]. split; [exact B|exact C].
Qed.
End Example.

(* the same surface on Q, executed: const_par_curve at u = 1/2 and at v = 1/3, against obj_eval of the surface *)
Example const_par_curve_exec :
  let bu := q_mkBasis 3 [0; 0; 0; 1; 2; 2; 2]%Q 0 in
  let bv := q_mkBasis 2 [0; 0; 1; 1]%Q 0 in
  let o := q_mkObj [bu; bv] [[0;0]; [0;1]; [1;0]; [1;2]; [2;1]; [2;3]; [4;0]; [4;1]]%Q 2 false in
  let tol := (1 # 1000000)%Q in
  (exists c, @const_par_curve Q NumQ tol o (1 # 2)%Q 0 = Ok c /\ o_bases c = [bv] /\
     o_cps c = [[7 # 8; 1 # 8]; [7 # 8; 15 # 8]]%Q /\ q_obj_eval tol c [1 # 3]%Q = q_obj_eval tol o [1 # 2; 1 # 3]%Q) /\
  (exists c, @const_par_curve Q NumQ tol o (1 # 3)%Q 1 = Ok c /\ o_bases c = [bu] /\
     o_cps c = [[0; 1 # 3]; [1; 2 # 3]; [2; 5 # 3]; [4; 1 # 3]]%Q /\ q_obj_eval tol c [3 # 2]%Q = q_obj_eval tol o [3 # 2; 1 # 3]%Q) /\
  @const_par_curve Q NumQ tol o (1 # 2)%Q 2 = Err ValueError /\
  @const_par_curve Q NumQ tol o 3%Q 0 = Err ValueError.
Proof.
  cbv zeta. split; [|split; [|split]].
  - eexists. split; [vm_compute; reflexivity|]. vm_compute. repeat split.
  - eexists. split; [vm_compute; reflexivity|]. vm_compute. repeat split.
  - vm_compute. reflexivity.
  - vm_compute. reflexivity.
Qed.

