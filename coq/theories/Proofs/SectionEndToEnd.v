(* C15, end to end on the model's own functions [obj_section] / [obj_eval] (and [const_par_curve], Model/ConstPar.v):
   a section of an object evaluates to the object restricted to the corresponding boundary, in the documented order
   of edges() / faces() / corners(); a constant-parameter curve of a surface evaluates to the surface on that
   parameter line; the first control points of an extruded net are the profile.

   Common core (section 0-2): PINNING a set of directions of an object, each with an arbitrary row r of coefficients
   (the net is contracted with the 1 x n matrix [r] along that direction and the direction is dropped), evaluates
   to the object at the parameter tuple completed by a parameter t in each pinned direction, as soon as the row of
   basis values of that direction at t IS r.  Sections are the instance r = unit row (first / last index) at the
   start / end of a clamped direction; const_par_curve is the instance r = row i of the accumulated knot insertion
   matrix. *)
From Coq Require Import List Arith Reals Lra Lia Bool ZArith.
From SplipyModel Require Import Spec.BSpline Model.Num Model.BasisDef Model.BasisEval Model.Tensor Model.Obj Model.KnotInsert Model.Section Model.Factory
  Proofs.KnotList Proofs.SpanCorrect Proofs.EvaluateSpec Proofs.EvalConsequences Proofs.SnapSpec Proofs.SnapChar Proofs.TensorLemmas Proofs.ObjEval
  Proofs.InsertMatrix Proofs.TensorApply Proofs.InsertObj Proofs.OrderRaise Proofs.InsertEndToEnd Proofs.ChangeDirEval Proofs.RestrictDirEval
  Proofs.InterpProofs Proofs.SectionProofs.
Import ListNotations.
Open Scope R_scope.

(* ====================================================================================================== *)
(* 0. Pinning directions: definitions                                                                      *)
(* ====================================================================================================== *)
(* one entry per direction: None = the direction stays free; Some (t, r) = the direction is pinned, t is the
   parameter it is pinned at, r the row of coefficients the net is contracted with *)
Definition pin : Type := option (R * list R).

Fixpoint gsec_cps (ncomp : nat) (shape : list nat) (pins : list pin) (d : nat) (cps : list (list R)) : list (list R) * list nat :=
  match pins with
  | [] => (cps, shape)
  | Some (_, r) :: rest => gsec_cps ncomp (upd shape d 1%nat) rest (S d) (@apply_dir R NumR ncomp shape d [r] cps)
  | None :: rest => gsec_cps ncomp shape rest (S d) cps
  end.

(* the entries of l in the free directions *)
Fixpoint free_of {A} (pins : list pin) (l : list A) : list A :=
  match pins, l with
  | None :: ps, a :: l' => a :: free_of ps l'
  | Some _ :: ps, _ :: l' => free_of ps l'
  | _, _ => []
  end.

(* the rows, with the trivial row [1] in the pinned directions *)
Fixpoint ones (pins : list pin) (rows : list (list R)) : list (list R) :=
  match pins, rows with
  | None :: ps, N :: rows' => N :: ones ps rows'
  | Some _ :: ps, _ :: rows' => [1] :: ones ps rows'
  | _, _ => rows
  end.

(* the parameter tuple of the full object: the parameters ts of the free directions, completed by the pinned ones *)
Fixpoint fill (pins : list pin) (ts : list R) : list R :=
  match pins with
  | [] => []
  | Some (t, _) :: ps => t :: fill ps ts
  | None :: ps => hd 0 ts :: fill ps (tl ts)
  end.

Definition pin_row (pn : pin) (N : list R) : Prop := match pn with Some (_, r) => N = r | None => True end.

(* ====================================================================================================== *)
(* 1. Tensor level                                                                                         *)
(* ====================================================================================================== *)
Lemma row_rel_one (r : list R) : row_rel r [1] [r].
Proof.
  unfold row_rel. cbn [length]. split; [reflexivity|]. split; [constructor; [reflexivity|constructor]|].
  intros j Hj. cbn [sumf nth]. ring.
Qed.

Lemma prodl_app (a b : list nat) : prodl (a ++ b) = (prodl a * prodl b)%nat.
Proof. unfold prodl. induction a as [|x a IH]; cbn [app fold_right]; [lia|]. rewrite IH. lia. Qed.

Lemma upd_app_mid {A} (pre : list A) x y post : upd (pre ++ x :: post) (length pre) y = pre ++ y :: post.
Proof. induction pre as [|a pre IH]; cbn [app length upd]; [reflexivity|]. f_equal. exact IH. Qed.

Lemma map_length_upd (rows : list (list R)) (N' : list R) dd : map (@length R) (upd rows dd N') = upd (map (@length R) rows) dd (length N').
Proof. revert dd. induction rows as [|a rows IH]; intros dd; [destruct dd; reflexivity|]. destruct dd; cbn [upd map]; [reflexivity|]. f_equal. apply IH. Qed.

Lemma gsec_tsum ncomp : forall pins post, Forall2 pin_row pins post -> forall pre cps,
  net_ok ncomp (pre ++ post) cps -> (0 < prodl (map (@length R) (pre ++ post)))%nat ->
  snd (gsec_cps ncomp (map (@length R) (pre ++ post)) pins (length pre) cps) = map (@length R) (pre ++ ones pins post) /\
  net_ok ncomp (pre ++ ones pins post) (fst (gsec_cps ncomp (map (@length R) (pre ++ post)) pins (length pre) cps)) /\
  (0 < prodl (map (@length R) (pre ++ ones pins post)))%nat /\
  forall c, (c < ncomp)%nat ->
    tsum (pre ++ ones pins post) (cnet ncomp c (fst (gsec_cps ncomp (map (@length R) (pre ++ post)) pins (length pre) cps)))
    = tsum (pre ++ post) (cnet ncomp c cps).
Proof.
  induction 1 as [|pn N pins post Hpn HF IH]; intros pre cps Hnet Hpos.
  - cbn [gsec_cps ones fst snd]. split; [reflexivity|]. split; [exact Hnet|]. split; [exact Hpos|]. intros; reflexivity.
  - destruct pn as [[t r]|]; cbn [pin_row] in Hpn.
    + subst N. cbn [gsec_cps ones].
      set (rows := pre ++ r :: post) in *.
      assert (Hd : (length pre < length rows)%nat) by (unfold rows; rewrite app_length; cbn [length]; lia).
      assert (Hnth : nth (length pre) rows [] = r) by (unfold rows; apply nth_middle).
      assert (Hupd : upd rows (length pre) [1] = (pre ++ [[1]]) ++ post).
      { unfold rows. rewrite upd_app_mid, <- app_assoc. reflexivity. }
      assert (Hshape : upd (map (@length R) rows) (length pre) 1%nat = map (@length R) ((pre ++ [[1]]) ++ post)).
      { rewrite <- Hupd, map_length_upd. reflexivity. }
      set (cps1 := @apply_dir R NumR ncomp (map (@length R) rows) (length pre) [r] cps).
      assert (Hnet1 : net_ok ncomp ((pre ++ [[1]]) ++ post) cps1).
      { destruct Hnet as [Hv Hl]. split; [apply Forall_apply_dir; exact Hv|].
        unfold cps1. rewrite length_apply_dir; [|rewrite map_length; exact Hd|exact Hl|exact Hpos].
        cbn [length]. rewrite Hshape. reflexivity. }
      assert (Hpos1 : (0 < prodl (map (@length R) ((pre ++ [[1%R]]) ++ post)))%nat).
      { unfold rows in Hpos. rewrite !map_app, !prodl_app in *. cbn [map prodl fold_right length] in *.
        fold (prodl (map (@length R) post)) in *. nia. }
      destruct (IH (pre ++ [[1]]) cps1 Hnet1 Hpos1) as (I1 & I2 & I3 & I4).
      rewrite app_length in I1, I2, I4. cbn [length] in I1, I2, I4. rewrite Nat.add_1_r in I1, I2, I4.
      rewrite <- Hshape in I1, I2, I4. fold cps1.
      rewrite <- app_assoc in I1, I2, I3, I4. cbn [app] in I1, I2, I3, I4.
      split; [exact I1|]. split; [exact I2|]. split; [exact I3|].
      intros c Hc. rewrite (I4 c Hc).
      rewrite <- (tsum_apply_dir ncomp c [r] rows (length pre) [1] cps Hd Hc Hnet Hpos ltac:(rewrite Hnth; apply row_rel_one)).
      rewrite Hupd, <- app_assoc. reflexivity.
    + cbn [gsec_cps ones].
      assert (E : pre ++ N :: post = (pre ++ [N]) ++ post) by (rewrite <- app_assoc; reflexivity).
      rewrite E in Hnet, Hpos.
      destruct (IH (pre ++ [N]) cps Hnet Hpos) as (I1 & I2 & I3 & I4).
      rewrite app_length in I1, I2, I4. cbn [length] in I1, I2, I4. rewrite Nat.add_1_r in I1, I2, I4.
      assert (E' : forall X : list (list R), (pre ++ [N]) ++ X = pre ++ N :: X) by (intros X; rewrite <- app_assoc; reflexivity).
      rewrite !E' in I1. rewrite !E' in I2. rewrite !E' in I3.
      split; [exact I1|]. split; [exact I2|]. split; [exact I3|].
      intros c Hc. specialize (I4 c Hc). rewrite !E' in I4. exact I4.
Qed.

Lemma free_of_map {A B} (f : A -> B) : forall pins l, free_of pins (map f l) = map f (free_of pins l).
Proof.
  induction pins as [|pn pins IH]; intros l; [reflexivity|].
  destruct l as [|a l]; [destruct pn; reflexivity|]. destruct pn; cbn [free_of map]; [apply IH|f_equal; apply IH].
Qed.

Lemma prodl_ones : forall pins rows, length pins = length rows ->
  prodl (map (@length R) (ones pins rows)) = prodl (map (@length R) (free_of pins rows)).
Proof.
  induction pins as [|pn pins IH]; intros rows Hl; destruct rows as [|N rows]; try (cbn in Hl; lia); [reflexivity|].
  cbn [length] in Hl. destruct pn; cbn [ones free_of map prodl fold_right length].
  - fold (prodl (map (@length R) (ones pins rows))). rewrite IH by lia. unfold prodl. lia.
  - fold (prodl (map (@length R) (ones pins rows))). fold (prodl (map (@length R) (free_of pins rows))). rewrite IH by lia. reflexivity.
Qed.

Lemma tsum_ones : forall pins rows, length pins = length rows -> forall f,
  tsum (ones pins rows) f = tsum (free_of pins rows) f.
Proof.
  induction pins as [|pn pins IH]; intros rows Hl f; destruct rows as [|N rows]; try (cbn in Hl; lia); [reflexivity|].
  cbn [length] in Hl. destruct pn; cbn [ones free_of].
  - transitivity (tsum (ones pins rows) f); [exact (tsum_drop_one [] (ones pins rows) f)|apply IH; lia].
  - cbn [tsum]. cbv zeta. rewrite prodl_ones by lia. apply lcf_ext. intros i _. apply IH. lia.
Qed.

Lemma Forall2_length' {A B} (P : A -> B -> Prop) l1 l2 : Forall2 P l1 l2 -> length l1 = length l2.
Proof. induction 1; cbn [length]; [reflexivity|f_equal; assumption]. Qed.

(* contraction of the pinned net with the rows of the free directions = contraction of the full net with all rows *)
Theorem gsec_teval ncomp pins rows cps :
  Forall2 pin_row pins rows -> net_ok ncomp rows cps -> (0 < prodl (map (@length R) rows))%nat ->
  net_ok ncomp (free_of pins rows) (fst (gsec_cps ncomp (map (@length R) rows) pins 0 cps)) /\
  @teval R NumR ncomp (free_of pins rows) (fst (gsec_cps ncomp (map (@length R) rows) pins 0 cps)) = @teval R NumR ncomp rows cps.
Proof.
  intros HF Hnet Hpos.
  pose proof (Forall2_length' _ _ _ HF) as Hl.
  destruct (gsec_tsum ncomp pins rows HF [] cps Hnet Hpos) as (I1 & I2 & I3 & I4). cbn [app length] in *.
  set (cps' := fst (gsec_cps ncomp (map (@length R) rows) pins 0 cps)) in *.
  assert (Hnet' : net_ok ncomp (free_of pins rows) cps').
  { destruct I2 as [Hv Hlen]. split; [exact Hv|]. rewrite Hlen. apply prodl_ones. exact Hl. }
  split; [exact Hnet'|].
  apply (nth_ext _ _ 0 0).
  - rewrite (teval_length _ _ _ Hnet'), (teval_length _ _ _ Hnet). reflexivity.
  - intros c Hc. rewrite (teval_length _ _ _ Hnet') in Hc.
    change (nth c ?v 0) with (coord c v).
    rewrite (teval_tsum ncomp c _ Hc _ Hnet'), (teval_tsum ncomp c _ Hc _ Hnet).
    rewrite <- (I4 c Hc). symmetry. apply tsum_ones. exact Hl.
Qed.

(* ====================================================================================================== *)
(* 2. Object level                                                                                         *)
(* ====================================================================================================== *)
Lemma rows_at_cons tol (b : basis R) bs ts :
  @rows_at R NumR tol (b :: bs) [] [] ts = @basis_row R NumR tol b 0 true (hd 0 ts) :: @rows_at R NumR tol bs [] [] (tl ts).
Proof.
  unfold rows_at. cbn [length seq map]. f_equal.
  - cbn [nth]. destruct ts; reflexivity.
  - rewrite <- seq_shift, map_map. apply map_ext. intros i. rewrite !nth_nil_any. cbn [nth].
    f_equal. destruct ts; [destruct i|]; reflexivity.
Qed.

(* a pinned direction: the parameter passes validation unchanged and the row of basis values there is r *)
Definition pin_ok (tol : R) (pn : pin) (b : basis R) : Prop :=
  match pn with
  | Some (t, r) => @validate1 R NumR tol b t = Ok t /\ @basis_row R NumR tol b 0 true t = r
  | None => True
  end.

Lemma gsec_validate tol : forall pins bs, Forall2 (pin_ok tol) pins bs -> forall ts,
  @validate R NumR tol bs (fill pins ts)
  = match @validate R NumR tol (free_of pins bs) ts with Err e => Err e | Ok r => Ok (fill pins r) end.
Proof.
  induction 1 as [|pn b pins bs Hpn HF IH]; intros ts; [destruct ts; reflexivity|].
  destruct pn as [[t r]|]; cbn [pin_ok] in Hpn.
  - destruct Hpn as [Hv _]. cbn [fill validate hd tl free_of]. rewrite Hv, IH.
    destruct (@validate R NumR tol (free_of pins bs) ts); reflexivity.
  - cbn [fill validate tl free_of]. change (@n0 R NumR) with 0.
    destruct (@validate1 R NumR tol b (hd 0 ts)) as [t'|e]; [|reflexivity].
    rewrite IH. destruct (@validate R NumR tol (free_of pins bs) (tl ts)); reflexivity.
Qed.

Lemma gsec_rows tol : forall pins bs, Forall2 (pin_ok tol) pins bs -> forall r,
  Forall2 pin_row pins (@rows_at R NumR tol bs [] [] (fill pins r)) /\
  free_of pins (@rows_at R NumR tol bs [] [] (fill pins r)) = @rows_at R NumR tol (free_of pins bs) [] [] r.
Proof.
  induction 1 as [|pn b pins bs Hpn HF IH]; intros r; [split; [constructor|reflexivity]|].
  destruct pn as [[t rr]|]; cbn [pin_ok] in Hpn.
  - destruct Hpn as [_ Hr]. cbn [fill]. rewrite rows_at_cons. cbn [hd tl free_of]. destruct (IH r) as [A B].
    split; [constructor; [exact Hr|exact A]|exact B].
  - cbn [fill]. rewrite !rows_at_cons. cbn [hd tl free_of]. destruct (IH (tl r)) as [A B].
    split; [constructor; [exact I|exact A]|]. rewrite rows_at_cons. f_equal. exact B.
Qed.

Definition pinned_obj (o : obj R) (pins : list pin) : obj R :=
  mkObj (free_of pins (o_bases o)) (fst (gsec_cps (@o_ncomp R o) (@o_shape R o) pins 0 (o_cps o))) (o_dim o) (o_rat o).

Lemma free_of_Forall {A} (P : A -> Prop) : forall pins l, Forall P l -> Forall P (free_of pins l).
Proof.
  induction pins as [|pn pins IH]; intros l Hl; [constructor|].
  destruct l as [|a l]; [destruct pn; constructor|]. inversion Hl; subst.
  destruct pn; cbn [free_of]; [apply IH; assumption|constructor; [assumption|apply IH; assumption]].
Qed.

Section Pinned.
Variable tol : R.
Variable o : obj R.
Hypothesis Hwf : wf_obj_R tol o.
Variable pins : list pin.
Hypothesis Hpins : Forall2 (pin_ok tol) pins (o_bases o).

(* MAIN LEMMA: the pinned object at ts = the object at ts completed by the pinned parameters (also when
   validation fails: both sides are then the same ValueError) *)
Theorem pinned_eval ts : @obj_eval R NumR tol (pinned_obj o pins) ts = @obj_eval R NumR tol o (fill pins ts).
Proof.
  unfold obj_eval, pinned_obj. cbn [o_bases o_rat o_dim]. rewrite (gsec_validate tol pins (o_bases o) Hpins ts).
  destruct (@validate R NumR tol (free_of pins (o_bases o)) ts) as [r|e]; [|reflexivity].
  assert (EH : forall o', o' = pinned_obj o pins -> @eval_h R NumR tol o' [] [] r = @eval_h R NumR tol o [] [] (fill pins r)).
  { intros o' ->. unfold eval_h, pinned_obj. cbn [o_bases o_cps]. change (@o_ncomp R (mkObj _ _ (o_dim o) (o_rat o))) with (@o_ncomp R o).
    destruct (gsec_rows tol pins (o_bases o) Hpins r) as [HR HFr]. rewrite <- HFr.
    rewrite <- (cd_shape_rows tol o (fill pins r)).
    destruct Hwf as (HB & HV & HL).
    apply gsec_teval; [exact HR| |].
    - split; [exact HV|]. rewrite cd_shape_rows. exact HL.
    - rewrite cd_shape_rows. apply (cd_pos tol o Hwf). }
  rewrite (EH _ eq_refl). reflexivity.
Qed.

Theorem pinned_wf : wf_obj_R tol (pinned_obj o pins).
Proof.
  pose proof (cd_pos tol o Hwf) as Hpos. destruct Hwf as (HB & HV & HL).
  destruct (gsec_rows tol pins (o_bases o) Hpins []) as [HR HFr].
  set (rows := @rows_at R NumR tol (o_bases o) [] [] (fill pins [])) in *.
  assert (Hsh : map (@length R) rows = @o_shape R o) by apply cd_shape_rows.
  destruct (gsec_teval (@o_ncomp R o) pins rows (o_cps o) HR) as [[Hv Hl] _].
  { split; [exact HV|]. rewrite Hsh. exact HL. }
  { rewrite Hsh. exact Hpos. }
  rewrite Hsh in Hv, Hl.
  unfold pinned_obj. split; [|split]; cbn [o_bases o_cps].
  - apply free_of_Forall. exact HB.
  - exact Hv.
  - rewrite Hl. f_equal. unfold o_shape. cbn [o_bases]. rewrite <- free_of_map. f_equal. exact Hsh.
Qed.
End Pinned.
