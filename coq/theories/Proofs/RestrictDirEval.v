(* Generic end-to-end lemma for operations that replace the basis of ONE non-periodic direction d of an object by
   another non-periodic basis whose domain is CONTAINED in the old one and apply a matrix M to the control net along d
   (generalisation of Proofs/ChangeDirEval.v, where the two domains coincide):
   if, for every (side, t) with t in the new domain in the one-sided sense produced by [normalise], the old row of
   basis values is the new row times M (row_rel), the d-th parameter snaps the same way on both knot vectors, lands in
   the new domain, and stays at distance >= tol below the new end unless the new end is the old end, then [obj_eval] of
   the new object equals [obj_eval] of the old one; and the new object is again well formed.
   The slicing step of SplineObject.split (C07) is the instance (Proofs/SplitEndToEnd.v).

   Why the distance to the new end: [normalise] evaluates from the LEFT within tol of the end of the basis it is given.
   The end of the new domain is an interior point of the old one, where the old object evaluates from the RIGHT. *)
From Coq Require Import List Arith Reals Lra Lia Bool ZArith.
From SplipyModel Require Import Spec.BSpline Model.Num Model.BasisDef Model.BasisEval Model.Tensor Model.Obj Model.KnotInsert Model.Interp
  Proofs.KnotList Proofs.SpanCorrect Proofs.EvaluateSpec Proofs.EvalConsequences Proofs.SnapSpec Proofs.SnapChar Proofs.TensorLemmas Proofs.ObjEval
  Proofs.InsertMatrix Proofs.TensorApply Proofs.OrderRaise Proofs.InsertEndToEnd.
Import ListNotations.
Open Scope R_scope.

(* ---------- normalise on a non-periodic basis, from the right, at a parameter of the domain ---------- *)
Lemma normalise_nonper_true (k : list R) p tol u :
  0 < tol ->
  2 * tol <= @kn R NumR k (length k - p) - @kn R NumR k (p - 1) ->
  @kn R NumR k (p - 1) <= u <= @kn R NumR k (length k - p) ->
  @normalise R NumR k p 0 tol true u
  = Some (u, if Rltb (Rabs (u - @kn R NumR k (length k - p))) tol then false else true).
Proof.
  intros Htol Hw Hu. unfold normalise. cbv zeta. unfold wrap_t. cbn [Nat.eqb negb].
  rewrite !nabs_R. cbn [nltb nsub NumR].
  destruct (Rltb_spec u (@kn R NumR k (p - 1))) as [A|A]; [lra|].
  destruct (Rltb_spec (@kn R NumR k (length k - p)) u) as [B|B]; [lra|]. cbn [orb].
  destruct (Rltb_spec (Rabs (u - @kn R NumR k (length k - p))) tol) as [E|E]; cbn [negb andb].
  - rewrite andb_true_r. destruct (Rltb_spec (Rabs (u - @kn R NumR k (p - 1))) tol) as [S|S]; [|reflexivity].
    exfalso. rewrite Rabs_left1 in E by lra. rewrite Rabs_right in S by lra. lra.
  - rewrite andb_false_r. reflexivity.
Qed.

(* ---------- snap on a sub-knot-vector: k' carries exactly the knot values of k lying in [lo, hi] ---------- *)
Section SnapRestrict.
Variables (k k' : list R) (lo hi tol t : R).
Hypothesis Hvals : forall v, In v k' <-> (In v k /\ lo <= v <= hi).
Hypothesis Hlo : In lo k.
Hypothesis Hhi : In hi k.
Hypothesis Htol : 0 < tol.
Hypothesis Ht : lo <= t <= hi.

Lemma up_restrict y : IsUp k t y <-> IsUp k' t y.
Proof.
  split; intros (I & G & Mn).
  - assert (y <= hi) by (apply Mn; [exact Hhi|lra]).
    split; [apply Hvals; split; [exact I|lra]|]. split; [exact G|].
    intros v Hv Hge. apply Hvals in Hv. apply Mn; [apply Hv|exact Hge].
  - apply Hvals in I. destruct I as [I Hr]. split; [exact I|]. split; [exact G|].
    intros v Hv Hge. destruct (Rle_dec v hi) as [L|L]; [apply Mn; [apply Hvals; split; [exact Hv|lra]|exact Hge]|lra].
Qed.
Lemma dn_restrict_back z : IsDn k' t z -> IsDn k t z.
Proof.
  intros (I & G & Mn). apply Hvals in I. destruct I as [I Hr]. split; [exact I|]. split; [exact G|].
  intros v Hv Hlt. destruct (Rle_dec lo v) as [L|L]; [apply Mn; [apply Hvals; split; [exact Hv|lra]|exact Hlt]|lra].
Qed.
Lemma dn_restrict z : lo < t -> IsDn k t z -> IsDn k' t z.
Proof.
  intros Hl (I & G & Mn). assert (lo <= z) by (apply Mn; [exact Hlo|exact Hl]).
  split; [apply Hvals; split; [exact I|lra]|]. split; [exact G|].
  intros v Hv Hlt. apply Hvals in Hv. apply Mn; [apply Hv|exact Hlt].
Qed.

Lemma snap_case_restrict r : snap_case k tol t r -> snap_case k' tol t r.
Proof.
  assert (NU' : (forall y, IsUp k t y -> ~ near tol y t) -> forall y, IsUp k' t y -> ~ near tol y t).
  { intros NU y U. apply NU, up_restrict, U. }
  assert (Hlt : (forall y, IsUp k t y -> ~ near tol y t) -> lo < t).
  { intros NU. destruct (Req_dec lo t) as [Q|Q]; [|lra]. exfalso. apply (NU lo).
    - split; [exact Hlo|]. split; [lra|]. intros v _ Hv. lra.
    - unfold near. rewrite Q. replace (t - t) with 0 by ring. rewrite Rabs_R0. exact Htol. }
  intros [(y & U & N & E1) | [(NU & z & D & N & E1) | (NU & ND & E1)]]; subst r.
  - left. exists y. split; [apply up_restrict, U|]. split; [exact N|reflexivity].
  - right. left. split; [apply NU', NU|]. exists z. split; [apply dn_restrict; [apply Hlt, NU|exact D]|]. split; [exact N|reflexivity].
  - right. right. split; [apply NU', NU|]. split; [|reflexivity]. intros z D. apply ND, dn_restrict_back, D.
Qed.

(* the parameter snaps the same way on the sub-knot-vector *)
Theorem snap1_restrict : sorted (@kn R NumR k) -> sorted (@kn R NumR k') ->
  @snap1 R NumR k' tol t = @snap1 R NumR k tol t.
Proof.
  intros S1 S2. apply (snap_case_unique k' tol t); [apply snap1_case; exact S2|].
  apply snap_case_restrict, snap1_case, S1.
Qed.

(* ... and stays between lo and hi *)
Theorem snap1_between : sorted (@kn R NumR k) -> lo <= @snap1 R NumR k tol t <= hi.
Proof.
  intros S1. destruct (snap1_case k tol t S1) as [(y & (I & G & Mn) & N & E1) | [(NU & z & (I & G & Mn) & N & E1) | (NU & ND & E1)]]; rewrite E1.
  - split; [lra|]. apply Mn; [exact Hhi|lra].
  - split; [|lra]. apply Mn; [exact Hlo|].
    destruct (Req_dec lo t) as [Q|Q]; [|lra]. exfalso. apply (NU lo).
    + split; [exact Hlo|]. split; [lra|]. intros v _ Hv. lra.
    + unfold near. rewrite Q. replace (t - t) with 0 by ring. rewrite Rabs_R0. exact Htol.
  - exact Ht.
Qed.
End SnapRestrict.

(* the snapped parameter stays below a bound at distance tol from an upper knot e', from the raw parameter *)
Lemma snap1_below_2tol (k : list R) tol t e' : sorted (@kn R NumR k) -> 0 < tol ->
  t <= e' - 2 * tol -> @snap1 R NumR k tol t <= e' - tol.
Proof.
  intros HK Htol Ht. destruct (snap1_spec k HK tol Htol t) as [(i & Hi & E & N)|[E _]]; cbv zeta in *; rewrite E; [|lra].
  apply Rabs_def2 in N. lra.
Qed.
Lemma snap1_below_sep (k : list R) tol t e' : sorted (@kn R NumR k) -> 0 < tol ->
  (forall v, In v k -> ~ (e' - tol < v < e')) ->
  t <= e' - tol -> @snap1 R NumR k tol t <= e' - tol.
Proof.
  intros HK Htol Hsep Ht. destruct (snap1_spec k HK tol Htol t) as [(i & Hi & E & N)|[E _]]; cbv zeta in *; rewrite E; [|lra].
  apply Rabs_def2 in N. destruct (Rle_dec (@kn R NumR k i) (e' - tol)) as [L|L]; [exact L|].
  exfalso. apply (Hsep (@kn R NumR k i)); [apply kn_In'; exact Hi|lra].
Qed.

Section RestrictDir.
Variable tol : R.
Hypothesis Htol : 0 < tol.
Variable o : obj R.
Hypothesis Hwf : wf_obj_R tol o.
Variable d : nat.
Hypothesis Hd : (d < length (o_bases o))%nat.
Local Notation bd := (nth d (o_bases o) dflt_basis).
Hypothesis Hper : b_per1 bd = 0%nat.
Local Notation k := (b_knots bd).
Local Notation p := (b_order bd).
Variable k' : list R.
Variable p' : nat.
Variable M : list (list R).
Hypothesis HK' : sorted (@kn R NumR k').
Hypothesis Hp' : (1 <= p')%nat.
Hypothesis Hlen' : (2 * p' <= length k')%nat.
Hypothesis Hn' : (0 < length k' - p')%nat.
Local Notation s := (@kn R NumR k (p - 1)).
Local Notation e := (@kn R NumR k (length k - p)).
Local Notation s' := (@kn R NumR k' (p' - 1)).
Local Notation e' := (@kn R NumR k' (length k' - p')).
(* the new domain [s', e'] is contained in the old one [s, e] and is not degenerate *)
Hypothesis Hstart : s <= s'.
Hypothesis Hend : e' <= e.
Hypothesis Hw' : 2 * tol <= e' - s'.
(* the row relation, only on the new domain, one-sided as [normalise] produces it *)
Hypothesis Hrel : forall (side : bool) (t : R), (if side then s' <= t < e' else s' < t <= e') ->
  row_rel (Brow side k p t) (Brow side k' p' t) M.
Local Notation b' := (@mkBasis R p' k' 0).
Local Notation o' := (mkObj (upd (o_bases o) d b') (@apply_dir R NumR (@o_ncomp R o) (@o_shape R o) d M (o_cps o)) (o_dim o) (o_rat o)).

Lemma rd_bd_wf : sorted (@kn R NumR k) /\ (1 <= p)%nat /\ (2 * p <= length k)%nat /\ (0 < @b_nfun R bd)%nat /\ 2 * tol <= e - s.
Proof. destruct Hwf as (HB & _). rewrite Forall_forall in HB. apply HB. apply nth_In. exact Hd. Qed.
Lemma rd_bd_eq : bd = mkBasis p k 0.
Proof. clear - Hper. destruct bd as [pp kk per] eqn:E. cbn [b_per1 b_order b_knots] in *. rewrite Hper. reflexivity. Qed.

Lemma rd_nth_bases i : nth i (upd (o_bases o) d b') dflt_basis = if Nat.eq_dec i d then b' else nth i (o_bases o) dflt_basis.
Proof. destruct (Nat.eq_dec i d) as [->|Hne]; [apply upd_nth_same; exact Hd|apply upd_nth_other; exact Hne]. Qed.

Local Notation rowsf := (fun tsv => @rows_at R NumR tol (o_bases o) [] [] tsv).

Lemma rd_row_len tsv i : (i < length (o_bases o))%nat -> length (nth i (rowsf tsv) []) = @b_nfun R (nth i (o_bases o) dflt_basis).
Proof.
  intros Hi. rewrite rows_at_nth by exact Hi. unfold basis_row, basis_evaluate. cbv zeta. unfold b_nfun.
  destruct (_ <=? _)%nat; cbn [map hd]; [apply repeat_length|].
  unfold dense_row. destruct (@eval_point R NumR _ _ _ _ _ _ _) as [[m MM]|]; [rewrite map_length, seq_length; reflexivity|apply repeat_length].
Qed.
Lemma rd_shape_rows tsv : map (@length R) (rowsf tsv) = @o_shape R o.
Proof.
  apply (nth_ext _ _ 0%nat 0%nat).
  - unfold o_shape. rewrite !map_length. apply rows_at_length.
  - intros i Hi. rewrite map_length, rows_at_length in Hi.
    rewrite (nth_map_gen _ _ i 0%nat []) by (rewrite rows_at_length; exact Hi). rewrite rd_row_len by exact Hi.
    unfold o_shape. rewrite (nth_map_gen _ _ i 0%nat dflt_basis) by exact Hi. reflexivity.
Qed.
Lemma rd_pos : (0 < prodl (@o_shape R o))%nat.
Proof.
  destruct Hwf as (HB & _). unfold o_shape, prodl. clear - HB. induction (o_bases o) as [|b bs IH]; cbn [map fold_right]; [lia|].
  inversion HB as [|? ? Hb Hbs]; subst. destruct Hb as (_ & _ & _ & Hnf & _). specialize (IH Hbs). nia.
Qed.
Lemma rd_upd_map_length (rows : list (list R)) (N' : list R) dd : map (@length R) (upd rows dd N') = upd (map (@length R) rows) dd (length N').
Proof. revert dd. induction rows as [|a rows IH]; intros dd; [destruct dd; reflexivity|]. destruct dd; cbn [upd map]; [reflexivity|]. f_equal. apply IH. Qed.

(* the new object is well formed *)
Theorem restrict_dir_wf : wf_obj_R tol o'.
Proof.
  destruct Hwf as (HB & HV & HL). destruct rd_bd_wf as (HK & Hp & Hlen & Hn & Hw).
  split; [|split]; cbn [o_bases o_cps].
  - apply Forall_forall. intros b Hb. destruct (In_nth _ _ dflt_basis Hb) as (i & Hi & <-). rewrite upd_length in Hi.
    rewrite rd_nth_bases. destruct (Nat.eq_dec i d) as [->|_].
    + split; [exact HK'|]. split; [exact Hp'|]. split; [exact Hlen'|]. split; [unfold b_nfun; cbn [b_knots b_order b_per1]; lia|].
      exact Hw'.
    + rewrite Forall_forall in HB. apply HB, nth_In, Hi.
  - change (@o_ncomp R o') with (@o_ncomp R o). apply Forall_apply_dir. exact HV.
  - pose proof (Hrel true s' ltac:(lra)) as (HC1 & _).
    rewrite length_apply_dir; [|unfold o_shape; rewrite map_length; exact Hd|exact HL|exact rd_pos].
    unfold o_shape. cbn [o_bases]. f_equal. rewrite HC1. unfold Brow. rewrite map_length, seq_length.
    clear. generalize (o_bases o) as bs. intros bs. revert d. induction bs as [|a bs IH]; intros dd; [destruct dd; reflexivity|].
    destruct dd; cbn [upd map]; [unfold b_nfun; cbn [b_knots b_order b_per1]; f_equal; lia|]. f_equal. apply IH.
Qed.

(* the parameter tuple *)
Variable ts : list R.
Local Notation td := (nth d ts 0).
Local Notation u := (@snap1 R NumR k tol td).
(* the other directions: in the domain, as for the old object *)
Hypothesis Hdom : forall i, (i < length (o_bases o))%nat -> i <> d -> in_dom tol (nth i (o_bases o) dflt_basis) (nth i ts 0).
(* direction d: same snap on both knot vectors, the snapped parameter lies in the new domain ... *)
Hypothesis Hsnap1 : @snap1 R NumR k' tol td = u.
Hypothesis Hin : s' <= u <= e'.
(* ... and is not within tol of the new end, unless the new end is the old end *)
Hypothesis Hside : u <= e' - tol \/ e' = e.

Lemma rd_dom_old : forall i, (i < length (o_bases o))%nat -> in_dom tol (nth i (o_bases o) dflt_basis) (nth i ts 0).
Proof.
  intros i Hi. destruct (Nat.eq_dec i d) as [->|Hne]; [|apply Hdom; assumption].
  intros _. unfold b_start, b_end. lra.
Qed.
Lemma rd_dom_new : forall i, (i < length (upd (o_bases o) d b'))%nat -> in_dom tol (nth i (upd (o_bases o) d b') dflt_basis) (nth i ts 0).
Proof.
  intros i Hi. rewrite upd_length in Hi. rewrite rd_nth_bases. destruct (Nat.eq_dec i d) as [->|Hne]; [|apply Hdom; assumption].
  intros _. unfold b_start, b_end. cbn [b_knots b_order]. rewrite Hsnap1. exact Hin.
Qed.

Lemma rd_validate_same : @validate R NumR tol (upd (o_bases o) d b') ts = @validate R NumR tol (o_bases o) ts.
Proof.
  destruct (validate_spec tol (o_bases o) ts) as [V1 _]. rewrite (V1 rd_dom_old).
  destruct (validate_spec tol (upd (o_bases o) d b') ts) as [V2 _]. rewrite (V2 rd_dom_new).
  rewrite upd_length. f_equal. apply map_ext_in. intros i Hi. apply in_seq in Hi. rewrite rd_nth_bases.
  destruct (Nat.eq_dec i d) as [->|_]; [cbn [b_knots]; exact Hsnap1|reflexivity].
Qed.

Local Notation ts' := (map (fun i => @snap1 R NumR (b_knots (nth i (o_bases o) dflt_basis)) tol (nth i ts 0)) (seq 0 (length (o_bases o)))).
Local Notation rows := (@rows_at R NumR tol (o_bases o) [] [] ts').
Local Notation rows' := (@rows_at R NumR tol (upd (o_bases o) d b') [] [] ts').

Lemma rd_ts'_nth i : (i < length (o_bases o))%nat -> nth i ts' 0 = @snap1 R NumR (b_knots (nth i (o_bases o) dflt_basis)) tol (nth i ts 0).
Proof. intros Hi. rewrite (nth_map_gen _ _ i 0 0%nat) by (rewrite seq_length; exact Hi). rewrite seq_nth by exact Hi. reflexivity. Qed.

(* the (parameter, side) actually used in direction d: the same for the old and for the new basis *)
Lemma rd_norm : exists side,
  @normalise R NumR k p 0 tol true (@snap1 R NumR k tol u) = Some (u, side) /\
  @normalise R NumR k' p' 0 tol true (@snap1 R NumR k' tol u) = Some (u, side) /\
  (if side then s' <= u < e' else s' < u <= e').
Proof.
  destruct rd_bd_wf as (HK & Hp & Hlen & Hn & Hw).
  assert (Hid : @snap1 R NumR k tol u = u) by (apply snap1_idem; assumption).
  assert (Hid' : @snap1 R NumR k' tol u = u).
  { rewrite <- Hsnap1 at 1. rewrite snap1_idem by assumption. exact Hsnap1. }
  rewrite Hid, Hid'.
  rewrite (normalise_nonper_true k p tol u Htol Hw ltac:(lra)).
  rewrite (normalise_nonper_true k' p' tol u Htol Hw' Hin).
  destruct (Rltb_spec (Rabs (u - e')) tol) as [E'|E'].
  - (* within tol of the new end: only allowed when it is the old end *)
    destruct Hside as [L|Q].
    + exfalso. rewrite Rabs_left1 in E' by lra. lra.
    + exists false. rewrite <- Q. destruct (Rltb_spec (Rabs (u - e')) tol) as [_|C]; [|contradiction].
      split; [reflexivity|]. split; [reflexivity|]. split; [|lra].
      rewrite Rabs_left1 in E' by lra. lra.
  - exists true.
    assert (Hlt : u < e').
    { destruct (Req_dec u e') as [Q|Q]; [|lra]. exfalso. apply E'. rewrite Q. replace (e' - e') with 0 by ring. rewrite Rabs_R0. exact Htol. }
    destruct (Rltb_spec (Rabs (u - e)) tol) as [E|E].
    + exfalso. rewrite Rabs_left1 in E by lra. rewrite Rabs_left1 in E' by lra.
      destruct Hside as [L|Q]; [lra|]. rewrite Q in E'. lra.
    + split; [reflexivity|]. split; [reflexivity|]. lra.
Qed.

Lemma rd_rows' : exists side : bool, (if side then s' <= u < e' else s' < u <= e') /\
  nth d rows [] = Brow side k p u /\ rows' = upd rows d (Brow side k' p' u).
Proof.
  destruct rd_bd_wf as (HK & Hp & Hlen & Hn & Hw).
  destruct rd_norm as (side & E1 & E2 & Hs). exists side. split; [exact Hs|].
  assert (Hrow_d : nth d rows [] = Brow side k p u).
  { rewrite rows_at_nth by exact Hd. rewrite !nth_nil_any. rewrite rd_ts'_nth by exact Hd. rewrite rd_bd_eq at 1.
    rewrite (basis_row_nonper tol k p _ HK Hp Hlen Htol). rewrite E1. reflexivity. }
  split; [exact Hrow_d|].
  apply (nth_ext _ _ [] []).
  - rewrite upd_length, !rows_at_length, upd_length. reflexivity.
  - intros i Hi. rewrite rows_at_length, upd_length in Hi.
    rewrite rows_at_nth by (rewrite upd_length; exact Hi). rewrite rd_nth_bases. rewrite !nth_nil_any.
    destruct (Nat.eq_dec i d) as [->|Hne].
    + rewrite upd_nth_same by (rewrite rows_at_length; exact Hd). rewrite rd_ts'_nth by exact Hd.
      rewrite (basis_row_nonper tol k' p' _ HK' Hp' Hlen' Htol). rewrite E2. reflexivity.
    + rewrite upd_nth_other by exact Hne. rewrite rows_at_nth by exact Hi. rewrite !nth_nil_any. reflexivity.
Qed.

Theorem restrict_dir_eval : @obj_eval R NumR tol o' ts = @obj_eval R NumR tol o ts.
Proof.
  unfold obj_eval. cbn [o_bases o_rat o_dim]. rewrite rd_validate_same.
  destruct (validate_spec tol (o_bases o) ts) as [V1 _]. rewrite (V1 rd_dom_old).
  assert (EH : @eval_h R NumR tol o' [] [] ts' = @eval_h R NumR tol o [] [] ts').
  { unfold eval_h. cbn [o_bases o_cps]. change (@o_ncomp R o') with (@o_ncomp R o).
    destruct rd_rows' as (side & Hs & Hrow & Hrows'). rewrite Hrows'.
    destruct Hwf as (HB & HV & HL).
    assert (Hnet : net_ok (@o_ncomp R o) rows (o_cps o)) by (split; [exact HV|rewrite rd_shape_rows; exact HL]).
    assert (Hpos : (0 < prodl (map (@length R) rows))%nat) by (rewrite rd_shape_rows; exact rd_pos).
    assert (Hdr : (d < length rows)%nat) by (rewrite rows_at_length; exact Hd).
    rewrite <- (rd_shape_rows ts').
    assert (RR : row_rel (nth d rows []) (Brow side k' p' u) M) by (rewrite Hrow; apply Hrel; exact Hs).
    assert (Hnet' : net_ok (@o_ncomp R o) (upd rows d (Brow side k' p' u))
                      (@apply_dir R NumR (@o_ncomp R o) (map (@length R) rows) d M (o_cps o))).
    { destruct Hnet as [Hv Hl]. split; [apply Forall_apply_dir; exact Hv|].
      rewrite length_apply_dir; [| rewrite map_length; exact Hdr | exact Hl | exact Hpos ].
      f_equal. destruct RR as (HC1 & _). rewrite HC1. rewrite rd_upd_map_length. reflexivity. }
    apply (nth_ext _ _ 0 0).
    - rewrite (teval_length _ _ _ Hnet'), (teval_length _ _ _ Hnet). reflexivity.
    - intros c Hc. rewrite (teval_length _ _ _ Hnet') in Hc.
      change (nth c ?v 0) with (coord c v).
      rewrite (teval_tsum (@o_ncomp R o) c rows Hc (o_cps o) Hnet).
      rewrite <- (tsum_apply_dir (@o_ncomp R o) c M rows d (Brow side k' p' u) (o_cps o) Hdr Hc Hnet Hpos RR).
      apply teval_tsum; [exact Hc|exact Hnet']. }
  rewrite EH. reflexivity.
Qed.
End RestrictDir.

