(* C14, clause "rebuild": Curve.rebuild(p, n) (Model/Rebuild.v) on R.
   1. the knot vector of the rebuilt basis: closed form, length, sortedness, the parametric domain is exactly [t0, t1]
      (first knot t0 and last knot t1 with multiplicity exactly p) for ANY t0 < t1;
   2. shape of the result of curve_rebuild (non-periodic, order p, n control points, non-rational, physical dimension);
   3. interpolation at the Greville points of the new basis; reproduction of a curve of the new spline space;
   4. examples on Q. *)
From Coq Require Import List Arith Reals Lra Lia Bool ZArith QArith.
From SplipyModel Require Import Spec.BSpline Model.Num Model.BasisDef Model.BasisEval Model.Tensor Model.Obj Model.KnotInsert Model.Solve
  Model.Interp Model.Reparam Model.Loft Model.InterpMore Model.Rebuild
  Proofs.Bridge Proofs.EvalConsequences Proofs.TensorLemmas Proofs.TensorApply Proofs.ObjEval Proofs.KnotList
  Proofs.LinAlg Proofs.InterpProofs Proofs.LoftProofs Proofs.InterpMoreProofs Proofs.AppendProofs Proofs.ReparamObj
  Proofs.DefaultObjProofs.
Import ListNotations.
Open Scope R_scope.

(* ================= 1. the knot vector ================= *)

(* the integer knot number i of [0]*p + range(1, n-p+1) + [n-p+1]*p *)
Definition uidx (p n i : nat) : nat := Nat.min (i + 1 - p) (n - p + 1).

Lemma raw_length p n : (p <= n)%nat -> length (@uniform_open_raw R NumR p n) = (n + p)%nat.
Proof. intros H. unfold uniform_open_raw. rewrite !app_length, !repeat_length, map_length, seq_length. lia. Qed.

Lemma raw_list p n : (p <= n)%nat ->
  @uniform_open_raw R NumR p n = map (fun i => INR (uidx p n i)) (seq 0 (n + p)).
Proof.
  intros H. apply (nth_ext _ _ 0 0).
  - rewrite raw_length by exact H. rewrite map_length, seq_length. reflexivity.
  - intros i Hi. rewrite raw_length in Hi by exact H.
    rewrite (nth_map_gen _ _ i 0 0%nat) by (rewrite seq_length; lia). rewrite seq_nth by lia. cbn [Nat.add].
    unfold uniform_open_raw. change (@n0 R NumR) with 0.
    destruct (lt_dec i p) as [L|L].
    + rewrite app_nth1 by (rewrite repeat_length; lia). rewrite nth_repeat.
      replace (uidx p n i) with 0%nat by (unfold uidx; lia). reflexivity.
    + rewrite app_nth2 by (rewrite repeat_length; lia). rewrite repeat_length.
      destruct (lt_dec i n) as [L2|L2].
      * rewrite app_nth1 by (rewrite map_length, seq_length; lia).
        rewrite (nth_map_gen _ _ (i - p) 0 0%nat) by (rewrite seq_length; lia). rewrite seq_nth by lia.
        rewrite nofnat_R. f_equal. unfold uidx. lia.
      * rewrite app_nth2 by (rewrite map_length, seq_length; lia). rewrite map_length, seq_length.
        rewrite (nth_indep _ 0 (@nofnat R NumR (n - p + 1))) by (rewrite repeat_length; lia).
        rewrite nth_repeat. rewrite nofnat_R. f_equal. unfold uidx. lia.
Qed.

Lemma raw_kn p n i : (p <= n)%nat -> (i < n + p)%nat -> @kn R NumR (@uniform_open_raw R NumR p n) i = INR (uidx p n i).
Proof.
  intros H Hi. rewrite (kn_in _ i) with (d := 0) by (rewrite raw_length; assumption).
  rewrite raw_list by exact H. rewrite (nth_map_gen _ _ i 0 0%nat) by (rewrite seq_length; lia). rewrite seq_nth by lia. reflexivity.
Qed.

Lemma raw_nonempty p n : (1 <= p <= n)%nat -> @uniform_open_raw R NumR p n <> [].
Proof. intros H E. apply (f_equal (@length R)) in E. rewrite raw_length in E by lia. cbn in E. lia. Qed.

(* the closed form of the knot list: knot i = t0 + (t1 - t0) * u_i / (n-p+1) *)
Theorem rebuild_knots_list p n t0 t1 : (1 <= p <= n)%nat ->
  b_knots (@rebuild_basis R NumR p n t0 t1)
  = map (fun i => t0 + (t1 - t0) * (INR (uidx p n i) / INR (n - p + 1))) (seq 0 (n + p)).
Proof.
  intros H. pose proof (raw_nonempty p n H) as Hne.
  unfold rebuild_basis, uniform_open_knots, basis_normalize, basis_shift. cbv zeta. cbn [b_knots b_order b_per1].
  unfold b_start, b_end. cbn [b_knots b_order]. rewrite map_length.
  rewrite (kn_map _ _ _ Hne). rewrite raw_length by lia.
  rewrite !raw_kn by lia.
  replace (uidx p n (p - 1)) with 0%nat by (unfold uidx; lia).
  replace (uidx p n (n + p - p)) with (n - p + 1)%nat by (unfold uidx; lia).
  rewrite !map_map. rewrite raw_list by lia. rewrite map_map.
  apply map_ext. intros i. cbn [nsub ndiv nmul nadd NumR INR].
  assert (INR (n - p + 1) <> 0) by (apply not_0_INR; lia).
  field. lra.
Qed.

Lemma rebuild_knots_length p n t0 t1 : (1 <= p <= n)%nat ->
  length (b_knots (@rebuild_basis R NumR p n t0 t1)) = (n + p)%nat.
Proof. intros H. rewrite rebuild_knots_list by exact H. rewrite map_length, seq_length. reflexivity. Qed.

Lemma rebuild_kn p n t0 t1 i : (1 <= p <= n)%nat -> (i < n + p)%nat ->
  @kn R NumR (b_knots (@rebuild_basis R NumR p n t0 t1)) i = t0 + (t1 - t0) * (INR (uidx p n i) / INR (n - p + 1)).
Proof.
  intros H Hi. rewrite (kn_in _ i) with (d := 0) by (rewrite rebuild_knots_length; assumption).
  rewrite rebuild_knots_list by exact H.
  rewrite (nth_map_gen _ _ i 0 0%nat) by (rewrite seq_length; lia). rewrite seq_nth by lia. reflexivity.
Qed.

Lemma rebuild_order p n t0 t1 : b_order (@rebuild_basis R NumR p n t0 t1) = p.
Proof. reflexivity. Qed.
Lemma rebuild_per1 p n t0 t1 : b_per1 (@rebuild_basis R NumR p n t0 t1) = 0%nat.
Proof. reflexivity. Qed.
Lemma rebuild_nfun p n t0 t1 : (1 <= p <= n)%nat -> @b_nfun R (@rebuild_basis R NumR p n t0 t1) = n.
Proof. intros H. unfold b_nfun. rewrite rebuild_knots_length by exact H. rewrite rebuild_order, rebuild_per1. lia. Qed.

Lemma uidx_frac p n i : (1 <= p <= n)%nat -> 0 <= INR (uidx p n i) / INR (n - p + 1) <= 1.
Proof.
  intros H. assert (P : 0 < INR (n - p + 1)) by (apply lt_0_INR; lia).
  assert (A : 0 <= INR (uidx p n i)) by apply pos_INR.
  assert (B : INR (uidx p n i) <= INR (n - p + 1)) by (apply le_INR; unfold uidx; lia).
  split.
  - apply Rmult_le_pos; [exact A|]. apply Rlt_le, Rinv_0_lt_compat, P.
  - apply (Rmult_le_reg_r (INR (n - p + 1))); [exact P|]. unfold Rdiv. rewrite Rmult_assoc, Rinv_l by lra. lra.
Qed.

(* sorted (t0 <= t1 is enough) *)
Theorem rebuild_sorted p n t0 t1 : (1 <= p <= n)%nat -> t0 <= t1 ->
  sorted (@kn R NumR (b_knots (@rebuild_basis R NumR p n t0 t1))).
Proof.
  intros H Ht. apply sorted_kn_of_nth. intros i j Hij. rewrite rebuild_knots_length in Hij by exact H.
  rewrite <- !(kn_in _ _) by (rewrite rebuild_knots_length by exact H; lia).
  rewrite !rebuild_kn by (try exact H; lia).
  assert (P : 0 < INR (n - p + 1)) by (apply lt_0_INR; lia).
  assert (B : INR (uidx p n i) <= INR (uidx p n j)) by (apply le_INR; unfold uidx; lia).
  apply Rplus_le_compat_l. apply Rmult_le_compat_l; [lra|].
  unfold Rdiv. apply Rmult_le_compat_r; [apply Rlt_le, Rinv_0_lt_compat, P|exact B].
Qed.

(* the first knot is t0 with multiplicity EXACTLY p, the last knot is t1 with multiplicity EXACTLY p *)
Theorem rebuild_first_knot p n t0 t1 i : (1 <= p <= n)%nat -> t0 < t1 -> (i < n + p)%nat ->
  (@kn R NumR (b_knots (@rebuild_basis R NumR p n t0 t1)) i = t0 <-> (i < p)%nat).
Proof.
  intros H Ht Hi. rewrite rebuild_kn by assumption.
  assert (P : 0 < INR (n - p + 1)) by (apply lt_0_INR; lia).
  split.
  - intros E. destruct (lt_dec i p) as [L|L]; [exact L|exfalso].
    assert (U : 0 < INR (uidx p n i)) by (apply lt_0_INR; unfold uidx; lia).
    assert (Q : 0 < INR (uidx p n i) / INR (n - p + 1)) by (apply Rdiv_lt_0_compat; assumption).
    assert (0 < (t1 - t0) * (INR (uidx p n i) / INR (n - p + 1))) by (apply Rmult_lt_0_compat; lra). lra.
  - intros L. replace (uidx p n i) with 0%nat by (unfold uidx; lia). cbn [INR]. unfold Rdiv. lra.
Qed.

Theorem rebuild_last_knot p n t0 t1 i : (1 <= p <= n)%nat -> t0 < t1 -> (i < n + p)%nat ->
  (@kn R NumR (b_knots (@rebuild_basis R NumR p n t0 t1)) i = t1 <-> (n <= i)%nat).
Proof.
  intros H Ht Hi. rewrite rebuild_kn by assumption.
  assert (P : 0 < INR (n - p + 1)) by (apply lt_0_INR; lia).
  split.
  - intros E. destruct (le_dec n i) as [L|L]; [exact L|exfalso].
    assert (U : INR (uidx p n i) + 1 <= INR (n - p + 1)).
    { rewrite <- S_INR. apply le_INR. unfold uidx. lia. }
    assert (Q : INR (uidx p n i) / INR (n - p + 1) < 1).
    { apply (Rmult_lt_reg_r (INR (n - p + 1))); [exact P|]. unfold Rdiv. rewrite Rmult_assoc, Rinv_l by lra. lra. }
    assert ((t1 - t0) * (INR (uidx p n i) / INR (n - p + 1)) < (t1 - t0) * 1) by (apply Rmult_lt_compat_l; lra). lra.
  - intros L. replace (uidx p n i) with (n - p + 1)%nat by (unfold uidx; lia). field. lra.
Qed.

(* start() and end() of the rebuilt basis are t0 and t1 -- for ANY t0, t1 (the END, not the interval length) *)
Theorem rebuild_start p n t0 t1 : (1 <= p <= n)%nat -> @b_start R NumR (@rebuild_basis R NumR p n t0 t1) = t0.
Proof.
  intros H. unfold b_start. rewrite rebuild_order. rewrite rebuild_kn by (try exact H; lia).
  replace (uidx p n (p - 1)) with 0%nat by (unfold uidx; lia). cbn [INR]. unfold Rdiv. lra.
Qed.
Theorem rebuild_end p n t0 t1 : (1 <= p <= n)%nat -> @b_end R NumR (@rebuild_basis R NumR p n t0 t1) = t1.
Proof.
  intros H. unfold b_end. rewrite rebuild_order, rebuild_knots_length by exact H. rewrite rebuild_kn by (try exact H; lia).
  replace (uidx p n (n + p - p)) with (n - p + 1)%nat by (unfold uidx; lia).
  assert (INR (n - p + 1) <> 0) by (apply not_0_INR; lia). field. assumption.
Qed.

(* interior knots: t0 + (t1 - t0) * j / (n-p+1), j = 1 .. n-p, at position p-1+j *)
Theorem rebuild_interior_knot p n t0 t1 j : (1 <= p <= n)%nat -> (1 <= j <= n - p)%nat ->
  @kn R NumR (b_knots (@rebuild_basis R NumR p n t0 t1)) (p - 1 + j) = t0 + (t1 - t0) * (INR j / INR (n - p + 1)).
Proof.
  intros H Hj. rewrite rebuild_kn by (try exact H; lia). replace (uidx p n (p - 1 + j)) with j by (unfold uidx; lia). reflexivity.
Qed.

(* every knot lies in [t0, t1] *)
Theorem rebuild_knots_in_domain p n t0 t1 i : (1 <= p <= n)%nat -> t0 <= t1 -> (i < n + p)%nat ->
  t0 <= @kn R NumR (b_knots (@rebuild_basis R NumR p n t0 t1)) i <= t1.
Proof.
  intros H Ht Hi. rewrite rebuild_kn by assumption. destruct (uidx_frac p n i H) as [A B].
  assert (0 <= (t1 - t0) * (INR (uidx p n i) / INR (n - p + 1))) by (apply Rmult_le_pos; lra).
  assert ((t1 - t0) * (INR (uidx p n i) / INR (n - p + 1)) <= (t1 - t0) * 1) by (apply Rmult_le_compat_l; lra). lra.
Qed.

(* the summary asked for: sorted, length n+p, domain exactly [t0,t1] with end multiplicities p *)
Theorem rebuild_basis_domain p n t0 t1 : (1 <= p <= n)%nat -> t0 < t1 ->
  let b := @rebuild_basis R NumR p n t0 t1 in
  b_order b = p /\ b_per1 b = 0%nat /\ length (b_knots b) = (n + p)%nat /\ @b_nfun R b = n /\
  sorted (@kn R NumR (b_knots b)) /\ @b_start R NumR b = t0 /\ @b_end R NumR b = t1 /\
  (forall i, (i < n + p)%nat -> (@kn R NumR (b_knots b) i = t0 <-> (i < p)%nat)) /\
  (forall i, (i < n + p)%nat -> (@kn R NumR (b_knots b) i = t1 <-> (n <= i)%nat)) /\
  (forall j, (1 <= j <= n - p)%nat -> @kn R NumR (b_knots b) (p - 1 + j) = t0 + (t1 - t0) * (INR j / INR (n - p + 1))).
Proof.
  intros H Ht b. unfold b.
  split; [reflexivity|]. split; [reflexivity|]. split; [apply rebuild_knots_length; exact H|].
  split; [apply rebuild_nfun; exact H|]. split; [apply rebuild_sorted; [exact H|lra]|].
  split; [apply rebuild_start; exact H|]. split; [apply rebuild_end; exact H|].
  split; [intros i Hi; apply rebuild_first_knot; assumption|].
  split; [intros i Hi; apply rebuild_last_knot; assumption|].
  intros j Hj. apply rebuild_interior_knot; assumption.
Qed.

(* ================= 2. shape of the result ================= *)

(* evaluate() returns one coordinate per PHYSICAL dimension, rational or not *)
Lemma obj_eval_length_any tol (o : obj R) ts v :
  0 < tol -> wf_obj_R tol o -> @obj_eval R NumR tol o ts = Ok v -> length v = o_dim o.
Proof.
  intros Htol W Hev. destruct (o_rat o) eqn:Er; [|apply (obj_eval_length tol o ts v Htol W Er Hev)].
  set (o' := mkObj (o_bases o) (o_cps o) (o_dim o + 1) false).
  assert (Enc : @o_ncomp R o' = @o_ncomp R o) by (unfold o_ncomp, o'; cbn [o_dim o_rat]; rewrite Er; lia).
  assert (W' : wf_obj_R tol o').
  { destruct W as (A & B & C). split; [exact A|split]; [rewrite Enc; exact B|exact C]. }
  unfold obj_eval in Hev. destruct (@validate R NumR tol (o_bases o) ts) as [ts'|e] eqn:EV; [|discriminate].
  rewrite Er in Hev. injection Hev as <-.
  assert (L : length (@eval_h R NumR tol o [] [] ts') = (o_dim o + 1)%nat).
  { apply (obj_eval_length tol o' ts _ Htol W' eq_refl). unfold obj_eval. change (o_bases o') with (o_bases o). rewrite EV.
    cbn [o_rat o']. f_equal. unfold eval_h. rewrite Enc. reflexivity. }
  unfold project_rat. cbv zeta. rewrite map_length, firstn_length, L. lia.
Qed.

Section Rebuild.
Variables (tol : R) (o : obj R) (p n : nat) (r : obj R).
Hypothesis Hres : @curve_rebuild R NumR tol o p n = Ok r.
Hypothesis Htol : 0 < tol.
Hypothesis Hwf : wf_obj_R tol o.
Hypothesis Hcurve : @o_pardim R o = 1%nat.
Local Notation b0 := (hd (@dflt_bas R) (o_bases o)).
Local Notation t0 := (@b_start R NumR b0).
Local Notation t1 := (@b_end R NumR b0).
Local Notation b := (@rebuild_basis R NumR p n t0 t1).
Local Notation gs := (@greville_all R NumR b).

Lemma rebuild_range : (2 <= p <= n)%nat.
Proof.
  unfold curve_rebuild in Hres. destruct (Nat.leb_spec 2 p) as [A|A]; destruct (Nat.leb_spec p n) as [B|B];
    cbn [andb negb] in Hres; try discriminate. lia.
Qed.

Lemma rebuild_t0_lt_t1 : t0 < t1.
Proof.
  destruct Hwf as (WB & _ & _). unfold o_pardim in Hcurve.
  destruct (o_bases o) as [|b1 bs]; [cbn in Hcurve; lia|]. cbn [hd].
  inversion WB as [|? ? Hb _]; subst. destruct Hb as (_ & _ & _ & _ & Hd). lra.
Qed.

Lemma rebuild_unfold : exists xs, @eval_all R NumR tol o gs = Ok xs /\ @curve_interpolate R NumR tol b gs xs = Ok r.
Proof.
  pose proof rebuild_range as HR. unfold curve_rebuild in Hres.
  destruct (Nat.leb_spec 2 p) as [A|A]; [|lia]. destruct (Nat.leb_spec p n) as [B|B]; [|lia]. cbn [andb negb] in Hres.
  cbv zeta in Hres. destruct (@eval_all R NumR tol o gs) as [xs|e]; [|discriminate]. exists xs. split; [reflexivity|exact Hres].
Qed.

Lemma rebuild_samples xs : @eval_all R NumR tol o gs = Ok xs ->
  mat n (o_dim o) xs /\ length (hd [] xs) = o_dim o /\
  forall i, (i < n)%nat -> @obj_eval R NumR tol o [nth i gs 0] = Ok (nth i xs []).
Proof.
  intros E. pose proof rebuild_range as HR.
  destruct (eval_all_spec tol o _ xs E) as [L Hx]. rewrite greville_all_length, rebuild_nfun in L, Hx by lia.
  assert (F : Forall (fun row => length row = o_dim o) xs).
  { apply Forall_forall. intros row Hin. destruct (In_nth _ _ [] Hin) as (i & Hi & <-).
    apply (obj_eval_length_any tol o [nth i gs 0]); [exact Htol|exact Hwf|]. apply Hx. lia. }
  split; [split; [exact L|exact F]|]. split; [|exact Hx].
  destruct xs as [|x0 xr]; [cbn in L; lia|]. cbn [hd]. inversion F; assumption.
Qed.

(* the rebuilt object: a non-periodic, non-rational curve of order p with n control points on the uniform open basis
   over the parametric domain [t0,t1] of the original, in the physical dimension of the original *)
Theorem rebuild_shape :
  (2 <= p <= n)%nat /\ o_bases r = [b] /\ o_rat r = false /\ o_dim r = o_dim o /\ mat n (o_dim o) (o_cps r) /\
  b_order b = p /\ b_per1 b = 0%nat /\ @b_nfun R b = n /\ @b_start R NumR b = t0 /\ @b_end R NumR b = t1 /\
  sorted (@kn R NumR (b_knots b)).
Proof.
  pose proof rebuild_range as HR. destruct rebuild_unfold as (xs & E & HI).
  destruct (rebuild_samples xs E) as (Mx & Hhd & _).
  assert (Nf : @b_nfun R b = n) by (apply rebuild_nfun; lia).
  destruct (interp_system tol b gs xs r HI) as (_ & Eb & Ed & Er & Mc).
  - apply greville_all_length.
  - rewrite Nf. lia.
  - rewrite Nf, Hhd. exact Mx.
  - rewrite Nf, Hhd in Mc. rewrite Hhd in Ed.
    repeat split; try assumption; try lia; try (destruct Mc; assumption).
    + apply rebuild_start. lia.
    + apply rebuild_end. lia.
    + apply rebuild_sorted; [lia|]. pose proof rebuild_t0_lt_t1. lra.
Qed.

(* ================= 3. interpolation at the Greville points of the new basis ================= *)
Theorem rebuild_interpolates i : (i < n)%nat ->
  exists q, @obj_eval R NumR tol o [nth i gs 0] = Ok q /\ length q = o_dim o /\
    forall v, @obj_eval R NumR tol r [nth i gs 0] = Ok v -> forall c, (c < o_dim o)%nat -> coord c v = coord c q.
Proof.
  intros Hi. pose proof rebuild_range as HR. destruct rebuild_unfold as (xs & E & HI).
  destruct (rebuild_samples xs E) as (Mx & Hhd & Hx).
  assert (Nf : @b_nfun R b = n) by (apply rebuild_nfun; lia).
  exists (nth i xs []). split; [apply Hx; exact Hi|]. split; [apply (mat_row n _ xs i Mx Hi)|].
  intros v Hv c Hc. unfold coord at 2.
  apply (interp_eval tol b gs xs r HI (greville_all_length b)); try rewrite Nf; try rewrite Hhd; try assumption; try lia.
  apply rebuild_sorted; [lia|]. pose proof rebuild_t0_lt_t1. lra.
Qed.

(* reproduction (collocation form): if the samples of the original at the Greville points are the samples N c0 of a
   spline with control points c0 on the new basis, rebuild returns exactly c0 *)
Theorem rebuild_reproduces_colloc c0 : mat n (o_dim o) c0 ->
  (forall i, (i < n)%nat -> @obj_eval R NumR tol o [nth i gs 0] = Ok (nth i (@matmul R NumR (@colloc R NumR tol b 0 gs) c0) [])) ->
  o_cps r = c0.
Proof.
  intros Mc Hs. pose proof rebuild_range as HR. destruct rebuild_unfold as (xs & E & HI).
  destruct (rebuild_samples xs E) as (Mx & Hhd & Hx).
  assert (Nf : @b_nfun R b = n) by (apply rebuild_nfun; lia).
  apply (interp_projection tol b gs xs r HI (greville_all_length b)); try rewrite Nf; try rewrite Hhd; try assumption; try lia.
  destruct Mx as [Lx Fx].
  apply (nth_ext _ _ [] []).
  - rewrite matmul_length. pose proof (colloc_mat tol b 0 gs) as [LN _]. rewrite LN, greville_all_length, Nf. exact Lx.
  - intros i Hi. rewrite Lx in Hi. specialize (Hx i Hi). rewrite (Hs i Hi) in Hx. injection Hx as Hx. symmetry. exact Hx.
Qed.
End Rebuild.

(* ================= 4. examples on Q (executed model) ================= *)
Definition rbq_tol : Q := (1#100000000000)%Q.
Definition rbq_view (x : res (obj Q)) :=
  match x with
  | Ok r => Some (map Qred (b_knots (hd (mkBasis 0 [] 0%nat) (o_bases r))), map (map Qred) (o_cps r), o_dim r, o_rat r)
  | Err _ => None
  end.

Example rebuild_basis_3_5_quarter_1 :
  map Qred (b_knots (@rebuild_basis Q NumQ 3 5 (1#4)%Q 1%Q)) = [1#4; 1#4; 1#4; 1#2; 3#4; 1; 1; 1]%Q.
Proof. vm_compute. reflexivity. Qed.
Example rebuild_basis_2_3_negative :
  map Qred (b_knots (@rebuild_basis Q NumQ 2 3 (-2)%Q (-1)%Q)) = [-2; -2; -(3#2); -1; -1]%Q.
Proof. vm_compute. reflexivity. Qed.
Example rebuild_basis_2_3_negative_ends :
  (Qred (@b_start Q NumQ (@rebuild_basis Q NumQ 2 3 (-2)%Q (-1)%Q)), Qred (@b_end Q NumQ (@rebuild_basis Q NumQ 2 3 (-2)%Q (-1)%Q))) = (-2, -1)%Q.
Proof. vm_compute. reflexivity. Qed.
Example uniform_open_knots_3_5 :
  map Qred (@uniform_open_knots Q NumQ 3 5) = [0; 0; 0; 1#3; 2#3; 1; 1; 1]%Q.
Proof. vm_compute. reflexivity. Qed.

(* a quadratic Bezier curve on [-2,-1] rebuilt with p = 3, n = 5 (lies in the new space: these are its refined control
   points, as /repo returns them), and a rational quadratic on [1/4, 1] (result non-rational, physical dimension 2) *)
Definition rbq_poly : obj Q := mkObj [mkBasis 3 [-2;-2;-2;-1;-1;-1]%Q 0] [[0;0];[1;0];[1;1]]%Q 2 false.
Definition rbq_rat : obj Q := mkObj [mkBasis 3 [1#4;1#4;1#4;1;1;1]%Q 0] [[0;0;1];[1#2;0;1#2];[1;1;1]]%Q 2 true.
Example rebuild_poly_example :
  rbq_view (@curve_rebuild Q NumQ rbq_tol rbq_poly 3 5)
  = Some ([-2; -2; -2; -(5#3); -(4#3); -1; -1; -1]%Q, [[0;0]; [1#3;0]; [7#9;2#9]; [1;2#3]; [1;1]]%Q, 2%nat, false).
Proof. vm_compute. reflexivity. Qed.
Example rebuild_rat_example_domain :
  match rbq_view (@curve_rebuild Q NumQ rbq_tol rbq_rat 3 5) with
  | Some (k, cp, d, rt) => k = [1#4; 1#4; 1#4; 1#2; 3#4; 1; 1; 1]%Q /\ length cp = 5%nat /\ d = 2%nat /\ rt = false
  | None => False
  end.
Proof. vm_compute. repeat split. Qed.
Example rebuild_bad_orders :
  (@curve_rebuild Q NumQ rbq_tol rbq_poly 1 3, @curve_rebuild Q NumQ rbq_tol rbq_poly 4 3) = (Err ValueError, Err ValueError).
Proof. vm_compute. reflexivity. Qed.

Print Assumptions rebuild_knots_list.
Print Assumptions rebuild_basis_domain.
Print Assumptions rebuild_knots_in_domain.
Print Assumptions rebuild_shape.
Print Assumptions rebuild_interpolates.
Print Assumptions rebuild_reproduces_colloc.
Print Assumptions rebuild_poly_example.

(* evaluate() of a non-rational curve with control points c0 on basis b at t_i is row i of N c0 *)
Lemma curve_eval_is_colloc_row tol (b : basis R) ts c0 dim i v :
  sorted (@kn R NumR (b_knots b)) -> 0 < tol -> length ts = @b_nfun R b -> (0 < @b_nfun R b)%nat ->
  mat (@b_nfun R b) dim c0 -> (i < @b_nfun R b)%nat ->
  @obj_eval R NumR tol (mkObj [b] c0 dim false) [nth i ts 0] = Ok v ->
  v = nth i (@matmul R NumR (@colloc R NumR tol b 0 ts) c0) [].
Proof.
  intros HK Htol Hs Hn Mc Hi Hev.
  pose proof (colloc_mat tol b 0 ts) as HN. rewrite Hs in HN.
  unfold obj_eval in Hev. cbn [o_bases validate hd tl] in Hev.
  destruct (@validate1 R NumR tol b (nth i ts 0)) as [t'|e] eqn:EV; [|discriminate].
  assert (Et' : t' = @snap1 R NumR (b_knots b) tol (nth i ts 0)).
  { unfold validate1 in EV. cbv zeta in EV. destruct (_ && _); [discriminate|]. injection EV as <-. reflexivity. }
  cbn [o_rat] in Hev. injection Hev as <-.
  unfold eval_h, rows_at, o_ncomp. cbn [o_bases o_dim o_rat o_cps length seq map nth]. rewrite Nat.add_0_r.
  rewrite Et'. rewrite <- (colloc_row tol b 0 ts i HK Htol) by lia.
  pose proof (mat_row _ _ _ i HN Hi) as Lrow.
  pose proof (matmul_mat _ _ dim _ c0 HN Mc Hn) as MM.
  destruct Mc as [Lc Fc].
  apply (nth_ext _ _ 0 0).
  - rewrite (mat_row _ _ _ i MM Hi). apply teval_length. split; [exact Fc|]. cbn [map]. rewrite Lrow, Lc. unfold prodl. cbn. lia.
  - intros c Hc. rewrite teval_length in Hc by (split; [exact Fc|]; cbn [map]; rewrite Lrow, Lc; unfold prodl; cbn; lia).
    change (nth c (@teval R NumR dim [nth i (@colloc R NumR tol b 0 ts) []] c0) 0)
      with (coord c (@teval R NumR dim [nth i (@colloc R NumR tol b 0 ts) []] c0)).
    rewrite teval_curve; [|exact Fc|rewrite Lrow; exact Lc|exact Hc].
    rewrite (matmul_row_lc _ _ dim _ c0 i c HN (conj Lc Fc) Hn Hi Hc). reflexivity.
Qed.

(* reproduction: a curve that agrees at the Greville points of the new basis with a spline s = (new basis, c0) of the new
   spline space (in particular a curve that IS such a spline after reparametrisation-free refinement) is rebuilt as s *)
Theorem rebuild_reproduces tol (o : obj R) p n r c0 :
  @curve_rebuild R NumR tol o p n = Ok r -> 0 < tol -> wf_obj_R tol o -> @o_pardim R o = 1%nat ->
  let b0 := hd (@dflt_bas R) (o_bases o) in
  let b := @rebuild_basis R NumR p n (@b_start R NumR b0) (@b_end R NumR b0) in
  mat n (o_dim o) c0 ->
  (forall i, (i < n)%nat -> exists q, @obj_eval R NumR tol o [nth i (@greville_all R NumR b) 0] = Ok q /\
                                   @obj_eval R NumR tol (mkObj [b] c0 (o_dim o) false) [nth i (@greville_all R NumR b) 0] = Ok q) ->
  o_cps r = c0.
Proof.
  intros Hres Htol Hwf Hcurve b0 b Mc Hs.
  assert (HR : (2 <= p <= n)%nat) by (eapply rebuild_range; eauto).
  assert (Ht : @b_start R NumR b0 < @b_end R NumR b0) by (eapply rebuild_t0_lt_t1; eauto).
  assert (Nf : @b_nfun R b = n) by (apply rebuild_nfun; lia).
  eapply rebuild_reproduces_colloc; eauto.
  intros i Hi. destruct (Hs i Hi) as (q & A & B). fold b0. fold b. rewrite A. f_equal.
  apply (curve_eval_is_colloc_row tol b _ c0 (o_dim o) i q); try rewrite Nf; try assumption; try lia.
  - apply rebuild_sorted; [lia|]. lra.
  - rewrite greville_all_length. exact Nf.
Qed.
Print Assumptions rebuild_reproduces.
Check rebuild_shape. Check rebuild_interpolates. Check rebuild_reproduces_colloc.
