(* C07, the REPAIRED SplineObject.split (Model/SplitSnap.v): a splitting value x for which BSplineBasis.continuity sees an
   existing knot (a knot in the window [x - tol, x + tol), found with the same two bisections) is replaced by that knot
   ([snap_to_knot]) before the old routine ([obj_split], Model/Split.v) runs.

   The defect of the old routine: a value within the tolerance of a knot but not EQUAL to it (0.1 + 0.2 next to the knot
   0.3) is counted by continuity() as that knot (so only  order - 1 - multiplicity  copies of it are inserted), while
   the index arithmetic uses bisect on the exact value: the pieces returned do not tile the domain (Example
   [old_split_defect] below, machine-checked on the faithful model of the old code).

   Contents
   0. [snap_to_knot_spec]: the result is the SMALLEST knot of the window, or x itself when the window holds no knot;
      [snap_to_knot_bisect] / [snap_to_knot_continuity]: in terms of the two bisections of continuity();
      [snapped_knot_sep]: when distinct knot values differ by more than tol ([separated]), every snapped value satisfies
      the asymmetric hypothesis [knot_sep] of the old theorems AUTOMATICALLY.
   a. [snap_split_values_id]: on the inputs of the old theorems the repaired routine IS the old one; the old end-to-end
      theorems re-stated for [obj_split_snapped] (non-periodic: ok / length / tiling / evaluate; periodic).
   b. the new content: [snapped_split_nonperiodic] (hypotheses only on the knot vector and on the spacing of the snapped
      values), [snapped_split_nonperiodic_raw] (spacing 4*tol of the raw values), [snapped_split_at_knot] ("a split value
      within the tolerance of a knot splits AT that knot"), [snapped_split_periodic_any], and [periodic_resnap_id] (the
      recursive call of the periodic branch snaps again in Python: that second snap is the identity).
   c./d. Examples on R and, by computation, on Q. *)
From Coq Require Import List Arith Reals Lra Lia Bool ZArith Sorted Permutation QArith.
From SplipyModel Require Import Spec.BSpline Model.Num Model.BasisDef Model.BasisEval Model.Tensor Model.Obj
  Model.KnotInsert Model.Tol Model.Split Model.SplitSnap Model.Knots
  Proofs.KnotList Proofs.SpanCorrect Proofs.EvaluateSpec Proofs.SnapSpec Proofs.SnapChar Proofs.ObjEval Proofs.InsertEndToEnd Proofs.TolProofs
  Proofs.SplitTiling Proofs.SplitEndToEnd Proofs.SplitCompose Proofs.PeriodicInsert Proofs.PeriodicSplit.
From SplipyModel Require Proofs.RaiseAmount.
Import ListNotations.
Open Scope R_scope.

(* distinct knot values differ by more than the tolerance (Proofs/RaiseAmount.v) *)
Notation separated := SplipyModel.Proofs.RaiseAmount.separated.

(* no knot in the window [x - tol, x + tol) that continuity() counts *)
Definition window_free (tol : R) (k : list R) (x : R) : Prop := forall v, In v k -> v < x - tol \/ x + tol <= v.

(* ---------------------------------------------------------------------------------------------------------- *)
(* 0. snap_to_knot                                                                                             *)
Section SnapToKnot.
Variable k : list R.
Hypothesis HK : sorted (@kn R NumR k).
Variable tol : R.
Local Notation K := (@kn R NumR k).
Local Notation snap := (@snap_to_knot R NumR k tol).

Theorem snap_to_knot_spec x :
  (exists i, (i < length k)%nat /\ snap x = K i /\ x - tol <= K i < x + tol /\
             (forall v, In v k -> x - tol <= v -> K i <= v)) \/
  (snap x = x /\ window_free tol k x).
Proof.
  unfold snap_to_knot, py_bisect_left. cbv zeta. cbn [nsub nadd nltb NumR].
  destruct (bisect_left_spec K HK (x - tol) (length k)) as (A & Bm & Cm). cbv zeta in *.
  set (lo := @bisect_left R NumR K (x - tol) (length k)) in *.
  destruct (Nat.ltb_spec lo (length k)) as [L|L]; cbn [andb].
  - destruct (Rltb_spec (K lo) (x + tol)) as [E|E].
    + left. exists lo. split; [exact L|]. split; [reflexivity|]. split; [split; [apply Cm; lia|exact E]|].
      intros v Hv Hge. destruct (In_nth k v 0 Hv) as (j & Hj & Ej). rewrite <- (kn_in k j Hj 0) in Ej. subst v.
      destruct (Nat.lt_ge_cases j lo) as [J|J]; [pose proof (Bm j J); lra|apply HK; exact J].
    + right. split; [reflexivity|]. intros v Hv.
      destruct (In_nth k v 0 Hv) as (j & Hj & Ej). rewrite <- (kn_in k j Hj 0) in Ej. subst v.
      destruct (Nat.lt_ge_cases j lo) as [J|J]; [left; apply Bm; exact J|right]. pose proof (HK lo j J). lra.
  - right. split; [reflexivity|]. intros v Hv.
    destruct (In_nth k v 0 Hv) as (j & Hj & Ej). rewrite <- (kn_in k j Hj 0) in Ej. subst v.
    left. apply Bm. lia.
Qed.

(* the result is a knot value, or x itself with an empty window *)
Lemma snap_to_knot_in_or_free x : In (snap x) k \/ (snap x = x /\ window_free tol k x).
Proof.
  destruct (snap_to_knot_spec x) as [(i & Hi & E & _)|F]; [left; rewrite E; apply kn_In'; exact Hi|right; exact F].
Qed.

(* the splitting value moves by at most tol *)
Lemma snap_to_knot_moves x : 0 <= tol -> Rabs (snap x - x) <= tol.
Proof.
  intros Ht. destruct (snap_to_knot_spec x) as [(i & Hi & E & W & _)|[E _]]; rewrite E.
  - unfold Rabs. destruct (Rcase_abs (K i - x)); lra.
  - replace (x - x) with 0 by ring. rewrite Rabs_R0. exact Ht.
Qed.

(* the inputs of the old theorems are not moved *)
Lemma snap_to_knot_sep x : knot_sep tol k x -> snap x = x.
Proof.
  intros Hsep. destruct (snap_to_knot_spec x) as [(i & Hi & E & W & _)|[E _]]; [|exact E].
  rewrite E. destruct (Hsep _ (kn_In' k i Hi)) as [Q|[L|L]]; [exact Q|lra|lra].
Qed.

(* a value with exactly one knot value kappa in its window becomes kappa *)
Definition only_in_window (x kappa : R) : Prop :=
  In kappa k /\ x - tol <= kappa < x + tol /\ forall v, In v k -> v = kappa \/ v < x - tol \/ x + tol <= v.

Lemma snap_to_knot_only x kappa : only_in_window x kappa -> snap x = kappa.
Proof.
  intros (Ik & W & U). destruct (snap_to_knot_spec x) as [(i & Hi & E & Wi & _)|[_ F]].
  - rewrite E. destruct (U _ (kn_In' k i Hi)) as [Q|[L|L]]; [exact Q|lra|lra].
  - exfalso. destruct (F kappa Ik); lra.
Qed.

(* (i) when does the value stay?  exactly when its window is empty or it is itself the smallest knot of the window *)
Theorem snap_to_knot_id_iff x : 0 < tol ->
  (snap x = x <-> (window_free tol k x \/ (In x k /\ forall v, In v k -> x - tol <= v -> x <= v))).
Proof.
  intros Htol. split.
  - intros Es. destruct (snap_to_knot_spec x) as [(i & Hi & E & W & M)|[_ F]]; [right|left; exact F].
    rewrite Es in E. split; [rewrite E; apply kn_In'; exact Hi|].
    intros v Hv Hge. pose proof (M v Hv Hge). lra.
  - intros [F|[Ix M]].
    + destruct (snap_to_knot_spec x) as [(i & Hi & E & W & _)|[E _]]; [|exact E].
      exfalso. destruct (F _ (kn_In' k i Hi)); lra.
    + destruct (snap_to_knot_spec x) as [(i & Hi & E & W & Mi)|[_ F]].
      * rewrite E. pose proof (M _ (kn_In' k i Hi) ltac:(lra)). pose proof (Mi x Ix ltac:(lra)). lra.
      * exfalso. destruct (F x Ix); lra.
Qed.

(* in terms of the two bisections of BSplineBasis.continuity *)
Theorem snap_to_knot_bisect x : 0 < tol ->
  let hi := @py_bisect_left R NumR k (x + tol) in
  let lo := @py_bisect_left R NumR k (x - tol) in
  snap x = (if (hi =? lo)%nat then x else K lo) /\ ((hi = lo)%nat <-> window_free tol k x).
Proof.
  intros Htol. destruct (continuity_window k x tol HK Htol) as (W1 & W2). cbv zeta in *.
  set (hi := @py_bisect_left R NumR k (x + tol)) in *. set (lo := @py_bisect_left R NumR k (x - tol)) in *.
  assert (Hfree : (hi = lo)%nat <-> window_free tol k x).
  { split.
    - intros E v Hv. destruct (In_nth k v 0 Hv) as (j & Hj & Ej). rewrite <- (kn_in k j Hj 0) in Ej. subst v.
      destruct (Rlt_le_dec (K j) (x - tol)) as [A|A]; [left; exact A|right].
      destruct (Rlt_le_dec (K j) (x + tol)) as [B|B]; [|exact B].
      pose proof (proj2 (W2 j Hj) (conj A B)). lia.
    - intros F. destruct (Nat.eq_dec hi lo) as [E|Ne]; [exact E|exfalso].
      assert (Hlo : (lo < length k)%nat) by lia.
      pose proof (proj1 (W2 lo Hlo) ltac:(lia)) as Wl. destruct (F _ (kn_In' k lo Hlo)); lra. }
  split; [|exact Hfree].
  unfold snap_to_knot. cbv zeta. cbn [nsub nadd nltb NumR]. fold lo.
  destruct (Nat.eqb_spec hi lo) as [E|Ne].
  - destruct (Nat.ltb_spec lo (length k)) as [L|L]; cbn [andb]; [|reflexivity].
    destruct (Rltb_spec (K lo) (x + tol)) as [B|B]; [|reflexivity].
    exfalso. destruct (proj1 Hfree E _ (kn_In' k lo L)) as [A|A]; [|lra].
    unfold lo, py_bisect_left in A.
    destruct (bisect_left_spec K HK (x - tol) (length k)) as (_ & _ & Cm). cbv zeta in Cm.
    pose proof (Cm _ (conj (le_n _) L)). unfold lo, py_bisect_left in A. lra.
  - assert (Hlo : (lo < length k)%nat) by lia.
    pose proof (proj1 (W2 lo Hlo) ltac:(lia)) as Wl.
    destruct (Nat.ltb_spec lo (length k)) as [L|L]; [|lia]. cbn [andb].
    destruct (Rltb_spec (K lo) (x + tol)) as [B|B]; [reflexivity|lra].
Qed.

(* ---- with separated knot values ---- *)
Hypothesis Htol : 0 < tol.
Hypothesis Hsepk : separated tol k.

Lemma separated_knot_sep v : In v k -> knot_sep tol k v.
Proof.
  intros Iv w Hw. destruct (Hsepk v w Iv Hw) as [E|L]; [left; symmetry; exact E|right].
  revert L. unfold Rabs. destruct (Rcase_abs (v - w)); intros L; [right|left]; lra.
Qed.

(* (ii) every snapped value satisfies the hypothesis of the old theorems *)
Theorem snapped_knot_sep x : knot_sep tol k (snap x).
Proof.
  destruct (snap_to_knot_in_or_free x) as [I|[E F]]; [apply separated_knot_sep; exact I|].
  rewrite E. intros v Hv. right. exact (F v Hv).
Qed.

Lemma snap_to_knot_member v : In v k -> snap v = v.
Proof. intros Iv. apply snap_to_knot_sep, separated_knot_sep, Iv. Qed.

Theorem snap_to_knot_idem x : snap (snap x) = snap x.
Proof. apply snap_to_knot_sep, snapped_knot_sep. Qed.
End SnapToKnot.

(* a knot value at distance >= 2*tol from every other knot value *)
Definition isolated (tol : R) (k : list R) (kappa : R) : Prop :=
  forall v, In v k -> v = kappa \/ 2 * tol <= Rabs (v - kappa).

Lemma isolated_knot_sep tol k kappa : 0 < tol -> isolated tol k kappa -> knot_sep tol k kappa.
Proof.
  intros Htol Hi v Hv. destruct (Hi v Hv) as [E|L]; [left; exact E|right].
  revert L. unfold Rabs. destruct (Rcase_abs (v - kappa)); intros L; [left|right]; lra.
Qed.

Lemma isolated_only_in_window tol k x kappa : In kappa k -> x - tol <= kappa < x + tol -> isolated tol k kappa ->
  only_in_window k tol x kappa.
Proof.
  intros Ik W Hi. split; [exact Ik|]. split; [exact W|]. intros v Hv. destruct (Hi v Hv) as [E|L]; [left; exact E|right].
  revert L. unfold Rabs. destruct (Rcase_abs (v - kappa)); intros L; [left|right]; lra.
Qed.

(* a value within the tolerance of an isolated knot (including the boundary point kappa + tol) becomes that knot *)
Theorem snap_to_knot_near tol k x kappa : sorted (@kn R NumR k) ->
  In kappa k -> x - tol <= kappa < x + tol -> isolated tol k kappa -> @snap_to_knot R NumR k tol x = kappa.
Proof. intros HK Ik W Hi. apply snap_to_knot_only; [exact HK|]. apply isolated_only_in_window; assumption. Qed.

(* what continuity() answers and what the snap does, on a non-periodic basis, x inside the domain *)
Theorem snap_to_knot_continuity tol p k x : sorted (@kn R NumR k) -> 0 < tol ->
  @kn R NumR k (p - 1) <= x <= @kn R NumR k (length k - p) ->
  (@basis_continuity R NumR tol (mkBasis p k 0) x = Ok None <-> window_free tol k x) /\
  (@basis_continuity R NumR tol (mkBasis p k 0) x = Ok None -> @snap_to_knot R NumR k tol x = x) /\
  (@basis_continuity R NumR tol (mkBasis p k 0) x <> Ok None ->
     In (@snap_to_knot R NumR k tol x) k /\ x - tol <= @snap_to_knot R NumR k tol x < x + tol).
Proof.
  intros HK Htol Hx.
  destruct (snap_to_knot_bisect k HK tol x Htol) as (Eb & Hfree). cbv zeta in Eb, Hfree.
  set (hi := @py_bisect_left R NumR k (x + tol)) in *. set (lo := @py_bisect_left R NumR k (x - tol)) in *.
  assert (Ec : @basis_continuity R NumR tol (mkBasis p k 0) x
    = if (hi =? lo)%nat then Ok None else Ok (Some (Z.of_nat p - (Z.of_nat hi - Z.of_nat lo) - 1)%Z)).
  { unfold basis_continuity, b_start, b_end. cbn [b_per1 b_order b_knots Nat.eqb negb andb]. cbn [nltb nadd nsub NumR].
    destruct (Rltb_spec x (@kn R NumR k (p - 1))) as [A|A]; [lra|].
    destruct (Rltb_spec (@kn R NumR k (length k - p)) x) as [B|B]; [lra|]. cbn [orb]. reflexivity. }
  rewrite Ec.
  destruct (Nat.eqb_spec hi lo) as [E|Ne].
  - split; [split; [intros _; apply Hfree; exact E|reflexivity]|]. split; [intros _; exact Eb|]. intros C. exfalso. apply C. reflexivity.
  - split; [split; [discriminate|intros F; exfalso; apply Ne, Hfree, F]|]. split; [discriminate|]. intros _.
    destruct (snap_to_knot_spec k HK tol x) as [(i & Hi & E & W & _)|[_ F]].
    + rewrite E. split; [apply kn_In'; exact Hi|exact W].
    + exfalso. apply Ne, Hfree, F.
Qed.

(* ---------------------------------------------------------------------------------------------------------- *)
(* snap_split_values on the model object                                                                       *)
Lemma snap_split_values_eq tol (o : obj R) d p k per1 ks :
  nth d (o_bases o) dflt_basis = mkBasis p k per1 ->
  @snap_split_values R NumR tol o d ks = map (@snap_to_knot R NumR k tol) ks.
Proof. intros Hb. unfold snap_split_values. change (@mkBasis R 0 [] 0) with dflt_basis. rewrite Hb. reflexivity. Qed.

Lemma snap_split_values_length tol (o : obj R) d ks : length (@snap_split_values R NumR tol o d ks) = length ks.
Proof. unfold snap_split_values. apply map_length. Qed.

(* ---------------------------------------------------------------------------------------------------------- *)
(* a. on the inputs of the old theorems nothing changes                                                        *)
Theorem snap_split_values_id tol (o : obj R) d ks :
  wf_obj_R tol o -> (d < length (o_bases o))%nat ->
  Forall (knot_sep tol (b_knots (nth d (o_bases o) dflt_basis))) ks ->
  @snap_split_values R NumR tol o d ks = ks.
Proof.
  intros Hwf Hd Hsep. destruct (bd_wf tol o Hwf d Hd) as (HK & _).
  unfold snap_split_values. change (@mkBasis R 0 [] 0) with dflt_basis.
  rewrite <- (map_id ks) at 2. apply map_ext_in. intros x Hx. rewrite Forall_forall in Hsep.
  apply snap_to_knot_sep; [exact HK|apply Hsep; exact Hx].
Qed.

Theorem obj_split_snapped_id fuel tol (o : obj R) d ks :
  wf_obj_R tol o -> (d < length (o_bases o))%nat ->
  Forall (knot_sep tol (b_knots (nth d (o_bases o) dflt_basis))) ks ->
  @obj_split_snapped R NumR fuel tol o d ks = @obj_split R NumR fuel tol o d ks.
Proof. intros Hwf Hd Hsep. unfold obj_split_snapped. rewrite (snap_split_values_id tol o d ks Hwf Hd Hsep). reflexivity. Qed.

(* the non-periodic end-to-end theorems of Proofs/SplitCompose.v, same hypotheses, for the repaired routine *)
Section OldInputs.
Variables (tol : R) (o : obj R) (d p : nat) (k ks : list R).
Hypothesis H : split_hyps tol o d p k ks.

Lemma snapped_eq_old fuel : @obj_split_snapped R NumR fuel tol o d ks = @obj_split R NumR fuel tol o d ks.
Proof.
  apply obj_split_snapped_id; [exact (sh_wf _ _ _ _ _ _ H)|exact (sh_dir _ _ _ _ _ _ H)|].
  rewrite (sh_basis _ _ _ _ _ _ H). cbn [b_knots]. exact (sh_sep _ _ _ _ _ _ H).
Qed.

Theorem snapped_split_ok fuel : (1 <= fuel)%nat -> exists pieces, @obj_split_snapped R NumR fuel tol o d ks = Ok pieces.
Proof. rewrite snapped_eq_old. exact (obj_split_ok tol o d p k ks H fuel). Qed.

Theorem snapped_split_length fuel pieces :
  @obj_split_snapped R NumR fuel tol o d ks = Ok pieces -> length pieces = S (length ks).
Proof. rewrite snapped_eq_old. exact (split_length tol o d p k ks H fuel pieces). Qed.

Theorem snapped_split_tiling fuel pieces : @obj_split_snapped R NumR fuel tol o d ks = Ok pieces ->
  forall j, (j <= length ks)%nat ->
    let pj := nth j pieces o in let bj := nth d (o_bases pj) dflt_basis in
    wf_obj_R tol pj /\ length (o_bases pj) = length (o_bases o) /\
    (forall i, i <> d -> nth i (o_bases pj) dflt_basis = nth i (o_bases o) dflt_basis) /\
    b_order bj = p /\ b_per1 bj = 0%nat /\
    @b_start R NumR bj = nth j (ends p k ks) 0 /\ @b_end R NumR bj = nth (S j) (ends p k ks) 0 /\
    nth j (ends p k ks) 0 + 2 * tol <= nth (S j) (ends p k ks) 0.
Proof. rewrite snapped_eq_old. exact (split_tiling tol o d p k ks H fuel pieces). Qed.

Theorem snapped_split_then_evaluate fuel pieces : @obj_split_snapped R NumR fuel tol o d ks = Ok pieces ->
  forall j ts, (j <= length ks)%nat -> piece_param tol o d p k ks j ts ->
  @obj_eval R NumR tol (nth j pieces o) ts = @obj_eval R NumR tol o ts.
Proof. rewrite snapped_eq_old. exact (split_then_evaluate tol o d p k ks H fuel pieces). Qed.
End OldInputs.

(* the periodic theorems of Proofs/PeriodicSplit.v, same hypotheses, for the repaired routine *)
Lemma snapped_eq_old_periodic tol (o : obj R) d p per1 n T k x0 rest fuel :
  psplit_hyps tol o d p per1 n T k x0 rest ->
  @obj_split_snapped R NumR fuel tol o d (x0 :: rest) = @obj_split R NumR fuel tol o d (x0 :: rest).
Proof.
  intros H. apply obj_split_snapped_id; [exact (ph_wf _ _ _ _ _ _ _ _ _ _ H)|exact (ph_dir _ _ _ _ _ _ _ _ _ _ H)|].
  rewrite (ph_basis _ _ _ _ _ _ _ _ _ _ H). cbn [b_knots]. exact (ph_sep _ _ _ _ _ _ _ _ _ _ H).
Qed.

Theorem snapped_split_periodic tol (o : obj R) d p per1 n T k x0 rest fuel :
  psplit_hyps tol o d p per1 n T k x0 rest -> (2 <= fuel)%nat ->
  exists pieces, @obj_split_snapped R NumR fuel tol o d (x0 :: rest) = Ok pieces /\ length pieces = S (length rest) /\
    forall j, (j <= length rest)%nat ->
      let pj := nth j pieces o in let bj := nth d (o_bases pj) dflt_basis in
      wf_obj_R tol pj /\ length (o_bases pj) = length (o_bases o) /\
      (forall i, i <> d -> nth i (o_bases pj) dflt_basis = nth i (o_bases o) dflt_basis) /\
      b_order bj = p /\ b_per1 bj = 0%nat /\
      @b_start R NumR bj = nth j (pends x0 T rest) 0 /\ @b_end R NumR bj = nth (S j) (pends x0 T rest) 0 /\
      nth j (pends x0 T rest) 0 + 2 * tol <= nth (S j) (pends x0 T rest) 0 /\
      forall ts, ppiece_param tol o d p per1 n T k x0 rest j ts -> @obj_eval R NumR tol pj ts = @obj_eval R NumR tol o ts.
Proof.
  intros H Hf. rewrite (snapped_eq_old_periodic tol o d p per1 n T k x0 rest fuel H).
  exact (obj_split_periodic tol o d p per1 n T k x0 rest fuel H Hf).
Qed.

Theorem snapped_split_periodic_single tol (o : obj R) d p per1 n T k x fuel :
  psplit_hyps tol o d p per1 n T k x [] -> (1 <= fuel)%nat ->
  exists o1, @obj_split_snapped R NumR fuel tol o d [x] = Ok [o1] /\
    wf_obj_R tol o1 /\ length (o_bases o1) = length (o_bases o) /\
    (forall i, i <> d -> nth i (o_bases o1) dflt_basis = nth i (o_bases o) dflt_basis) /\
    let b1 := nth d (o_bases o1) dflt_basis in
    b_order b1 = p /\ b_per1 b1 = 0%nat /\ @b_start R NumR b1 = x /\ @b_end R NumR b1 = x + T /\
    forall ts,
      (forall i, (i < length (o_bases o))%nat -> i <> d -> in_dom tol (nth i (o_bases o) dflt_basis) (nth i ts 0)) ->
      x <= nth d ts 0 < x + T ->
      per_param_ok tol k per1 n T [x] (nth d ts 0) ->
      (nth d ts 0 = @kn R NumR k (n + per1) -> (mult k (@kn R NumR k (p - 1)) <= p - 1)%nat) ->
      @obj_eval R NumR tol o1 ts = @obj_eval R NumR tol o ts.
Proof.
  intros H Hf. rewrite (snapped_eq_old_periodic tol o d p per1 n T k x [] fuel H).
  exact (split_periodic_single tol o d p per1 n T k x fuel H Hf).
Qed.

(* ---------------------------------------------------------------------------------------------------------- *)
(* b. the new content: ANY splitting values                                                                    *)
Lemma Sorted_gap_map (f : R -> R) tol l : (forall y, In y l -> Rabs (f y - y) <= tol) ->
  Sorted (gap (2 * tol)) l -> Sorted (gap tol) (map f l).
Proof.
  intros Hf HS. induction HS as [|a l HS IH HR]; [constructor|].
  cbn [map]. constructor.
  - apply IH. intros y Hy. apply Hf. right. exact Hy.
  - destruct HR as [|b l' G]; cbn [map]; constructor.
    unfold gap in *. pose proof (Hf a (or_introl eq_refl)) as A. pose proof (Hf b (or_intror (or_introl eq_refl))) as B.
    revert A B. unfold Rabs. destruct (Rcase_abs (f a - a)); destruct (Rcase_abs (f b - b)); intros; lra.
Qed.

Section AnyValues.
Variables (tol : R) (o : obj R) (d p : nat) (k ks : list R).
Hypothesis Htol : 0 < tol.
Hypothesis Hwf : wf_obj_R tol o.
Hypothesis Hd : (d < length (o_bases o))%nat.
(* direction d is non-periodic, of order p, with knot list k *)
Hypothesis Hb : nth d (o_bases o) dflt_basis = mkBasis p k 0.
(* the knot vector: distinct knot values differ by more than tol, no knot of multiplicity above the order *)
Hypothesis Hsepk : separated tol k.
Hypothesis Hmultk : forall v, (mult k v <= p)%nat.
Local Notation snap := (@snap_to_knot R NumR k tol).

Lemma av_basis_facts : sorted (@kn R NumR k) /\ (1 <= p)%nat /\ (2 * p <= length k)%nat.
Proof.
  destruct (bd_wf tol o Hwf d Hd) as (A & B & C & _). rewrite Hb in A, B, C. cbn [b_knots b_order] in *. repeat split; assumption.
Qed.

Lemma av_st_in : In (st p k) k.
Proof. destruct av_basis_facts as (_ & Hp & Hlen). unfold st. apply kn_In'. lia. Qed.
Lemma av_en_in : In (en p k) k.
Proof. destruct av_basis_facts as (_ & Hp & Hlen). unfold en. apply kn_In'. lia. Qed.

(* the hypotheses of the old theorems hold for the snapped values as soon as these are spaced *)
Lemma snapped_hyps : Sorted (gap tol) (st p k :: map snap ks ++ [en p k]) -> split_hyps tol o d p k (map snap ks).
Proof.
  intros Hsp. destruct av_basis_facts as (HK & _). constructor.
  - exact Htol.
  - exact Hwf.
  - exact Hd.
  - exact Hb.
  - exact Hsp.
  - apply Forall_forall. intros y Hy. apply in_map_iff in Hy. destruct Hy as (x & <- & _).
    apply snapped_knot_sep; assumption.
  - apply Forall_forall. intros y _. apply Hmultk.
Qed.

(* raw values spaced by 4*tol (and 4*tol inside the domain) give snapped values spaced by 2*tol *)
Lemma raw_spaced : Sorted (gap (2 * tol)) (st p k :: ks ++ [en p k]) -> Sorted (gap tol) (st p k :: map snap ks ++ [en p k]).
Proof.
  intros Hsp. destruct av_basis_facts as (HK & _).
  pose proof (Sorted_gap_map snap tol _ (fun y _ => snap_to_knot_moves k HK tol y (Rlt_le _ _ Htol)) Hsp) as S.
  cbn [map] in S. rewrite map_app in S. cbn [map] in S.
  rewrite (snap_to_knot_member k HK tol Hsepk _ av_st_in), (snap_to_knot_member k HK tol Hsepk _ av_en_in) in S. exact S.
Qed.

(* THE END-TO-END THEOREM OF THE REPAIRED ROUTINE, non-periodic direction: whatever the splitting values are, if their
   snapped images together with the ends of the domain increase with gaps >= 2*tol, split returns S (length ks) pieces
   tiling [start, end] AT THE SNAPPED VALUES, each well formed and evaluating to the original on its interval (same
   exclusions as in the old theorem).  No per-value tolerance hypothesis. *)
Theorem snapped_split_nonperiodic fuel :
  Sorted (gap tol) (st p k :: map snap ks ++ [en p k]) -> (1 <= fuel)%nat ->
  exists pieces, @obj_split_snapped R NumR fuel tol o d ks = Ok pieces /\ length pieces = S (length ks) /\
    forall j, (j <= length ks)%nat ->
      let pj := nth j pieces o in let bj := nth d (o_bases pj) dflt_basis in
      wf_obj_R tol pj /\ length (o_bases pj) = length (o_bases o) /\
      (forall i, i <> d -> nth i (o_bases pj) dflt_basis = nth i (o_bases o) dflt_basis) /\
      b_order bj = p /\ b_per1 bj = 0%nat /\
      @b_start R NumR bj = nth j (ends p k (map snap ks)) 0 /\ @b_end R NumR bj = nth (S j) (ends p k (map snap ks)) 0 /\
      nth j (ends p k (map snap ks)) 0 + 2 * tol <= nth (S j) (ends p k (map snap ks)) 0 /\
      forall ts, piece_param tol o d p k (map snap ks) j ts -> @obj_eval R NumR tol pj ts = @obj_eval R NumR tol o ts.
Proof.
  intros Hsp Hf. pose proof (snapped_hyps Hsp) as H.
  destruct (obj_split_nonperiodic tol o d p k (map snap ks) H fuel Hf) as (pieces & E & L & P).
  rewrite map_length in L, P.
  exists pieces. split; [|split; [exact L|exact P]].
  unfold obj_split_snapped. rewrite (snap_split_values_eq tol o d p k 0 ks Hb). exact E.
Qed.

Corollary snapped_split_nonperiodic_raw fuel :
  Sorted (gap (2 * tol)) (st p k :: ks ++ [en p k]) -> (1 <= fuel)%nat ->
  exists pieces, @obj_split_snapped R NumR fuel tol o d ks = Ok pieces /\ length pieces = S (length ks) /\
    forall j, (j <= length ks)%nat ->
      let pj := nth j pieces o in let bj := nth d (o_bases pj) dflt_basis in
      wf_obj_R tol pj /\ length (o_bases pj) = length (o_bases o) /\
      (forall i, i <> d -> nth i (o_bases pj) dflt_basis = nth i (o_bases o) dflt_basis) /\
      b_order bj = p /\ b_per1 bj = 0%nat /\
      @b_start R NumR bj = nth j (ends p k (map snap ks)) 0 /\ @b_end R NumR bj = nth (S j) (ends p k (map snap ks)) 0 /\
      nth j (ends p k (map snap ks)) 0 + 2 * tol <= nth (S j) (ends p k (map snap ks)) 0 /\
      forall ts, piece_param tol o d p k (map snap ks) j ts -> @obj_eval R NumR tol pj ts = @obj_eval R NumR tol o ts.
Proof. intros Hsp. apply snapped_split_nonperiodic. apply raw_spaced. exact Hsp. Qed.

(* the same with the snapped list named: whenever ks' is what the values become, the repaired routine on ks is the old
   routine on ks' *)
Theorem obj_split_snapped_eq fuel ks' : map snap ks = ks' ->
  @obj_split_snapped R NumR fuel tol o d ks = @obj_split R NumR fuel tol o d ks'.
Proof. intros <-. unfold obj_split_snapped. rewrite (snap_split_values_eq tol o d p k 0 ks Hb). reflexivity. Qed.
End AnyValues.

(* "A split value within the tolerance of a knot splits AT that knot": one value x with the knot value kappa in its
   window [x - tol, x + tol) (in particular |x - kappa| < tol, and also the boundary point x = kappa + tol), kappa an
   interior knot value at distance >= 2*tol from the other knot values, of multiplicity <= p *)
Theorem snapped_split_at_knot tol (o : obj R) d p k x kappa fuel :
  0 < tol -> wf_obj_R tol o -> (d < length (o_bases o))%nat ->
  nth d (o_bases o) dflt_basis = mkBasis p k 0 ->
  In kappa k -> x - tol <= kappa < x + tol -> isolated tol k kappa ->
  st p k < kappa < en p k -> (mult k kappa <= p)%nat -> (1 <= fuel)%nat ->
  @obj_split_snapped R NumR fuel tol o d [x] = @obj_split R NumR fuel tol o d [kappa] /\
  exists p1 p2, @obj_split_snapped R NumR fuel tol o d [x] = Ok [p1; p2] /\
    wf_obj_R tol p1 /\ wf_obj_R tol p2 /\
    @b_start R NumR (nth d (o_bases p1) dflt_basis) = st p k /\ @b_end R NumR (nth d (o_bases p1) dflt_basis) = kappa /\
    @b_start R NumR (nth d (o_bases p2) dflt_basis) = kappa /\ @b_end R NumR (nth d (o_bases p2) dflt_basis) = en p k /\
    (forall ts,
       (forall i, (i < length (o_bases o))%nat -> i <> d -> in_dom tol (nth i (o_bases o) dflt_basis) (nth i ts 0)) ->
       st p k <= nth d ts 0 <= kappa - 2 * tol ->
       @obj_eval R NumR tol p1 ts = @obj_eval R NumR tol o ts) /\
    (forall ts,
       (forall i, (i < length (o_bases o))%nat -> i <> d -> in_dom tol (nth i (o_bases o) dflt_basis) (nth i ts 0)) ->
       kappa <= nth d ts 0 <= en p k ->
       @obj_eval R NumR tol p2 ts = @obj_eval R NumR tol o ts).
Proof.
  intros Htol Hwf Hd Hb Ik W Hiso Hin Hm Hf.
  destruct (bd_wf tol o Hwf d Hd) as (HK & Hp & Hlen & _). rewrite Hb in HK, Hp, Hlen. cbn [b_knots b_order] in HK, Hp, Hlen.
  assert (Es : @snap_split_values R NumR tol o d [x] = [kappa]).
  { rewrite (snap_split_values_eq tol o d p k 0 [x] Hb). cbn [map]. rewrite (snap_to_knot_near tol k x kappa HK Ik W Hiso). reflexivity. }
  assert (E0 : @obj_split_snapped R NumR fuel tol o d [x] = @obj_split R NumR fuel tol o d [kappa]).
  { unfold obj_split_snapped. rewrite Es. reflexivity. }
  split; [exact E0|].
  assert (Ist : In (st p k) k) by (unfold st; apply kn_In'; lia).
  assert (Ien : In (en p k) k) by (unfold en; apply kn_In'; lia).
  assert (G1 : st p k + 2 * tol <= kappa).
  { destruct (Hiso _ Ist) as [E|L]; [lra|]. revert L. unfold Rabs. destruct (Rcase_abs (st p k - kappa)); intros L; lra. }
  assert (G2 : kappa + 2 * tol <= en p k).
  { destruct (Hiso _ Ien) as [E|L]; [lra|]. revert L. unfold Rabs. destruct (Rcase_abs (en p k - kappa)); intros L; lra. }
  assert (H : split_hyps tol o d p k [kappa]).
  { constructor.
    - exact Htol.
    - exact Hwf.
    - exact Hd.
    - exact Hb.
    - cbn [app]. apply Sorted_cons; [apply Sorted_cons; [apply Sorted_cons; [apply Sorted_nil|apply HdRel_nil]|apply HdRel_cons; exact G2]|apply HdRel_cons; exact G1].
    - constructor; [apply isolated_knot_sep; assumption|constructor].
    - constructor; [exact Hm|constructor]. }
  destruct (obj_split_nonperiodic tol o d p k [kappa] H fuel Hf) as (pieces & E & L & P).
  destruct pieces as [|p1 [|p2 [|p3 pieces]]]; cbn [length] in L; try lia.
  exists p1, p2. split; [rewrite E0; exact E|].
  destruct (P 0%nat ltac:(cbn; lia)) as (A1 & _ & _ & _ & _ & A6 & A7 & _ & A9).
  destruct (P 1%nat ltac:(cbn; lia)) as (B1 & _ & _ & _ & _ & B6 & B7 & _ & B9).
  cbv zeta in *. cbn [nth ends app] in *.
  split; [exact A1|]. split; [exact B1|]. split; [exact A6|]. split; [exact A7|]. split; [exact B6|]. split; [exact B7|].
  split.
  - intros ts Hdom Ht. apply A9.
    apply (piece_param_intro tol o d p k [kappa] H 0 ts ltac:(cbn; lia) Hdom).
    + cbn [nth ends app]. lra.
    + left. cbn [nth ends app]. lra.
    + left. reflexivity.
  - intros ts Hdom Ht. apply B9.
    apply (piece_param_intro tol o d p k [kappa] H 1 ts ltac:(cbn; lia) Hdom).
    + cbn [nth ends app]. lra.
    + right. reflexivity.
    + right. left. cbn [nth ends app]. exact Ik.
Qed.

(* periodic direction: the hypotheses of Proofs/PeriodicSplit.v that concern the single values (ph_sep, ph_mult) follow from
   the hypotheses on the knot vector; what remains is the position and the spacing of the SNAPPED values *)
Theorem snapped_split_periodic_any tol (o : obj R) d p per1 n T k x0 rest fuel :
  0 < tol -> wf_obj_R tol o -> (d < length (o_bases o))%nat ->
  nth d (o_bases o) dflt_basis = mkBasis p k per1 -> per_canon k p per1 n T -> per_strict k per1 ->
  separated tol k -> (forall v, (mult k v <= p)%nat) ->
  let snap := @snap_to_knot R NumR k tol in
  @kn R NumR k (p - 1) <= snap x0 ->
  Sorted (gap tol) (snap x0 :: map snap rest ++ [@kn R NumR k (n + per1)]) -> (2 <= fuel)%nat ->
  exists pieces, @obj_split_snapped R NumR fuel tol o d (x0 :: rest) = Ok pieces /\ length pieces = S (length rest) /\
    forall j, (j <= length rest)%nat ->
      let pj := nth j pieces o in let bj := nth d (o_bases pj) dflt_basis in
      wf_obj_R tol pj /\ length (o_bases pj) = length (o_bases o) /\
      (forall i, i <> d -> nth i (o_bases pj) dflt_basis = nth i (o_bases o) dflt_basis) /\
      b_order bj = p /\ b_per1 bj = 0%nat /\
      @b_start R NumR bj = nth j (pends (snap x0) T (map snap rest)) 0 /\
      @b_end R NumR bj = nth (S j) (pends (snap x0) T (map snap rest)) 0 /\
      nth j (pends (snap x0) T (map snap rest)) 0 + 2 * tol <= nth (S j) (pends (snap x0) T (map snap rest)) 0 /\
      forall ts, ppiece_param tol o d p per1 n T k (snap x0) (map snap rest) j ts ->
        @obj_eval R NumR tol pj ts = @obj_eval R NumR tol o ts.
Proof.
  intros Htol Hwf Hd Hb Hcan Hstrict Hsepk Hmultk snap Hfirst Hsp Hf.
  pose proof Hcan as (HK & _).
  assert (H : psplit_hyps tol o d p per1 n T k (snap x0) (map snap rest)).
  { constructor; try assumption.
    - change (snap x0 :: map snap rest) with (map snap (x0 :: rest)).
      apply Forall_forall. intros y Hy. apply in_map_iff in Hy. destruct Hy as (x & <- & _).
      apply snapped_knot_sep; assumption.
    - apply Forall_forall. intros y _. apply Hmultk. }
  destruct (obj_split_periodic tol o d p per1 n T k (snap x0) (map snap rest) fuel H Hf) as (pieces & E & L & P).
  rewrite map_length in L, P.
  exists pieces. split; [|split; [exact L|exact P]].
  unfold obj_split_snapped. rewrite (snap_split_values_eq tol o d p k per1 (x0 :: rest) Hb). exact E.
Qed.

(* Fidelity of the model in the periodic branch: SplineObject.split calls itself on the opened object with the remaining
   values, and the repaired routine snaps them AGAIN there, against the knots of the opened object; the model
   ([obj_split_snapped]) snaps once.  The second snap is the identity. *)
Theorem periodic_resnap_id tol (o : obj R) d p per1 n T k x0 y rest :
  psplit_hyps tol o d p per1 n T k x0 (y :: rest) ->
  exists o1, (forall f, @obj_split R NumR (S f) tol o d (x0 :: y :: rest) = @obj_split R NumR f tol o1 d (y :: rest)) /\
             @snap_split_values R NumR tol o1 d (y :: rest) = y :: rest /\
             (forall f, @obj_split_snapped R NumR f tol o1 d (y :: rest) = @obj_split R NumR f tol o1 d (y :: rest)).
Proof.
  intros H.
  destruct (psplit_insert tol o d p per1 n T k x0 (y :: rest) H) as (so & kf & nf & Hok & Hf & Hperm & Hmall & Hev).
  pose proof Hf as (Hwfs & Hls & Hoths & Hbs & Hcanf & Hstf & Hsf).
  pose proof Hcanf as (HKf & Hper1 & Hpp & Hlenf & _).
  pose proof (opened_split_hyps tol o d p per1 n T k x0 (y :: rest) H so kf nf Hf Hperm Hmall) as Hsh.
  exists (opened d p per1 x0 so kf nf). split; [|split].
  - intros f. exact (psplit_unfold tol o d p per1 n T k x0 (y :: rest) H f so kf nf Hok Hbs Hlenf).
  - apply snap_split_values_id; [exact (sh_wf _ _ _ _ _ _ Hsh)|exact (sh_dir _ _ _ _ _ _ Hsh)|].
    rewrite (sh_basis _ _ _ _ _ _ Hsh). cbn [b_knots]. exact (sh_sep _ _ _ _ _ _ Hsh).
  - intros f. exact (snapped_eq_old tol _ d p _ (y :: rest) Hsh f).
Qed.

(* ---------------------------------------------------------------------------------------------------------- *)
(* c. the hypotheses are satisfiable: quadratic curve (order 3) on [0,0,0,3/10,6/10,1,1,1], tol = 1/10^10, split at
      3/10 + 1/10^12 (within the tolerance of the knot 3/10) and at the boundary point 3/10 + 1/10^10                    *)
Section ExampleR.
Let k : list R := [0;0;0;3/10;6/10;1;1;1].
Let o := @mkObj R [mkBasis 3 k 0] [[0];[1];[3];[2];[5]] 1 false.
Let tol : R := 1/10000000000.

Lemma exs_k_sorted : sorted (@kn R NumR k).
Proof.
  apply kn_sorted. unfold k. cbn [sorted_list nleb NumR].
  repeat (match goal with |- context [Rleb ?a ?b] => destruct (Rleb_spec a b); [|lra] end). reflexivity.
Qed.

Lemma exs_wf : wf_obj_R tol o.
Proof.
  assert (Est : st 3 k = 0) by reflexivity. assert (Een : en 3 k = 1) by reflexivity.
  split; [|split].
  - constructor; [|constructor]. split; [exact exs_k_sorted|]. cbn [b_order b_knots]. split; [lia|]. split; [cbn; lia|].
    split; [cbn; lia|]. change (@b_end R NumR (mkBasis 3 k 0)) with (en 3 k). change (@b_start R NumR (mkBasis 3 k 0)) with (st 3 k).
    rewrite Est, Een. unfold tol. lra.
  - repeat constructor.
  - reflexivity.
Qed.

Lemma exs_isolated : isolated tol k (3/10).
Proof.
  intros v Hv. unfold k in Hv. cbn [In] in Hv. unfold tol.
  repeat (destruct Hv as [<-|Hv]; [first [left; lra | right; unfold Rabs; match goal with |- context [Rcase_abs ?a] => destruct (Rcase_abs a) end; lra]|]).
  destruct Hv.
Qed.

Lemma exs_mult : (mult k (3/10) <= 3)%nat.
Proof.
  unfold mult, k. cbn [count_occ].
  repeat (match goal with |- context [Req_EM_T ?a ?b] => destruct (Req_EM_T a b); [try lra|try lra] end); lia.
Qed.

(* every x with 3/10 in its window: in particular 3/10 + 1/10^12, 3/10 - 1/10^12 and the boundary point 3/10 + 1/10^10 *)
Theorem example_snapped_split x : x - tol <= 3/10 < x + tol ->
  @obj_split_snapped R NumR 1 tol o 0 [x] = @obj_split R NumR 1 tol o 0 [3/10] /\
  exists p1 p2, @obj_split_snapped R NumR 1 tol o 0 [x] = Ok [p1; p2] /\
    @b_start R NumR (nth 0 (o_bases p1) dflt_basis) = 0 /\ @b_end R NumR (nth 0 (o_bases p1) dflt_basis) = 3/10 /\
    @b_start R NumR (nth 0 (o_bases p2) dflt_basis) = 3/10 /\ @b_end R NumR (nth 0 (o_bases p2) dflt_basis) = 1 /\
    (forall t, 0 <= t <= 3/10 - 2 * tol -> @obj_eval R NumR tol p1 [t] = @obj_eval R NumR tol o [t]) /\
    (forall t, 3/10 <= t <= 1 -> @obj_eval R NumR tol p2 [t] = @obj_eval R NumR tol o [t]).
Proof.
  intros W.
  assert (Est : st 3 k = 0) by reflexivity. assert (Een : en 3 k = 1) by reflexivity.
  assert (Ik : In (3/10) k) by (unfold k; cbn [In]; tauto).
  destruct (snapped_split_at_knot tol o 0 3 k x (3/10) 1 ltac:(unfold tol; lra) exs_wf ltac:(cbn; lia) eq_refl Ik W exs_isolated
              ltac:(rewrite Est, Een; lra) exs_mult ltac:(lia)) as (E0 & p1 & p2 & E & _ & _ & S1 & E1 & S2 & E2 & V1 & V2).
  split; [exact E0|]. exists p1, p2. split; [exact E|]. rewrite Est in S1. rewrite Een in E2.
  split; [exact S1|]. split; [exact E1|]. split; [exact S2|]. split; [exact E2|]. split.
  - intros t Ht. apply V1; [intros i Hi Hne; cbn in Hi; lia|]. rewrite Est. cbn [nth]. exact Ht.
  - intros t Ht. apply V2; [intros i Hi Hne; cbn in Hi; lia|]. rewrite Een. cbn [nth]. exact Ht.
Qed.

Example example_near : 3/10 + 1/1000000000000 - tol <= 3/10 < 3/10 + 1/1000000000000 + tol.
Proof. unfold tol. lra. Qed.
Example example_boundary : 3/10 + tol - tol <= 3/10 < 3/10 + tol + tol.
Proof. unfold tol. lra. Qed.
End ExampleR.

(* ---------------------------------------------------------------------------------------------------------- *)
(* c./d. the same curve executed on Q (instance NumQ)                                                          *)
Definition exq_b : basis Q := @mkBasis Q 3 [0; 0; 0; 3#10; 6#10; 1; 1; 1]%Q 0.
Definition exq_o : obj Q := @mkObj Q [exq_b] [[0];[1];[3];[2];[5]]%Q 1 false.
Definition exq_tol : Q := (1#10000000000)%Q.
Definition exq_x : Q := ((3#10) + (1#1000000000000))%Q.
(* the domains [start, end] of the pieces in direction 0, in lowest terms *)
Definition exq_domains (r : res (list (obj Q))) : option (list (Q * Q)) :=
  match r with
  | Ok l => Some (map (fun pc => let bb := nth 0 (o_bases pc) exq_b in (Qred (@b_start Q NumQ bb), Qred (@b_end Q NumQ bb))) l)
  | Err _ => None
  end.

(* c. the repaired routine at 3/10 + 1/10^12: two pieces on [0, 3/10] and [3/10, 1]; the first has the knots
      [0,0,0,3/10,3/10,3/10] *)
Example snapped_example_Q :
  exq_domains (@obj_split_snapped Q NumQ 1 exq_tol exq_o 0 [exq_x]) = Some [(0, 3#10); (3#10, 1)]%Q /\
  match @obj_split_snapped Q NumQ 1 exq_tol exq_o 0 [exq_x] with
  | Ok (p1 :: _) => map Qred (b_knots (nth 0 (o_bases p1) exq_b)) = [0; 0; 0; 3#10; 3#10; 3#10]%Q
  | _ => False
  end.
Proof. vm_compute. split; reflexivity. Qed.

(* d. THE DEFECT of the old routine, as a fact about the faithful model of the old code: at 3/10 + 1/10^12 it returns
      two pieces with the domains [0, 3/10 + 1/10^12] and [6/10, 1]: the interval (3/10 + 1/10^12, 6/10) is lost *)
Example old_split_defect :
  exq_domains (@obj_split Q NumQ 1 exq_tol exq_o 0 [exq_x])
  = Some [(0, 300000000001#1000000000000); (3#5, 1)]%Q.
Proof. vm_compute. reflexivity. Qed.

(* the same from below: 3/10 - 1/10^12 gives [0, 3/10 - 1/10^12] and [3/10, 1] (the old routine loses a sliver and the
   first piece is not clamped at its end) *)
Example old_split_defect_below :
  exq_domains (@obj_split Q NumQ 1 exq_tol exq_o 0 [((3#10) - (1#1000000000000))%Q])
  = Some [(0, 299999999999#1000000000000); (3#10, 1)]%Q.
Proof. vm_compute. reflexivity. Qed.

(* the boundary point x = knot + tol: continuity() counts the knot 3/10 (its window is closed on the left); the repaired
   routine, which uses the same window, snaps it and the pieces tile [0, 1]; the old routine loses (x, 6/10) *)
Example snapped_boundary_Q :
  exq_domains (@obj_split_snapped Q NumQ 1 exq_tol exq_o 0 [((3#10) + exq_tol)%Q]) = Some [(0, 3#10); (3#10, 1)]%Q /\
  exq_domains (@obj_split Q NumQ 1 exq_tol exq_o 0 [((3#10) + exq_tol)%Q]) = Some [(0, 3000000001#10000000000); (3#5, 1)]%Q.
Proof. vm_compute. split; reflexivity. Qed.

(* a value whose window holds no knot is left alone: both routines split at 1/2 itself *)
Example snapped_far_Q :
  exq_domains (@obj_split_snapped Q NumQ 1 exq_tol exq_o 0 [(1#2)%Q]) = Some [(0, 1#2); (1#2, 1)]%Q /\
  @obj_split_snapped Q NumQ 1 exq_tol exq_o 0 [(1#2)%Q] = @obj_split Q NumQ 1 exq_tol exq_o 0 [(1#2)%Q].
Proof. vm_compute. split; reflexivity. Qed.

(* the hypothesis [separated] on the knot vector cannot be dropped: with two DISTINCT knot values closer than tol
   (3/10 and 3/10 + 5/10^11) the window of either holds both, continuity() counts two knots, and the repaired routine (as
   the old one) returns pieces with the domains [0, 3/10] and [3/10 + 5/10^11, 1] *)
Definition exq_o2 : obj Q :=
  @mkObj Q [@mkBasis Q 3 [0; 0; 0; 3#10; 6000000001#20000000000; 1; 1; 1]%Q 0] [[0];[1];[3];[2];[5]]%Q 1 false.
Example unseparated_knots_witness :
  exq_domains (@obj_split_snapped Q NumQ 1 exq_tol exq_o2 0 [(3#10)%Q]) = Some [(0, 3#10); (6000000001#20000000000, 1)]%Q /\
  exq_domains (@obj_split Q NumQ 1 exq_tol exq_o2 0 [(3#10)%Q]) = Some [(0, 3#10); (6000000001#20000000000, 1)]%Q.
Proof. vm_compute. split; reflexivity. Qed.

Print Assumptions snap_to_knot_spec.
Print Assumptions snap_to_knot_id_iff.
Print Assumptions snap_to_knot_continuity.
Print Assumptions snapped_knot_sep.
Print Assumptions snap_split_values_id.
Print Assumptions snapped_split_ok.
Print Assumptions snapped_split_length.
Print Assumptions snapped_split_tiling.
Print Assumptions snapped_split_then_evaluate.
Print Assumptions snapped_split_periodic.
Print Assumptions snapped_split_periodic_single.
Print Assumptions snapped_split_nonperiodic.
Print Assumptions snapped_split_nonperiodic_raw.
Print Assumptions snapped_split_at_knot.
Print Assumptions snapped_split_periodic_any.
Print Assumptions periodic_resnap_id.
Print Assumptions example_snapped_split.
Print Assumptions snapped_example_Q.
Print Assumptions old_split_defect.
Print Assumptions snapped_boundary_Q.
