(* From the Leibniz / Taylor-jet identities (Proofs/RatDeriv.v) to TRUE derivatives (Coquelicot):
   what the regenerated rational kernels (Gen/RatDerivGeneric.v quot1, Gen/RatDerivCurve.v curve_d2 curve_d3,
   Gen/RatDerivSurface.v surf_dXY) return, when they are fed with the derivatives of the homogeneous
   numerator n and weight W, IS the (iterated / mixed partial) derivative of the quotient n / W.

   1. curves:   is_derive_n (fun s => n s / W s) d t (kernel_d ...)        d = 0..3
   2. quot1 in one variable (any pardim), surfaces: all ten multi-indices (i,j), i + j <= 3, as nested
      Derive_n (partial in u of the partial in v, and the other nesting)
   3. tangent / normal: normalised first derivatives and their cross product
   4. splines: inside an open knot span the homogeneous components are spline sums whose derivatives are the
      dB sums, hence the kernels applied to the dB sums are the derivatives of the rational curve / surface. *)
From Coq Require Import List Arith Reals Lra Lia Bool ZArith.
From Coquelicot Require Import Coquelicot.
From SplipyModel Require Import Spec.BSpline Spec.Deriv Spec.DerivAnalytic Model.Num
  Gen.RatDerivGeneric Gen.RatDerivCurve Gen.RatDerivSurface Proofs.RatDeriv.
Import ListNotations.
Open Scope R_scope.

(* ------------------------------------------------------------------------------------------------ *)
(* 0. small analysis toolbox                                                                        *)
(* ------------------------------------------------------------------------------------------------ *)

Lemma locally_itv a b s : a < s < b -> locally s (fun y => a < y < b).
Proof. intros H. exact (open_and _ _ (open_gt a) (open_lt b) s H). Qed.

(* a function that is differentiable (hence continuous) at s and does not vanish there does not vanish nearby *)
Lemma locally_nz (g : R -> R) s l : is_derive g s l -> g s <> 0 -> locally s (fun y => g y <> 0).
Proof.
  intros Hd Hz.
  assert (C : continuous g s).
  { apply (ex_derive_continuous (K := R_AbsRing) (V := R_NormedModule) g s). exists l; exact Hd. }
  apply (C (fun z => z <> 0)).
  assert (He : 0 < Rabs (g s)) by (apply Rabs_pos_lt; exact Hz).
  exists (mkposreal _ He). intros z Hb.
  unfold ball in Hb; cbn in Hb. unfold AbsRing_ball, abs, minus, plus, opp in Hb; cbn in Hb.
  intros ->. replace (0 + - g s) with (- g s) in Hb by ring. rewrite Rabs_Ropp in Hb. lra.
Qed.

(* the open set on which everything happens: inside the interval and away from the zeros of the weight *)
Definition Uset (lo hi : R) (g : R -> R) (x : R) : Prop := lo < x < hi /\ g x <> 0.
Lemma Uset_open lo hi (g g' : R -> R) : (forall x, lo < x < hi -> is_derive g x (g' x)) ->
  forall x, Uset lo hi g x -> locally x (Uset lo hi g).
Proof.
  intros Hg x [Hx Hz]. apply filter_and; [exact (locally_itv lo hi x Hx)|].
  exact (locally_nz g x _ (Hg x Hx) Hz).
Qed.

(* a chain K 0, K 1, ..., K d of functions on an open set U, each the derivative of the previous one:
   K r is the r-th derivative of K 0 *)
Lemma chain_is_derive_n (U : R -> Prop) (K : nat -> R -> R) (d : nat) :
  (forall s, U s -> locally s U) ->
  (forall r s, (r < d)%nat -> U s -> is_derive (K r) s (K (S r) s)) ->
  forall r, (r <= d)%nat -> forall s, U s -> is_derive_n (K 0%nat) r s (K r s).
Proof.
  intros HU HK. induction r as [|r IH]; intros Hr s Hs.
  - reflexivity.
  - cbn [is_derive_n]. apply (is_derive_ext_loc (K r)).
    + generalize (HU s Hs). apply filter_imp. intros y Hy. symmetry.
      apply is_derive_n_unique. apply IH; [lia|exact Hy].
    + apply HK; [lia|exact Hs].
Qed.

(* linearity of is_derive over the finite sums of Spec/BSpline.v *)
Lemma is_derive_sumf (f f' : nat -> R -> R) t :
  (forall i, is_derive (f i) t (f' i t)) ->
  forall n a, is_derive (fun s => sumf (fun i => f i s) a n) t (sumf (fun i => f' i t) a n).
Proof.
  intros H. induction n as [|n IH]; intros a; cbn [sumf].
  - apply @is_derive_const.
  - exact (is_derive_plus _ _ t _ _ (H a) (IH (S a))).
Qed.

Ltac derive_vals t :=
  repeat match goal with |- context[Derive ?h t] => erewrite (is_derive_unique h t) by eassumption end.

(* ------------------------------------------------------------------------------------------------ *)
(* 1. curves                                                                                        *)
(* ------------------------------------------------------------------------------------------------ *)

(* pointwise step: f r, g r are the r-th derivatives of numerator and weight (as functions of the parameter);
   Qc (Proofs/RatDeriv.v) is what the API returns for order a:  n/W, quot1, curve_d2, curve_d3 *)
Section CurveChain.
Variables f g : nat -> R -> R.
Variable t : R.
Hypothesis Hf : forall r, (r < 3)%nat -> is_derive (f r) t (f (S r) t).
Hypothesis Hg : forall r, (r < 3)%nat -> is_derive (g r) t (g (S r) t).
Hypothesis Wnz : g 0%nat t <> 0.

Definition Kc (a : nat) (s : R) : R := Qc (fun r => f r s) (fun r => g r s) a.

Lemma Kc_chain a : (a < 3)%nat -> is_derive (Kc a) t (Kc (S a) t).
Proof.
  intros Ha.
  pose proof (Hf 0%nat ltac:(lia)) as F0. pose proof (Hf 1%nat ltac:(lia)) as F1. pose proof (Hf 2%nat ltac:(lia)) as F2.
  pose proof (Hg 0%nat ltac:(lia)) as G0. pose proof (Hg 1%nat ltac:(lia)) as G1. pose proof (Hg 2%nat ltac:(lia)) as G2.
  destruct a as [|[|[|a]]]; [| | |lia]; unfold Kc, Qc, quot1, curve_d2, curve_d3;
  cbn [nadd nsub nmul ndiv nofZ n0 NumR];
  (auto_derive; [repeat split; try (eexists; eassumption); exact Wnz|]);
  derive_vals t; field; exact Wnz.
Qed.
End CurveChain.

Section Curve.
Variables a b : R.
(* n r, W r : the r-th derivative functions of the numerator component and of the weight on (a,b) *)
Variables n W : nat -> R -> R.
Hypothesis Hn : forall r s, (r < 3)%nat -> a < s < b -> is_derive (n r) s (n (S r) s).
Hypothesis HW : forall r s, (r < 3)%nat -> a < s < b -> is_derive (W r) s (W (S r) s).

Lemma curve_U_open s : Uset a b (W 0%nat) s -> locally s (Uset a b (W 0%nat)).
Proof. exact (Uset_open a b (W 0%nat) (W 1%nat) (fun x Hx => HW 0%nat x ltac:(lia) Hx) s). Qed.

(* the value the API returns for order d, as a function of the parameter *)
Definition curve_kernel (d : nat) (s : R) : R := Qc (fun r => n r s) (fun r => W r s) d.

Theorem curve_kernel_step d t : (d < 3)%nat -> a < t < b -> W 0%nat t <> 0 ->
  is_derive (curve_kernel d) t (curve_kernel (S d) t).
Proof.
  intros Hd Ht Hz.
  exact (Kc_chain n W t (fun r Hr => Hn r t Hr Ht) (fun r Hr => HW r t Hr Ht) Hz d Hd).
Qed.

(* MAIN (curves): for every order d <= 3 the API value is the d-th derivative of the quotient *)
Theorem curve_kernels_are_derivatives d t : (d <= 3)%nat -> a < t < b -> W 0%nat t <> 0 ->
  is_derive_n (fun s => n 0%nat s / W 0%nat s) d t (Qc (fun r => n r t) (fun r => W r t) d).
Proof.
  intros Hd Ht Hz.
  exact (chain_is_derive_n (Uset a b (W 0%nat)) curve_kernel 3 curve_U_open
           (fun r s Hr Hs => curve_kernel_step r s Hr (proj1 Hs) (proj2 Hs)) d Hd t (conj Ht Hz)).
Qed.

(* the three orders spelled out with the kernels by name and in their argument order *)
Corollary curve_d1_is_derivative t : a < t < b -> W 0%nat t <> 0 ->
  is_derive (fun s => n 0%nat s / W 0%nat s) t
    (@quot1 R NumR (n 1%nat t) (n 0%nat t) (W 1%nat t) (W 0%nat t)).
Proof. intros Ht Hz. exact (curve_kernels_are_derivatives 1 t ltac:(lia) Ht Hz). Qed.

Corollary curve_d2_is_second_derivative t : a < t < b -> W 0%nat t <> 0 ->
  is_derive_n (fun s => n 0%nat s / W 0%nat s) 2 t (@curve_d2 R NumR (fun r => n r t) (fun r => W r t)).
Proof. intros Ht Hz. exact (curve_kernels_are_derivatives 2 t ltac:(lia) Ht Hz). Qed.

Corollary curve_d3_is_third_derivative t : a < t < b -> W 0%nat t <> 0 ->
  is_derive_n (fun s => n 0%nat s / W 0%nat s) 3 t (@curve_d3 R NumR (fun r => n r t) (fun r => W r t)).
Proof. intros Ht Hz. exact (curve_kernels_are_derivatives 3 t ltac:(lia) Ht Hz). Qed.

(* the same as an explicit chain of is_derive: the d=2 value is the derivative of the d=1 value, ... *)
Corollary curve_d2_is_derivative_of_d1 t : a < t < b -> W 0%nat t <> 0 ->
  is_derive (fun s => @quot1 R NumR (n 1%nat s) (n 0%nat s) (W 1%nat s) (W 0%nat s)) t
    (@curve_d2 R NumR (fun r => n r t) (fun r => W r t)).
Proof. intros Ht Hz. exact (curve_kernel_step 1 t ltac:(lia) Ht Hz). Qed.

Corollary curve_d3_is_derivative_of_d2 t : a < t < b -> W 0%nat t <> 0 ->
  is_derive (fun s => @curve_d2 R NumR (fun r => n r s) (fun r => W r s)) t
    (@curve_d3 R NumR (fun r => n r t) (fun r => W r t)).
Proof. intros Ht Hz. exact (curve_kernel_step 2 t ltac:(lia) Ht Hz). Qed.

Corollary curve_Derive_n d t : (d <= 3)%nat -> a < t < b -> W 0%nat t <> 0 ->
  Derive_n (fun s => n 0%nat s / W 0%nat s) d t = Qc (fun r => n r t) (fun r => W r t) d.
Proof. intros Hd Ht Hz. apply is_derive_n_unique. exact (curve_kernels_are_derivatives d t Hd Ht Hz). Qed.
End Curve.

(* ------------------------------------------------------------------------------------------------ *)
(* 2. quot1 in one variable of many; surfaces                                                       *)
(* ------------------------------------------------------------------------------------------------ *)

(* SplineObject.derivative, any pardim, one direction: a parameter tuple p : nat -> R, direction i moves *)
Definition upd (p : nat -> R) (i : nat) (x : R) : nat -> R := fun j => if Nat.eqb j i then x else p j.

(* the generated kernel quot1 is the quotient rule *)
Theorem quot1_is_derive (f g : R -> R) (x fd gd : R) :
  is_derive f x fd -> is_derive g x gd -> g x <> 0 ->
  is_derive (fun y => f y / g y) x (@quot1 R NumR fd (f x) gd (g x)).
Proof.
  intros Hf Hg Hz. unfold quot1; cbn [nsub nmul ndiv NumR].
  auto_derive; [repeat split; try (eexists; eassumption); exact Hz|].
  derive_vals x. field. exact Hz.
Qed.

Theorem quot1_is_partial_derivative (n W : (nat -> R) -> R) (p : nat -> R) (i : nat) (x nd Wd : R) :
  is_derive (fun y => n (upd p i y)) x nd -> is_derive (fun y => W (upd p i y)) x Wd -> W (upd p i x) <> 0 ->
  is_derive (fun y => n (upd p i y) / W (upd p i y)) x (@quot1 R NumR nd (n (upd p i x)) Wd (W (upd p i x))).
Proof.
  intros Hn HW Hz.
  exact (quot1_is_derive (fun y => n (upd p i y)) (fun y => W (upd p i y)) x nd Wd Hn HW Hz).
Qed.

(* pointwise steps for the surface kernels; f a b, g a b : the (a,b) partial derivatives along a line *)
Section SurfChain.
Variables f g : nat -> nat -> R -> R.
Variable t : R.
Hypothesis Wnz : g 0%nat 0%nat t <> 0.

Definition Ks (i j : nat) (s : R) : R := Qs (fun a b => f a b s) (fun a b => g a b s) i j.

Ltac surf_step t Wnz :=
  unfold Ks, Qs, quot1, surf_d11, surf_d20, surf_d02, surf_d30, surf_d03, surf_d21, surf_d12;
  cbn [nadd nsub nmul ndiv nofZ n0 NumR];
  (auto_derive; [repeat split; try (eexists; eassumption); exact Wnz|]);
  derive_vals t; field; exact Wnz.

(* the line is parallel to u *)
Lemma Ks_chain_u :
  (forall a b, (a + b < 3)%nat -> is_derive (f a b) t (f (S a) b t)) ->
  (forall a b, (a + b < 3)%nat -> is_derive (g a b) t (g (S a) b t)) ->
  forall i j, (i + j < 3)%nat -> is_derive (Ks i j) t (Ks (S i) j t).
Proof.
  intros Hf Hg i j Hij.
  pose proof (Hf 0%nat 0%nat ltac:(lia)) as F00. pose proof (Hf 1%nat 0%nat ltac:(lia)) as F10.
  pose proof (Hf 0%nat 1%nat ltac:(lia)) as F01. pose proof (Hf 2%nat 0%nat ltac:(lia)) as F20.
  pose proof (Hf 1%nat 1%nat ltac:(lia)) as F11. pose proof (Hf 0%nat 2%nat ltac:(lia)) as F02.
  pose proof (Hg 0%nat 0%nat ltac:(lia)) as G00. pose proof (Hg 1%nat 0%nat ltac:(lia)) as G10.
  pose proof (Hg 0%nat 1%nat ltac:(lia)) as G01. pose proof (Hg 2%nat 0%nat ltac:(lia)) as G20.
  pose proof (Hg 1%nat 1%nat ltac:(lia)) as G11. pose proof (Hg 0%nat 2%nat ltac:(lia)) as G02.
  destruct i as [|[|[|i]]]; destruct j as [|[|[|j]]]; try lia; surf_step t Wnz.
Qed.

(* the line is parallel to v *)
Lemma Ks_chain_v :
  (forall a b, (a + b < 3)%nat -> is_derive (f a b) t (f a (S b) t)) ->
  (forall a b, (a + b < 3)%nat -> is_derive (g a b) t (g a (S b) t)) ->
  forall i j, (i + j < 3)%nat -> is_derive (Ks i j) t (Ks i (S j) t).
Proof.
  intros Hf Hg i j Hij.
  pose proof (Hf 0%nat 0%nat ltac:(lia)) as F00. pose proof (Hf 1%nat 0%nat ltac:(lia)) as F10.
  pose proof (Hf 0%nat 1%nat ltac:(lia)) as F01. pose proof (Hf 2%nat 0%nat ltac:(lia)) as F20.
  pose proof (Hf 1%nat 1%nat ltac:(lia)) as F11. pose proof (Hf 0%nat 2%nat ltac:(lia)) as F02.
  pose proof (Hg 0%nat 0%nat ltac:(lia)) as G00. pose proof (Hg 1%nat 0%nat ltac:(lia)) as G10.
  pose proof (Hg 0%nat 1%nat ltac:(lia)) as G01. pose proof (Hg 2%nat 0%nat ltac:(lia)) as G20.
  pose proof (Hg 1%nat 1%nat ltac:(lia)) as G11. pose proof (Hg 0%nat 2%nat ltac:(lia)) as G02.
  destruct i as [|[|[|i]]]; destruct j as [|[|[|j]]]; try lia; surf_step t Wnz.
Qed.
End SurfChain.

Section Surface.
Variables a1 b1 a2 b2 : R.
(* n i j, W i j : the (i,j) partial derivative functions of numerator component and weight on the open rectangle *)
Variables n W : nat -> nat -> R -> R -> R.
Local Notation inR u v := (a1 < u < b1 /\ a2 < v < b2).
Hypothesis Hnu : forall i j u v, (i + j < 3)%nat -> inR u v -> is_derive (fun x => n i j x v) u (n (S i) j u v).
Hypothesis Hnv : forall i j u v, (i + j < 3)%nat -> inR u v -> is_derive (fun y => n i j u y) v (n i (S j) u v).
Hypothesis HWu : forall i j u v, (i + j < 3)%nat -> inR u v -> is_derive (fun x => W i j x v) u (W (S i) j u v).
Hypothesis HWv : forall i j u v, (i + j < 3)%nat -> inR u v -> is_derive (fun y => W i j u y) v (W i (S j) u v).

(* the value the API returns for d = (i,j) at (u,v) *)
Definition surf_kernel (i j : nat) (u v : R) : R := Qs (fun a b => n a b u v) (fun a b => W a b u v) i j.

Theorem surf_kernel_step_u i j u v : (i + j < 3)%nat -> inR u v -> W 0%nat 0%nat u v <> 0 ->
  is_derive (fun x => surf_kernel i j x v) u (surf_kernel (S i) j u v).
Proof.
  intros Hij HR Hz.
  exact (Ks_chain_u (fun a b x => n a b x v) (fun a b x => W a b x v) u Hz
           (fun a b Hab => Hnu a b u v Hab HR) (fun a b Hab => HWu a b u v Hab HR) i j Hij).
Qed.

Theorem surf_kernel_step_v i j u v : (i + j < 3)%nat -> inR u v -> W 0%nat 0%nat u v <> 0 ->
  is_derive (fun y => surf_kernel i j u y) v (surf_kernel i (S j) u v).
Proof.
  intros Hij HR Hz.
  exact (Ks_chain_v (fun a b y => n a b u y) (fun a b y => W a b u y) v Hz
           (fun a b Hab => Hnv a b u v Hab HR) (fun a b Hab => HWv a b u v Hab HR) i j Hij).
Qed.

Local Notation Uu v := (Uset a1 b1 (fun x => W 0%nat 0%nat x v)).
Local Notation Uv u := (Uset a2 b2 (fun y => W 0%nat 0%nat u y)).

Lemma Uu_open v : a2 < v < b2 -> forall x, Uu v x -> locally x (Uu v).
Proof.
  intros Hv. exact (Uset_open a1 b1 (fun x => W 0%nat 0%nat x v) (fun x => W 1%nat 0%nat x v)
                      (fun x Hx => HWu 0%nat 0%nat x v ltac:(lia) (conj Hx Hv))).
Qed.
Lemma Uv_open u : a1 < u < b1 -> forall y, Uv u y -> locally y (Uv u).
Proof.
  intros Hu. exact (Uset_open a2 b2 (fun y => W 0%nat 0%nat u y) (fun y => W 0%nat 1%nat u y)
                      (fun y Hy => HWv 0%nat 0%nat u y ltac:(lia) (conj Hu Hy))).
Qed.

(* pure partials *)
Lemma surf_pure_v j u v : (j <= 3)%nat -> inR u v -> W 0%nat 0%nat u v <> 0 ->
  is_derive_n (fun y => n 0%nat 0%nat u y / W 0%nat 0%nat u y) j v (surf_kernel 0 j u v).
Proof.
  intros Hj [Hu Hv] Hz.
  exact (chain_is_derive_n (Uv u) (fun r y => surf_kernel 0 r u y) 3 (Uv_open u Hu)
           (fun r y Hr Hy => surf_kernel_step_v 0 r u y Hr (conj Hu (proj1 Hy)) (proj2 Hy)) j Hj v (conj Hv Hz)).
Qed.
Lemma surf_pure_u i u v : (i <= 3)%nat -> inR u v -> W 0%nat 0%nat u v <> 0 ->
  is_derive_n (fun x => n 0%nat 0%nat x v / W 0%nat 0%nat x v) i u (surf_kernel i 0 u v).
Proof.
  intros Hi [Hu Hv] Hz.
  exact (chain_is_derive_n (Uu v) (fun r x => surf_kernel r 0 x v) 3 (Uu_open v Hv)
           (fun r x Hr Hx => surf_kernel_step_u r 0 x v ltac:(lia) (conj (proj1 Hx) Hv) (proj2 Hx)) i Hi u (conj Hu Hz)).
Qed.

(* MAIN (surfaces): all ten multi-indices; the i-th partial in u of the j-th partial in v *)
Theorem surface_kernels_are_partials i j u v : (i + j <= 3)%nat -> inR u v -> W 0%nat 0%nat u v <> 0 ->
  is_derive_n (fun x => Derive_n (fun y => n 0%nat 0%nat x y / W 0%nat 0%nat x y) j v) i u
    (Qs (fun a b => n a b u v) (fun a b => W a b u v) i j).
Proof.
  intros Hij [Hu Hv] Hz.
  apply (is_derive_n_ext_loc (fun x => surf_kernel 0 j x v)).
  - generalize (Uu_open v Hv u (conj Hu Hz)). apply filter_imp. intros x [Hx Hxz]. symmetry.
    apply is_derive_n_unique. apply surf_pure_v; [lia|exact (conj Hx Hv)|exact Hxz].
  - exact (chain_is_derive_n (Uu v) (fun r x => surf_kernel r j x v) i (Uu_open v Hv)
           (fun r x Hr Hx => surf_kernel_step_u r j x v ltac:(lia) (conj (proj1 Hx) Hv) (proj2 Hx)) i (le_n i) u (conj Hu Hz)).
Qed.

(* the other nesting: the j-th partial in v of the i-th partial in u *)
Theorem surface_kernels_are_partials_vu i j u v : (i + j <= 3)%nat -> inR u v -> W 0%nat 0%nat u v <> 0 ->
  is_derive_n (fun y => Derive_n (fun x => n 0%nat 0%nat x y / W 0%nat 0%nat x y) i u) j v
    (Qs (fun a b => n a b u v) (fun a b => W a b u v) i j).
Proof.
  intros Hij [Hu Hv] Hz.
  apply (is_derive_n_ext_loc (fun y => surf_kernel i 0 u y)).
  - generalize (Uv_open u Hu v (conj Hv Hz)). apply filter_imp. intros y [Hy Hyz]. symmetry.
    apply is_derive_n_unique. apply surf_pure_u; [lia|exact (conj Hu Hy)|exact Hyz].
  - exact (chain_is_derive_n (Uv u) (fun r y => surf_kernel i r u y) j (Uv_open u Hu)
           (fun r y Hr Hy => surf_kernel_step_v i r u y ltac:(lia) (conj Hu (proj1 Hy)) (proj2 Hy)) j (le_n j) v (conj Hv Hz)).
Qed.

(* the kernels by name.  First order: the generic quotient rule in u and in v *)
Corollary surf_d10_is_partial_u u v : inR u v -> W 0%nat 0%nat u v <> 0 ->
  is_derive (fun x => n 0%nat 0%nat x v / W 0%nat 0%nat x v) u
    (@quot1 R NumR (n 1%nat 0%nat u v) (n 0%nat 0%nat u v) (W 1%nat 0%nat u v) (W 0%nat 0%nat u v)).
Proof. intros HR Hz. exact (surface_kernels_are_partials 1 0 u v ltac:(lia) HR Hz). Qed.
Corollary surf_d01_is_partial_v u v : inR u v -> W 0%nat 0%nat u v <> 0 ->
  is_derive (fun y => n 0%nat 0%nat u y / W 0%nat 0%nat u y) v
    (@quot1 R NumR (n 0%nat 1%nat u v) (n 0%nat 0%nat u v) (W 0%nat 1%nat u v) (W 0%nat 0%nat u v)).
Proof. intros HR Hz. exact (surface_kernels_are_partials_vu 0 1 u v ltac:(lia) HR Hz). Qed.

(* d = (1,1): two nested is_derive, in both orders *)
Corollary surf_d11_is_mixed_partial u v : inR u v -> W 0%nat 0%nat u v <> 0 ->
  is_derive (fun x => Derive (fun y => n 0%nat 0%nat x y / W 0%nat 0%nat x y) v) u
    (@surf_d11 R NumR (fun a b => n a b u v) (fun a b => W a b u v)).
Proof. intros HR Hz. exact (surface_kernels_are_partials 1 1 u v ltac:(lia) HR Hz). Qed.
Corollary surf_d11_is_mixed_partial_vu u v : inR u v -> W 0%nat 0%nat u v <> 0 ->
  is_derive (fun y => Derive (fun x => n 0%nat 0%nat x y / W 0%nat 0%nat x y) u) v
    (@surf_d11 R NumR (fun a b => n a b u v) (fun a b => W a b u v)).
Proof. intros HR Hz. exact (surface_kernels_are_partials_vu 1 1 u v ltac:(lia) HR Hz). Qed.

(* second and third order, pure and mixed *)
Corollary surf_d20_is_partial u v : inR u v -> W 0%nat 0%nat u v <> 0 ->
  is_derive_n (fun x => n 0%nat 0%nat x v / W 0%nat 0%nat x v) 2 u
    (@surf_d20 R NumR (fun a b => n a b u v) (fun a b => W a b u v)).
Proof. intros HR Hz. exact (surface_kernels_are_partials 2 0 u v ltac:(lia) HR Hz). Qed.
Corollary surf_d02_is_partial u v : inR u v -> W 0%nat 0%nat u v <> 0 ->
  is_derive_n (fun y => n 0%nat 0%nat u y / W 0%nat 0%nat u y) 2 v
    (@surf_d02 R NumR (fun a b => n a b u v) (fun a b => W a b u v)).
Proof. intros HR Hz. exact (surface_kernels_are_partials_vu 0 2 u v ltac:(lia) HR Hz). Qed.
Corollary surf_d30_is_partial u v : inR u v -> W 0%nat 0%nat u v <> 0 ->
  is_derive_n (fun x => n 0%nat 0%nat x v / W 0%nat 0%nat x v) 3 u
    (@surf_d30 R NumR (fun a b => n a b u v) (fun a b => W a b u v)).
Proof. intros HR Hz. exact (surface_kernels_are_partials 3 0 u v ltac:(lia) HR Hz). Qed.
Corollary surf_d03_is_partial u v : inR u v -> W 0%nat 0%nat u v <> 0 ->
  is_derive_n (fun y => n 0%nat 0%nat u y / W 0%nat 0%nat u y) 3 v
    (@surf_d03 R NumR (fun a b => n a b u v) (fun a b => W a b u v)).
Proof. intros HR Hz. exact (surface_kernels_are_partials_vu 0 3 u v ltac:(lia) HR Hz). Qed.
Corollary surf_d21_is_partial u v : inR u v -> W 0%nat 0%nat u v <> 0 ->
  is_derive_n (fun x => Derive (fun y => n 0%nat 0%nat x y / W 0%nat 0%nat x y) v) 2 u
    (@surf_d21 R NumR (fun a b => n a b u v) (fun a b => W a b u v)).
Proof. intros HR Hz. exact (surface_kernels_are_partials 2 1 u v ltac:(lia) HR Hz). Qed.
Corollary surf_d12_is_partial u v : inR u v -> W 0%nat 0%nat u v <> 0 ->
  is_derive (fun x => Derive_n (fun y => n 0%nat 0%nat x y / W 0%nat 0%nat x y) 2 v) u
    (@surf_d12 R NumR (fun a b => n a b u v) (fun a b => W a b u v)).
Proof. intros HR Hz. exact (surface_kernels_are_partials 1 2 u v ltac:(lia) HR Hz). Qed.
End Surface.

(* ------------------------------------------------------------------------------------------------ *)
(* 3. tangent and normal                                                                            *)
(* ------------------------------------------------------------------------------------------------ *)
(* splineobject.py, SplineObject.tangent (single point):
       v = self.derivative( *params, d=derivative, above=above, tensor=tensor)     [blank after "(" added: Coq comment]
       speed = np.linalg.norm(v)
       return v / speed
   surface.py, Surface.normal (dimension 3, single point):
       (du, dv) = self.tangent(u, v, above=above, tensor=tensor)
       normals = np.cross(du,dv)
       return normals / np.linalg.norm(normals)                                                      *)

Definition vec3 : Type := (R * R * R)%type.
Definition dot3 (a b : vec3) : R :=
  let '(a0, a1, a2) := a in let '(b0, b1, b2) := b in a0 * b0 + a1 * b1 + a2 * b2.
Definition cross3 (a b : vec3) : vec3 :=
  let '(a0, a1, a2) := a in let '(b0, b1, b2) := b in
  (a1 * b2 - a2 * b1, a2 * b0 - a0 * b2, a0 * b1 - a1 * b0).
Definition scal3 (c : R) (a : vec3) : vec3 := let '(a0, a1, a2) := a in (c * a0, c * a1, c * a2).
Definition norm3 (a : vec3) : R := sqrt (dot3 a a).
(* v / np.linalg.norm(v) *)
Definition normalize3 (a : vec3) : vec3 := let '(a0, a1, a2) := a in (a0 / norm3 a, a1 / norm3 a, a2 / norm3 a).
(* Surface.normal from the two velocity vectors (self.tangent returns the normalised ones) *)
Definition normal3 (du dv : vec3) : vec3 := normalize3 (cross3 (normalize3 du) (normalize3 dv)).

Lemma norm3_pos a : 0 < dot3 a a -> 0 < norm3 a.
Proof. intros H. unfold norm3. now apply sqrt_lt_R0. Qed.
Lemma norm3_sq a : 0 < dot3 a a -> norm3 a * norm3 a = dot3 a a.
Proof. intros H. unfold norm3. apply sqrt_sqrt. lra. Qed.

(* the tangent is a unit vector, a positive multiple of the velocity, hence parallel to it *)
Theorem normalize3_spec (v : vec3) : 0 < dot3 v v ->
  dot3 (normalize3 v) (normalize3 v) = 1 /\
  normalize3 v = scal3 (/ norm3 v) v /\ 0 < / norm3 v /\
  cross3 v (normalize3 v) = (0, 0, 0).
Proof.
  intros H. pose proof (norm3_pos v H) as Hp. pose proof (norm3_sq v H) as Hs.
  destruct v as [[x y] z]. set (N := norm3 (x, y, z)) in *.
  unfold normalize3. fold N. cbn [dot3 cross3 scal3] in *.
  repeat split.
  - replace (x / N * (x / N) + y / N * (y / N) + z / N * (z / N)) with ((x * x + y * y + z * z) / (N * N)) by (field; lra).
    rewrite Hs. field. lra.
  - f_equal; [f_equal|]; field; lra.
  - apply Rinv_0_lt_compat; exact Hp.
  - f_equal; [f_equal|]; field; lra.
Qed.

Lemma normalize3_scal c v : 0 < c -> 0 < dot3 v v -> normalize3 (scal3 c v) = normalize3 v.
Proof.
  intros Hc H. pose proof (norm3_pos v H) as Hp.
  assert (E : norm3 (scal3 c v) = c * norm3 v).
  { unfold norm3. destruct v as [[x y] z]. cbn [scal3 dot3] in *.
    replace (c * x * (c * x) + c * y * (c * y) + c * z * (c * z)) with ((c * c) * (x * x + y * y + z * z)) by ring.
    rewrite sqrt_mult by nra. rewrite sqrt_square by lra. reflexivity. }
  destruct v as [[x y] z]. unfold normalize3 at 1. cbn [scal3]. cbn [scal3] in E. rewrite E.
  unfold normalize3. f_equal; [f_equal|]; field; split; lra.
Qed.

Lemma cross3_scal c d a b : cross3 (scal3 c a) (scal3 d b) = scal3 (c * d) (cross3 a b).
Proof. destruct a as [[a0 a1] a2], b as [[b0 b1] b2]. cbn [cross3 scal3]. f_equal; [f_equal|]; ring. Qed.

(* Lagrange: |a x b|^2 = |a|^2 |b|^2 - (a.b)^2, so a x b <> 0 forces a <> 0 and b <> 0 *)
Lemma cross3_nz a b : 0 < dot3 (cross3 a b) (cross3 a b) -> 0 < dot3 a a /\ 0 < dot3 b b.
Proof.
  destruct a as [[a0 a1] a2], b as [[b0 b1] b2]. cbn [cross3 dot3]. intros H.
  assert (L : (a1 * b2 - a2 * b1) * (a1 * b2 - a2 * b1) + (a2 * b0 - a0 * b2) * (a2 * b0 - a0 * b2)
              + (a0 * b1 - a1 * b0) * (a0 * b1 - a1 * b0)
            = (a0 * a0 + a1 * a1 + a2 * a2) * (b0 * b0 + b1 * b1 + b2 * b2)
              - (a0 * b0 + a1 * b1 + a2 * b2) * (a0 * b0 + a1 * b1 + a2 * b2)) by ring.
  rewrite L in H.
  assert (HA : 0 <= a0 * a0 + a1 * a1 + a2 * a2) by nra. assert (HB : 0 <= b0 * b0 + b1 * b1 + b2 * b2) by nra.
  revert H HA HB. generalize (a0 * a0 + a1 * a1 + a2 * a2) (b0 * b0 + b1 * b1 + b2 * b2) (a0 * b0 + a1 * b1 + a2 * b2).
  intros A B D H HA HB. pose proof (Rle_0_sqr D) as HD. unfold Rsqr in HD.
  split.
  - destruct (Rle_lt_dec A 0) as [Z|Z]; [|exact Z]. replace A with 0 in H by lra. lra.
  - destruct (Rle_lt_dec B 0) as [Z|Z]; [|exact Z]. replace B with 0 in H by lra. lra.
Qed.

(* Surface.normal: a unit vector, orthogonal to both velocities, the normalised cross product of the
   (un-normalised) velocities, i.e. a positive multiple of du x dv *)
Theorem normal3_spec (du dv : vec3) : 0 < dot3 (cross3 du dv) (cross3 du dv) ->
  let N := normal3 du dv in
  dot3 N N = 1 /\ dot3 N du = 0 /\ dot3 N dv = 0 /\
  N = scal3 (/ norm3 (cross3 du dv)) (cross3 du dv) /\ 0 < / norm3 (cross3 du dv).
Proof.
  intros H N. destruct (cross3_nz du dv H) as [Ha Hb].
  pose proof (norm3_pos du Ha) as Pa. pose proof (norm3_pos dv Hb) as Pb.
  assert (E : N = normalize3 (cross3 du dv)).
  { unfold N, normal3.
    destruct (normalize3_spec du Ha) as (_ & -> & Ia & _). destruct (normalize3_spec dv Hb) as (_ & -> & Ib & _).
    rewrite cross3_scal. apply normalize3_scal; [nra|exact H]. }
  destruct (normalize3_spec (cross3 du dv) H) as (U & S & I & _).
  rewrite E. split; [exact U|]. split; [|split; [|split; [exact S|exact I]]].
  - rewrite S. destruct du as [[a0 a1] a2], dv as [[b0 b1] b2]. cbn [cross3 scal3 dot3]. ring.
  - rewrite S. destruct du as [[a0 a1] a2], dv as [[b0 b1] b2]. cbn [cross3 scal3 dot3]. ring.
Qed.

(* any physical dimension: v / |v| has unit length *)
Fixpoint dotl (u v : list R) : R :=
  match u, v with x :: u', y :: v' => x * y + dotl u' v' | _, _ => 0 end.
Definition normalizel (v : list R) : list R := map (fun x => x / sqrt (dotl v v)) v.

Lemma dotl_div c v : c <> 0 -> dotl (map (fun x => x / c) v) (map (fun x => x / c) v) = dotl v v / (c * c).
Proof. intros Hc. induction v as [|x v IH]; cbn [map dotl]; [field; exact Hc|]. rewrite IH. field. exact Hc. Qed.

Theorem normalizel_unit v : 0 < dotl v v -> dotl (normalizel v) (normalizel v) = 1.
Proof.
  intros H. unfold normalizel. assert (0 < sqrt (dotl v v)) by now apply sqrt_lt_R0.
  rewrite dotl_div by lra. rewrite sqrt_sqrt by lra. field. lra.
Qed.

(* ------------------------------------------------------------------------------------------------ *)
(* 4. splines                                                                                       *)
(* ------------------------------------------------------------------------------------------------ *)

(* r-th derivative of one homogeneous component of a spline curve: sum_i c_i dB^(r)_{i,q} *)
Definition spl (k : nat -> R) (q cnt : nat) (c : nat -> R) (r : nat) (s : R) : R :=
  sumf (fun i => c i * dB true k r q i s) 0 cnt.

Lemma spl_is_derive k (Hk : sorted k) m q cnt c r s : k m < s < k (S m) ->
  is_derive (spl k q cnt c r) s (spl k q cnt c (S r) s).
Proof.
  intros Hs. unfold spl.
  apply (is_derive_sumf (fun i y => c i * dB true k r q i y) (fun i y => c i * dB true k (S r) q i y)).
  intros i. apply is_derive_scal. exact (dB_is_derivative k Hk m s Hs r q i).
Qed.

(* MAIN (rational spline curves): inside an open knot span, for every order d <= 3, the kernel of order d applied
   to the dB sums is the d-th derivative of  (sum_i c_i B_i) / (sum_i w_i B_i) *)
Theorem rational_curve_derivative_is_derivative (k : nat -> R) (Hk : sorted k) (m q cnt : nat) (c w : nat -> R)
  (d : nat) (t : R) :
  (d <= 3)%nat -> k m < t < k (S m) -> sumf (fun i => w i * B true k q i t) 0 cnt <> 0 ->
  is_derive_n (fun s => sumf (fun i => c i * B true k q i s) 0 cnt / sumf (fun i => w i * B true k q i s) 0 cnt) d t
    (Qc (fun r => spl k q cnt c r t) (fun r => spl k q cnt w r t) d).
Proof.
  intros Hd Ht Hz.
  exact (curve_kernels_are_derivatives (k m) (k (S m)) (spl k q cnt c) (spl k q cnt w)
           (fun r s _ Hs => spl_is_derive k Hk m q cnt c r s Hs)
           (fun r s _ Hs => spl_is_derive k Hk m q cnt w r s Hs) d t Hd Ht Hz).
Qed.

Corollary rational_curve_d1 k (Hk : sorted k) m q cnt c w t :
  k m < t < k (S m) -> sumf (fun i => w i * B true k q i t) 0 cnt <> 0 ->
  is_derive (fun s => sumf (fun i => c i * B true k q i s) 0 cnt / sumf (fun i => w i * B true k q i s) 0 cnt) t
    (@quot1 R NumR (sumf (fun i => c i * dB true k 1 q i t) 0 cnt) (sumf (fun i => c i * B true k q i t) 0 cnt)
                   (sumf (fun i => w i * dB true k 1 q i t) 0 cnt) (sumf (fun i => w i * B true k q i t) 0 cnt)).
Proof. intros Ht Hz. exact (rational_curve_derivative_is_derivative k Hk m q cnt c w 1 t ltac:(lia) Ht Hz). Qed.

Corollary rational_curve_d2 k (Hk : sorted k) m q cnt c w t :
  k m < t < k (S m) -> sumf (fun i => w i * B true k q i t) 0 cnt <> 0 ->
  is_derive_n (fun s => sumf (fun i => c i * B true k q i s) 0 cnt / sumf (fun i => w i * B true k q i s) 0 cnt) 2 t
    (@curve_d2 R NumR (fun r => sumf (fun i => c i * dB true k r q i t) 0 cnt)
                      (fun r => sumf (fun i => w i * dB true k r q i t) 0 cnt)).
Proof. intros Ht Hz. exact (rational_curve_derivative_is_derivative k Hk m q cnt c w 2 t ltac:(lia) Ht Hz). Qed.

Corollary rational_curve_d3 k (Hk : sorted k) m q cnt c w t :
  k m < t < k (S m) -> sumf (fun i => w i * B true k q i t) 0 cnt <> 0 ->
  is_derive_n (fun s => sumf (fun i => c i * B true k q i s) 0 cnt / sumf (fun i => w i * B true k q i s) 0 cnt) 3 t
    (@curve_d3 R NumR (fun r => sumf (fun i => c i * dB true k r q i t) 0 cnt)
                      (fun r => sumf (fun i => w i * dB true k r q i t) 0 cnt)).
Proof. intros Ht Hz. exact (rational_curve_derivative_is_derivative k Hk m q cnt c w 3 t ltac:(lia) Ht Hz). Qed.

(* tensor-product surfaces: sum_a sum_b c_ab dB^(i)_a(u) dB^(j)_b(v) *)
Definition spl2 (k1 k2 : nat -> R) (q1 q2 c1 c2 : nat) (c : nat -> nat -> R) (i j : nat) (u v : R) : R :=
  sumf (fun a => sumf (fun b => c a b * dB true k1 i q1 a u * dB true k2 j q2 b v) 0 c2) 0 c1.

Lemma spl2_is_derive_u k1 k2 (H1 : sorted k1) m1 q1 q2 c1 c2 c i j u v : k1 m1 < u < k1 (S m1) ->
  is_derive (fun x => spl2 k1 k2 q1 q2 c1 c2 c i j x v) u (spl2 k1 k2 q1 q2 c1 c2 c (S i) j u v).
Proof.
  intros Hu. unfold spl2.
  apply (is_derive_sumf (fun a x => sumf (fun b => c a b * dB true k1 i q1 a x * dB true k2 j q2 b v) 0 c2)
                        (fun a x => sumf (fun b => c a b * dB true k1 (S i) q1 a x * dB true k2 j q2 b v) 0 c2)).
  intros a.
  apply (is_derive_sumf (fun b x => c a b * dB true k1 i q1 a x * dB true k2 j q2 b v)
                        (fun b x => c a b * dB true k1 (S i) q1 a x * dB true k2 j q2 b v)).
  intros b. pose proof (dB_is_derivative k1 H1 m1 u Hu i q1 a) as D.
  auto_derive; [eexists; exact D|]. derive_vals u. ring.
Qed.

Lemma spl2_is_derive_v k1 k2 (H2 : sorted k2) m2 q1 q2 c1 c2 c i j u v : k2 m2 < v < k2 (S m2) ->
  is_derive (fun y => spl2 k1 k2 q1 q2 c1 c2 c i j u y) v (spl2 k1 k2 q1 q2 c1 c2 c i (S j) u v).
Proof.
  intros Hv. unfold spl2.
  apply (is_derive_sumf (fun a y => sumf (fun b => c a b * dB true k1 i q1 a u * dB true k2 j q2 b y) 0 c2)
                        (fun a y => sumf (fun b => c a b * dB true k1 i q1 a u * dB true k2 (S j) q2 b y) 0 c2)).
  intros a.
  apply (is_derive_sumf (fun b y => c a b * dB true k1 i q1 a u * dB true k2 j q2 b y)
                        (fun b y => c a b * dB true k1 i q1 a u * dB true k2 (S j) q2 b y)).
  intros b. pose proof (dB_is_derivative k2 H2 m2 v Hv j q2 b) as D.
  auto_derive; [eexists; exact D|]. derive_vals v. ring.
Qed.

(* MAIN (rational spline surfaces): inside an open knot rectangle, for all ten multi-indices (i,j), i + j <= 3,
   the API value computed from the dB tensor sums is the mixed partial derivative of the rational map *)
Theorem rational_surface_derivative_is_partial (k1 k2 : nat -> R) (H1 : sorted k1) (H2 : sorted k2)
  (m1 m2 q1 q2 c1 c2 : nat) (c w : nat -> nat -> R) (i j : nat) (u v : R) :
  (i + j <= 3)%nat -> k1 m1 < u < k1 (S m1) -> k2 m2 < v < k2 (S m2) ->
  spl2 k1 k2 q1 q2 c1 c2 w 0 0 u v <> 0 ->
  is_derive_n (fun x => Derive_n (fun y => spl2 k1 k2 q1 q2 c1 c2 c 0 0 x y / spl2 k1 k2 q1 q2 c1 c2 w 0 0 x y) j v) i u
    (Qs (fun a b => spl2 k1 k2 q1 q2 c1 c2 c a b u v) (fun a b => spl2 k1 k2 q1 q2 c1 c2 w a b u v) i j).
Proof.
  intros Hij Hu Hv Hz.
  exact (surface_kernels_are_partials (k1 m1) (k1 (S m1)) (k2 m2) (k2 (S m2))
           (spl2 k1 k2 q1 q2 c1 c2 c) (spl2 k1 k2 q1 q2 c1 c2 w)
           (fun a b x y _ HR => spl2_is_derive_u k1 k2 H1 m1 q1 q2 c1 c2 c a b x y (proj1 HR))
           (fun a b x y _ HR => spl2_is_derive_v k1 k2 H2 m2 q1 q2 c1 c2 c a b x y (proj2 HR))
           (fun a b x y _ HR => spl2_is_derive_u k1 k2 H1 m1 q1 q2 c1 c2 w a b x y (proj1 HR))
           (fun a b x y _ HR => spl2_is_derive_v k1 k2 H2 m2 q1 q2 c1 c2 w a b x y (proj2 HR))
           i j u v Hij (conj Hu Hv) Hz).
Qed.

(* ------------------------------------------------------------------------------------------------ *)
(* 5. tangent / normal of rational objects are the normalised TRUE derivatives                      *)
(* ------------------------------------------------------------------------------------------------ *)

(* Curve.tangent of a rational curve in R^3: derivative(t, d=1) goes through quot1 componentwise, then v / |v| *)
Theorem rational_tangent_is_normalised_derivative (x y z W : R -> R) (t x' y' z' W' : R) :
  is_derive x t x' -> is_derive y t y' -> is_derive z t z' -> is_derive W t W' -> W t <> 0 ->
  normalize3 (@quot1 R NumR x' (x t) W' (W t), @quot1 R NumR y' (y t) W' (W t), @quot1 R NumR z' (z t) W' (W t))
  = normalize3 (Derive (fun s => x s / W s) t, Derive (fun s => y s / W s) t, Derive (fun s => z s / W s) t).
Proof.
  intros Hx Hy Hz HW Hnz.
  f_equal. f_equal; [f_equal|]; symmetry; apply is_derive_unique; apply quot1_is_derive; assumption.
Qed.

(* Surface.normal of a rational surface in R^3 at (u,v): both first-order partials through quot1, then
   normalise, cross, normalise *)
Theorem rational_normal_is_normalised_cross (x y z W : R -> R -> R) (u v xu yu zu Wu xv yv zv Wv : R) :
  is_derive (fun s => x s v) u xu -> is_derive (fun s => y s v) u yu -> is_derive (fun s => z s v) u zu ->
  is_derive (fun s => W s v) u Wu ->
  is_derive (fun s => x u s) v xv -> is_derive (fun s => y u s) v yv -> is_derive (fun s => z u s) v zv ->
  is_derive (fun s => W u s) v Wv -> W u v <> 0 ->
  let Du := (Derive (fun s => x s v / W s v) u, Derive (fun s => y s v / W s v) u, Derive (fun s => z s v / W s v) u) in
  let Dv := (Derive (fun s => x u s / W u s) v, Derive (fun s => y u s / W u s) v, Derive (fun s => z u s / W u s) v) in
  normal3 (@quot1 R NumR xu (x u v) Wu (W u v), @quot1 R NumR yu (y u v) Wu (W u v), @quot1 R NumR zu (z u v) Wu (W u v))
          (@quot1 R NumR xv (x u v) Wv (W u v), @quot1 R NumR yv (y u v) Wv (W u v), @quot1 R NumR zv (z u v) Wv (W u v))
  = normal3 Du Dv.
Proof.
  intros Hxu Hyu Hzu HWu Hxv Hyv Hzv HWv Hnz Du Dv. unfold Du, Dv.
  f_equal; (f_equal; [f_equal|]); symmetry; apply is_derive_unique;
    first [exact (quot1_is_derive (fun s => x s v) (fun s => W s v) u xu Wu Hxu HWu Hnz)
          |exact (quot1_is_derive (fun s => y s v) (fun s => W s v) u yu Wu Hyu HWu Hnz)
          |exact (quot1_is_derive (fun s => z s v) (fun s => W s v) u zu Wu Hzu HWu Hnz)
          |exact (quot1_is_derive (fun s => x u s) (fun s => W u s) v xv Wv Hxv HWv Hnz)
          |exact (quot1_is_derive (fun s => y u s) (fun s => W u s) v yv Wv Hyv HWv Hnz)
          |exact (quot1_is_derive (fun s => z u s) (fun s => W u s) v zv Wv Hzv HWv Hnz)].
Qed.

(* ------------------------------------------------------------------------------------------------ *)
(* 6. the hypotheses are satisfiable: concrete instances                                            *)
(* ------------------------------------------------------------------------------------------------ *)

(* n s = s, W s = 1 + s^2 and their derivative functions *)
Definition ex_n (r : nat) (s : R) : R := match r with 0%nat => s | 1%nat => 1 | _ => 0 end.
Definition ex_W (r : nat) (s : R) : R := match r with 0%nat => 1 + s * s | 1%nat => 2 * s | 2%nat => 2 | _ => 0 end.

Example curve_example_all_orders t d : (d <= 3)%nat ->
  is_derive_n (fun s => s / (1 + s * s)) d t (Qc (fun r => ex_n r t) (fun r => ex_W r t) d).
Proof.
  intros Hd.
  apply (curve_kernels_are_derivatives (t - 1) (t + 1) ex_n ex_W).
  - intros r s Hr _. destruct r as [|[|[|r]]]; [| | |lia]; unfold ex_n; (auto_derive; [exact I|ring]).
  - intros r s Hr _. destruct r as [|[|[|r]]]; [| | |lia]; unfold ex_W; (auto_derive; [exact I|ring]).
  - exact Hd.
  - lra.
  - cbn [ex_W]. nra.
Qed.

(* s/(1+s^2) = s - s^3 + ... : the third derivative at 0 is -6, through the regenerated kernel curve_d3 *)
Example curve_example_d3 : is_derive_n (fun s => s / (1 + s * s)) 3 0 (-6).
Proof.
  replace (-6) with (Qc (fun r => ex_n r 0) (fun r => ex_W r 0) 3).
  - apply curve_example_all_orders. lia.
  - unfold Qc, curve_d3, ex_n, ex_W; cbn [nadd nsub nmul ndiv nofZ n0 NumR]. field.
Qed.

(* n(u,v) = u v, W(u,v) = 1 + u^2 + v^2 *)
Definition ex_n2 (i j : nat) (u v : R) : R :=
  match i, j with 0%nat, 0%nat => u * v | 1%nat, 0%nat => v | 0%nat, 1%nat => u | 1%nat, 1%nat => 1 | _, _ => 0 end.
Definition ex_W2 (i j : nat) (u v : R) : R :=
  match i, j with 0%nat, 0%nat => 1 + u * u + v * v | 1%nat, 0%nat => 2 * u | 0%nat, 1%nat => 2 * v
                | 2%nat, 0%nat => 2 | 0%nat, 2%nat => 2 | _, _ => 0 end.

Example surface_example_all_orders u v i j : (i + j <= 3)%nat ->
  is_derive_n (fun x => Derive_n (fun y => x * y / (1 + x * x + y * y)) j v) i u
    (Qs (fun a b => ex_n2 a b u v) (fun a b => ex_W2 a b u v) i j).
Proof.
  intros Hij.
  apply (surface_kernels_are_partials (u - 1) (u + 1) (v - 1) (v + 1) ex_n2 ex_W2).
  - intros a b x y Hab _. destruct a as [|[|[|a]]]; destruct b as [|[|[|b]]]; try lia; unfold ex_n2; (auto_derive; [exact I|ring]).
  - intros a b x y Hab _. destruct a as [|[|[|a]]]; destruct b as [|[|[|b]]]; try lia; unfold ex_n2; (auto_derive; [exact I|ring]).
  - intros a b x y Hab _. destruct a as [|[|[|a]]]; destruct b as [|[|[|b]]]; try lia; unfold ex_W2; (auto_derive; [exact I|ring]).
  - intros a b x y Hab _. destruct a as [|[|[|a]]]; destruct b as [|[|[|b]]]; try lia; unfold ex_W2; (auto_derive; [exact I|ring]).
  - exact Hij.
  - lra.
  - cbn [ex_W2]. nra.
Qed.

(* the mixed second partial of u v / (1 + u^2 + v^2) at the origin is 1, through surf_d11 *)
Example surface_example_d11 :
  is_derive (fun x => Derive (fun y => x * y / (1 + x * x + y * y)) 0) 0 1.
Proof.
  pose proof (surface_example_all_orders 0 0 1 1 ltac:(lia)) as H.
  replace (Qs (fun a b => ex_n2 a b 0 0) (fun a b => ex_W2 a b 0 0) 1 1) with 1 in H; [exact H|].
  unfold Qs, surf_d11, ex_n2, ex_W2; cbn [nadd nsub nmul ndiv nofZ n0 NumR]. field.
Qed.

(* a rational quadratic spline curve on the uniform knots 0,1,2,...: all weights 1 (partition of unity), span [2,3) *)
Example spline_example (c : nat -> R) (d : nat) : (d <= 3)%nat ->
  is_derive_n (fun s => sumf (fun i => c i * B true INR 2 i s) 0 3 / sumf (fun i => 1 * B true INR 2 i s) 0 3) d (5/2)
    (Qc (fun r => spl INR 2 3 c r (5/2)) (fun r => spl INR 2 3 (fun _ => 1) r (5/2)) d).
Proof.
  intros Hd.
  assert (Hk : sorted INR) by (intros i j Hij; apply le_INR; exact Hij).
  apply (rational_curve_derivative_is_derivative INR Hk 2 2 3 c (fun _ => 1) d (5/2) Hd).
  - simpl INR. lra.
  - rewrite (sumf_ext _ (fun i => B true INR 2 i (5/2))) by (intros; ring).
    pose proof (partition_unity true INR Hk 2 2 (5/2) ltac:(lia)) as P. cbn [Nat.sub] in P.
    rewrite P; [lra|]. unfold in_span. simpl INR. lra.
Qed.

