(* From the Leibniz / Taylor-jet identities (Proofs/RatDeriv.v) to TRUE derivatives (Coquelicot):
   what the regenerated rational kernels (Gen/RatDerivGeneric.v quot1, Gen/RatDerivCurve.v curve_d2 curve_d3,
   Gen/RatDerivSurface.v surf_dXY) return, when they are fed with the derivatives of the homogeneous
   numerator n and weight W, IS the (iterated / mixed partial) derivative of the quotient n / W.

   1. curves:   is_derive_n (fun s => n s / W s) d t (kernel_d ...)        d = 0..3
   2. quot1 in one variable (any pardim), surfaces: all ten multi-indices (i,j), i + j <= 3, as nested
      Derive_n (partial in u of the partial in v, and the other nesting)
   3. tangent / normal: normalised first derivatives and their cross product
   4. splines: inside an open knot span the homogeneous components are spline sums whose derivatives are the
      dB sums, hence the kernels applied to the dB sums are the derivatives of the rational curve / surface. *)
From Coq Require Import List Arith Reals Lra Lia Bool ZArith.
From Coquelicot Require Import Coquelicot.
From SplipyModel Require Import Spec.BSpline Spec.Deriv Spec.DerivAnalytic Model.Num
  Gen.RatDerivGeneric Gen.RatDerivCurve Gen.RatDerivSurface Proofs.RatDeriv.
Import ListNotations.
Open Scope R_scope.

(* ------------------------------------------------------------------------------------------------ *)
(* 0. small analysis toolbox                                                                        *)
(* ------------------------------------------------------------------------------------------------ *)

Lemma locally_itv a b s : a < s < b -> locally s (fun y => a < y < b).
Proof. intros H. exact (open_and _ _ (open_gt a) (open_lt b) s H). Qed.

(* a function that is differentiable (hence continuous) at s and does not vanish there does not vanish nearby *)
Lemma locally_nz (g : R -> R) s l : is_derive g s l -> g s <> 0 -> locally s (fun y => g y <> 0).
Proof.
  intros Hd Hz.
  assert (C : continuous g s).
  { apply (ex_derive_continuous (K := R_AbsRing) (V := R_NormedModule) g s). exists l; exact Hd. }
  apply (C (fun z => z <> 0)).
  assert (He : 0 < Rabs (g s)) by (apply Rabs_pos_lt; exact Hz).
  exists (mkposreal _ He). intros z Hb.
  unfold ball in Hb; cbn in Hb. unfold AbsRing_ball, abs, minus, plus, opp in Hb; cbn in Hb.
  intros ->. replace (0 + - g s) with (- g s) in Hb by ring. rewrite Rabs_Ropp in Hb. lra.
Qed.

(* a chain K 0, K 1, ..., K d of functions on an open set U, each the derivative of the previous one:
   K r is the r-th derivative of K 0 *)
Lemma chain_is_derive_n (U : R -> Prop) (K : nat -> R -> R) (d : nat) :
  (forall s, U s -> locally s U) ->
  (forall r s, (r < d)%nat -> U s -> is_derive (K r) s (K (S r) s)) ->
  forall r, (r <= d)%nat -> forall s, U s -> is_derive_n (K 0%nat) r s (K r s).
Proof.
  intros HU HK. induction r as [|r IH]; intros Hr s Hs.
  - reflexivity.
  - cbn [is_derive_n]. apply (is_derive_ext_loc (K r)).
    + generalize (HU s Hs). apply filter_imp. intros y Hy. symmetry.
      apply is_derive_n_unique. apply IH; [lia|exact Hy].
    + apply HK; [lia|exact Hs].
Qed.

(* linearity of is_derive over the finite sums of Spec/BSpline.v *)
Lemma is_derive_sumf (f f' : nat -> R -> R) t :
  (forall i, is_derive (f i) t (f' i t)) ->
  forall n a, is_derive (fun s => sumf (fun i => f i s) a n) t (sumf (fun i => f' i t) a n).
Proof.
  intros H. induction n as [|n IH]; intros a; cbn [sumf].
  - apply @is_derive_const.
  - exact (is_derive_plus _ _ t _ _ (H a) (IH (S a))).
Qed.

Ltac derive_vals t :=
  repeat match goal with |- context[Derive ?h t] => erewrite (is_derive_unique h t) by eassumption end.

(* ------------------------------------------------------------------------------------------------ *)
(* 1. curves                                                                                        *)
(* ------------------------------------------------------------------------------------------------ *)

(* pointwise step: f r, g r are the r-th derivatives of numerator and weight (as functions of the parameter);
   Qc (Proofs/RatDeriv.v) is what the API returns for order a:  n/W, quot1, curve_d2, curve_d3 *)
Section CurveChain.
Variables f g : nat -> R -> R.
Variable t : R.
Hypothesis Hf : forall r, (r < 3)%nat -> is_derive (f r) t (f (S r) t).
Hypothesis Hg : forall r, (r < 3)%nat -> is_derive (g r) t (g (S r) t).
Hypothesis Wnz : g 0%nat t <> 0.

Definition Kc (a : nat) (s : R) : R := Qc (fun r => f r s) (fun r => g r s) a.

Lemma Kc_chain a : (a < 3)%nat -> is_derive (Kc a) t (Kc (S a) t).
Proof.
  intros Ha.
  pose proof (Hf 0%nat ltac:(lia)) as F0. pose proof (Hf 1%nat ltac:(lia)) as F1. pose proof (Hf 2%nat ltac:(lia)) as F2.
  pose proof (Hg 0%nat ltac:(lia)) as G0. pose proof (Hg 1%nat ltac:(lia)) as G1. pose proof (Hg 2%nat ltac:(lia)) as G2.
  destruct a as [|[|[|a]]]; [| | |lia]; unfold Kc, Qc, quot1, curve_d2, curve_d3;
  cbn [nadd nsub nmul ndiv nofZ n0 NumR];
  (auto_derive; [repeat split; try (eexists; eassumption); exact Wnz|]);
  derive_vals t; field; exact Wnz.
Qed.
End CurveChain.

Section Curve.
Variables a b : R.
(* n r, W r : the r-th derivative functions of the numerator component and of the weight on (a,b) *)
Variables n W : nat -> R -> R.
Hypothesis Hn : forall r s, (r < 3)%nat -> a < s < b -> is_derive (n r) s (n (S r) s).
Hypothesis HW : forall r s, (r < 3)%nat -> a < s < b -> is_derive (W r) s (W (S r) s).

Let U (s : R) : Prop := a < s < b /\ W 0%nat s <> 0.

Lemma curve_U_open s : U s -> locally s U.
Proof.
  intros [Hs Hz]. apply filter_and; [exact (locally_itv a b s Hs)|].
  exact (locally_nz (W 0%nat) s _ (HW 0%nat s ltac:(lia) Hs) Hz).
Qed.

(* the value the API returns for order d, as a function of the parameter *)
Definition curve_kernel (d : nat) (s : R) : R := Qc (fun r => n r s) (fun r => W r s) d.

Theorem curve_kernel_step d t : (d < 3)%nat -> a < t < b -> W 0%nat t <> 0 ->
  is_derive (curve_kernel d) t (curve_kernel (S d) t).
Proof.
  intros Hd Ht Hz.
  exact (Kc_chain n W t (fun r Hr => Hn r t Hr Ht) (fun r Hr => HW r t Hr Ht) Hz d Hd).
Qed.

(* MAIN (curves): for every order d <= 3 the API value is the d-th derivative of the quotient *)
Theorem curve_kernels_are_derivatives d t : (d <= 3)%nat -> a < t < b -> W 0%nat t <> 0 ->
  is_derive_n (fun s => n 0%nat s / W 0%nat s) d t (Qc (fun r => n r t) (fun r => W r t) d).
Proof.
  intros Hd Ht Hz.
  exact (chain_is_derive_n U curve_kernel 3 curve_U_open
           (fun r s Hr Hs => curve_kernel_step r s Hr (proj1 Hs) (proj2 Hs)) d Hd t (conj Ht Hz)).
Qed.

(* the three orders spelled out with the kernels by name and in their argument order *)
Corollary curve_d1_is_derivative t : a < t < b -> W 0%nat t <> 0 ->
  is_derive (fun s => n 0%nat s / W 0%nat s) t
    (@quot1 R NumR (n 1%nat t) (n 0%nat t) (W 1%nat t) (W 0%nat t)).
Proof. intros Ht Hz. exact (curve_kernels_are_derivatives 1 t ltac:(lia) Ht Hz). Qed.

Corollary curve_d2_is_second_derivative t : a < t < b -> W 0%nat t <> 0 ->
  is_derive_n (fun s => n 0%nat s / W 0%nat s) 2 t (@curve_d2 R NumR (fun r => n r t) (fun r => W r t)).
Proof. intros Ht Hz. exact (curve_kernels_are_derivatives 2 t ltac:(lia) Ht Hz). Qed.

Corollary curve_d3_is_third_derivative t : a < t < b -> W 0%nat t <> 0 ->
  is_derive_n (fun s => n 0%nat s / W 0%nat s) 3 t (@curve_d3 R NumR (fun r => n r t) (fun r => W r t)).
Proof. intros Ht Hz. exact (curve_kernels_are_derivatives 3 t ltac:(lia) Ht Hz). Qed.

(* the same as an explicit chain of is_derive: the d=2 value is the derivative of the d=1 value, ... *)
Corollary curve_d2_is_derivative_of_d1 t : a < t < b -> W 0%nat t <> 0 ->
  is_derive (fun s => @quot1 R NumR (n 1%nat s) (n 0%nat s) (W 1%nat s) (W 0%nat s)) t
    (@curve_d2 R NumR (fun r => n r t) (fun r => W r t)).
Proof. intros Ht Hz. exact (curve_kernel_step 1 t ltac:(lia) Ht Hz). Qed.

Corollary curve_d3_is_derivative_of_d2 t : a < t < b -> W 0%nat t <> 0 ->
  is_derive (fun s => @curve_d2 R NumR (fun r => n r s) (fun r => W r s)) t
    (@curve_d3 R NumR (fun r => n r t) (fun r => W r t)).
Proof. intros Ht Hz. exact (curve_kernel_step 2 t ltac:(lia) Ht Hz). Qed.

Corollary curve_Derive_n d t : (d <= 3)%nat -> a < t < b -> W 0%nat t <> 0 ->
  Derive_n (fun s => n 0%nat s / W 0%nat s) d t = Qc (fun r => n r t) (fun r => W r t) d.
Proof. intros Hd Ht Hz. apply is_derive_n_unique. exact (curve_kernels_are_derivatives d t Hd Ht Hz). Qed.
End Curve.

(* ------------------------------------------------------------------------------------------------ *)
(* 2. quot1 in one variable of many; surfaces                                                       *)
(* ------------------------------------------------------------------------------------------------ *)

(* SplineObject.derivative, any pardim, one direction: a parameter tuple p : nat -> R, direction i moves *)
Definition upd (p : nat -> R) (i : nat) (x : R) : nat -> R := fun j => if Nat.eqb j i then x else p j.

(* the generated kernel quot1 is the quotient rule *)
Theorem quot1_is_derive (f g : R -> R) (x fd gd : R) :
  is_derive f x fd -> is_derive g x gd -> g x <> 0 ->
  is_derive (fun y => f y / g y) x (@quot1 R NumR fd (f x) gd (g x)).
Proof.
  intros Hf Hg Hz. unfold quot1; cbn [nsub nmul ndiv NumR].
  auto_derive; [repeat split; try (eexists; eassumption); exact Hz|].
  derive_vals x. field. exact Hz.
Qed.

Theorem quot1_is_partial_derivative (n W : (nat -> R) -> R) (p : nat -> R) (i : nat) (x nd Wd : R) :
  is_derive (fun y => n (upd p i y)) x nd -> is_derive (fun y => W (upd p i y)) x Wd -> W (upd p i x) <> 0 ->
  is_derive (fun y => n (upd p i y) / W (upd p i y)) x (@quot1 R NumR nd (n (upd p i x)) Wd (W (upd p i x))).
Proof.
  intros Hn HW Hz.
  exact (quot1_is_derive (fun y => n (upd p i y)) (fun y => W (upd p i y)) x nd Wd Hn HW Hz).
Qed.

(* pointwise steps for the surface kernels; f a b, g a b : the (a,b) partial derivatives along a line *)
Section SurfChain.
Variables f g : nat -> nat -> R -> R.
Variable t : R.
Hypothesis Wnz : g 0%nat 0%nat t <> 0.

Definition Ks (i j : nat) (s : R) : R := Qs (fun a b => f a b s) (fun a b => g a b s) i j.

Ltac surf_step t Wnz :=
  unfold Ks, Qs, quot1, surf_d11, surf_d20, surf_d02, surf_d30, surf_d03, surf_d21, surf_d12;
  cbn [nadd nsub nmul ndiv nofZ n0 NumR];
  (auto_derive; [repeat split; try (eexists; eassumption); exact Wnz|]);
  derive_vals t; field; exact Wnz.

(* the line is parallel to u *)
Lemma Ks_chain_u :
  (forall a b, (a + b < 3)%nat -> is_derive (f a b) t (f (S a) b t)) ->
  (forall a b, (a + b < 3)%nat -> is_derive (g a b) t (g (S a) b t)) ->
  forall i j, (i + j < 3)%nat -> is_derive (Ks i j) t (Ks (S i) j t).
Proof.
  intros Hf Hg i j Hij.
  pose proof (Hf 0%nat 0%nat ltac:(lia)) as F00. pose proof (Hf 1%nat 0%nat ltac:(lia)) as F10.
  pose proof (Hf 0%nat 1%nat ltac:(lia)) as F01. pose proof (Hf 2%nat 0%nat ltac:(lia)) as F20.
  pose proof (Hf 1%nat 1%nat ltac:(lia)) as F11. pose proof (Hf 0%nat 2%nat ltac:(lia)) as F02.
  pose proof (Hg 0%nat 0%nat ltac:(lia)) as G00. pose proof (Hg 1%nat 0%nat ltac:(lia)) as G10.
  pose proof (Hg 0%nat 1%nat ltac:(lia)) as G01. pose proof (Hg 2%nat 0%nat ltac:(lia)) as G20.
  pose proof (Hg 1%nat 1%nat ltac:(lia)) as G11. pose proof (Hg 0%nat 2%nat ltac:(lia)) as G02.
  destruct i as [|[|[|i]]]; destruct j as [|[|[|j]]]; try lia; surf_step t Wnz.
Qed.

(* the line is parallel to v *)
Lemma Ks_chain_v :
  (forall a b, (a + b < 3)%nat -> is_derive (f a b) t (f a (S b) t)) ->
  (forall a b, (a + b < 3)%nat -> is_derive (g a b) t (g a (S b) t)) ->
  forall i j, (i + j < 3)%nat -> is_derive (Ks i j) t (Ks i (S j) t).
Proof.
  intros Hf Hg i j Hij.
  pose proof (Hf 0%nat 0%nat ltac:(lia)) as F00. pose proof (Hf 1%nat 0%nat ltac:(lia)) as F10.
  pose proof (Hf 0%nat 1%nat ltac:(lia)) as F01. pose proof (Hf 2%nat 0%nat ltac:(lia)) as F20.
  pose proof (Hf 1%nat 1%nat ltac:(lia)) as F11. pose proof (Hf 0%nat 2%nat ltac:(lia)) as F02.
  pose proof (Hg 0%nat 0%nat ltac:(lia)) as G00. pose proof (Hg 1%nat 0%nat ltac:(lia)) as G10.
  pose proof (Hg 0%nat 1%nat ltac:(lia)) as G01. pose proof (Hg 2%nat 0%nat ltac:(lia)) as G20.
  pose proof (Hg 1%nat 1%nat ltac:(lia)) as G11. pose proof (Hg 0%nat 2%nat ltac:(lia)) as G02.
  destruct i as [|[|[|i]]]; destruct j as [|[|[|j]]]; try lia; surf_step t Wnz.
Qed.
End SurfChain.
