(* A complete characterisation of snap() through the set of knot values, and its consequence for knot insertion:
   a parameter that is not within the tolerance of the inserted knot snaps the same way before and after. *)
From Coq Require Import List Arith Reals Lra Lia Bool ZArith.
From SplipyModel Require Import Spec.BSpline Model.Num Model.BasisDef Model.BasisEval
  Proofs.KnotList Proofs.SpanCorrect Proofs.EvaluateSpec Proofs.SnapSpec.
Import ListNotations.
Open Scope R_scope.

Definition IsUp (k : list R) (t y : R) : Prop := In y k /\ t <= y /\ forall v, In v k -> t <= v -> y <= v.
Definition IsDn (k : list R) (t z : R) : Prop := In z k /\ z < t /\ forall v, In v k -> v < t -> v <= z.

Lemma IsUp_unique k t y y' : IsUp k t y -> IsUp k t y' -> y = y'.
Proof. intros (I1 & G1 & M1) (I2 & G2 & M2). pose proof (M1 y' I2 G2). pose proof (M2 y I1 G1). lra. Qed.
Lemma IsDn_unique k t z z' : IsDn k t z -> IsDn k t z' -> z = z'.
Proof. intros (I1 & G1 & M1) (I2 & G2 & M2). pose proof (M1 z' I2 G2). pose proof (M2 z I1 G1). lra. Qed.

Definition near (tol a t : R) : Prop := Rabs (a - t) < tol.

(* the three exclusive cases of snap *)
Definition snap_case (k : list R) (tol t r : R) : Prop :=
  (exists y, IsUp k t y /\ near tol y t /\ r = y) \/
  ((forall y, IsUp k t y -> ~ near tol y t) /\ exists z, IsDn k t z /\ near tol z t /\ r = z) \/
  ((forall y, IsUp k t y -> ~ near tol y t) /\ (forall z, IsDn k t z -> ~ near tol z t) /\ r = t).

Lemma kn_In' (k : list R) i : (i < length k)%nat -> In (@kn R NumR k i) k.
Proof. intros Hi. rewrite (kn_in k i Hi 0). apply nth_In, Hi. Qed.

Theorem snap1_case (k : list R) tol t : sorted (@kn R NumR k) -> snap_case k tol t (@snap1 R NumR k tol t).
Proof.
  intros HK. unfold snap1. cbv zeta.
  destruct (bisect_left_spec (@kn R NumR k) HK t (length k)) as (A & Bm & Cm). cbv zeta in *.
  set (i := @bisect_left R NumR (@kn R NumR k) t (length k)) in *.
  set (K := @kn R NumR k) in *.
  rewrite !nabs_R. cbn [nltb nsub NumR].
  assert (UpI : (i < length k)%nat -> IsUp k t (K i)).
  { intros L. split; [apply kn_In'; exact L|]. split; [apply Cm; lia|].
    intros v Hv Hge. destruct (In_nth k v 0 Hv) as (j & Hj & Ej). rewrite <- (kn_in k j Hj 0) in Ej. fold K in Ej.
    assert (i <= j)%nat. { destruct (Nat.le_gt_cases i j); [assumption|]. pose proof (Bm j ltac:(lia)). lra. }
    rewrite <- Ej. apply HK. assumption. }
  assert (NoUp : ~ (i < length k)%nat -> forall y, ~ IsUp k t y).
  { intros L y (Iy & Gy & _). destruct (In_nth k y 0 Iy) as (j & Hj & Ej). rewrite <- (kn_in k j Hj 0) in Ej. fold K in Ej.
    pose proof (Bm j ltac:(lia)). lra. }
  assert (DnI : (0 < i)%nat -> IsDn k t (K (i - 1)%nat)).
  { intros L. split; [apply kn_In'; lia|]. split; [apply Bm; lia|].
    intros v Hv Hlt. destruct (In_nth k v 0 Hv) as (j & Hj & Ej). rewrite <- (kn_in k j Hj 0) in Ej. fold K in Ej.
    assert (j < i)%nat. { destruct (Nat.le_gt_cases i j); [|assumption]. pose proof (Cm j ltac:(lia)). lra. }
    rewrite <- Ej. apply HK. lia. }
  assert (NoDn : ~ (0 < i)%nat -> forall z, ~ IsDn k t z).
  { intros L z (Iz & Gz & _). destruct (In_nth k z 0 Iz) as (j & Hj & Ej). rewrite <- (kn_in k j Hj 0) in Ej. fold K in Ej.
    pose proof (Cm j ltac:(lia)). lra. }
  unfold snap_case, near.
  destruct (Nat.ltb_spec i (length k)) as [L|L]; cbn [andb].
  - destruct (Rltb_spec (Rabs (K i - t)) tol) as [E|E].
    + left. exists (K i). split; [apply UpI, L|]. split; [exact E|reflexivity].
    + assert (NU : forall y, IsUp k t y -> ~ Rabs (y - t) < tol).
      { intros y Hy. rewrite (IsUp_unique k t y (K i) Hy (UpI L)). exact E. }
      destruct (Nat.ltb_spec 0 i) as [L0|L0]; cbn [andb].
      * destruct (Rltb_spec (Rabs (K (i-1)%nat - t)) tol) as [E2|E2].
        -- right. left. split; [exact NU|]. exists (K (i-1)%nat). split; [apply DnI, L0|]. split; [exact E2|reflexivity].
        -- right. right. split; [exact NU|]. split; [|reflexivity].
           intros z Hz. rewrite (IsDn_unique k t z (K (i-1)%nat) Hz (DnI L0)). exact E2.
      * right. right. split; [exact NU|]. split; [|reflexivity]. intros z Hz. exfalso. apply (NoDn ltac:(lia) z Hz).
  - assert (NU : forall y, IsUp k t y -> ~ Rabs (y - t) < tol) by (intros y Hy; exfalso; apply (NoUp ltac:(lia) y Hy)).
    destruct (Nat.ltb_spec 0 i) as [L0|L0]; cbn [andb].
    + destruct (Rltb_spec (Rabs (K (i-1)%nat - t)) tol) as [E2|E2].
      * right. left. split; [exact NU|]. exists (K (i-1)%nat). split; [apply DnI, L0|]. split; [exact E2|reflexivity].
      * right. right. split; [exact NU|]. split; [|reflexivity].
        intros z Hz. rewrite (IsDn_unique k t z (K (i-1)%nat) Hz (DnI L0)). exact E2.
    + right. right. split; [exact NU|]. split; [|reflexivity]. intros z Hz. exfalso. apply (NoDn ltac:(lia) z Hz).
Qed.

(* the cases determine the result *)
Lemma snap_case_unique k tol t r r' : snap_case k tol t r -> snap_case k tol t r' -> r = r'.
Proof.
  intros [(y & U & N & E1) | [(NU & z & D & N & E1) | (NU & ND & E1)]];
  intros [(y2 & U2 & N2 & E2) | [(NU2 & z2 & D2 & N2 & E2) | (NU2 & ND2 & E2)]];
    subst r r';
    try (exfalso; (apply (NU2 y U N) || apply (NU y2 U2 N2) || apply (ND2 z D N) || apply (ND z2 D2 N2)); fail).
  - apply (IsUp_unique k t); assumption.
  - apply (IsDn_unique k t); assumption.
  - reflexivity.
Qed.

(* adding one value x that is not near t does not change the case *)
Section AddValue.
Variables (k k2 : list R) (x tol t : R).
Hypothesis Hvals : forall v, In v k2 <-> (In v k \/ v = x).
Hypothesis Hfar : ~ near tol x t.
Hypothesis Htol : 0 < tol.

Lemma up_transfer y : IsUp k2 t y -> near tol y t -> IsUp k t y.
Proof.
  intros (I & G & M) N. assert (Iy : In y k). { apply Hvals in I. destruct I as [I | ->]; [exact I|contradiction]. }
  split; [exact Iy|]. split; [exact G|]. intros v Hv Hge. apply M; [apply Hvals; left; exact Hv|exact Hge].
Qed.
Lemma dn_transfer z : IsDn k2 t z -> near tol z t -> IsDn k t z.
Proof.
  intros (I & G & M) N. assert (Iz : In z k). { apply Hvals in I. destruct I as [I | ->]; [exact I|contradiction]. }
  split; [exact Iz|]. split; [exact G|]. intros v Hv Hlt. apply M; [apply Hvals; left; exact Hv|exact Hlt].
Qed.
(* a near upper (lower) neighbour in k stays the upper (lower) neighbour in k2 *)
Lemma up_back y : IsUp k t y -> near tol y t -> IsUp k2 t y.
Proof.
  intros (I & G & M) N. split; [apply Hvals; left; exact I|]. split; [exact G|].
  intros v Hv Hge. apply Hvals in Hv. destruct Hv as [Hv | ->]; [apply M; assumption|].
  unfold near in *. destruct (Rle_dec y x); [assumption|]. exfalso. apply Hfar.
  rewrite Rabs_right in N by lra. rewrite Rabs_right by lra. lra.
Qed.
Lemma dn_back z : IsDn k t z -> near tol z t -> IsDn k2 t z.
Proof.
  intros (I & G & M) N. split; [apply Hvals; left; exact I|]. split; [exact G|].
  intros v Hv Hlt. apply Hvals in Hv. destruct Hv as [Hv | ->]; [apply M; assumption|].
  unfold near in *. destruct (Rle_dec x z); [assumption|]. exfalso. apply Hfar.
  rewrite Rabs_left in N by lra. rewrite Rabs_left by lra. lra.
Qed.

Theorem snap_case_add r : snap_case k tol t r -> snap_case k2 tol t r.
Proof.
  assert (NUk2 : (forall y, IsUp k t y -> ~ near tol y t) -> forall y, IsUp k2 t y -> ~ near tol y t).
  { intros NU y U N. apply (NU y (up_transfer y U N) N). }
  assert (NDk2 : (forall z, IsDn k t z -> ~ near tol z t) -> forall z, IsDn k2 t z -> ~ near tol z t).
  { intros ND z D N. apply (ND z (dn_transfer z D N) N). }
  intros [(y & U & N & E1) | [(NU & z & D & N & E1) | (NU & ND & E1)]]; subst r.
  - left. exists y. split; [apply up_back; assumption|]. split; [exact N|reflexivity].
  - right. left. split; [apply NUk2, NU|]. exists z. split; [apply dn_back; assumption|]. split; [exact N|reflexivity].
  - right. right. split; [apply NUk2, NU|]. split; [apply NDk2, ND|reflexivity].
Qed.
End AddValue.

(* snap after inserting x: unchanged for every parameter that is not within the tolerance of x *)
Theorem snap1_insert_far (k k2 : list R) x tol t :
  sorted (@kn R NumR k) -> sorted (@kn R NumR k2) -> (forall v, In v k2 <-> (In v k \/ v = x)) -> 0 < tol ->
  tol <= Rabs (x - t) -> @snap1 R NumR k2 tol t = @snap1 R NumR k tol t.
Proof.
  intros S1 S2 Hv Htol Hfar.
  apply (snap_case_unique k2 tol t); [apply snap1_case; exact S2|].
  apply (snap_case_add k k2 x tol t Hv); [unfold near; lra|apply snap1_case; exact S1].
Qed.
