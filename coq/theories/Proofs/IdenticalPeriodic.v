(* C12 on PERIODIC directions, end to end on the model's own functions: [identical_dir] (one direction of
   SplineObject.make_splines_identical) and [obj_make_identical] with an explicit direction, for EQUAL ORDERS in
   direction i (no order elevation: obj_raise_order with amount 0 is the identity), the direction being periodic in at
   least one operand.  Periodic operands carry a canonical periodic knot list with at least order + continuity functions
   (per_canon of Proofs/PeriodicInsert.v) whose seam is strict (per_strict of Proofs/PeriodicSplit.v).

   Part 1  lists: a canonical periodic knot list is determined by one period (canon_ext); the multiplicity of the END
           knot of the list is min(p, multiplicity of the start knot in the period) (mult_end_window)
   Part 2  BSplineBasis.continuity and missing_knots on periodic bases, closed form (continuity_mult_per,
           missing_knots_closed_per); knot_spans of a canonical periodic list = its knot values in [start, end]
   Part 3  insertion of the missing knots in a periodic direction on the object (insert_flat_per, ins_stage_per;
           from Proofs/PeriodicSplit.v insert_copies_per = Proofs/PeriodicInsert.v on obj_insert_knots)
   Part 4  case (a): both operands periodic in direction i with the SAME continuity: identical_tail unfolded, both
           insertion stages, the common knot list, evaluation
   Part 5  case (a), theorems (hypotheses: identical_per_hyps; satisfied by exp_hyps):
             identical_dir_per_ok      the computation succeeds
             identical_dir_per_knots   same order, same periodicity, period [0,1], the SAME knot list (again canonical), every
                                       knot of the period with the larger of its two multiplicities
             identical_dir_per_eval/2  each result evaluates, at the rescaled parameter, to the padded point of the operand
                                       (parameters of the closed base period clear of the knots of both operands)
             make_identical_per_ok/knots/eval/eval2   the same for obj_make_identical tol o1 o2 (Some i)
   Part 6  non-vacuity (a): two cubic C^2-periodic curves with 8 functions and different knots
   Part 7  case (b), one operand periodic, the other one not: the KNOT LIST of the object returned by
           obj_lower_periodic ... 0 (lower_open_struct: per1 more copies of the start knot, one period, p copies of the end
           knot), the non-periodic insertion stages for arbitrary objects (open_forward), both operands normalised
           (norm_open_side, norm_per_side), identical_tail unfolded (open_tail_ok, low_core_ok)
   Part 8  case (b), theorems: identical_dir_open_per_ok / identical_dir_open_per (first operand open, hypotheses
           identical_op_hyps, satisfied by exb_hyps_op), identical_dir_per_open_ok / identical_dir_per_open (second operand
           open, identical_po_hyps, exb_hyps_po); the statement is [low_facts]: success, both results NON-periodic with the
           same order, domain [0,1] and knot list (multiplicities = maxima), both maps preserved
   Part 9  case (c), both periodic with different continuity: obj_lower_periodic down to a periodic target
           (lower_per_struct: again canonical and strict, m more copies of the seam knot in the period), the periodic
           stages for arbitrary objects (per_forward), normalisation (pnorm_side), per_core_ok
   Part 10 case (c), theorems: identical_dir_lower2_ok / identical_dir_lower2 (the second operand is lowered, hypotheses
           identical_lo2_hyps, satisfied by exc_hyps_lo2), identical_dir_lower1_ok / identical_dir_lower1 (identical_lo1_hyps,
           exc_hyps_lo1); the statement is [per_facts]: success, both results periodic with the SMALLER continuity, the same
           order, period [0,1] and knot list, both maps preserved

   Findings on the Python implementation while choosing the hypotheses (PYTHONPATH=/repo, see the report):
     * different seam multiplicities (e.g. a C^2-periodic cubic after insert_knot(start) against a plain one): the seam knot
       is met twice in knots(), as start and as end, and inserted twice (the end value is wrapped onto the start); the two
       results have DIFFERENT knot vectors (11 and 10 functions); geometry preserved.  Excluded by ip_seam / l2_seam.
     * a knot of one operand within the tolerance of the seam of the other one (either side): different knot vectors.
       Excluded by the separation hypothesis on the periodic images (ip_sep etc.), as in the non-periodic theorem. *)
From Coq Require Import List Arith Reals Lra Lia Bool ZArith Permutation Sorted.
From SplipyModel Require Import Spec.BSpline Model.Num Model.BasisDef Model.BasisEval Model.Tensor Model.Obj Model.KnotInsert
  Model.Tol Model.Reparam Model.Affine Model.Solve Model.Interp Model.Order Model.Split Model.Periodic Model.Identical
  Proofs.KnotList Proofs.SpanCorrect Proofs.EvaluateSpec Proofs.EvalConsequences Proofs.SnapSpec Proofs.SnapChar
  Proofs.TensorLemmas Proofs.ObjEval Proofs.InsertMatrix Proofs.TensorApply Proofs.InsertObj Proofs.InsertEndToEnd
  Proofs.InsertListEndToEnd Proofs.ChangeDirEval Proofs.OrderProofs Proofs.LinAlg Proofs.RaiseNested Proofs.OrderRaise
  Proofs.RaiseAmount Proofs.RaiseEndToEnd Proofs.ReparamObj Proofs.ReparamEndToEnd Proofs.TolProofs Proofs.AffineProofs
  Proofs.IdenticalProofs Proofs.SplitCompose Proofs.IdenticalEndToEnd Proofs.PeriodicInsert Proofs.PeriodicEndToEnd
  Proofs.PeriodicSplit.
Import ListNotations.
Open Scope R_scope.

(* ================================================================================================ *)
(* Part 1: lists *)

Lemma ip_skipn_skipn {A} (a b : nat) (l : list A) : skipn a (skipn b l) = skipn (b + a) l.
Proof.
  revert l. induction b as [|b IH]; intros l; [reflexivity|]. destruct l as [|x l]; [destruct a; reflexivity|].
  cbn [skipn Nat.add]. apply IH.
Qed.

(* the copies of the minimum of a sorted list are at its front *)
Lemma count_firstn_min (x : R) : forall (L : list R) m, lsorted L -> (forall y, In y L -> x <= y) ->
  count_occ Req_EM_T (firstn m L) x = Nat.min m (count_occ Req_EM_T L x).
Proof.
  induction L as [|y L IH]; intros m Hs Hge; [destruct m; reflexivity|].
  destruct m as [|m]; [reflexivity|]. cbn [firstn count_occ].
  destruct (Req_EM_T y x) as [E|Ne].
  - rewrite IH; [lia|apply (lsorted_tl y L Hs)|intros z Hz; apply Hge; right; exact Hz].
  - assert (Hlt : x < y) by (pose proof (Hge y (or_introl eq_refl)); lra).
    assert (N : forall l', (forall z, In z l' -> In z L) -> count_occ Req_EM_T l' x = 0%nat).
    { intros l' Hl'. apply count_occ_not_In. intros Hin. pose proof (lsorted_hd_le y L Hs x (Hl' x Hin)). lra. }
    rewrite (N (firstn m L)) by (intros z Hz; apply (ie_in_firstn m L z Hz)).
    rewrite (N L) by auto. lia.
Qed.

Lemma pwin_lsorted (k : list R) per1 n : sorted (@kn R NumR k) -> lsorted (pwin k per1 n).
Proof. intros HK. unfold pwin. apply ie_lsorted_firstn, ie_lsorted_skipn, lsorted_of_kn, HK. Qed.

Section CanonLists.
Variable k : list R.
Variables (p per1 n : nat) (T : R).
Hypothesis Hcan : per_canon k p per1 n T.
Local Notation K := (@kn R NumR k).
Let HK : sorted K := proj1 Hcan.
Let Hper1 : (1 <= per1)%nat := proj1 (proj2 Hcan).
Let Hpp : (per1 + 1 <= p)%nat := proj1 (proj2 (proj2 Hcan)).
Let Hlen : length k = (n + per1 + p)%nat := proj1 (proj2 (proj2 (proj2 Hcan))).
Let Hreg : (p + per1 - 1 <= n)%nat := proj1 (proj2 (proj2 (proj2 (proj2 Hcan)))).
Let HT : 0 < T := proj1 (proj2 (proj2 (proj2 (proj2 (proj2 Hcan))))).
Let Hseam : K per1 = K (p - 1)%nat := proj1 (proj2 (proj2 (proj2 (proj2 (proj2 (proj2 Hcan)))))).
Let Himg : forall i, (i + n < length k)%nat -> K (i + n)%nat = K i + T := proj2 (proj2 (proj2 (proj2 (proj2 (proj2 (proj2 Hcan)))))).

Lemma cl_pwin_kn j : (j < n)%nat -> nth j (pwin k per1 n) 0 = K (per1 + j)%nat.
Proof. intros Hj. rewrite pwin_nth by exact Hj. symmetry. apply kn_nth. lia. Qed.

(* every knot through the period *)
Lemma cl_knot_of_window j : (j < length k)%nat ->
  K j = if (j <? per1)%nat then nth (j + n - per1) (pwin k per1 n) 0 - T
        else if (j <? per1 + n)%nat then nth (j - per1) (pwin k per1 n) 0
        else nth (j - n - per1) (pwin k per1 n) 0 + T.
Proof.
  intros Hj. destruct (Nat.ltb_spec j per1) as [A|A]; [|destruct (Nat.ltb_spec j (per1 + n)) as [B|B]].
  - rewrite cl_pwin_kn by lia. replace (per1 + (j + n - per1))%nat with (j + n)%nat by lia. rewrite Himg by lia. ring.
  - rewrite cl_pwin_kn by lia. f_equal. lia.
  - rewrite cl_pwin_kn by lia. replace j with ((j - n) + n)%nat at 1 by lia. rewrite Himg by lia. f_equal. f_equal. lia.
Qed.

Lemma cl_start_in : In (K (p - 1)%nat) k.
Proof. apply kn_In'. lia. Qed.
Lemma cl_end_in : In (K (n + per1)%nat) k.
Proof. apply kn_In'. lia. Qed.
Lemma cl_start_win : In (K (p - 1)%nat) (pwin k per1 n).
Proof. rewrite <- Hseam. apply pwin_in; lia. Qed.

Hypothesis Hstrict : per_strict k per1.

Lemma cl_in_window x : In x k -> K (p - 1)%nat <= x < K (n + per1)%nat -> In x (pwin k per1 n).
Proof.
  intros Hin Hx. apply (count_occ_In Req_EM_T). rewrite <- (mult_window k p per1 n T Hcan Hstrict x Hx).
  apply (count_occ_In Req_EM_T). exact Hin.
Qed.

(* the multiplicity of the end knot in the whole list (what continuity() counts there) *)
Lemma mult_end_window : mult k (K (n + per1)%nat) = Nat.min p (count_occ Req_EM_T (pwin k per1 n) (K (p - 1)%nat)).
Proof.
  pose proof (canon_period k p per1 n T Hcan) as Hper.
  unfold mult.
  rewrite <- (firstn_skipn per1 k) at 1. rewrite <- (firstn_skipn n (skipn per1 k)) at 1. rewrite !count_occ_app.
  assert (E1 : count_occ Req_EM_T (firstn per1 k) (K (n + per1)%nat) = 0%nat).
  { apply count_occ_not_In. intros Hin. destruct (In_nth _ _ 0 Hin) as (j & Hj & Ej).
    rewrite firstn_length in Hj. rewrite InsertMatrix.nth_firstn_lt in Ej by lia. rewrite <- kn_nth in Ej by lia.
    pose proof (HK j (per1 - 1)%nat ltac:(lia)). unfold per_strict in Hstrict. rewrite Hseam in Hstrict. lra. }
  assert (E2 : count_occ Req_EM_T (firstn n (skipn per1 k)) (K (n + per1)%nat) = 0%nat).
  { apply count_occ_not_In. intros Hin. pose proof (pwin_range_strict k p per1 n T Hcan Hstrict _ Hin). lra. }
  rewrite E1, E2. cbn [Nat.add].
  assert (E3 : skipn n (skipn per1 k) = map (fun v => v + T) (firstn p (pwin k per1 n))).
  { rewrite ip_skipn_skipn. apply (nth_ext _ _ 0 (0 + T)).
    - rewrite map_length, firstn_length, skipn_length, pwin_length by lia. lia.
    - intros j Hj. rewrite skipn_length in Hj.
      rewrite (map_nth (fun v => v + T)). rewrite InsertMatrix.nth_skipn_add.
      rewrite InsertMatrix.nth_firstn_lt by lia. rewrite cl_pwin_kn by lia.
      rewrite <- kn_nth by lia. replace (per1 + n + j)%nat with ((per1 + j) + n)%nat by lia. apply Himg. lia. }
  rewrite E3, Hper.
  rewrite <- (count_occ_map (fun v => v + T) Req_EM_T Req_EM_T) by (intros a b H; lra).
  apply count_firstn_min.
  - apply pwin_lsorted. exact HK.
  - intros y Hy. apply (pwin_range_strict k p per1 n T Hcan Hstrict y Hy).
Qed.
End CanonLists.

(* two canonical lists with the same period of knots are equal *)
Lemma canon_ext (k1 k2 : list R) p per1 n T : per_canon k1 p per1 n T -> per_canon k2 p per1 n T ->
  pwin k1 per1 n = pwin k2 per1 n -> k1 = k2.
Proof.
  intros C1 C2 E. pose proof C1 as (_ & _ & _ & L1 & _). pose proof C2 as (_ & _ & _ & L2 & _).
  apply (nth_ext _ _ 0 0); [lia|]. intros j Hj.
  rewrite <- !kn_nth by lia.
  rewrite (cl_knot_of_window k1 p per1 n T C1 j Hj), (cl_knot_of_window k2 p per1 n T C2 j ltac:(lia)), E. reflexivity.
Qed.

(* canonical lists under an increasing affine map *)
Lemma canon_aff (k : list R) p per1 n T al be : 0 < al -> per_canon k p per1 n T ->
  per_canon (map (aff al be) k) p per1 n (al * T) /\ (per_strict k per1 -> per_strict (map (aff al be) k) per1).
Proof.
  intros Hal (HK & Hper1 & Hpp & Hlen & Hreg & HT & Hseam & Himg).
  assert (Hne : k <> []) by (destruct k; [cbn in Hlen; lia|discriminate]).
  split.
  - split; [apply sorted_aff; assumption|]. split; [exact Hper1|]. split; [exact Hpp|].
    split; [rewrite map_length; exact Hlen|]. split; [exact Hreg|]. split; [nra|].
    split; [rewrite !kn_aff by exact Hne; rewrite Hseam; reflexivity|].
    intros i Hi. rewrite map_length in Hi. rewrite !kn_aff by exact Hne. rewrite Himg by exact Hi. unfold aff. ring.
  - unfold per_strict. rewrite !kn_aff by exact Hne. unfold aff. intros H. nra.
Qed.


(* ================================================================================================ *)
(* Part 2: continuity(), knot_spans and missing_knots on periodic bases *)

(* BSplineBasis.continuity, exactly, inside the closed domain, whatever the periodicity (no wrapping there); the
   multiplicity is the one in the WHOLE list, ghost knots included *)
Lemma continuity_mult_per (tol : R) (k : list R) (p per1 : nat) (x : R) :
  sorted (@kn R NumR k) -> 0 < tol -> knot_sep tol k x ->
  @kn R NumR k (p - 1) <= x <= @kn R NumR k (length k - p) ->
  @basis_continuity R NumR tol (mkBasis p k per1) x =
    Ok (if (mult k x =? 0)%nat then None else Some (Z.of_nat p - Z.of_nat (mult k x) - 1)%Z).
Proof.
  intros HK Htol Hsep Hx.
  unfold basis_continuity, b_start, b_end. cbn [b_per1 b_order b_knots].
  cbn [nltb nadd nsub NumR].
  destruct (Rltb_spec x (@kn R NumR k (p - 1))) as [A|A]; [lra|].
  destruct (Rltb_spec (@kn R NumR k (length k - p)) x) as [B|B]; [lra|]. cbn [orb]. rewrite !andb_false_r.
  destruct (continuity_window k x tol HK Htol) as (W1 & W2). cbv zeta in *.
  set (hi := @py_bisect_left R NumR k (x + tol)) in *. set (lo := @py_bisect_left R NumR k (x - tol)) in *.
  pose proof (bisect_lr_le k x HK) as Hle.
  assert (Hbr : (@py_bisect_right R NumR k x <= length k)%nat).
  { unfold py_bisect_right. destruct (bisect_right_spec (@kn R NumR k) HK x (length k)) as (B1 & _). exact B1. }
  pose proof (fun j Hj => bisect_window k x j HK Hj) as W.
  rewrite (count_bisect k x HK).
  set (bl := @py_bisect_left R NumR k x) in *. set (br := @py_bisect_right R NumR k x) in *.
  assert (Same : forall j, (j < length k)%nat -> ((lo <= j < hi)%nat <-> (bl <= j < br)%nat)).
  { intros j Hj. rewrite (W2 j Hj), (W j Hj). split.
    - intros Hw. destruct (Hsep _ (kn_In' k j Hj)) as [E|[E|E]]; [exact E|lra|lra].
    - intros E. rewrite E. lra. }
  assert (Hdiff : (hi - lo = br - bl)%nat).
  { destruct (Nat.lt_ge_cases lo hi) as [L|L].
    - pose proof (proj1 (Same lo ltac:(lia)) ltac:(lia)). pose proof (proj1 (Same (hi - 1)%nat ltac:(lia)) ltac:(lia)).
      pose proof (proj2 (Same bl ltac:(lia)) ltac:(lia)). pose proof (proj2 (Same (br - 1)%nat ltac:(lia)) ltac:(lia)). lia.
    - destruct (Nat.lt_ge_cases bl br) as [L2|L2]; [|lia].
      pose proof (proj2 (Same bl ltac:(lia)) ltac:(lia)). lia. }
  destruct (Nat.eqb_spec hi lo) as [E|E]; destruct (Nat.eqb_spec (br - bl) 0) as [E2|E2]; try lia; [reflexivity|].
  do 2 f_equal. lia.
Qed.

Lemma missing_knots_closed_per tol p pera perb (ka kb : list R) :
  sorted (@kn R NumR ka) -> sorted (@kn R NumR kb) -> 0 < tol ->
  let vals := @knot_spans R NumR tol (mkBasis p ka pera) false in
  (forall x, In x vals -> In x ka /\ knot_sep tol ka x /\ knot_sep tol kb x /\
     @kn R NumR ka (p - 1) <= x <= @kn R NumR ka (length ka - p) /\ @kn R NumR kb (p - 1) <= x <= @kn R NumR kb (length kb - p)) ->
  @missing_knots R NumR tol p (mkBasis p ka pera) (mkBasis p kb perb) = Ok (miss ka kb vals).
Proof.
  intros HKa HKb Htol. cbv zeta. unfold missing_knots.
  generalize (@knot_spans R NumR tol (mkBasis p ka pera) false). intros vals Hv.
  assert (G : forall vs acc, (forall x, In x vs -> In x vals) ->
    fold_left (fun acc k =>
      match acc with
      | Err e => Err e
      | Ok l =>
        match @basis_continuity R NumR tol (mkBasis p ka pera) k, @basis_continuity R NumR tol (mkBasis p kb perb) k with
        | Ok c1, Ok c2 => if cont_gt c2 c1 then Ok (l ++ repeat k (ins_count p c1 c2)) else Ok l
        | Err e, _ => Err e
        | _, Err e => Err e
        end
      end) vs (Ok acc) = Ok (acc ++ miss ka kb vs)).
  { induction vs as [|x vs IH]; intros acc Hin; cbn [fold_left]; [unfold miss; cbn [flat_map]; rewrite app_nil_r; reflexivity|].
    destruct (Hv x (Hin x (or_introl eq_refl))) as (Ia & Sa & Sb & Ra & Rb).
    rewrite (continuity_mult_per tol ka p pera x HKa Htol Sa Ra), (continuity_mult_per tol kb p perb x HKb Htol Sb Rb).
    assert (M1 : (1 <= mult ka x)%nat) by (apply (count_occ_In Req_EM_T); exact Ia).
    destruct (Nat.eqb_spec (mult ka x) 0) as [E|_]; [lia|].
    pose proof (ins_count_mult p (mult ka x) (mult kb x) M1) as IC. cbv zeta in IC.
    unfold miss. cbn [flat_map]. fold (miss ka kb vs). rewrite <- IC. rewrite app_assoc.
    destruct (cont_gt _ _).
    - apply IH. intros y Hy. apply Hin. right. exact Hy.
    - cbn [repeat]. rewrite app_nil_r. apply IH. intros y Hy. apply Hin. right. exact Hy. }
  apply (G vals []). auto.
Qed.

Lemma separated_sub tol (l l' : list R) : (forall x, In x l -> In x l') -> separated tol l' -> separated tol l.
Proof. intros Hv Hs y z Hy Hz. apply Hs; apply Hv; assumption. Qed.

Lemma separated_knot_sep' tol (U : list R) x (k : list R) : 0 < tol -> separated tol U -> In x U -> (forall v, In v k -> In v U) ->
  knot_sep tol k x.
Proof. intros Ht Hs Hx Hk. apply (separated_knot_sep tol U x Ht Hs Hx k Hk). Qed.

(* knot_spans(include_ghost_knots=False) of a canonical periodic list: the knot values of the closed domain *)
Section SpansPer.
Variable tol : R.
Hypothesis Htol : 0 < tol.
Variable k : list R.
Variables (p per1 n : nat) (T : R).
Hypothesis Hcan : per_canon k p per1 n T.
Hypothesis Hsep : separated tol k.
Local Notation K := (@kn R NumR k).
Local Notation vals := (@knot_spans R NumR tol (mkBasis p k per1) false).
Local Notation S := (firstn (length k - 2 * p + 2) (skipn (p - 1) k)).

Lemma sp_facts : lsorted k /\ (2 <= p)%nat /\ (2 * p <= length k)%nat /\ (length k - p = n + per1)%nat.
Proof. destruct Hcan as (HK & Hper1 & Hpp & Hlen & Hreg & _). split; [apply lsorted_of_kn; exact HK|]. lia. Qed.

Lemma sp_vals_eq : vals = K (p - 1)%nat :: @uniq_tol R NumR tol (K (p - 1)%nat) S.
Proof. destruct sp_facts as (_ & Hp & _). unfold knot_spans. cbn [b_knots b_order]. destruct (Nat.eqb_spec p 1); [lia|reflexivity]. Qed.

Lemma sp_vals_gap : StronglySorted (gapt tol) vals.
Proof. destruct sp_facts as (Hs & Hp & Hl & _). exact (vals_gap tol Htol k p Hs Hp Hl). Qed.

Lemma sp_S_values x : In x (K (p - 1)%nat :: S) <-> (In x k /\ K (p - 1)%nat <= x <= K (n + per1)%nat).
Proof.
  destruct Hcan as (HK & Hper1 & Hpp & Hlen & Hreg & _).
  assert (HS : forall i, (i < length k - 2 * p + 2)%nat -> In (K (p - 1 + i)%nat) S).
  { intros i Hi. rewrite kn_nth by lia. rewrite <- InsertMatrix.nth_skipn_add. rewrite <- (InsertMatrix.nth_firstn_lt _ (length k - 2 * p + 2)) by exact Hi.
    apply nth_In. rewrite firstn_length, skipn_length. lia. }
  split.
  - intros [<-|H].
    + split; [apply kn_In'; lia|]. split; [lra|apply HK; lia].
    + destruct (In_nth _ _ 0 H) as (j & Hj & <-). rewrite firstn_length, skipn_length in Hj.
      rewrite InsertMatrix.nth_firstn_lt by lia. rewrite InsertMatrix.nth_skipn_add. rewrite <- kn_nth by lia.
      split; [apply kn_In'; lia|]. split; apply HK; lia.
  - intros (Hin & Hx). right. destruct (In_nth _ _ 0 Hin) as (j & Hj & Ej). rewrite <- kn_nth in Ej by exact Hj.
    destruct (Nat.lt_ge_cases j (p - 1)) as [A|A]; [|destruct (Nat.le_gt_cases j (n + per1)) as [B|B]].
    + pose proof (HK j (p - 1)%nat ltac:(lia)). replace x with (K (p - 1 + 0)%nat) by (rewrite Nat.add_0_r; lra). apply HS. lia.
    + rewrite <- Ej. replace j with (p - 1 + (j - (p - 1)))%nat by lia. apply HS. lia.
    + pose proof (HK (n + per1)%nat j ltac:(lia)).
      replace x with (K (p - 1 + (n + per1 - (p - 1)))%nat) by (replace (p - 1 + (n + per1 - (p - 1)))%nat with (n + per1)%nat by lia; lra).
      apply HS. lia.
Qed.

Lemma sp_vals_in x : In x vals <-> (In x k /\ K (p - 1)%nat <= x <= K (n + per1)%nat).
Proof.
  rewrite sp_vals_eq. rewrite uniq_tol_values; [apply sp_S_values|lra|].
  intros y z Hy Hz. apply Hsep; [apply (proj1 (sp_S_values y) Hy)|apply (proj1 (sp_S_values z) Hz)].
Qed.
End SpansPer.


(* ================================================================================================ *)
(* Part 3: inserting the missing knots in a periodic direction *)

(* multiplicity in one period *)
Definition cw (k : list R) (per1 n : nat) (v : R) : nat := count_occ Req_EM_T (pwin k per1 n) v.

Section InsertFlatPer.
Variable tol : R.
Hypothesis Htol : 0 < tol.
Variables (d p per1 : nat) (T : R).
Variable c : R -> nat.
Variable s0 : R.
Local Notation fl := (flat_map (fun x => repeat x (c x))).

Lemma insert_flat_per : forall (rest : list R) (oc : obj R) (kc : list R) (nc : nat),
  wf_obj_R tol oc -> (d < length (o_bases oc))%nat -> nth d (o_bases oc) dflt_basis = mkBasis p kc per1 ->
  per_canon kc p per1 nc T -> per_strict kc per1 -> @kn R NumR kc (p - 1) = s0 ->
  Forall (fun x => c x = 0%nat \/ s0 <= x < s0 + T) rest ->
  exists so kf, @obj_insert_knots R NumR oc d (fl rest) = Ok so /\
    per_frame tol d p per1 T oc kc so kf (nc + length (fl rest)) /\
    Permutation (pwin kf per1 (nc + length (fl rest))) (fl rest ++ pwin kc per1 nc) /\
    forall ts, dom_all tol oc ts -> snapfree tol (pvals kc per1 nc T) (nth d ts 0) ->
      Forall (fun x => c x = 0%nat \/ snapfree tol [x; x + T; x - T] (nth d ts 0)) rest ->
      @obj_eval R NumR tol so ts = @obj_eval R NumR tol oc ts /\
      snapfree tol (pvals kf per1 (nc + length (fl rest)) T) (nth d ts 0).
Proof.
  induction rest as [|x rest IH]; intros oc kc nc Hwf Hd Hb Hcan Hstrict Hs Hin.
  - exists oc, kc. cbn [flat_map length app]. replace (nc + 0)%nat with nc by lia. split; [reflexivity|]. split.
    + split; [exact Hwf|]. split; [reflexivity|]. split; [intros; reflexivity|]. split; [exact Hb|]. split; [exact Hcan|].
      split; [exact Hstrict|reflexivity].
    + split; [apply Permutation_refl|]. intros ts _ Hsf _. split; [reflexivity|exact Hsf].
  - pose proof (Forall_inv Hin) as Hx. pose proof (Forall_inv_tail Hin) as Hin'. cbv beta in Hx.
    pose proof Hcan as (_ & Hper1 & _).
    destruct (Nat.eq_dec (c x) 0) as [C0|C0].
    + destruct (IH oc kc nc Hwf Hd Hb Hcan Hstrict Hs Hin') as (so & kf & Hok & Hf & Hp & Hev).
      exists so, kf. cbn [flat_map]. rewrite C0. cbn [repeat app]. split; [exact Hok|]. split; [exact Hf|]. split; [exact Hp|].
      intros ts Hdom Hsf Hins. apply (Hev ts Hdom Hsf). exact (Forall_inv_tail Hins).
    + destruct Hx as [Hx|Hx]; [contradiction|].
      assert (Hxc : @kn R NumR kc (p - 1) <= x < @kn R NumR kc (nc + per1)).
      { rewrite (canon_period kc p per1 nc T Hcan), Hs. exact Hx. }
      destruct (insert_copies_per tol Htol d p per1 T x (c x) oc kc nc Hwf Hd Hb Hcan Hstrict Hxc)
        as (o1 & k1 & Hok1 & Hf1 & Hp1 & Hev1).
      pose proof Hf1 as (Hwf1 & Hl1 & Hoth1 & Hb1 & Hcan1 & Hst1 & Hs1).
      destruct (IH o1 k1 (nc + c x)%nat Hwf1 ltac:(lia) Hb1 Hcan1 Hst1 ltac:(rewrite Hs1; exact Hs) Hin')
        as (so & kf & Hok2 & Hf2 & Hp2 & Hev2).
      assert (El : (nc + c x + length (fl rest) = nc + length (fl (x :: rest)))%nat).
      { cbn [flat_map]. rewrite app_length, repeat_length. lia. }
      rewrite El in *.
      exists so, kf. split.
      * cbn [flat_map]. rewrite (obj_insert_knots_app oc d _ _ oc eq_refl), Hok1. exact Hok2.
      * split; [apply (per_frame_trans tol d p per1 T oc kc o1 k1 _ so kf _ Hf1 Hf2)|]. split.
        -- rewrite Hp2, Hp1. cbn [flat_map]. rewrite <- !app_assoc.
           rewrite (app_assoc (fl rest)), (app_assoc (repeat x _)). apply Permutation_app_tail. apply Permutation_app_comm.
        -- intros ts Hdom Hsf Hins. pose proof (Forall_inv Hins) as Hix. pose proof (Forall_inv_tail Hins) as Hins'. cbv beta in Hix.
           destruct Hix as [Hix|Hix]; [contradiction|].
           destruct (Hev1 ts Hdom Hsf Hix) as (A1 & A2).
           destruct (Hev2 ts (dom_transfer_per tol d p per1 T oc kc o1 k1 _ ts Hper1 Hf1 Hdom) A2 Hins') as (B1 & B2).
           split; [rewrite B1; exact A1|exact B2].
Qed.
End InsertFlatPer.

(* one "insert the missing knots" step of make_splines_identical in a periodic direction: the knots of [kfrom]
   (a canonical periodic list with the same order, continuity, start and period) that the object lacks *)
Section InsStagePer.
Variable tol : R.
Hypothesis Htol : 0 < tol.
Variables (i p per1 : nat) (T : R).
Variable oc : obj R.
Variables kfrom kc : list R.
Variables nf nc : nat.
Variable U : list R.
Hypothesis Hwf : wf_obj_R tol oc.
Hypothesis Hi : (i < length (o_bases oc))%nat.
Hypothesis Hb : nth i (o_bases oc) dflt_basis = mkBasis p kc per1.
Hypothesis Cc : per_canon kc p per1 nc T.
Hypothesis Sc : per_strict kc per1.
Hypothesis Cf : per_canon kfrom p per1 nf T.
Hypothesis Sf : per_strict kfrom per1.
Hypothesis Hst : @kn R NumR kfrom (p - 1) = @kn R NumR kc (p - 1).
Hypothesis HU : separated tol U.
Hypothesis Uf : forall v, In v (pvals kfrom per1 nf T) -> In v U.
Hypothesis Uc : forall v, In v (pvals kc per1 nc T) -> In v U.
(* the seam knot is at least as multiple in the object as in [kfrom] (nothing to insert at the seam) *)
Hypothesis Hseam : (cw kfrom per1 nf (@kn R NumR kfrom (p - 1)) <= cw kc per1 nc (@kn R NumR kc (p - 1)))%nat.
Local Notation st := (@kn R NumR kc (p - 1)).

Lemma ins_stage_per :
  exists ins so kf nk,
    @missing_knots R NumR tol p (mkBasis p kfrom per1) (mkBasis p kc per1) = Ok ins /\
    @obj_insert_knots R NumR oc i ins = Ok so /\ per_frame tol i p per1 T oc kc so kf nk /\
    (forall v, cw kf per1 nk v = Nat.max (cw kfrom per1 nf v) (cw kc per1 nc v)) /\
    forall ts, dom_all tol oc ts -> snapfree tol (pvals kc per1 nc T) (nth i ts 0) -> snapfree tol (pvals kfrom per1 nf T) (nth i ts 0) ->
      @obj_eval R NumR tol so ts = @obj_eval R NumR tol oc ts.
Proof.
  pose proof Cc as (HKc & Hper1 & Hpp & Hlenc & Hregc & HT & _).
  pose proof Cf as (HKf & _ & _ & Hlenf & Hregf & _).
  pose proof (canon_period kc p per1 nc T Cc) as Pc. pose proof (canon_period kfrom p per1 nf T Cf) as Pf. rewrite Hst in Pf.
  assert (Vf : forall v, In v kfrom -> In v U) by (intros v Hv; apply Uf, (canon_values kfrom p per1 nf T Cf v Hv)).
  assert (Vc : forall v, In v kc -> In v U) by (intros v Hv; apply Uc, (canon_values kc p per1 nc T Cc v Hv)).
  assert (Sepf : separated tol kfrom) by (apply (separated_sub tol kfrom U Vf HU)).
  set (vals := @knot_spans R NumR tol (mkBasis p kfrom per1) false).
  pose proof (sp_vals_gap tol Htol kfrom p per1 nf T Cf) as VG. fold vals in VG.
  pose proof (sp_vals_in tol Htol kfrom p per1 nf T Cf Sepf) as VI. fold vals in VI. rewrite Hst, Pf in VI.
  assert (VLt : StronglySorted Rlt vals) by (apply (ssorted_gap_lt tol); [lra|exact VG]).
  assert (Elf : (length kfrom - p = nf + per1)%nat) by lia.
  assert (Elc : (length kc - p = nc + per1)%nat) by lia.
  assert (Hmk : @missing_knots R NumR tol p (mkBasis p kfrom per1) (mkBasis p kc per1) = Ok (miss kfrom kc vals)).
  { apply missing_knots_closed_per; try assumption. fold vals. intros x Hx. apply VI in Hx. destruct Hx as (Hx & Rx).
    split; [exact Hx|].
    split; [apply (separated_knot_sep' tol U x kfrom Htol HU (Vf x Hx) Vf)|].
    split; [apply (separated_knot_sep' tol U x kc Htol HU (Vf x Hx) Vc)|].
    rewrite Elf, Elc, Hst, Pf, Pc. split; exact Rx. }
  (* the end value: nothing to insert there *)
  assert (Cend : (mult kfrom (st + T) - mult kc (st + T) = 0)%nat).
  { rewrite <- Pf at 1. rewrite <- Pc.
    rewrite (mult_end_window kfrom p per1 nf T Cf Sf), (mult_end_window kc p per1 nc T Cc Sc). unfold cw in Hseam. lia. }
  assert (Mf : forall v, st <= v < st + T -> mult kfrom v = cw kfrom per1 nf v).
  { intros v Hv. apply (mult_window kfrom p per1 nf T Cf Sf). rewrite Hst, Pf. exact Hv. }
  assert (Mc : forall v, st <= v < st + T -> mult kc v = cw kc per1 nc v).
  { intros v Hv. apply (mult_window kc p per1 nc T Cc Sc). rewrite Pc. exact Hv. }
  destruct (insert_flat_per tol Htol i p per1 T (fun x => (mult kfrom x - mult kc x)%nat) st vals oc kc nc Hwf Hi Hb Cc Sc eq_refl)
    as (so & kf & Hok & Hf & Hperm & Hev).
  { apply Forall_forall. intros x Hx. apply VI in Hx. destruct Hx as (Hx & Rx).
    destruct (Req_EM_T x (st + T)) as [E|E]; [left; rewrite E; exact Cend|right; lra]. }
  set (nk := (nc + length (flat_map (fun x => repeat x (mult kfrom x - mult kc x)) vals))%nat) in *.
  exists (miss kfrom kc vals), so, kf, nk. split; [exact Hmk|]. split; [exact Hok|]. split; [exact Hf|]. split.
  - intros v. unfold cw at 1. rewrite (proj1 (Permutation_count_occ Req_EM_T _ _) Hperm v), count_occ_app. fold (cw kc per1 nc v).
    assert (E : count_occ Req_EM_T (flat_map (fun x => repeat x (mult kfrom x - mult kc x)) vals) v = (cw kfrom per1 nf v - cw kc per1 nc v)%nat).
    { destruct (In_dec Req_EM_T v vals) as [I|N].
      - rewrite (count_flat_in _ vals v VLt I). apply VI in I. destruct I as (Iv & Rv).
        destruct (Req_EM_T v (st + T)) as [E|E].
        + rewrite E, Cend.
          assert (Z0 : cw kfrom per1 nf (st + T) = 0%nat).
          { apply count_occ_not_In. intros Hin. pose proof (pwin_range_strict kfrom p per1 nf T Cf Sf _ Hin) as H. rewrite Hst, Pf in H. lra. }
          rewrite Z0. reflexivity.
        + rewrite (Mf v ltac:(lra)), (Mc v ltac:(lra)). reflexivity.
      - rewrite (count_flat_notin _ vals v N).
        assert (Z0 : cw kfrom per1 nf v = 0%nat).
        { apply count_occ_not_In. intros Hin. apply N, VI. split; [apply (pwin_sub kfrom per1 nf v Hin)|].
          pose proof (pwin_range_strict kfrom p per1 nf T Cf Sf _ Hin) as H. rewrite Hst, Pf in H. lra. }
        rewrite Z0. reflexivity. }
    rewrite E. lia.
  - intros ts Hdom Hsc Hsf. apply (Hev ts Hdom Hsc).
    apply Forall_forall. intros x Hx. apply VI in Hx. destruct Hx as (Hx & Rx).
    destruct (Req_EM_T x (st + T)) as [E|E]; [left; rewrite E; exact Cend|right].
    assert (Iw : In x (pwin kfrom per1 nf)) by (apply (cl_in_window kfrom p per1 nf T Cf Sf x Hx); rewrite Hst, Pf; lra).
    intros v Hv. apply Hsf. apply pvals_in. cbn [In] in Hv. destruct Hv as [<-|[<-|[<-|[]]]].
    + left. exact Iw.
    + right. left. replace (x + T - T) with x by ring. exact Iw.
    + right. right. replace (x - T + T) with x by ring. exact Iw.
Qed.
End InsStagePer.


(* ================================================================================================ *)
(* Part 4: case (a), both operands periodic in direction i with the same continuity *)

(* a parameter of the closed base period that is clear of the knots of the list is clear of all their periodic images *)
Lemma clear_pvals tol (l : list R) p per1 n T u : 0 < tol -> per_canon l p per1 n T -> per_strict l per1 -> separated tol l ->
  @kn R NumR l (p - 1) <= u <= @kn R NumR l (n + per1) -> knot_clear l tol u -> snapfree tol (pvals l per1 n T) u.
Proof.
  intros Htol Hcan Hstrict Hsep Hu HC v Hv.
  pose proof (canon_period l p per1 n T Hcan) as Hper.
  pose proof (cl_start_in l p per1 n T Hcan) as Ist. pose proof (cl_end_in l p per1 n T Hcan) as Ien.
  apply pvals_in in Hv. destruct Hv as [Hv|[Hv|Hv]].
  - apply HC. apply (pwin_sub l per1 n v Hv).
  - pose proof (pwin_range_strict l p per1 n T Hcan Hstrict _ Hv) as Rw. pose proof (pwin_sub l per1 n _ Hv) as Iw.
    destruct (Hsep _ _ Iw Ist) as [E|F].
    + apply HC. replace v with (@kn R NumR l (n + per1)) by lra. exact Ien.
    + right. rewrite Rabs_right in F by lra. rewrite Rabs_right by lra. lra.
  - pose proof (pwin_range_strict l p per1 n T Hcan Hstrict _ Hv) as Rw. pose proof (pwin_sub l per1 n _ Hv) as Iw.
    destruct (Hsep _ _ Iw Ien) as [E|F]; [lra|].
    right. rewrite Rabs_left in F by lra. rewrite Rabs_left by lra. lra.
Qed.

Lemma pvals_mono (k1 k2 k3 : list R) per1 n1 n2 n3 T :
  (forall w, In w (pwin k1 per1 n1) -> In w (pwin k2 per1 n2) \/ In w (pwin k3 per1 n3)) ->
  forall v, In v (pvals k1 per1 n1 T) -> In v (pvals k2 per1 n2 T ++ pvals k3 per1 n3 T).
Proof.
  intros H v Hv. apply in_or_app. rewrite !pvals_in. apply pvals_in in Hv.
  destruct Hv as [Hv|[Hv|Hv]]; destruct (H _ Hv) as [A|A]; tauto.
Qed.

Lemma cw_max_in (k1 k2 k3 : list R) per1 n1 n2 n3 :
  (forall v, cw k1 per1 n1 v = Nat.max (cw k2 per1 n2 v) (cw k3 per1 n3 v)) ->
  forall w, In w (pwin k1 per1 n1) -> In w (pwin k2 per1 n2) \/ In w (pwin k3 per1 n3).
Proof.
  intros H w Hw. apply (count_occ_In Req_EM_T) in Hw. fold (cw k1 per1 n1 w) in Hw. rewrite H in Hw.
  destruct (Nat.max_spec (cw k2 per1 n2 w) (cw k3 per1 n3 w)) as [[_ E]|[_ E]]; rewrite E in Hw; [right|left]; apply (count_occ_In Req_EM_T); exact Hw.
Qed.

(* direction i of the operand after reparam(0,1): canonical with period 1 and start 0 *)
Lemma canon_rescaled tol (o : obj R) i n T : 0 < tol -> wf_obj_R tol o -> (i < length (o_bases o))%nat -> canon_dir o i n T ->
  let b := nth i (o_bases o) dflt_basis in
  per_canon (b_knots (rp_basis b 0 1)) (b_order b) (b_per1 b) n 1 /\
  (per_strict (b_knots b) (b_per1 b) -> per_strict (b_knots (rp_basis b 0 1)) (b_per1 b)) /\
  @kn R NumR (b_knots (rp_basis b 0 1)) (b_order b - 1) = 0.
Proof.
  intros Htol Hwf Hi Hcan. cbv zeta. unfold canon_dir in Hcan. cbv zeta in Hcan.
  set (b := nth i (o_bases o) dflt_basis) in *.
  assert (Hal : 0 < rp_al b 0 1) by (apply rp_al_pos; [apply (nr_dom tol Htol o Hwf i Hi)|lra]).
  destruct (canon_aff (b_knots b) (b_order b) (b_per1 b) n T (rp_al b 0 1) (0 - rp_al b 0 1 * @b_start R NumR b) Hal Hcan) as (C & S).
  change (map (aff (rp_al b 0 1) (0 - rp_al b 0 1 * @b_start R NumR b)) (b_knots b)) with (b_knots (rp_basis b 0 1)) in C, S.
  pose proof (nr_start tol o Hwf i Hi) as Hs. pose proof (nr_end tol Htol o Hwf i Hi) as He. fold b in Hs, He.
  pose proof (canon_period _ _ _ _ _ C) as Hper. pose proof C as (_ & _ & _ & Hlen & _).
  rewrite Hlen in He. replace (n + b_per1 b + b_order b - b_order b)%nat with (n + b_per1 b)%nat in He by lia.
  assert (ET : rp_al b 0 1 * T = 1) by lra. rewrite ET in C.
  split; [exact C|]. split; [exact S|exact Hs].
Qed.

Section CoreP.
Variable tol : R.
Hypothesis Htol : 0 < tol.
Hypothesis Htol2 : 2 * tol <= 1.
Variables a0 b0 : obj R.
Hypothesis Wa : wf_obj_R tol a0.
Hypothesis Wb : wf_obj_R tol b0.
Variable i : nat.
Hypothesis Hia : (i < length (o_bases a0))%nat.
Hypothesis Hib : (i < length (o_bases b0))%nat.
Local Notation ba := (nth i (o_bases a0) dflt_basis).
Local Notation bb := (nth i (o_bases b0) dflt_basis).
Local Notation nba := (rp_basis ba 0 1).
Local Notation nbb := (rp_basis bb 0 1).
Local Notation p := (b_order ba).
Local Notation per1 := (b_per1 ba).
Local Notation la := (b_knots nba).
Local Notation lb := (b_knots nbb).
Local Notation a1 := (rp_obj a0 i 0 1).
Local Notation b1 := (rp_obj b0 i 0 1).
Hypothesis Eord : b_order bb = p.
Hypothesis Eper : b_per1 bb = per1.
Variables (na nb : nat) (Ta Tb : R).
Hypothesis Ca : canon_dir a0 i na Ta.
Hypothesis Cb : canon_dir b0 i nb Tb.
Hypothesis Sa : per_strict (b_knots ba) per1.
Hypothesis Sb : per_strict (b_knots bb) per1.
Hypothesis Hsep : separated tol (pvals la per1 na 1 ++ pvals lb per1 nb 1).
Hypothesis Hseam : mult la 0 = mult lb 0.
Local Notation U := (pvals la per1 na 1 ++ pvals lb per1 nb 1).

Lemma cp_la : per_canon la p per1 na 1 /\ per_strict la per1 /\ @kn R NumR la (p - 1) = 0.
Proof. destruct (canon_rescaled tol a0 i na Ta Htol Wa Hia Ca) as (A & B & C). split; [exact A|]. split; [apply B; exact Sa|exact C]. Qed.
Lemma cp_lb : per_canon lb p per1 nb 1 /\ per_strict lb per1 /\ @kn R NumR lb (p - 1) = 0.
Proof.
  destruct (canon_rescaled tol b0 i nb Tb Htol Wb Hib Cb) as (A & B & C). rewrite Eord, Eper in *.
  split; [exact A|]. split; [apply B; exact Sb|exact C].
Qed.

Lemma cp_seam : cw la per1 na 0 = cw lb per1 nb 0.
Proof.
  destruct cp_la as (A1 & A2 & A3). destruct cp_lb as (B1 & B2 & B3). unfold cw.
  rewrite <- (mult_window la p per1 na 1 A1 A2 0) by (rewrite (canon_period _ _ _ _ _ A1), A3; lra).
  rewrite <- (mult_window lb p per1 nb 1 B1 B2 0) by (rewrite (canon_period _ _ _ _ _ B1), B3; lra).
  exact Hseam.
Qed.

Lemma cp_a1_wf : wf_obj_R tol a1. Proof. exact (nr_a1_wf tol Htol Htol2 a0 Wa i Hia). Qed.
Lemma cp_b1_wf : wf_obj_R tol b1. Proof. exact (nr_a1_wf tol Htol Htol2 b0 Wb i Hib). Qed.
Lemma cp_a1_i : nth i (o_bases a1) dflt_basis = mkBasis p la per1. Proof. rewrite (nr_a1_i a0 i Hia). reflexivity. Qed.
Lemma cp_b1_i : nth i (o_bases b1) dflt_basis = mkBasis p lb per1.
Proof. rewrite (nr_a1_i b0 i Hib). unfold rp_basis at 1. rewrite Eord, Eper. reflexivity. Qed.

Definition coreP_facts (a b : obj R) (kk : list R) (nk : nat) : Prop :=
    wf_obj_R tol a /\ wf_obj_R tol b /\
    length (o_bases a) = length (o_bases a0) /\ length (o_bases b) = length (o_bases b0) /\
    (forall j, j <> i -> nth j (o_bases a) dflt_basis = nth j (o_bases a0) dflt_basis) /\
    (forall j, j <> i -> nth j (o_bases b) dflt_basis = nth j (o_bases b0) dflt_basis) /\
    nth i (o_bases a) dflt_basis = mkBasis p kk per1 /\ nth i (o_bases b) dflt_basis = mkBasis p kk per1 /\
    per_canon kk p per1 nk 1 /\ per_strict kk per1 /\ @kn R NumR kk (p - 1) = 0 /\
    (forall v, cw kk per1 nk v = Nat.max (cw la per1 na v) (cw lb per1 nb v)) /\
    o_dim a = o_dim a0 /\ o_rat a = o_rat a0 /\ o_dim b = o_dim b0 /\ o_rat b = o_rat b0 /\
    (forall ts, dom_all tol a0 ts -> (i < length ts)%nat ->
       @b_start R NumR ba <= nth i ts 0 <= @b_end R NumR ba -> param_clear tol ba bb (nth i ts 0) ->
       @obj_eval R NumR tol a (upd ts i (rp_map ba 0 1 (nth i ts 0))) = @obj_eval R NumR tol a0 ts) /\
    (forall ts, dom_all tol b0 ts -> (i < length ts)%nat ->
       @b_start R NumR bb <= nth i ts 0 <= @b_end R NumR bb -> param_clear tol bb ba (nth i ts 0) ->
       @obj_eval R NumR tol b (upd ts i (rp_map bb 0 1 (nth i ts 0))) = @obj_eval R NumR tol b0 ts).

(* reparam, then the rescaled parameter: evaluation, domain, clearance *)
Lemma cp_reparam_side (o : obj R) n (lo lother : list R) nother ts :
  wf_obj_R tol o -> (i < length (o_bases o))%nat ->
  b_per1 (nth i (o_bases o) dflt_basis) = per1 -> b_order (nth i (o_bases o) dflt_basis) = p ->
  lo = b_knots (rp_basis (nth i (o_bases o) dflt_basis) 0 1) ->
  per_canon lo p per1 n 1 -> per_strict lo per1 -> @kn R NumR lo (p - 1) = 0 ->
  per_canon lother p per1 nother 1 -> per_strict lother per1 -> @kn R NumR lother (p - 1) = 0 ->
  (forall v, In v lo -> In v U) -> (forall v, In v lother -> In v U) ->
  dom_all tol o ts -> (i < length ts)%nat ->
  @b_start R NumR (nth i (o_bases o) dflt_basis) <= nth i ts 0 <= @b_end R NumR (nth i (o_bases o) dflt_basis) ->
  knot_clear (b_knots (nth i (o_bases o) dflt_basis)) (Rmax tol (tol / rp_al (nth i (o_bases o) dflt_basis) 0 1)) (nth i ts 0) ->
  knot_clear lother tol (rp_map (nth i (o_bases o) dflt_basis) 0 1 (nth i ts 0)) ->
  let ts' := upd ts i (rp_map (nth i (o_bases o) dflt_basis) 0 1 (nth i ts 0)) in
  @obj_eval R NumR tol (rp_obj o i 0 1) ts' = @obj_eval R NumR tol o ts /\ dom_all tol (rp_obj o i 0 1) ts' /\
  snapfree tol (pvals lo per1 n 1) (nth i ts' 0) /\ snapfree tol (pvals lother per1 nother 1) (nth i ts' 0).
Proof.
  intros Wo Hio Epo Eoo Elo Co So Zo Cx Sx Zx Uo Ux Hdom Hit Ht PC1 PC2. cbv zeta.
  set (bo' := nth i (o_bases o) dflt_basis) in *. set (t := nth i ts 0) in *. set (u := rp_map bo' 0 1 t) in *.
  set (ts' := upd ts i u).
  destruct cp_la as (_ & Hper1 & _). destruct Co as (HKo & Hp1 & Hpp & Hleno & Hrego & HTo & Hso & Himo).
  assert (Ei : nth i ts' 0 = u) by (unfold ts'; apply upd_nth_same; exact Hit).
  assert (Eo : forall j, j <> i -> nth j ts' 0 = nth j ts 0) by (intros j Hj; unfold ts'; apply upd_nth_other; exact Hj).
  split; [apply (eval_same tol Htol o Wo i Hio 0 1 ltac:(lra) ts ts' Ei Eo PC1); intros _; exact Ht|].
  split.
  { intros j Hj. rewrite nr_a1_len in Hj. destruct (Nat.eq_dec j i) as [->|Hne].
    - rewrite (nr_a1_i o i Hio). unfold in_dom. cbn [rp_basis b_per1]. fold bo'. intros E. lia.
    - rewrite (nr_a1_other o i Hio j Hne), (Eo j Hne). apply Hdom. exact Hj. }
  rewrite Ei.
  assert (Ru : 0 <= u <= 1).
  { apply (dir_interval tol Htol bo' (ol_wfb tol o Wo i Hio) 0 1 ltac:(lra) t). exact Ht. }
  assert (PCa : knot_clear lo tol u).
  { assert (Hal : 0 < rp_al bo' 0 1) by (apply rp_al_pos; [apply (nr_dom tol Htol o Wo i Hio)|lra]).
    pose proof (knot_clear_aff (rp_al bo' 0 1) (0 - rp_al bo' 0 1 * @b_start R NumR bo') (b_knots bo') _ t Hal
                  (knot_clear_le _ _ _ _ (Rmax_r _ _) PC1)) as H.
    replace (rp_al bo' 0 1 * (tol / rp_al bo' 0 1)) with tol in H by (field; lra). rewrite Elo. exact H. }
  assert (Co' : per_canon lo p per1 n 1) by (repeat split; assumption).
  split.
  - apply (clear_pvals tol lo p per1 n 1 u Htol Co' So (separated_sub tol lo U Uo Hsep)); [|exact PCa].
    rewrite (canon_period _ _ _ _ _ Co'), Zo. lra.
  - apply (clear_pvals tol lother p per1 nother 1 u Htol Cx Sx (separated_sub tol lother U Ux Hsep)); [|exact PC2].
    rewrite (canon_period _ _ _ _ _ Cx), Zx. lra.
Qed.

(* both insertion stages *)
Lemma coreP_forward :
  exists ins2 b4 ins1 a4 kk nk,
    @missing_knots R NumR tol p (mkBasis p la per1) (mkBasis p lb per1) = Ok ins2 /\
    @obj_insert_knots R NumR b1 i ins2 = Ok b4 /\
    @missing_knots R NumR tol p (nth i (o_bases b4) dflt_basis) (mkBasis p la per1) = Ok ins1 /\
    @obj_insert_knots R NumR a1 i ins1 = Ok a4 /\
    coreP_facts a4 b4 kk nk.
Proof.
  destruct cp_la as (A1 & A2 & A3). destruct cp_lb as (B1 & B2 & B3).
  pose proof cp_seam as Hs0.
  assert (Ia1 : (i < length (o_bases a1))%nat) by (rewrite nr_a1_len; exact Hia).
  assert (Ib1 : (i < length (o_bases b1))%nat) by (rewrite nr_a1_len; exact Hib).
  assert (Ua : forall v, In v (pvals la per1 na 1) -> In v U) by (intros v Hv; apply in_or_app; left; exact Hv).
  assert (Ub : forall v, In v (pvals lb per1 nb 1) -> In v U) by (intros v Hv; apply in_or_app; right; exact Hv).
  (* first insertion: the knots of a1 missing in b1 *)
  destruct (ins_stage_per tol Htol i p per1 1 b1 la lb na nb U cp_b1_wf Ib1 cp_b1_i B1 B2 A1 A2 ltac:(rewrite A3, B3; reflexivity) Hsep Ua Ub)
    as (ins2 & b4 & kb4 & n4 & M1 & I1 & F1 & Cn1 & Ev1).
  { rewrite A3, B3, Hs0. lia. }
  pose proof F1 as (Wb4 & Lb4 & Ob4 & Nb4 & Cb4 & Sb4 & Eb4). rewrite B3 in Eb4.
  assert (W4 : forall w, In w (pwin kb4 per1 n4) -> In w (pwin la per1 na) \/ In w (pwin lb per1 nb)) by (apply cw_max_in; exact Cn1).
  assert (U4 : forall v, In v (pvals kb4 per1 n4 1) -> In v U) by (apply pvals_mono; exact W4).
  (* second insertion: the knots of b4 missing in a1 *)
  destruct (ins_stage_per tol Htol i p per1 1 a1 kb4 la n4 na U cp_a1_wf Ia1 cp_a1_i A1 A2 Cb4 Sb4 ltac:(rewrite A3, Eb4; reflexivity) Hsep U4 Ua)
    as (ins1 & a4 & ka4 & n5 & M2 & I2 & F2 & Cn2 & Ev2).
  { rewrite A3, Eb4, Cn1, Hs0. lia. }
  pose proof F2 as (Wa4 & La4 & Oa4 & Na4 & Ca4 & Sa4 & Ea4). rewrite A3 in Ea4.
  (* the two knot lists are equal *)
  assert (Ewin : pwin ka4 per1 n5 = pwin kb4 per1 n4).
  { apply sorted_mult_eq; [apply pwin_lsorted; exact (proj1 Ca4)|apply pwin_lsorted; exact (proj1 Cb4)|].
    intros v. change (cw ka4 per1 n5 v = cw kb4 per1 n4 v). rewrite Cn2, Cn1. lia. }
  assert (En : n5 = n4).
  { pose proof Ca4 as (_ & _ & _ & L5 & _). pose proof Cb4 as (_ & _ & _ & L4 & _).
    rewrite <- (pwin_length ka4 per1 n5) by lia. rewrite Ewin. apply pwin_length. lia. }
  subst n5.
  assert (Ekk : ka4 = kb4) by (apply (canon_ext ka4 kb4 p per1 n4 1 Ca4 Cb4 Ewin)).
  destruct (insert_knots_dims i ins1 a1 a4 I2) as (Da & Rta). destruct (insert_knots_dims i ins2 b1 b4 I1) as (Db & Rtb).
  exists ins2, b4, ins1, a4, kb4, n4. split; [exact M1|]. split; [exact I1|]. split; [rewrite Nb4; exact M2|]. split; [exact I2|].
  unfold coreP_facts.
  split; [exact Wa4|]. split; [exact Wb4|].
  split; [rewrite La4; apply nr_a1_len|]. split; [rewrite Lb4; apply nr_a1_len|].
  split; [intros j Hj; rewrite (Oa4 j Hj); apply (nr_a1_other a0 i Hia j Hj)|].
  split; [intros j Hj; rewrite (Ob4 j Hj); apply (nr_a1_other b0 i Hib j Hj)|].
  split; [rewrite Na4, Ekk; reflexivity|]. split; [exact Nb4|]. split; [exact Cb4|]. split; [exact Sb4|]. split; [exact Eb4|].
  split; [exact Cn1|].
  split; [exact Da|]. split; [exact Rta|]. split; [exact Db|]. split; [exact Rtb|].
  assert (Va : forall v, In v la -> In v U) by (intros v Hv; apply Ua, (canon_values la p per1 na 1 A1 v Hv)).
  assert (Vb : forall v, In v lb -> In v U) by (intros v Hv; apply Ub, (canon_values lb p per1 nb 1 B1 v Hv)).
  split.
  - intros ts Hdom Hit Ht (PC1 & PC2).
    destruct (cp_reparam_side a0 na la lb nb ts Wa Hia eq_refl eq_refl eq_refl A1 A2 A3 B1 B2 B3 Va Vb Hdom Hit Ht PC1 PC2) as (E1 & D1 & F1a & F1b).
    cbv zeta in *. rewrite <- E1. apply (Ev2 _ D1 F1a).
    apply (snapfree_incl tol _ U); [exact U4|]. intros v Hv. apply in_app_or in Hv. destruct Hv as [Hv|Hv]; [apply F1a|apply F1b]; exact Hv.
  - intros ts Hdom Hit Ht (PC1 & PC2).
    destruct (cp_reparam_side b0 nb lb la na ts Wb Hib Eper Eord eq_refl B1 B2 B3 A1 A2 A3 Vb Va Hdom Hit Ht PC1 PC2) as (E1 & D1 & F1a & F1b).
    cbv zeta in *. rewrite <- E1. apply (Ev1 _ D1 F1a F1b).
Qed.
Lemma raise_zero (o : obj R) m : @obj_raise_order R NumR tol o (unit_vec m i 0) = Ok o.
Proof.
  unfold obj_raise_order.
  assert (F : forallb (fun r => (r =? 0)%nat) (unit_vec m i 0) = true).
  { apply forallb_forall. intros r Hin. unfold unit_vec in Hin. apply in_map_iff in Hin. destruct Hin as (j & <- & _).
    destruct (j =? i)%nat; reflexivity. }
  rewrite F. reflexivity.
Qed.

(* identical_tail for a direction with the same periodicity (no lower_periodic) and the same order (no raise_order) *)
Lemma tailP_unfold :
  identical_tail tol a0 b0 i =
    match @missing_knots R NumR tol p (mkBasis p la per1) (mkBasis p lb per1) with
    | Err e => Err e
    | Ok ins2 =>
      match @obj_insert_knots R NumR b1 i ins2 with
      | Err e => Err e
      | Ok b4 =>
        match @missing_knots R NumR tol p (nth i (o_bases b4) dflt_basis) (mkBasis p la per1) with
        | Err e => Err e
        | Ok ins1 =>
          match @obj_insert_knots R NumR a1 i ins1 with
          | Err e => Err e
          | Ok a4 => Ok (a4, b4)
          end
        end
      end
    end.
Proof.
  unfold identical_tail.
  change (@n0 R NumR) with 0. change (@n1 R NumR) with 1.
  rewrite (nr_a1_ok tol Htol a0 Wa i Hia), (nr_a1_ok tol Htol b0 Wb i Hib).
  cbv zeta. change (@mkBasis R 0 [] 0) with dflt_basis.
  rewrite cp_a1_i, cp_b1_i. cbn [b_per1 b_order].
  rewrite Nat.ltb_irrefl. cbv beta iota.
  rewrite cp_a1_i, cp_b1_i. cbn [b_per1 b_order].
  rewrite Nat.max_id, Nat.sub_diag. rewrite !raise_zero.
  rewrite cp_a1_i, cp_b1_i. reflexivity.
Qed.

Theorem identical_coreP_ok : exists a b kk nk, identical_tail tol a0 b0 i = Ok (a, b) /\ coreP_facts a b kk nk.
Proof.
  destruct coreP_forward as (ins2 & b4 & ins1 & a4 & kk & nk & M1 & I1 & M2 & I2 & CF).
  exists a4, b4, kk, nk. split; [|exact CF]. rewrite tailP_unfold, M1, I1, M2, I2. reflexivity.
Qed.

Theorem identical_coreP (a b : obj R) : identical_tail tol a0 b0 i = Ok (a, b) -> exists kk nk, coreP_facts a b kk nk.
Proof.
  destruct identical_coreP_ok as (a' & b' & kk & nk & E & CF). rewrite E. intros [= <- <-]. exists kk, nk. exact CF.
Qed.
End CoreP.


(* ================================================================================================ *)
(* Part 5: the end-to-end theorems, case (a) *)

(* Direction i of both operands is periodic with the same order and the same continuity.  Beyond the hypotheses of the
   non-periodic theorem (identical_hyps: tol, well-formedness, separation of the knots after rescaling):
     ip_order    equal orders (no order elevation: its success is not proved anywhere for periodic directions either);
     ip_per      equal periodicity (no lower_periodic step; cases (b), (c) below);
     ip_canon*   canonical periodic knot lists with at least order + continuity functions (Proofs/PeriodicInsert.v:
                 below that number the implementation's ghost-knot repairs overlap and insert_knot changes the map);
     ip_strict*  the ghost knot below the start knot is strictly smaller (the copies of the seam knot lie in one period);
     ip_sep      after rescaling to [0,1] the knots of both operands AND their images one period up and down are pairwise
                 equal or more than tol apart: in particular no knot of one operand within tol of the seam of the other
                 one from either side (the Python implementation returns DIFFERENT knot vectors there, see the report);
     ip_seam     the seam knot has the same multiplicity in both operands (true when both have the multiplicity
                 order - continuity - 1 that the declared continuity stands for; with different seam multiplicities the
                 Python implementation inserts the seam knot TWICE -- once as start, once as end of knots() -- and
                 returns different knot vectors, see the report). *)
Record identical_per_hyps (tol : R) (o1 o2 : obj R) (i na nb : nat) (Ta Tb : R) : Prop := {
  ip_tol : 0 < tol;
  ip_tol2 : 2 * tol <= 1;
  ip_wf1 : wf_obj_R tol o1;
  ip_wf2 : wf_obj_R tol o2;
  ip_dir1 : (i < length (o_bases o1))%nat;
  ip_dir2 : (i < length (o_bases o2))%nat;
  ip_order : b_order (nth i (o_bases o2) dflt_basis) = b_order (nth i (o_bases o1) dflt_basis);
  ip_per : b_per1 (nth i (o_bases o2) dflt_basis) = b_per1 (nth i (o_bases o1) dflt_basis);
  ip_canon1 : canon_dir o1 i na Ta;
  ip_canon2 : canon_dir o2 i nb Tb;
  ip_strict1 : per_strict (b_knots (nth i (o_bases o1) dflt_basis)) (b_per1 (nth i (o_bases o1) dflt_basis));
  ip_strict2 : per_strict (b_knots (nth i (o_bases o2) dflt_basis)) (b_per1 (nth i (o_bases o1) dflt_basis));
  ip_sep : separated tol (pvals (b_knots (rp_basis (nth i (o_bases o1) dflt_basis) 0 1)) (b_per1 (nth i (o_bases o1) dflt_basis)) na 1 ++
                          pvals (b_knots (rp_basis (nth i (o_bases o2) dflt_basis) 0 1)) (b_per1 (nth i (o_bases o1) dflt_basis)) nb 1);
  ip_seam : mult (b_knots (rp_basis (nth i (o_bases o1) dflt_basis) 0 1)) 0 = mult (b_knots (rp_basis (nth i (o_bases o2) dflt_basis) 0 1)) 0
}.

Section MainP.
Variable tol : R.
Variables o1 o2 : obj R.
Variable i : nat.
Variables (na nb : nat) (Ta Tb : R).
Hypothesis H : identical_per_hyps tol o1 o2 i na nb Ta Tb.
Local Notation b1 := (nth i (o_bases o1) dflt_basis).
Local Notation b2 := (nth i (o_bases o2) dflt_basis).
Local Notation p := (b_order b1).
Local Notation per1 := (b_per1 b1).
Local Notation l1 := (b_knots (rp_basis b1 0 1)).
Local Notation l2 := (b_knots (rp_basis b2 0 1)).
Local Notation dim' := (Nat.max (o_dim o1) (o_dim o2)).
Local Notation a0 := (fst (@obj_compatible R NumR o1 o2)).
Local Notation b0 := (snd (@obj_compatible R NumR o1 o2)).

Lemma mp_compat :
  wf_obj_R tol a0 /\ wf_obj_R tol b0 /\ o_bases a0 = o_bases o1 /\ o_bases b0 = o_bases o2 /\
  o_dim a0 = dim' /\ o_dim b0 = dim' /\ o_rat a0 = (o_rat o1 || o_rat o2)%bool /\ o_rat b0 = (o_rat o1 || o_rat o2)%bool.
Proof.
  destruct (compatible_eval tol o1 o2 [] (ip_tol _ _ _ _ _ _ _ _ H) (ip_wf1 _ _ _ _ _ _ _ _ H) (ip_wf2 _ _ _ _ _ _ _ _ H)) as (_ & _ & C). cbv zeta in C. exact C.
Qed.

Lemma mp_core_ok : exists a b kk nk, identical_tail tol a0 b0 i = Ok (a, b) /\ coreP_facts tol a0 b0 i na nb a b kk nk.
Proof.
  destruct mp_compat as (Wa & Wb & Ba & Bb & _). destruct H.
  pose proof (identical_coreP_ok tol ip_tol0 ip_tol3 a0 b0 Wa Wb i) as IC. unfold canon_dir in IC. rewrite Ba, Bb in IC.
  exact (IC ip_dir3 ip_dir4 ip_order0 ip_per0 na nb Ta Tb ip_canon3 ip_canon4 ip_strict3 ip_strict4 ip_sep0 ip_seam0).
Qed.

(* 1. the computation succeeds *)
Theorem identical_dir_per_ok : exists a b, @identical_dir R NumR tol o1 o2 i = Ok (a, b).
Proof. destruct mp_core_ok as (a & b & kk & nk & E & _). exists a, b. rewrite identical_dir_tail. exact E. Qed.

Variables a b : obj R.
Hypothesis Hid : @identical_dir R NumR tol o1 o2 i = Ok (a, b).

Lemma mp_facts : exists kk nk, coreP_facts tol a0 b0 i na nb a b kk nk.
Proof.
  destruct mp_core_ok as (a' & b' & kk & nk & E & CF). rewrite <- identical_dir_tail, Hid in E. injection E as <- <-.
  exists kk, nk. exact CF.
Qed.

(* 2. the same order, periodicity, domain [0,1] and knot list in direction i *)
Theorem identical_dir_per_knots :
  let ba := nth i (o_bases a) dflt_basis in let bb := nth i (o_bases b) dflt_basis in
  b_order ba = p /\ b_order bb = p /\ b_per1 ba = per1 /\ b_per1 bb = per1 /\
  @b_start R NumR ba = 0 /\ @b_end R NumR ba = 1 /\ @b_start R NumR bb = 0 /\ @b_end R NumR bb = 1 /\
  b_knots ba = b_knots bb /\
  (* again canonical periodic (period 1, strict seam); every knot of the period has the larger of its two multiplicities *)
  (exists nk, canon_dir a i nk 1 /\ canon_dir b i nk 1 /\ per_strict (b_knots ba) per1 /\
     forall v, cw (b_knots ba) per1 nk v = Nat.max (cw l1 per1 na v) (cw l2 per1 nb v)) /\
  (* the rest of the objects *)
  wf_obj_R tol a /\ wf_obj_R tol b /\
  length (o_bases a) = length (o_bases o1) /\ length (o_bases b) = length (o_bases o2) /\
  (forall j, j <> i -> nth j (o_bases a) dflt_basis = nth j (o_bases o1) dflt_basis) /\
  (forall j, j <> i -> nth j (o_bases b) dflt_basis = nth j (o_bases o2) dflt_basis) /\
  o_dim a = dim' /\ o_dim b = dim' /\ o_rat a = (o_rat o1 || o_rat o2)%bool /\ o_rat b = (o_rat o1 || o_rat o2)%bool.
Proof.
  cbv zeta. destruct mp_compat as (Wa & Wb & Ba & Bb & Da & Db & Ra & Rb).
  destruct mp_facts as (kk & nk & F). unfold coreP_facts in F. rewrite Ba, Bb in F.
  destruct F as (F1 & F2 & F3 & F4 & F5 & F6 & F7 & F8 & F9 & F10 & F11 & F12 & F13 & F14 & F15 & F16 & _).
  pose proof (canon_period _ _ _ _ _ F9) as Hper. pose proof F9 as (_ & _ & _ & Hlen & _).
  assert (Eend : @kn R NumR kk (length kk - p) = 1).
  { rewrite Hlen. replace (nk + per1 + p - p)%nat with (nk + per1)%nat by lia. rewrite Hper, F11. ring. }
  unfold canon_dir. rewrite F7, F8. unfold b_start, b_end. cbn [b_order b_knots b_per1].
  split; [reflexivity|]. split; [reflexivity|]. split; [reflexivity|]. split; [reflexivity|].
  split; [exact F11|]. split; [exact Eend|]. split; [exact F11|]. split; [exact Eend|]. split; [reflexivity|].
  split; [exists nk; repeat split; try assumption; apply F9|].
  repeat (split; [first [assumption|congruence]|]). congruence.
Qed.

(* 3. each object still evaluates to the map it represented, at the rescaled parameter (padded coordinates zero):
      every parameter of the closed base period that is clear of the knots of both operands *)
Theorem identical_dir_per_eval ts :
  dom_all tol o1 ts -> (i < length ts)%nat ->
  @b_start R NumR b1 <= nth i ts 0 <= @b_end R NumR b1 -> param_clear tol b1 b2 (nth i ts 0) ->
  @obj_eval R NumR tol a (upd ts i ((nth i ts 0 - @b_start R NumR b1) / (@b_end R NumR b1 - @b_start R NumR b1)))
  = res_map (pad (dim' - o_dim o1)) (@obj_eval R NumR tol o1 ts).
Proof.
  intros Hdom Hit Ht HC. destruct mp_compat as (Wa & Wb & Ba & Bb & _).
  destruct mp_facts as (kk & nk & F). unfold coreP_facts in F. rewrite Ba, Bb in F.
  destruct F as (_ & _ & _ & _ & _ & _ & _ & _ & _ & _ & _ & _ & _ & _ & _ & _ & Ev & _).
  rewrite <- (rp_map_01 tol o1 i (nth i ts 0) (ip_tol _ _ _ _ _ _ _ _ H) (ip_wf1 _ _ _ _ _ _ _ _ H) (ip_dir1 _ _ _ _ _ _ _ _ H)).
  rewrite (Ev ts (dom_all_bases tol o1 a0 ts Ba Hdom) Hit Ht HC).
  destruct (compatible_eval tol o1 o2 ts (ip_tol _ _ _ _ _ _ _ _ H) (ip_wf1 _ _ _ _ _ _ _ _ H) (ip_wf2 _ _ _ _ _ _ _ _ H)) as (E & _). exact E.
Qed.

Theorem identical_dir_per_eval2 ts :
  dom_all tol o2 ts -> (i < length ts)%nat ->
  @b_start R NumR b2 <= nth i ts 0 <= @b_end R NumR b2 -> param_clear tol b2 b1 (nth i ts 0) ->
  @obj_eval R NumR tol b (upd ts i ((nth i ts 0 - @b_start R NumR b2) / (@b_end R NumR b2 - @b_start R NumR b2)))
  = res_map (pad (dim' - o_dim o2)) (@obj_eval R NumR tol o2 ts).
Proof.
  intros Hdom Hit Ht HC. destruct mp_compat as (Wa & Wb & Ba & Bb & _).
  destruct mp_facts as (kk & nk & F). unfold coreP_facts in F. rewrite Ba, Bb in F.
  destruct F as (_ & _ & _ & _ & _ & _ & _ & _ & _ & _ & _ & _ & _ & _ & _ & _ & _ & Ev).
  rewrite <- (rp_map_01 tol o2 i (nth i ts 0) (ip_tol _ _ _ _ _ _ _ _ H) (ip_wf2 _ _ _ _ _ _ _ _ H) (ip_dir2 _ _ _ _ _ _ _ _ H)).
  rewrite (Ev ts (dom_all_bases tol o2 b0 ts Bb Hdom) Hit Ht HC).
  destruct (compatible_eval tol o1 o2 ts (ip_tol _ _ _ _ _ _ _ _ H) (ip_wf1 _ _ _ _ _ _ _ _ H) (ip_wf2 _ _ _ _ _ _ _ _ H)) as (_ & E & _). exact E.
Qed.
End MainP.


(* ---- obj_make_identical with an explicit direction ---- *)
Lemma identical_per_hyps_compat tol (o1 o2 : obj R) i na nb Ta Tb : identical_per_hyps tol o1 o2 i na nb Ta Tb ->
  identical_per_hyps tol (fst (@obj_compatible R NumR o1 o2)) (snd (@obj_compatible R NumR o1 o2)) i na nb Ta Tb.
Proof.
  intros H. destruct (mp_compat tol o1 o2 i na nb Ta Tb H) as (Wa & Wb & Ba & Bb & _). destruct H.
  constructor; unfold canon_dir in *; rewrite ?Ba, ?Bb; assumption.
Qed.

Section MakeIdenticalP.
Variable tol : R.
Variables o1 o2 : obj R.
Variable i : nat.
Variables (na nb : nat) (Ta Tb : R).
Hypothesis H : identical_per_hyps tol o1 o2 i na nb Ta Tb.
Local Notation b1 := (nth i (o_bases o1) dflt_basis).
Local Notation b2 := (nth i (o_bases o2) dflt_basis).
Local Notation dim' := (Nat.max (o_dim o1) (o_dim o2)).

Theorem make_identical_per_ok : exists a b, @obj_make_identical R NumR tol o1 o2 (Some i) = Ok (a, b).
Proof.
  destruct (identical_dir_per_ok tol _ _ i na nb Ta Tb (identical_per_hyps_compat tol o1 o2 i na nb Ta Tb H)) as (a & b & E).
  exists a, b. unfold obj_make_identical. destruct (@obj_compatible R NumR o1 o2) as [a0 b0]. exact E.
Qed.

Variables a b : obj R.
Hypothesis Hid : @obj_make_identical R NumR tol o1 o2 (Some i) = Ok (a, b).

Lemma mip_dir : @identical_dir R NumR tol (fst (@obj_compatible R NumR o1 o2)) (snd (@obj_compatible R NumR o1 o2)) i = Ok (a, b).
Proof. unfold obj_make_identical in Hid. destruct (@obj_compatible R NumR o1 o2) as [a0 b0]. exact Hid. Qed.

Theorem make_identical_per_knots :
  let ba := nth i (o_bases a) dflt_basis in let bb := nth i (o_bases b) dflt_basis in
  b_order ba = b_order b1 /\ b_order bb = b_order b1 /\ b_per1 ba = b_per1 b1 /\ b_per1 bb = b_per1 b1 /\
  @b_start R NumR ba = 0 /\ @b_end R NumR ba = 1 /\ @b_start R NumR bb = 0 /\ @b_end R NumR bb = 1 /\
  b_knots ba = b_knots bb /\ o_dim a = dim' /\ o_dim b = dim' /\ o_rat a = o_rat b.
Proof.
  cbv zeta. destruct (mp_compat tol o1 o2 i na nb Ta Tb H) as (Wa & Wb & Ba & Bb & Da & Db & Ra & Rb).
  pose proof (identical_dir_per_knots tol _ _ i na nb Ta Tb (identical_per_hyps_compat tol o1 o2 i na nb Ta Tb H) a b mip_dir) as K. cbv zeta in K.
  rewrite Ba, Bb, Da, Db, Ra, Rb in K.
  destruct K as (K1 & K2 & K3 & K4 & K5 & K6 & K7 & K8 & K9 & _ & _ & _ & _ & _ & _ & _ & K18 & K19 & K20 & K21).
  rewrite Nat.max_id in K18, K19.
  repeat (split; [assumption|]). congruence.
Qed.

Theorem make_identical_per_eval ts :
  dom_all tol o1 ts -> (i < length ts)%nat ->
  @b_start R NumR b1 <= nth i ts 0 <= @b_end R NumR b1 -> param_clear tol b1 b2 (nth i ts 0) ->
  @obj_eval R NumR tol a (upd ts i ((nth i ts 0 - @b_start R NumR b1) / (@b_end R NumR b1 - @b_start R NumR b1)))
  = res_map (pad (dim' - o_dim o1)) (@obj_eval R NumR tol o1 ts).
Proof.
  intros Hdom Hit Ht HC. destruct (mp_compat tol o1 o2 i na nb Ta Tb H) as (Wa & Wb & Ba & Bb & Da & Db & _).
  pose proof (identical_dir_per_eval tol _ _ i na nb Ta Tb (identical_per_hyps_compat tol o1 o2 i na nb Ta Tb H) a b mip_dir ts) as E.
  rewrite Ba, Bb, Da, Db in E. rewrite Nat.max_id, Nat.sub_diag, res_map_pad0 in E.
  rewrite (E (dom_all_bases tol o1 _ ts Ba Hdom) Hit Ht HC).
  destruct (compatible_eval tol o1 o2 ts (ip_tol _ _ _ _ _ _ _ _ H) (ip_wf1 _ _ _ _ _ _ _ _ H) (ip_wf2 _ _ _ _ _ _ _ _ H)) as (E1 & _). exact E1.
Qed.

Theorem make_identical_per_eval2 ts :
  dom_all tol o2 ts -> (i < length ts)%nat ->
  @b_start R NumR b2 <= nth i ts 0 <= @b_end R NumR b2 -> param_clear tol b2 b1 (nth i ts 0) ->
  @obj_eval R NumR tol b (upd ts i ((nth i ts 0 - @b_start R NumR b2) / (@b_end R NumR b2 - @b_start R NumR b2)))
  = res_map (pad (dim' - o_dim o2)) (@obj_eval R NumR tol o2 ts).
Proof.
  intros Hdom Hit Ht HC. destruct (mp_compat tol o1 o2 i na nb Ta Tb H) as (Wa & Wb & Ba & Bb & Da & Db & _).
  pose proof (identical_dir_per_eval2 tol _ _ i na nb Ta Tb (identical_per_hyps_compat tol o1 o2 i na nb Ta Tb H) a b mip_dir ts) as E.
  rewrite Ba, Bb, Da, Db in E. rewrite Nat.max_id, Nat.sub_diag, res_map_pad0 in E.
  rewrite (E (dom_all_bases tol o2 _ ts Bb Hdom) Hit Ht HC).
  destruct (compatible_eval tol o1 o2 ts (ip_tol _ _ _ _ _ _ _ _ H) (ip_wf1 _ _ _ _ _ _ _ _ H) (ip_wf2 _ _ _ _ _ _ _ _ H)) as (_ & E2 & _). exact E2.
Qed.
End MakeIdenticalP.


(* ================================================================================================ *)
(* Part 6: non-vacuity, case (a): two cubic C^2-periodic curves (8 functions, period 8): the uniform knots ex_knots of
   Proofs/PeriodicInsert.v and the same list with the knot 4 moved to 9/2 *)
Lemma separated_grid tol (g : R) (l : list R) : 0 < g -> tol < g -> (forall v, In v l -> exists z : Z, v = IZR z * g) -> separated tol l.
Proof.
  intros Hg Ht Hl y z Hy Hz. destruct (Hl y Hy) as (a & ->). destruct (Hl z Hz) as (b & ->).
  destruct (Z.eq_dec a b) as [->|Ne]; [left; reflexivity|right].
  replace (IZR a * g - IZR b * g) with (IZR (a - b) * g) by (rewrite minus_IZR; ring).
  rewrite Rabs_mult, (Rabs_right g) by lra. rewrite <- abs_IZR.
  assert (1 <= IZR (Z.abs (a - b))) by (apply IZR_le; lia). nra.
Qed.

Lemma grid_pvals (g : R) (m : Z) (l : list R) per1 n : 1 = IZR m * g ->
  (forall v, In v (pwin l per1 n) -> exists z : Z, v = IZR z * g) ->
  forall v, In v (pvals l per1 n 1) -> exists z : Z, v = IZR z * g.
Proof.
  intros Hm Hw v Hv. apply pvals_in in Hv. destruct Hv as [Hv|[Hv|Hv]]; destruct (Hw _ Hv) as (z & E).
  - exists z. exact E.
  - exists (z + m)%Z. rewrite plus_IZR. lra.
  - exists (z - m)%Z. rewrite minus_IZR. lra.
Qed.

Definition exq_knots : list R := [-3; -2; -1; 0; 1; 2; 3; 9/2; 5; 6; 7; 8; 9; 10; 11].
Definition exq_curve : obj R := mkObj [mkBasis 4 exq_knots 3] ex_cps 2 false.
Definition exp_tol : R := 1/1000.

Example exq_canon : per_canon exq_knots 4 3 8 8.
Proof.
  unfold per_canon. split.
  { apply Proofs.RaiseNested.sorted_kn_lsorted. unfold exq_knots. repeat (constructor; try lra). }
  split; [lia|]. split; [lia|]. split; [reflexivity|]. split; [lia|]. split; [lra|]. split; [reflexivity|].
  intros i Hi. cbn [length exq_knots] in Hi.
  do 7 (destruct i as [|i]; [unfold kn, exq_knots; cbn; lra|]). lia.
Qed.

Example exq_wf : wf_obj_R exp_tol exq_curve.
Proof.
  split; [|split].
  - constructor; [|constructor]. split; [exact (proj1 exq_canon)|]. cbn [b_order b_knots].
    split; [lia|]. split; [cbn; lia|]. split; [unfold b_nfun; cbn; lia|].
    unfold b_start, b_end, kn, exq_knots, exp_tol. cbn. lra.
  - unfold exq_curve, ex_cps. cbn [o_cps]. repeat constructor.
  - reflexivity.
Qed.

Lemma exp_l1 : b_knots (rp_basis (mkBasis 4 ex_knots 3) 0 1)
  = [-3/8; -2/8; -1/8; 0; 1/8; 2/8; 3/8; 4/8; 5/8; 6/8; 7/8; 1; 9/8; 10/8; 11/8].
Proof.
  cbn [rp_basis b_knots]. unfold rp_map, rp_al, aff, b_start, b_end, ex_knots, kn. cbn [b_knots b_order length Nat.sub nth map].
  repeat (apply f_equal2; [field; lra|]). reflexivity.
Qed.
Lemma exp_l2 : b_knots (rp_basis (mkBasis 4 exq_knots 3) 0 1)
  = [-3/8; -2/8; -1/8; 0; 1/8; 2/8; 3/8; 9/16; 5/8; 6/8; 7/8; 1; 9/8; 10/8; 11/8].
Proof.
  cbn [rp_basis b_knots]. unfold rp_map, rp_al, aff, b_start, b_end, exq_knots, kn. cbn [b_knots b_order length Nat.sub nth map].
  repeat (apply f_equal2; [field; lra|]). reflexivity.
Qed.

Ltac grid16 := first [exists 0%Z; lra|exists 1%Z; lra|exists 2%Z; lra|exists 3%Z; lra|exists 4%Z; lra|exists 5%Z; lra|exists 6%Z; lra|exists 7%Z; lra
                     |exists 8%Z; lra|exists 9%Z; lra|exists 10%Z; lra|exists 11%Z; lra|exists 12%Z; lra|exists 13%Z; lra|exists 14%Z; lra|exists 15%Z; lra].

Theorem exp_hyps : identical_per_hyps exp_tol ex_curve exq_curve 0 8 8 8 8.
Proof.
  constructor; cbn [ex_curve exq_curve o_bases nth length b_order b_per1].
  - unfold exp_tol; lra.
  - unfold exp_tol; lra.
  - exact ex_wf.
  - exact exq_wf.
  - lia.
  - lia.
  - reflexivity.
  - reflexivity.
  - exact ex_canon.
  - exact exq_canon.
  - unfold per_strict, kn, ex_knots. cbn. lra.
  - unfold per_strict, kn, exq_knots. cbn. lra.
  - rewrite exp_l1, exp_l2. apply (separated_grid exp_tol (1/16)); [lra|unfold exp_tol; lra|].
    intros v Hv. apply in_app_or in Hv. destruct Hv as [Hv|Hv]; revert v Hv; apply (grid_pvals (1/16) 16); try lra;
      intros v Hv; cbn [pwin skipn firstn] in Hv; in_cases Hv; grid16.
  - rewrite exp_l1, exp_l2. unfold mult.
    transitivity 1%nat; [|symmetry]; repeat first [rewrite count_occ_cons_eq by lra | rewrite count_occ_cons_neq by lra]; reflexivity.
Qed.

Corollary exp_ok : exists a b, @identical_dir R NumR exp_tol ex_curve exq_curve 0 = Ok (a, b).
Proof. exact (identical_dir_per_ok _ _ _ _ _ _ _ _ exp_hyps). Qed.

(* a parameter that satisfies the hypotheses of identical_dir_per_eval: t = 1/2 (mapped to 1/16) *)
Lemma exp_param : dom_all exp_tol ex_curve [1/2] /\
  @b_start R NumR (mkBasis 4 ex_knots 3) <= 1/2 <= @b_end R NumR (mkBasis 4 ex_knots 3) /\
  param_clear exp_tol (mkBasis 4 ex_knots 3) (mkBasis 4 exq_knots 3) (1/2).
Proof.
  assert (Eal : rp_al (mkBasis 4 ex_knots 3) 0 1 = 1/8).
  { unfold rp_al. rewrite ex_start, ex_end. field. }
  split; [|split].
  - intros j Hj. cbn [ex_curve o_bases length] in Hj. assert (j = 0%nat) by lia. subst j. cbn [ex_curve o_bases nth].
    unfold in_dom. cbn [b_per1]. discriminate.
  - rewrite ex_start, ex_end. lra.
  - split.
    + cbn [b_knots]. rewrite Eal. intros v Hv. unfold ex_knots in Hv. unfold exp_tol.
      assert (Em : Rmax (1/1000) (1/1000 / (1/8)) = 8/1000) by (rewrite Rmax_right; lra). rewrite Em.
      in_cases Hv; right; rabs.
    + rewrite exp_l2, rp_map_eq, Eal, ex_start. intros v Hv. unfold exp_tol. in_cases Hv; right; rabs.
Qed.


(* ================================================================================================ *)
(* Part 7: case (b), one operand periodic, the other one not: lower_periodic down to an open direction.
   The knot list of the opened object (Proofs/PeriodicEndToEnd.v gives its order, domain and evaluation only) *)

Lemma ip_skipn_tl {A} j (l : list A) : skipn j (tl l) = skipn (S j) l.
Proof. destruct l; [destruct j; reflexivity|reflexivity]. Qed.

Section LowerStruct.
Variable tol : R.
Hypothesis Htol : 0 < tol.
Variable d : nat.

(* the insertion of the start knot inside one step *)
Lemma lower_step_struct (o : obj R) (k : list R) p per1 n T :
  wf_obj_R tol o -> (d < length (o_bases o))%nat -> nth d (o_bases o) dflt_basis = mkBasis p k per1 ->
  per_canon k p per1 n T -> per_strict k per1 ->
  let st := @kn R NumR k (p - 1) in let knew := knew_model k p per1 st in
  per_canon knew p per1 (n + 1) T /\ per_strict knew per1 /\
  Permutation (pwin knew per1 (n + 1)) (st :: pwin k per1 n) /\ @kn R NumR knew (p - 1) = st.
Proof.
  intros Hwf Hd Hb Hcan Hstr. cbv zeta.
  pose proof Hcan as (_ & Hper1 & Hpp & Hlen & _ & HT & _).
  assert (Hx : @kn R NumR k (p - 1) <= @kn R NumR k (p - 1) < @kn R NumR k (n + per1)) by (rewrite (canon_period k p per1 n T Hcan); lra).
  destruct (insert_one_per tol Htol d p per1 T o k n _ Hwf Hd Hb Hcan Hstr Hx) as (o1 & k1 & Hok & Hf & Hperm & _).
  assert (Hcd : canon_dir o d n T) by (unfold canon_dir; rewrite Hb; exact Hcan).
  assert (Hx' : @b_start R NumR (nth d (o_bases o) dflt_basis) <= @kn R NumR k (p - 1) < @b_end R NumR (nth d (o_bases o) dflt_basis)).
  { rewrite Hb. unfold b_start, b_end. cbn [b_knots b_order]. replace (length k - p)%nat with (n + per1)%nat by lia. exact Hx. }
  pose proof (pi_insert_ok o d Hd n T Hcd _ Hx') as Hok2. rewrite Hok in Hok2. injection Hok2 as E.
  destruct Hf as (_ & _ & _ & Hb1 & Hcan1 & Hstr1 & Hs1).
  rewrite E in Hb1. unfold obj_along in Hb1. cbn [o_bases] in Hb1. rewrite upd_nth_same in Hb1 by exact Hd.
  rewrite Hb in Hb1. cbn [b_knots b_order b_per1] in Hb1. injection Hb1 as E1. rewrite <- E1 in *.
  split; [exact Hcan1|]. split; [exact Hstr1|]. split; [exact Hperm|exact Hs1].
Qed.

(* one step of obj_lower_periodic with the explicit knot list of the result *)
Lemma lower_step_pack (o : obj R) (k : list R) p per1 n T :
  wf_obj_R tol o -> (d < length (o_bases o))%nat -> nth d (o_bases o) dflt_basis = mkBasis p k per1 ->
  per_canon k p per1 n T ->
  let st := @kn R NumR k (p - 1) in let knew := knew_model k p per1 st in
  exists o2,
    (forall fuel target, (target < per1)%nat ->
       @obj_lower_periodic R NumR (S fuel) o target d = @obj_lower_periodic R NumR fuel o2 target d) /\
    wf_obj_R tol o2 /\ length (o_bases o2) = length (o_bases o) /\
    (forall j, j <> d -> nth j (o_bases o2) dflt_basis = nth j (o_bases o) dflt_basis) /\
    nth d (o_bases o2) dflt_basis = mkBasis p (tl knew) (per1 - 1) /\
    o_dim o2 = o_dim o /\ o_rat o2 = o_rat o /\
    forall ts, (forall j, (j < length (o_bases o))%nat -> j <> d -> in_dom tol (nth j (o_bases o) dflt_basis) (nth j ts 0)) ->
      st <= nth d ts 0 <= st + T -> @obj_eval R NumR tol o2 ts = @obj_eval R NumR tol o ts.
Proof.
  intros Hwf Hd Hb Hcan. cbv zeta.
  pose proof Hcan as (_ & Hper1 & Hpp & Hlen & _).
  assert (Hcd : canon_dir o d n T) by (unfold canon_dir; rewrite Hb; exact Hcan).
  pose proof (lo_package tol Htol o Hwf d Hd n T Hcd) as P. pose proof (lo_nth2 o d Hd n) as N.
  rewrite Hb in P, N. cbn [b_knots b_order b_per1] in P, N.
  destruct P as (Hstep & Hwf2 & Hl2 & Hoth2 & _ & _ & Hev2).
  eexists. split; [exact Hstep|]. split; [exact Hwf2|]. split; [exact Hl2|]. split; [exact Hoth2|]. split; [exact N|].
  split; [reflexivity|]. split; [reflexivity|].
  intros ts Hdom Ht. apply Hev2; [exact Hdom|].
  unfold b_start, b_end. cbn [b_knots b_order]. replace (length k - p)%nat with (n + per1)%nat by lia.
  rewrite (canon_period k p per1 n T Hcan). exact Ht.
Qed.

(* the whole iteration down to an open direction *)
Lemma lower_open_struct : forall m (o : obj R) (k : list R) p n T fuel,
  wf_obj_R tol o -> (d < length (o_bases o))%nat -> nth d (o_bases o) dflt_basis = mkBasis p k m ->
  per_canon k p m n T -> per_strict k m -> (m <= fuel)%nat ->
  let st := @kn R NumR k (p - 1) in
  exists o' kf, @obj_lower_periodic R NumR fuel o 0 d = Ok o' /\ wf_obj_R tol o' /\
    length (o_bases o') = length (o_bases o) /\
    (forall j, j <> d -> nth j (o_bases o') dflt_basis = nth j (o_bases o) dflt_basis) /\
    nth d (o_bases o') dflt_basis = mkBasis p kf 0 /\
    Permutation kf (repeat st m ++ pwin k m n ++ repeat (st + T) p) /\
    @kn R NumR kf (p - 1) = st /\ @kn R NumR kf (length kf - p) = st + T /\
    o_dim o' = o_dim o /\ o_rat o' = o_rat o /\
    forall ts, (forall j, (j < length (o_bases o))%nat -> j <> d -> in_dom tol (nth j (o_bases o) dflt_basis) (nth j ts 0)) ->
      st <= nth d ts 0 <= st + T -> @obj_eval R NumR tol o' ts = @obj_eval R NumR tol o ts.
Proof.
  induction m as [|m IH]; intros o k p n T fuel Hwf Hd Hb Hcan Hstr Hfuel; cbv zeta.
  { destruct Hcan as (_ & H1 & _). lia. }
  destruct fuel as [|fuel]; [lia|].
  pose proof Hcan as (HK & Hper1 & Hpp & Hlen & Hreg & HT & Hseam & Himg).
  set (st := @kn R NumR k (p - 1)) in *.
  destruct (lower_step_struct o k p (S m) n T Hwf Hd Hb Hcan Hstr) as (Cn & Sn & Pn & En). fold st in Cn, Sn, Pn, En.
  destruct (lower_step_pack o k p (S m) n T Hwf Hd Hb Hcan) as (o2 & Hstep & Hwf2 & Hl2 & Hoth2 & Hb2 & Hd2 & Hr2 & Hev2).
  fold st in Hb2, Hev2.
  set (knew := knew_model k p (S m) st) in *.
  replace (S m - 1)%nat with m in Hb2 by lia.
  pose proof Cn as (HKn & _ & _ & Hlenn & _ & _ & Hseamn & Himgn).
  assert (Hknp : @kn R NumR knew p = st) by (apply (knew_p k p (S m) n T Hcan)).
  assert (Hne : (1 <= length knew)%nat) by lia.
  assert (Htl : forall j, (S j < length knew)%nat -> @kn R NumR (tl knew) j = @kn R NumR knew (S j)) by (intros j Hj; apply kn_tl; exact Hj).
  rewrite (Hstep fuel 0%nat ltac:(lia)).
  destruct m as [|m].
  - (* the last step: the direction is open now *)
    exists o2, (tl knew).
    split; [apply lower_periodic_done; rewrite Hb2; reflexivity|].
    split; [exact Hwf2|]. split; [exact Hl2|]. split; [exact Hoth2|]. split; [exact Hb2|].
    assert (Ltl : length (tl knew) = (n + 1 + p)%nat) by (rewrite length_tl; lia).
    split.
    { cbn [repeat app].
      assert (Esplit : tl knew = pwin knew 1 (n + 1) ++ repeat (st + T) p).
      { replace (tl knew) with (skipn 1 knew) by (destruct knew; reflexivity). unfold pwin.
        transitivity (firstn (n + 1) (skipn 1 knew) ++ skipn (n + 1) (skipn 1 knew)); [symmetry; apply firstn_skipn|]. f_equal.
        rewrite ip_skipn_skipn. apply (nth_ext _ _ 0 0).
        - rewrite skipn_length, repeat_length. lia.
        - intros j Hj. rewrite skipn_length in Hj. rewrite InsertMatrix.nth_skipn_add.
          rewrite (nth_indep (repeat (st + T) p) 0 (st + T)) by (rewrite repeat_length; lia). rewrite nth_repeat.
          rewrite <- kn_nth by lia. replace (1 + (n + 1) + j)%nat with ((1 + j) + (n + 1))%nat by lia.
          rewrite Himgn by lia. f_equal.
          pose proof (HKn 1%nat (1 + j)%nat ltac:(lia)). pose proof (HKn (1 + j)%nat p ltac:(lia)).
          rewrite Hseamn, En in *. lra. }
      rewrite Esplit. change (st :: pwin k 1 n ++ repeat (st + T) p) with ((st :: pwin k 1 n) ++ repeat (st + T) p).
      apply Permutation_app_tail. exact Pn. }
    split; [rewrite Htl by lia; replace (S (p - 1)) with p by lia; exact Hknp|].
    split.
    { rewrite Ltl. replace (n + 1 + p - p)%nat with (n + 1)%nat by lia. rewrite Htl by lia.
      replace (S (n + 1)) with (n + 1 + 1)%nat by lia. rewrite (canon_period knew p 1 (n + 1) T Cn), En. reflexivity. }
    split; [exact Hd2|]. split; [exact Hr2|exact Hev2].
  - (* still periodic: induction *)
    assert (C2 : per_canon (tl knew) p (S m) (n + 1) T).
    { pose proof (lower_step_canon k p (S (S m)) n T Hcan ltac:(lia)) as C. replace (S (S m) - 1)%nat with (S m) in C by lia. exact C. }
    assert (S2 : per_strict (tl knew) (S m)).
    { unfold per_strict in *. rewrite !Htl by lia. replace (S (S m - 1)) with (S (S m) - 1)%nat by lia. exact Sn. }
    assert (E2 : @kn R NumR (tl knew) (p - 1) = st) by (rewrite Htl by lia; replace (S (p - 1)) with p by lia; exact Hknp).
    assert (W2 : pwin (tl knew) (S m) (n + 1) = pwin knew (S (S m)) (n + 1)) by (unfold pwin; rewrite ip_skipn_tl; reflexivity).
    destruct (IH o2 (tl knew) p (n + 1)%nat T fuel Hwf2 ltac:(rewrite Hl2; exact Hd) Hb2 C2 S2 ltac:(lia))
      as (o' & kf & Hok & Hwf' & Hl' & Hoth' & Hb' & Pk & Es & Ee & Hd' & Hr' & Hev').
    cbv zeta in *. rewrite E2 in *.
    exists o', kf. split; [exact Hok|]. split; [exact Hwf'|]. split; [rewrite Hl'; exact Hl2|].
    split; [intros j Hj; rewrite (Hoth' j Hj); apply Hoth2; exact Hj|]. split; [exact Hb'|].
    split.
    { rewrite Pk, W2. cbn [repeat app]. apply perm_skip.
      transitivity (repeat st m ++ (st :: pwin k (S (S m)) n) ++ repeat (st + T) p).
      - apply Permutation_app_head. apply Permutation_app_tail. exact Pn.
      - cbn [app]. symmetry. apply Permutation_middle. }
    split; [exact Es|]. split; [exact Ee|]. split; [congruence|]. split; [congruence|].
    intros ts Hdom Ht. rewrite Hev'.
    + apply Hev2; assumption.
    + intros j Hj Ne. rewrite (Hoth2 j Ne). apply Hdom; [rewrite <- Hl2; exact Hj|exact Ne].
    + exact Ht.
Qed.
End LowerStruct.


(* ---- the two insertion stages on two objects whose direction i is open on [0,1] (composition of ins_stage of
        Proofs/IdenticalEndToEnd.v, as in core_forward there, for arbitrary objects) ---- *)
Section OpenStages.
Variable tol : R.
Hypothesis Htol : 0 < tol.
Variables i p : nat.
Hypothesis Hp : (2 <= p)%nat.
Variable U : list R.
Hypothesis HU : separated tol U.

Definition open_ready (o : obj R) (k : list R) : Prop :=
  wf_obj_R tol o /\ (i < length (o_bases o))%nat /\ nth i (o_bases o) dflt_basis = mkBasis p k 0 /\
  lsorted k /\ (forall x, In x k -> 0 <= x <= 1) /\
  @kn R NumR k (p - 1) = 0 /\ @kn R NumR k (length k - p) = 1 /\ mult k 1 = p /\ (forall v, In v k -> In v U).

Definition open_result (a2 b2 : obj R) (ka kb : list R) (a b : obj R) (kk : list R) : Prop :=
  wf_obj_R tol a /\ wf_obj_R tol b /\
  length (o_bases a) = length (o_bases a2) /\ length (o_bases b) = length (o_bases b2) /\
  (forall j, j <> i -> nth j (o_bases a) dflt_basis = nth j (o_bases a2) dflt_basis) /\
  (forall j, j <> i -> nth j (o_bases b) dflt_basis = nth j (o_bases b2) dflt_basis) /\
  nth i (o_bases a) dflt_basis = mkBasis p kk 0 /\ nth i (o_bases b) dflt_basis = mkBasis p kk 0 /\
  lsorted kk /\ @kn R NumR kk (p - 1) = 0 /\ @kn R NumR kk (length kk - p) = 1 /\
  (forall v, mult kk v = Nat.max (mult ka v) (mult kb v)) /\
  o_dim a = o_dim a2 /\ o_rat a = o_rat a2 /\ o_dim b = o_dim b2 /\ o_rat b = o_rat b2 /\
  (forall ts, dom_all tol a2 ts -> knot_clear ka tol (nth i ts 0) -> knot_clear kb tol (nth i ts 0) ->
     @obj_eval R NumR tol a ts = @obj_eval R NumR tol a2 ts) /\
  (forall ts, dom_all tol b2 ts -> knot_clear ka tol (nth i ts 0) ->
     @obj_eval R NumR tol b ts = @obj_eval R NumR tol b2 ts).

Lemma open_forward (a2 b2 : obj R) (ka kb : list R) : open_ready a2 ka -> open_ready b2 kb ->
  exists ins2 b4 ins1 a4 kk,
    @missing_knots R NumR tol p (mkBasis p ka 0) (mkBasis p kb 0) = Ok ins2 /\
    @obj_insert_knots R NumR b2 i ins2 = Ok b4 /\
    @missing_knots R NumR tol p (nth i (o_bases b4) dflt_basis) (mkBasis p ka 0) = Ok ins1 /\
    @obj_insert_knots R NumR a2 i ins1 = Ok a4 /\
    open_result a2 b2 ka kb a4 b4 kk.
Proof.
  intros (Wa & Ia & Na & Sa & Ca & Sta & Ena & Ma & Va) (Wb & Ib & Nb & Sb & Cb & Stb & Enb & Mb & Vb).
  assert (LLa : (2 * p <= length ka)%nat).
  { destruct (bd_wf tol a2 Wa i Ia) as (_ & _ & H & _). rewrite Na in H. exact H. }
  assert (SepL : forall k1 k2, (forall v, In v k1 -> In v U) -> (forall v, In v k2 -> In v U) -> separated tol (k1 ++ k2)).
  { intros k1 k2 H1 H2. apply (separated_sub tol _ U); [|exact HU]. intros v Hv. apply in_app_or in Hv. destruct Hv as [Hv|Hv]; [apply H1, Hv|apply H2, Hv]. }
  (* first insertion: the knots of a2 missing in b2 *)
  destruct (ins_stage tol Htol i p Hp b2 ka kb Wb Ib Nb Sa LLa) as (ins2 & b4 & kb4 & M1 & I1 & F1 & S1 & L1 & Mu1 & Ev1).
  { intros x Hx. rewrite Sta, Ena. apply Ca, Hx. }
  { rewrite Sta, Stb. reflexivity. }
  { rewrite Ena, Enb. reflexivity. }
  { apply SepL; assumption. }
  { rewrite Enb, Ma, Mb. lia. }
  pose proof F1 as (Wb4 & Lb4 & Ob4 & Nb4 & Sb4 & Eb4).
  assert (Vkb4 : forall v, In v kb4 -> In v ka \/ In v kb).
  { intros v Hv. apply (count_occ_In Req_EM_T) in Hv. fold (mult kb4 v) in Hv. rewrite Mu1 in Hv.
    destruct (Nat.max_spec (mult ka v) (mult kb v)) as [[_ E]|[_ E]]; rewrite E in Hv; [right|left]; apply (count_occ_In Req_EM_T); exact Hv. }
  assert (V4 : forall v, In v kb4 -> In v U) by (intros v Hv; destruct (Vkb4 v Hv) as [H|H]; [apply Va, H|apply Vb, H]).
  (* second insertion: the knots of b4 missing in a2 *)
  destruct (ins_stage tol Htol i p Hp a2 kb4 ka Wa Ia Na S1 L1) as (ins1 & a4 & ka4 & M2 & I2 & F2 & S2 & L2 & Mu2 & Ev2).
  { intros x Hx. rewrite Sb4, Eb4, Stb, Enb. destruct (Vkb4 x Hx) as [H|H]; [apply Ca, H|apply Cb, H]. }
  { rewrite Sb4, Stb, Sta. reflexivity. }
  { rewrite Eb4, Enb, Ena. reflexivity. }
  { apply SepL; assumption. }
  { rewrite Ena, Mu1, Ma, Mb. lia. }
  pose proof F2 as (Wa4 & La4 & Oa4 & Na4 & Sa4 & Ea4).
  assert (Ekk : ka4 = kb4).
  { apply sorted_mult_eq; [exact S2|exact S1|]. intros v. rewrite Mu2, Mu1. lia. }
  destruct (insert_knots_dims i ins1 a2 a4 I2) as (Da & Rta). destruct (insert_knots_dims i ins2 b2 b4 I1) as (Db & Rtb).
  exists ins2, b4, ins1, a4, kb4. split; [exact M1|]. split; [exact I1|]. split; [rewrite Nb4; exact M2|]. split; [exact I2|].
  unfold open_result.
  split; [exact Wa4|]. split; [exact Wb4|]. split; [exact La4|]. split; [exact Lb4|].
  split; [exact Oa4|]. split; [exact Ob4|].
  split; [rewrite Na4, Ekk; reflexivity|]. split; [exact Nb4|]. split; [exact S1|].
  split; [rewrite Sb4; exact Stb|]. split; [rewrite Eb4; exact Enb|]. split; [exact Mu1|].
  split; [exact Da|]. split; [exact Rta|]. split; [exact Db|]. split; [exact Rtb|].
  split.
  - intros ts Hdom PCa PCb. apply (Ev2 ts Hdom).
    intros v Hv. destruct (Vkb4 v Hv) as [H|H]; [apply PCa, H|apply PCb, H].
  - intros ts Hdom PCa. apply (Ev1 ts Hdom PCa).
Qed.
End OpenStages.


(* ---- each operand brought to the open form on [0,1]: reparam, and lower_periodic if it is periodic ---- *)
Definition norm_ok (tol : R) (i p : nat) (U : list R) (o o2 : obj R) (k2 : list R) : Prop :=
  open_ready tol i p U o2 k2 /\ length (o_bases o2) = length (o_bases o) /\
  (forall j, j <> i -> nth j (o_bases o2) dflt_basis = nth j (o_bases o) dflt_basis) /\
  o_dim o2 = o_dim o /\ o_rat o2 = o_rat o /\
  (forall v, In v k2 -> In v (b_knots (rp_basis (nth i (o_bases o) dflt_basis) 0 1))) /\
  forall ts, dom_all tol o ts -> (i < length ts)%nat ->
    let b := nth i (o_bases o) dflt_basis in
    (b_per1 b <> 0%nat -> @b_start R NumR b <= nth i ts 0 <= @b_end R NumR b) ->
    knot_clear (b_knots b) (Rmax tol (tol / rp_al b 0 1)) (nth i ts 0) ->
    @obj_eval R NumR tol o2 (upd ts i (rp_map b 0 1 (nth i ts 0))) = @obj_eval R NumR tol o ts /\
    dom_all tol o2 (upd ts i (rp_map b 0 1 (nth i ts 0))).

Section Normalise.
Variable tol : R.
Hypothesis Htol : 0 < tol.
Hypothesis Htol2 : 2 * tol <= 1.
Variable i : nat.
Variable U : list R.
Variable o : obj R.
Hypothesis Wo : wf_obj_R tol o.
Hypothesis Hio : (i < length (o_bases o))%nat.
Local Notation b := (nth i (o_bases o) dflt_basis).
Local Notation l := (b_knots (rp_basis b 0 1)).
Local Notation p := (b_order b).
Local Notation o1 := (rp_obj o i 0 1).

Lemma clear_rescaled t : knot_clear (b_knots b) (Rmax tol (tol / rp_al b 0 1)) t -> knot_clear l tol (rp_map b 0 1 t).
Proof.
  intros PC1.
  assert (Hal : 0 < rp_al b 0 1) by (apply rp_al_pos; [apply (nr_dom tol Htol o Wo i Hio)|lra]).
  pose proof (knot_clear_aff (rp_al b 0 1) (0 - rp_al b 0 1 * @b_start R NumR b) (b_knots b) _ t Hal
                (knot_clear_le _ _ _ _ (Rmax_r _ _) PC1)) as H.
  replace (rp_al b 0 1 * (tol / rp_al b 0 1)) with tol in H by (field; lra). exact H.
Qed.

(* an operand that is not periodic in direction i (hypotheses of the non-periodic theorem) *)
Lemma norm_open_side : good_dir tol (rp_basis b 0 1) -> mult l 1 = p -> (forall v, In v l -> In v U) ->
  norm_ok tol i p U o o1 l.
Proof.
  intros G M1 VU.
  destruct (core_basis_facts tol o i Htol Wo Hio G) as (Sl & P1 & P2 & Cl & Stl & Enl).
  assert (Hr : @obj_raise_order R NumR tol o1 (unit_vec (length (o_bases o1)) i 0) = Ok o1) by apply raise_zero.
  destruct (norm_raise tol Htol Htol2 o Wo i Hio 0%nat G ltac:(intros C; exfalso; apply C; reflexivity) o1 Hr)
    as (R1 & R2 & R3 & R4 & R5 & R6 & _ & _ & _ & _ & _ & R12).
  cbn [chain] in R4. rewrite Nat.add_0_r in R4.
  split.
  { split; [exact R1|]. split; [rewrite R2; exact Hio|]. split; [exact R4|]. split; [exact Sl|].
    split; [intros x Hx; pose proof (Cl x Hx) as H; rewrite Stl, Enl in H; exact H|].
    split; [exact Stl|]. split; [exact Enl|]. split; [exact M1|exact VU]. }
  split; [exact R2|]. split; [exact R3|]. split; [exact R5|]. split; [exact R6|]. split; [auto|].
  intros ts Hdom Hit. cbv zeta. intros _ PC1. apply (R12 ts Hdom Hit PC1).
Qed.

(* an operand that is periodic in direction i: reparam, then lower_periodic down to an open direction *)
Lemma norm_per_side n T fuel : canon_dir o i n T -> per_strict (b_knots b) (b_per1 b) -> (b_per1 b <= fuel)%nat ->
  (forall v, In v (pvals l (b_per1 b) n 1) -> In v U) ->
  exists o2 kL, @obj_lower_periodic R NumR fuel o1 0 i = Ok o2 /\
    Permutation kL (repeat 0 (b_per1 b) ++ pwin l (b_per1 b) n ++ repeat 1 p) /\
    norm_ok tol i p U o o2 kL.
Proof.
  intros Hcan Hstr Hfuel VU.
  destruct (canon_rescaled tol o i n T Htol Wo Hio Hcan) as (C & S & Z). specialize (S Hstr).
  set (per1 := b_per1 b) in *.
  pose proof C as (HKl & Hper1 & Hpp & Hlenl & Hregl & _ & Hseaml & Himgl).
  pose proof (canon_period _ _ _ _ _ C) as Hperl. rewrite Z in Hperl.
  assert (W1 : wf_obj_R tol o1) by exact (nr_a1_wf tol Htol Htol2 o Wo i Hio).
  assert (I1 : (i < length (o_bases o1))%nat) by (rewrite nr_a1_len; exact Hio).
  assert (N1 : nth i (o_bases o1) dflt_basis = mkBasis p l per1) by (rewrite (nr_a1_i o i Hio); reflexivity).
  destruct (lower_open_struct tol Htol i per1 o1 l p n 1 fuel W1 I1 N1 C S Hfuel)
    as (o2 & kL & Hok & W2 & L2 & O2 & N2 & Pk & Es & Ee & D2 & Rt2 & Ev2).
  cbv zeta in *. rewrite Z in *. replace (0 + 1) with 1 in * by ring.
  assert (Vals : forall v, In v kL -> v = 0 \/ In v (pwin l per1 n) \/ v = 1).
  { intros v Hv. apply (Permutation_in _ Pk) in Hv. apply in_app_or in Hv. destruct Hv as [Hv|Hv]; [left; apply (repeat_spec _ _ _ Hv)|].
    apply in_app_or in Hv. destruct Hv as [Hv|Hv]; [right; left; exact Hv|right; right; apply (repeat_spec _ _ _ Hv)]. }
  assert (Rw : forall v, In v (pwin l per1 n) -> 0 <= v < 1).
  { intros v Hv. pose proof (pwin_range_strict l p per1 n 1 C S v Hv) as H. rewrite Z, Hperl in H. lra. }
  assert (I0 : In 0 (pwin l per1 n)) by (pose proof (cl_start_win l p per1 n 1 C) as H0; rewrite Z in H0; exact H0).
  assert (VL : forall v, In v kL -> In v l).
  { intros v Hv. destruct (Vals v Hv) as [->|[H| ->]].
    - pose proof (cl_start_in l p per1 n 1 C) as H0. rewrite Z in H0. exact H0.
    - apply (pwin_sub l per1 n v H).
    - pose proof (cl_end_in l p per1 n 1 C) as H0. rewrite Hperl in H0. exact H0. }
  assert (HKL : sorted (@kn R NumR kL)).
  { destruct (bd_wf tol o2 W2 i ltac:(rewrite L2; exact I1)) as (H & _). rewrite N2 in H. exact H. }
  exists o2, kL. split; [exact Hok|]. split; [exact Pk|].
  split.
  { split; [exact W2|]. split; [rewrite L2; exact I1|]. split; [exact N2|]. split; [apply lsorted_of_kn; exact HKL|].
    split.
    { intros x Hx. destruct (Vals x Hx) as [->|[H| ->]]; [lra|pose proof (Rw x H); lra|lra]. }
    split; [exact Es|]. split; [exact Ee|]. split.
    { unfold mult. rewrite (proj1 (Permutation_count_occ Req_EM_T _ _) Pk 1), !count_occ_app.
      rewrite count_occ_repeat_neq by lra. rewrite count_occ_repeat_eq by reflexivity.
      rewrite (proj1 (count_occ_not_In Req_EM_T _ 1)); [lia|]. intros H. pose proof (Rw 1 H). lra. }
    intros v Hv. apply VU. apply pvals_in. destruct (Vals v Hv) as [->|[H| ->]].
    - left. exact I0.
    - left. exact H.
    - right. left. replace (1 - 1) with 0 by ring. exact I0. }
  split; [rewrite L2; apply nr_a1_len|].
  split; [intros j Hj; rewrite (O2 j Hj); apply (nr_a1_other o i Hio j Hj)|].
  split; [exact D2|]. split; [exact Rt2|]. split; [exact VL|].
  intros ts Hdom Hit. cbv zeta. intros Hin PC1.
  assert (Hne : b_per1 b <> 0%nat) by (fold per1; lia). specialize (Hin Hne).
  set (t := nth i ts 0) in *. set (u := rp_map b 0 1 t). set (ts' := upd ts i u).
  assert (Ei : nth i ts' 0 = u) by (unfold ts'; apply upd_nth_same; exact Hit).
  assert (Eo : forall j, j <> i -> nth j ts' 0 = nth j ts 0) by (intros j Hj; unfold ts'; apply upd_nth_other; exact Hj).
  assert (Ev1 : @obj_eval R NumR tol o1 ts' = @obj_eval R NumR tol o ts).
  { apply (eval_same tol Htol o Wo i Hio 0 1 ltac:(lra) ts ts' Ei Eo PC1). intros _. exact Hin. }
  assert (Ru : 0 <= u <= 1) by (apply (dir_interval tol Htol b (ol_wfb tol o Wo i Hio) 0 1 ltac:(lra) t); exact Hin).
  assert (Dom1 : forall j, (j < length (o_bases o1))%nat -> j <> i -> in_dom tol (nth j (o_bases o1) dflt_basis) (nth j ts' 0)).
  { intros j Hj Hne'. rewrite nr_a1_len in Hj. rewrite (nr_a1_other o i Hio j Hne'), (Eo j Hne'). apply Hdom. exact Hj. }
  assert (PCL : knot_clear kL tol u) by (intros v Hv; apply (clear_rescaled t PC1), VL, Hv).
  split.
  - rewrite (Ev2 ts' Dom1 ltac:(rewrite Ei; lra)). exact Ev1.
  - intros j Hj. rewrite L2 in Hj. destruct (Nat.eq_dec j i) as [->|Hne'].
    + rewrite N2, Ei. unfold in_dom, b_start, b_end. cbn [b_per1 b_knots b_order]. intros _.
      rewrite Es, Ee. rewrite (snap1_clear kL tol u HKL Htol PCL). exact Ru.
    + rewrite (O2 j Hne'). apply Dom1; assumption.
Qed.
End Normalise.

(* ---- identical_tail once both operands are open in direction i (after reparam and the lower_periodic step) ---- *)
Section OpenTail.
Variable tol : R.
Hypothesis Htol : 0 < tol.
Variables a0 b0 : obj R.
Hypothesis Wa : wf_obj_R tol a0.
Hypothesis Wb : wf_obj_R tol b0.
Variable i : nat.
Hypothesis Hia : (i < length (o_bases a0))%nat.
Hypothesis Hib : (i < length (o_bases b0))%nat.
Variable p : nat.
Hypothesis Hp : (2 <= p)%nat.
Variable U : list R.
Hypothesis HU : separated tol U.
Local Notation a1 := (rp_obj a0 i 0 1).
Local Notation b1 := (rp_obj b0 i 0 1).
Variables a2 b2 : obj R.
Variables ka kb : list R.
Hypothesis Na : norm_ok tol i p U a0 a2 ka.
Hypothesis Nb : norm_ok tol i p U b0 b2 kb.
Hypothesis Hlow_b :
  (if (b_per1 (nth i (o_bases a1) dflt_basis) <? b_per1 (nth i (o_bases b1) dflt_basis))%nat
   then @obj_lower_periodic R NumR 64 b1 (b_per1 (nth i (o_bases a1) dflt_basis)) i else Ok b1) = Ok b2.
Hypothesis Hlow_a :
  (if (b_per1 (nth i (o_bases b1) dflt_basis) <? b_per1 (nth i (o_bases a1) dflt_basis))%nat
   then @obj_lower_periodic R NumR 64 a1 (b_per1 (nth i (o_bases b1) dflt_basis)) i else Ok a1) = Ok a2.

Theorem open_tail_ok : exists a b kk, identical_tail tol a0 b0 i = Ok (a, b) /\ open_result tol i p a2 b2 ka kb a b kk.
Proof.
  destruct Na as (Ra & _). destruct Nb as (Rb & _).
  destruct (open_forward tol Htol i p Hp U HU a2 b2 ka kb Ra Rb) as (ins2 & b4 & ins1 & a4 & kk & M1 & I1 & M2 & I2 & OR).
  exists a4, b4, kk. split; [|exact OR].
  destruct Ra as (_ & _ & Ea & _). destruct Rb as (_ & _ & Eb & _).
  unfold identical_tail.
  change (@n0 R NumR) with 0. change (@n1 R NumR) with 1.
  rewrite (nr_a1_ok tol Htol a0 Wa i Hia), (nr_a1_ok tol Htol b0 Wb i Hib).
  cbv zeta. change (@mkBasis R 0 [] 0) with dflt_basis.
  rewrite Hlow_b, Hlow_a. rewrite Ea, Eb. cbn [b_order].
  rewrite Nat.max_id, Nat.sub_diag. rewrite !raise_zero.
  rewrite Ea, Eb, M1, I1, M2, I2. reflexivity.
Qed.
End OpenTail.


(* ---- the generic core: both operands normalised to an open direction, then the non-periodic stages ---- *)
Definition low_core_facts (tol : R) (a0 b0 : obj R) (i p : nat) (ka kb : list R) (a b : obj R) (kk : list R) : Prop :=
  let ba := nth i (o_bases a0) dflt_basis in let bb := nth i (o_bases b0) dflt_basis in
  wf_obj_R tol a /\ wf_obj_R tol b /\
  length (o_bases a) = length (o_bases a0) /\ length (o_bases b) = length (o_bases b0) /\
  (forall j, j <> i -> nth j (o_bases a) dflt_basis = nth j (o_bases a0) dflt_basis) /\
  (forall j, j <> i -> nth j (o_bases b) dflt_basis = nth j (o_bases b0) dflt_basis) /\
  nth i (o_bases a) dflt_basis = mkBasis p kk 0 /\ nth i (o_bases b) dflt_basis = mkBasis p kk 0 /\
  lsorted kk /\ @kn R NumR kk (p - 1) = 0 /\ @kn R NumR kk (length kk - p) = 1 /\
  (forall v, mult kk v = Nat.max (mult ka v) (mult kb v)) /\
  o_dim a = o_dim a0 /\ o_rat a = o_rat a0 /\ o_dim b = o_dim b0 /\ o_rat b = o_rat b0 /\
  (forall ts, dom_all tol a0 ts -> (i < length ts)%nat ->
     (b_per1 ba <> 0%nat -> @b_start R NumR ba <= nth i ts 0 <= @b_end R NumR ba) -> param_clear tol ba bb (nth i ts 0) ->
     @obj_eval R NumR tol a (upd ts i (rp_map ba 0 1 (nth i ts 0))) = @obj_eval R NumR tol a0 ts) /\
  (forall ts, dom_all tol b0 ts -> (i < length ts)%nat ->
     (b_per1 bb <> 0%nat -> @b_start R NumR bb <= nth i ts 0 <= @b_end R NumR bb) -> param_clear tol bb ba (nth i ts 0) ->
     @obj_eval R NumR tol b (upd ts i (rp_map bb 0 1 (nth i ts 0))) = @obj_eval R NumR tol b0 ts).

Section LowCore.
Variable tol : R.
Hypothesis Htol : 0 < tol.
Variables a0 b0 : obj R.
Hypothesis Wa : wf_obj_R tol a0.
Hypothesis Wb : wf_obj_R tol b0.
Variable i : nat.
Hypothesis Hia : (i < length (o_bases a0))%nat.
Hypothesis Hib : (i < length (o_bases b0))%nat.
Variable p : nat.
Hypothesis Hp : (2 <= p)%nat.
Variable U : list R.
Hypothesis HU : separated tol U.
Local Notation a1 := (rp_obj a0 i 0 1).
Local Notation b1 := (rp_obj b0 i 0 1).
Variables a2 b2 : obj R.
Variables ka kb : list R.
Hypothesis Na : norm_ok tol i p U a0 a2 ka.
Hypothesis Nb : norm_ok tol i p U b0 b2 kb.
Hypothesis Hlow_b :
  (if (b_per1 (nth i (o_bases a1) dflt_basis) <? b_per1 (nth i (o_bases b1) dflt_basis))%nat
   then @obj_lower_periodic R NumR 64 b1 (b_per1 (nth i (o_bases a1) dflt_basis)) i else Ok b1) = Ok b2.
Hypothesis Hlow_a :
  (if (b_per1 (nth i (o_bases b1) dflt_basis) <? b_per1 (nth i (o_bases a1) dflt_basis))%nat
   then @obj_lower_periodic R NumR 64 a1 (b_per1 (nth i (o_bases b1) dflt_basis)) i else Ok a1) = Ok a2.

Theorem low_core_ok : exists a b kk, identical_tail tol a0 b0 i = Ok (a, b) /\ low_core_facts tol a0 b0 i p ka kb a b kk.
Proof.
  destruct (open_tail_ok tol Htol a0 b0 Wa Wb i Hia Hib p Hp U HU a2 b2 ka kb Na Nb Hlow_b Hlow_a) as (a & b & kk & E & OR).
  exists a, b, kk. split; [exact E|].
  destruct Na as (_ & La & Oa & Da & Rta & Va & Eva). destruct Nb as (_ & Lb & Ob & Db & Rtb & Vb & Evb).
  destruct OR as (R1 & R2 & R3 & R4 & R5 & R6 & R7 & R8 & R9 & R10 & R11 & R12 & R13 & R14 & R15 & R16 & R17 & R18).
  unfold low_core_facts. cbv zeta.
  split; [exact R1|]. split; [exact R2|]. split; [lia|]. split; [lia|].
  split; [intros j Hj; rewrite (R5 j Hj); apply Oa; exact Hj|]. split; [intros j Hj; rewrite (R6 j Hj); apply Ob; exact Hj|].
  split; [exact R7|]. split; [exact R8|]. split; [exact R9|]. split; [exact R10|]. split; [exact R11|]. split; [exact R12|].
  split; [congruence|]. split; [congruence|]. split; [congruence|]. split; [congruence|].
  split.
  - intros ts Hdom Hit Hin (PC1 & PC2). destruct (Eva ts Hdom Hit Hin PC1) as (E1 & D1). cbv zeta in *.
    rewrite <- E1. apply (R17 _ D1); rewrite upd_nth_same by exact Hit.
    + intros v Hv. apply (clear_rescaled tol Htol i a0 Wa Hia _ PC1), Va, Hv.
    + intros v Hv. apply PC2, Vb, Hv.
  - intros ts Hdom Hit Hin (PC1 & PC2). destruct (Evb ts Hdom Hit Hin PC1) as (E1 & D1). cbv zeta in *.
    rewrite <- E1. apply (R18 _ D1); rewrite upd_nth_same by exact Hit.
    intros v Hv. apply PC2, Va, Hv.
Qed.
End LowCore.


(* ================================================================================================ *)
(* Part 8: the end-to-end theorems, case (b) *)

(* what is proved about the two results; ka, kb are the knot lists of the two operands once both are open on [0,1] *)
Definition low_facts (tol : R) (o1 o2 : obj R) (i : nat) (ka kb : list R) (a b : obj R) : Prop :=
  let b1 := nth i (o_bases o1) dflt_basis in let b2 := nth i (o_bases o2) dflt_basis in
  let p := b_order b1 in let dim' := Nat.max (o_dim o1) (o_dim o2) in
  let ba := nth i (o_bases a) dflt_basis in let bb := nth i (o_bases b) dflt_basis in
  (* the same order, non-periodic, domain [0,1], the same knot list with the larger multiplicity of every knot *)
  b_order ba = p /\ b_order bb = p /\ b_per1 ba = 0%nat /\ b_per1 bb = 0%nat /\
  @b_start R NumR ba = 0 /\ @b_end R NumR ba = 1 /\ @b_start R NumR bb = 0 /\ @b_end R NumR bb = 1 /\
  b_knots ba = b_knots bb /\ lsorted (b_knots ba) /\
  (forall v, mult (b_knots ba) v = Nat.max (mult ka v) (mult kb v)) /\
  (* the rest of the objects *)
  wf_obj_R tol a /\ wf_obj_R tol b /\
  length (o_bases a) = length (o_bases o1) /\ length (o_bases b) = length (o_bases o2) /\
  (forall j, j <> i -> nth j (o_bases a) dflt_basis = nth j (o_bases o1) dflt_basis) /\
  (forall j, j <> i -> nth j (o_bases b) dflt_basis = nth j (o_bases o2) dflt_basis) /\
  o_dim a = dim' /\ o_dim b = dim' /\ o_rat a = (o_rat o1 || o_rat o2)%bool /\ o_rat b = (o_rat o1 || o_rat o2)%bool /\
  (* both maps are preserved (a parameter of a periodic operand is taken in its closed base period) *)
  (forall ts, dom_all tol o1 ts -> (i < length ts)%nat ->
     (b_per1 b1 <> 0%nat -> @b_start R NumR b1 <= nth i ts 0 <= @b_end R NumR b1) -> param_clear tol b1 b2 (nth i ts 0) ->
     @obj_eval R NumR tol a (upd ts i ((nth i ts 0 - @b_start R NumR b1) / (@b_end R NumR b1 - @b_start R NumR b1)))
     = res_map (pad (dim' - o_dim o1)) (@obj_eval R NumR tol o1 ts)) /\
  (forall ts, dom_all tol o2 ts -> (i < length ts)%nat ->
     (b_per1 b2 <> 0%nat -> @b_start R NumR b2 <= nth i ts 0 <= @b_end R NumR b2) -> param_clear tol b2 b1 (nth i ts 0) ->
     @obj_eval R NumR tol b (upd ts i ((nth i ts 0 - @b_start R NumR b2) / (@b_end R NumR b2 - @b_start R NumR b2)))
     = res_map (pad (dim' - o_dim o2)) (@obj_eval R NumR tol o2 ts)).

Lemma low_facts_of_core tol (o1 o2 : obj R) i ka kb a b kk : 0 < tol -> wf_obj_R tol o1 -> wf_obj_R tol o2 ->
  (i < length (o_bases o1))%nat -> (i < length (o_bases o2))%nat ->
  low_core_facts tol (fst (@obj_compatible R NumR o1 o2)) (snd (@obj_compatible R NumR o1 o2)) i
    (b_order (nth i (o_bases o1) dflt_basis)) ka kb a b kk ->
  low_facts tol o1 o2 i ka kb a b.
Proof.
  intros Htol W1 W2 H1 H2 F.
  pose proof (fun ts => compatible_eval tol o1 o2 ts Htol W1 W2) as CE. cbv zeta in CE.
  destruct (CE []) as (_ & _ & Wa & Wb & Ba & Bb & Da & Db & Ra & Rb).
  unfold low_core_facts in F. cbv zeta in F. rewrite Ba, Bb in F.
  destruct F as (F1 & F2 & F3 & F4 & F5 & F6 & F7 & F8 & F9 & F10 & F11 & F12 & F13 & F14 & F15 & F16 & Ev1 & Ev2).
  unfold low_facts. cbv zeta. rewrite F7, F8. unfold b_start at 1 3, b_end at 1 3. cbn [b_order b_knots b_per1].
  split; [reflexivity|]. split; [reflexivity|]. split; [reflexivity|]. split; [reflexivity|].
  split; [exact F10|]. split; [exact F11|]. split; [exact F10|]. split; [exact F11|]. split; [reflexivity|].
  split; [exact F9|]. split; [exact F12|]. split; [exact F1|]. split; [exact F2|]. split; [exact F3|]. split; [exact F4|].
  split; [exact F5|]. split; [exact F6|]. split; [congruence|]. split; [congruence|]. split; [congruence|]. split; [congruence|].
  split.
  - intros ts Hdom Hit Hin HC.
    rewrite <- (rp_map_01 tol o1 i (nth i ts 0) Htol W1 H1).
    rewrite (Ev1 ts (dom_all_bases tol o1 _ ts Ba Hdom) Hit Hin HC). destruct (CE ts) as (E & _). exact E.
  - intros ts Hdom Hit Hin HC.
    rewrite <- (rp_map_01 tol o2 i (nth i ts 0) Htol W2 H2).
    rewrite (Ev2 ts (dom_all_bases tol o2 _ ts Bb Hdom) Hit Hin HC). destruct (CE ts) as (_ & E & _). exact E.
Qed.

(* (b1) the FIRST operand is not periodic in direction i, the second one is.  Beyond the hypotheses of the non-periodic
   theorem for the first operand (op_good1, op_end1) and of case (a) for the second one (op_canon2, op_strict2):
     op_fuel    the model's obj_lower_periodic runs with fuel 64 (the Python loop has no bound): continuity + 1 <= 64;
     op_sep     the knots of the open operand and the knots of one period of the periodic one together with their images
                one period up and down (this contains 0 and 1) are pairwise equal or more than tol apart. *)
Record identical_op_hyps (tol : R) (o1 o2 : obj R) (i nb : nat) (Tb : R) : Prop := {
  op_tol : 0 < tol;
  op_tol2 : 2 * tol <= 1;
  op_wf1 : wf_obj_R tol o1;
  op_wf2 : wf_obj_R tol o2;
  op_dir1 : (i < length (o_bases o1))%nat;
  op_dir2 : (i < length (o_bases o2))%nat;
  op_order : b_order (nth i (o_bases o2) dflt_basis) = b_order (nth i (o_bases o1) dflt_basis);
  op_good1 : good_dir tol (rp_basis (nth i (o_bases o1) dflt_basis) 0 1);
  op_end1 : mult (b_knots (rp_basis (nth i (o_bases o1) dflt_basis) 0 1)) 1 = b_order (nth i (o_bases o1) dflt_basis);
  op_canon2 : canon_dir o2 i nb Tb;
  op_strict2 : per_strict (b_knots (nth i (o_bases o2) dflt_basis)) (b_per1 (nth i (o_bases o2) dflt_basis));
  op_fuel : (b_per1 (nth i (o_bases o2) dflt_basis) <= 64)%nat;
  op_sep : separated tol (b_knots (rp_basis (nth i (o_bases o1) dflt_basis) 0 1) ++
                          pvals (b_knots (rp_basis (nth i (o_bases o2) dflt_basis) 0 1)) (b_per1 (nth i (o_bases o2) dflt_basis)) nb 1)
}.

(* (b2) the first operand is periodic in direction i, the SECOND one is not *)
Record identical_po_hyps (tol : R) (o1 o2 : obj R) (i na : nat) (Ta : R) : Prop := {
  po_tol : 0 < tol;
  po_tol2 : 2 * tol <= 1;
  po_wf1 : wf_obj_R tol o1;
  po_wf2 : wf_obj_R tol o2;
  po_dir1 : (i < length (o_bases o1))%nat;
  po_dir2 : (i < length (o_bases o2))%nat;
  po_order : b_order (nth i (o_bases o2) dflt_basis) = b_order (nth i (o_bases o1) dflt_basis);
  po_good2 : good_dir tol (rp_basis (nth i (o_bases o2) dflt_basis) 0 1);
  po_end2 : mult (b_knots (rp_basis (nth i (o_bases o2) dflt_basis) 0 1)) 1 = b_order (nth i (o_bases o2) dflt_basis);
  po_canon1 : canon_dir o1 i na Ta;
  po_strict1 : per_strict (b_knots (nth i (o_bases o1) dflt_basis)) (b_per1 (nth i (o_bases o1) dflt_basis));
  po_fuel : (b_per1 (nth i (o_bases o1) dflt_basis) <= 64)%nat;
  po_sep : separated tol (pvals (b_knots (rp_basis (nth i (o_bases o1) dflt_basis) 0 1)) (b_per1 (nth i (o_bases o1) dflt_basis)) na 1 ++
                          b_knots (rp_basis (nth i (o_bases o2) dflt_basis) 0 1))
}.

(* the knot list of the periodic operand after lower_periodic: per1 more copies of 0, one period, p copies of 1 *)
Definition lowered_knots (b : basis R) (n : nat) (kL : list R) : Prop :=
  Permutation kL (repeat 0 (b_per1 b) ++ pwin (b_knots (rp_basis b 0 1)) (b_per1 b) n ++ repeat 1 (b_order b)).

Lemma op_core tol (a0 b0 : obj R) i nb Tb : identical_op_hyps tol a0 b0 i nb Tb ->
  exists a b kk kL, identical_tail tol a0 b0 i = Ok (a, b) /\ lowered_knots (nth i (o_bases b0) dflt_basis) nb kL /\
    low_core_facts tol a0 b0 i (b_order (nth i (o_bases a0) dflt_basis))
      (b_knots (rp_basis (nth i (o_bases a0) dflt_basis) 0 1)) kL a b kk.
Proof.
  intros [Htol Htol2 Wa Wb Hia Hib Eord G M1 Cb Sb Hfuel Hsep].
  set (ba := nth i (o_bases a0) dflt_basis) in *. set (bb := nth i (o_bases b0) dflt_basis) in *.
  set (U := b_knots (rp_basis ba 0 1) ++ pvals (b_knots (rp_basis bb 0 1)) (b_per1 bb) nb 1) in *.
  pose proof Cb as (_ & Hper1 & Hpp & _). fold bb in Hper1, Hpp.
  assert (Hp : (2 <= b_order ba)%nat) by lia.
  pose proof (norm_open_side tol Htol Htol2 i U a0 Wa Hia G M1 ltac:(intros v Hv; apply in_or_app; left; exact Hv)) as Na. fold ba in Na.
  destruct (norm_per_side tol Htol Htol2 i U b0 Wb Hib nb Tb 64 Cb Sb Hfuel ltac:(intros v Hv; apply in_or_app; right; exact Hv))
    as (b2 & kL & Hlow & Pk & Nb). fold bb in Hlow, Pk, Nb. rewrite Eord in Nb.
  assert (Pa : b_per1 (nth i (o_bases (rp_obj a0 i 0 1)) dflt_basis) = 0%nat) by (rewrite (nr_a1_i a0 i Hia); exact (proj1 G)).
  assert (Pb : b_per1 (nth i (o_bases (rp_obj b0 i 0 1)) dflt_basis) = b_per1 bb) by (rewrite (nr_a1_i b0 i Hib); reflexivity).
  destruct (low_core_ok tol Htol a0 b0 Wa Wb i Hia Hib (b_order ba) Hp U Hsep (rp_obj a0 i 0 1) b2 _ kL Na Nb) as (a & b & kk & E & F).
  - rewrite Pa, Pb. destruct (Nat.ltb_spec 0 (b_per1 bb)) as [_|C]; [exact Hlow|lia].
  - rewrite Pa, Pb. reflexivity.
  - exists a, b, kk, kL. split; [exact E|]. split; [exact Pk|exact F].
Qed.

Lemma po_core tol (a0 b0 : obj R) i na Ta : identical_po_hyps tol a0 b0 i na Ta ->
  exists a b kk kL, identical_tail tol a0 b0 i = Ok (a, b) /\ lowered_knots (nth i (o_bases a0) dflt_basis) na kL /\
    low_core_facts tol a0 b0 i (b_order (nth i (o_bases a0) dflt_basis))
      kL (b_knots (rp_basis (nth i (o_bases b0) dflt_basis) 0 1)) a b kk.
Proof.
  intros [Htol Htol2 Wa Wb Hia Hib Eord G M1 Ca Sa Hfuel Hsep].
  set (ba := nth i (o_bases a0) dflt_basis) in *. set (bb := nth i (o_bases b0) dflt_basis) in *.
  set (U := pvals (b_knots (rp_basis ba 0 1)) (b_per1 ba) na 1 ++ b_knots (rp_basis bb 0 1)) in *.
  pose proof Ca as (_ & Hper1 & Hpp & _). fold ba in Hper1, Hpp.
  assert (Hp : (2 <= b_order ba)%nat) by lia.
  pose proof (norm_open_side tol Htol Htol2 i U b0 Wb Hib G M1 ltac:(intros v Hv; apply in_or_app; right; exact Hv)) as Nb. fold bb in Nb.
  rewrite Eord in Nb.
  destruct (norm_per_side tol Htol Htol2 i U a0 Wa Hia na Ta 64 Ca Sa Hfuel ltac:(intros v Hv; apply in_or_app; left; exact Hv))
    as (a2 & kL & Hlow & Pk & Na). fold ba in Hlow, Pk, Na.
  assert (Pb : b_per1 (nth i (o_bases (rp_obj b0 i 0 1)) dflt_basis) = 0%nat) by (rewrite (nr_a1_i b0 i Hib); exact (proj1 G)).
  assert (Pa : b_per1 (nth i (o_bases (rp_obj a0 i 0 1)) dflt_basis) = b_per1 ba) by (rewrite (nr_a1_i a0 i Hia); reflexivity).
  destruct (low_core_ok tol Htol a0 b0 Wa Wb i Hia Hib (b_order ba) Hp U Hsep a2 (rp_obj b0 i 0 1) kL _ Na Nb) as (a & b & kk & E & F).
  - rewrite Pa, Pb. reflexivity.
  - rewrite Pa, Pb. destruct (Nat.ltb_spec 0 (b_per1 ba)) as [_|C]; [exact Hlow|lia].
  - exists a, b, kk, kL. split; [exact E|]. split; [exact Pk|exact F].
Qed.

Lemma op_hyps_compat tol (o1 o2 : obj R) i nb Tb : identical_op_hyps tol o1 o2 i nb Tb ->
  identical_op_hyps tol (fst (@obj_compatible R NumR o1 o2)) (snd (@obj_compatible R NumR o1 o2)) i nb Tb.
Proof.
  intros H. destruct (compatible_eval tol o1 o2 [] (op_tol _ _ _ _ _ _ H) (op_wf1 _ _ _ _ _ _ H) (op_wf2 _ _ _ _ _ _ H)) as (_ & _ & Wa & Wb & Ba & Bb & _).
  cbv zeta in *. destruct H. constructor; unfold canon_dir in *; rewrite ?Ba, ?Bb; assumption.
Qed.
Lemma po_hyps_compat tol (o1 o2 : obj R) i na Ta : identical_po_hyps tol o1 o2 i na Ta ->
  identical_po_hyps tol (fst (@obj_compatible R NumR o1 o2)) (snd (@obj_compatible R NumR o1 o2)) i na Ta.
Proof.
  intros H. destruct (compatible_eval tol o1 o2 [] (po_tol _ _ _ _ _ _ H) (po_wf1 _ _ _ _ _ _ H) (po_wf2 _ _ _ _ _ _ H)) as (_ & _ & Wa & Wb & Ba & Bb & _).
  cbv zeta in *. destruct H. constructor; unfold canon_dir in *; rewrite ?Ba, ?Bb; assumption.
Qed.

(* (b1): identical_dir succeeds; both results are open in direction i with the same order, domain [0,1] and knot list,
   and both maps are preserved *)
Theorem identical_dir_open_per_ok tol (o1 o2 : obj R) i nb Tb : identical_op_hyps tol o1 o2 i nb Tb ->
  exists a b kL, @identical_dir R NumR tol o1 o2 i = Ok (a, b) /\ lowered_knots (nth i (o_bases o2) dflt_basis) nb kL /\
    low_facts tol o1 o2 i (b_knots (rp_basis (nth i (o_bases o1) dflt_basis) 0 1)) kL a b.
Proof.
  intros H. pose proof (op_hyps_compat tol o1 o2 i nb Tb H) as Hc.
  destruct (compatible_eval tol o1 o2 [] (op_tol _ _ _ _ _ _ H) (op_wf1 _ _ _ _ _ _ H) (op_wf2 _ _ _ _ _ _ H)) as (_ & _ & Wa & Wb & Ba & Bb & _).
  cbv zeta in *.
  destruct (op_core tol _ _ i nb Tb Hc) as (a & b & kk & kL & E & Pk & F). rewrite Bb in Pk. rewrite Ba in F.
  exists a, b, kL. split; [rewrite identical_dir_tail; exact E|]. split; [exact Pk|].
  apply (low_facts_of_core tol o1 o2 i _ kL a b kk (op_tol _ _ _ _ _ _ H) (op_wf1 _ _ _ _ _ _ H) (op_wf2 _ _ _ _ _ _ H)
           (op_dir1 _ _ _ _ _ _ H) (op_dir2 _ _ _ _ _ _ H)). exact F.
Qed.

Theorem identical_dir_open_per tol (o1 o2 : obj R) i nb Tb a b : identical_op_hyps tol o1 o2 i nb Tb ->
  @identical_dir R NumR tol o1 o2 i = Ok (a, b) ->
  exists kL, lowered_knots (nth i (o_bases o2) dflt_basis) nb kL /\
    low_facts tol o1 o2 i (b_knots (rp_basis (nth i (o_bases o1) dflt_basis) 0 1)) kL a b.
Proof.
  intros H Hid. destruct (identical_dir_open_per_ok tol o1 o2 i nb Tb H) as (a' & b' & kL & E & Pk & F).
  rewrite Hid in E. injection E as <- <-. exists kL. split; assumption.
Qed.

(* (b2) *)
Theorem identical_dir_per_open_ok tol (o1 o2 : obj R) i na Ta : identical_po_hyps tol o1 o2 i na Ta ->
  exists a b kL, @identical_dir R NumR tol o1 o2 i = Ok (a, b) /\ lowered_knots (nth i (o_bases o1) dflt_basis) na kL /\
    low_facts tol o1 o2 i kL (b_knots (rp_basis (nth i (o_bases o2) dflt_basis) 0 1)) a b.
Proof.
  intros H. pose proof (po_hyps_compat tol o1 o2 i na Ta H) as Hc.
  destruct (compatible_eval tol o1 o2 [] (po_tol _ _ _ _ _ _ H) (po_wf1 _ _ _ _ _ _ H) (po_wf2 _ _ _ _ _ _ H)) as (_ & _ & Wa & Wb & Ba & Bb & _).
  cbv zeta in *.
  destruct (po_core tol _ _ i na Ta Hc) as (a & b & kk & kL & E & Pk & F). rewrite Ba in Pk. rewrite Ba, Bb in F.
  exists a, b, kL. split; [rewrite identical_dir_tail; exact E|]. split; [exact Pk|].
  apply (low_facts_of_core tol o1 o2 i kL _ a b kk (po_tol _ _ _ _ _ _ H) (po_wf1 _ _ _ _ _ _ H) (po_wf2 _ _ _ _ _ _ H)
           (po_dir1 _ _ _ _ _ _ H) (po_dir2 _ _ _ _ _ _ H)). exact F.
Qed.

Theorem identical_dir_per_open tol (o1 o2 : obj R) i na Ta a b : identical_po_hyps tol o1 o2 i na Ta ->
  @identical_dir R NumR tol o1 o2 i = Ok (a, b) ->
  exists kL, lowered_knots (nth i (o_bases o1) dflt_basis) na kL /\
    low_facts tol o1 o2 i kL (b_knots (rp_basis (nth i (o_bases o2) dflt_basis) 0 1)) a b.
Proof.
  intros H Hid. destruct (identical_dir_per_open_ok tol o1 o2 i na Ta H) as (a' & b' & kL & E & Pk & F).
  rewrite Hid in E. injection E as <- <-. exists kL. split; assumption.
Qed.


(* ---- obj_make_identical with an explicit direction, case (b) ---- *)
Theorem make_identical_open_per_ok tol (o1 o2 : obj R) i nb Tb : identical_op_hyps tol o1 o2 i nb Tb ->
  exists a b, @obj_make_identical R NumR tol o1 o2 (Some i) = Ok (a, b).
Proof.
  intros H. destruct (identical_dir_open_per_ok tol _ _ i nb Tb (op_hyps_compat tol o1 o2 i nb Tb H)) as (a & b & _ & E & _).
  exists a, b. unfold obj_make_identical. destruct (@obj_compatible R NumR o1 o2) as [a0 b0]. exact E.
Qed.
Theorem make_identical_per_open_ok tol (o1 o2 : obj R) i na Ta : identical_po_hyps tol o1 o2 i na Ta ->
  exists a b, @obj_make_identical R NumR tol o1 o2 (Some i) = Ok (a, b).
Proof.
  intros H. destruct (identical_dir_per_open_ok tol _ _ i na Ta (po_hyps_compat tol o1 o2 i na Ta H)) as (a & b & _ & E & _).
  exists a, b. unfold obj_make_identical. destruct (@obj_compatible R NumR o1 o2) as [a0 b0]. exact E.
Qed.

(* ---- non-vacuity, case (b): the open cubic space curve ex_o2 of Proofs/IdenticalEndToEnd.v (knots 1,1,1,1,2,3,3,3,3)
        and the C^2-periodic cubic plane curve ex_curve, in both orders ---- *)
Lemma exb_wf : wf_obj_R exp_tol ex_o2.
Proof.
  unfold ex_o2, exp_tol. split; [|split].
  - cbn [o_bases]. constructor; [|constructor]. split; [|split; [|split; [|split]]]; cbn [b_knots b_order].
    + apply sorted_kn_lsorted. unfold ex_k2. repeat constructor; lra.
    + lia.
    + cbn; lia.
    + unfold b_nfun; cbn; lia.
    + unfold b_start, b_end, kn, ex_k2. cbn [b_knots b_order length Nat.sub nth]. lra.
  - cbn [o_cps]. unfold o_ncomp. cbn [o_dim o_rat]. repeat constructor.
  - reflexivity.
Qed.

Lemma exb_good : good_dir exp_tol (rp_basis (mkBasis 4 ex_k2 0) 0 1).
Proof.
  unfold good_dir. rewrite ex_l2. cbn [rp_basis b_per1 b_order]. split; [reflexivity|]. split; [repeat constructor; lra|]. split; [|split].
  - split; intros j Hj; cbn [length Nat.sub]; destruct j as [|[|[|[|j]]]]; try lia; reflexivity.
  - apply (separated_grid exp_tol (1/16)); [lra|unfold exp_tol; lra|]. intros v Hv. in_cases Hv; first [grid16|exists 16%Z; lra].
  - cbn [length Nat.sub nth]. lra.
Qed.

Lemma exb_grid_open v : In v (b_knots (rp_basis (mkBasis 4 ex_k2 0) 0 1)) -> exists z : Z, v = IZR z * (1/16).
Proof. rewrite ex_l2. intros Hv. in_cases Hv; first [grid16|exists 16%Z; lra]. Qed.
Lemma exb_grid_per v : In v (pvals (b_knots (rp_basis (mkBasis 4 ex_knots 3) 0 1)) 3 8 1) -> exists z : Z, v = IZR z * (1/16).
Proof.
  rewrite exp_l1. revert v. apply (grid_pvals (1/16) 16); try lra.
  intros v Hv; cbn [pwin skipn firstn] in Hv; in_cases Hv; grid16.
Qed.

Theorem exb_hyps_op : identical_op_hyps exp_tol ex_o2 ex_curve 0 8 8.
Proof.
  constructor; cbn [ex_curve ex_o2 o_bases nth length b_order b_per1].
  - unfold exp_tol; lra.
  - unfold exp_tol; lra.
  - exact exb_wf.
  - exact ex_wf.
  - lia.
  - lia.
  - reflexivity.
  - exact exb_good.
  - rewrite ex_l2. unfold mult. repeat first [rewrite count_occ_cons_eq by lra | rewrite count_occ_cons_neq by lra]. reflexivity.
  - exact ex_canon.
  - unfold per_strict, kn, ex_knots. cbn. lra.
  - lia.
  - apply (separated_grid exp_tol (1/16)); [lra|unfold exp_tol; lra|].
    intros v Hv. apply in_app_or in Hv. destruct Hv as [Hv|Hv]; [apply exb_grid_open, Hv|apply exb_grid_per, Hv].
Qed.

Theorem exb_hyps_po : identical_po_hyps exp_tol ex_curve ex_o2 0 8 8.
Proof.
  constructor; cbn [ex_curve ex_o2 o_bases nth length b_order b_per1].
  - unfold exp_tol; lra.
  - unfold exp_tol; lra.
  - exact ex_wf.
  - exact exb_wf.
  - lia.
  - lia.
  - reflexivity.
  - exact exb_good.
  - rewrite ex_l2. unfold mult. repeat first [rewrite count_occ_cons_eq by lra | rewrite count_occ_cons_neq by lra]. reflexivity.
  - exact ex_canon.
  - unfold per_strict, kn, ex_knots. cbn. lra.
  - lia.
  - apply (separated_grid exp_tol (1/16)); [lra|unfold exp_tol; lra|].
    intros v Hv. apply in_app_or in Hv. destruct Hv as [Hv|Hv]; [apply exb_grid_per, Hv|apply exb_grid_open, Hv].
Qed.

Corollary exb_ok_op : exists a b, @identical_dir R NumR exp_tol ex_o2 ex_curve 0 = Ok (a, b).
Proof. destruct (identical_dir_open_per_ok _ _ _ _ _ _ exb_hyps_op) as (a & b & _ & E & _). exists a, b. exact E. Qed.
Corollary exb_ok_po : exists a b, @identical_dir R NumR exp_tol ex_curve ex_o2 0 = Ok (a, b).
Proof. destruct (identical_dir_per_open_ok _ _ _ _ _ _ exb_hyps_po) as (a & b & _ & E & _). exists a, b. exact E. Qed.


(* ================================================================================================ *)
(* Part 9: case (c), both operands periodic with DIFFERENT continuity: lower_periodic down to the smaller continuity,
   then the periodic stages of case (a) *)

Section LowerPerStruct.
Variable tol : R.
Hypothesis Htol : 0 < tol.
Variable d : nat.
Variable t : nat.                      (* the target per1 = continuity + 1, still periodic *)
Hypothesis Ht : (1 <= t)%nat.

Lemma lower_per_struct : forall m (o : obj R) (k : list R) p n T fuel,
  wf_obj_R tol o -> (d < length (o_bases o))%nat -> nth d (o_bases o) dflt_basis = mkBasis p k (t + m) ->
  per_canon k p (t + m) n T -> per_strict k (t + m) -> (m <= fuel)%nat ->
  let st := @kn R NumR k (p - 1) in
  exists o' kf, @obj_lower_periodic R NumR fuel o t d = Ok o' /\ wf_obj_R tol o' /\
    length (o_bases o') = length (o_bases o) /\
    (forall j, j <> d -> nth j (o_bases o') dflt_basis = nth j (o_bases o) dflt_basis) /\
    nth d (o_bases o') dflt_basis = mkBasis p kf t /\
    per_canon kf p t (n + m) T /\ per_strict kf t /\ @kn R NumR kf (p - 1) = st /\
    Permutation (pwin kf t (n + m)) (repeat st m ++ pwin k (t + m) n) /\
    o_dim o' = o_dim o /\ o_rat o' = o_rat o /\
    forall ts, (forall j, (j < length (o_bases o))%nat -> j <> d -> in_dom tol (nth j (o_bases o) dflt_basis) (nth j ts 0)) ->
      st <= nth d ts 0 <= st + T -> @obj_eval R NumR tol o' ts = @obj_eval R NumR tol o ts.
Proof.
  induction m as [|m IH]; intros o k p n T fuel Hwf Hd Hb Hcan Hstr Hfuel; cbv zeta.
  { repeat rewrite Nat.add_0_r in *. exists o, k. cbn [repeat app].
    split; [apply lower_periodic_done; rewrite Hb; reflexivity|]. split; [exact Hwf|]. split; [reflexivity|].
    split; [intros; reflexivity|]. split; [exact Hb|]. split; [exact Hcan|]. split; [exact Hstr|]. split; [reflexivity|].
    split; [apply Permutation_refl|]. split; [reflexivity|]. split; [reflexivity|]. intros; reflexivity. }
  destruct fuel as [|fuel]; [lia|].
  pose proof Hcan as (HK & Hper1 & Hpp & Hlen & Hreg & HT & Hseam & Himg).
  set (st := @kn R NumR k (p - 1)) in *.
  destruct (lower_step_struct tol Htol d o k p (t + S m) n T Hwf Hd Hb Hcan Hstr) as (Cn & Sn & Pn & En). fold st in Cn, Sn, Pn, En.
  destruct (lower_step_pack tol Htol d o k p (t + S m) n T Hwf Hd Hb Hcan) as (o2 & Hstep & Hwf2 & Hl2 & Hoth2 & Hb2 & Hd2 & Hr2 & Hev2).
  fold st in Hb2, Hev2.
  set (knew := knew_model k p (t + S m) st) in *.
  replace (t + S m - 1)%nat with (t + m)%nat in Hb2 by lia.
  pose proof Cn as (HKn & _ & _ & Hlenn & _ & _ & Hseamn & Himgn).
  assert (Hknp : @kn R NumR knew p = st) by (apply (knew_p k p (t + S m) n T Hcan)).
  assert (Htl : forall j, (S j < length knew)%nat -> @kn R NumR (tl knew) j = @kn R NumR knew (S j)) by (intros j Hj; apply kn_tl; exact Hj).
  rewrite (Hstep fuel t ltac:(lia)).
  assert (C2 : per_canon (tl knew) p (t + m) (n + 1) T).
  { pose proof (lower_step_canon k p (t + S m) n T Hcan ltac:(lia)) as C. replace (t + S m - 1)%nat with (t + m)%nat in C by lia. exact C. }
  assert (S2 : per_strict (tl knew) (t + m)).
  { unfold per_strict in *. rewrite !Htl by lia. replace (S (t + m - 1)) with (t + S m - 1)%nat by lia.
    replace (S (t + m)) with (t + S m)%nat by lia. exact Sn. }
  assert (E2 : @kn R NumR (tl knew) (p - 1) = st) by (rewrite Htl by lia; replace (S (p - 1)) with p by lia; exact Hknp).
  assert (W2 : pwin (tl knew) (t + m) (n + 1) = pwin knew (t + S m) (n + 1)).
  { unfold pwin. rewrite ip_skipn_tl. replace (S (t + m)) with (t + S m)%nat by lia. reflexivity. }
  destruct (IH o2 (tl knew) p (n + 1)%nat T fuel Hwf2 ltac:(rewrite Hl2; exact Hd) Hb2 C2 S2 ltac:(lia))
    as (o' & kf & Hok & Hwf' & Hl' & Hoth' & Hb' & Ck & Sk & Es & Pk & Hd' & Hr' & Hev').
  cbv zeta in *. rewrite E2 in *.
  replace (n + 1 + m)%nat with (n + S m)%nat in * by lia.
  exists o', kf. split; [exact Hok|]. split; [exact Hwf'|]. split; [rewrite Hl'; exact Hl2|].
  split; [intros j Hj; rewrite (Hoth' j Hj); apply Hoth2; exact Hj|]. split; [exact Hb'|].
  split; [exact Ck|]. split; [exact Sk|]. split; [exact Es|].
  split.
  { rewrite Pk, W2. cbn [repeat app].
    transitivity (repeat st m ++ (st :: pwin k (t + S m) n)).
    - apply Permutation_app_head. exact Pn.
    - symmetry. apply Permutation_middle. }
  split; [congruence|]. split; [congruence|].
  intros ts Hdom Htt. rewrite Hev'.
  - apply Hev2; assumption.
  - intros j Hj Ne. rewrite (Hoth2 j Ne). apply Hdom; [rewrite <- Hl2; exact Hj|exact Ne].
  - exact Htt.
Qed.
End LowerPerStruct.


(* ---- the two insertion stages on two objects that are periodic in direction i with the same order and continuity,
        period 1 and start 0 (coreP_forward for arbitrary objects) ---- *)
Section PerStages.
Variable tol : R.
Hypothesis Htol : 0 < tol.
Variables i p per1 : nat.
Variable U : list R.
Hypothesis HU : separated tol U.

Definition per_ready (o : obj R) (k : list R) (n : nat) : Prop :=
  wf_obj_R tol o /\ (i < length (o_bases o))%nat /\ nth i (o_bases o) dflt_basis = mkBasis p k per1 /\
  per_canon k p per1 n 1 /\ per_strict k per1 /\ @kn R NumR k (p - 1) = 0 /\
  (forall v, In v (pvals k per1 n 1) -> In v U).

Definition per_result (a2 b2 : obj R) (ka kb : list R) (na nb : nat) (a b : obj R) (kk : list R) (nk : nat) : Prop :=
  wf_obj_R tol a /\ wf_obj_R tol b /\
  length (o_bases a) = length (o_bases a2) /\ length (o_bases b) = length (o_bases b2) /\
  (forall j, j <> i -> nth j (o_bases a) dflt_basis = nth j (o_bases a2) dflt_basis) /\
  (forall j, j <> i -> nth j (o_bases b) dflt_basis = nth j (o_bases b2) dflt_basis) /\
  nth i (o_bases a) dflt_basis = mkBasis p kk per1 /\ nth i (o_bases b) dflt_basis = mkBasis p kk per1 /\
  per_canon kk p per1 nk 1 /\ per_strict kk per1 /\ @kn R NumR kk (p - 1) = 0 /\
  (forall v, cw kk per1 nk v = Nat.max (cw ka per1 na v) (cw kb per1 nb v)) /\
  o_dim a = o_dim a2 /\ o_rat a = o_rat a2 /\ o_dim b = o_dim b2 /\ o_rat b = o_rat b2 /\
  (forall ts, dom_all tol a2 ts -> snapfree tol (pvals ka per1 na 1) (nth i ts 0) -> snapfree tol (pvals kb per1 nb 1) (nth i ts 0) ->
     @obj_eval R NumR tol a ts = @obj_eval R NumR tol a2 ts) /\
  (forall ts, dom_all tol b2 ts -> snapfree tol (pvals ka per1 na 1) (nth i ts 0) -> snapfree tol (pvals kb per1 nb 1) (nth i ts 0) ->
     @obj_eval R NumR tol b ts = @obj_eval R NumR tol b2 ts).

Lemma per_forward (a2 b2 : obj R) (ka kb : list R) (na nb : nat) :
  per_ready a2 ka na -> per_ready b2 kb nb -> cw ka per1 na 0 = cw kb per1 nb 0 ->
  exists ins2 b4 ins1 a4 kk nk,
    @missing_knots R NumR tol p (mkBasis p ka per1) (mkBasis p kb per1) = Ok ins2 /\
    @obj_insert_knots R NumR b2 i ins2 = Ok b4 /\
    @missing_knots R NumR tol p (nth i (o_bases b4) dflt_basis) (mkBasis p ka per1) = Ok ins1 /\
    @obj_insert_knots R NumR a2 i ins1 = Ok a4 /\
    per_result a2 b2 ka kb na nb a4 b4 kk nk.
Proof.
  intros (Wa & Ia & Na & A1 & A2 & A3 & Ua) (Wb & Ib & Nb & B1 & B2 & B3 & Ub) Hs0.
  destruct (ins_stage_per tol Htol i p per1 1 b2 ka kb na nb U Wb Ib Nb B1 B2 A1 A2 ltac:(rewrite A3, B3; reflexivity) HU Ua Ub)
    as (ins2 & b4 & kb4 & n4 & M1 & I1 & F1 & Cn1 & Ev1).
  { rewrite A3, B3, Hs0. lia. }
  pose proof F1 as (Wb4 & Lb4 & Ob4 & Nb4 & Cb4 & Sb4 & Eb4). rewrite B3 in Eb4.
  assert (W4 : forall w, In w (pwin kb4 per1 n4) -> In w (pwin ka per1 na) \/ In w (pwin kb per1 nb)) by (apply cw_max_in; exact Cn1).
  assert (U4 : forall v, In v (pvals kb4 per1 n4 1) -> In v U).
  { intros v Hv. pose proof (pvals_mono kb4 ka kb per1 n4 na nb 1 W4 v Hv) as H. apply in_app_or in H. destruct H as [H|H]; [apply Ua, H|apply Ub, H]. }
  destruct (ins_stage_per tol Htol i p per1 1 a2 kb4 ka n4 na U Wa Ia Na A1 A2 Cb4 Sb4 ltac:(rewrite A3, Eb4; reflexivity) HU U4 Ua)
    as (ins1 & a4 & ka4 & n5 & M2 & I2 & F2 & Cn2 & Ev2).
  { rewrite A3, Eb4, Cn1, Hs0. lia. }
  pose proof F2 as (Wa4 & La4 & Oa4 & Na4 & Ca4 & Sa4 & Ea4). rewrite A3 in Ea4.
  assert (Ewin : pwin ka4 per1 n5 = pwin kb4 per1 n4).
  { apply sorted_mult_eq; [apply pwin_lsorted; exact (proj1 Ca4)|apply pwin_lsorted; exact (proj1 Cb4)|].
    intros v. change (cw ka4 per1 n5 v = cw kb4 per1 n4 v). rewrite Cn2, Cn1. lia. }
  assert (En : n5 = n4).
  { pose proof Ca4 as (_ & _ & _ & L5 & _). pose proof Cb4 as (_ & _ & _ & L4 & _).
    rewrite <- (pwin_length ka4 per1 n5) by lia. rewrite Ewin. apply pwin_length. lia. }
  subst n5.
  assert (Ekk : ka4 = kb4) by (apply (canon_ext ka4 kb4 p per1 n4 1 Ca4 Cb4 Ewin)).
  destruct (insert_knots_dims i ins1 a2 a4 I2) as (Da & Rta). destruct (insert_knots_dims i ins2 b2 b4 I1) as (Db & Rtb).
  exists ins2, b4, ins1, a4, kb4, n4. split; [exact M1|]. split; [exact I1|]. split; [rewrite Nb4; exact M2|]. split; [exact I2|].
  unfold per_result.
  split; [exact Wa4|]. split; [exact Wb4|]. split; [exact La4|]. split; [exact Lb4|]. split; [exact Oa4|]. split; [exact Ob4|].
  split; [rewrite Na4, Ekk; reflexivity|]. split; [exact Nb4|]. split; [exact Cb4|]. split; [exact Sb4|]. split; [exact Eb4|].
  split; [exact Cn1|].
  split; [exact Da|]. split; [exact Rta|]. split; [exact Db|]. split; [exact Rtb|].
  split.
  - intros ts Hdom Fa Fb. apply (Ev2 _ Hdom Fa).
    intros v Hv. pose proof (pvals_mono kb4 ka kb per1 n4 na nb 1 W4 v Hv) as H. apply in_app_or in H. destruct H as [H|H]; [apply Fa, H|apply Fb, H].
  - intros ts Hdom Fa Fb. apply (Ev1 _ Hdom Fb Fa).
Qed.
End PerStages.

(* ---- a periodic operand brought to continuity per1 - 1 on [0,1]: reparam, and lower_periodic if needed ---- *)
Definition pnorm_ok (tol : R) (i p per1 : nat) (U : list R) (o o2 : obj R) (k2 : list R) (n2 : nat) : Prop :=
  per_ready tol i p per1 U o2 k2 n2 /\ length (o_bases o2) = length (o_bases o) /\
  (forall j, j <> i -> nth j (o_bases o2) dflt_basis = nth j (o_bases o) dflt_basis) /\
  o_dim o2 = o_dim o /\ o_rat o2 = o_rat o /\
  (forall u, 0 <= u <= 1 -> knot_clear (b_knots (rp_basis (nth i (o_bases o) dflt_basis) 0 1)) tol u ->
     snapfree tol (pvals k2 per1 n2 1) u) /\
  forall ts, dom_all tol o ts -> (i < length ts)%nat ->
    let b := nth i (o_bases o) dflt_basis in
    @b_start R NumR b <= nth i ts 0 <= @b_end R NumR b ->
    knot_clear (b_knots b) (Rmax tol (tol / rp_al b 0 1)) (nth i ts 0) ->
    @obj_eval R NumR tol o2 (upd ts i (rp_map b 0 1 (nth i ts 0))) = @obj_eval R NumR tol o ts /\
    dom_all tol o2 (upd ts i (rp_map b 0 1 (nth i ts 0))).

Section PNormalise.
Variable tol : R.
Hypothesis Htol : 0 < tol.
Hypothesis Htol2 : 2 * tol <= 1.
Variable i : nat.
Variable U : list R.
Hypothesis HU : separated tol U.
Variable o : obj R.
Hypothesis Wo : wf_obj_R tol o.
Hypothesis Hio : (i < length (o_bases o))%nat.
Local Notation b := (nth i (o_bases o) dflt_basis).
Local Notation l := (b_knots (rp_basis b 0 1)).
Local Notation p := (b_order b).
Local Notation o1 := (rp_obj o i 0 1).
Variables (n : nat) (T : R).
Hypothesis Hcan : canon_dir o i n T.
Hypothesis Hstr : per_strict (b_knots b) (b_per1 b).
Hypothesis VU : forall v, In v (pvals l (b_per1 b) n 1) -> In v U.

(* lowered by m >= 0 steps to per1 = t (m = 0: no lower_periodic call is needed, the fuel does not matter) *)
Lemma pnorm_side t m fuel : (1 <= t)%nat -> b_per1 b = (t + m)%nat -> (m <= fuel)%nat ->
  exists o2 k2, @obj_lower_periodic R NumR fuel o1 t i = Ok o2 /\
    Permutation (pwin k2 t (n + m)) (repeat 0 m ++ pwin l (t + m) n) /\
    pnorm_ok tol i p t U o o2 k2 (n + m).
Proof.
  intros Ht Eper Hfuel.
  destruct (canon_rescaled tol o i n T Htol Wo Hio Hcan) as (C & S & Z). specialize (S Hstr).
  rewrite Eper in *.
  pose proof C as (HKl & Hper1 & Hpp & Hlenl & Hregl & _ & Hseaml & Himgl).
  pose proof (canon_period _ _ _ _ _ C) as Hperl. rewrite Z in Hperl.
  assert (W1 : wf_obj_R tol o1) by exact (nr_a1_wf tol Htol Htol2 o Wo i Hio).
  assert (I1 : (i < length (o_bases o1))%nat) by (rewrite nr_a1_len; exact Hio).
  assert (N1 : nth i (o_bases o1) dflt_basis = mkBasis p l (t + m)) by (rewrite (nr_a1_i o i Hio); unfold rp_basis; rewrite Eper; reflexivity).
  destruct (lower_per_struct tol Htol i t Ht m o1 l p n 1 fuel W1 I1 N1 C S Hfuel)
    as (o2 & k2 & Hok & W2 & L2 & O2 & N2 & C2 & S2 & Es & Pk & D2 & Rt2 & Ev2).
  cbv zeta in *. rewrite Z in *. replace (0 + 1) with 1 in * by ring.
  assert (I0 : In 0 (pwin l (t + m) n)) by (pose proof (cl_start_win l p (t + m) n 1 C) as H0; rewrite Z in H0; exact H0).
  assert (Win : forall v, In v (pwin k2 t (n + m)) <-> In v (pwin l (t + m) n)).
  { intros v. split.
    - intros Hv. apply (Permutation_in _ Pk) in Hv. apply in_app_or in Hv. destruct Hv as [Hv|Hv]; [|exact Hv].
      apply repeat_spec in Hv. subst v. exact I0.
    - intros Hv. apply (Permutation_in _ (Permutation_sym Pk)). apply in_or_app. right. exact Hv. }
  assert (PV : forall v, In v (pvals k2 t (n + m) 1) <-> In v (pvals l (t + m) n 1)).
  { intros v. rewrite !pvals_in, !Win. reflexivity. }
  exists o2, k2. split; [exact Hok|]. split; [exact Pk|].
  split.
  { split; [exact W2|]. split; [rewrite L2; exact I1|]. split; [exact N2|]. split; [exact C2|]. split; [exact S2|]. split; [exact Es|].
    intros v Hv. apply VU, PV, Hv. }
  split; [rewrite L2; apply nr_a1_len|].
  split; [intros j Hj; rewrite (O2 j Hj); apply (nr_a1_other o i Hio j Hj)|].
  split; [exact D2|]. split; [exact Rt2|].
  split.
  { intros u Ru PCu. apply (snapfree_incl tol _ (pvals l (t + m) n 1)); [intros v Hv; apply PV, Hv|].
    assert (VL : forall v, In v l -> In v U) by (intros v Hv; apply VU, (canon_values l p (t + m) n 1 C v Hv)).
    apply (clear_pvals tol l p (t + m) n 1 u Htol C S (separated_sub tol l U VL HU)); [|exact PCu].
    rewrite Hperl, Z. exact Ru. }
  intros ts Hdom Hit. cbv zeta. intros Hin PC1.
  set (tt := nth i ts 0) in *. set (u := rp_map b 0 1 tt). set (ts' := upd ts i u).
  assert (Ei : nth i ts' 0 = u) by (unfold ts'; apply upd_nth_same; exact Hit).
  assert (Eo : forall j, j <> i -> nth j ts' 0 = nth j ts 0) by (intros j Hj; unfold ts'; apply upd_nth_other; exact Hj).
  assert (Ev1 : @obj_eval R NumR tol o1 ts' = @obj_eval R NumR tol o ts).
  { apply (eval_same tol Htol o Wo i Hio 0 1 ltac:(lra) ts ts' Ei Eo PC1). intros _. exact Hin. }
  assert (Ru : 0 <= u <= 1) by (apply (dir_interval tol Htol b (ol_wfb tol o Wo i Hio) 0 1 ltac:(lra) tt); exact Hin).
  assert (Dom1 : forall j, (j < length (o_bases o1))%nat -> j <> i -> in_dom tol (nth j (o_bases o1) dflt_basis) (nth j ts' 0)).
  { intros j Hj Hne'. rewrite nr_a1_len in Hj. rewrite (nr_a1_other o i Hio j Hne'), (Eo j Hne'). apply Hdom. exact Hj. }
  split; [rewrite (Ev2 ts' Dom1 ltac:(rewrite Ei; lra)); exact Ev1|].
  intros j Hj. rewrite L2 in Hj. destruct (Nat.eq_dec j i) as [->|Hne'].
  - rewrite N2. unfold in_dom. cbn [b_per1]. intros E0. lia.
  - rewrite (O2 j Hne'). apply Dom1; assumption.
Qed.
End PNormalise.


(* ---- the generic core for two periodic operands ---- *)
Definition per_core_facts (tol : R) (a0 b0 : obj R) (i p per1 : nat) (ka kb : list R) (na nb : nat) (a b : obj R) (kk : list R) (nk : nat) : Prop :=
  let ba := nth i (o_bases a0) dflt_basis in let bb := nth i (o_bases b0) dflt_basis in
  wf_obj_R tol a /\ wf_obj_R tol b /\
  length (o_bases a) = length (o_bases a0) /\ length (o_bases b) = length (o_bases b0) /\
  (forall j, j <> i -> nth j (o_bases a) dflt_basis = nth j (o_bases a0) dflt_basis) /\
  (forall j, j <> i -> nth j (o_bases b) dflt_basis = nth j (o_bases b0) dflt_basis) /\
  nth i (o_bases a) dflt_basis = mkBasis p kk per1 /\ nth i (o_bases b) dflt_basis = mkBasis p kk per1 /\
  per_canon kk p per1 nk 1 /\ per_strict kk per1 /\ @kn R NumR kk (p - 1) = 0 /\
  (forall v, cw kk per1 nk v = Nat.max (cw ka per1 na v) (cw kb per1 nb v)) /\
  o_dim a = o_dim a0 /\ o_rat a = o_rat a0 /\ o_dim b = o_dim b0 /\ o_rat b = o_rat b0 /\
  (forall ts, dom_all tol a0 ts -> (i < length ts)%nat ->
     @b_start R NumR ba <= nth i ts 0 <= @b_end R NumR ba -> param_clear tol ba bb (nth i ts 0) ->
     @obj_eval R NumR tol a (upd ts i (rp_map ba 0 1 (nth i ts 0))) = @obj_eval R NumR tol a0 ts) /\
  (forall ts, dom_all tol b0 ts -> (i < length ts)%nat ->
     @b_start R NumR bb <= nth i ts 0 <= @b_end R NumR bb -> param_clear tol bb ba (nth i ts 0) ->
     @obj_eval R NumR tol b (upd ts i (rp_map bb 0 1 (nth i ts 0))) = @obj_eval R NumR tol b0 ts).

Section PerCore.
Variable tol : R.
Hypothesis Htol : 0 < tol.
Variables a0 b0 : obj R.
Hypothesis Wa : wf_obj_R tol a0.
Hypothesis Wb : wf_obj_R tol b0.
Variable i : nat.
Hypothesis Hia : (i < length (o_bases a0))%nat.
Hypothesis Hib : (i < length (o_bases b0))%nat.
Variables p per1 : nat.
Variable U : list R.
Hypothesis HU : separated tol U.
Local Notation a1 := (rp_obj a0 i 0 1).
Local Notation b1 := (rp_obj b0 i 0 1).
Variables a2 b2 : obj R.
Variables ka kb : list R.
Variables na nb : nat.
Hypothesis Na : pnorm_ok tol i p per1 U a0 a2 ka na.
Hypothesis Nb : pnorm_ok tol i p per1 U b0 b2 kb nb.
Hypothesis Hs0 : cw ka per1 na 0 = cw kb per1 nb 0.
Hypothesis Hlow_b :
  (if (b_per1 (nth i (o_bases a1) dflt_basis) <? b_per1 (nth i (o_bases b1) dflt_basis))%nat
   then @obj_lower_periodic R NumR 64 b1 (b_per1 (nth i (o_bases a1) dflt_basis)) i else Ok b1) = Ok b2.
Hypothesis Hlow_a :
  (if (b_per1 (nth i (o_bases b1) dflt_basis) <? b_per1 (nth i (o_bases a1) dflt_basis))%nat
   then @obj_lower_periodic R NumR 64 a1 (b_per1 (nth i (o_bases b1) dflt_basis)) i else Ok a1) = Ok a2.

Theorem per_core_ok : exists a b kk nk, identical_tail tol a0 b0 i = Ok (a, b) /\ per_core_facts tol a0 b0 i p per1 ka kb na nb a b kk nk.
Proof.
  destruct Na as (Ra & La & Oa & Da & Rta & Ca & Eva). destruct Nb as (Rb & Lb & Ob & Db & Rtb & Cb & Evb).
  destruct (per_forward tol Htol i p per1 U HU a2 b2 ka kb na nb Ra Rb Hs0) as (ins2 & b4 & ins1 & a4 & kk & nk & M1 & I1 & M2 & I2 & PR).
  exists a4, b4, kk, nk. split.
  { destruct Ra as (_ & _ & Ea & _). destruct Rb as (_ & _ & Eb & _).
    unfold identical_tail.
    change (@n0 R NumR) with 0. change (@n1 R NumR) with 1.
    rewrite (nr_a1_ok tol Htol a0 Wa i Hia), (nr_a1_ok tol Htol b0 Wb i Hib).
    cbv zeta. change (@mkBasis R 0 [] 0) with dflt_basis.
    rewrite Hlow_b, Hlow_a. rewrite Ea, Eb. cbn [b_order].
    rewrite Nat.max_id, Nat.sub_diag. rewrite !raise_zero.
    rewrite Ea, Eb, M1, I1, M2, I2. reflexivity. }
  destruct PR as (R1 & R2 & R3 & R4 & R5 & R6 & R7 & R8 & R9 & R10 & R11 & R12 & R13 & R14 & R15 & R16 & R17 & R18).
  unfold per_core_facts. cbv zeta.
  split; [exact R1|]. split; [exact R2|]. split; [lia|]. split; [lia|].
  split; [intros j Hj; rewrite (R5 j Hj); apply Oa; exact Hj|]. split; [intros j Hj; rewrite (R6 j Hj); apply Ob; exact Hj|].
  split; [exact R7|]. split; [exact R8|]. split; [exact R9|]. split; [exact R10|]. split; [exact R11|]. split; [exact R12|].
  split; [congruence|]. split; [congruence|]. split; [congruence|]. split; [congruence|].
  split.
  - intros ts Hdom Hit Hin (PC1 & PC2). destruct (Eva ts Hdom Hit Hin PC1) as (E1 & D1). cbv zeta in *.
    assert (Ru : 0 <= rp_map (nth i (o_bases a0) dflt_basis) 0 1 (nth i ts 0) <= 1)
      by (apply (dir_interval tol Htol _ (ol_wfb tol a0 Wa i Hia) 0 1 ltac:(lra) (nth i ts 0)); exact Hin).
    rewrite <- E1. apply (R17 _ D1); rewrite upd_nth_same by exact Hit.
    + apply (Ca _ Ru). apply (clear_rescaled tol Htol i a0 Wa Hia _ PC1).
    + apply (Cb _ Ru). exact PC2.
  - intros ts Hdom Hit Hin (PC1 & PC2). destruct (Evb ts Hdom Hit Hin PC1) as (E1 & D1). cbv zeta in *.
    assert (Ru : 0 <= rp_map (nth i (o_bases b0) dflt_basis) 0 1 (nth i ts 0) <= 1)
      by (apply (dir_interval tol Htol _ (ol_wfb tol b0 Wb i Hib) 0 1 ltac:(lra) (nth i ts 0)); exact Hin).
    rewrite <- E1. apply (R18 _ D1); rewrite upd_nth_same by exact Hit.
    + apply (Ca _ Ru). exact PC2.
    + apply (Cb _ Ru). apply (clear_rescaled tol Htol i b0 Wb Hib _ PC1).
Qed.
End PerCore.


(* ================================================================================================ *)
(* Part 10: the end-to-end theorems, case (c) *)

(* what is proved about the two results: ka (na knots per period), kb (nb) are the knot lists of the two operands once both
   have continuity per1 - 1 on [0,1] *)
Definition per_facts (tol : R) (o1 o2 : obj R) (i per1 : nat) (ka kb : list R) (na nb : nat) (a b : obj R) : Prop :=
  let b1 := nth i (o_bases o1) dflt_basis in let b2 := nth i (o_bases o2) dflt_basis in
  let p := b_order b1 in let dim' := Nat.max (o_dim o1) (o_dim o2) in
  let ba := nth i (o_bases a) dflt_basis in let bb := nth i (o_bases b) dflt_basis in
  b_order ba = p /\ b_order bb = p /\ b_per1 ba = per1 /\ b_per1 bb = per1 /\
  @b_start R NumR ba = 0 /\ @b_end R NumR ba = 1 /\ @b_start R NumR bb = 0 /\ @b_end R NumR bb = 1 /\
  b_knots ba = b_knots bb /\
  (exists nk, canon_dir a i nk 1 /\ canon_dir b i nk 1 /\ per_strict (b_knots ba) per1 /\
     forall v, cw (b_knots ba) per1 nk v = Nat.max (cw ka per1 na v) (cw kb per1 nb v)) /\
  wf_obj_R tol a /\ wf_obj_R tol b /\
  length (o_bases a) = length (o_bases o1) /\ length (o_bases b) = length (o_bases o2) /\
  (forall j, j <> i -> nth j (o_bases a) dflt_basis = nth j (o_bases o1) dflt_basis) /\
  (forall j, j <> i -> nth j (o_bases b) dflt_basis = nth j (o_bases o2) dflt_basis) /\
  o_dim a = dim' /\ o_dim b = dim' /\ o_rat a = (o_rat o1 || o_rat o2)%bool /\ o_rat b = (o_rat o1 || o_rat o2)%bool /\
  (forall ts, dom_all tol o1 ts -> (i < length ts)%nat ->
     @b_start R NumR b1 <= nth i ts 0 <= @b_end R NumR b1 -> param_clear tol b1 b2 (nth i ts 0) ->
     @obj_eval R NumR tol a (upd ts i ((nth i ts 0 - @b_start R NumR b1) / (@b_end R NumR b1 - @b_start R NumR b1)))
     = res_map (pad (dim' - o_dim o1)) (@obj_eval R NumR tol o1 ts)) /\
  (forall ts, dom_all tol o2 ts -> (i < length ts)%nat ->
     @b_start R NumR b2 <= nth i ts 0 <= @b_end R NumR b2 -> param_clear tol b2 b1 (nth i ts 0) ->
     @obj_eval R NumR tol b (upd ts i ((nth i ts 0 - @b_start R NumR b2) / (@b_end R NumR b2 - @b_start R NumR b2)))
     = res_map (pad (dim' - o_dim o2)) (@obj_eval R NumR tol o2 ts)).

Lemma per_facts_of_core tol (o1 o2 : obj R) i per1 ka kb na nb a b kk nk : 0 < tol -> wf_obj_R tol o1 -> wf_obj_R tol o2 ->
  (i < length (o_bases o1))%nat -> (i < length (o_bases o2))%nat ->
  per_core_facts tol (fst (@obj_compatible R NumR o1 o2)) (snd (@obj_compatible R NumR o1 o2)) i
    (b_order (nth i (o_bases o1) dflt_basis)) per1 ka kb na nb a b kk nk ->
  per_facts tol o1 o2 i per1 ka kb na nb a b.
Proof.
  intros Htol W1 W2 H1 H2 F.
  pose proof (fun ts => compatible_eval tol o1 o2 ts Htol W1 W2) as CE. cbv zeta in CE.
  destruct (CE []) as (_ & _ & Wa & Wb & Ba & Bb & Da & Db & Ra & Rb).
  unfold per_core_facts in F. cbv zeta in F. rewrite Ba, Bb in F.
  destruct F as (F1 & F2 & F3 & F4 & F5 & F6 & F7 & F8 & F9 & F10 & F11 & F12 & F13 & F14 & F15 & F16 & Ev1 & Ev2).
  pose proof (canon_period _ _ _ _ _ F9) as Hper. pose proof F9 as (_ & _ & _ & Hlen & _).
  set (p := b_order (nth i (o_bases o1) dflt_basis)) in *.
  assert (Eend : @kn R NumR kk (length kk - p) = 1).
  { rewrite Hlen. replace (nk + per1 + p - p)%nat with (nk + per1)%nat by lia. rewrite Hper, F11. ring. }
  unfold per_facts. cbv zeta. unfold canon_dir. rewrite F7, F8. unfold b_start at 1 3, b_end at 1 3. cbn [b_order b_knots b_per1].
  split; [reflexivity|]. split; [reflexivity|]. split; [reflexivity|]. split; [reflexivity|].
  split; [exact F11|]. split; [exact Eend|]. split; [exact F11|]. split; [exact Eend|]. split; [reflexivity|].
  split; [exists nk; repeat split; try assumption; apply F9|].
  split; [exact F1|]. split; [exact F2|]. split; [exact F3|]. split; [exact F4|].
  split; [exact F5|]. split; [exact F6|]. split; [congruence|]. split; [congruence|]. split; [congruence|]. split; [congruence|].
  split.
  - intros ts Hdom Hit Hin HC.
    rewrite <- (rp_map_01 tol o1 i (nth i ts 0) Htol W1 H1).
    rewrite (Ev1 ts (dom_all_bases tol o1 _ ts Ba Hdom) Hit Hin HC). destruct (CE ts) as (E & _). exact E.
  - intros ts Hdom Hit Hin HC.
    rewrite <- (rp_map_01 tol o2 i (nth i ts 0) Htol W2 H2).
    rewrite (Ev2 ts (dom_all_bases tol o2 _ ts Bb Hdom) Hit Hin HC). destruct (CE ts) as (_ & E & _). exact E.
Qed.

(* a periodic operand that is not lowered *)
Lemma pnorm_same tol i U (o : obj R) n T : 0 < tol -> 2 * tol <= 1 -> separated tol U -> wf_obj_R tol o -> (i < length (o_bases o))%nat ->
  canon_dir o i n T ->
  let b := nth i (o_bases o) dflt_basis in
  per_strict (b_knots b) (b_per1 b) ->
  (forall v, In v (pvals (b_knots (rp_basis b 0 1)) (b_per1 b) n 1) -> In v U) ->
  pnorm_ok tol i (b_order b) (b_per1 b) U o (rp_obj o i 0 1) (b_knots (rp_basis b 0 1)) n.
Proof.
  intros Htol Htol2 HU Wo Hio Hcan. cbv zeta. intros Hstr VU.
  pose proof Hcan as (_ & Hper1 & _).
  destruct (pnorm_side tol Htol Htol2 i U HU o Wo Hio n T Hcan Hstr VU (b_per1 (nth i (o_bases o) dflt_basis)) 0 0 Hper1 ltac:(lia) ltac:(lia))
    as (o2 & k2 & Hok & _ & N).
  rewrite lower_periodic_done in Hok by (rewrite (nr_a1_i o i Hio); reflexivity). injection Hok as <-.
  rewrite Nat.add_0_r in N.
  pose proof N as ((_ & _ & Nb & _) & _). rewrite (nr_a1_i o i Hio) in Nb. unfold rp_basis in Nb at 1. injection Nb as <-. exact N.
Qed.

(* (c1) the SECOND operand has the higher continuity and is lowered.  Beyond case (a):
     l2_fuel   the difference of the continuities is at most 64 (fuel of the model's obj_lower_periodic);
     l2_seam   the seam multiplicities agree AFTER the lowering (each step adds one copy of the seam knot): true when both
               operands have the seam multiplicity order - continuity - 1 of their declared continuity. *)
Record identical_lo2_hyps (tol : R) (o1 o2 : obj R) (i na nb : nat) (Ta Tb : R) : Prop := {
  l2_tol : 0 < tol;
  l2_tol2 : 2 * tol <= 1;
  l2_wf1 : wf_obj_R tol o1;
  l2_wf2 : wf_obj_R tol o2;
  l2_dir1 : (i < length (o_bases o1))%nat;
  l2_dir2 : (i < length (o_bases o2))%nat;
  l2_order : b_order (nth i (o_bases o2) dflt_basis) = b_order (nth i (o_bases o1) dflt_basis);
  l2_per : (b_per1 (nth i (o_bases o1) dflt_basis) < b_per1 (nth i (o_bases o2) dflt_basis))%nat;
  l2_fuel : (b_per1 (nth i (o_bases o2) dflt_basis) - b_per1 (nth i (o_bases o1) dflt_basis) <= 64)%nat;
  l2_canon1 : canon_dir o1 i na Ta;
  l2_canon2 : canon_dir o2 i nb Tb;
  l2_strict1 : per_strict (b_knots (nth i (o_bases o1) dflt_basis)) (b_per1 (nth i (o_bases o1) dflt_basis));
  l2_strict2 : per_strict (b_knots (nth i (o_bases o2) dflt_basis)) (b_per1 (nth i (o_bases o2) dflt_basis));
  l2_sep : separated tol (pvals (b_knots (rp_basis (nth i (o_bases o1) dflt_basis) 0 1)) (b_per1 (nth i (o_bases o1) dflt_basis)) na 1 ++
                          pvals (b_knots (rp_basis (nth i (o_bases o2) dflt_basis) 0 1)) (b_per1 (nth i (o_bases o2) dflt_basis)) nb 1);
  l2_seam : mult (b_knots (rp_basis (nth i (o_bases o1) dflt_basis) 0 1)) 0
            = (mult (b_knots (rp_basis (nth i (o_bases o2) dflt_basis) 0 1)) 0
               + (b_per1 (nth i (o_bases o2) dflt_basis) - b_per1 (nth i (o_bases o1) dflt_basis)))%nat
}.

(* (c2) the FIRST operand has the higher continuity and is lowered *)
Record identical_lo1_hyps (tol : R) (o1 o2 : obj R) (i na nb : nat) (Ta Tb : R) : Prop := {
  l1_tol : 0 < tol;
  l1_tol2 : 2 * tol <= 1;
  l1_wf1 : wf_obj_R tol o1;
  l1_wf2 : wf_obj_R tol o2;
  l1_dir1 : (i < length (o_bases o1))%nat;
  l1_dir2 : (i < length (o_bases o2))%nat;
  l1_order : b_order (nth i (o_bases o2) dflt_basis) = b_order (nth i (o_bases o1) dflt_basis);
  l1_per : (b_per1 (nth i (o_bases o2) dflt_basis) < b_per1 (nth i (o_bases o1) dflt_basis))%nat;
  l1_fuel : (b_per1 (nth i (o_bases o1) dflt_basis) - b_per1 (nth i (o_bases o2) dflt_basis) <= 64)%nat;
  l1_canon1 : canon_dir o1 i na Ta;
  l1_canon2 : canon_dir o2 i nb Tb;
  l1_strict1 : per_strict (b_knots (nth i (o_bases o1) dflt_basis)) (b_per1 (nth i (o_bases o1) dflt_basis));
  l1_strict2 : per_strict (b_knots (nth i (o_bases o2) dflt_basis)) (b_per1 (nth i (o_bases o2) dflt_basis));
  l1_sep : separated tol (pvals (b_knots (rp_basis (nth i (o_bases o1) dflt_basis) 0 1)) (b_per1 (nth i (o_bases o1) dflt_basis)) na 1 ++
                          pvals (b_knots (rp_basis (nth i (o_bases o2) dflt_basis) 0 1)) (b_per1 (nth i (o_bases o2) dflt_basis)) nb 1);
  l1_seam : mult (b_knots (rp_basis (nth i (o_bases o2) dflt_basis) 0 1)) 0
            = (mult (b_knots (rp_basis (nth i (o_bases o1) dflt_basis) 0 1)) 0
               + (b_per1 (nth i (o_bases o1) dflt_basis) - b_per1 (nth i (o_bases o2) dflt_basis)))%nat
}.

(* one period of the operand that was lowered by m steps to per1 = t: m more copies of the seam knot 0 *)
Definition lowered_window (b : basis R) (n t : nat) (k2 : list R) : Prop :=
  Permutation (pwin k2 t (n + (b_per1 b - t))) (repeat 0 (b_per1 b - t) ++ pwin (b_knots (rp_basis b 0 1)) (b_per1 b) n).

(* the seam count of a lowered operand *)
Lemma cw_lowered (l k2 : list R) p t m n T : per_canon l p (t + m) n T -> per_strict l (t + m) -> @kn R NumR l (p - 1) = 0 ->
  Permutation (pwin k2 t (n + m)) (repeat 0 m ++ pwin l (t + m) n) ->
  cw k2 t (n + m) 0 = (mult l 0 + m)%nat.
Proof.
  intros C S Z P. unfold cw. rewrite (proj1 (Permutation_count_occ Req_EM_T _ _) P 0), count_occ_app.
  rewrite count_occ_repeat_eq by reflexivity.
  rewrite (mult_window l p (t + m) n T C S 0); [lia|].
  pose proof C as (_ & _ & _ & _ & _ & HT & _). rewrite (canon_period _ _ _ _ _ C), Z. lra.
Qed.

Lemma lo2_core tol (a0 b0 : obj R) i na nb Ta Tb : identical_lo2_hyps tol a0 b0 i na nb Ta Tb ->
  let ba := nth i (o_bases a0) dflt_basis in let bb := nth i (o_bases b0) dflt_basis in
  exists a b kk nk k2, identical_tail tol a0 b0 i = Ok (a, b) /\ lowered_window bb nb (b_per1 ba) k2 /\
    per_core_facts tol a0 b0 i (b_order ba) (b_per1 ba) (b_knots (rp_basis ba 0 1)) k2 na (nb + (b_per1 bb - b_per1 ba)) a b kk nk.
Proof.
  intros [Htol Htol2 Wa Wb Hia Hib Eord Hper Hfuel Ca Cb Sa Sb Hsep Hseam]. cbv zeta.
  set (ba := nth i (o_bases a0) dflt_basis) in *. set (bb := nth i (o_bases b0) dflt_basis) in *.
  set (t := b_per1 ba) in *. set (m := (b_per1 bb - t)%nat) in *.
  set (U := pvals (b_knots (rp_basis ba 0 1)) t na 1 ++ pvals (b_knots (rp_basis bb 0 1)) (b_per1 bb) nb 1) in *.
  pose proof Ca as (_ & Ht & _). fold ba t in Ht.
  assert (Eb : b_per1 bb = (t + m)%nat) by (unfold m; lia).
  pose proof (pnorm_same tol i U a0 na Ta Htol Htol2 Hsep Wa Hia Ca Sa ltac:(intros v Hv; apply in_or_app; left; exact Hv)) as Na.
  fold ba t in Na.
  destruct (pnorm_side tol Htol Htol2 i U Hsep b0 Wb Hib nb Tb Cb Sb ltac:(intros v Hv; apply in_or_app; right; exact Hv) t m 64 Ht Eb Hfuel)
    as (b2 & k2 & Hlow & Pk & Nb). fold bb in Pk, Nb. rewrite Eord in Nb. fold ba in Nb.
  assert (Pa : b_per1 (nth i (o_bases (rp_obj a0 i 0 1)) dflt_basis) = t) by (rewrite (nr_a1_i a0 i Hia); reflexivity).
  assert (Pb : b_per1 (nth i (o_bases (rp_obj b0 i 0 1)) dflt_basis) = (t + m)%nat) by (rewrite (nr_a1_i b0 i Hib); exact Eb).
  destruct (canon_rescaled tol a0 i na Ta Htol Wa Hia Ca) as (CA & SA & ZA). specialize (SA Sa). fold ba t in CA, SA, ZA.
  destruct (canon_rescaled tol b0 i nb Tb Htol Wb Hib Cb) as (CB & SB & ZB). specialize (SB Sb). fold bb in CB, SB, ZB. rewrite Eb in CB, SB.
  destruct (per_core_ok tol Htol a0 b0 Wa Wb i Hia Hib (b_order ba) t U Hsep (rp_obj a0 i 0 1) b2 _ k2 na (nb + m)%nat Na Nb)
    as (a & b & kk & nk & E & F).
  - rewrite (cw_lowered _ k2 (b_order bb) t m nb 1 CB SB ZB Pk).
    unfold cw. rewrite <- (mult_window _ (b_order ba) t na 1 CA SA 0).
    + fold ba bb t m in Hseam. rewrite Hseam. unfold m. lia.
    + pose proof CA as (_ & _ & _ & _ & _ & HT & _). rewrite (canon_period _ _ _ _ _ CA), ZA. lra.
  - rewrite Pa, Pb. destruct (Nat.ltb_spec t (t + m)) as [_|C]; [exact Hlow|unfold m in C; lia].
  - rewrite Pa, Pb. destruct (Nat.ltb_spec (t + m) t) as [C|_]; [unfold m in C; lia|reflexivity].
  - exists a, b, kk, nk, k2. split; [exact E|]. split; [|exact F].
    unfold lowered_window. fold m. rewrite Eb. exact Pk.
Qed.

Lemma lo1_core tol (a0 b0 : obj R) i na nb Ta Tb : identical_lo1_hyps tol a0 b0 i na nb Ta Tb ->
  let ba := nth i (o_bases a0) dflt_basis in let bb := nth i (o_bases b0) dflt_basis in
  exists a b kk nk k2, identical_tail tol a0 b0 i = Ok (a, b) /\ lowered_window ba na (b_per1 bb) k2 /\
    per_core_facts tol a0 b0 i (b_order ba) (b_per1 bb) k2 (b_knots (rp_basis bb 0 1)) (na + (b_per1 ba - b_per1 bb)) nb a b kk nk.
Proof.
  intros [Htol Htol2 Wa Wb Hia Hib Eord Hper Hfuel Ca Cb Sa Sb Hsep Hseam]. cbv zeta.
  set (ba := nth i (o_bases a0) dflt_basis) in *. set (bb := nth i (o_bases b0) dflt_basis) in *.
  set (t := b_per1 bb) in *. set (m := (b_per1 ba - t)%nat) in *.
  set (U := pvals (b_knots (rp_basis ba 0 1)) (b_per1 ba) na 1 ++ pvals (b_knots (rp_basis bb 0 1)) t nb 1) in *.
  pose proof Cb as (_ & Ht & _). fold bb t in Ht.
  assert (Ea : b_per1 ba = (t + m)%nat) by (unfold m; lia).
  pose proof (pnorm_same tol i U b0 nb Tb Htol Htol2 Hsep Wb Hib Cb Sb ltac:(intros v Hv; apply in_or_app; right; exact Hv)) as Nb.
  fold bb t in Nb. rewrite Eord in Nb. fold ba in Nb.
  destruct (pnorm_side tol Htol Htol2 i U Hsep a0 Wa Hia na Ta Ca Sa ltac:(intros v Hv; apply in_or_app; left; exact Hv) t m 64 Ht Ea Hfuel)
    as (a2 & k2 & Hlow & Pk & Na). fold ba in Pk, Na.
  assert (Pb : b_per1 (nth i (o_bases (rp_obj b0 i 0 1)) dflt_basis) = t) by (rewrite (nr_a1_i b0 i Hib); reflexivity).
  assert (Pa : b_per1 (nth i (o_bases (rp_obj a0 i 0 1)) dflt_basis) = (t + m)%nat) by (rewrite (nr_a1_i a0 i Hia); exact Ea).
  destruct (canon_rescaled tol a0 i na Ta Htol Wa Hia Ca) as (CA & SA & ZA). specialize (SA Sa). fold ba in CA, SA, ZA. rewrite Ea in CA, SA.
  destruct (canon_rescaled tol b0 i nb Tb Htol Wb Hib Cb) as (CB & SB & ZB). specialize (SB Sb). fold bb t in CB, SB, ZB.
  destruct (per_core_ok tol Htol a0 b0 Wa Wb i Hia Hib (b_order ba) t U Hsep a2 (rp_obj b0 i 0 1) k2 _ (na + m)%nat nb Na Nb)
    as (a & b & kk & nk & E & F).
  - rewrite (cw_lowered _ k2 (b_order ba) t m na 1 CA SA ZA Pk).
    unfold cw. rewrite <- (mult_window _ (b_order bb) t nb 1 CB SB 0).
    + fold ba bb t m in Hseam. rewrite Hseam. unfold m. lia.
    + pose proof CB as (_ & _ & _ & _ & _ & HT & _). rewrite (canon_period _ _ _ _ _ CB), ZB. lra.
  - rewrite Pa, Pb. destruct (Nat.ltb_spec (t + m) t) as [C|_]; [unfold m in C; lia|reflexivity].
  - rewrite Pa, Pb. destruct (Nat.ltb_spec t (t + m)) as [_|C]; [exact Hlow|unfold m in C; lia].
  - exists a, b, kk, nk, k2. split; [exact E|]. split; [|exact F].
    unfold lowered_window. fold m. rewrite Ea. exact Pk.
Qed.

Lemma lo2_hyps_compat tol (o1 o2 : obj R) i na nb Ta Tb : identical_lo2_hyps tol o1 o2 i na nb Ta Tb ->
  identical_lo2_hyps tol (fst (@obj_compatible R NumR o1 o2)) (snd (@obj_compatible R NumR o1 o2)) i na nb Ta Tb.
Proof.
  intros H. destruct (compatible_eval tol o1 o2 [] (l2_tol _ _ _ _ _ _ _ _ H) (l2_wf1 _ _ _ _ _ _ _ _ H) (l2_wf2 _ _ _ _ _ _ _ _ H)) as (_ & _ & Wa & Wb & Ba & Bb & _).
  cbv zeta in *. destruct H. constructor; unfold canon_dir in *; rewrite ?Ba, ?Bb; assumption.
Qed.
Lemma lo1_hyps_compat tol (o1 o2 : obj R) i na nb Ta Tb : identical_lo1_hyps tol o1 o2 i na nb Ta Tb ->
  identical_lo1_hyps tol (fst (@obj_compatible R NumR o1 o2)) (snd (@obj_compatible R NumR o1 o2)) i na nb Ta Tb.
Proof.
  intros H. destruct (compatible_eval tol o1 o2 [] (l1_tol _ _ _ _ _ _ _ _ H) (l1_wf1 _ _ _ _ _ _ _ _ H) (l1_wf2 _ _ _ _ _ _ _ _ H)) as (_ & _ & Wa & Wb & Ba & Bb & _).
  cbv zeta in *. destruct H. constructor; unfold canon_dir in *; rewrite ?Ba, ?Bb; assumption.
Qed.

(* (c1): identical_dir succeeds; both results are periodic in direction i with the SMALLER continuity, the same order,
   period [0,1] and knot list, and both maps are preserved *)
Theorem identical_dir_lower2_ok tol (o1 o2 : obj R) i na nb Ta Tb : identical_lo2_hyps tol o1 o2 i na nb Ta Tb ->
  let b1 := nth i (o_bases o1) dflt_basis in let b2 := nth i (o_bases o2) dflt_basis in
  exists a b k2, @identical_dir R NumR tol o1 o2 i = Ok (a, b) /\ lowered_window b2 nb (b_per1 b1) k2 /\
    per_facts tol o1 o2 i (b_per1 b1) (b_knots (rp_basis b1 0 1)) k2 na (nb + (b_per1 b2 - b_per1 b1)) a b.
Proof.
  intros H. cbv zeta. pose proof (lo2_hyps_compat tol o1 o2 i na nb Ta Tb H) as Hc.
  destruct (compatible_eval tol o1 o2 [] (l2_tol _ _ _ _ _ _ _ _ H) (l2_wf1 _ _ _ _ _ _ _ _ H) (l2_wf2 _ _ _ _ _ _ _ _ H)) as (_ & _ & Wa & Wb & Ba & Bb & _).
  cbv zeta in *.
  destruct (lo2_core tol _ _ i na nb Ta Tb Hc) as (a & b & kk & nk & k2 & E & Pk & F). cbv zeta in *. rewrite Ba, Bb in Pk. rewrite Ba, Bb in F.
  exists a, b, k2. split; [rewrite identical_dir_tail; exact E|]. split; [exact Pk|].
  apply (per_facts_of_core tol o1 o2 i _ _ k2 na _ a b kk nk (l2_tol _ _ _ _ _ _ _ _ H) (l2_wf1 _ _ _ _ _ _ _ _ H) (l2_wf2 _ _ _ _ _ _ _ _ H)
           (l2_dir1 _ _ _ _ _ _ _ _ H) (l2_dir2 _ _ _ _ _ _ _ _ H)). exact F.
Qed.

Theorem identical_dir_lower2 tol (o1 o2 : obj R) i na nb Ta Tb a b : identical_lo2_hyps tol o1 o2 i na nb Ta Tb ->
  @identical_dir R NumR tol o1 o2 i = Ok (a, b) ->
  let b1 := nth i (o_bases o1) dflt_basis in let b2 := nth i (o_bases o2) dflt_basis in
  exists k2, lowered_window b2 nb (b_per1 b1) k2 /\
    per_facts tol o1 o2 i (b_per1 b1) (b_knots (rp_basis b1 0 1)) k2 na (nb + (b_per1 b2 - b_per1 b1)) a b.
Proof.
  intros H Hid. cbv zeta. destruct (identical_dir_lower2_ok tol o1 o2 i na nb Ta Tb H) as (a' & b' & k2 & E & Pk & F).
  rewrite Hid in E. injection E as <- <-. exists k2. split; assumption.
Qed.

(* (c2) *)
Theorem identical_dir_lower1_ok tol (o1 o2 : obj R) i na nb Ta Tb : identical_lo1_hyps tol o1 o2 i na nb Ta Tb ->
  let b1 := nth i (o_bases o1) dflt_basis in let b2 := nth i (o_bases o2) dflt_basis in
  exists a b k2, @identical_dir R NumR tol o1 o2 i = Ok (a, b) /\ lowered_window b1 na (b_per1 b2) k2 /\
    per_facts tol o1 o2 i (b_per1 b2) k2 (b_knots (rp_basis b2 0 1)) (na + (b_per1 b1 - b_per1 b2)) nb a b.
Proof.
  intros H. cbv zeta. pose proof (lo1_hyps_compat tol o1 o2 i na nb Ta Tb H) as Hc.
  destruct (compatible_eval tol o1 o2 [] (l1_tol _ _ _ _ _ _ _ _ H) (l1_wf1 _ _ _ _ _ _ _ _ H) (l1_wf2 _ _ _ _ _ _ _ _ H)) as (_ & _ & Wa & Wb & Ba & Bb & _).
  cbv zeta in *.
  destruct (lo1_core tol _ _ i na nb Ta Tb Hc) as (a & b & kk & nk & k2 & E & Pk & F). cbv zeta in *. rewrite Ba, Bb in Pk. rewrite Ba, Bb in F.
  exists a, b, k2. split; [rewrite identical_dir_tail; exact E|]. split; [exact Pk|].
  apply (per_facts_of_core tol o1 o2 i _ k2 _ _ nb a b kk nk (l1_tol _ _ _ _ _ _ _ _ H) (l1_wf1 _ _ _ _ _ _ _ _ H) (l1_wf2 _ _ _ _ _ _ _ _ H)
           (l1_dir1 _ _ _ _ _ _ _ _ H) (l1_dir2 _ _ _ _ _ _ _ _ H)). exact F.
Qed.

Theorem identical_dir_lower1 tol (o1 o2 : obj R) i na nb Ta Tb a b : identical_lo1_hyps tol o1 o2 i na nb Ta Tb ->
  @identical_dir R NumR tol o1 o2 i = Ok (a, b) ->
  let b1 := nth i (o_bases o1) dflt_basis in let b2 := nth i (o_bases o2) dflt_basis in
  exists k2, lowered_window b1 na (b_per1 b2) k2 /\
    per_facts tol o1 o2 i (b_per1 b2) k2 (b_knots (rp_basis b2 0 1)) (na + (b_per1 b1 - b_per1 b2)) nb a b.
Proof.
  intros H Hid. cbv zeta. destruct (identical_dir_lower1_ok tol o1 o2 i na nb Ta Tb H) as (a' & b' & k2 & E & Pk & F).
  rewrite Hid in E. injection E as <- <-. exists k2. split; assumption.
Qed.

Theorem make_identical_lower2_ok tol (o1 o2 : obj R) i na nb Ta Tb : identical_lo2_hyps tol o1 o2 i na nb Ta Tb ->
  exists a b, @obj_make_identical R NumR tol o1 o2 (Some i) = Ok (a, b).
Proof.
  intros H. destruct (identical_dir_lower2_ok tol _ _ i na nb Ta Tb (lo2_hyps_compat tol o1 o2 i na nb Ta Tb H)) as (a & b & _ & E & _).
  exists a, b. unfold obj_make_identical. destruct (@obj_compatible R NumR o1 o2) as [a0 b0]. exact E.
Qed.
Theorem make_identical_lower1_ok tol (o1 o2 : obj R) i na nb Ta Tb : identical_lo1_hyps tol o1 o2 i na nb Ta Tb ->
  exists a b, @obj_make_identical R NumR tol o1 o2 (Some i) = Ok (a, b).
Proof.
  intros H. destruct (identical_dir_lower1_ok tol _ _ i na nb Ta Tb (lo1_hyps_compat tol o1 o2 i na nb Ta Tb H)) as (a & b & _ & E & _).
  exists a, b. unfold obj_make_identical. destruct (@obj_compatible R NumR o1 o2) as [a0 b0]. exact E.
Qed.

(* ---- non-vacuity, case (c): a C^1-periodic cubic (9 functions, period 8, seam knot double) and the C^2-periodic ex_curve ---- *)
Definition exr_knots : list R := [-2; -1; 0; 0; 1; 2; 3; 4; 5; 6; 7; 8; 8; 9; 10].
Definition exr_cps : list (list R) := [[1; 0]; [1; 1]; [0; 1]; [-1; 1]; [-1; 0]; [-1; -1]; [0; -1]; [1; -1]; [2; -1]].
Definition exr_curve : obj R := mkObj [mkBasis 4 exr_knots 2] exr_cps 2 false.

Example exr_canon : per_canon exr_knots 4 2 9 8.
Proof.
  unfold per_canon. split.
  { apply Proofs.RaiseNested.sorted_kn_lsorted. unfold exr_knots. repeat (constructor; try lra). }
  split; [lia|]. split; [lia|]. split; [reflexivity|]. split; [lia|]. split; [lra|]. split; [reflexivity|].
  intros i Hi. cbn [length exr_knots] in Hi.
  do 6 (destruct i as [|i]; [unfold kn, exr_knots; cbn; lra|]). lia.
Qed.

Example exr_wf : wf_obj_R exp_tol exr_curve.
Proof.
  split; [|split].
  - constructor; [|constructor]. split; [exact (proj1 exr_canon)|]. cbn [b_order b_knots].
    split; [lia|]. split; [cbn; lia|]. split; [unfold b_nfun; cbn; lia|].
    unfold b_start, b_end, kn, exr_knots, exp_tol. cbn. lra.
  - unfold exr_curve, exr_cps. cbn [o_cps]. repeat constructor.
  - reflexivity.
Qed.

Lemma exr_l : b_knots (rp_basis (mkBasis 4 exr_knots 2) 0 1)
  = [-2/8; -1/8; 0; 0; 1/8; 2/8; 3/8; 4/8; 5/8; 6/8; 7/8; 1; 1; 9/8; 10/8].
Proof.
  cbn [rp_basis b_knots]. unfold rp_map, rp_al, aff, b_start, b_end, exr_knots, kn. cbn [b_knots b_order length Nat.sub nth map].
  repeat (apply f_equal2; [field; lra|]). reflexivity.
Qed.

Lemma exr_grid v : In v (pvals (b_knots (rp_basis (mkBasis 4 exr_knots 2) 0 1)) 2 9 1) -> exists z : Z, v = IZR z * (1/16).
Proof.
  rewrite exr_l. revert v. apply (grid_pvals (1/16) 16); try lra.
  intros v Hv; cbn [pwin skipn firstn] in Hv; in_cases Hv; grid16.
Qed.

Theorem exc_hyps_lo2 : identical_lo2_hyps exp_tol exr_curve ex_curve 0 9 8 8 8.
Proof.
  constructor; cbn [ex_curve exr_curve o_bases nth length b_order b_per1].
  - unfold exp_tol; lra.
  - unfold exp_tol; lra.
  - exact exr_wf.
  - exact ex_wf.
  - lia.
  - lia.
  - reflexivity.
  - lia.
  - lia.
  - exact exr_canon.
  - exact ex_canon.
  - unfold per_strict, kn, exr_knots. cbn. lra.
  - unfold per_strict, kn, ex_knots. cbn. lra.
  - apply (separated_grid exp_tol (1/16)); [lra|unfold exp_tol; lra|].
    intros v Hv. apply in_app_or in Hv. destruct Hv as [Hv|Hv]; [apply exr_grid, Hv|apply exb_grid_per, Hv].
  - rewrite exr_l, exp_l1. unfold mult.
    transitivity 2%nat; [|symmetry]; repeat first [rewrite count_occ_cons_eq by lra | rewrite count_occ_cons_neq by lra]; reflexivity.
Qed.

Theorem exc_hyps_lo1 : identical_lo1_hyps exp_tol ex_curve exr_curve 0 8 9 8 8.
Proof.
  constructor; cbn [ex_curve exr_curve o_bases nth length b_order b_per1].
  - unfold exp_tol; lra.
  - unfold exp_tol; lra.
  - exact ex_wf.
  - exact exr_wf.
  - lia.
  - lia.
  - reflexivity.
  - lia.
  - lia.
  - exact ex_canon.
  - exact exr_canon.
  - unfold per_strict, kn, ex_knots. cbn. lra.
  - unfold per_strict, kn, exr_knots. cbn. lra.
  - apply (separated_grid exp_tol (1/16)); [lra|unfold exp_tol; lra|].
    intros v Hv. apply in_app_or in Hv. destruct Hv as [Hv|Hv]; [apply exb_grid_per, Hv|apply exr_grid, Hv].
  - rewrite exr_l, exp_l1. unfold mult.
    transitivity 2%nat; [|symmetry]; repeat first [rewrite count_occ_cons_eq by lra | rewrite count_occ_cons_neq by lra]; reflexivity.
Qed.

Corollary exc_ok_lo2 : exists a b, @identical_dir R NumR exp_tol exr_curve ex_curve 0 = Ok (a, b).
Proof. destruct (identical_dir_lower2_ok _ _ _ _ _ _ _ _ exc_hyps_lo2) as (a & b & _ & E & _). exists a, b. exact E. Qed.
Corollary exc_ok_lo1 : exists a b, @identical_dir R NumR exp_tol ex_curve exr_curve 0 = Ok (a, b).
Proof. destruct (identical_dir_lower1_ok _ _ _ _ _ _ _ _ exc_hyps_lo1) as (a & b & _ & E & _). exists a, b. exact E. Qed.


(* ================================================================================================ *)
Print Assumptions identical_dir_per_ok.
Print Assumptions identical_dir_per_knots.
Print Assumptions identical_dir_per_eval.
Print Assumptions identical_dir_per_eval2.
Print Assumptions make_identical_per_knots.
Print Assumptions make_identical_per_eval.
Print Assumptions make_identical_per_eval2.
Print Assumptions exp_hyps.
Print Assumptions identical_dir_open_per_ok.
Print Assumptions identical_dir_per_open_ok.
Print Assumptions exb_hyps_op.
Print Assumptions exb_hyps_po.
Print Assumptions identical_dir_lower2_ok.
Print Assumptions identical_dir_lower1_ok.
Print Assumptions exc_hyps_lo2.
Print Assumptions exc_hyps_lo1.
