(* C07: Curve.append re-joins consecutive pieces.  With the knot vector the model (and the code) builds --
   the first knot vector without its last knot, followed by the second one, shifted to start where the first ends,
   without its first p knots -- and the control net c1 ++ tl c2, the joined curve evaluates to the first curve left
   of the junction and to the (shifted) second curve right of it, provided the two share the junction control
   point.  Any order >= 2, any knot multiplicities, both one-sided variants. *)
From Coq Require Import List Arith Reals Lra Lia Bool ZArith.
From SplipyModel Require Import Spec.BSpline Spec.DegreeElev Spec.Reparam Spec.Join
  Model.Num Model.BasisDef Model.Append Proofs.KnotList Proofs.EvalConsequences Proofs.InsertMatrix.
Import ListNotations.
Open Scope R_scope.

Lemma sorted_kn_of_nth (L : list R) : (forall i j, (i <= j < length L)%nat -> nth i L 0 <= nth j L 0) -> sorted (@kn R NumR L).
Proof.
  intros H i j Hij. destruct L as [|a L0]; [unfold kn; cbn; destruct i, j; lra|]. set (L := a :: L0) in *.
  assert (Hne : L <> []) by discriminate.
  assert (Cl : forall m, @kn R NumR L m = nth (Nat.min m (length L - 1)) L 0).
  { intros m. destruct (Nat.lt_ge_cases m (length L)) as [M|M].
    - rewrite Nat.min_l by lia. apply kn_in. exact M.
    - rewrite Nat.min_r by lia. rewrite kn_out by exact M. symmetry. apply nth_last_len. exact Hne. }
  rewrite !Cl. apply H. assert (0 < length L)%nat by (unfold L; cbn; lia). lia.
Qed.
Lemma nth_of_sorted_kn (L : list R) : sorted (@kn R NumR L) -> forall i j, (i <= j < length L)%nat -> nth i L 0 <= nth j L 0.
Proof. intros H i j Hij. rewrite <- !(kn_in L) by lia. apply H. lia. Qed.

Section Append.
Variables k1 k2 : list R.
Variable p : nat.
Hypothesis Hp : (2 <= p)%nat.
Hypothesis S1 : sorted (@kn R NumR k1).
Hypothesis S2 : sorted (@kn R NumR k2).
Hypothesis L1 : (2 * p <= length k1)%nat.
Hypothesis L2 : (2 * p <= length k2)%nat.
Local Notation e1 := (last k1 0).
Local Notation s2 := (hd 0 k2).
Hypothesis Hend : forall i, (i < p)%nat -> nth (length k1 - 1 - i) k1 0 = e1.      (* first curve clamped at its end *)
Hypothesis Hstart : forall i, (i < p)%nat -> nth i k2 0 = s2.                       (* second curve clamped at its start *)

Local Notation shift := (fun x : R => x - s2 + e1).
Local Notation K := (@append_knots R NumR p k1 k2).
Local Notation q := (p - 1)%nat.
Local Notation n1 := (length k1 - p)%nat.
Local Notation n2 := (length k2 - p)%nat.
Local Notation J := (length k1 - p - 1)%nat.

Lemma removelast_length {A} (l : list A) : length (removelast l) = (length l - 1)%nat.
Proof. induction l as [|a l IH]; [reflexivity|]. destruct l; [reflexivity|]. cbn [removelast length] in *. lia. Qed.
Lemma nth_removelast {A} (l : list A) j d : (j < length l - 1)%nat -> nth j (removelast l) d = nth j l d.
Proof.
  revert j. induction l as [|a l IH]; intros j Hj; [cbn in Hj; lia|]. destruct l as [|b l]; [cbn in Hj; lia|].
  cbn [removelast]. destruct j; [reflexivity|]. cbn [nth]. apply IH. cbn [length] in *. lia.
Qed.

Lemma K_length : length K = (length k1 - 1 + (length k2 - p))%nat.
Proof. unfold append_knots. rewrite app_length, removelast_length, skipn_length, map_length. reflexivity. Qed.

Lemma K_low j : (j < length k1 - 1)%nat -> @kn R NumR K j = nth j k1 0.
Proof.
  intros Hj. assert (Hlt : (j < length K)%nat) by (rewrite K_length; lia). rewrite (kn_in K j Hlt 0). unfold append_knots.
  rewrite app_nth1 by (rewrite removelast_length; lia). apply nth_removelast. exact Hj.
Qed.
Lemma K_high m : (p <= m < length k2)%nat -> @kn R NumR K (length k1 - 1 + (m - p))%nat = shift (nth m k2 0).
Proof.
  intros Hm. assert (Hlt : (length k1 - 1 + (m - p) < length K)%nat) by (rewrite K_length; lia). rewrite (kn_in K _ Hlt 0). unfold append_knots.
  rewrite app_nth2 by (rewrite removelast_length; lia). rewrite removelast_length.
  replace (length k1 - 1 + (m - p) - (length k1 - 1))%nat with (m - p)%nat by lia.
  rewrite nth_skipn_add. replace (p + (m - p))%nat with m by lia.
  rewrite (nth_map_gen _ k2 m 0 0) by lia. cbn [nadd nsub NumR]. reflexivity.
Qed.
Lemma e1_nth : nth (length k1 - 1) k1 0 = e1.
Proof. apply nth_last_len. intros E. rewrite E in L1. cbn in L1. lia. Qed.
Lemma s2_nth : nth 0 k2 0 = s2.
Proof. destruct k2; reflexivity. Qed.

Lemma K_sorted : sorted (@kn R NumR K).
Proof.
  apply sorted_kn_of_nth. intros i j Hij. rewrite K_length in Hij.
  pose proof (nth_of_sorted_kn k1 S1) as M1. pose proof (nth_of_sorted_kn k2 S2) as M2.
  rewrite <- !(kn_in K) by (rewrite K_length; lia).
  destruct (Nat.lt_ge_cases j (length k1 - 1)) as [A|A].
  - rewrite !K_low by lia. apply M1. lia.
  - replace j with (length k1 - 1 + ((j - (length k1 - 1) + p) - p))%nat by lia. rewrite K_high by lia.
    pose proof (M2 0%nat (j - (length k1 - 1) + p)%nat ltac:(lia)) as Hs. rewrite s2_nth in Hs.
    destruct (Nat.lt_ge_cases i (length k1 - 1)) as [Bi|Bi].
    + rewrite K_low by lia. pose proof (M1 i (length k1 - 1)%nat ltac:(lia)) as Hi. rewrite e1_nth in Hi. lra.
    + replace i with (length k1 - 1 + ((i - (length k1 - 1) + p) - p))%nat by lia. rewrite K_high by lia.
      pose proof (M2 (i - (length k1 - 1) + p)%nat (j - (length k1 - 1) + p)%nat ltac:(lia)). lra.
Qed.

Lemma K_junction m : (1 <= m <= q)%nat -> @kn R NumR K (J + m)%nat = e1.
Proof. intros Hm. rewrite K_low by lia. replace (J + m)%nat with (length k1 - 1 - (p - m))%nat by lia. apply Hend. lia. Qed.

(* the joined control net *)
Variables c1 c2 : list R.
Hypothesis Hc1 : length c1 = n1.
Hypothesis Hc2 : length c2 = n2.
Hypothesis Hjunction : nth (n1 - 1) c1 0 = nth 0 c2 0.      (* the end of the first curve is the start of the second *)
Local Notation c := (c1 ++ tl c2).
Local Notation n := (n1 + n2 - 1)%nat.

Lemma c_low i : (i < n1)%nat -> nth i c 0 = nth i c1 0.
Proof. intros Hi. apply app_nth1. lia. Qed.
Lemma c_high m : (m < n2)%nat -> nth (J + m) c 0 = nth m c2 0.
Proof.
  intros Hm. destruct m as [|m].
  - rewrite Nat.add_0_r. rewrite app_nth1 by lia. replace J with (n1 - 1)%nat by lia. exact Hjunction.
  - rewrite app_nth2 by lia. rewrite Hc1. replace (J + S m - n1)%nat with m by lia.
    destruct c2 as [|x r]; [cbn in Hc2; lia|]. reflexivity.
Qed.

Theorem append_left side t : left_of side e1 t ->
  sumf (fun i => nth i c 0 * B side (@kn R NumR K) q i t) 0 n = sumf (fun i => nth i c1 0 * B side (@kn R NumR k1) q i t) 0 n1.
Proof.
  intros Hl.
  rewrite (join_left side (@kn R NumR K) K_sorted q J e1 ltac:(lia) K_junction (fun i => nth i c 0) n t ltac:(lia) Hl).
  replace (S J) with n1 by lia. apply sumf_ext. intros i Hi. rewrite c_low by lia. f_equal.
  apply B_ext. intros j Hj. unfold K1.
  destruct (Nat.leb_spec j (J + q)).
  - rewrite K_low by lia. symmetry. apply kn_in. lia.
  - assert (j = length k1 - 1)%nat by lia. subst j. assert (Hlt : (length k1 - 1 < length k1)%nat) by lia. rewrite (kn_in k1 (length k1 - 1) Hlt 0). symmetry. apply e1_nth.
Qed.

Theorem append_right side t : right_of side e1 t ->
  sumf (fun i => nth i c 0 * B side (@kn R NumR K) q i t) 0 n
  = sumf (fun m => nth m c2 0 * B side (@kn R NumR k2) q m (t - e1 + s2)) 0 n2.
Proof.
  intros Hr.
  rewrite (join_right side (@kn R NumR K) K_sorted q J e1 ltac:(lia) K_junction (fun i => nth i c 0) n t ltac:(lia) Hr).
  replace (n - J)%nat with n2 by lia. apply sumf_ext. intros m Hm. rewrite c_high by lia. f_equal.
  rewrite <- (reparam_basis side 1 (e1 - s2) (@kn R NumR k2) q ltac:(lra) m (t - e1 + s2)).
  replace (1 * (t - e1 + s2) + (e1 - s2)) with t by ring.
  apply B_ext. intros j Hj. unfold K2.
  rewrite (kn_in k2 j ltac:(lia) 0).
  destruct (Nat.eqb_spec j 0) as [->|Hne].
  - rewrite s2_nth. ring.
  - destruct (Nat.lt_ge_cases j p) as [A|A].
    + rewrite K_junction by lia. rewrite Hstart by lia. ring.
    + replace (J + j)%nat with (length k1 - 1 + (j - p))%nat by lia. rewrite K_high by lia. ring.
Qed.
End Append.
