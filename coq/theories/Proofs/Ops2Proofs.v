(* C10, the structural invariants over the extended operation language of Model/Ops2.v (instance R).

   inv o          shape part (|net| = product of the function counts, every control point has o_ncomp components, no empty
                  direction) and, for EVERY basis (periodic or not): 1 <= order, 2*order <= number of knots, the knot list is
                  sorted, start < end.   (The 2*tol domain-width clause of wf_obj_R is NOT part of it: reparam and split shrink
                  domains arbitrarily.)
   ghost_ok o     in every periodic direction the ghost knots are exact images of the interior knots, one period apart
                  (kn k (i + nfun) = kn k i + (end - start)).
   weights_pos o  a rational object has positive weights.

   Some operations keep the invariants only in states that satisfy a side condition; the side conditions are collected in
   [guard2 tol o a] (and [guardw2 o a], extra conditions for the weights) and the history theorems ask for them along the run
   ([guarded2], [guardedw2]).  "roomy b" means order + periodicity <= number of functions.
     OpOld (OpInsert d xs)   direction d is not periodic, OR it is periodic with exact ghost images and roomy
                                                   (weights: non-periodic direction, new knots strictly below the end)
     OpOld (other 8 ops)     none
     OpRaise am              0 <= tol; every raised direction is non-periodic with tol < end - start
                                                   (weights: only the trivial raise; interpolation at the Greville points
                                                    does not keep weights positive)
     OpSplitPick d ks idx    the hypotheses split_hyps of Proofs/SplitCompose.v (non-periodic direction, split values
                             2*tol apart from each other and from the domain ends, tol-separated from other knots)
     OpSection, OpRotate, OpMirror   none
     OpMakePeriodic cont d   order + cont <= number of functions in direction d
     OpLowerPeriodic t d     direction d has exact ghost images and is roomy            (weights: not carried)
     OpAppend o2             inv o2 and the raise condition for the operand of lower order   (weights: equal orders, o2 positive)
     OpMakeIdentical o2 dir  0 <= tol < 1, inv o2, no periodic direction in o or o2, same parametric dimension
                                                   (weights: not carried, the order may be raised)
     OpLowerOrder            NOT covered (guard False): lower_order builds its knot vector from tolerance-dependent continuity
                             counts, which give 2*order <= #knots and start < end only for clamped knot vectors whose knots
                             are tol-separated; that analysis was not done.
   A periodic direction that is not roomy, or whose ghost knots are not exact images, is excluded from knot insertion because
   the clauses of [inv] alone are not inductive there ([periodic_insert_counterexample]).  Splitting in a periodic direction
   is not covered either (split_hyps asks for a non-periodic direction).

   Main results: step2_preserves_inv, step2_preserves_ghost, step2_preserves_weights, reachable_inv, trace_inv,
   reachable_inv_ghost, reachable_weights; the purely syntactic corollaries reachable_inv_any (operations whose guard is
   trivial: everything of Model/Ops.v except insertion, section, rotate, mirror) and reachable_inv_covered (the same plus
   insertion, for objects without periodic directions); knots_ok_insert_per / basis_insert_knot_per_ok (periodic knot
   insertion with ghost-knot repair); accessor consistency (shape_accessor, cps_accessor, ravel_cons, flat_index_bijection,
   ravel_rev, c2f_entry); non-vacuity: witness_R, witness_R_periodic (R), ops2_example_Q (Q, twelve operations). *)
From Coq Require Import List Arith Reals Lra Lia Bool ZArith Permutation Sorted.
From SplipyModel Require Import Spec.BSpline Model.Num Model.BasisDef Model.BasisEval Model.Tensor Model.Obj Model.KnotInsert
  Model.Reparam Model.Affine Model.Tol Model.Solve Model.Interp Model.Order Model.Split Model.Section Model.Periodic Model.Identical
  Model.Append Model.WF Model.Ops Model.Ops2 Model.G2
  Proofs.KnotList Proofs.SpanCorrect Proofs.EvalConsequences Proofs.TensorLemmas Proofs.TensorApply Proofs.InsertMatrix
  Proofs.InsertObj Proofs.InsertEndToEnd Proofs.ObjEval Proofs.ReparamObj Proofs.ReparamEndToEnd Proofs.ReverseEndToEnd
  Proofs.AppendProofs Proofs.WFProofs Proofs.G2Proofs Proofs.SwapEndToEnd Proofs.OrderProofs Proofs.LinAlg Proofs.InterpProofs Proofs.SplitCompose.
Import ListNotations.
Open Scope R_scope.

(* ------------------------------------------------------------------------------------------------ *)
(* the invariant *)
Definition knots_ok (b : basis R) : Prop :=
  (1 <= b_order b)%nat /\ (2 * b_order b <= length (b_knots b))%nat /\ sorted (kn (b_knots b)) /\ b_start b < b_end b.

Definition inv (o : obj R) : Prop := shape_ok o /\ Forall knots_ok (o_bases o).

Definition weights_pos (o : obj R) : Prop :=
  o_rat o = true -> Forall (fun v => 0 < nth (o_dim o) v 0) (o_cps o).

(* periodic directions: the ghost knots are exact images of the interior knots, one period (= end - start) apart *)
Definition images_ok (b : basis R) : Prop :=
  b_per1 b <> 0%nat -> forall i, (i + b_nfun b < length (b_knots b))%nat ->
  kn (b_knots b) (i + b_nfun b) = kn (b_knots b) i + (b_end b - b_start b).
Definition ghost_ok (o : obj R) : Prop := Forall images_ok (o_bases o).

Lemma images_ok_nonper (b : basis R) : b_per1 b = 0%nat -> images_ok b.
Proof. intros H N. contradiction. Qed.

(* at least one function in every direction *)
Lemma inv_nfun_pos (o : obj R) : inv o -> Forall (fun b => (0 < b_nfun b)%nat) (o_bases o).
Proof.
  intros [(_ & _ & HP) _]. unfold o_shape in HP. fold (prodl (map (@b_nfun R) (o_bases o))) in HP.
  apply prodl_pos_iff in HP. rewrite Forall_map in HP. exact HP.
Qed.

Lemma knots_ne (b : basis R) : knots_ok b -> b_knots b <> [].
Proof. intros (A & B & _). destruct (b_knots b); [cbn in B; lia|discriminate]. Qed.

(* list-level sortedness *)
Definition lsortedn (L : list R) : Prop := forall i j, (i <= j < length L)%nat -> nth i L 0 <= nth j L 0.

Lemma nth_insert_at (k : list R) mu x j : (mu <= length k)%nat ->
  nth j (insert_at k mu x) 0 = if (j <? mu)%nat then nth j k 0 else if (j =? mu)%nat then x else nth (j - 1) k 0.
Proof.
  intros Hm. unfold insert_at. assert (Hl : length (firstn mu k) = mu) by (apply firstn_length_le; exact Hm).
  destruct (Nat.ltb_spec j mu) as [A|A].
  - rewrite app_nth1 by lia. apply nth_firstn_lt. exact A.
  - rewrite app_nth2 by lia. rewrite Hl. destruct (Nat.eqb_spec j mu) as [->|N].
    + rewrite Nat.sub_diag. reflexivity.
    + replace (j - mu)%nat with (S (j - mu - 1)) by lia. cbn [nth]. rewrite nth_skipn_add. f_equal. lia.
Qed.

Lemma insert_at_lsorted (k : list R) mu x : lsortedn k -> (mu <= length k)%nat ->
  (forall j, (j < mu)%nat -> nth j k 0 <= x) -> (forall j, (mu <= j < length k)%nat -> x <= nth j k 0) ->
  lsortedn (insert_at k mu x).
Proof.
  intros HS Hm Hlo Hhi i j Hij. rewrite insert_at_length in Hij. rewrite !nth_insert_at by exact Hm.
  destruct (Nat.ltb_spec i mu) as [A|A]; destruct (Nat.ltb_spec j mu) as [B|B]; try lia.
  - apply HS. lia.
  - destruct (Nat.eqb_spec j mu) as [->|N]; [apply Hlo; exact A|].
    pose proof (Hlo i A). pose proof (Hhi (j - 1)%nat ltac:(lia)). lra.
  - destruct (Nat.eqb_spec i mu) as [->|N]; destruct (Nat.eqb_spec j mu) as [E|N']; try lia; try lra.
    + apply Hhi. lia.
    + apply HS. lia.
Qed.

(* inserting a value at its bisect_right position keeps any sorted list sorted *)
Lemma insert_bisect_sorted (k : list R) x : sorted (kn k) -> sorted (kn (insert_at k (py_bisect_right k x) x)).
Proof.
  intros HK. unfold py_bisect_right. destruct (bisect_right_spec (kn k) HK x (length k)) as (A & B & C). cbv zeta in *.
  apply sorted_kn_of_nth. apply insert_at_lsorted.
  - intros i j Hij. apply nth_of_sorted_kn; assumption.
  - exact A.
  - intros j Hj. rewrite <- (kn_in k j) by lia. apply B. exact Hj.
  - intros j Hj. rewrite <- (kn_in k j) by lia. left. apply C. exact Hj.
Qed.

(* a non-periodic knot insertion: the new basis and the matrix *)
Lemma basis_insert_knot_nonper_knots (b b' : basis R) x C : b_per1 b = 0%nat ->
  basis_insert_knot b x = Ok (b', C) ->
  b_start b <= x <= b_end b /\ b' = mkBasis (b_order b) (insert_at (b_knots b) (py_bisect_right (b_knots b) x) x) 0 /\
  C = mat_of_writes (b_nfun b + 1) (b_nfun b) (insert_writes (b_knots b) (b_order b) (b_nfun b) (py_bisect_right (b_knots b) x) x).
Proof.
  intros Hper. unfold basis_insert_knot, wrap_knot. rewrite Hper. cbn [Nat.eqb negb]. cbn [nltb NumR].
  destruct (Rltb_spec x (b_start b)) as [A|A]; [discriminate|]. destruct (Rltb_spec (b_end b) x) as [A'|A']; [discriminate|].
  cbn [orb]. cbv zeta. destruct (negb _); [discriminate|]. intros [= <- <-]. split; [lra|split; reflexivity].
Qed.

Lemma knots_ok_insert (b b' : basis R) x C : knots_ok b -> b_per1 b = 0%nat ->
  basis_insert_knot b x = Ok (b', C) ->
  knots_ok b' /\ b_per1 b' = 0%nat /\ b_start b' = b_start b /\ b_end b <= b_end b' /\ b_order b' = b_order b /\
  (x < b_end b -> b_end b' = b_end b).
Proof.
  intros (Hp & Hlen & HK & Hse) Hper E. destruct (basis_insert_knot_nonper_knots b b' x C Hper E) as (Hx & -> & _).
  set (k := b_knots b) in *. set (p := b_order b) in *. set (mu := py_bisect_right k x).
  destruct (bisect_right_spec (kn k) HK x (length k)) as (A & B & Cc). cbv zeta in *. fold (py_bisect_right k x) in A, B, Cc. fold mu in A, B, Cc.
  assert (Hmu : (p <= mu)%nat).
  { destruct (Nat.le_gt_cases p mu) as [L|L]; [exact L|]. specialize (Cc (p - 1)%nat ltac:(lia)). unfold b_start in Hx. fold k p in Hx. lra. }
  assert (Hl : length (insert_at k mu x) = S (length k)) by apply insert_at_length.
  assert (Hs : b_start (mkBasis p (insert_at k mu x) 0) = b_start b).
  { unfold b_start. cbn [b_order b_knots]. fold k p. rewrite (kn_in (insert_at k mu x) (p - 1)%nat ltac:(lia) 0). rewrite nth_insert_at by exact A.
    destruct (Nat.ltb_spec (p - 1) mu); [|lia]. symmetry. apply kn_in. lia. }
  assert (He : b_end b <= b_end (mkBasis p (insert_at k mu x) 0)).
  { unfold b_end. cbn [b_order b_knots]. fold k p. rewrite Hl. rewrite (kn_in (insert_at k mu x) (S (length k) - p)%nat ltac:(lia) 0).
    rewrite nth_insert_at by exact A. destruct (Nat.ltb_spec (S (length k) - p) mu) as [L|L].
    - rewrite <- (kn_in k) by lia. apply HK. lia.
    - destruct (Nat.eqb_spec (S (length k) - p) mu) as [Em|Nm].
      + apply B. lia.
      + replace (S (length k) - p - 1)%nat with (length k - p)%nat by lia. rewrite <- (kn_in k) by lia. lra. }
  assert (He' : x < b_end b -> b_end (mkBasis p (insert_at k mu x) 0) = b_end b).
  { intros Hlt. unfold b_end. cbn [b_order b_knots]. fold k p. rewrite Hl. rewrite (kn_in (insert_at k mu x) (S (length k) - p)%nat ltac:(lia) 0).
    rewrite nth_insert_at by exact A.
    assert (Hm' : (mu <= length k - p)%nat).
    { destruct (Nat.le_gt_cases mu (length k - p)) as [L|L]; [exact L|]. specialize (B (length k - p)%nat L). unfold b_end in Hlt. fold k p in Hlt. lra. }
    destruct (Nat.ltb_spec (S (length k) - p) mu) as [L|L]; [lia|]. destruct (Nat.eqb_spec (S (length k) - p) mu) as [Em|Nm]; [lia|].
    replace (S (length k) - p - 1)%nat with (length k - p)%nat by lia. symmetry. apply kn_in. lia. }
  split; [|split; [reflexivity|split; [exact Hs|split; [exact He|split; [reflexivity|exact He']]]]].
  split; [exact Hp|]. split; [cbn [b_order b_knots]; fold p; lia|]. split; [apply insert_bisect_sorted; exact HK|].
  rewrite Hs. lra.
Qed.

(* ------------------------------------------------------------------------------------------------ *)
(* the bases after the nine operations of Model/Ops.v *)
Lemma Forall_nth_in {A} (P : A -> Prop) (l : list A) d dflt : Forall P l -> (d < length l)%nat -> P (nth d l dflt).
Proof. intros H Hd. rewrite Forall_forall in H. apply H. apply nth_In. exact Hd. Qed.

Lemma insert_knots_bases xs : forall (o o' : obj R) d, Forall knots_ok (o_bases o) -> (d < length (o_bases o))%nat ->
  b_per1 (nth d (o_bases o) dflt_basis) = 0%nat -> obj_insert_knots o d xs = Ok o' ->
  Forall knots_ok (o_bases o') /\ b_per1 (nth d (o_bases o') dflt_basis) = 0%nat /\
  b_start (nth d (o_bases o') dflt_basis) = b_start (nth d (o_bases o) dflt_basis) /\
  b_end (nth d (o_bases o) dflt_basis) <= b_end (nth d (o_bases o') dflt_basis) /\
  b_order (nth d (o_bases o') dflt_basis) = b_order (nth d (o_bases o) dflt_basis) /\
  (forall i, i <> d -> nth i (o_bases o') dflt_basis = nth i (o_bases o) dflt_basis) /\
  o_dim o' = o_dim o /\ o_rat o' = o_rat o.
Proof.
  induction xs as [|x xs IH]; intros o o' d HB Hd Hper; cbn [obj_insert_knots].
  - intros [= <-]. repeat split; auto. lra.
  - fold dflt_basis. destruct (basis_insert_knot (nth d (o_bases o) dflt_basis) x) as [[b' C]|e] eqn:E; [|discriminate].
    destruct (knots_ok_insert _ _ _ _ (Forall_nth_in _ _ d dflt_basis HB Hd) Hper E) as (K1 & K2 & K3 & K4 & K5 & _).
    intros Hrun. apply IH in Hrun; cbn [o_bases o_dim o_rat] in *.
    + rewrite InsertEndToEnd.upd_nth_same in Hrun by exact Hd.
      destruct Hrun as (R1 & R2 & R3 & R4 & R5 & R6 & R7 & R8). split; [exact R1|]. split; [exact R2|].
      split; [congruence|]. split; [lra|]. split; [congruence|]. split; [|split; assumption].
      intros i Hi. rewrite R6 by exact Hi. apply upd_nth_other. exact Hi.
    + apply Forall_upd; assumption.
    + rewrite upd_length. exact Hd.
    + rewrite InsertEndToEnd.upd_nth_same by exact Hd. exact K2.
Qed.

(* ------------------------------------------------------------------------------------------------ *)
(* knot insertion into a PERIODIC basis: wrap, insert at the bisect position, ghost-knot repair *)
(* a loop that copies a block of a list to a disjoint block through a function *)
Lemma fold_copy (g : R -> R) (l : list R) a b : forall c, (a + c <= length l)%nat -> (b + c <= length l)%nat -> (a + c <= b \/ b + c <= a)%nat ->
  let res := fold_left (fun kk i => upd kk (a + i) (g (kn kk (b + i)))) (seq 0 c) l in
  length res = length l /\
  forall j, (j < length l)%nat -> nth j res 0 = if (a <=? j)%nat && (j <? a + c)%nat then g (nth (b + (j - a)) l 0) else nth j l 0.
Proof.
  induction c as [|c IH]; intros Ha Hb Hd; cbv zeta.
  - cbn [seq fold_left]. split; [reflexivity|]. intros j Hj. destruct (Nat.leb_spec a j); destruct (Nat.ltb_spec j (a + 0)); cbn [andb]; try reflexivity; lia.
  - rewrite seq_S, fold_left_app. cbn [fold_left Nat.add]. destruct (IH ltac:(lia) ltac:(lia) ltac:(lia)) as [L N]. cbv zeta in L, N.
    set (res := fold_left (fun kk i => upd kk (a + i) (g (kn kk (b + i)))) (seq 0 c) l) in *.
    split; [rewrite upd_length; exact L|]. intros j Hj.
    assert (Er : kn res (b + c) = nth (b + c) l 0).
    { rewrite (kn_in res (b + c)%nat ltac:(lia) 0). rewrite N by lia.
      destruct (Nat.leb_spec a (b + c)); destruct (Nat.ltb_spec (b + c) (a + c)); cbn [andb]; try reflexivity; lia. }
    destruct (Nat.eq_dec j (a + c)) as [->|Ne].
    + rewrite InsertEndToEnd.upd_nth_same by lia. rewrite Er. destruct (Nat.leb_spec a (a + c)); [|lia]. destruct (Nat.ltb_spec (a + c) (a + S c)); [|lia]. cbn [andb].
      f_equal. f_equal. lia.
    + rewrite upd_nth_other by exact Ne. rewrite N by exact Hj.
      destruct (Nat.leb_spec a j); destruct (Nat.ltb_spec j (a + c)); destruct (Nat.ltb_spec j (a + S c)); cbn [andb]; try reflexivity; lia.
Qed.

Section PerInsert.
Variable b : basis R.
Hypothesis Hb : knots_ok b.
Hypothesis Him : images_ok b.
Hypothesis Hper : b_per1 b <> 0%nat.
Hypothesis Hroom : (b_order b + b_per1 b - 1 <= b_nfun b)%nat.
Local Notation p := (b_order b).
Local Notation k := (b_knots b).
Local Notation r := (b_per1 b - 1)%nat.
Local Notation nf := (b_nfun b).
Local Notation s := (b_start b).
Local Notation e := (b_end b).
Local Notation T := (b_end b - b_start b).
Variable x : R.
Hypothesis Hx : s <= x < e.
Local Notation mu := (py_bisect_right k x).
Local Notation k' := (insert_at k mu x).
Local Notation m := (length k').

Definition per_kfin : list R :=
  if (mu <=? p + r)%nat then repair_right k' m p r
  else if (m - p - r - 1 <=? mu)%nat then repair_left k' m p r else k'.

Lemma pi_len : length k = (nf + p + r + 1)%nat.
Proof. destruct Hb as (Hp & _). unfold b_nfun in *. lia. Qed.

Lemma pi_m : m = S (length k).
Proof. apply insert_at_length. Qed.

Lemma pi_img i : (i <= p + r)%nat -> kn k (i + nf) = kn k i + T.
Proof. intros Hi. apply (Him Hper). rewrite pi_len. lia. Qed.

Lemma pi_mu : (p <= mu <= length k - p)%nat /\ (forall j, (j < mu)%nat -> kn k j <= x) /\ (forall j, (mu <= j < length k)%nat -> x < kn k j).
Proof.
  destruct Hb as (Hp & Hlen & HK & Hse). unfold py_bisect_right.
  destruct (bisect_right_spec (kn k) HK x (length k)) as (A & B & C). cbv zeta in *. split; [|split; assumption]. split.
  - destruct (Nat.le_gt_cases p (bisect_right (kn k) x (length k))) as [L|L]; [exact L|]. specialize (C (p - 1)%nat ltac:(lia)). unfold b_start in Hx. lra.
  - destruct (Nat.le_gt_cases (bisect_right (kn k) x (length k)) (length k - p)) as [L|L]; [exact L|]. specialize (B (length k - p)%nat L). unfold b_end in Hx. lra.
Qed.

Lemma pi_nth' j : nth j k' 0 = if (j <? mu)%nat then nth j k 0 else if (j =? mu)%nat then x else nth (j - 1) k 0.
Proof. apply nth_insert_at. destruct pi_mu as ((_ & A) & _). lia. Qed.

Lemma pi_sorted' : lsortedn k'.
Proof.
  destruct Hb as (Hp & Hlen & HK & Hse). destruct pi_mu as ((A1 & A2) & B & C). apply insert_at_lsorted.
  - intros i j Hij. apply nth_of_sorted_kn; assumption.
  - lia.
  - intros j Hj. rewrite <- (kn_in k j) by lia. apply B. exact Hj.
  - intros j Hj. rewrite <- (kn_in k j) by lia. left. apply C. exact Hj.
Qed.

(* the knot r+1 equals the start: the image of index r+1 is the end *)
Lemma pi_kr1 : kn k (r + 1) = s.
Proof.
  pose proof (pi_img (r + 1)%nat ltac:(destruct Hb; lia)) as H. pose proof pi_len as HL.
  replace (r + 1 + nf)%nat with (length k - p)%nat in H by lia. unfold b_end in *. lra.
Qed.

Lemma pi_mu_r : (r + 2 <= mu)%nat.
Proof.
  destruct pi_mu as (_ & _ & C). destruct (Nat.le_gt_cases (r + 2) mu) as [L|L]; [exact L|].
  pose proof pi_len. destruct Hb as (Hp & _). specialize (C (r + 1)%nat ltac:(lia)). rewrite pi_kr1 in C. lra.
Qed.

Lemma pi_result : length per_kfin = S (length k) /\ lsortedn per_kfin /\ nth (p - 1) per_kfin 0 = s /\
  nth (S (length k) - p) per_kfin 0 = e /\ (forall i, (i <= p + r)%nat -> nth (i + nf + 1) per_kfin 0 = nth i per_kfin 0 + T) /\
  (x = s -> nth p per_kfin 0 = s).
Proof.
  pose proof Hb as (Hp & Hlen & HK & Hse). pose proof pi_len as HL. pose proof pi_m as Hm. destruct pi_mu as ((M1 & M2) & MB & MC).
  pose proof pi_mu_r as M3. pose proof pi_sorted' as SK. pose proof (nth_of_sorted_kn k HK) as NK.
  assert (KN : forall j, (j < length k)%nat -> kn k j = nth j k 0) by (intros j Hj; apply kn_in; exact Hj).
  assert (KP : x = s -> (p < mu)%nat -> nth p k 0 = s).
  { intros Ex Hpm. pose proof (MB p Hpm) as Q1. pose proof (HK (p - 1)%nat p ltac:(lia)) as Q2. rewrite <- KN by lia. unfold b_start in *. lra. }
  unfold per_kfin. rewrite Hm. replace (S (length k) - p - r - 1)%nat with (nf + 1)%nat by lia.
  destruct (Nat.leb_spec mu (p + r)) as [CB|CB].
  - (* repair_right *)
    unfold repair_right. cbv zeta. replace (S (length k) - p - r - 1)%nat with (nf + 1)%nat by lia.
    set (k0 := kn k' 0). set (k1 := kn k' (nf + 1)).
    destruct (fold_copy (fun v => nadd k1 (nsub v k0)) k' (nf + 1) 0 (p + r + 1)) as [FL FN]; [rewrite Hm; lia|rewrite Hm; lia|lia|]. cbv zeta in FL, FN.
    cbn [Nat.add] in FL, FN.
    assert (E0 : k0 = nth 0 k 0) by (unfold k0; rewrite (kn_in k' 0%nat ltac:(lia) 0), pi_nth'; destruct (Nat.ltb_spec 0 mu); [reflexivity|lia]).
    assert (E1 : k1 = nth 0 k 0 + T).
    { unfold k1. rewrite (kn_in k' (nf + 1)%nat ltac:(lia) 0), pi_nth'. destruct (Nat.ltb_spec (nf + 1) mu); [lia|]. destruct (Nat.eqb_spec (nf + 1) mu); [lia|].
      replace (nf + 1 - 1)%nat with (0 + nf)%nat by lia. rewrite <- KN by lia. rewrite pi_img by lia. rewrite KN by lia. reflexivity. }
    assert (FN' : forall j, (j < S (length k))%nat -> nth j (fold_left (fun kk i => upd kk (nf + 1 + i) (nadd k1 (nsub (kn kk i) k0))) (seq 0 (p + r + 1)) k') 0 =
                   if (nf + 1 <=? j)%nat then nth (j - (nf + 1)) k' 0 + T else nth j k' 0).
    { intros j Hj. rewrite FN by lia. destruct (Nat.leb_spec (nf + 1) j); destruct (Nat.ltb_spec j (nf + 1 + (p + r + 1))); cbn [andb]; try lia; [|reflexivity].
      cbn [nadd nsub NumR]. rewrite E0, E1. ring. }
    clear FN. set (res := fold_left _ _ k') in *.
    split; [rewrite FL; exact Hm|]. split; [|split; [|split; [|split]]].
    5:{ intros Ex. rewrite FN' by lia. destruct (Nat.leb_spec (nf + 1) p); [lia|]. rewrite pi_nth'. destruct (Nat.ltb_spec p mu); [apply KP; assumption|].
        destruct (Nat.eqb_spec p mu); [exact Ex|lia]. }
    + intros i j Hij. rewrite FL, Hm in Hij. rewrite !FN' by lia.
      destruct (Nat.leb_spec (nf + 1) i); destruct (Nat.leb_spec (nf + 1) j); try lia.
      * pose proof (SK (i - (nf + 1))%nat (j - (nf + 1))%nat ltac:(lia)). lra.
      * pose proof (SK i (nf + 1)%nat ltac:(lia)) as S1. pose proof (SK 0%nat (j - (nf + 1))%nat ltac:(lia)) as S2.
        assert (E2 : nth (nf + 1) k' 0 = nth 0 k' 0 + T).
        { rewrite <- (kn_in k' (nf + 1)%nat) by lia. fold k1. rewrite E1. rewrite <- (kn_in k' 0%nat) by lia. fold k0. rewrite E0. reflexivity. }
        lra.
      * apply SK. lia.
    + rewrite FN' by lia. destruct (Nat.leb_spec (nf + 1) (p - 1)); [lia|]. rewrite pi_nth'. destruct (Nat.ltb_spec (p - 1) mu); [|lia].
      symmetry. apply KN. lia.
    + rewrite FN' by lia. destruct (Nat.leb_spec (nf + 1) (S (length k) - p)); [|lia]. replace (S (length k) - p - (nf + 1))%nat with (r + 1)%nat by lia.
      rewrite pi_nth'. destruct (Nat.ltb_spec (r + 1) mu); [|lia]. rewrite <- KN by lia. rewrite pi_kr1. ring.
    + intros i Hi. rewrite !FN' by lia. destruct (Nat.leb_spec (nf + 1) (i + nf + 1)); [|lia]. destruct (Nat.leb_spec (nf + 1) i); [lia|].
      replace (i + nf + 1 - (nf + 1))%nat with i by lia. reflexivity.
  - destruct (Nat.leb_spec (nf + 1) mu) as [CC|CC].
    + (* repair_left *)
      unfold repair_left. cbv zeta. replace (S (length k) - p - r - 1)%nat with (nf + 1)%nat by lia. replace (S (length k) - 1)%nat with (length k) by lia.
      set (k0 := kn k' (p + r)). set (k1 := kn k' (length k)).
      destruct (fold_copy (fun v => nsub k0 (nsub k1 v)) k' 0 (nf + 1) (p + r + 1)) as [FL FN]; [rewrite Hm; lia|rewrite Hm; lia|lia|]. cbv zeta in FL, FN.
      cbn [Nat.add] in FL, FN.
      assert (E0 : k0 = nth (p + r) k 0) by (unfold k0; rewrite (kn_in k' (p + r)%nat ltac:(lia) 0), pi_nth'; destruct (Nat.ltb_spec (p + r) mu); [reflexivity|lia]).
      assert (E1 : k1 = nth (p + r) k 0 + T).
      { unfold k1. rewrite (kn_in k' (length k) ltac:(lia) 0), pi_nth'. destruct (Nat.ltb_spec (length k) mu); [lia|]. destruct (Nat.eqb_spec (length k) mu); [lia|].
        replace (length k - 1)%nat with (p + r + nf)%nat by lia. rewrite <- KN by lia. rewrite pi_img by lia. rewrite KN by lia. reflexivity. }
      assert (FN' : forall j, (j < S (length k))%nat -> nth j (fold_left (fun kk i => upd kk i (nsub k0 (nsub k1 (kn kk (nf + 1 + i))))) (seq 0 (p + r + 1)) k') 0 =
                     if (j <? p + r + 1)%nat then nth (nf + 1 + j) k' 0 - T else nth j k' 0).
      { intros j Hj. rewrite FN by lia. destruct (Nat.ltb_spec j (p + r + 1)); cbn [Nat.leb andb]; [|reflexivity].
        cbn [nsub NumR]. rewrite E0, E1, Nat.sub_0_r. ring. }
      clear FN. set (res := fold_left _ _ k') in *.
      assert (Hnp : (mu < nf + p)%nat).
      { destruct (Nat.lt_ge_cases mu (nf + p)) as [L|L]; [exact L|exfalso]. pose proof (MB (nf + p - 1)%nat ltac:(lia)) as Q.
        replace (nf + p - 1)%nat with (p - 1 + nf)%nat in Q by lia. rewrite pi_img in Q by lia. unfold b_start in Hx. unfold b_start, b_end in Q. unfold b_end in Hx. lra. }
      split; [rewrite FL; exact Hm|]. split; [|split; [|split; [|split]]].
      5:{ intros Ex. rewrite FN' by lia. destruct (Nat.ltb_spec p (p + r + 1)); [|lia]. rewrite pi_nth'. destruct (Nat.ltb_spec (nf + 1 + p) mu); [lia|].
          destruct (Nat.eqb_spec (nf + 1 + p) mu); [lia|]. replace (nf + 1 + p - 1)%nat with (p + nf)%nat by lia. rewrite <- KN by lia. rewrite pi_img by lia.
          rewrite KN by lia. rewrite KP by (try assumption; lia). ring. }
      * intros i j Hij. rewrite FL, Hm in Hij. rewrite !FN' by lia.
        destruct (Nat.ltb_spec i (p + r + 1)); destruct (Nat.ltb_spec j (p + r + 1)); try lia.
        -- pose proof (SK (nf + 1 + i)%nat (nf + 1 + j)%nat ltac:(lia)). lra.
        -- pose proof (SK (nf + 1 + i)%nat (length k) ltac:(lia)) as S1. pose proof (SK (p + r)%nat j ltac:(lia)) as S2.
           assert (E2 : nth (length k) k' 0 = nth (p + r) k' 0 + T).
           { rewrite <- (kn_in k' (length k)) by lia. fold k1. rewrite E1. rewrite <- (kn_in k' (p + r)%nat) by lia. fold k0. rewrite E0. reflexivity. }
           lra.
        -- apply SK. lia.
      * rewrite FN' by lia. destruct (Nat.ltb_spec (p - 1) (p + r + 1)); [|lia]. rewrite pi_nth'. destruct (Nat.ltb_spec (nf + 1 + (p - 1)) mu); [lia|].
        destruct (Nat.eqb_spec (nf + 1 + (p - 1)) mu); [lia|]. replace (nf + 1 + (p - 1) - 1)%nat with (p - 1 + nf)%nat by lia.
        rewrite <- KN by lia. rewrite pi_img by lia. unfold b_start. ring.
      * rewrite FN' by lia. destruct (Nat.ltb_spec (S (length k) - p) (p + r + 1)); [lia|]. rewrite pi_nth'.
        destruct (Nat.ltb_spec (S (length k) - p) mu); [lia|]. destruct (Nat.eqb_spec (S (length k) - p) mu); [lia|].
        replace (S (length k) - p - 1)%nat with (length k - p)%nat by lia. rewrite <- KN by lia. reflexivity.
      * intros i Hi. rewrite !FN' by lia. destruct (Nat.ltb_spec (i + nf + 1) (p + r + 1)); [lia|]. destruct (Nat.ltb_spec i (p + r + 1)); [|lia].
        replace (nf + 1 + i)%nat with (i + nf + 1)%nat by lia. ring.
    + (* no repair *)
      split; [exact Hm|]. split; [exact SK|]. split; [|split; [|split]].
      4:{ intros Ex. rewrite pi_nth'. destruct (Nat.ltb_spec p mu); [apply KP; assumption|lia]. }
      * rewrite pi_nth'. destruct (Nat.ltb_spec (p - 1) mu); [|lia]. symmetry. apply KN. lia.
      * rewrite pi_nth'. destruct (Nat.ltb_spec (S (length k) - p) mu); [lia|]. destruct (Nat.eqb_spec (S (length k) - p) mu); [lia|].
        replace (S (length k) - p - 1)%nat with (length k - p)%nat by lia. rewrite <- KN by lia. reflexivity.
      * intros i Hi. rewrite !pi_nth'. destruct (Nat.ltb_spec (i + nf + 1) mu); [lia|]. destruct (Nat.eqb_spec (i + nf + 1) mu); [lia|].
        destruct (Nat.ltb_spec i mu); [|lia]. replace (i + nf + 1 - 1)%nat with (i + nf)%nat by lia. rewrite <- !KN by lia. apply pi_img. exact Hi.
Qed.
End PerInsert.

Definition roomy (b : basis R) : Prop := (b_order b + b_per1 b - 1 <= b_nfun b)%nat.

(* knot insertion into a periodic basis with exact ghost images and at least order + periodicity functions *)
Lemma knots_ok_insert_per (b b' : basis R) x0 C : knots_ok b -> images_ok b -> b_per1 b <> 0%nat -> roomy b ->
  basis_insert_knot b x0 = Ok (b', C) ->
  knots_ok b' /\ images_ok b' /\ roomy b' /\ b_per1 b' = b_per1 b /\ b_order b' = b_order b /\ b_nfun b' = S (b_nfun b) /\
  b_start b' = b_start b /\ b_end b' = b_end b /\ length (b_knots b') = S (length (b_knots b)) /\
  (x0 = b_start b -> kn (b_knots b') (b_order b) = b_start b).
Proof.
  intros Hb Him Hper Hroom. pose proof Hb as (Hp & Hlen & HK & Hse). unfold basis_insert_knot, wrap_knot.
  destruct (Nat.eqb_spec (b_per1 b) 0) as [E0|_]; [contradiction|]. cbn [negb]. cbv zeta.
  set (x := if nltb x0 (b_start b) || nleb (b_end b) x0 then nadd (nfmod (nsub x0 (b_start b)) (nsub (b_end b) (b_start b))) (b_start b) else x0).
  assert (Hx : b_start b <= x < b_end b).
  { assert (HT : 0 < b_end b - b_start b) by lra. pose proof (nfmod_range (x0 - b_start b) (b_end b - b_start b) HT) as NR.
    unfold x. cbn [nltb nleb nadd nsub NumR]. destruct (Rltb_spec x0 (b_start b)) as [A|A]; cbn [orb]; [lra|].
    destruct (Rleb_spec (b_end b) x0) as [A'|A']; lra. }
  destruct (negb _); [discriminate|]. intros [= <- _].
  change (mkBasis (b_order b) _ (b_per1 b)) with (mkBasis (b_order b) (per_kfin b x) (b_per1 b)).
  assert (Hxs : x0 = b_start b -> x = b_start b).
  { intros ->. unfold x. cbn [nltb nleb NumR]. destruct (Rltb_spec (b_start b) (b_start b)); [lra|]. destruct (Rleb_spec (b_end b) (b_start b)); [lra|reflexivity]. }
  destruct (pi_result b Hb Him Hper Hroom x Hx) as (RL & RS & Rs & Re & Ri & Rp).
  assert (HL : length (b_knots b) = (b_nfun b + b_order b + (b_per1 b - 1) + 1)%nat) by (unfold roomy, b_nfun in *; lia).
  assert (Hs' : b_start (mkBasis (b_order b) (per_kfin b x) (b_per1 b)) = b_start b).
  { unfold b_start at 1. cbn [b_order b_knots]. rewrite (kn_in (per_kfin b x) (b_order b - 1)%nat ltac:(lia) 0). exact Rs. }
  assert (He' : b_end (mkBasis (b_order b) (per_kfin b x) (b_per1 b)) = b_end b).
  { unfold b_end at 1. cbn [b_order b_knots]. rewrite RL. rewrite (kn_in (per_kfin b x) (S (length (b_knots b)) - b_order b)%nat ltac:(lia) 0). exact Re. }
  assert (Hn' : b_nfun (mkBasis (b_order b) (per_kfin b x) (b_per1 b)) = S (b_nfun b)).
  { unfold b_nfun. cbn [b_order b_knots b_per1]. rewrite RL. unfold roomy, b_nfun in Hroom. lia. }
  split; [|split; [|split; [|split; [reflexivity|split; [reflexivity|split; [exact Hn'|split; [exact Hs'|split; [exact He'|split; [exact RL|]]]]]]]]].
  4:{ intros E0. cbn [b_knots]. rewrite (kn_in (per_kfin b x) (b_order b) ltac:(lia) 0). apply Rp. apply Hxs. exact E0. }
  - split; [exact Hp|]. split; [cbn [b_order b_knots]; rewrite RL; lia|]. split; [apply sorted_kn_of_nth; exact RS|rewrite Hs', He'; exact Hse].
  - intros _ i Hi. rewrite Hs', He', Hn' in *. cbn [b_knots] in *. rewrite RL in Hi.
    rewrite (kn_in (per_kfin b x) (i + S (b_nfun b))%nat ltac:(lia) 0), (kn_in (per_kfin b x) i ltac:(lia) 0).
    replace (i + S (b_nfun b))%nat with (i + b_nfun b + 1)%nat by lia. apply Ri. lia.
  - unfold roomy in *. rewrite Hn'. cbn [b_order b_per1]. lia.
Qed.

Lemma insert_knots_bases_per xs : forall (o o' : obj R) d, Forall knots_ok (o_bases o) -> (d < length (o_bases o))%nat ->
  b_per1 (nth d (o_bases o) dflt_basis) <> 0%nat -> images_ok (nth d (o_bases o) dflt_basis) -> roomy (nth d (o_bases o) dflt_basis) ->
  obj_insert_knots o d xs = Ok o' ->
  Forall knots_ok (o_bases o') /\ images_ok (nth d (o_bases o') dflt_basis) /\ roomy (nth d (o_bases o') dflt_basis) /\
  b_per1 (nth d (o_bases o') dflt_basis) = b_per1 (nth d (o_bases o) dflt_basis) /\
  (forall i, i <> d -> nth i (o_bases o') dflt_basis = nth i (o_bases o) dflt_basis).
Proof.
  induction xs as [|x xs IH]; intros o o' d HB Hd Hper Him Hroom; cbn [obj_insert_knots].
  - intros [= <-]. repeat split; auto.
  - fold dflt_basis. destruct (basis_insert_knot (nth d (o_bases o) dflt_basis) x) as [[b' C]|e] eqn:E; [|discriminate].
    destruct (knots_ok_insert_per _ _ _ _ (Forall_nth_in _ _ d dflt_basis HB Hd) Him Hper Hroom E) as (K1 & K2 & K3 & K4 & _).
    intros Hrun. apply IH in Hrun; cbn [o_bases] in *.
    + rewrite InsertEndToEnd.upd_nth_same in Hrun by exact Hd. destruct Hrun as (R1 & R2 & R3 & R4 & R5).
      split; [exact R1|]. split; [exact R2|]. split; [exact R3|]. split; [congruence|].
      intros i Hi. rewrite R5 by exact Hi. apply upd_nth_other. exact Hi.
    + apply Forall_upd; assumption.
    + rewrite upd_length. exact Hd.
    + rewrite InsertEndToEnd.upd_nth_same by exact Hd. congruence.
    + rewrite InsertEndToEnd.upd_nth_same by exact Hd. exact K2.
    + rewrite InsertEndToEnd.upd_nth_same by exact Hd. exact K3.
Qed.

(* a periodic insertion never fails: the index accesses of the second loop stay inside the knot vector *)
Lemma basis_insert_knot_per_ok (b : basis R) x0 : knots_ok b -> b_per1 b <> 0%nat -> exists b' C, basis_insert_knot b x0 = Ok (b', C).
Proof.
  intros Hb Hper. pose proof Hb as (Hp & Hlen & HK & Hse). unfold basis_insert_knot, wrap_knot.
  destruct (Nat.eqb_spec (b_per1 b) 0) as [E0|_]; [contradiction|]. cbn [negb]. cbv zeta.
  set (x := if nltb x0 (b_start b) || nleb (b_end b) x0 then nadd (nfmod (nsub x0 (b_start b)) (nsub (b_end b) (b_start b))) (b_start b) else x0).
  assert (Hx : b_start b <= x < b_end b).
  { assert (HT : 0 < b_end b - b_start b) by lra. pose proof (nfmod_range (x0 - b_start b) (b_end b - b_start b) HT) as NR.
    unfold x. cbn [nltb nleb nadd nsub NumR]. destruct (Rltb_spec x0 (b_start b)) as [A|A]; cbn [orb]; [lra|].
    destruct (Rleb_spec (b_end b) x0) as [A'|A']; lra. }
  clearbody x. set (mu := py_bisect_right (b_knots b) x).
  assert (Hmu : (b_order b <= mu <= length (b_knots b) - b_order b)%nat).
  { unfold mu, py_bisect_right. destruct (bisect_right_spec (kn (b_knots b)) HK x (length (b_knots b))) as (A & B & C). cbv zeta in *. split.
    - destruct (Nat.le_gt_cases (b_order b) (bisect_right (kn (b_knots b)) x (length (b_knots b)))) as [L|L]; [exact L|].
      specialize (C (b_order b - 1)%nat ltac:(lia)). unfold b_start in Hx. lra.
    - destruct (Nat.le_gt_cases (bisect_right (kn (b_knots b)) x (length (b_knots b))) (length (b_knots b) - b_order b)) as [L|L]; [exact L|].
      specialize (B (length (b_knots b) - b_order b)%nat L). unfold b_end in Hx. lra. }
  match goal with |- context [forallb ?f ?l] => assert (EF : forallb f l = true) end.
  { apply forallb_forall. intros i Hi. apply in_seq in Hi. repeat (apply andb_true_iff; split).
    - apply Nat.ltb_lt. lia.
    - destruct (nleb _ _); [apply Nat.ltb_lt; lia|reflexivity].
    - destruct (nleb _ _); [apply Nat.ltb_lt; lia|reflexivity].
    - destruct (_ && _); [reflexivity|apply Nat.ltb_lt; lia]. }
  rewrite EF. cbn [negb]. eexists. eexists. reflexivity.
Qed.

Lemma knots_ok_reverse (b : basis R) : knots_ok b ->
  knots_ok (basis_reverse b) /\ b_start (basis_reverse b) = b_start b /\ b_end (basis_reverse b) = b_end b /\
  b_per1 (basis_reverse b) = b_per1 b /\ b_nfun (basis_reverse b) = b_nfun b.
Proof.
  intros Hb. pose proof (knots_ne b Hb) as Hne. destruct Hb as (Hp & Hlen & HK & Hse).
  rewrite (basis_reverse_eq b Hse).
  set (a := b_start b) in *. set (e := b_end b) in *. set (k := b_knots b) in *. set (p := b_order b) in *.
  assert (Hs : b_start (mkBasis p (rknots a e k) (b_per1 b)) = a).
  { unfold b_start at 1. cbn [b_order b_knots]. rewrite rknots_kn by exact Hne.
    replace (length k - 1 - (p - 1))%nat with (length k - p)%nat by lia. change (kn k (length k - p)%nat) with e. ring. }
  assert (He : b_end (mkBasis p (rknots a e k) (b_per1 b)) = e).
  { unfold b_end at 1. cbn [b_order b_knots]. rewrite rknots_length, rknots_kn by exact Hne.
    replace (length k - 1 - (length k - p))%nat with (p - 1)%nat by lia. change (kn k (p - 1)%nat) with a. ring. }
  split; [|split; [exact Hs|split; [exact He|split; [reflexivity|]]]].
  - split; [exact Hp|]. split; [cbn [b_order b_knots]; rewrite rknots_length; exact Hlen|]. split; [|rewrite Hs, He; exact Hse].
    cbn [b_knots]. intros i j Hij. rewrite !rknots_kn by exact Hne. pose proof (HK (length k - 1 - j)%nat (length k - 1 - i)%nat ltac:(lia)). lra.
  - unfold b_nfun. cbn [b_order b_knots b_per1]. rewrite rknots_length. reflexivity.
Qed.

Lemma knots_ok_reparam (b b' : basis R) s e : knots_ok b -> basis_reparam b s e = Ok b' ->
  knots_ok b' /\ b_start b' = s /\ b_end b' = e /\ b_per1 b' = b_per1 b /\ b_order b' = b_order b /\
  length (b_knots b') = length (b_knots b).
Proof.
  intros Hb E. pose proof (knots_ne b Hb) as Hne. destruct Hb as (Hp & Hlen & HK & Hse).
  assert (Hlt : s < e).
  { unfold basis_reparam in E. cbn [nleb NumR] in E. destruct (Rleb_spec e s); [discriminate|lra]. }
  rewrite (basis_reparam_ok b Hne Hse s e Hlt) in E. injection E as <-.
  pose proof (rp_start b Hne s e) as Hs. pose proof (rp_end b Hne Hse s e) as He.
  split; [|split; [exact Hs|split; [exact He|split; [reflexivity|split; [reflexivity|cbn [rp_basis b_knots]; apply map_length]]]]].
  split; [exact Hp|]. split; [cbn [rp_basis b_order b_knots]; rewrite map_length; exact Hlen|]. split; [|rewrite Hs, He; exact Hlt].
  cbn [rp_basis b_knots]. unfold rp_map. apply sorted_aff; [apply rp_al_pos; assumption|exact Hne|exact HK].
Qed.

(* the guard of the old operations: knot insertion wants a non-periodic direction, or a periodic one whose ghost knots are
   exact images and which has at least order + periodicity functions *)
Definition guard_old (o : obj R) (a : @op R) : Prop :=
  match a with
  | OpInsert d xs => let bd := nth d (o_bases o) dflt_basis in b_per1 bd = 0%nat \/ (images_ok bd /\ roomy bd)
  | _ => True
  end.

Lemma bases_set_dim (o : obj R) n : o_bases (obj_set_dimension o n) = o_bases o.
Proof. reflexivity. Qed.

Theorem step_preserves_inv (o o' : obj R) (a : @op R) : inv o -> guard_old o a -> step o a = Ok o' -> inv o'.
Proof.
  intros [HS HB] G E. split; [exact (proj1 (step_preserves_shape o o' a HS E))|].
  destruct a as [d xs|d|d1 d2|d s e|x|s|keep|n|]; cbn [step guard_old] in *; unfold o_pardim in *.
  - destruct (Nat.ltb_spec d (length (o_bases o))) as [Hd|Hd]; [|discriminate]. cbv zeta in G.
    destruct (Nat.eq_dec (b_per1 (nth d (o_bases o) dflt_basis)) 0) as [P0|P0]; [exact (proj1 (insert_knots_bases xs o o' d HB Hd P0 E))|].
    destruct G as [G|[G1 G2]]; [contradiction|]. exact (proj1 (insert_knots_bases_per xs o o' d HB Hd P0 G1 G2 E)).
  - destruct (Nat.ltb_spec d (length (o_bases o))) as [Hd|Hd]; [|discriminate]. injection E as <-.
    unfold obj_reverse. cbv zeta. cbn [o_bases]. apply Forall_upd; [exact HB|].
    apply knots_ok_reverse. apply Forall_nth_in; assumption.
  - destruct (Nat.ltb_spec d1 (length (o_bases o))) as [H1|H1]; [|discriminate].
    destruct (Nat.ltb_spec d2 (length (o_bases o))) as [H2|H2]; [|discriminate]. cbn [andb] in E. injection E as <-.
    unfold obj_swap, o_pardim. destruct (length (o_bases o) =? 1)%nat; [exact HB|]. cbv zeta. cbn [o_bases]. unfold swap_idx.
    apply Forall_upd; [apply Forall_upd; [exact HB|]|]; apply Forall_nth_in; assumption.
  - destruct (Nat.ltb_spec d (length (o_bases o))) as [Hd|Hd]; [|discriminate].
    unfold obj_reparam_dir in E. destruct (basis_reparam (nth d (o_bases o) (mkBasis 0 [] 0)) s e) as [b'|er] eqn:Eb; [|discriminate].
    injection E as <-. cbn [o_bases]. apply Forall_upd; [exact HB|].
    refine (proj1 (knots_ok_reparam _ b' s e _ Eb)). apply Forall_nth_in; assumption.
  - unfold obj_translate in E. cbv zeta in E.
    destruct (o_dim o <? length x)%nat; (destruct (length x <? _)%nat; [discriminate|]); injection E as <-; exact HB.
  - unfold obj_scale in E. cbv zeta in E. destruct (_ <? _)%nat; [discriminate|]. injection E as <-. exact HB.
  - injection E as <-. exact HB.
  - injection E as <-. exact HB.
  - injection E as <-. unfold obj_force_rational. destruct (o_rat o); exact HB.
Qed.

(* ------------------------------------------------------------------------------------------------ *)
(* rotate / mirror: only the control points change *)
Lemma rotate_inv (o o' : obj R) ch sh normal iv : inv o -> obj_rotate o ch sh normal iv = Ok o' -> inv o' /\ o_bases o' = o_bases o.
Proof.
  intros [HS HB]. unfold obj_rotate. cbv zeta.
  match goal with |- context [if ?c then o else obj_set_dimension o 3] => set (cnd := c); set (o1 := if cnd then o else obj_set_dimension o 3) end.
  assert (HS1 : shape_ok o1) by (unfold o1; destruct cnd; [exact HS|apply shape_ok_set_dimension; exact HS]).
  assert (HB1 : o_bases o1 = o_bases o) by (unfold o1; destruct cnd; reflexivity).
  destruct (Nat.eqb_spec (o_dim o1) 2) as [E2|N2].
  - match goal with |- Ok ?x = Ok _ -> _ => set (res := x) end. intros [= <-]. unfold res.
    split; [|exact HB1]. split; [|cbn [map_cps o_bases]; rewrite HB1; exact HB].
    unfold map_cps. apply (shape_ok_map_cps o1 _ (o_dim o1) (o_rat o1) HS1).
    intros v Hv. rewrite app_length, skipn_length. cbn [length]. unfold o_ncomp in Hv. lia.
  - destruct (Nat.eqb_spec (o_dim o1) 3) as [E3|N3]; [|discriminate].
    match goal with |- Ok ?x = Ok _ -> _ => set (res := x) end. intros [= <-]. unfold res.
    split; [|exact HB1]. split; [|cbn [map_cps o_bases]; rewrite HB1; exact HB].
    unfold map_cps. apply (shape_ok_map_cps o1 _ (o_dim o1) (o_rat o1) HS1).
    intros v Hv. rewrite app_length, skipn_length. unfold vecmat. rewrite map_length, seq_length. unfold o_ncomp in Hv. lia.
Qed.

Lemma mirror_inv (o o' : obj R) normal iv : inv o -> obj_mirror o normal iv = Ok o' -> inv o' /\ o_bases o' = o_bases o.
Proof.
  intros [HS HB]. unfold obj_mirror. destruct (Nat.eqb_spec (o_dim o) 3) as [E3|N3]; [|discriminate]. cbn [negb]. cbv zeta.
  match goal with |- Ok ?x = Ok _ -> _ => set (res := x) end. intros [= <-]. unfold res.
  split; [|reflexivity]. split; [|exact HB].
  unfold map_cps. apply (shape_ok_map_cps o _ (o_dim o) (o_rat o) HS).
  intros v Hv. rewrite app_length, skipn_length. unfold vecmat. rewrite map_length, seq_length. unfold o_ncomp in Hv. lia.
Qed.

(* ------------------------------------------------------------------------------------------------ *)
(* section *)
Definition pinned (s : nat) : bool := (s =? 0)%nat || (s =? 1)%nat.

Fixpoint pin_shape (shape : list nat) (sels : list nat) (d : nat) : list nat :=
  match sels with
  | [] => shape
  | s :: rest => if pinned s then pin_shape (upd shape d 1%nat) rest (S d) else pin_shape shape rest (S d)
  end.

Lemma pin_shape_cons a shape sels : forall d, pin_shape (a :: shape) sels (S d) = a :: pin_shape shape sels d.
Proof.
  revert shape. induction sels as [|s rest IH]; intros shape d; cbn [pin_shape]; [reflexivity|].
  destruct (pinned s); cbn [upd]; apply IH.
Qed.

Lemma section_cps_shape ncomp : forall sels shape d (cps : list (list R)), length cps = prodl shape -> (0 < prodl shape)%nat ->
  Forall (fun v => length v = ncomp) cps -> (d + length sels <= length shape)%nat ->
  length (fst (section_cps ncomp shape sels d cps)) = prodl (snd (section_cps ncomp shape sels d cps)) /\
  Forall (fun v => length v = ncomp) (fst (section_cps ncomp shape sels d cps)) /\
  snd (section_cps ncomp shape sels d cps) = pin_shape shape sels d.
Proof.
  induction sels as [|s rest IH]; intros shape d cps HL HP HV Hd; cbn [section_cps pin_shape]; [cbn [fst snd]; auto|].
  cbn [length] in Hd. unfold pinned.
  assert (G : forall idx, let cps' := apply_dir ncomp shape d (sel_matrix (nth d shape 0%nat) idx) cps in
     length cps' = prodl (upd shape d 1%nat) /\ (0 < prodl (upd shape d 1%nat))%nat /\ Forall (fun v => length v = ncomp) cps').
  { intros idx. cbv zeta. split; [|split].
    - rewrite length_apply_dir; [reflexivity|lia|exact HL|exact HP].
    - apply prodl_upd_pos; [exact HP|lia].
    - apply Forall_apply_dir. exact HV. }
  destruct (s =? 0)%nat; cbn [orb].
  - destruct (G 0%nat) as (G1 & G2 & G3). apply IH; try assumption. rewrite length_upd. lia.
  - destruct (s =? 1)%nat.
    + destruct (G (nth d shape 0 - 1)%nat) as (G1 & G2 & G3). apply IH; try assumption. rewrite length_upd. lia.
    + apply IH; try assumption. lia.
Qed.

Definition free_bases (sels : list nat) (bs : list (basis R)) : list (basis R) :=
  map snd (filter (fun sb : nat * basis R => negb ((fst sb =? 0)%nat || (fst sb =? 1)%nat)) (combine sels bs)).

Lemma pin_shape_free : forall (bs : list (basis R)) sels, length sels = length bs ->
  prodl (pin_shape (map (@b_nfun R) bs) sels 0) = prodl (map (@b_nfun R) (free_bases sels bs)).
Proof.
  induction bs as [|b bs IH]; intros sels Hl; destruct sels as [|s sels]; try discriminate; [reflexivity|].
  cbn [map pin_shape]. unfold free_bases. cbn [combine filter fst snd]. unfold pinned.
  destruct ((s =? 0)%nat || (s =? 1)%nat); cbn [negb upd map]; rewrite pin_shape_cons; cbn [prodl fold_right];
    fold (prodl (pin_shape (map (@b_nfun R) bs) sels 0)); rewrite IH by (cbn in Hl; lia); unfold free_bases; cbn [snd]; unfold prodl; lia.
Qed.

Lemma section_inv (o : obj R) sels : inv o -> length sels = length (o_bases o) ->
  inv (obj_section o sels) /\ o_bases (obj_section o sels) = free_bases sels (o_bases o) /\
  o_dim (obj_section o sels) = o_dim o /\ o_rat (obj_section o sels) = o_rat o.
Proof.
  intros [(HL & HV & HP) HB] Hl. split; [|repeat split].
  fold (prodl (o_shape o)) in HL, HP.
  destruct (section_cps_shape (o_ncomp o) sels (o_shape o) 0 (o_cps o) HL HP HV) as (S1 & S2 & S3).
  { unfold o_shape. rewrite map_length. lia. }
  assert (EP : prodl (snd (section_cps (o_ncomp o) (o_shape o) sels 0 (o_cps o))) = prodl (map (@b_nfun R) (free_bases sels (o_bases o)))).
  { rewrite S3. unfold o_shape. apply pin_shape_free. exact Hl. }
  rewrite EP in S1.
  assert (PP : (0 < prodl (map (@b_nfun R) (free_bases sels (o_bases o))))%nat).
  { apply prodl_pos_iff. rewrite Forall_map.
    pose proof (inv_nfun_pos o (conj (conj HL (conj HV HP)) HB)) as HN.
    unfold free_bases. apply Forall_forall. intros b Hb. apply in_map_iff in Hb. destruct Hb as ([s b'] & <- & Hin).
    apply filter_In in Hin. destruct Hin as [Hin _]. apply in_combine_r in Hin. rewrite Forall_forall in HN. apply HN. exact Hin. }
  split.
  - split; [exact S1|]. split; [exact S2|exact PP].
  - unfold obj_section. cbn [o_bases]. apply Forall_forall. intros b Hb. apply in_map_iff in Hb. destruct Hb as ([s b'] & <- & Hin).
    apply filter_In in Hin. destruct Hin as [Hin _]. apply in_combine_r in Hin. rewrite Forall_forall in HB. apply HB. exact Hin.
Qed.

(* ------------------------------------------------------------------------------------------------ *)
(* positivity of one coordinate (the weight) through a matrix applied along a direction: every row of the matrix is
   non-negative with at least one positive entry *)
Definition pos_row (n : nat) (row : list R) : Prop :=
  length row = n /\ Forall (fun x => 0 <= x) row /\ Exists (fun x => 0 < x) row.

Lemma lc_nonneg c row vs : Forall (fun x => 0 <= x) row -> Forall (fun v => 0 < coord c v) vs -> 0 <= lc c row vs.
Proof.
  revert vs. induction row as [|x row IH]; intros vs Hr Hv; [rewrite lc_nil_l; lra|].
  destruct vs as [|v vs]; [rewrite lc_nil_r; lra|]. rewrite lc_cons. inversion Hr; subst. inversion Hv; subst.
  specialize (IH vs H2 H4). nra.
Qed.

Lemma lc_pos c row vs : length row = length vs -> Forall (fun x => 0 <= x) row -> Exists (fun x => 0 < x) row ->
  Forall (fun v => 0 < coord c v) vs -> 0 < lc c row vs.
Proof.
  revert vs. induction row as [|x row IH]; intros vs Hl Hr He Hv; [inversion He|].
  destruct vs as [|v vs]; [cbn in Hl; lia|]. rewrite lc_cons. inversion Hr; subst. inversion Hv; subst.
  inversion He; subst.
  - pose proof (lc_nonneg c row vs H2 H4). nra.
  - specialize (IH vs ltac:(cbn in Hl; lia) H2 H0 H4). nra.
Qed.

Lemma apply_dir_wpos dim w (C : list (list R)) : (w < dim)%nat -> forall shape d cps, (d < length shape)%nat ->
  length cps = prodl shape -> (0 < prodl shape)%nat -> Forall (pos_row (nth d shape 0%nat)) C ->
  Forall (fun v => length v = dim) cps -> Forall (fun v => 0 < coord w v) cps ->
  Forall (fun v => 0 < coord w v) (apply_dir dim shape d C cps).
Proof.
  intros Hw. induction shape as [|n shape IH]; intros d cps Hd Hl Hpos HC HV HW; [cbn in Hd; lia|].
  cbn [apply_dir]. cbv zeta.
  cbn [prodl fold_right] in Hl, Hpos. fold (prodl shape) in Hl, Hpos.
  assert (Hn : (0 < n)%nat) by nia. assert (Hps : (0 < prodl shape)%nat) by nia.
  assert (Hm : (length cps / n = prodl shape)%nat) by (rewrite Hl, Nat.mul_comm; apply Nat.div_mul; lia).
  rewrite Hm. destruct d as [|d].
  - cbn [nth] in HC. apply Forall_concat. apply Forall_forall. intros l Hin. apply in_map_iff in Hin. destruct Hin as (row & <- & Hrow).
    rewrite Forall_forall in HC. destruct (HC row Hrow) as (R1 & R2 & R3).
    unfold chunks_lincomb. apply Forall_forall. intros v Hin. apply in_map_iff in Hin. destruct Hin as (s & <- & Hs). apply in_seq in Hs.
    assert (G : forall i, (i < n)%nat -> In (nth s (chunk (prodl shape) i cps) (vzero dim)) cps).
    { intros i Hi. rewrite nth_chunk by lia. apply nth_In. nia. }
    rewrite vlincomb_coord; [|rewrite Forall_map; apply Forall_forall; intros ch Hch; apply in_map_iff in Hch;
       destruct Hch as (i & <- & Hi); apply in_seq in Hi; rewrite Forall_forall in HV; apply HV; apply G; lia|exact Hw].
    apply lc_pos; [rewrite !map_length, seq_length; exact R1|exact R2|exact R3|].
    rewrite Forall_map. apply Forall_forall. intros ch Hch. apply in_map_iff in Hch. destruct Hch as (i & <- & Hi). apply in_seq in Hi.
    rewrite Forall_forall in HW. apply HW. apply G. lia.
  - cbn [nth] in HC. apply Forall_concat. apply Forall_forall. intros l Hin. apply in_map_iff in Hin. destruct Hin as (ch & <- & Hch).
    apply in_map_iff in Hch. destruct Hch as (i & <- & Hi). apply in_seq in Hi.
    apply IH; [cbn in Hd; lia| |exact Hps|exact HC|apply Forall_chunk; exact HV|apply Forall_chunk; exact HW].
    apply length_chunk. rewrite Hl. nia.
Qed.

(* 0/1 selection rows *)
Lemma unit_pos_row n i : (i < n)%nat -> pos_row n (map (fun j => if (j =? i)%nat then 1 else 0) (seq 0 n)).
Proof.
  intros Hi. split; [rewrite map_length, seq_length; reflexivity|]. split.
  - apply Forall_forall. intros x Hx. apply in_map_iff in Hx. destruct Hx as (j & <- & _). destruct (j =? i)%nat; lra.
  - apply Exists_exists. exists 1. split; [|lra]. apply in_map_iff. exists i. rewrite Nat.eqb_refl. split; [reflexivity|apply in_seq; lia].
Qed.

(* the rows of the knot insertion matrix (non-periodic basis, new knot strictly below the end of the domain) *)
Lemma div_nonneg a b : 0 <= a -> 0 <= b -> 0 <= a / b.
Proof.
  intros Ha Hb. destruct (Req_dec b 0) as [->|N]; [unfold Rdiv; rewrite Rinv_0; lra|].
  apply Rmult_le_pos; [exact Ha|]. left. apply Rinv_0_lt_compat. lra.
Qed.

Lemma insert_matrix_pos_rows (k : list R) p x : sorted (kn k) -> (1 <= p)%nat -> (2 * p <= length k)%nat ->
  kn k (p - 1) <= x < kn k (length k - p) ->
  Forall (pos_row (length k - p))
    (mat_of_writes (length k - p + 1) (length k - p) (insert_writes k p (length k - p) (py_bisect_right k x) x)).
Proof.
  intros HK Hp Hlen Hx. destruct (mu_bracket k p x HK Hp Hlen Hx) as [Hmu Hbr].
  set (n := (length k - p)%nat) in *. set (mu := py_bisect_right k x) in *.
  pose proof (insert_matrix_entries k p mu x Hp Hmu Hbr) as ENT. fold n in ENT.
  assert (Ha : forall c, (mu - p <= c < mu)%nat -> 0 <= a_entry k p x c).
  { intros c Hc. unfold a_entry. destruct (_ && _); [lra|]. apply div_nonneg.
    - pose proof (HK c (mu - 1)%nat ltac:(lia)). lra.
    - pose proof (HK c (c + p - 1)%nat ltac:(lia)). lra. }
  assert (Hb : forall c, (mu - p <= c < mu)%nat -> 0 <= b_entry k p x c).
  { intros c Hc. unfold b_entry. destruct (_ && _); [lra|]. apply div_nonneg.
    - pose proof (HK mu (c + p)%nat ltac:(lia)). lra.
    - pose proof (HK (c + 1)%nat (c + p)%nat ltac:(lia)). lra. }
  apply Forall_forall. intros row Hrow. unfold mat_of_writes in Hrow. apply in_map_iff in Hrow. destruct Hrow as (r & <- & Hr).
  apply in_seq in Hr. split; [rewrite map_length, seq_length; reflexivity|]. split.
  - apply Forall_forall. intros v Hv. apply in_map_iff in Hv. destruct Hv as (c & <- & Hc). apply in_seq in Hc.
    rewrite ENT by lia. destruct (Nat.ltb_spec c (mu - p)) as [L'|L']; [destruct (r =? c)%nat; lra|].
    destruct (Nat.ltb_spec c mu) as [L|L].
    + destruct (r =? c)%nat; [apply Ha; lia|]. destruct (r =? c + 1)%nat; [apply Hb; lia|lra].
    + destruct (r =? c + 1)%nat; lra.
  - apply Exists_exists.
    assert (W : exists c, (c < n)%nat /\ 0 < lookup_last (insert_writes k p n mu x) r c).
    { destruct (Nat.lt_ge_cases r (mu - p)) as [C1|C1].
      - exists r. split; [lia|]. rewrite ENT by lia. destruct (Nat.ltb_spec r (mu - p)); [|lia]. rewrite Nat.eqb_refl. lra.
      - destruct (Nat.eq_dec r (mu - p)) as [C2|C2].
        + exists r. split; [lia|]. rewrite ENT by lia. destruct (Nat.ltb_spec r (mu - p)); [lia|].
          destruct (Nat.ltb_spec r mu); [|lia]. rewrite Nat.eqb_refl. unfold a_entry.
          replace (r + p - 1)%nat with (mu - 1)%nat by lia. replace (r + p)%nat with mu by lia.
          destruct (Rleb_spec (kn k (mu - 1)%nat) x); [|lra]. destruct (Rleb_spec x (kn k mu)); [cbn [andb]; lra|lra].
        + destruct (Nat.le_gt_cases r mu) as [C3|C3].
          * exists (r - 1)%nat. split; [lia|]. rewrite ENT by lia. destruct (Nat.ltb_spec (r - 1) (mu - p)); [lia|].
            destruct (Nat.ltb_spec (r - 1) mu); [|lia]. destruct (Nat.eqb_spec r (r - 1)); [lia|].
            destruct (Nat.eqb_spec r (r - 1 + 1)); [|lia]. unfold b_entry.
            destruct (Rleb (kn k (r - 1)%nat) x && Rleb x (kn k (r - 1 + 1)%nat)) eqn:Eb; [lra|].
            assert (Hr' : (r < mu)%nat).
            { destruct (Nat.eq_dec r mu) as [->|]; [|lia]. exfalso. replace (mu - 1 + 1)%nat with mu in Eb by lia.
              destruct (Rleb_spec (kn k (mu - 1)%nat) x); [|lra]. destruct (Rleb_spec x (kn k mu)); [discriminate|lra]. }
            pose proof (HK mu (r - 1 + p)%nat ltac:(lia)). pose proof (HK (r - 1 + 1)%nat (mu - 1)%nat ltac:(lia)).
            apply Rdiv_lt_0_compat; lra.
          * exists (r - 1)%nat. split; [lia|]. rewrite ENT by lia. destruct (Nat.ltb_spec (r - 1) (mu - p)); [lia|].
            destruct (Nat.ltb_spec (r - 1) mu); [lia|]. destruct (Nat.eqb_spec r (r - 1 + 1)); [lra|lia]. }
    destruct W as (c & Hc & Hpos). exists (lookup_last (insert_writes k p n mu x) r c). split; [|exact Hpos].
    apply in_map_iff. exists c. split; [reflexivity|apply in_seq; lia].
Qed.

(* ------------------------------------------------------------------------------------------------ *)
(* positive weights through the nine operations of Model/Ops.v *)
Lemma nth_app_skipn (a v : list R) m m' : length a = m -> nth m (a ++ skipn m' v) 0 = nth m' v 0.
Proof. intros Ha. rewrite app_nth2 by lia. rewrite Ha, Nat.sub_diag, nth_skipn_add. f_equal. lia. Qed.

Lemma weights_map_cps (o : obj R) (f : list R -> list R) (dim' : nat) (rat' : bool) :
  shape_ok o -> weights_pos o ->
  (rat' = true -> forall v, length v = o_ncomp o -> (o_rat o = true -> 0 < nth (o_dim o) v 0) -> 0 < nth dim' (f v) 0) ->
  weights_pos (mkObj (o_bases o) (map f (o_cps o)) dim' rat').
Proof.
  intros (_ & HV & _) HW Hf. unfold weights_pos in *. cbn [o_rat o_cps o_dim]. intros Hr.
  rewrite Forall_map. apply Forall_forall. intros v Hv. rewrite Forall_forall in HV. apply (Hf Hr v (HV v Hv)).
  intros Hro. specialize (HW Hro). rewrite Forall_forall in HW. apply HW. exact Hv.
Qed.

Lemma weights_set_dimension (o : obj R) n : shape_ok o -> weights_pos o -> weights_pos (obj_set_dimension o n).
Proof.
  intros HS HW. unfold obj_set_dimension. apply (weights_map_cps o _ n (o_rat o) HS HW).
  intros Hr v Hv Hw. unfold pt_set_dim. cbv zeta. unfold o_ncomp in Hv. rewrite Hr in Hv.
  rewrite nth_app_skipn; [apply Hw; exact Hr|].
  destruct (Nat.leb_spec (o_dim o) n).
  - rewrite app_length, firstn_length, repeat_length. lia.
  - rewrite !firstn_length. lia.
Qed.

Lemma insert_knots_weights xs : forall (o o' : obj R) d, inv o -> weights_pos o -> (d < length (o_bases o))%nat ->
  b_per1 (nth d (o_bases o) dflt_basis) = 0%nat -> Forall (fun x => x < b_end (nth d (o_bases o) dflt_basis)) xs ->
  obj_insert_knots o d xs = Ok o' -> weights_pos o'.
Proof.
  induction xs as [|x xs IH]; intros o o' d HI HW Hd Hper Hxs; cbn [obj_insert_knots]; [intros [= <-]; exact HW|].
  fold dflt_basis. set (bd := nth d (o_bases o) dflt_basis) in *.
  destruct (basis_insert_knot bd x) as [[b' C]|e] eqn:E; [|discriminate].
  set (o1 := mkObj (upd (o_bases o) d b') (apply_dir (o_ncomp o) (o_shape o) d C (o_cps o)) (o_dim o) (o_rat o)).
  assert (E1 : step o (OpInsert d [x]) = Ok o1).
  { cbn [step]. unfold o_pardim. destruct (Nat.ltb_spec d (length (o_bases o))); [|lia]. cbn [obj_insert_knots]. fold dflt_basis. fold bd. rewrite E. reflexivity. }
  pose proof (step_preserves_inv o o1 (OpInsert d [x]) HI (or_introl Hper) E1) as HI1.
  destruct HI as [HS HB]. pose proof (Forall_nth_in _ _ d dflt_basis HB Hd) as Hbd. fold bd in Hbd.
  inversion Hxs as [|? ? Hx Hxs']; subst.
  destruct (knots_ok_insert bd b' x C Hbd Hper E) as (K1 & K2 & K3 & K4 & K5 & K6). specialize (K6 Hx).
  destruct (basis_insert_knot_nonper_knots bd b' x C Hper E) as (Hxr & _ & EC).
  apply (IH o1 o' d HI1); [|cbn [o1 o_bases]; rewrite upd_length; exact Hd| | ].
  - (* weights of o1 *)
    unfold weights_pos. cbn [o1 o_rat o_cps o_dim]. intros Hr. destruct HS as (HL & HV & HP).
    apply (apply_dir_wpos (o_ncomp o) (o_dim o)).
    + unfold o_ncomp. rewrite Hr. lia.
    + unfold o_shape. rewrite map_length. exact Hd.
    + exact HL.
    + exact HP.
    + rewrite o_shape_nth by exact Hd. fold dflt_basis. fold bd. rewrite EC.
      destruct Hbd as (Hp & Hlen & HK & Hse). unfold b_nfun. rewrite Hper, Nat.sub_0_r.
      apply insert_matrix_pos_rows; try assumption. unfold b_start, b_end in *. lra.
    + exact HV.
    + apply HW. exact Hr.
  - cbn [o1 o_bases]. rewrite InsertEndToEnd.upd_nth_same by exact Hd. exact K2.
  - cbn [o1 o_bases]. rewrite InsertEndToEnd.upd_nth_same by exact Hd. rewrite K6. exact Hxs'.
Qed.

Lemma reindex_Forall {A} (P : A -> Prop) (dflt : A) sh sh' fn (cps : list A) : Forall P cps -> length cps = prodl sh ->
  (forall idx, inshape idx sh' -> inshape (fn idx) sh) -> Forall P (reindex dflt sh sh' fn cps).
Proof.
  intros HP HL Hfn. unfold reindex. rewrite Forall_map. apply Forall_forall. intros fl Hfl. apply in_seq in Hfl.
  rewrite Forall_forall in HP. apply HP. apply nth_In. rewrite HL. apply SwapEndToEnd.ravel_lt. apply Hfn.
  apply unravel_inshape. unfold prodl. lia.
Qed.

(* knot insertion keeps the weights positive when the new knots lie strictly below the end of the domain *)
Definition guard_w_old (o : obj R) (a : @op R) : Prop :=
  match a with
  | OpInsert d xs => b_per1 (nth d (o_bases o) dflt_basis) = 0%nat /\ Forall (fun x => x < b_end (nth d (o_bases o) dflt_basis)) xs
  | _ => True
  end.

Theorem step_preserves_weights (o o' : obj R) (a : @op R) : inv o -> weights_pos o -> guard_old o a -> guard_w_old o a ->
  step o a = Ok o' -> weights_pos o'.
Proof.
  intros HI HW G GW E. pose proof HI as [HS HB].
  destruct a as [d xs|d|d1 d2|d s e|x|s|keep|n|]; cbn [step guard_old guard_w_old] in *; unfold o_pardim in *.
  - destruct (Nat.ltb_spec d (length (o_bases o))) as [Hd|Hd]; [|discriminate].
    destruct GW as [Hper GW]. exact (insert_knots_weights xs o o' d HI HW Hd Hper GW E).
  - destruct (Nat.ltb_spec d (length (o_bases o))) as [Hd|Hd]; [|discriminate]. injection E as <-.
    unfold obj_reverse. cbv zeta. unfold weights_pos. cbn [o_rat o_cps o_dim]. intros Hr. destruct HS as (HL & HV & HP).
    apply (apply_dir_wpos (o_ncomp o) (o_dim o)).
    + unfold o_ncomp. rewrite Hr. lia.
    + unfold o_shape. rewrite map_length. exact Hd.
    + exact HL.
    + exact HP.
    + rewrite o_shape_nth by exact Hd. set (n := b_nfun (nth d (o_bases o) (mkBasis 0 [] 0))).
      assert (Hn : (0 < n)%nat).
      { pose proof (inv_nfun_pos o HI) as HN. apply (Forall_nth_in _ _ d (mkBasis 0 [] 0) HN Hd). }
      unfold rev_matrix. apply Forall_forall. intros row Hrow. apply in_map_iff in Hrow. destruct Hrow as (r & <- & _).
      apply unit_pos_row. lia.
    + exact HV.
    + apply HW. exact Hr.
  - destruct (Nat.ltb_spec d1 (length (o_bases o))) as [H1|H1]; [|discriminate].
    destruct (Nat.ltb_spec d2 (length (o_bases o))) as [H2|H2]; [|discriminate]. cbn [andb] in E. injection E as <-.
    unfold obj_swap, o_pardim. destruct (length (o_bases o) =? 1)%nat; [exact HW|]. cbv zeta.
    unfold weights_pos. cbn [o_rat o_cps o_dim]. intros Hr. destruct HS as (HL & HV & HP).
    assert (Hls : length (o_shape o) = length (o_bases o)) by (unfold o_shape; apply map_length).
    apply reindex_Forall; [apply HW; exact Hr|exact HL|].
    intros idx Hidx. rewrite <- (swap_idx_invol 0%nat (o_shape o) d1 d2) by lia.
    apply inshape_swap; [rewrite swap_idx_length; lia|rewrite swap_idx_length; lia|exact Hidx].
  - destruct (Nat.ltb_spec d (length (o_bases o))) as [Hd|Hd]; [|discriminate].
    unfold obj_reparam_dir in E. destruct (basis_reparam _ s e) as [b'|er]; [|discriminate]. injection E as <-. exact HW.
  - unfold obj_translate in E. cbv zeta in E.
    set (o1 := if (o_dim o <? length x)%nat then obj_set_dimension o (length x) else o) in *.
    assert (HS1 : shape_ok o1) by (unfold o1; destruct (_ <? _)%nat; [apply shape_ok_set_dimension|]; exact HS).
    assert (HW1 : weights_pos o1) by (unfold o1; destruct (_ <? _)%nat; [apply weights_set_dimension|]; assumption).
    destruct (length x <? o_dim o1)%nat; [discriminate|]. injection E as <-.
    unfold map_cps. apply (weights_map_cps o1 _ (o_dim o1) (o_rat o1) HS1 HW1).
    intros Hr v Hv Hw. rewrite nth_app_skipn; [apply Hw; exact Hr|rewrite map_length, seq_length; reflexivity].
  - unfold obj_scale in E. cbv zeta in E. destruct (_ <? _)%nat; [discriminate|]. injection E as <-.
    unfold map_cps. apply (weights_map_cps o _ (o_dim o) (o_rat o) HS HW).
    intros Hr v Hv Hw. rewrite nth_app_skipn; [apply Hw; exact Hr|rewrite map_length, seq_length; reflexivity].
  - injection E as <-. unfold obj_project, map_cps. apply (weights_map_cps o _ (o_dim o) (o_rat o) HS HW).
    intros Hr v Hv Hw. rewrite nth_app_skipn; [apply Hw; exact Hr|rewrite map_length, seq_length; reflexivity].
  - injection E as <-. apply weights_set_dimension; assumption.
  - injection E as <-. unfold obj_force_rational. destruct (o_rat o) eqn:Er; [exact HW|].
    apply (weights_map_cps o _ (o_dim o) true HS HW). intros _ v Hv _. unfold o_ncomp in Hv. rewrite Er in Hv. cbv iota in Hv. rewrite Nat.add_0_r in Hv.
    rewrite <- Hv. rewrite app_nth2 by lia. rewrite Nat.sub_diag. cbn [nth n1 NumR]. lra.
Qed.

(* rotate / mirror / section keep the weights *)
Lemma rotate_weights (o o' : obj R) ch sh normal iv : inv o -> weights_pos o -> obj_rotate o ch sh normal iv = Ok o' -> weights_pos o'.
Proof.
  intros [HS HB] HW. unfold obj_rotate. cbv zeta.
  match goal with |- context [if ?c then o else obj_set_dimension o 3] => set (cnd := c); set (o1 := if cnd then o else obj_set_dimension o 3) end.
  assert (HS1 : shape_ok o1) by (unfold o1; destruct cnd; [exact HS|apply shape_ok_set_dimension; exact HS]).
  assert (HW1 : weights_pos o1) by (unfold o1; destruct cnd; [exact HW|apply weights_set_dimension; assumption]).
  destruct (Nat.eqb_spec (o_dim o1) 2) as [E2|N2].
  - match goal with |- Ok ?x = Ok _ -> _ => set (res := x) end. intros [= <-]. unfold res.
    unfold map_cps. apply (weights_map_cps o1 _ (o_dim o1) (o_rat o1) HS1 HW1).
    intros Hr v Hv Hw. specialize (Hw Hr). rewrite E2 in *. rewrite nth_app_skipn; [exact Hw|reflexivity].
  - destruct (Nat.eqb_spec (o_dim o1) 3) as [E3|N3]; [|discriminate].
    match goal with |- Ok ?x = Ok _ -> _ => set (res := x) end. intros [= <-]. unfold res.
    unfold map_cps. apply (weights_map_cps o1 _ (o_dim o1) (o_rat o1) HS1 HW1).
    intros Hr v Hv Hw. specialize (Hw Hr). rewrite E3 in *. rewrite nth_app_skipn; [exact Hw|unfold vecmat; rewrite map_length, seq_length; reflexivity].
Qed.

Lemma mirror_weights (o o' : obj R) normal iv : inv o -> weights_pos o -> obj_mirror o normal iv = Ok o' -> weights_pos o'.
Proof.
  intros [HS HB] HW. unfold obj_mirror. destruct (Nat.eqb_spec (o_dim o) 3) as [E3|N3]; [|discriminate]. cbn [negb]. cbv zeta.
  match goal with |- Ok ?x = Ok _ -> _ => set (res := x) end. intros [= <-]. unfold res.
  unfold map_cps. apply (weights_map_cps o _ (o_dim o) (o_rat o) HS HW).
  intros Hr v Hv Hw. specialize (Hw Hr). rewrite E3 in *. rewrite nth_app_skipn; [exact Hw|unfold vecmat; rewrite map_length, seq_length; reflexivity].
Qed.

Lemma section_cps_wpos ncomp w : (w < ncomp)%nat -> forall sels shape d (cps : list (list R)), length cps = prodl shape -> (0 < prodl shape)%nat ->
  Forall (fun v => length v = ncomp) cps -> (d + length sels <= length shape)%nat -> Forall (fun v => 0 < coord w v) cps ->
  Forall (fun v => 0 < coord w v) (fst (section_cps ncomp shape sels d cps)).
Proof.
  intros Hw. induction sels as [|s rest IH]; intros shape d cps HL HP HV Hd HW; cbn [section_cps]; [exact HW|].
  cbn [length] in Hd.
  assert (Hn : (0 < nth d shape 0)%nat) by (apply prodl_pos_nth; [exact HP|lia]).
  assert (G : forall idx, (idx < nth d shape 0)%nat -> let cps' := apply_dir ncomp shape d (sel_matrix (nth d shape 0%nat) idx) cps in
     length cps' = prodl (upd shape d 1%nat) /\ (0 < prodl (upd shape d 1%nat))%nat /\ Forall (fun v => length v = ncomp) cps' /\
     Forall (fun v => 0 < coord w v) cps').
  { intros idx Hidx. cbv zeta. split; [|split; [|split]].
    - rewrite length_apply_dir; [reflexivity|lia|exact HL|exact HP].
    - apply prodl_upd_pos; [exact HP|lia].
    - apply Forall_apply_dir. exact HV.
    - apply apply_dir_wpos; try assumption; [lia|]. unfold sel_matrix. constructor; [|constructor]. apply unit_pos_row. exact Hidx. }
  destruct (s =? 0)%nat.
  - destruct (G 0%nat Hn) as (G1 & G2 & G3 & G4). apply IH; try assumption. rewrite length_upd. lia.
  - destruct (s =? 1)%nat.
    + destruct (G (nth d shape 0 - 1)%nat ltac:(lia)) as (G1 & G2 & G3 & G4). apply IH; try assumption. rewrite length_upd. lia.
    + apply IH; try assumption. lia.
Qed.

Lemma section_weights (o : obj R) sels : inv o -> weights_pos o -> length sels = length (o_bases o) -> weights_pos (obj_section o sels).
Proof.
  intros [(HL & HV & HP) HB] HW Hl. unfold weights_pos, obj_section. cbn [o_rat o_cps o_dim]. intros Hr.
  apply section_cps_wpos; try assumption.
  - unfold o_ncomp. rewrite Hr. lia.
  - unfold o_shape. rewrite map_length. lia.
  - apply HW. exact Hr.
Qed.

(* ------------------------------------------------------------------------------------------------ *)
(* list tools *)
Lemma nth_app_if {A} (l1 l2 : list A) i d :
  nth i (l1 ++ l2) d = if (i <? length l1)%nat then nth i l1 d else nth (i - length l1) l2 d.
Proof. destruct (Nat.ltb_spec i (length l1)); [apply app_nth1|apply app_nth2]; lia. Qed.
Lemma nth_repeat_lt {A} (x d : A) m i : (i < m)%nat -> nth i (repeat x m) d = x.
Proof. revert i; induction m; intros i H; [lia|]. destruct i; cbn; [reflexivity|apply IHm; lia]. Qed.
Lemma nth_slice {A} (l : list A) a b i d : (i < b - a)%nat -> nth i (slice_list l a b) d = nth (a + i) l d.
Proof. intros H. unfold slice_list. rewrite nth_firstn_lt by exact H. apply nth_skipn_add. Qed.
Lemma length_slice {A} (l : list A) a b : length (slice_list l a b) = Nat.min (b - a) (length l - a).
Proof. unfold slice_list. rewrite firstn_length, skipn_length. reflexivity. Qed.
Lemma nth_map0 (f : R -> R) l i : (i < length l)%nat -> nth i (map f l) 0 = f (nth i l 0).
Proof.
  revert i; induction l as [|a l IH]; intros i H; cbn in *; [lia|].
  destruct i; [reflexivity|]. apply IH. lia.
Qed.

(* ------------------------------------------------------------------------------------------------ *)
(* sorted lists with bounds, by index *)
Definition LSb (lo hi : R) (l : list R) : Prop :=
  lsortedn l /\ forall i, (i < length l)%nat -> lo <= nth i l 0 <= hi.

Lemma LSb_app lo m hi A B : lo <= m <= hi -> LSb lo m A -> LSb m hi B -> LSb lo hi (A ++ B).
Proof.
  intros Hm [SA BA] [SB BB]. split.
  - intros i j Hij. rewrite app_length in Hij. rewrite !nth_app_if.
    destruct (Nat.ltb_spec i (length A)) as [Li|Li]; destruct (Nat.ltb_spec j (length A)) as [Lj|Lj]; try lia.
    + apply SA. lia.
    + pose proof (BA i Li). pose proof (BB (j - length A)%nat ltac:(lia)). lra.
    + apply SB. lia.
  - intros i Hi. rewrite app_length in Hi. rewrite nth_app_if. destruct (Nat.ltb_spec i (length A)) as [Li|Li].
    + pose proof (BA i Li). lra.
    + pose proof (BB (i - length A)%nat ltac:(lia)). lra.
Qed.

Lemma LSb_repeat x n : LSb x x (repeat x n).
Proof.
  split.
  - intros i j Hij. rewrite repeat_length in Hij. rewrite !nth_repeat_lt by lia. lra.
  - intros i Hi. rewrite repeat_length in Hi. rewrite nth_repeat_lt by lia. lra.
Qed.

Lemma LSb_slice lo hi l a b : LSb lo hi l -> LSb lo hi (slice_list l a b).
Proof.
  intros [SL BL]. split.
  - intros i j Hij. rewrite length_slice in Hij. rewrite !nth_slice by lia. apply SL. lia.
  - intros i Hi. rewrite length_slice in Hi. rewrite nth_slice by lia. apply BL. lia.
Qed.

Lemma LSb_shift lo hi l c : LSb lo hi l -> LSb (lo + c) (hi + c) (map (fun x => x + c) l).
Proof.
  intros [SL BL]. split.
  - intros i j Hij. rewrite map_length in Hij. rewrite !(nth_map0 (fun x => x + c)) by lia. pose proof (SL i j Hij). lra.
  - intros i Hi. rewrite map_length in Hi. rewrite (nth_map0 (fun x => x + c)) by lia. pose proof (BL i Hi). lra.
Qed.

Lemma LSb_weaken lo hi lo' hi' l : lo' <= lo -> hi <= hi' -> LSb lo hi l -> LSb lo' hi' l.
Proof. intros H1 H2 [SL BL]. split; [exact SL|]. intros i Hi. pose proof (BL i Hi). lra. Qed.

(* ------------------------------------------------------------------------------------------------ *)
(* make_periodic on an open direction with at least order + continuity functions *)
Section MakePer.
Variable b : basis R.
Variable c : nat.
Hypothesis Hb : knots_ok b.
Local Notation p := (b_order b).
Local Notation k := (b_knots b).
Local Notation s := (b_start b).
Local Notation e := (b_end b).
Hypothesis Hc : (c + 2 <= p)%nat.
Hypothesis Hn : (2 * p + c <= length k)%nat.

Local Notation nk := (slice_list k (p - 1) (length k - (p - 1))).

Lemma mpg_nk_length : length nk = (length k - 2 * p + 2)%nat.
Proof. rewrite length_slice. lia. Qed.

Lemma mpg_nk_nth i : (i < length k - 2 * p + 2)%nat -> nth i nk 0 = kn k (p - 1 + i).
Proof. intros Hi. rewrite nth_slice by lia. symmetry. apply kn_in. lia. Qed.

Lemma mpg_nk_LSb : LSb s e nk.
Proof.
  destruct Hb as (Hp & Hlen & HK & Hse). split.
  - intros i j Hij. rewrite mpg_nk_length in Hij. rewrite !mpg_nk_nth by lia. apply HK. lia.
  - intros i Hi. rewrite mpg_nk_length in Hi. rewrite mpg_nk_nth by lia. unfold b_start, b_end.
    split; apply HK; lia.
Qed.

Local Notation k' := (b_knots (basis_make_periodic b c)).

Lemma mpg_knots : k' =
  map (fun x => x + (s - e)) (slice_list nk (length k - 2 * p - c) (length k - 2 * p + 1)) ++ repeat s (p - 2 - c) ++ nk ++
  repeat e (p - 2 - c) ++ map (fun x => x + (e - s)) (slice_list nk 1 (c + 2)).
Proof.
  unfold basis_make_periodic. cbv zeta. cbn [b_knots]. rewrite mpg_nk_length.
  replace (p - 1 - c - 1)%nat with (p - 2 - c)%nat by lia.
  replace (p - 1 - (p - 2 - c))%nat with (c + 1)%nat by lia.
  replace (length k - 2 * p + 2 - (c + 1) - 1)%nat with (length k - 2 * p - c)%nat by lia.
  replace (length k - 2 * p + 2 - 1)%nat with (length k - 2 * p + 1)%nat by lia.
  replace (c + 1 + 1)%nat with (c + 2)%nat by lia.
  rewrite (map_ext (fun x : R => nsub x (nsub e s)) (fun x => x + (s - e))) by (intros x; cbn [nsub NumR]; ring). reflexivity.
Qed.

Lemma mpg_head_length : length (slice_list nk (length k - 2 * p - c) (length k - 2 * p + 1)) = (c + 1)%nat.
Proof. rewrite length_slice, mpg_nk_length. lia. Qed.
Lemma mpg_tail_length : length (slice_list nk 1 (c + 2)) = (c + 1)%nat.
Proof. rewrite length_slice, mpg_nk_length. lia. Qed.

Lemma mpg_length : length k' = length k.
Proof.
  rewrite mpg_knots. rewrite !app_length, !map_length, !repeat_length, mpg_head_length, mpg_tail_length, mpg_nk_length. lia.
Qed.

Lemma mpg_LSb : LSb (s + (s - e)) (e + (e - s)) k'.
Proof.
  pose proof Hb as (Hp & Hlen & HK & Hse). rewrite mpg_knots. pose proof mpg_nk_LSb as NK.
  apply (LSb_app _ s _); [lra| |].
  - apply (LSb_weaken (s + (s - e)) (e + (s - e))); [lra|lra|]. apply LSb_shift. apply LSb_slice. exact NK.
  - apply (LSb_app _ s _); [lra|apply LSb_repeat|]. apply (LSb_app _ e _); [lra|exact NK|].
    apply (LSb_app _ e _); [lra|apply LSb_repeat|].
    apply (LSb_weaken (s + (e - s)) (e + (e - s))); [lra|lra|]. apply LSb_shift. apply LSb_slice. exact NK.
Qed.

Lemma mpg_nth_mid i : (i < length k - 2 * p + 2)%nat -> nth (p - 1 + i) k' 0 = kn k (p - 1 + i).
Proof.
  intros Hi. rewrite mpg_knots. rewrite app_nth2 by (rewrite map_length, mpg_head_length; lia).
  rewrite map_length, mpg_head_length. rewrite app_nth2 by (rewrite repeat_length; lia). rewrite repeat_length.
  rewrite app_nth1 by (rewrite mpg_nk_length; lia). replace (p - 1 + i - (c + 1) - (p - 2 - c))%nat with i by lia.
  apply mpg_nk_nth. exact Hi.
Qed.

Lemma knots_ok_make_periodic : knots_ok (basis_make_periodic b c) /\ b_start (basis_make_periodic b c) = s /\
  b_end (basis_make_periodic b c) = e /\ b_nfun (basis_make_periodic b c) = (length k - p - c - 1)%nat /\
  b_order (basis_make_periodic b c) = p /\ b_per1 (basis_make_periodic b c) = (c + 1)%nat.
Proof.
  pose proof Hb as (Hp & Hlen & HK & Hse).
  assert (Hs : b_start (basis_make_periodic b c) = s).
  { unfold b_start at 1. change (b_order (basis_make_periodic b c)) with p. rewrite (kn_in k' (p - 1)%nat ltac:(rewrite mpg_length; lia) 0).
    replace (p - 1)%nat with (p - 1 + 0)%nat at 1 by lia. rewrite mpg_nth_mid by lia. rewrite Nat.add_0_r. reflexivity. }
  assert (He : b_end (basis_make_periodic b c) = e).
  { unfold b_end at 1. change (b_order (basis_make_periodic b c)) with p. rewrite mpg_length.
    rewrite (kn_in k' (length k - p)%nat ltac:(rewrite mpg_length; lia) 0).
    replace (length k - p)%nat with (p - 1 + (length k - 2 * p + 1))%nat at 1 by lia. rewrite mpg_nth_mid by lia.
    unfold b_end. f_equal. lia. }
  split; [|split; [exact Hs|split; [exact He|split; [|split; reflexivity]]]].
  - split; [exact Hp|]. split; [change (b_order (basis_make_periodic b c)) with p; rewrite mpg_length; exact Hlen|].
    split; [|rewrite Hs, He; exact Hse]. apply sorted_kn_of_nth. apply mpg_LSb.
  - unfold b_nfun at 1. change (b_order (basis_make_periodic b c)) with p. change (b_per1 (basis_make_periodic b c)) with (c + 1)%nat.
    rewrite mpg_length. lia.
Qed.
Lemma mpg_nth_head i : (i <= c)%nat -> nth i k' 0 = kn k (length k - p - c - 1 + i) - (e - s).
Proof.
  intros Hi. rewrite mpg_knots. rewrite app_nth1 by (rewrite map_length, mpg_head_length; lia).
  rewrite (nth_map0 (fun x => x + (s - e))) by (rewrite mpg_head_length; lia). rewrite nth_slice by lia. rewrite mpg_nk_nth by lia.
  replace (p - 1 + (length k - 2 * p - c + i))%nat with (length k - p - c - 1 + i)%nat by lia. ring.
Qed.
Lemma mpg_nth_r1 i : (c < i < p - 1)%nat -> nth i k' 0 = s.
Proof.
  intros Hi. rewrite mpg_knots. rewrite app_nth2 by (rewrite map_length, mpg_head_length; lia). rewrite map_length, mpg_head_length.
  rewrite app_nth1 by (rewrite repeat_length; lia). apply nth_repeat_lt. lia.
Qed.
Lemma mpg_nth_r2 i : (length k - p < i < length k - c - 1)%nat -> nth i k' 0 = e.
Proof.
  intros Hi. rewrite mpg_knots. rewrite app_nth2 by (rewrite map_length, mpg_head_length; lia). rewrite map_length, mpg_head_length.
  rewrite app_nth2 by (rewrite repeat_length; lia). rewrite repeat_length. rewrite app_nth2 by (rewrite mpg_nk_length; lia). rewrite mpg_nk_length.
  rewrite app_nth1 by (rewrite repeat_length; lia). apply nth_repeat_lt. lia.
Qed.
Lemma mpg_nth_tail i : (i <= c)%nat -> nth (length k - c - 1 + i) k' 0 = kn k (p + i) + (e - s).
Proof.
  intros Hi. rewrite mpg_knots. rewrite app_nth2 by (rewrite map_length, mpg_head_length; lia). rewrite map_length, mpg_head_length.
  rewrite app_nth2 by (rewrite repeat_length; lia). rewrite repeat_length. rewrite app_nth2 by (rewrite mpg_nk_length; lia). rewrite mpg_nk_length.
  rewrite app_nth2 by (rewrite repeat_length; lia). rewrite repeat_length.
  replace (length k - c - 1 + i - (c + 1) - (p - 2 - c) - (length k - 2 * p + 2) - (p - 2 - c))%nat with i by lia.
  rewrite (nth_map0 (fun x => x + (e - s))) by (rewrite mpg_tail_length; lia). rewrite nth_slice by lia. rewrite mpg_nk_nth by lia.
  replace (p - 1 + (1 + i))%nat with (p + i)%nat by lia. reflexivity.
Qed.

Lemma images_make_periodic : images_ok (basis_make_periodic b c).
Proof.
  destruct knots_ok_make_periodic as (_ & Hs & He & Hnf & _). pose proof Hb as (Hp & Hlen & HK & Hse).
  intros _ i Hi. rewrite Hs, He, Hnf in *. rewrite mpg_length in Hi.
  rewrite (kn_in k' (i + (length k - p - c - 1))%nat ltac:(rewrite mpg_length; lia) 0), (kn_in k' i ltac:(rewrite mpg_length; lia) 0).
  destruct (Nat.le_gt_cases i c) as [C1|C1].
  - rewrite (mpg_nth_head i C1). replace (i + (length k - p - c - 1))%nat with (p - 1 + (length k - 2 * p - c + i))%nat by lia.
    rewrite mpg_nth_mid by lia. replace (p - 1 + (length k - 2 * p - c + i))%nat with (length k - p - c - 1 + i)%nat by lia. ring.
  - destruct (Nat.lt_ge_cases i (p - 1)) as [C2|C2].
    + rewrite (mpg_nth_r1 i) by lia. destruct (Nat.eq_dec (i + (length k - p - c - 1)) (length k - p)) as [E0|N0].
      * rewrite E0. replace (length k - p)%nat with (p - 1 + (length k - 2 * p + 1))%nat at 1 by lia. rewrite mpg_nth_mid by lia.
        unfold b_end, b_start. replace (p - 1 + (length k - 2 * p + 1))%nat with (length k - p)%nat by lia. ring.
      * rewrite (mpg_nth_r2 (i + (length k - p - c - 1))) by lia. ring.
    + destruct (Nat.eq_dec i (p - 1)) as [E1|N1].
      * subst i. replace (nth (p - 1) k' 0) with (nth (p - 1 + 0) k' 0) by (f_equal; lia). rewrite (mpg_nth_mid 0) by lia. rewrite Nat.add_0_r.
        destruct (Nat.eq_dec p (c + 2)) as [E2|N2].
        -- replace (p - 1 + (length k - p - c - 1))%nat with (p - 1 + (length k - 2 * p + 1))%nat by lia. rewrite (mpg_nth_mid (length k - 2 * p + 1)) by lia.
           unfold b_end, b_start. replace (p - 1 + (length k - 2 * p + 1))%nat with (length k - p)%nat by lia. ring.
        -- rewrite (mpg_nth_r2 (p - 1 + (length k - p - c - 1))) by lia. unfold b_start. ring.
      * replace (i + (length k - p - c - 1))%nat with (length k - c - 1 + (i - p))%nat by lia. rewrite mpg_nth_tail by lia.
        replace (nth i k' 0) with (nth (p - 1 + (i - p + 1)) k' 0) by (f_equal; lia). rewrite (mpg_nth_mid (i - p + 1)) by lia. replace (p - 1 + (i - p + 1))%nat with (p + (i - p))%nat by lia. ring.
Qed.
End MakePer.

(* the merging matrix of make_periodic: convex combinations of unit rows *)
Lemma pos_row_intro n row : length row = n -> (forall j, (j < n)%nat -> 0 <= nth j row 0) -> (exists j, (j < n)%nat /\ 0 < nth j row 0) -> pos_row n row.
Proof.
  intros Hl Hn (j & Hj & Hp). split; [exact Hl|]. split.
  - apply Forall_forall. intros x Hx. destruct (In_nth _ _ 0 Hx) as (i & Hi & <-). apply Hn. lia.
  - apply Exists_exists. exists (nth j row 0). split; [apply nth_In; lia|exact Hp].
Qed.
Lemma pos_row_elim n row : pos_row n row -> length row = n /\ (forall j, (j < n)%nat -> 0 <= nth j row 0) /\ (exists j, (j < n)%nat /\ 0 < nth j row 0).
Proof.
  intros (Hl & Hn & Hp). split; [exact Hl|]. split.
  - intros j Hj. rewrite Forall_forall in Hn. apply Hn. apply nth_In. lia.
  - apply Exists_exists in Hp. destruct Hp as (x & Hx & Hpos). destruct (In_nth _ _ 0 Hx) as (i & Hi & <-). exists i. split; [lia|exact Hpos].
Qed.

Lemma pos_row_convex n t a b : 0 <= t <= 1 -> pos_row n a -> pos_row n b -> pos_row n (vadd (vscale t a) (vscale (nsub n1 t) b)).
Proof.
  intros Ht Ha Hb. apply pos_row_elim in Ha. apply pos_row_elim in Hb. destruct Ha as (La & Na & (ja & Hja & Pa)). destruct Hb as (Lb & Nb & (jb & Hjb & Pb)).
  assert (E : forall j, (j < n)%nat -> nth j (vadd (vscale t a) (vscale (nsub n1 t) b)) 0 = t * nth j a 0 + (1 - t) * nth j b 0).
  { intros j Hj. change (nth j (vadd (vscale t a) (vscale (nsub n1 t) b)) 0) with (coord j (vadd (vscale t a) (vscale (nsub n1 t) b))).
    rewrite coord_vadd by (rewrite length_vscale; lia). rewrite !coord_vscale. reflexivity. }
  apply pos_row_intro.
  - rewrite length_vadd, !length_vscale. lia.
  - intros j Hj. rewrite E by exact Hj. pose proof (Na j Hj). pose proof (Nb j Hj). nra.
  - destruct (Rle_lt_dec t 0) as [T0|T0].
    + exists jb. split; [exact Hjb|]. rewrite E by exact Hjb. pose proof (Na jb Hjb). nra.
    + exists ja. split; [exact Hja|]. rewrite E by exact Hja. pose proof (Nb ja Hja). nra.
Qed.

Lemma merge_t_range c i : (i <= c)%nat ->
  0 <= (if (c =? 0)%nat then ndiv n1 (nofZ 2%Z) else ndiv (@nofnat R NumR i) (@nofnat R NumR c)) <= 1.
Proof.
  intros Hi. destruct (Nat.eqb_spec c 0) as [->|Hc]; cbn [ndiv n1 nofZ NumR]; [lra|]. unfold nofnat. cbn [nofZ NumR].
  assert (0 < IZR (Z.of_nat c)) by (apply IZR_lt; lia). assert (0 <= IZR (Z.of_nat i)) by (apply IZR_le; lia).
  assert (IZR (Z.of_nat i) <= IZR (Z.of_nat c)) by (apply IZR_le; lia).
  split; [apply div_nonneg; lra|]. apply (Rmult_le_reg_r (IZR (Z.of_nat c))); [lra|]. unfold Rdiv. rewrite Rmult_assoc, Rinv_l by lra. lra.
Qed.

Lemma merge_matrix_rows n c : (c + 1 <= n)%nat ->
  length (periodic_merge_matrix n c) = (n - c - 1)%nat /\ Forall (pos_row n) (@periodic_merge_matrix R NumR n c).
Proof.
  intros Hn. unfold periodic_merge_matrix. cbv zeta.
  match goal with |- context [fold_left ?f _ _] => set (step := f) end.
  assert (G : forall idx rows, Forall (fun i => i <= c)%nat idx -> length rows = n -> Forall (pos_row n) rows ->
     length (fold_left step idx rows) = n /\ Forall (pos_row n) (fold_left step idx rows)).
  { induction idx as [|i idx IH]; intros rows Hidx Hl Hr; cbn [fold_left]; [split; assumption|].
    inversion Hidx; subst. apply IH; [assumption|unfold step; rewrite length_upd; reflexivity|].
    unfold step. apply Forall_upd; [exact Hr|]. apply pos_row_convex; [apply merge_t_range; assumption| |]; apply Forall_nth_in; try assumption; lia. }
  destruct (G (seq 0 (c + 1)) (map (@Periodic.unit_row R NumR n) (seq 0 n))) as [G1 G2].
  - apply Forall_forall. intros i Hi. apply in_seq in Hi. lia.
  - rewrite map_length, seq_length. reflexivity.
  - rewrite Forall_map. apply Forall_forall. intros i Hi. apply in_seq in Hi. apply unit_pos_row. lia.
  - split; [rewrite firstn_length, G1; lia|apply Forall_firstn; exact G2].
Qed.

(* SplineObject.make_periodic: side condition "at least order + continuity functions in that direction" *)
Definition guard_make_periodic (o : obj R) (cont : Z) (d : nat) : Prop :=
  let b := nth d (o_bases o) dflt_basis in (b_order b + Z.to_nat cont <= b_nfun b)%nat.

Lemma make_periodic_inv (o o' : obj R) cont d : inv o -> (d < length (o_bases o))%nat -> guard_make_periodic o cont d ->
  obj_make_periodic o cont d = Ok o' -> inv o'.
Proof.
  intros HI Hd G. pose proof HI as [HS HB]. unfold obj_make_periodic, guard_make_periodic in *. cbv zeta in *. fold dflt_basis.
  set (b := nth d (o_bases o) dflt_basis) in *.
  destruct (Z.ltb_spec cont (-1)) as [C1|C1]; [discriminate|]. destruct (Z.ltb_spec (Z.of_nat (b_order b) - 2) cont) as [C2|C2]; [discriminate|].
  cbn [orb]. destruct (Z.eqb_spec cont (-1)) as [C3|C3]; [discriminate|].
  destruct (Nat.eqb_spec (b_per1 b) 0) as [Hper|Hper]; [|discriminate]. cbn [negb]. intros [= <-].
  pose proof (Forall_nth_in _ _ d dflt_basis HB Hd) as Hb. fold b in Hb.
  assert (Hc : (Z.to_nat cont + 2 <= b_order b)%nat) by lia.
  assert (Hn : (2 * b_order b + Z.to_nat cont <= length (b_knots b))%nat) by (unfold b_nfun in G; lia).
  destruct (knots_ok_make_periodic b (Z.to_nat cont) Hb Hc Hn) as (K1 & K2 & K3 & K4 & K5 & K6).
  assert (Hm : (Z.to_nat cont + 1 <= b_nfun b)%nat) by lia.
  destruct (merge_matrix_rows (b_nfun b) (Z.to_nat cont) Hm) as [M1 M2].
  unfold obj_along. split.
  - apply shape_ok_along; [exact HS|exact Hd| |].
    + rewrite M1, K4. unfold b_nfun. rewrite Hper. lia.
    + rewrite M1. lia.
  - cbn [o_bases]. apply Forall_upd; assumption.
Qed.

Lemma make_periodic_weights (o o' : obj R) cont d : inv o -> weights_pos o -> (d < length (o_bases o))%nat -> guard_make_periodic o cont d ->
  obj_make_periodic o cont d = Ok o' -> weights_pos o'.
Proof.
  intros HI HW Hd G. pose proof HI as [HS HB]. unfold obj_make_periodic, guard_make_periodic in *. cbv zeta in *. fold dflt_basis.
  set (b := nth d (o_bases o) dflt_basis) in *.
  destruct (Z.ltb_spec cont (-1)) as [C1|C1]; [discriminate|]. destruct (Z.ltb_spec (Z.of_nat (b_order b) - 2) cont) as [C2|C2]; [discriminate|].
  cbn [orb]. destruct (Z.eqb_spec cont (-1)) as [C3|C3]; [discriminate|].
  destruct (Nat.eqb_spec (b_per1 b) 0) as [Hper|Hper]; [|discriminate]. cbn [negb]. intros [= <-].
  assert (Hm : (Z.to_nat cont + 1 <= b_nfun b)%nat) by lia.
  destruct (merge_matrix_rows (b_nfun b) (Z.to_nat cont) Hm) as [M1 M2].
  unfold obj_along, weights_pos. cbn [o_rat o_cps o_dim]. intros Hr. destruct HS as (HL & HV & HP).
  apply (apply_dir_wpos (o_ncomp o) (o_dim o)).
  - unfold o_ncomp. rewrite Hr. lia.
  - unfold o_shape. rewrite map_length. exact Hd.
  - exact HL.
  - exact HP.
  - rewrite o_shape_nth by exact Hd. exact M2.
  - exact HV.
  - apply HW. exact Hr.
Qed.

(* ------------------------------------------------------------------------------------------------ *)
(* raise_order: the new knot vector of a non-periodic direction whose domain is wider than the tolerance *)
Lemma lsorted_nth (l : list R) : lsorted l -> lsortedn l.
Proof.
  induction 1 as [|x|x y l Hxy Hs IH]; intros i j Hij; cbn [length] in Hij.
  - lia.
  - assert (i = 0%nat) by lia. assert (j = 0%nat) by lia. subst. lra.
  - destruct i as [|i]; destruct j as [|j]; try lia; cbn [nth]; [lra| |].
    + pose proof (IH 0%nat j ltac:(cbn [length]; lia)) as H0. cbn [nth] in H0. lra.
    + apply (IH i j). cbn [length]. lia.
Qed.

Lemma perm_filter_length {A} (f : A -> bool) (l l' : list A) : Permutation l l' -> length (filter f l) = length (filter f l').
Proof.
  induction 1 as [|x l l' H IH|x y l|l l' l'' H1 IH1 H2 IH2]; cbn [filter]; [reflexivity| | |congruence].
  - destruct (f x); cbn [length]; congruence.
  - destruct (f x), (f y); reflexivity.
Qed.

Lemma filter_all {A} (f : A -> bool) (l : list A) : (forall x, In x l -> f x = true) -> filter f l = l.
Proof. induction l as [|a l IH]; intros H; cbn [filter]; [reflexivity|]. rewrite (H a (or_introl eq_refl)). f_equal. apply IH. intros x Hx. apply H. right. exact Hx. Qed.
Lemma filter_none {A} (f : A -> bool) (l : list A) : (forall x, In x l -> f x = false) -> filter f l = [].
Proof. induction l as [|a l IH]; intros H; cbn [filter]; [reflexivity|]. rewrite (H a (or_introl eq_refl)). apply IH. intros x Hx. apply H. right. exact Hx. Qed.
Lemma filter_length_le {A} (f : A -> bool) (l : list A) : (length (filter f l) <= length l)%nat.
Proof. induction l as [|a l IH]; cbn [filter length]; [lia|]. destruct (f a); cbn [length]; lia. Qed.

Lemma In_skipn_nth (l : list R) m x : In x (skipn m l) -> exists i, (m <= i < length l)%nat /\ nth i l 0 = x.
Proof.
  intros H. destruct (In_nth _ _ 0 H) as (j & Hj & Ej). rewrite skipn_length in Hj. rewrite nth_skipn_add in Ej. exists (m + j)%nat. split; [lia|exact Ej].
Qed.
Lemma In_firstn_nth (l : list R) m x : In x (firstn m l) -> exists i, (i < m)%nat /\ (i < length l)%nat /\ nth i l 0 = x.
Proof.
  intros H. destruct (In_nth _ _ 0 H) as (j & Hj & Ej). rewrite firstn_length in Hj. rewrite nth_firstn_lt in Ej by lia. exists j. split; [lia|split; [lia|exact Ej]].
Qed.

(* counting in an index-sorted list *)
Lemma count_le_nth (K : list R) s m : lsortedn K -> (1 <= m)%nat -> (m <= length (filter (fun x => Rleb x s) K))%nat -> nth (m - 1) K 0 <= s.
Proof.
  intros HS Hm Hc. destruct (Rle_lt_dec (nth (m - 1) K 0) s) as [L|L]; [exact L|exfalso].
  pose proof (filter_length_le (fun x => Rleb x s) K) as HL.
  rewrite <- (firstn_skipn (m - 1) K) in Hc. rewrite filter_app, app_length in Hc.
  rewrite (filter_none _ (skipn (m - 1) K)) in Hc.
  - pose proof (filter_length_le (fun x => Rleb x s) (firstn (m - 1) K)). rewrite firstn_length in H. cbn [length] in Hc. lia.
  - intros x Hx. destruct (In_skipn_nth _ _ _ Hx) as (i & Hi & <-). pose proof (HS (m - 1)%nat i ltac:(lia)).
    destruct (Rleb_spec (nth i K 0) s); [lra|reflexivity].
Qed.

Lemma count_gt_nth (K : list R) s m : lsortedn K -> (1 <= m)%nat -> (m <= length (filter (fun x => Rltb s x) K))%nat -> s < nth (length K - m) K 0.
Proof.
  intros HS Hm Hc. destruct (Rlt_le_dec s (nth (length K - m) K 0)) as [L|L]; [exact L|exfalso].
  pose proof (filter_length_le (fun x => Rltb s x) K) as HL.
  rewrite <- (firstn_skipn (length K - m + 1) K) in Hc. rewrite filter_app, app_length in Hc.
  rewrite (filter_none _ (firstn (length K - m + 1) K)) in Hc.
  - pose proof (filter_length_le (fun x => Rltb s x) (skipn (length K - m + 1) K)). rewrite skipn_length in H. cbn [length] in Hc. lia.
  - intros x Hx. destruct (In_firstn_nth _ _ _ Hx) as (i & Hi & Hi' & <-). pose proof (HS i (length K - m)%nat ltac:(lia)).
    destruct (Rltb_spec s (nth i K 0)); [lra|reflexivity].
Qed.

Lemma count_prefix_ge {A} (f : A -> bool) (l : list A) m : (m <= length l)%nat -> (forall x, In x (firstn m l) -> f x = true) -> (m <= length (filter f l))%nat.
Proof.
  intros Hm H. rewrite <- (firstn_skipn m l) at 1. rewrite filter_app, app_length, (filter_all f (firstn m l) H), firstn_length. lia.
Qed.
Lemma count_suffix_ge {A} (f : A -> bool) (l : list A) m : (m <= length l)%nat -> (forall x, In x (skipn (length l - m) l) -> f x = true) -> (m <= length (filter f l))%nat.
Proof.
  intros Hm H. rewrite <- (firstn_skipn (length l - m) l) at 1. rewrite filter_app, app_length, (filter_all f (skipn (length l - m) l) H), skipn_length. lia.
Qed.

Lemma repeat_list_len {A} (sp : list A) a : length (repeat_list sp a) = (a * length sp)%nat.
Proof. induction a as [|a IH]; cbn [repeat_list]; [reflexivity|]. rewrite app_length, IH. lia. Qed.
Lemma count_repeat_list_ge {A} (f : A -> bool) (sp : list A) a : (exists v, In v sp /\ f v = true) -> (a <= length (filter f (repeat_list sp a)))%nat.
Proof.
  intros (v & Hv & Hf). induction a as [|a IH]; cbn [repeat_list]; [lia|]. rewrite filter_app, app_length.
  assert (1 <= length (filter f sp))%nat.
  { assert (In v (filter f sp)) by (apply filter_In; split; assumption). destruct (filter f sp); [contradiction|cbn; lia]. }
  lia.
Qed.

(* some representative picked by uniq_tol lies above s, if some knot lies more than tol above s *)
Lemma uniq_tol_reaches (tol s : R) : 0 <= tol -> forall l last, last <= s -> (exists y, In y l /\ tol < y - s) ->
  exists v, In v (uniq_tol tol last l) /\ s < v.
Proof.
  intros Htol. induction l as [|x l IH]; intros last Hl (y & Hy & Hys); [contradiction|].
  cbn [uniq_tol]. unfold nabs. cbn [nltb nsub n0 NumR].
  destruct (Rltb_spec tol (if Rltb (x - last) 0 then 0 - (x - last) else x - last)) as [P|P].
  - destruct (Rlt_le_dec s x) as [Sx|Sx]; [exists x; split; [left; reflexivity|exact Sx]|].
    destruct (IH x Sx) as (v & Hv & Hsv).
    + destruct Hy as [->|Hy]; [lra|]. exists y. split; assumption.
    + exists v. split; [right; exact Hv|exact Hsv].
  - destruct (IH last Hl) as (v & Hv & Hsv); [|exists v; split; assumption].
    destruct Hy as [->|Hy]; [|exists y; split; assumption]. exfalso.
    destruct (Rltb_spec (y - last) 0); lra.
Qed.

Section RaiseBasis.
Variable tol : R.
Variable b : basis R.
Variable a : nat.
Hypothesis Htol : 0 <= tol.
Hypothesis Hb : knots_ok b.
Hypothesis Hper : b_per1 b = 0%nat.
Hypothesis Hwide : tol < b_end b - b_start b.
Hypothesis Ha : (0 < a)%nat.
Local Notation p := (b_order b).
Local Notation k := (b_knots b).
Local Notation s := (b_start b).
Local Notation e := (b_end b).
Local Notation spans := (knot_spans tol b true).
Local Notation L := (k ++ repeat_list spans a).
Local Notation K' := (sort_list L).

Lemma rb_basis : basis_raise_order tol b a = mkBasis (p + a) K' 0.
Proof. unfold basis_raise_order. destruct (Nat.eqb_spec a 0); [lia|]. cbv zeta. rewrite Hper. reflexivity. Qed.

Lemma rb_spans : spans = kn k 0 :: uniq_tol tol (kn k 0) k.
Proof. reflexivity. Qed.

Lemma rb_e_in : In e k.
Proof. destruct Hb as (Hp & Hlen & HK & Hse). unfold b_end. rewrite (kn_in k (length k - p)%nat ltac:(lia) 0). apply nth_In. lia. Qed.

Lemma rb_span_above : exists v, In v spans /\ s < v.
Proof.
  destruct Hb as (Hp & Hlen & HK & Hse).
  destruct (uniq_tol_reaches tol s Htol k (kn k 0)) as (v & Hv & Hsv).
  - unfold b_start. apply HK. lia.
  - exists e. split; [exact rb_e_in|lra].
  - exists v. split; [rewrite rb_spans; right; exact Hv|exact Hsv].
Qed.

Lemma rb_spans_two : (2 <= length spans)%nat.
Proof.
  destruct rb_span_above as (v & Hv & Hsv). rewrite rb_spans in *. destruct Hv as [E|Hv].
  - exfalso. destruct Hb as (Hp & Hlen & HK & Hse). pose proof (HK 0%nat (p - 1)%nat ltac:(lia)). unfold b_start in Hsv. lra.
  - destruct (uniq_tol tol (kn k 0) k); [contradiction|cbn [length]; lia].
Qed.

Lemma rb_K_sorted : lsortedn K'.
Proof. apply lsorted_nth. apply sort_list_sorted. Qed.

Lemma rb_K_length : length K' = (length k + a * length spans)%nat.
Proof. rewrite (Permutation_length (sort_list_perm L)), app_length, repeat_list_len. reflexivity. Qed.

Lemma rb_count_le : (p + a <= length (filter (fun x => Rleb x s) K'))%nat.
Proof.
  destruct Hb as (Hp & Hlen & HK & Hse). rewrite (perm_filter_length _ _ _ (sort_list_perm L)), filter_app, app_length.
  assert (p <= length (filter (fun x => Rleb x s) k))%nat.
  { apply count_prefix_ge; [lia|]. intros x Hx. destruct (In_firstn_nth _ _ _ Hx) as (i & Hi & Hi' & <-).
    rewrite <- (kn_in k i) by lia. pose proof (HK i (p - 1)%nat ltac:(lia)). unfold b_start. destruct (Rleb_spec (kn k i) (kn k (p - 1))); [reflexivity|lra]. }
  assert (a <= length (filter (fun x => Rleb x s) (repeat_list spans a)))%nat.
  { apply count_repeat_list_ge. exists (kn k 0). split; [rewrite rb_spans; left; reflexivity|].
    pose proof (HK 0%nat (p - 1)%nat ltac:(lia)). unfold b_start. destruct (Rleb_spec (kn k 0) (kn k (p - 1))); [reflexivity|lra]. }
  lia.
Qed.

Lemma rb_count_gt : (p + a <= length (filter (fun x => Rltb s x) K'))%nat.
Proof.
  destruct Hb as (Hp & Hlen & HK & Hse). rewrite (perm_filter_length _ _ _ (sort_list_perm L)), filter_app, app_length.
  assert (p <= length (filter (fun x => Rltb s x) k))%nat.
  { apply count_suffix_ge; [lia|]. intros x Hx. destruct (In_skipn_nth _ _ _ Hx) as (i & Hi & <-).
    rewrite <- (kn_in k i) by lia. pose proof (HK (length k - p)%nat i ltac:(lia)). unfold b_end in Hse.
    destruct (Rltb_spec s (kn k i)); [reflexivity|lra]. }
  assert (a <= length (filter (fun x => Rltb s x) (repeat_list spans a)))%nat.
  { apply count_repeat_list_ge. destruct rb_span_above as (v & Hv & Hsv). exists v. split; [exact Hv|].
    destruct (Rltb_spec s v); [reflexivity|lra]. }
  lia.
Qed.

Lemma knots_ok_raise : knots_ok (basis_raise_order tol b a) /\ (0 < b_nfun (basis_raise_order tol b a))%nat /\
  b_per1 (basis_raise_order tol b a) = 0%nat /\ b_order (basis_raise_order tol b a) = (p + a)%nat.
Proof.
  rewrite rb_basis. pose proof Hb as (Hp & Hlen & HK & Hse). pose proof rb_spans_two as H2. pose proof rb_K_length as HL.
  assert (Hlen' : (2 * (p + a) <= length K')%nat) by (rewrite HL; nia).
  assert (Hs' : b_start (mkBasis (p + a) K' 0) <= s).
  { unfold b_start at 1. cbn [b_order b_knots]. rewrite (kn_in K' (p + a - 1)%nat ltac:(lia) 0).
    apply count_le_nth; [exact rb_K_sorted|lia|exact rb_count_le]. }
  assert (He' : s < b_end (mkBasis (p + a) K' 0)).
  { unfold b_end at 1. cbn [b_order b_knots]. rewrite (kn_in K' (length K' - (p + a))%nat ltac:(lia) 0).
    apply count_gt_nth; [exact rb_K_sorted|lia|exact rb_count_gt]. }
  split; [|split; [unfold b_nfun; cbn [b_order b_knots b_per1]; lia|split; reflexivity]].
  split; [cbn [b_order]; lia|]. split; [exact Hlen'|]. split; [apply sorted_kn_of_nth; exact rb_K_sorted|lra].
Qed.
End RaiseBasis.

(* ------------------------------------------------------------------------------------------------ *)
(* replacing bases by interpolation at the Greville points (raise_order / lower_order): shapes and knots *)
Definition basis_good (b : basis R) : Prop := knots_ok b /\ (0 < b_nfun b)%nat.

Lemma order_change_matrix_length tol (bo bn : basis R) M : order_change_matrix tol bo bn = Ok M -> length M = b_nfun bn.
Proof.
  unfold order_change_matrix. cbv zeta. destruct (inverse _) as [Ai|er] eqn:EI; [|discriminate]. intros [= <-].
  rewrite matmul_length. destruct (inverse_spec _ _ EI) as (_ & _ & [HL _]). rewrite HL.
  destruct (InterpProofs.colloc_mat tol bn 0 (greville_pts bn)) as [HC _]. rewrite HC. unfold greville_pts. rewrite map_length, seq_length. reflexivity.
Qed.

Lemma change_bases_inv tol : forall (news : list (basis R)) (o : obj R) d (o' : obj R), inv o ->
  (d + length news <= length (o_bases o))%nat -> Forall basis_good news -> obj_change_bases tol o d news = Ok o' ->
  inv o' /\ length (o_bases o') = length (o_bases o) /\ o_dim o' = o_dim o /\ o_rat o' = o_rat o /\
  forall i, nth i (o_bases o') dflt_basis =
    if (d <=? i)%nat && (i <? d + length news)%nat then nth (i - d) news dflt_basis else nth i (o_bases o) dflt_basis.
Proof.
  induction news as [|bn rest IH]; intros o d o' HI Hd HN; cbn [obj_change_bases].
  - intros [= <-]. split; [exact HI|]. repeat split. intros i. cbn [length]. rewrite Nat.add_0_r.
    destruct (Nat.leb_spec d i); destruct (Nat.ltb_spec i d); cbn [andb]; try reflexivity; lia.
  - cbn [length] in Hd. inversion HN as [|? ? [Hk Hn] HN']; subst.
    destruct (order_change_matrix tol (nth d (o_bases o) (mkBasis 0 [] 0)) bn) as [M|er] eqn:EM; [|discriminate].
    pose proof (order_change_matrix_length _ _ _ _ EM) as HM.
    set (o1 := mkObj (upd (o_bases o) d bn) (apply_dir (o_ncomp o) (o_shape o) d M (o_cps o)) (o_dim o) (o_rat o)).
    assert (HI1 : inv o1).
    { destruct HI as [HS HB]. split; [apply shape_ok_along; [exact HS|lia|exact HM|lia]|]. cbn [o1 o_bases]. apply Forall_upd; assumption. }
    intros E. destruct (IH o1 (S d) o' HI1) as (R1 & R2 & R3 & R4 & R5); [cbn [o1 o_bases]; rewrite upd_length; lia|exact HN'|exact E|].
    split; [exact R1|]. split; [rewrite R2; cbn [o1 o_bases]; apply upd_length|]. split; [exact R3|]. split; [exact R4|].
    intros i. rewrite R5. cbn [o1 o_bases length].
    destruct (Nat.leb_spec (S d) i) as [A|A]; destruct (Nat.ltb_spec i (S d + length rest)) as [B|B]; cbn [andb].
    + destruct (Nat.leb_spec d i); [|lia]. destruct (Nat.ltb_spec i (d + S (length rest))); [|lia]. cbn [andb].
      replace (i - d)%nat with (S (i - S d)) by lia. reflexivity.
    + destruct (Nat.ltb_spec i (d + S (length rest))); [lia|]. rewrite andb_false_r. apply upd_nth_other. lia.
    + destruct (Nat.eq_dec i d) as [->|Ne].
      * rewrite InsertEndToEnd.upd_nth_same by lia. destruct (Nat.leb_spec d d); [|lia]. destruct (Nat.ltb_spec d (d + S (length rest))); [|lia].
        cbn [andb]. rewrite Nat.sub_diag. reflexivity.
      * rewrite upd_nth_other by exact Ne. destruct (Nat.leb_spec d i); [lia|]. reflexivity.
    + lia.
Qed.

Lemma combine_nth_gen {A B} (l1 : list A) (l2 : list B) i d1 d2 : (i < Nat.min (length l1) (length l2))%nat ->
  nth i (combine l1 l2) (d1, d2) = (nth i l1 d1, nth i l2 d2).
Proof.
  revert l2 i. induction l1 as [|a l1 IH]; intros l2 i Hi; [cbn in Hi; lia|]. destruct l2 as [|b l2]; [cbn in Hi; lia|].
  destruct i; cbn [combine nth]; [reflexivity|]. apply IH. cbn in Hi. lia.
Qed.

(* SplineObject.raise_order: in every direction that is raised the basis is non-periodic and its domain is wider than
   the tolerance (so that knot_spans finds at least two distinct knots) *)
Definition raise_dir_ok (tol : R) (b : basis R) (a : nat) : Prop :=
  a = 0%nat \/ (b_per1 b = 0%nat /\ tol < b_end b - b_start b).
Definition guard_raise (tol : R) (o : obj R) (raises : list nat) : Prop :=
  0 <= tol /\ forall i, (i < length (o_bases o))%nat -> raise_dir_ok tol (nth i (o_bases o) dflt_basis) (nth i raises 0%nat).

Lemma basis_good_raise tol (b : basis R) a : 0 <= tol -> basis_good b -> raise_dir_ok tol b a -> basis_good (basis_raise_order tol b a).
Proof.
  intros Htol [Hk Hn] [->|[Hper Hw]]; [split; assumption|].
  destruct (Nat.eq_dec a 0) as [->|Ha]; [split; assumption|].
  destruct (knots_ok_raise tol b a Htol Hk Hper Hw ltac:(lia)) as (K1 & K2 & _). split; assumption.
Qed.

Lemma raise_news_good tol : 0 <= tol -> forall (bs : list (basis R)) raises, Forall basis_good bs ->
  (forall i, (i < length bs)%nat -> raise_dir_ok tol (nth i bs dflt_basis) (nth i raises 0%nat)) ->
  Forall basis_good (map (fun br : basis R * nat => basis_raise_order tol (fst br) (snd br)) (combine bs raises)).
Proof.
  intros Htol. induction bs as [|b bs IH]; intros raises HB HG; [constructor|]. destruct raises as [|a raises]; [constructor|].
  inversion HB; subst. cbn [combine map fst snd]. constructor.
  - apply basis_good_raise; [exact Htol|assumption|]. apply (HG 0%nat). cbn. lia.
  - apply IH; [assumption|]. intros i Hi. apply (HG (S i)). cbn. lia.
Qed.

Lemma inv_bases_good (o : obj R) : inv o -> Forall basis_good (o_bases o).
Proof.
  intros HI. pose proof (inv_nfun_pos o HI) as HN. destruct HI as [_ HB]. apply Forall_forall. intros b Hb.
  rewrite Forall_forall in HB, HN. split; [apply HB|apply HN]; exact Hb.
Qed.

Lemma raise_order_inv tol (o o' : obj R) raises : inv o -> guard_raise tol o raises -> obj_raise_order tol o raises = Ok o' ->
  inv o' /\ length (o_bases o') = length (o_bases o) /\ o_dim o' = o_dim o /\ o_rat o' = o_rat o /\
  forall i, nth i (o_bases o') dflt_basis =
    if (i <? Nat.min (length (o_bases o)) (length raises))%nat then basis_raise_order tol (nth i (o_bases o) dflt_basis) (nth i raises 0%nat)
    else nth i (o_bases o) dflt_basis.
Proof.
  intros HI [Htol HG]. unfold obj_raise_order. destruct (forallb _ raises) eqn:EZ.
  - intros [= <-]. split; [exact HI|]. repeat split. intros i.
    destruct (Nat.ltb_spec i (Nat.min (length (o_bases o)) (length raises))) as [L|L]; [|reflexivity].
    rewrite forallb_forall in EZ. assert (E0 : nth i raises 0%nat = 0%nat) by (apply Nat.eqb_eq, EZ, nth_In; lia).
    rewrite E0. reflexivity.
  - destruct (_ && _); [discriminate|]. intros E.
    set (news := map (fun br : basis R * nat => basis_raise_order tol (fst br) (snd br)) (combine (o_bases o) raises)) in *.
    assert (Hln : length news = Nat.min (length (o_bases o)) (length raises)) by (unfold news; rewrite map_length, combine_length; reflexivity).
    destruct (change_bases_inv tol news o 0 o' HI) as (R1 & R2 & R3 & R4 & R5); [lia|apply raise_news_good; [exact Htol|apply inv_bases_good; exact HI|exact HG]|exact E|].
    split; [exact R1|]. split; [exact R2|]. split; [exact R3|]. split; [exact R4|]. intros i. rewrite R5. cbn [Nat.leb andb Nat.add]. rewrite Hln, Nat.sub_0_r.
    destruct (Nat.ltb_spec i (Nat.min (length (o_bases o)) (length raises))) as [L|L]; [|reflexivity].
    unfold news. rewrite (nth_map_gen _ _ i dflt_basis (dflt_basis, 0%nat)) by (rewrite combine_length; exact L).
    rewrite combine_nth_gen by exact L. reflexivity.
Qed.

(* ------------------------------------------------------------------------------------------------ *)
(* split: a piece of a split in a non-periodic direction (hypotheses of Proofs/SplitCompose.v) *)
Lemma wf_obj_inv tol (o : obj R) : 0 < tol -> wf_obj_R tol o -> inv o.
Proof.
  intros Htol (HB & HV & HL). split.
  - split; [exact HL|]. split; [exact HV|]. fold (prodl (o_shape o)). apply prodl_pos_iff. unfold o_shape. rewrite Forall_map.
    apply Forall_forall. intros b Hb. rewrite Forall_forall in HB. destruct (HB b Hb) as (_ & _ & _ & Hn & _). exact Hn.
  - apply Forall_forall. intros b Hb. rewrite Forall_forall in HB. destruct (HB b Hb) as (HK & Hp & Hlen & _ & Hw).
    split; [exact Hp|]. split; [exact Hlen|]. split; [exact HK|lra].
Qed.

Definition guard_split (tol : R) (o : obj R) (d : nat) (ks : list R) : Prop := exists p k, split_hyps tol o d p k ks.

Lemma split_pick_inv tol (o o' : obj R) d ks idx : guard_split tol o d ks ->
  step2 tol o (OpSplitPick d ks idx) = Ok o' -> inv o' /\ length (o_bases o') = length (o_bases o).
Proof.
  intros (p & k & H). cbn [step2]. destruct (d <? o_pardim o)%nat; [|discriminate].
  destruct (obj_split (S (length ks)) tol o d ks) as [ps|er] eqn:E; [|discriminate].
  destruct (nth_error ps idx) as [pc|] eqn:En; [|discriminate]. intros [= <-].
  assert (Hidx : (idx < length ps)%nat) by (apply nth_error_Some; congruence).
  rewrite (split_length tol o d p k ks H _ _ E) in Hidx.
  destruct (split_tiling tol o d p k ks H _ _ E idx ltac:(lia)) as (T1 & T2 & _). cbv zeta in T1, T2.
  rewrite (nth_error_nth ps idx o En) in T1, T2. split; [|exact T2]. apply (wf_obj_inv tol); [exact (sh_tol _ _ _ _ _ _ H)|exact T1].
Qed.

(* positive weights of the pieces *)
Lemma along_weights (so : obj R) d (bnew : basis R) (M : list (list R)) : inv so -> weights_pos so -> (d < length (o_bases so))%nat ->
  Forall (pos_row (b_nfun (nth d (o_bases so) dflt_basis))) M -> weights_pos (obj_along so d bnew M).
Proof.
  intros [(HL & HV & HP) HB] HW Hd HM. unfold obj_along, weights_pos. cbn [o_rat o_cps o_dim]. intros Hr.
  apply (apply_dir_wpos (o_ncomp so) (o_dim so)).
  - unfold o_ncomp. rewrite Hr. lia.
  - unfold o_shape. rewrite map_length. exact Hd.
  - exact HL.
  - exact HP.
  - rewrite o_shape_nth by exact Hd. exact HM.
  - exact HV.
  - apply HW. exact Hr.
Qed.

Lemma slice_matrix_pos_rows n a len : (len = 0 \/ a + len <= n)%nat -> Forall (pos_row n) (@slice_matrix R NumR n a len).
Proof.
  intros H. unfold slice_matrix. apply Forall_forall. intros row Hrow. apply in_map_iff in Hrow. destruct Hrow as (i & <- & Hi).
  apply in_seq in Hi. apply unit_pos_row. lia.
Qed.

Lemma bisect_left_mono (k : list R) x y : sorted (kn k) -> x <= y -> (py_bisect_left k x <= py_bisect_left k y)%nat.
Proof.
  intros HK Hxy. unfold py_bisect_left.
  destruct (bisect_left_spec (kn k) HK x (length k)) as (A1 & B1 & C1). destruct (bisect_left_spec (kn k) HK y (length k)) as (A2 & B2 & C2).
  cbv zeta in *. destruct (Nat.le_gt_cases (bisect_left (kn k) x (length k)) (bisect_left (kn k) y (length k))) as [L|L]; [exact L|exfalso].
  pose proof (B1 _ L). pose proof (C2 (bisect_left (kn k) y (length k)) ltac:(lia)). lra.
Qed.
Lemma bisect_left_le (k : list R) x i : sorted (kn k) -> (i < length k)%nat -> x <= kn k i -> (py_bisect_left k x <= i)%nat.
Proof.
  intros HK Hi Hx. unfold py_bisect_left. destruct (bisect_left_spec (kn k) HK x (length k)) as (A1 & B1 & C1). cbv zeta in *.
  destruct (Nat.le_gt_cases (bisect_left (kn k) x (length k)) i) as [L|L]; [exact L|exfalso]. pose proof (B1 i L). lra.
Qed.

Lemma split_insert_keeps tol (b0 : basis R) d : forall ks (o so : obj R), inv o -> weights_pos o -> (d < length (o_bases o))%nat ->
  b_per1 (nth d (o_bases o) dflt_basis) = 0%nat -> Forall (fun x => x < b_end b0) ks -> b_end b0 <= b_end (nth d (o_bases o) dflt_basis) ->
  split_insert tol b0 o d ks = Ok so ->
  inv so /\ weights_pos so /\ length (o_bases so) = length (o_bases o) /\ b_per1 (nth d (o_bases so) dflt_basis) = 0%nat /\
  b_end b0 <= b_end (nth d (o_bases so) dflt_basis).
Proof.
  induction ks as [|x rest IH]; intros o so HI HW Hd Hper Hks He; cbn [split_insert]; [intros [= <-]; split; [exact HI|split; [exact HW|split; [reflexivity|split; assumption]]]|].
  destruct (basis_continuity tol b0 x) as [c|er]; [|discriminate].
  set (xs := repeat x _). destruct (obj_insert_knots o d xs) as [o1|er] eqn:E1; [|discriminate].
  inversion Hks as [|? ? Hx Hks']; subst.
  assert (Es : step o (OpInsert d xs) = Ok o1) by (cbn [step]; unfold o_pardim; destruct (Nat.ltb_spec d (length (o_bases o))); [exact E1|lia]).
  pose proof (step_preserves_inv o o1 (OpInsert d xs) HI (or_introl Hper) Es) as HI1.
  destruct HI as [HS HB]. destruct (insert_knots_shape xs o o1 d HS Hd E1) as [_ Hl1].
  destruct (insert_knots_bases xs o o1 d HB Hd Hper E1) as (_ & P1 & _ & P2 & _).
  assert (HW1 : weights_pos o1).
  { apply (insert_knots_weights xs o o1 d (conj HS HB) HW Hd Hper); [|exact E1]. apply Forall_forall. intros y Hy.
    apply repeat_spec in Hy. subst y. lra. }
  intros E. destruct (IH o1 so HI1 HW1 ltac:(lia) P1 Hks' ltac:(lra) E) as (R1 & R2 & R3 & R4 & R5).
  split; [exact R1|]. split; [exact R2|]. split; [congruence|]. split; assumption.
Qed.

Section SplitPieces.
Variable so : obj R.
Variable d : nat.
Variables st en : R.
Hypothesis HI : inv so.
Hypothesis HW : weights_pos so.
Hypothesis Hd : (d < length (o_bases so))%nat.
Hypothesis Hper : b_per1 (nth d (o_bases so) dflt_basis) = 0%nat.
Hypothesis Hen : en <= b_end (nth d (o_bases so) dflt_basis).
Local Notation bd := (nth d (o_bases so) dflt_basis).

Lemma split_pieces_weights : forall ks lk lc, (lc <= lk)%nat -> StronglySorted Rle ks ->
  (forall x, In x ks -> (lk <= py_bisect_left (b_knots bd) x)%nat) ->
  Forall weights_pos (split_pieces so d st en ks lk lc).
Proof.
  pose proof HI as [HS HB]. pose proof (Forall_nth_in _ _ d dflt_basis HB Hd) as (Hp & Hlen & HK & Hse).
  induction ks as [|x rest IH]; intros lk lc Hl HSS Hmu; cbn [split_pieces]; fold dflt_basis.
  - constructor; [|constructor]. apply along_weights; try assumption. apply slice_matrix_pos_rows. lia.
  - cbv zeta. apply StronglySorted_inv in HSS. destruct HSS as [HSS Hx].
    cbn [nltb NumR]. destruct (Rltb_spec st x) as [A|A]; cbn [andb]; [|apply IH; [exact Hl|exact HSS|intros y Hy; apply Hmu; right; exact Hy]].
    destruct (Rltb_spec x en) as [A'|A']; [|apply IH; [exact Hl|exact HSS|intros y Hy; apply Hmu; right; exact Hy]].
    set (mu := py_bisect_left (b_knots bd) x).
    assert (Hmu1 : (lk <= mu)%nat) by (apply Hmu; left; reflexivity).
    assert (Hmu2 : (mu <= b_nfun bd)%nat).
    { unfold b_nfun. rewrite Hper, Nat.sub_0_r. apply bisect_left_le; [exact HK|lia|]. unfold b_end in Hen. lra. }
    constructor.
    + apply along_weights; try assumption. apply slice_matrix_pos_rows. lia.
    + apply IH; [lia|exact HSS|]. intros y Hy. apply bisect_left_mono; [exact HK|]. rewrite Forall_forall in Hx. apply Hx. exact Hy.
Qed.
End SplitPieces.

Lemma split_pick_weights tol (o o' : obj R) d ks idx : guard_split tol o d ks -> weights_pos o ->
  step2 tol o (OpSplitPick d ks idx) = Ok o' -> weights_pos o'.
Proof.
  intros (p & k & H) HW. cbn [step2]. destruct (Nat.ltb_spec d (o_pardim o)) as [Hd|Hd]; [|discriminate]. unfold o_pardim in Hd.
  pose proof (sh_tol _ _ _ _ _ _ H) as Htol. pose proof (wf_obj_inv tol o Htol (sh_wf _ _ _ _ _ _ H)) as HI.
  pose proof (sh_basis _ _ _ _ _ _ H) as Hb0.
  assert (Hper : b_per1 (nth d (o_bases o) dflt_basis) = 0%nat) by (rewrite Hb0; reflexivity).
  cbn [obj_split]. fold dflt_basis. set (b0 := nth d (o_bases o) dflt_basis) in *.
  destruct (split_insert tol b0 o d ks) as [so|er] eqn:ES; [|discriminate].
  assert (Hks : Forall (fun x => x < b_end b0) ks).
  { pose proof (sh_inside _ _ _ _ _ _ H) as Hin. apply Forall_forall. intros x Hx. rewrite Forall_forall in Hin. destruct (Hin x Hx) as [_ B].
    rewrite Hb0. exact B. }
  destruct (split_insert_keeps tol b0 d ks o so HI HW Hd Hper Hks ltac:(unfold b0; lra) ES) as (R1 & R2 & R3 & R4 & R5).
  rewrite R4. cbn [Nat.eqb negb].
  destruct (nth_error _ idx) as [pc|] eqn:En; [|discriminate]. intros [= <-].
  assert (HF : Forall weights_pos (split_pieces so d (b_start b0) (b_end b0) ks 0 0)).
  { apply split_pieces_weights; try assumption; [lia|lia| |intros; lia].
    apply (ssorted_impl Rlt); [intros a b0' Hab; lra|exact (sh_incr _ _ _ _ _ _ H)]. }
  rewrite Forall_forall in HF. apply HF. apply (nth_error_In _ _ En).
Qed.

(* ------------------------------------------------------------------------------------------------ *)
(* make_splines_compatible *)
Lemma force_rational_facts (o : obj R) : inv o ->
  inv (obj_force_rational o) /\ o_bases (obj_force_rational o) = o_bases o /\ o_dim (obj_force_rational o) = o_dim o /\
  o_rat (obj_force_rational o) = true /\ (weights_pos o -> weights_pos (obj_force_rational o)).
Proof.
  intros HI. split; [apply (step_preserves_inv o _ OpForceRational HI I eq_refl)|].
  split; [unfold obj_force_rational; destruct (o_rat o); reflexivity|]. split; [unfold obj_force_rational; destruct (o_rat o); reflexivity|].
  split; [unfold obj_force_rational; destruct (o_rat o) eqn:E; [exact E|reflexivity]|].
  intros HW. apply (step_preserves_weights o _ OpForceRational HI HW I I eq_refl).
Qed.

Lemma set_dimension_facts (o : obj R) n : inv o ->
  inv (obj_set_dimension o n) /\ o_bases (obj_set_dimension o n) = o_bases o /\ o_dim (obj_set_dimension o n) = n /\
  o_rat (obj_set_dimension o n) = o_rat o /\ (weights_pos o -> weights_pos (obj_set_dimension o n)).
Proof.
  intros HI. split; [apply (step_preserves_inv o _ (OpSetDimension n) HI I eq_refl)|]. repeat split.
  intros HW. apply weights_set_dimension; [exact (proj1 HI)|exact HW].
Qed.

Lemma compatible_facts (o1 o2 : obj R) : inv o1 -> inv o2 ->
  let c := obj_compatible o1 o2 in
  inv (fst c) /\ inv (snd c) /\ o_bases (fst c) = o_bases o1 /\ o_bases (snd c) = o_bases o2 /\
  o_dim (fst c) = o_dim (snd c) /\ o_rat (fst c) = o_rat (snd c) /\
  (weights_pos o1 -> weights_pos (fst c)) /\ (weights_pos o2 -> weights_pos (snd c)).
Proof.
  intros H1 H2. cbv zeta. unfold obj_compatible.
  set (ab := if o_rat o1 then (o1, obj_force_rational o2) else if o_rat o2 then (obj_force_rational o1, o2) else (o1, o2)).
  assert (Hab : inv (fst ab) /\ inv (snd ab) /\ o_bases (fst ab) = o_bases o1 /\ o_bases (snd ab) = o_bases o2 /\
                o_rat (fst ab) = o_rat (snd ab) /\ (weights_pos o1 -> weights_pos (fst ab)) /\ (weights_pos o2 -> weights_pos (snd ab))).
  { unfold ab. destruct (force_rational_facts o1 H1) as (A1 & A2 & A3 & A4 & A5). destruct (force_rational_facts o2 H2) as (B1 & B2 & B3 & B4 & B5).
    destruct (o_rat o1) eqn:E1; cbn [fst snd]; [split; [|split; [|split; [|split; [|split; [|split]]]]]; try assumption; try congruence; auto|].
    destruct (o_rat o2) eqn:E2; cbn [fst snd]; (split; [|split; [|split; [|split; [|split; [|split]]]]]); try assumption; try congruence; auto. }
  destruct ab as [a b]. cbn [fst snd] in Hab. destruct Hab as (Ia & Ib & Ba & Bb & Rab & Wa & Wb).
  destruct (set_dimension_facts a (o_dim b) Ia) as (A1 & A2 & A3 & A4 & A5). destruct (set_dimension_facts b (o_dim a) Ib) as (B1 & B2 & B3 & B4 & B5).
  destruct (o_dim b <? o_dim a)%nat; cbn [fst snd].
  - split; [exact Ia|]. split; [exact B1|]. split; [exact Ba|]. split; [congruence|]. split; [congruence|]. split; [congruence|]. split; [exact Wa|]. intros W. apply B5, Wb, W.
  - split; [exact A1|]. split; [exact Ib|]. split; [congruence|]. split; [exact Bb|]. split; [congruence|]. split; [congruence|]. split; [|exact Wb]. intros W. apply A5, Wa, W.
Qed.

(* ------------------------------------------------------------------------------------------------ *)
(* Curve.append *)
Lemma raise_basis_order tol (b : basis R) a : b_order (basis_raise_order tol b a) = (b_order b + a)%nat /\ b_per1 (basis_raise_order tol b a) = b_per1 b.
Proof. unfold basis_raise_order. destruct (Nat.eqb_spec a 0) as [->|N]; [split; [lia|reflexivity]|]. cbv zeta. split; reflexivity. Qed.

Lemma rl_length {A} (l : list A) : length (removelast l) = (length l - 1)%nat.
Proof. induction l as [|a [|b l] IH]; [reflexivity|reflexivity|]. cbn [removelast length] in *. rewrite IH. lia. Qed.
Lemma nth_rl {A} (l : list A) j d : (j < length l - 1)%nat -> nth j (removelast l) d = nth j l d.
Proof.
  revert j. induction l as [|a [|b l] IH]; intros j Hj; [cbn in Hj; lia|cbn in Hj; lia|].
  destruct j; [reflexivity|]. cbn [removelast nth] in *. apply IH. cbn [length] in *. lia.
Qed.

Section AppendKnots.
Variables k1 k2 : list R.
Variable p : nat.
Hypothesis Hp : (1 <= p)%nat.
Hypothesis S1 : sorted (kn k1).
Hypothesis S2 : sorted (kn k2).
Hypothesis L1 : (2 * p <= length k1)%nat.
Hypothesis L2 : (2 * p <= length k2)%nat.
Hypothesis D1 : kn k1 (p - 1) < kn k1 (length k1 - p).
Hypothesis D2 : kn k2 (p - 1) < kn k2 (length k2 - p).
Local Notation K := (append_knots p k1 k2).
Local Notation e1 := (last k1 0).
Local Notation s2 := (hd 0 k2).

Lemma ak_ne1 : k1 <> []. Proof. destruct k1; [cbn in L1; lia|discriminate]. Qed.
Lemma ak_e1 : e1 = nth (length k1 - 1) k1 0. Proof. symmetry. apply nth_last_len. exact ak_ne1. Qed.
Lemma ak_s2 : s2 = nth 0 k2 0. Proof. apply hd_nth0. Qed.

Lemma ak_length : length K = (length k1 - 1 + (length k2 - p))%nat.
Proof. unfold append_knots. cbv zeta. rewrite app_length, rl_length, skipn_length, map_length. reflexivity. Qed.

Lemma ak_low j : (j < length k1 - 1)%nat -> nth j K 0 = nth j k1 0.
Proof. intros Hj. unfold append_knots. cbv zeta. rewrite app_nth1 by (rewrite rl_length; exact Hj). apply nth_rl. exact Hj. Qed.

Lemma ak_high j : (j < length k2 - p)%nat -> nth (length k1 - 1 + j) K 0 = nth (p + j) k2 0 - s2 + e1.
Proof.
  intros Hj. unfold append_knots. cbv zeta. rewrite app_nth2 by (rewrite rl_length; lia). rewrite rl_length.
  replace (length k1 - 1 + j - (length k1 - 1))%nat with j by lia. rewrite nth_skipn_add.
  rewrite (nth_map0 (fun x => nadd (nsub x s2) e1)) by lia. reflexivity.
Qed.

Lemma ak_LSb : LSb (nth 0 k1 0) (nth (length k2 - 1) k2 0 - s2 + e1) K.
Proof.
  pose proof (nth_of_sorted_kn k1 S1) as N1. pose proof (nth_of_sorted_kn k2 S2) as N2.
  unfold append_knots. cbv zeta. apply (LSb_app _ e1 _).
  - rewrite ak_e1, ak_s2. pose proof (N1 0%nat (length k1 - 1)%nat ltac:(lia)). pose proof (N2 0%nat (length k2 - 1)%nat ltac:(lia)). lra.
  - split.
    + intros i j Hij. rewrite rl_length in Hij. rewrite !nth_rl by lia. apply N1. lia.
    + intros i Hi. rewrite rl_length in Hi. rewrite nth_rl by lia. rewrite ak_e1. split; apply N1; lia.
  - split.
    + intros i j Hij. rewrite skipn_length, map_length in Hij. rewrite !nth_skipn_add.
      rewrite !(nth_map0 (fun x => nadd (nsub x s2) e1)) by lia. cbn [nadd nsub NumR]. pose proof (N2 (p + i)%nat (p + j)%nat ltac:(lia)). lra.
    + intros i Hi. rewrite skipn_length, map_length in Hi. rewrite nth_skipn_add. rewrite (nth_map0 (fun x => nadd (nsub x s2) e1)) by lia.
      cbn [nadd nsub NumR]. rewrite ak_s2. pose proof (N2 0%nat (p + i)%nat ltac:(lia)). pose proof (N2 (p + i)%nat (length k2 - 1)%nat ltac:(lia)). lra.
Qed.

Lemma knots_ok_append : knots_ok (mkBasis p K 0) /\ b_nfun (mkBasis p K 0) = (length k1 - p + (length k2 - p) - 1)%nat.
Proof.
  pose proof ak_length as HL. pose proof (nth_of_sorted_kn k1 S1) as N1. pose proof (nth_of_sorted_kn k2 S2) as N2.
  split; [|unfold b_nfun; cbn [b_order b_knots b_per1]; rewrite HL; lia].
  split; [exact Hp|]. split; [cbn [b_order b_knots]; rewrite HL; lia|]. split; [apply sorted_kn_of_nth; apply ak_LSb|].
  unfold b_start, b_end. cbn [b_order b_knots]. rewrite HL.
  rewrite (kn_in K (p - 1)%nat ltac:(rewrite HL; lia) 0), (kn_in K (length k1 - 1 + (length k2 - p) - p)%nat ltac:(rewrite HL; lia) 0).
  rewrite ak_low by lia. replace (length k1 - 1 + (length k2 - p) - p)%nat with (length k1 - 1 + (length k2 - 2 * p))%nat by lia.
  rewrite ak_high by lia. replace (p + (length k2 - 2 * p))%nat with (length k2 - p)%nat by lia.
  rewrite ak_e1, ak_s2. rewrite (kn_in k2 (p - 1)%nat ltac:(lia) 0), (kn_in k2 (length k2 - p)%nat ltac:(lia) 0) in D2.
  pose proof (N1 (p - 1)%nat (length k1 - 1)%nat ltac:(lia)). pose proof (N2 0%nat (p - 1)%nat ltac:(lia)). lra.
Qed.
End AppendKnots.

Definition guard_append (tol : R) (o o2 : obj R) : Prop :=
  inv o2 /\
  let p1 := b_order (nth 0 (o_bases o) dflt_basis) in let p2 := b_order (nth 0 (o_bases o2) dflt_basis) in
  guard_raise tol o [(p2 - p1)%nat] /\ guard_raise tol o2 [(p1 - p2)%nat].

Lemma single_basis (o : obj R) : length (o_bases o) = 1%nat -> o_bases o = [nth 0 (o_bases o) dflt_basis].
Proof. destruct (o_bases o) as [|b [|b' l]]; cbn; try lia. reflexivity. Qed.

Lemma append_inv tol (o o2 o' : obj R) : inv o -> length (o_bases o) = 1%nat -> length (o_bases o2) = 1%nat -> guard_append tol o o2 ->
  obj_append tol o o2 = Ok o' -> inv o' /\ length (o_bases o') = 1%nat.
Proof.
  intros HI Hl1 Hl2 (HI2 & G1 & G2). unfold obj_append. cbv zeta. fold dflt_basis.
  destruct (Nat.eqb_spec (b_per1 (nth 0 (o_bases o) dflt_basis)) 0) as [P1|P1]; [|discriminate].
  destruct (Nat.eqb_spec (b_per1 (nth 0 (o_bases o2) dflt_basis)) 0) as [P2|P2]; [|discriminate]. cbn [negb orb].
  destruct (compatible_facts o o2 HI HI2) as (C1 & C2 & C3 & C4 & C5 & C6 & _). cbv zeta in *.
  destruct (obj_compatible o o2) as [c1 c2]. cbn [fst snd] in *. rewrite C3, C4.
  set (p1 := b_order (nth 0 (o_bases o) dflt_basis)) in *. set (p2 := b_order (nth 0 (o_bases o2) dflt_basis)) in *.
  destruct (obj_raise_order tol c1 [(p2 - p1)%nat]) as [d1|er] eqn:E1; [|discriminate].
  destruct (obj_raise_order tol c2 [(p1 - p2)%nat]) as [d2|er] eqn:E2; [|discriminate]. intros [= <-].
  assert (G1' : guard_raise tol c1 [(p2 - p1)%nat]) by (unfold guard_raise in *; rewrite C3; exact G1).
  assert (G2' : guard_raise tol c2 [(p1 - p2)%nat]) by (unfold guard_raise in *; rewrite C4; exact G2).
  destruct (raise_order_inv tol c1 d1 _ C1 G1' E1) as (I1 & Ll1 & Dm1 & Rt1 & Nb1).
  destruct (raise_order_inv tol c2 d2 _ C2 G2' E2) as (I2 & Ll2 & Dm2 & Rt2 & Nb2).
  rewrite C3 in Ll1, Nb1. rewrite C4 in Ll2, Nb2. specialize (Nb1 0%nat). specialize (Nb2 0%nat). rewrite Hl1 in *. rewrite Hl2 in *. cbn [length Nat.min Nat.ltb Nat.leb nth] in Nb1, Nb2.
  set (B1 := nth 0 (o_bases d1) dflt_basis) in *. set (B2 := nth 0 (o_bases d2) dflt_basis) in *.
  destruct (raise_basis_order tol (nth 0 (o_bases o) dflt_basis) (p2 - p1)) as [O1 Q1]. rewrite <- Nb1 in O1, Q1.
  destruct (raise_basis_order tol (nth 0 (o_bases o2) dflt_basis) (p1 - p2)) as [O2 Q2]. rewrite <- Nb2 in O2, Q2.
  fold p1 in O1. fold p2 in O2.
  assert (HB1 : o_bases d1 = [B1]) by (apply single_basis; exact Ll1). assert (HB2 : o_bases d2 = [B2]) by (apply single_basis; exact Ll2).
  destruct I1 as [(HL1 & HV1 & HP1) HK1]. destruct I2 as [(HL2 & HV2 & HP2) HK2].
  unfold o_shape in HL1, HP1, HL2, HP2. rewrite HB1 in HL1, HP1, HK1. rewrite HB2 in HL2, HP2, HK2. cbn [map fold_right] in HL1, HP1, HL2, HP2.
  inversion HK1 as [|? ? K1 _]; subst. inversion HK2 as [|? ? K2 _]; subst.
  destruct K1 as (Kp1 & Kl1 & Ks1 & Kd1). destruct K2 as (Kp2 & Kl2 & Ks2 & Kd2).
  assert (Ep1 : b_order B1 = Nat.max p1 p2) by lia. assert (Ep2 : b_order B2 = Nat.max p1 p2) by lia.
  set (p := Nat.max p1 p2) in *.
  destruct (knots_ok_append (b_knots B1) (b_knots B2) p ltac:(lia) Ks1 Ks2 ltac:(lia) ltac:(lia)) as [KA NA].
  { unfold b_start, b_end in Kd1. rewrite Ep1 in Kd1. exact Kd1. }
  { unfold b_start, b_end in Kd2. rewrite Ep2 in Kd2. exact Kd2. }
  split; [|reflexivity]. split; [|constructor; [exact KA|constructor]].
  unfold b_nfun in HL1, HP1, HL2, HP2. rewrite Q1, P1, Ep1 in HL1, HP1. rewrite Q2, P2, Ep2 in HL2, HP2.
  unfold shape_ok, o_shape, o_ncomp. cbn [o_bases o_cps o_dim o_rat map fold_right]. rewrite NA.
  split; [|split].
  - rewrite app_length. destruct (o_cps d2) as [|c cs]; cbn [length tl] in *; lia.
  - apply Forall_app. split; [exact HV1|]. unfold o_ncomp in HV2. rewrite Dm1, Rt1. rewrite Dm2, Rt2 in HV2. rewrite C5, C6.
    destruct (o_cps d2) as [|c cs]; [constructor|]. inversion HV2; assumption.
  - lia.
Qed.

Lemma append_weights tol (o o2 o' : obj R) : inv o -> weights_pos o -> inv o2 -> weights_pos o2 ->
  b_order (nth 0 (o_bases o) dflt_basis) = b_order (nth 0 (o_bases o2) dflt_basis) ->
  obj_append tol o o2 = Ok o' -> weights_pos o'.
Proof.
  intros HI HW HI2 HW2 Hp. unfold obj_append. cbv zeta. fold dflt_basis.
  destruct (negb _ || negb _); [discriminate|].
  destruct (compatible_facts o o2 HI HI2) as (C1 & C2 & C3 & C4 & C5 & C6 & C7 & C8). cbv zeta in *.
  destruct (obj_compatible o o2) as [c1 c2]. cbn [fst snd] in *. rewrite C3, C4, Hp, Nat.sub_diag.
  unfold obj_raise_order. cbn [forallb Nat.eqb andb]. intros [= <-].
  unfold weights_pos. cbn [o_rat o_cps o_dim]. intros Hr. apply Forall_app. split; [apply (C7 HW); exact Hr|].
  specialize (C8 HW2). unfold weights_pos in C8. rewrite <- C5, <- C6 in C8. specialize (C8 Hr).
  destruct (o_cps c2) as [|c cs]; [constructor|]. inversion C8; assumption.
Qed.

(* objects without periodic directions *)
Definition nonper (o : obj R) : Prop := Forall (fun b => b_per1 b = 0%nat) (o_bases o).

Lemma step_nonper (o o' : obj R) (a : @op R) : inv o -> nonper o -> step o a = Ok o' -> nonper o'.
Proof.
  intros [HS HB] HN E. unfold nonper in *.
  destruct a as [d xs|d|d1 d2|d s e|x|s|keep|n|]; cbn [step] in E; unfold o_pardim in *.
  - destruct (Nat.ltb_spec d (length (o_bases o))) as [Hd|Hd]; [|discriminate].
    pose proof (Forall_nth_in _ _ d dflt_basis HN Hd) as Hper.
    destruct (insert_knots_bases xs o o' d HB Hd Hper E) as (_ & P1 & _ & _ & _ & P2 & _).
    destruct (insert_knots_shape xs o o' d HS Hd E) as [_ Hl].
    apply Forall_nth. intros i dd Hi. rewrite (nth_indep _ dd dflt_basis Hi). destruct (Nat.eq_dec i d) as [->|Ne]; [exact P1|].
    rewrite P2 by exact Ne. apply Forall_nth_in; [exact HN|lia].
  - destruct (Nat.ltb_spec d (length (o_bases o))) as [Hd|Hd]; [|discriminate]. injection E as <-.
    unfold obj_reverse. cbv zeta. cbn [o_bases]. apply Forall_upd; [exact HN|]. cbn [basis_reverse b_per1]. apply Forall_nth_in; assumption.
  - destruct (Nat.ltb_spec d1 (length (o_bases o))) as [H1|H1]; [|discriminate].
    destruct (Nat.ltb_spec d2 (length (o_bases o))) as [H2|H2]; [|discriminate]. cbn [andb] in E. injection E as <-.
    unfold obj_swap, o_pardim. destruct (length (o_bases o) =? 1)%nat; [exact HN|]. cbv zeta. cbn [o_bases]. unfold swap_idx.
    apply Forall_upd; [apply Forall_upd; [exact HN|]|]; apply Forall_nth_in; assumption.
  - destruct (Nat.ltb_spec d (length (o_bases o))) as [Hd|Hd]; [|discriminate].
    unfold obj_reparam_dir in E. destruct (basis_reparam (nth d (o_bases o) (mkBasis 0 [] 0)) s e) as [b'|er] eqn:Eb; [|discriminate].
    injection E as <-. cbn [o_bases]. apply Forall_upd; [exact HN|].
    destruct (knots_ok_reparam _ b' s e (Forall_nth_in _ _ d (mkBasis 0 [] 0) HB Hd) Eb) as (_ & _ & _ & P & _). rewrite P. apply Forall_nth_in; assumption.
  - unfold obj_translate in E. cbv zeta in E.
    destruct (o_dim o <? length x)%nat; (destruct (length x <? _)%nat; [discriminate|]); injection E as <-; exact HN.
  - unfold obj_scale in E. cbv zeta in E. destruct (_ <? _)%nat; [discriminate|]. injection E as <-. exact HN.
  - injection E as <-. exact HN.
  - injection E as <-. exact HN.
  - injection E as <-. unfold obj_force_rational. destruct (o_rat o); exact HN.
Qed.

(* ------------------------------------------------------------------------------------------------ *)
(* make_splines_identical on objects without periodic directions *)
Lemma unit_vec_nth n i v j : nth j (unit_vec n i v) 0%nat = if (j <? n)%nat && (j =? i)%nat then v else 0%nat.
Proof.
  unfold unit_vec. destruct (Nat.ltb_spec j n) as [L|L]; cbn [andb].
  - rewrite (nth_map_gen _ _ j 0%nat 0%nat) by (rewrite seq_length; exact L). rewrite seq_nth by exact L. reflexivity.
  - apply nth_overflow. rewrite map_length, seq_length. exact L.
Qed.

Lemma raise_nonper tol (o o' : obj R) raises : inv o -> nonper o -> guard_raise tol o raises -> obj_raise_order tol o raises = Ok o' ->
  inv o' /\ nonper o' /\ length (o_bases o') = length (o_bases o).
Proof.
  intros HI HN G E. destruct (raise_order_inv tol o o' raises HI G E) as (R1 & R2 & _ & _ & R5). split; [exact R1|]. split; [|exact R2].
  unfold nonper in *. apply Forall_nth. intros i dd Hi. rewrite (nth_indep _ dd dflt_basis Hi), R5.
  destruct (_ <? _)%nat; [rewrite (proj2 (raise_basis_order tol _ _))|]; apply Forall_nth_in; try assumption; lia.
Qed.

Lemma reparam01_facts (o o' : obj R) i : inv o -> nonper o -> (i < length (o_bases o))%nat -> obj_reparam_dir o i 0 1 = Ok o' ->
  inv o' /\ nonper o' /\ length (o_bases o') = length (o_bases o) /\
  b_start (nth i (o_bases o') dflt_basis) = 0 /\ b_end (nth i (o_bases o') dflt_basis) = 1.
Proof.
  intros HI HN Hi E.
  assert (Es : step o (OpReparam i 0 1) = Ok o') by (cbn [step]; unfold o_pardim; destruct (Nat.ltb_spec i (length (o_bases o))); [exact E|lia]).
  split; [exact (step_preserves_inv o o' (OpReparam i 0 1) HI I Es)|]. split; [exact (step_nonper o o' (OpReparam i 0 1) HI HN Es)|].
  split; [exact (proj2 (step_preserves_shape o o' (OpReparam i 0 1) (proj1 HI) Es))|].
  unfold obj_reparam_dir in E. fold dflt_basis in E. destruct (basis_reparam (nth i (o_bases o) dflt_basis) 0 1) as [b'|er] eqn:Eb; [|discriminate].
  injection E as <-. cbn [o_bases]. rewrite InsertEndToEnd.upd_nth_same by exact Hi.
  destruct (knots_ok_reparam _ b' 0 1 (Forall_nth_in _ _ i dflt_basis (proj2 HI) Hi) Eb) as (_ & P1 & P2 & _). split; assumption.
Qed.

Lemma insert_facts (o o' : obj R) i xs : inv o -> nonper o -> (i < length (o_bases o))%nat -> obj_insert_knots o i xs = Ok o' ->
  inv o' /\ nonper o' /\ length (o_bases o') = length (o_bases o).
Proof.
  intros HI HN Hi E.
  assert (Es : step o (OpInsert i xs) = Ok o') by (cbn [step]; unfold o_pardim; destruct (Nat.ltb_spec i (length (o_bases o))); [exact E|lia]).
  split; [exact (step_preserves_inv o o' (OpInsert i xs) HI (or_introl (Forall_nth_in _ _ i dflt_basis HN Hi)) Es)|]. split; [exact (step_nonper o o' (OpInsert i xs) HI HN Es)|].
  exact (proj2 (step_preserves_shape o o' (OpInsert i xs) (proj1 HI) Es)).
Qed.

Definition pair_ok (a b : obj R) : Prop :=
  inv a /\ inv b /\ nonper a /\ nonper b /\ length (o_bases a) = length (o_bases b).

Lemma compatible_pair (a b : obj R) : pair_ok a b -> pair_ok (fst (obj_compatible a b)) (snd (obj_compatible a b)).
Proof.
  intros (Ia & Ib & Na & Nb & L). destruct (compatible_facts a b Ia Ib) as (C1 & C2 & C3 & C4 & _). cbv zeta in *.
  unfold pair_ok, nonper. rewrite C3, C4. repeat (split; try assumption).
Qed.

Lemma unit_raise_guard tol (o : obj R) i a : 0 <= tol < 1 -> nonper o -> b_start (nth i (o_bases o) dflt_basis) = 0 -> b_end (nth i (o_bases o) dflt_basis) = 1 ->
  guard_raise tol o (unit_vec (o_pardim o) i a).
Proof.
  intros Ht HN Hs He. split; [lra|]. intros j Hj. rewrite unit_vec_nth. destruct (Nat.ltb_spec j (o_pardim o)); cbn [andb]; [|left; reflexivity].
  destruct (Nat.eqb_spec j i) as [->|Ne]; [|left; reflexivity]. right. split; [apply (Forall_nth_in _ _ i dflt_basis HN Hj)|rewrite Hs, He; lra].
Qed.

Lemma identical_dir_facts tol (a b a' b' : obj R) i : 0 <= tol < 1 -> pair_ok a b -> (i < length (o_bases a))%nat ->
  identical_dir tol a b i = Ok (a', b') -> pair_ok a' b' /\ length (o_bases a') = length (o_bases a).
Proof.
  intros Ht HP Hi. unfold identical_dir. pose proof (compatible_pair a b HP) as HC.
  assert (Hi0 : length (o_bases (fst (obj_compatible a b))) = length (o_bases a)).
  { destruct HP as (Ia & Ib & _). destruct (compatible_facts a b Ia Ib) as (_ & _ & C3 & _). cbv zeta in C3. rewrite C3. reflexivity. }
  destruct (obj_compatible a b) as [a0 b0]. cbn [fst snd] in HC, Hi0. destruct HC as (Ia0 & Ib0 & Na0 & Nb0 & L0).
  destruct (obj_reparam_dir a0 i n0 n1) as [a1|er] eqn:Ea1; [|discriminate].
  destruct (obj_reparam_dir b0 i n0 n1) as [b1|er] eqn:Eb1; [|discriminate]. cbv zeta. fold dflt_basis.
  destruct (reparam01_facts a0 a1 i Ia0 Na0 ltac:(lia) Ea1) as (Ia1 & Na1 & La1 & Sa1 & Ea1').
  destruct (reparam01_facts b0 b1 i Ib0 Nb0 ltac:(lia) Eb1) as (Ib1 & Nb1 & Lb1 & Sb1 & Eb1').
  rewrite (Forall_nth_in _ _ i dflt_basis Na1 ltac:(lia)), (Forall_nth_in _ _ i dflt_basis Nb1 ltac:(lia)). cbn [Nat.ltb Nat.leb].
  set (p1 := b_order (nth i (o_bases a1) dflt_basis)). set (p2 := b_order (nth i (o_bases b1) dflt_basis)).
  destruct (obj_raise_order tol a1 _) as [a3|er] eqn:Ea3; [|try discriminate; match goal with |- context [obj_raise_order tol b1 ?r] => destruct (obj_raise_order tol b1 r) end; discriminate].
  destruct (obj_raise_order tol b1 _) as [b3|er] eqn:Eb3; [|discriminate].
  destruct (raise_nonper tol a1 a3 _ Ia1 Na1 (unit_raise_guard tol a1 i _ Ht Na1 Sa1 Ea1') Ea3) as (Ia3 & Na3 & La3).
  destruct (raise_nonper tol b1 b3 _ Ib1 Nb1 (unit_raise_guard tol b1 i _ Ht Nb1 Sb1 Eb1') Eb3) as (Ib3 & Nb3 & Lb3).
  destruct (missing_knots tol _ _ _) as [ins2|er]; [|discriminate].
  destruct (obj_insert_knots b3 i ins2) as [b4|er] eqn:Eb4; [|discriminate].
  destruct (missing_knots tol _ _ _) as [ins1|er]; [|discriminate].
  destruct (obj_insert_knots a3 i ins1) as [a4|er] eqn:Ea4; [|discriminate]. intros [= <- <-].
  destruct (insert_facts b3 b4 i ins2 Ib3 Nb3 ltac:(lia) Eb4) as (Ib4 & Nb4 & Lb4).
  destruct (insert_facts a3 a4 i ins1 Ia3 Na3 ltac:(lia) Ea4) as (Ia4 & Na4 & La4).
  unfold pair_ok. split; [repeat (split; try assumption); lia|lia].
Qed.

Lemma identical_dirs_facts tol dirs : 0 <= tol < 1 -> forall (a b a' b' : obj R), pair_ok a b -> Forall (fun i => i < length (o_bases a))%nat dirs ->
  identical_dirs tol a b dirs = Ok (a', b') -> pair_ok a' b' /\ length (o_bases a') = length (o_bases a).
Proof.
  intros Ht. induction dirs as [|i rest IH]; intros a b a' b' HP Hd; cbn [identical_dirs]; [intros [= <- <-]; split; [exact HP|reflexivity]|].
  inversion Hd as [|? ? Hi Hd']; subst. destruct (identical_dir tol a b i) as [[a1 b1]|er] eqn:E; [|discriminate].
  destruct (identical_dir_facts tol a b a1 b1 i Ht HP Hi E) as [HP1 HL1]. intros E'.
  destruct (IH a1 b1 a' b' HP1 ltac:(rewrite HL1; exact Hd') E') as [R1 R2]. split; [exact R1|lia].
Qed.

(* side condition of make_splines_identical: tolerance below the width of the unit interval, no periodic direction in
   either object, same parametric dimension, the second operand satisfies the invariant *)
Definition guard_identical (tol : R) (o o2 : obj R) (dir : option nat) : Prop :=
  0 <= tol < 1 /\ inv o2 /\ nonper o /\ nonper o2 /\ length (o_bases o) = length (o_bases o2) /\
  match dir with Some i => (i < length (o_bases o))%nat | None => True end.

Lemma make_identical_inv tol (o o2 : obj R) dir ab : inv o -> guard_identical tol o o2 dir ->
  obj_make_identical tol o o2 dir = Ok ab -> inv (fst ab) /\ inv (snd ab) /\ nonper (fst ab) /\ length (o_bases (fst ab)) = length (o_bases o).
Proof.
  intros HI (Ht & HI2 & N1 & N2 & HL & Hd). unfold obj_make_identical.
  assert (HP : pair_ok o o2) by (unfold pair_ok; repeat (split; try assumption)).
  pose proof (compatible_pair o o2 HP) as HC. destruct (compatible_facts o o2 HI HI2) as (_ & _ & C3 & _). cbv zeta in C3.
  destruct (obj_compatible o o2) as [a b]. cbn [fst snd] in HC, C3. destruct ab as [a' b']. cbn [fst snd].
  destruct dir as [i|]; intros E.
  - destruct (identical_dir_facts tol a b a' b' i Ht HC ltac:(rewrite C3; exact Hd) E) as [(R1 & R2 & R3 & _) RL]. repeat (split; try assumption). congruence.
  - destruct (identical_dirs_facts tol (seq 0 (o_pardim a)) Ht a b a' b' HC) as [(R1 & R2 & R3 & _) RL]; [|exact E|repeat (split; try assumption); congruence].
    apply Forall_forall. intros i Hi. apply in_seq in Hi. unfold o_pardim in Hi. lia.
Qed.

(* ------------------------------------------------------------------------------------------------ *)
(* lower_periodic: one step = insert the start knot, roll knots and net by one, drop the last knot *)
Section LowerStep.
Variable b1 : basis R.
Hypothesis K1 : knots_ok b1.
Hypothesis Im1 : images_ok b1.
Hypothesis P1 : b_per1 b1 <> 0%nat.
Hypothesis Ro1 : roomy b1.
Hypothesis Hp1 : kn (b_knots b1) (b_order b1) = b_start b1.
Local Notation p := (b_order b1).
Local Notation k1 := (b_knots b1).
Local Notation q := (b_per1 b1).
Local Notation n1 := (b_nfun b1).
Local Notation T := (b_end b1 - b_start b1).
Local Notation kk := (b_knots (basis_roll b1 1)).
Definition lp_basis : basis R := mkBasis p (firstn (length kk - 1) kk) (q - 1).

Lemma lp_len : length k1 = (n1 + p + q)%nat.
Proof. destruct K1 as (Hp & _). unfold roomy, b_nfun in *. lia. Qed.

Lemma lp_img i : (i + n1 < length k1)%nat -> nth (i + n1) k1 0 = nth i k1 0 + T.
Proof. intros Hi. rewrite <- !(kn_in k1) by lia. apply (Im1 P1). exact Hi. Qed.

Lemma lp_kk_length : length kk = length k1.
Proof.
  pose proof lp_len as HL. destruct K1 as (Hp & _). unfold basis_roll. cbv zeta. cbn [b_knots].
  rewrite app_length, map_length, !length_slice. fold n1. lia.
Qed.

Lemma lp_kk_nth j : (j + 1 < length k1)%nat -> nth j kk 0 = nth (j + 1) k1 0.
Proof.
  intros Hj. pose proof lp_len as HL. destruct K1 as (Hp & _). unfold roomy in Ro1. unfold basis_roll. cbv zeta. cbn [b_knots].
  change (length k1 - p - q)%nat with n1.
  assert (LL : length (slice_list k1 1 n1) = (n1 - 1)%nat) by (rewrite length_slice; lia). rewrite LL.
  rewrite nth_app_if, LL. destruct (Nat.ltb_spec j (n1 - 1)) as [A|A].
  - rewrite nth_slice by lia. f_equal. lia.
  - rewrite (nth_map0 (fun x => nsub x (nsub (kn k1 0) (kn k1 n1)))) by (rewrite length_slice; lia). rewrite nth_slice by lia. cbn [Nat.add nsub NumR].
    rewrite (kn_in k1 0%nat ltac:(lia) 0), (kn_in k1 n1 ltac:(lia) 0). pose proof (lp_img 0%nat ltac:(lia)) as I0. cbn [Nat.add] in I0. rewrite I0.
    pose proof (lp_img (j - (n1 - 1))%nat ltac:(lia)) as Ij. replace (j - (n1 - 1) + n1)%nat with (j + 1)%nat in Ij by lia. rewrite Ij. ring.
Qed.

Lemma lp_L2_length : length (b_knots lp_basis) = (length k1 - 1)%nat.
Proof. cbn [lp_basis b_knots]. rewrite firstn_length, lp_kk_length. lia. Qed.

Lemma lp_L2_nth j : (j + 1 < length k1)%nat -> nth j (b_knots lp_basis) 0 = nth (j + 1) k1 0.
Proof. intros Hj. cbn [lp_basis b_knots]. rewrite nth_firstn_lt by (rewrite lp_kk_length; lia). apply lp_kk_nth. exact Hj. Qed.

Lemma lp_basis_facts : knots_ok lp_basis /\ images_ok lp_basis /\ roomy lp_basis /\ b_nfun lp_basis = n1 /\
  b_per1 lp_basis = (q - 1)%nat /\ b_order lp_basis = p /\ b_start lp_basis = b_start b1 /\ b_end lp_basis = b_end b1.
Proof.
  pose proof lp_len as HL. pose proof K1 as (Hp & Hlen & HK & Hse). pose proof lp_L2_length as L2. unfold roomy in Ro1.
  pose proof (nth_of_sorted_kn k1 HK) as NK.
  assert (Hn : b_nfun lp_basis = n1) by (unfold b_nfun at 1; rewrite L2; cbn [lp_basis b_order b_per1]; lia).
  assert (Hs : b_start lp_basis = b_start b1).
  { unfold b_start at 1. cbn [lp_basis b_order]. fold lp_basis. rewrite (kn_in (b_knots lp_basis) (p - 1)%nat ltac:(lia) 0). rewrite lp_L2_nth by lia.
    replace (p - 1 + 1)%nat with p by lia. rewrite <- (kn_in k1) by lia. exact Hp1. }
  assert (He : b_end lp_basis = b_end b1).
  { unfold b_end at 1. rewrite L2. cbn [lp_basis b_order]. fold lp_basis. rewrite (kn_in (b_knots lp_basis) (length k1 - 1 - p)%nat ltac:(lia) 0). rewrite lp_L2_nth by lia.
    unfold b_end. rewrite (kn_in k1 (length k1 - p)%nat ltac:(lia) 0). f_equal. lia. }
  split; [|split; [|split; [|split; [exact Hn|split; [reflexivity|split; [reflexivity|split; assumption]]]]]].
  - split; [exact Hp|]. split; [rewrite L2; cbn [lp_basis b_order]; lia|]. split; [|rewrite Hs, He; exact Hse].
    apply sorted_kn_of_nth. intros i j Hij. rewrite L2 in Hij. rewrite !lp_L2_nth by lia. apply NK. lia.
  - intros _ i Hi. rewrite Hn, Hs, He, L2 in *. rewrite (kn_in (b_knots lp_basis) (i + n1)%nat ltac:(lia) 0), (kn_in (b_knots lp_basis) i ltac:(lia) 0). rewrite !lp_L2_nth by lia.
    replace (i + n1 + 1)%nat with (i + 1 + n1)%nat by lia. apply lp_img. lia.
  - unfold roomy. rewrite Hn. cbn [lp_basis b_order b_per1]. lia.
Qed.
End LowerStep.

Lemma roll_matrix_length n mu : length (@roll_matrix R NumR n mu) = n.
Proof. unfold roll_matrix. rewrite map_length, seq_length. reflexivity. Qed.

Definition guard_lower_periodic (o : obj R) (d : nat) : Prop :=
  images_ok (nth d (o_bases o) dflt_basis) /\ roomy (nth d (o_bases o) dflt_basis).

Lemma lower_periodic_inv t d : forall fuel (o o' : obj R), inv o -> (d < length (o_bases o))%nat -> guard_lower_periodic o d ->
  obj_lower_periodic fuel o t d = Ok o' ->
  inv o' /\ length (o_bases o') = length (o_bases o) /\ images_ok (nth d (o_bases o') dflt_basis) /\
  (forall i, i <> d -> nth i (o_bases o') dflt_basis = nth i (o_bases o) dflt_basis).
Proof.
  induction fuel as [|f IH]; intros o o' HI Hd [Him Hro].
  - cbn [obj_lower_periodic]. destruct (_ <? _)%nat; [discriminate|]. destruct (_ <? _)%nat; [discriminate|]. intros [= <-]. split; [exact HI|split; [reflexivity|split; [exact Him|intros; reflexivity]]].
  - cbn [obj_lower_periodic]. fold dflt_basis. set (b := nth d (o_bases o) dflt_basis) in *.
    destruct (Nat.ltb_spec t (b_per1 b)) as [Ht|Ht]; [|destruct (_ <? _)%nat; [discriminate|]; intros [= <-]; split; [exact HI|split; [reflexivity|split; [exact Him|intros; reflexivity]]]].
    destruct (obj_insert_knots o d [b_start b]) as [o1|er] eqn:E1; [|discriminate].
    assert (Hper : b_per1 b <> 0%nat) by lia.
    pose proof (Forall_nth_in _ _ d dflt_basis (proj2 HI) Hd) as Kb. fold b in Kb.
    cbn [obj_insert_knots] in E1. fold dflt_basis in E1. fold b in E1.
    destruct (basis_insert_knot b (b_start b)) as [[b1 C]|er] eqn:EB; [|discriminate].
    destruct (knots_ok_insert_per b b1 (b_start b) C Kb Him Hper Hro EB) as (K1 & I1 & R1 & Q1 & Q2 & Q3 & Q4 & Q5 & Q6 & Q7).
    specialize (Q7 eq_refl). rewrite <- Q2, <- Q4 in Q7.
    assert (Es : step o (OpInsert d [b_start b]) = Ok o1).
    { cbn [step]. unfold o_pardim. destruct (Nat.ltb_spec d (length (o_bases o))); [|lia]. cbn [obj_insert_knots]. fold dflt_basis. fold b. rewrite EB. exact E1. }
    assert (HI1 : inv o1) by (apply (step_preserves_inv o o1 (OpInsert d [b_start b]) HI); [right; split; assumption|exact Es]).
    injection E1 as <-. cbn [o_bases] in *. rewrite InsertEndToEnd.upd_nth_same by exact Hd.
    assert (P1 : b_per1 b1 <> 0%nat) by lia.
    destruct (lp_basis_facts b1 K1 I1 P1 R1 Q7) as (K2 & I2 & R2 & N2 & _).
    change (mkBasis (b_order b1) (firstn (length (b_knots (basis_roll b1 1)) - 1) (b_knots (basis_roll b1 1))) (b_per1 b1 - 1)) with (lp_basis b1).
    set (o1 := mkObj (upd (o_bases o) d b1) (apply_dir (o_ncomp o) (o_shape o) d C (o_cps o)) (o_dim o) (o_rat o)) in *.
    set (o2 := obj_along o1 d (lp_basis b1) (roll_matrix (b_nfun b1) 1)).
    assert (Hd1 : (d < length (o_bases o1))%nat) by (cbn [o1 o_bases]; rewrite upd_length; exact Hd).
    assert (HI2 : inv o2).
    { destruct HI1 as [HS1 HB1]. unfold o2, obj_along. split.
      - apply shape_ok_along; [exact HS1|exact Hd1|rewrite roll_matrix_length; symmetry; exact N2|rewrite roll_matrix_length; unfold roomy in R1; destruct K1; lia].
      - cbn [o_bases]. apply Forall_upd; assumption. }
    intros E. destruct (IH o2 o' HI2) as (A1 & A2 & A3 & A4); [unfold o2, obj_along; cbn [o_bases]; rewrite upd_length; exact Hd1| |exact E|].
    + unfold guard_lower_periodic, o2, obj_along. cbn [o_bases]. rewrite InsertEndToEnd.upd_nth_same by exact Hd1. split; assumption.
    + split; [exact A1|]. split; [rewrite A2; unfold o2, obj_along; cbn [o_bases o1]; rewrite !upd_length; reflexivity|]. split; [exact A3|].
      intros i Hi. rewrite A4 by exact Hi. unfold o2, obj_along. cbn [o_bases o1]. rewrite !upd_nth_other by exact Hi. reflexivity.
Qed.

(* ------------------------------------------------------------------------------------------------ *)
(* the side conditions, per operation and per state *)
Definition guard2 (tol : R) (o : obj R) (a : @op2 R) : Prop :=
  match a with
  | OpOld a' => guard_old o a'
  | OpRaise am => guard_raise tol o am
  | OpLowerOrder _ => False
  | OpSplitPick d ks _ => guard_split tol o d ks
  | OpSection _ => True
  | OpRotate _ _ _ _ => True
  | OpMirror _ _ => True
  | OpMakePeriodic cont d => guard_make_periodic o cont d
  | OpLowerPeriodic _ d => guard_lower_periodic o d
  | OpAppend o2 => guard_append tol o o2
  | OpMakeIdentical o2 dir => guard_identical tol o o2 dir
  end.

(* additional side conditions for the positivity of the weights *)
Definition guardw2 (o : obj R) (a : @op2 R) : Prop :=
  match a with
  | OpOld a' => guard_w_old o a'
  | OpRaise am => Forall (fun r => r = 0%nat) am          (* interpolation at the Greville points does not keep weights positive *)
  | OpAppend o2 => weights_pos o2 /\ b_order (nth 0 (o_bases o) dflt_basis) = b_order (nth 0 (o_bases o2) dflt_basis)
  | OpMakeIdentical _ _ => False                           (* may raise the order *)
  | OpLowerPeriodic _ _ => False                           (* inserts into a periodic direction *)
  | _ => True
  end.

Lemma pad_sels_length n sels : (length sels <= n)%nat -> length (pad_sels n sels) = n.
Proof. intros H. unfold pad_sels. rewrite app_length, repeat_length. lia. Qed.

Theorem step2_preserves_inv tol (o o' : obj R) (a : @op2 R) : inv o -> guard2 tol o a -> step2 tol o a = Ok o' -> inv o'.
Proof.
  intros HI G E. destruct a as [a'|am|am|d ks idx|sels|ch sh nrm iv|nrm iv|cont d|t d|o2|o2 dir]; cbn [guard2] in G; try contradiction.
  - exact (step_preserves_inv o o' a' HI G E).
  - exact (proj1 (raise_order_inv tol o o' am HI G E)).
  - exact (proj1 (split_pick_inv tol o o' d ks idx G E)).
  - cbn [step2] in E. destruct (Nat.ltb_spec (o_pardim o) (length sels)) as [L|L]; [discriminate|]. injection E as <-.
    apply section_inv; [exact HI|]. apply pad_sels_length. exact L.
  - exact (proj1 (rotate_inv o o' ch sh nrm iv HI E)).
  - exact (proj1 (mirror_inv o o' nrm iv HI E)).
  - cbn [step2] in E. destruct (Nat.ltb_spec d (o_pardim o)) as [L|L]; [|discriminate]. exact (make_periodic_inv o o' cont d HI L G E).
  - cbn [step2] in E. destruct (Nat.ltb_spec d (o_pardim o)) as [L|L]; [|discriminate]. exact (proj1 (lower_periodic_inv t d 64 o o' HI L G E)).
  - cbn [step2] in E. destruct (Nat.eqb_spec (o_pardim o) 1) as [L1|L1]; [|discriminate]. destruct (Nat.eqb_spec (o_pardim o2) 1) as [L2|L2]; [|discriminate].
    cbn [andb] in E. exact (proj1 (append_inv tol o o2 o' HI L1 L2 G E)).
  - cbn [step2] in E. destruct (obj_make_identical tol o o2 dir) as [ab|er] eqn:EI; [|discriminate]. injection E as <-.
    exact (proj1 (make_identical_inv tol o o2 dir ab HI G EI)).
Qed.

Theorem step2_preserves_weights tol (o o' : obj R) (a : @op2 R) : inv o -> weights_pos o -> guard2 tol o a -> guardw2 o a ->
  step2 tol o a = Ok o' -> weights_pos o'.
Proof.
  intros HI HW G GW E. destruct a as [a'|am|am|d ks idx|sels|ch sh nrm iv|nrm iv|cont d|t d|o2|o2 dir]; cbn [guard2 guardw2] in G, GW; try contradiction.
  - exact (step_preserves_weights o o' a' HI HW G GW E).
  - cbn [step2] in E. unfold obj_raise_order in E.
    assert (EZ : forallb (fun r => (r =? 0)%nat) am = true) by (apply forallb_forall; intros r Hr; rewrite Forall_forall in GW; rewrite (GW r Hr); reflexivity).
    rewrite EZ in E. injection E as <-. exact HW.
  - exact (split_pick_weights tol o o' d ks idx G HW E).
  - cbn [step2] in E. destruct (Nat.ltb_spec (o_pardim o) (length sels)) as [L|L]; [discriminate|]. injection E as <-.
    apply section_weights; [exact HI|exact HW|]. apply pad_sels_length. exact L.
  - exact (rotate_weights o o' ch sh nrm iv HI HW E).
  - exact (mirror_weights o o' nrm iv HI HW E).
  - cbn [step2] in E. destruct (Nat.ltb_spec d (o_pardim o)) as [L|L]; [|discriminate]. exact (make_periodic_weights o o' cont d HI HW L G E).
  - cbn [step2] in E. destruct (_ && _); [|discriminate]. destruct G as (HI2 & _). destruct GW as [HW2 Hp].
    exact (append_weights tol o o2 o' HI HW HI2 HW2 Hp E).
Qed.

(* ------------------------------------------------------------------------------------------------ *)
(* the ghost knots of periodic directions stay exact periodic images *)
Lemma images_reverse (b : basis R) : knots_ok b -> images_ok b -> images_ok (basis_reverse b).
Proof.
  intros Hb Him. pose proof (knots_ne b Hb) as Hne. destruct (knots_ok_reverse b Hb) as (_ & Hs & He & Hp1 & Hnf).
  destruct Hb as (Hp & Hlen & HK & Hse). intros Hper i Hi. rewrite Hs, He, Hnf in *. rewrite Hp1 in Hper.
  rewrite (basis_reverse_eq b Hse) in *. cbn [b_knots] in *. rewrite rknots_length in Hi. rewrite !rknots_kn by exact Hne.
  pose proof (Him Hper (length (b_knots b) - 1 - (i + b_nfun b))%nat ltac:(lia)) as Hj.
  replace (length (b_knots b) - 1 - (i + b_nfun b) + b_nfun b)%nat with (length (b_knots b) - 1 - i)%nat in Hj by lia. lra.
Qed.

Lemma images_reparam (b b' : basis R) s e : knots_ok b -> images_ok b -> basis_reparam b s e = Ok b' -> images_ok b'.
Proof.
  intros Hb Him E. pose proof (knots_ne b Hb) as Hne. destruct Hb as (Hp & Hlen & HK & Hse).
  assert (Hlt : s < e) by (unfold basis_reparam in E; cbn [nleb NumR] in E; destruct (Rleb_spec e s); [discriminate|lra]).
  rewrite (basis_reparam_ok b Hne Hse s e Hlt) in E. injection E as <-.
  intros Hper i Hi. rewrite (rp_start b Hne s e), (rp_end b Hne Hse s e).
  assert (Hnf : b_nfun (rp_basis b s e) = b_nfun b) by (unfold b_nfun; cbn [rp_basis b_knots b_order b_per1]; rewrite map_length; reflexivity).
  rewrite Hnf in *. cbn [rp_basis b_knots b_per1] in *. rewrite map_length in Hi. unfold rp_map. rewrite !kn_aff by exact Hne.
  rewrite (Him Hper i Hi). unfold aff, rp_al. field. lra.
Qed.

Lemma Forall_by_nth {A} (P : A -> Prop) (l l' : list A) (dflt : A) : length l' = length l ->
  (forall i, (i < length l)%nat -> P (nth i l' dflt)) -> Forall P l'.
Proof. intros HL H. apply Forall_nth. intros i dd Hi. rewrite (nth_indep _ dd dflt Hi). apply H. lia. Qed.

Lemma step_ghost (o o' : obj R) (a : @op R) : inv o -> ghost_ok o -> guard_old o a -> step o a = Ok o' -> ghost_ok o'.
Proof.
  intros [HS HB] HG G E. unfold ghost_ok in *.
  destruct a as [d xs|d|d1 d2|d s e|x|s|keep|n|]; cbn [step guard_old] in *; unfold o_pardim in *.
  - destruct (Nat.ltb_spec d (length (o_bases o))) as [Hd|Hd]; [|discriminate]. cbv zeta in G.
    destruct (insert_knots_shape xs o o' d HS Hd E) as [_ Hl].
    destruct (Nat.eq_dec (b_per1 (nth d (o_bases o) dflt_basis)) 0) as [P0|P0].
    + destruct (insert_knots_bases xs o o' d HB Hd P0 E) as (_ & P1 & _ & _ & _ & P2 & _).
      apply (Forall_by_nth _ (o_bases o) _ dflt_basis Hl). intros i Hi. destruct (Nat.eq_dec i d) as [->|Ne]; [apply images_ok_nonper; exact P1|].
      rewrite P2 by exact Ne. apply Forall_nth_in; assumption.
    + destruct G as [G|[G1 G2]]; [contradiction|]. destruct (insert_knots_bases_per xs o o' d HB Hd P0 G1 G2 E) as (_ & P1 & _ & _ & P2).
      apply (Forall_by_nth _ (o_bases o) _ dflt_basis Hl). intros i Hi. destruct (Nat.eq_dec i d) as [->|Ne]; [exact P1|].
      rewrite P2 by exact Ne. apply Forall_nth_in; assumption.
  - destruct (Nat.ltb_spec d (length (o_bases o))) as [Hd|Hd]; [|discriminate]. injection E as <-.
    unfold obj_reverse. cbv zeta. cbn [o_bases]. apply Forall_upd; [exact HG|]. apply images_reverse; apply Forall_nth_in; assumption.
  - destruct (Nat.ltb_spec d1 (length (o_bases o))) as [H1|H1]; [|discriminate].
    destruct (Nat.ltb_spec d2 (length (o_bases o))) as [H2|H2]; [|discriminate]. cbn [andb] in E. injection E as <-.
    unfold obj_swap, o_pardim. destruct (length (o_bases o) =? 1)%nat; [exact HG|]. cbv zeta. cbn [o_bases]. unfold swap_idx.
    apply Forall_upd; [apply Forall_upd; [exact HG|]|]; apply Forall_nth_in; assumption.
  - destruct (Nat.ltb_spec d (length (o_bases o))) as [Hd|Hd]; [|discriminate].
    unfold obj_reparam_dir in E. destruct (basis_reparam (nth d (o_bases o) (mkBasis 0 [] 0)) s e) as [b'|er] eqn:Eb; [|discriminate].
    injection E as <-. cbn [o_bases]. apply Forall_upd; [exact HG|].
    apply (images_reparam _ b' s e (Forall_nth_in _ _ d (mkBasis 0 [] 0) HB Hd) (Forall_nth_in _ _ d (mkBasis 0 [] 0) HG Hd) Eb).
  - unfold obj_translate in E. cbv zeta in E.
    destruct (o_dim o <? length x)%nat; (destruct (length x <? _)%nat; [discriminate|]); injection E as <-; exact HG.
  - unfold obj_scale in E. cbv zeta in E. destruct (_ <? _)%nat; [discriminate|]. injection E as <-. exact HG.
  - injection E as <-. exact HG.
  - injection E as <-. exact HG.
  - injection E as <-. unfold obj_force_rational. destruct (o_rat o); exact HG.
Qed.

Lemma nonper_ghost (o : obj R) : nonper o -> ghost_ok o.
Proof. intros H. unfold ghost_ok, nonper in *. apply Forall_forall. intros b Hb. rewrite Forall_forall in H. apply images_ok_nonper, H, Hb. Qed.

(* with the ghost-knot invariant at hand the guard of a knot insertion is a test on the state: non-periodic or roomy *)
Lemma guard_insert_of_ghost (o : obj R) d xs : ghost_ok o ->
  (b_per1 (nth d (o_bases o) dflt_basis) = 0%nat \/ roomy (nth d (o_bases o) dflt_basis)) -> guard_old o (OpInsert d xs).
Proof.
  intros HG [H0|Hr]; [left; exact H0|]. cbn [guard_old]. destruct (Nat.lt_ge_cases d (length (o_bases o))) as [Hd|Hd].
  - right. split; [apply (Forall_nth_in _ _ d dflt_basis HG Hd)|exact Hr].
  - left. rewrite nth_overflow by exact Hd. reflexivity.
Qed.

Theorem step2_preserves_ghost tol (o o' : obj R) (a : @op2 R) : inv o -> ghost_ok o -> guard2 tol o a -> step2 tol o a = Ok o' -> ghost_ok o'.
Proof.
  intros HI HG G E. destruct a as [a'|am|am|d ks idx|sels|ch sh nrm iv|nrm iv|cont d|t d|o2|o2 dir]; cbn [guard2] in G; try contradiction.
  - exact (step_ghost o o' a' HI HG G E).
  - (* raise: a raised direction is non-periodic *)
    destruct (raise_order_inv tol o o' am HI G E) as (_ & R2 & _ & _ & R5). destruct G as [_ G].
    apply (Forall_by_nth _ (o_bases o) _ dflt_basis R2). intros i Hi. rewrite R5.
    destruct (_ <? _)%nat; [|apply Forall_nth_in; assumption]. destruct (G i Hi) as [->|[Hper _]].
    + unfold basis_raise_order. cbn [Nat.eqb]. apply Forall_nth_in; assumption.
    + apply images_ok_nonper. rewrite (proj2 (raise_basis_order tol _ _)). exact Hper.
  - (* split piece *)
    destruct G as (p & k & H). cbn [step2] in E. destruct (d <? o_pardim o)%nat; [|discriminate].
    destruct (obj_split (S (length ks)) tol o d ks) as [ps|er] eqn:ES; [|discriminate].
    destruct (nth_error ps idx) as [pc|] eqn:En; [|discriminate]. injection E as <-.
    assert (Hidx : (idx < length ps)%nat) by (apply nth_error_Some; congruence).
    rewrite (split_length tol o d p k ks H _ _ ES) in Hidx.
    destruct (split_tiling tol o d p k ks H _ _ ES idx ltac:(lia)) as (_ & T2 & T3 & _ & T5 & _). cbv zeta in T2, T3, T5.
    rewrite (nth_error_nth ps idx o En) in T2, T3, T5.
    apply (Forall_by_nth _ (o_bases o) _ dflt_basis T2). intros i Hi. destruct (Nat.eq_dec i d) as [->|Ne]; [apply images_ok_nonper; exact T5|].
    rewrite T3 by exact Ne. apply Forall_nth_in; assumption.
  - cbn [step2] in E. destruct (Nat.ltb_spec (o_pardim o) (length sels)) as [L|L]; [discriminate|]. injection E as <-.
    destruct (section_inv o (pad_sels (o_pardim o) sels) HI (pad_sels_length _ _ L)) as (_ & EB & _). unfold ghost_ok. rewrite EB.
    unfold free_bases. apply Forall_forall. intros b Hb. apply in_map_iff in Hb. destruct Hb as ([s b'] & <- & Hin).
    apply filter_In in Hin. destruct Hin as [Hin _]. apply in_combine_r in Hin. unfold ghost_ok in HG. rewrite Forall_forall in HG. apply HG. exact Hin.
  - unfold ghost_ok. rewrite (proj2 (rotate_inv o o' ch sh nrm iv HI E)). exact HG.
  - unfold ghost_ok. rewrite (proj2 (mirror_inv o o' nrm iv HI E)). exact HG.
  - (* make_periodic *)
    cbn [step2] in E. destruct (Nat.ltb_spec d (o_pardim o)) as [Hd|Hd]; [|discriminate]. unfold o_pardim in Hd.
    unfold obj_make_periodic, guard_make_periodic in *. cbv zeta in *. fold dflt_basis in E.
    set (b := nth d (o_bases o) dflt_basis) in *.
    destruct (Z.ltb_spec cont (-1)) as [C1|C1]; [discriminate|]. destruct (Z.ltb_spec (Z.of_nat (b_order b) - 2) cont) as [C2|C2]; [discriminate|].
    cbn [orb] in E. destruct (Z.eqb_spec cont (-1)) as [C3|C3]; [discriminate|].
    destruct (Nat.eqb_spec (b_per1 b) 0) as [Hper|Hper]; [|discriminate]. cbn [negb] in E. injection E as <-.
    unfold obj_along, ghost_ok. cbn [o_bases]. apply Forall_upd; [exact HG|].
    apply images_make_periodic; [apply (Forall_nth_in _ _ d dflt_basis (proj2 HI) Hd)|lia|unfold b_nfun in G; lia].
  - (* lower_periodic *)
    cbn [step2] in E. destruct (Nat.ltb_spec d (o_pardim o)) as [L|L]; [|discriminate].
    destruct (lower_periodic_inv t d 64 o o' HI L G E) as (_ & A2 & A3 & A4).
    apply (Forall_by_nth _ (o_bases o) _ dflt_basis A2). intros i Hi. destruct (Nat.eq_dec i d) as [->|Ne]; [exact A3|].
    rewrite A4 by exact Ne. apply Forall_nth_in; assumption.
  - (* append: one non-periodic basis *)
    cbn [step2] in E. destruct (_ && _); [|discriminate]. unfold obj_append in E. cbv zeta in E.
    destruct (negb _ || negb _); [discriminate|]. destruct (obj_compatible o o2) as [c1 c2].
    destruct (obj_raise_order tol c1 _) as [d1|er]; [|discriminate]. destruct (obj_raise_order tol c2 _) as [d2|er]; [|discriminate].
    injection E as <-. unfold ghost_ok. cbn [o_bases]. constructor; [apply images_ok_nonper; reflexivity|constructor].
  - cbn [step2] in E. destruct (obj_make_identical tol o o2 dir) as [ab|er] eqn:EI; [|discriminate]. injection E as <-.
    apply nonper_ghost. exact (proj1 (proj2 (proj2 (make_identical_inv tol o o2 dir ab HI G EI)))).
Qed.

(* the side conditions along a history: at every state the next operation satisfies its guard *)
Fixpoint guarded2 (tol : R) (o : obj R) (ops : list (@op2 R)) : Prop :=
  match ops with
  | [] => True
  | a :: rest => guard2 tol o a /\ forall o1, step2 tol o a = Ok o1 -> guarded2 tol o1 rest
  end.
Fixpoint guardedw2 (tol : R) (o : obj R) (ops : list (@op2 R)) : Prop :=
  match ops with
  | [] => True
  | a :: rest => guardw2 o a /\ forall o1, step2 tol o a = Ok o1 -> guardedw2 tol o1 rest
  end.

(* MAIN: every object reachable by a guarded history satisfies the structural invariant *)
Theorem reachable_inv tol (ops : list (@op2 R)) : forall (o o' : obj R),
  inv o -> guarded2 tol o ops -> run2 tol o ops = Ok o' -> inv o'.
Proof.
  induction ops as [|a ops IH]; intros o o' HI G; cbn [run2].
  - intros [= <-]. exact HI.
  - destruct (step2 tol o a) as [o1|e] eqn:E; [|discriminate]. destruct G as [G1 G2].
    apply (IH o1 o' (step2_preserves_inv tol o o1 a HI G1 E) (G2 o1 E)).
Qed.

(* ... and so do all intermediate objects *)
Theorem trace_inv tol (ops : list (@op2 R)) : forall (o : obj R), inv o -> guarded2 tol o ops -> Forall inv (trace2 tol o ops).
Proof.
  induction ops as [|a ops IH]; intros o HI G; cbn [trace2]; [constructor; [exact HI|constructor]|].
  constructor; [exact HI|]. destruct (step2 tol o a) as [o1|e] eqn:E; [|constructor]. destruct G as [G1 G2].
  apply (IH o1 (step2_preserves_inv tol o o1 a HI G1 E) (G2 o1 E)).
Qed.

Theorem reachable_weights tol (ops : list (@op2 R)) : forall (o o' : obj R),
  inv o -> weights_pos o -> guarded2 tol o ops -> guardedw2 tol o ops -> run2 tol o ops = Ok o' -> inv o' /\ weights_pos o'.
Proof.
  induction ops as [|a ops IH]; intros o o' HI HW G GW; cbn [run2].
  - intros [= <-]. split; assumption.
  - destruct (step2 tol o a) as [o1|e] eqn:E; [|discriminate]. destruct G as [G1 G2]. destruct GW as [W1 W2].
    apply (IH o1 o' (step2_preserves_inv tol o o1 a HI G1 E) (step2_preserves_weights tol o o1 a HI HW G1 W1 E) (G2 o1 E) (W2 o1 E)).
Qed.

(* the three invariants together *)
Theorem reachable_inv_ghost tol (ops : list (@op2 R)) : forall (o o' : obj R),
  inv o -> ghost_ok o -> guarded2 tol o ops -> run2 tol o ops = Ok o' -> inv o' /\ ghost_ok o'.
Proof.
  induction ops as [|a ops IH]; intros o o' HI HG G; cbn [run2].
  - intros [= <-]. split; assumption.
  - destruct (step2 tol o a) as [o1|e] eqn:E; [|discriminate]. destruct G as [G1 G2].
    apply (IH o1 o' (step2_preserves_inv tol o o1 a HI G1 E) (step2_preserves_ghost tol o o1 a HI HG G1 E) (G2 o1 E)).
Qed.

(* ------------------------------------------------------------------------------------------------ *)
(* purely syntactic sub-languages *)
(* (a) operations whose guard is trivial in every state *)
Definition covered_any (a : @op2 R) : Prop :=
  match a with
  | OpOld (OpInsert _ _) => False
  | OpOld _ => True
  | OpSection _ => True
  | OpRotate _ _ _ _ => True
  | OpMirror _ _ => True
  | _ => False
  end.
(* (b) the same plus knot insertion, for objects without periodic directions *)
Definition covered (a : @op2 R) : Prop :=
  match a with
  | OpOld _ => True
  | OpSection _ => True
  | OpRotate _ _ _ _ => True
  | OpMirror _ _ => True
  | _ => False
  end.

Lemma covered_any_guards tol (a : @op2 R) (o : obj R) : covered_any a -> guard2 tol o a /\ guardw2 o a.
Proof. destruct a as [a'|am|am|d ks idx|sels|ch sh nrm iv|nrm iv|cont d|t d|o2|o2 dir]; cbn; try contradiction; try (split; exact I). destruct a'; cbn; try contradiction; split; exact I. Qed.

Lemma covered_any_guarded tol (ops : list (@op2 R)) : Forall covered_any ops -> forall o, guarded2 tol o ops /\ guardedw2 tol o ops.
Proof.
  induction 1 as [|a ops Ha Hops IH]; intros o; cbn [guarded2 guardedw2]; [split; exact I|].
  destruct (covered_any_guards tol a o Ha) as [G W]. split; (split; [assumption|]); intros o1 _; apply IH.
Qed.

Theorem reachable_inv_any tol (ops : list (@op2 R)) (o o' : obj R) : Forall covered_any ops ->
  inv o -> run2 tol o ops = Ok o' -> inv o' /\ (weights_pos o -> weights_pos o').
Proof.
  intros Hc HI E. destruct (covered_any_guarded tol ops Hc o) as [G W]. split; [exact (reachable_inv tol ops o o' HI G E)|].
  intros HW. exact (proj2 (reachable_weights tol ops o o' HI HW G W E)).
Qed.

Lemma step2_covered tol (o o' : obj R) (a : @op2 R) : covered a -> inv o -> nonper o -> step2 tol o a = Ok o' ->
  guard2 tol o a /\ nonper o'.
Proof.
  intros Hc HI HN E. destruct a as [a'|am|am|d ks idx|sels|ch sh nrm iv|nrm iv|cont d|t d|o2|o2 dir]; cbn [covered] in Hc; try contradiction; cbn [guard2].
  - split; [|exact (step_nonper o o' a' HI HN E)]. destruct a'; cbn [guard_old]; try exact I.
    cbn [step2 step] in E. unfold o_pardim in E. destruct (Nat.ltb_spec d (length (o_bases o))) as [Hd|Hd]; [|discriminate].
    left. apply (Forall_nth_in _ _ d dflt_basis HN Hd).
  - split; [exact I|]. cbn [step2] in E. destruct (Nat.ltb_spec (o_pardim o) (length sels)) as [L|L]; [discriminate|]. injection E as <-.
    destruct (section_inv o (pad_sels (o_pardim o) sels) HI (pad_sels_length _ _ L)) as (_ & EB & _). unfold nonper. rewrite EB.
    unfold free_bases. apply Forall_forall. intros b Hb. apply in_map_iff in Hb. destruct Hb as ([s b'] & <- & Hin).
    apply filter_In in Hin. destruct Hin as [Hin _]. apply in_combine_r in Hin. unfold nonper in HN. rewrite Forall_forall in HN. apply HN. exact Hin.
  - split; [exact I|]. unfold nonper. rewrite (proj2 (rotate_inv o o' ch sh nrm iv HI E)). exact HN.
  - split; [exact I|]. unfold nonper. rewrite (proj2 (mirror_inv o o' nrm iv HI E)). exact HN.
Qed.

Theorem reachable_inv_covered tol (ops : list (@op2 R)) : Forall covered ops -> forall (o o' : obj R),
  inv o -> nonper o -> run2 tol o ops = Ok o' -> inv o' /\ nonper o'.
Proof.
  induction 1 as [|a ops Ha Hops IH]; intros o o' HI HN; cbn [run2].
  - intros [= <-]. split; assumption.
  - destruct (step2 tol o a) as [o1|e] eqn:E; [|discriminate]. destruct (step2_covered tol o o1 a Ha HI HN E) as [G HN1].
    apply (IH o1 o' (step2_preserves_inv tol o o1 a HI G E) HN1).
Qed.

(* ------------------------------------------------------------------------------------------------ *)
(* accessor consistency: shape, control-point count, the two flat orders *)
Theorem shape_accessor (o : obj R) : o_shape o = map (@b_nfun R) (o_bases o) /\ length (o_shape o) = o_pardim o.
Proof. split; [reflexivity|apply map_length]. Qed.

Theorem cps_accessor (o : obj R) : inv o ->
  length (o_cps o) = prodl (map (@b_nfun R) (o_bases o)) /\
  Forall (fun v => length v = (o_dim o + if o_rat o then 1 else 0)%nat) (o_cps o) /\
  Forall (fun n => (0 < n)%nat) (o_shape o).
Proof. intros [(HL & HV & HP) _]. split; [exact HL|]. split; [exact HV|]. apply prodl_pos_iff. exact HP. Qed.

(* C order: the first index is the slowest *)
Lemma ravel_cons n sh i idx : ravel (n :: sh) (i :: idx) = (i * prodl sh + ravel sh idx)%nat.
Proof. reflexivity. Qed.
Lemma ravel_2d n0 n1 i j : ravel [n0; n1] [i; j] = (i * n1 + j)%nat.
Proof. cbn. lia. Qed.
Lemma ravel_3d n0 n1 n2 i j k : ravel [n0; n1; n2] [i; j; k] = ((i * n1 + j) * n2 + k)%nat.
Proof. cbn. lia. Qed.

(* multi-indices within the shape <-> positions of the flat net *)
Theorem flat_index_bijection (o : obj R) : inv o ->
  (forall idx, inshape idx (o_shape o) -> (ravel (o_shape o) idx < length (o_cps o))%nat /\ unravel (o_shape o) (ravel (o_shape o) idx) = idx) /\
  (forall f, (f < length (o_cps o))%nat -> inshape (unravel (o_shape o) f) (o_shape o) /\ ravel (o_shape o) (unravel (o_shape o) f) = f).
Proof.
  intros [(HL & _ & _) _]. fold (prodl (o_shape o)) in HL. rewrite HL. split.
  - intros idx H. split; [apply SwapEndToEnd.ravel_lt; exact H|apply SwapEndToEnd.unravel_ravel; exact H].
  - intros f H. split; [apply unravel_inshape; exact H|apply SwapEndToEnd.ravel_unravel; exact H].
Qed.

(* "flat" (Fortran) order: the first index is the fastest *)
Fixpoint fravel (shape idx : list nat) : nat :=
  match shape, idx with
  | n :: sh, i :: ix => (i + n * fravel sh ix)%nat
  | _, _ => 0%nat
  end.

Lemma prodl_snoc sh n : prodl (sh ++ [n]) = (prodl sh * n)%nat.
Proof. induction sh as [|a sh IH]; cbn [app prodl fold_right]; [lia|]. fold (prodl (sh ++ [n])). fold (prodl sh). rewrite IH. lia. Qed.

Lemma ravel_snoc : forall sh idx n i, length idx = length sh -> ravel (sh ++ [n]) (idx ++ [i]) = (ravel sh idx * n + i)%nat.
Proof.
  induction sh as [|a sh IH]; intros idx n i Hl; destruct idx as [|j idx]; try discriminate; [cbn; lia|].
  cbn [app ravel]. fold (prodl (sh ++ [n])). fold (prodl sh). rewrite prodl_snoc, IH by (cbn in Hl; lia). lia.
Qed.

Theorem ravel_rev : forall shape idx, length idx = length shape -> ravel (rev shape) (rev idx) = fravel shape idx.
Proof.
  induction shape as [|n sh IH]; intros idx Hl; destruct idx as [|i idx]; try discriminate; [reflexivity|].
  cbn [rev fravel]. rewrite ravel_snoc by (rewrite !rev_length; cbn in Hl; lia). rewrite IH by (cbn in Hl; lia). lia.
Qed.

(* the re-indexing with the reversed shape (c2f: what __getitem__ on the flattened array and the G2 writer use) lists the
   control points first-index-fastest *)
Theorem c2f_entry {A} (dflt : A) shape (cps : list A) idx : inshape idx shape ->
  nth (fravel shape idx) (c2f dflt shape cps) dflt = nth (ravel shape idx) cps dflt.
Proof.
  intros H. pose proof (inshape_length _ _ H) as Hl. rewrite <- ravel_rev by exact Hl.
  assert (Hr : inshape (rev idx) (rev shape)) by (apply Forall2_rev; exact H).
  unfold c2f. rewrite reindex_nth by (apply SwapEndToEnd.ravel_lt; exact Hr).
  rewrite SwapEndToEnd.unravel_ravel by exact Hr. rewrite rev_involutive. reflexivity.
Qed.

Theorem fravel_lt shape idx : inshape idx shape -> (fravel shape idx < prodl shape)%nat.
Proof.
  intros H. rewrite <- ravel_rev by (apply inshape_length; exact H). change (prodl shape) with (prodn shape). rewrite <- (prodn_rev shape). change (prodn (rev shape)) with (prodl (rev shape)).
  apply SwapEndToEnd.ravel_lt. apply Forall2_rev. exact H.
Qed.

(* ------------------------------------------------------------------------------------------------ *)
(* non-vacuity on R: a concrete object and a guarded history of seven operations whose run succeeds *)
Definition wit_k : list R := [0;0;0;1;2;3;3;3].
Definition wit_o : obj R := mkObj [mkBasis 3 wit_k 0] [[0];[1];[3];[2];[5]] 1 false.
Definition wit_tol : R := 1/100.
Definition wit_rest : list (@op2 R) :=
  [OpOld (OpReverse 0); OpOld OpForceRational; OpOld (OpSetDimension 3); OpRotate (3/5) (4/5) [0;0;1] 1; OpMirror [1;0;0] 1; OpSection []].
Definition wit_hist : list (@op2 R) := OpSplitPick 0 [1; 3/2] 1 :: wit_rest.

Lemma wit_hyps : split_hyps wit_tol wit_o 0 3 wit_k [1; 3/2].
Proof. exact ex_hyps. Qed.

Lemma rotate_ok3 (o : obj R) ch sh nrm iv : o_dim o = 3%nat -> exists o', obj_rotate o ch sh nrm iv = Ok o' /\ o_dim o' = 3%nat /\ o_rat o' = o_rat o.
Proof.
  intros Hd. unfold obj_rotate. cbv zeta.
  match goal with |- context [if ?c then o else obj_set_dimension o 3] => set (cnd := c); set (o1 := if cnd then o else obj_set_dimension o 3) end.
  assert (H1 : o_dim o1 = 3%nat) by (unfold o1; destruct cnd; [exact Hd|reflexivity]).
  assert (H2 : o_rat o1 = o_rat o) by (unfold o1; destruct cnd; reflexivity).
  rewrite H1. cbn [Nat.eqb]. eexists. split; [reflexivity|]. split; [exact H1|exact H2].
Qed.
Lemma mirror_ok3 (o : obj R) nrm iv : o_dim o = 3%nat -> exists o', obj_mirror o nrm iv = Ok o' /\ o_dim o' = 3%nat /\ o_rat o' = o_rat o.
Proof. intros Hd. unfold obj_mirror. rewrite Hd. cbn [Nat.eqb negb]. cbv zeta. eexists. split; [reflexivity|]. split; [exact Hd|reflexivity]. Qed.

Theorem witness_R : inv wit_o /\ weights_pos wit_o /\ guarded2 wit_tol wit_o wit_hist /\ guardedw2 wit_tol wit_o wit_hist /\
  exists o', run2 wit_tol wit_o wit_hist = Ok o' /\ inv o' /\ weights_pos o' /\ o_dim o' = 3%nat /\ o_rat o' = true.
Proof.
  pose proof wit_hyps as H. assert (Htol : 0 < wit_tol) by (unfold wit_tol; lra).
  assert (HI : inv wit_o) by (apply (wf_obj_inv wit_tol); [exact Htol|exact (sh_wf _ _ _ _ _ _ H)]).
  assert (HW : weights_pos wit_o) by (intros Hr; discriminate Hr).
  assert (G : guarded2 wit_tol wit_o wit_hist /\ guardedw2 wit_tol wit_o wit_hist).
  { assert (Hc : Forall covered_any wit_rest) by (unfold wit_rest; repeat constructor).
    split.
    - change (guard2 wit_tol wit_o (OpSplitPick 0 [1; 3/2] 1) /\ forall o1, step2 wit_tol wit_o (OpSplitPick 0 [1; 3/2] 1) = Ok o1 -> guarded2 wit_tol o1 wit_rest).
      split; [exists 3%nat, wit_k; exact H|]. intros o1 _. apply covered_any_guarded. exact Hc.
    - change (guardw2 wit_o (OpSplitPick 0 [1; 3/2] 1) /\ forall o1, step2 wit_tol wit_o (OpSplitPick 0 [1; 3/2] 1) = Ok o1 -> guardedw2 wit_tol o1 wit_rest).
      split; [exact I|]. intros o1 _. apply covered_any_guarded. exact Hc. }
  destruct G as [G GW]. split; [exact HI|]. split; [exact HW|]. split; [exact G|]. split; [exact GW|].
  (* the run *)
  destruct (obj_split_ok wit_tol wit_o 0 3 wit_k [1; 3/2] H 3 ltac:(lia)) as (pieces & E).
  pose proof (split_length wit_tol wit_o 0 3 wit_k [1; 3/2] H 3 pieces E) as Hlen. cbn [length] in Hlen.
  destruct (nth_error pieces 1) as [p1|] eqn:En; [|apply nth_error_None in En; lia].
  assert (E1 : step2 wit_tol wit_o (OpSplitPick 0 [1; 3/2] 1) = Ok p1).
  { cbn [step2]. change (0 <? o_pardim wit_o)%nat with true. cbn [length]. rewrite E, En. reflexivity. }
  destruct (split_pick_inv wit_tol wit_o p1 0 [1; 3/2] 1 (ex_intro _ 3%nat (ex_intro _ wit_k H)) E1) as [_ Hl1]. cbn [wit_o o_bases length] in Hl1.
  set (o2 := obj_reverse p1 0). set (o3 := obj_force_rational o2). set (o4 := obj_set_dimension o3 3).
  destruct (rotate_ok3 o4 (3/5) (4/5) [0;0;1] 1 eq_refl) as (o5 & E5 & D5 & R5). destruct (mirror_ok3 o5 [1;0;0] 1 D5) as (o6 & E6 & D6 & R6).
  set (o7 := obj_section o6 (pad_sels (o_pardim o6) [])).
  assert (ER : run2 wit_tol wit_o wit_hist = Ok o7).
  { unfold wit_hist. cbn [run2]. rewrite E1. unfold wit_rest. cbn [run2].
    assert (E2 : step2 wit_tol p1 (OpOld (OpReverse 0)) = Ok o2) by (cbn [step2 step]; unfold o_pardim; rewrite Hl1; reflexivity).
    rewrite E2. change (step2 wit_tol o2 (OpOld OpForceRational)) with (Ok o3). cbv iota beta.
    change (step2 wit_tol o3 (OpOld (OpSetDimension 3))) with (Ok o4). cbv iota beta.
    change (step2 wit_tol o4 (OpRotate (3/5) (4/5) [0;0;1] 1)) with (obj_rotate o4 (3/5) (4/5) [0;0;1] 1). rewrite E5.
    change (step2 wit_tol o5 (OpMirror [1;0;0] 1)) with (obj_mirror o5 [1;0;0] 1). rewrite E6.
    cbn [step2 length]. destruct (Nat.ltb_spec (o_pardim o6) 0); [lia|]. reflexivity. }
  exists o7. split; [exact ER|]. destruct (reachable_weights wit_tol wit_hist wit_o o7 HI HW G GW ER) as [I7 W7].
  split; [exact I7|]. split; [exact W7|]. split; [exact D6|].
  change (o_rat o7) with (o_rat o6). rewrite R6, R5. change (o_rat o4) with (o_rat o3). unfold o3, obj_force_rational. destruct (o_rat o2) eqn:Er; [exact Er|reflexivity].
Qed.

(* a second history on R through periodic objects: make_periodic, knot insertion into the periodic direction, reverse, reparam *)
Definition wit_hist_per : list (@op2 R) := [OpMakePeriodic 0%Z 0; OpOld (OpInsert 0 [1/2]); OpOld (OpReverse 0); OpOld (OpReparam 0 2 5)].

Theorem witness_R_periodic : guarded2 wit_tol wit_o wit_hist_per /\
  exists o', run2 wit_tol wit_o wit_hist_per = Ok o' /\ inv o' /\ ghost_ok o' /\ b_per1 (nth 0 (o_bases o') dflt_basis) = 1%nat /\
             b_start (nth 0 (o_bases o') dflt_basis) = 2 /\ b_end (nth 0 (o_bases o') dflt_basis) = 5 /\ o_shape o' = [5%nat].
Proof.
  destruct witness_R as (HI & _).
  assert (HG0 : ghost_ok wit_o) by (apply nonper_ghost; unfold nonper, wit_o; cbn [o_bases]; repeat constructor).
  (* step 1: make_periodic *)
  set (b1 := basis_make_periodic (mkBasis 3 wit_k 0) 0).
  set (o1 := obj_along wit_o 0 b1 (periodic_merge_matrix 5 0)).
  assert (E1 : step2 wit_tol wit_o (OpMakePeriodic 0%Z 0) = Ok o1) by reflexivity.
  assert (Gmp : guard2 wit_tol wit_o (OpMakePeriodic 0%Z 0)) by (unfold guard2, guard_make_periodic, wit_o, wit_k, b_nfun; cbn; lia).
  assert (I1 : inv o1) by (apply (step2_preserves_inv wit_tol wit_o o1 _ HI Gmp E1)).
  assert (G1 : ghost_ok o1) by (apply (step2_preserves_ghost wit_tol wit_o o1 _ HI HG0 Gmp E1)).
  assert (K1 : knots_ok b1) by (apply (Forall_nth_in _ _ 0%nat dflt_basis (proj2 I1)); cbn; lia).
  assert (Im1 : images_ok b1) by (apply (Forall_nth_in _ _ 0%nat dflt_basis G1); cbn; lia).
  assert (Ro1 : roomy b1) by (unfold roomy; vm_compute; lia).
  assert (P1 : b_per1 b1 <> 0%nat) by (cbn; lia).
  (* step 2: periodic knot insertion *)
  destruct (basis_insert_knot_per_ok b1 (1/2) K1 P1) as (b2 & C2 & EB).
  destruct (knots_ok_insert_per b1 b2 (1/2) C2 K1 Im1 P1 Ro1 EB) as (_ & _ & _ & Q4 & Q5 & Q6 & _).
  set (o2 := mkObj (upd (o_bases o1) 0 b2) (apply_dir (o_ncomp o1) (o_shape o1) 0 C2 (o_cps o1)) (o_dim o1) (o_rat o1)).
  assert (E2 : step2 wit_tol o1 (OpOld (OpInsert 0 [1/2])) = Ok o2).
  { cbn [step2 step]. change (0 <? o_pardim o1)%nat with true. cbn [obj_insert_knots]. change (nth 0 (o_bases o1) (mkBasis 0 [] 0)) with b1. rewrite EB. reflexivity. }
  assert (Gin : guard2 wit_tol o1 (OpOld (OpInsert 0 [1/2]))) by (right; split; assumption).
  assert (I2 : inv o2) by (apply (step2_preserves_inv wit_tol o1 o2 _ I1 Gin E2)).
  (* steps 3, 4 *)
  set (o3 := obj_reverse o2 0).
  assert (E3 : step2 wit_tol o2 (OpOld (OpReverse 0)) = Ok o3) by reflexivity.
  assert (I3 : inv o3) by (apply (step2_preserves_inv wit_tol o2 o3 (OpOld (OpReverse 0)) I2 I E3)).
  assert (N3 : nth 0 (o_bases o3) dflt_basis = basis_reverse b2) by reflexivity.
  assert (Hl3 : length (o_bases o3) = 1%nat) by reflexivity.
  assert (K2 : knots_ok b2) by (apply (Forall_nth_in _ _ 0%nat dflt_basis (proj2 I2)); cbn; lia).
  destruct (knots_ok_reverse b2 K2) as (K3 & _ & _ & R4 & R5).
  pose proof (knots_ne _ K3) as Hne. pose proof K3 as (_ & _ & _ & Hse3).
  pose proof (basis_reparam_ok (basis_reverse b2) Hne Hse3 2 5 ltac:(lra)) as Er.
  set (o4 := mkObj (upd (o_bases o3) 0 (rp_basis (basis_reverse b2) 2 5)) (o_cps o3) (o_dim o3) (o_rat o3)).
  assert (E4 : step2 wit_tol o3 (OpOld (OpReparam 0 2 5)) = Ok o4).
  { cbn [step2 step]. unfold o_pardim. rewrite Hl3. cbn [Nat.ltb Nat.leb]. unfold obj_reparam_dir. fold dflt_basis. rewrite N3, Er. reflexivity. }
  assert (Hc : Forall covered_any [OpOld (OpReverse 0); OpOld (OpReparam 0 2 5)]) by repeat constructor.
  assert (G : guarded2 wit_tol wit_o wit_hist_per).
  { change (guard2 wit_tol wit_o (OpMakePeriodic 0%Z 0) /\ forall o1', step2 wit_tol wit_o (OpMakePeriodic 0%Z 0) = Ok o1' ->
            guard2 wit_tol o1' (OpOld (OpInsert 0 [1/2])) /\ forall o2', step2 wit_tol o1' (OpOld (OpInsert 0 [1/2])) = Ok o2' ->
            guarded2 wit_tol o2' [OpOld (OpReverse 0); OpOld (OpReparam 0 2 5)]).
    split; [exact Gmp|]. intros o1' E1'. rewrite E1 in E1'. injection E1' as <-. split; [exact Gin|].
    intros o2' _. apply covered_any_guarded. exact Hc. }
  split; [exact G|].
  assert (ER : run2 wit_tol wit_o wit_hist_per = Ok o4) by (unfold wit_hist_per; cbn [run2]; rewrite E1, E2, E3, E4; reflexivity).
  exists o4. split; [exact ER|]. destruct (reachable_inv_ghost wit_tol wit_hist_per wit_o o4 HI HG0 G ER) as [I4 G4].
  split; [exact I4|]. split; [exact G4|].
  assert (N4 : nth 0 (o_bases o4) dflt_basis = rp_basis (basis_reverse b2) 2 5) by reflexivity.
  rewrite N4. split; [cbn [rp_basis b_per1]; rewrite R4, Q4; reflexivity|]. split; [apply rp_start; exact Hne|]. split; [apply rp_end; assumption|].
  change (o_shape o4) with [b_nfun (rp_basis (basis_reverse b2) 2 5)]. f_equal.
  unfold b_nfun at 1. cbn [rp_basis b_knots b_order b_per1]. rewrite map_length. change (length (b_knots (basis_reverse b2)) - b_order (basis_reverse b2) - b_per1 (basis_reverse b2))%nat with (b_nfun (basis_reverse b2)).
  rewrite R5, Q6. vm_compute. reflexivity.
Qed.

(* ------------------------------------------------------------------------------------------------ *)
(* the executed (Q) instance: a history of twelve operations (eleven different kinds; the insertion near the end puts two knots,
   one of them outside the base period, into a periodic direction; the last one opens the curve again) on a rational surface
   succeeds, every
   intermediate object passes the executable well-formedness test of Model/WF.v (which includes positive weights) *)
From Coq Require Import QArith.
Definition q_run2 := @run2 Q NumQ.
Definition q_trace2 := @trace2 Q NumQ.
Definition exq_o : obj Q :=
  @mkObj Q [@mkBasis Q 2 [0;0;1;1]%Q 0; @mkBasis Q 3 [0;0;0;1;1;1]%Q 0]
    [[0;0;0;1]; [0;1;1;2]; [0;2;0;1]; [1;0;0;1]; [2;2;2;2]; [1;2;3;1]]%Q 3 true.
Definition exq_c : obj Q := @mkObj Q [@mkBasis Q 2 [0;0;1;2;2]%Q 0] [[5;5]; [6;5]; [6;7]]%Q 2 false.
Definition exq_tol : Q := (1#1000000)%Q.
Definition exq_hist : list (@op2 Q) :=
  [OpOld (OpInsert 0 [(1#2)%Q]); OpRaise [1%nat; 0%nat]; OpSplitPick 1 [(1#2)%Q] 1; OpRotate (3#5)%Q (4#5)%Q [0;0;1]%Q 1%Q;
   OpMirror [1;0;0]%Q 1%Q; OpSection [0%nat]; OpOld (OpReverse 0); OpMakeIdentical exq_c None; OpAppend exq_c; OpMakePeriodic 0%Z 0;
   OpOld (OpInsert 0 [(1#4)%Q; (7#2)%Q]); OpLowerPeriodic 0 0].

Example ops2_example_Q :
  match q_run2 exq_tol exq_o exq_hist with
  | Ok o' => @wf_obj_b Q NumQ exq_tol o' = true /\ @o_shape Q o' = [11%nat] /\ o_dim o' = 3%nat /\ o_rat o' = true /\
             map (@b_per1 Q) (o_bases o') = [0%nat]
  | Err _ => False
  end /\
  length (q_trace2 exq_tol exq_o exq_hist) = 13%nat /\
  forallb (@wf_obj_b Q NumQ exq_tol) (q_trace2 exq_tol exq_o exq_hist) = true.
Proof. vm_compute. repeat split; reflexivity. Qed.

(* why knot insertion into a PERIODIC direction is guarded out: the clauses of [inv] alone are not inductive there.  The
   basis below (order 2, periodic 1, two functions) is sorted with start 0 < end 1, but has ghost knots that do not repeat
   the interior spacing; inserting 0 runs the ghost-knot repair, which collapses the whole knot vector *)
Example periodic_insert_counterexample :
  match @basis_insert_knot Q NumQ (@mkBasis Q 2 [0;0;0;1;1;1]%Q 2) 0%Q with
  | Ok (b', _) => b_knots b' = [0;0;0;0;0;0;0]%Q /\ b_order b' = 2%nat /\ b_per1 b' = 2%nat
  | Err _ => False
  end.
Proof. vm_compute. repeat split; reflexivity. Qed.

