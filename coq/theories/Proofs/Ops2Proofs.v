(* C10, the structural invariant over the extended operation language of Model/Ops2.v.

   inv o          shape part (|net| = product of the function counts, every control point has o_ncomp components, no empty
                  direction) and, for EVERY basis (periodic or not): 1 <= order, 2*order <= number of knots, the knot list is
                  sorted, start < end.
   weights_pos o  a rational object has positive weights.

   Some operations keep the invariant only in states that satisfy a side condition (e.g. knot insertion: the direction is
   not periodic); the side conditions are collected in [guard2 tol o a] and the history theorem asks for them along the run
   ([guarded2]).  Operations for which no side condition was found have guard [False]; they are listed at the end. *)
From Coq Require Import List Arith Reals Lra Lia Bool ZArith Permutation.
From SplipyModel Require Import Spec.BSpline Model.Num Model.BasisDef Model.BasisEval Model.Tensor Model.Obj Model.KnotInsert
  Model.Reparam Model.Affine Model.Tol Model.Solve Model.Interp Model.Order Model.Split Model.Section Model.Periodic Model.Identical
  Model.Append Model.WF Model.Ops Model.Ops2 Model.G2
  Proofs.KnotList Proofs.SpanCorrect Proofs.EvalConsequences Proofs.TensorLemmas Proofs.TensorApply Proofs.InsertMatrix
  Proofs.InsertObj Proofs.InsertEndToEnd Proofs.ObjEval Proofs.ReparamObj Proofs.ReparamEndToEnd Proofs.ReverseEndToEnd
  Proofs.AppendProofs Proofs.WFProofs Proofs.G2Proofs.
Import ListNotations.
Open Scope R_scope.

(* ------------------------------------------------------------------------------------------------ *)
(* the invariant *)
Definition knots_ok (b : basis R) : Prop :=
  (1 <= b_order b)%nat /\ (2 * b_order b <= length (b_knots b))%nat /\ sorted (kn (b_knots b)) /\ b_start b < b_end b.

Definition inv (o : obj R) : Prop := shape_ok o /\ Forall knots_ok (o_bases o).

Definition weights_pos (o : obj R) : Prop :=
  o_rat o = true -> Forall (fun v => 0 < nth (o_dim o) v 0) (o_cps o).

(* at least one function in every direction *)
Lemma inv_nfun_pos (o : obj R) : inv o -> Forall (fun b => (0 < b_nfun b)%nat) (o_bases o).
Proof.
  intros [(_ & _ & HP) _]. unfold o_shape in HP. fold (prodl (map (@b_nfun R) (o_bases o))) in HP.
  apply prodl_pos_iff in HP. rewrite Forall_map in HP. exact HP.
Qed.

Lemma knots_ne (b : basis R) : knots_ok b -> b_knots b <> [].
Proof. intros (A & B & _). destruct (b_knots b); [cbn in B; lia|discriminate]. Qed.

(* list-level sortedness *)
Definition lsortedn (L : list R) : Prop := forall i j, (i <= j < length L)%nat -> nth i L 0 <= nth j L 0.

Lemma nth_insert_at (k : list R) mu x j : (mu <= length k)%nat ->
  nth j (insert_at k mu x) 0 = if (j <? mu)%nat then nth j k 0 else if (j =? mu)%nat then x else nth (j - 1) k 0.
Proof.
  intros Hm. unfold insert_at. assert (Hl : length (firstn mu k) = mu) by (apply firstn_length_le; exact Hm).
  destruct (Nat.ltb_spec j mu) as [A|A].
  - rewrite app_nth1 by lia. apply nth_firstn_lt. exact A.
  - rewrite app_nth2 by lia. rewrite Hl. destruct (Nat.eqb_spec j mu) as [->|N].
    + rewrite Nat.sub_diag. reflexivity.
    + replace (j - mu)%nat with (S (j - mu - 1)) by lia. cbn [nth]. rewrite nth_skipn_add. f_equal. lia.
Qed.

Lemma insert_at_lsorted (k : list R) mu x : lsortedn k -> (mu <= length k)%nat ->
  (forall j, (j < mu)%nat -> nth j k 0 <= x) -> (forall j, (mu <= j < length k)%nat -> x <= nth j k 0) ->
  lsortedn (insert_at k mu x).
Proof.
  intros HS Hm Hlo Hhi i j Hij. rewrite insert_at_length in Hij. rewrite !nth_insert_at by exact Hm.
  destruct (Nat.ltb_spec i mu) as [A|A]; destruct (Nat.ltb_spec j mu) as [B|B]; try lia.
  - apply HS. lia.
  - destruct (Nat.eqb_spec j mu) as [->|N]; [apply Hlo; exact A|].
    pose proof (Hlo i A). pose proof (Hhi (j - 1)%nat ltac:(lia)). lra.
  - destruct (Nat.eqb_spec i mu) as [->|N]; destruct (Nat.eqb_spec j mu) as [E|N']; try lia; try lra.
    + apply Hhi. lia.
    + apply HS. lia.
Qed.

(* inserting a value at its bisect_right position keeps any sorted list sorted *)
Lemma insert_bisect_sorted (k : list R) x : sorted (kn k) -> sorted (kn (insert_at k (py_bisect_right k x) x)).
Proof.
  intros HK. unfold py_bisect_right. destruct (bisect_right_spec (kn k) HK x (length k)) as (A & B & C). cbv zeta in *.
  apply sorted_kn_of_nth. apply insert_at_lsorted.
  - intros i j Hij. apply nth_of_sorted_kn; assumption.
  - exact A.
  - intros j Hj. rewrite <- (kn_in k j) by lia. apply B. exact Hj.
  - intros j Hj. rewrite <- (kn_in k j) by lia. left. apply C. exact Hj.
Qed.

(* a non-periodic knot insertion: the new basis *)
Lemma basis_insert_knot_nonper_knots (b b' : basis R) x C : b_per1 b = 0%nat ->
  basis_insert_knot b x = Ok (b', C) ->
  b_start b <= x <= b_end b /\ b' = mkBasis (b_order b) (insert_at (b_knots b) (py_bisect_right (b_knots b) x) x) 0.
Proof.
  intros Hper. unfold basis_insert_knot, wrap_knot. rewrite Hper. cbn [Nat.eqb negb]. cbn [nltb NumR].
  destruct (Rltb_spec x (b_start b)) as [A|A]; [discriminate|]. destruct (Rltb_spec (b_end b) x) as [A'|A']; [discriminate|].
  cbn [orb]. cbv zeta. destruct (negb _); [discriminate|]. intros [= <- _]. split; [lra|reflexivity].
Qed.

Lemma knots_ok_insert (b b' : basis R) x C : knots_ok b -> b_per1 b = 0%nat ->
  basis_insert_knot b x = Ok (b', C) ->
  knots_ok b' /\ b_per1 b' = 0%nat /\ b_start b' = b_start b /\ b_end b <= b_end b' /\ b_order b' = b_order b.
Proof.
  intros (Hp & Hlen & HK & Hse) Hper E. destruct (basis_insert_knot_nonper_knots b b' x C Hper E) as [Hx ->].
  set (k := b_knots b) in *. set (p := b_order b) in *. set (mu := py_bisect_right k x).
  destruct (bisect_right_spec (kn k) HK x (length k)) as (A & B & Cc). cbv zeta in *. fold (py_bisect_right k x) in A, B, Cc. fold mu in A, B, Cc.
  assert (Hmu : (p <= mu)%nat).
  { destruct (Nat.le_gt_cases p mu) as [L|L]; [exact L|]. specialize (Cc (p - 1)%nat ltac:(lia)). unfold b_start in Hx. fold k p in Hx. lra. }
  assert (Hl : length (insert_at k mu x) = S (length k)) by apply insert_at_length.
  assert (Hs : b_start (mkBasis p (insert_at k mu x) 0) = b_start b).
  { unfold b_start. cbn [b_order b_knots]. fold k p. rewrite (kn_in (insert_at k mu x) (p - 1)%nat ltac:(lia) 0). rewrite nth_insert_at by exact A.
    destruct (Nat.ltb_spec (p - 1) mu); [|lia]. symmetry. apply kn_in. lia. }
  assert (He : b_end b <= b_end (mkBasis p (insert_at k mu x) 0)).
  { unfold b_end. cbn [b_order b_knots]. fold k p. rewrite Hl. rewrite (kn_in (insert_at k mu x) (S (length k) - p)%nat ltac:(lia) 0).
    rewrite nth_insert_at by exact A. destruct (Nat.ltb_spec (S (length k) - p) mu) as [L|L].
    - rewrite <- (kn_in k) by lia. apply HK. lia.
    - destruct (Nat.eqb_spec (S (length k) - p) mu) as [Em|Nm].
      + apply B. lia.
      + replace (S (length k) - p - 1)%nat with (length k - p)%nat by lia. rewrite <- (kn_in k) by lia. lra. }
  split; [|split; [reflexivity|split; [exact Hs|split; [exact He|reflexivity]]]].
  split; [exact Hp|]. split; [cbn [b_order b_knots]; fold p; lia|]. split; [apply insert_bisect_sorted; exact HK|].
  rewrite Hs. lra.
Qed.
