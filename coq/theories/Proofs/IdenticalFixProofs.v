(* C12 for the REPAIRED SplineObject.make_splines_identical (Model/IdenticalFix.v: in a periodic direction the list of
   knots whose continuity is compared visits the seam once, knot1 = knot1[:-1]).

   Part A  (any number class F, structural)  identical_dir2 = identical_dir as soon as direction i is non-periodic in ONE
           of the operands (then it is non-periodic in both once the periodicity is settled and seam_once is the identity):
           identical_dir2_eq_open; obj_make_identical2 = obj_make_identical for objects without periodic directions
           (make_identical2_eq_nonperiodic) and with an explicit direction that is non-periodic in one operand.
           Corollaries: the theorems of Proofs/IdenticalEndToEnd.v and cases (b) of Proofs/IdenticalPeriodic.v for the
           repaired functions.
   Part B  periodic directions, hypotheses of Proofs/IdenticalPeriodic.v (equal seam multiplicities after the lowering):
           the end value of knots() contributes no insertion, identical_dir2 = identical_dir (per_core2_eq); cases (a) and
           (c) restated for the repaired functions.
   Part C  the new content: case (a) WITHOUT the hypothesis on the seam multiplicities (identical_per_hyps2): the repaired
           routine succeeds, both results have the same knot list whose period multiplicities are the maxima (also at
           the seam), both maps are preserved.
   Part D  executed on Q: old_identical_seam_defect, repaired_identical_seam. *)
From Coq Require Import List Arith Reals Lra Lia Bool ZArith QArith Permutation Sorted.
From SplipyModel Require Import Spec.BSpline Model.Num Model.BasisDef Model.BasisEval Model.Tensor Model.Obj Model.KnotInsert
  Model.Tol Model.Reparam Model.Affine Model.Solve Model.Interp Model.Order Model.Split Model.Periodic Model.Identical
  Model.IdenticalFix
  Proofs.KnotList Proofs.SpanCorrect Proofs.EvaluateSpec Proofs.EvalConsequences Proofs.SnapSpec Proofs.SnapChar
  Proofs.TensorLemmas Proofs.ObjEval Proofs.InsertMatrix Proofs.TensorApply Proofs.InsertObj Proofs.InsertEndToEnd
  Proofs.InsertListEndToEnd Proofs.ChangeDirEval Proofs.OrderProofs Proofs.LinAlg Proofs.RaiseNested Proofs.OrderRaise
  Proofs.RaiseAmount Proofs.RaiseEndToEnd Proofs.ReparamObj Proofs.ReparamEndToEnd Proofs.TolProofs Proofs.AffineProofs
  Proofs.IdenticalProofs Proofs.SplitCompose Proofs.IdenticalEndToEnd Proofs.PeriodicInsert Proofs.PeriodicEndToEnd
  Proofs.PeriodicSplit Proofs.IdenticalPeriodic.
Import ListNotations.
Open Scope R_scope.

(* ================================================================================================ *)
(* Part A: structural, any number class *)
Section Structural.
Context {F : Type} `{Num F}.
Local Notation dB := (@mkBasis F 0 [] 0).
Local Notation per o j := (b_per1 (nth j (o_bases o) dB)).

Lemma missing_knots2_open tol p (bf bi : basis F) : b_per1 bf = 0%nat -> missing_knots2 tol p bf bi = missing_knots tol p bf bi.
Proof. intros E. unfold missing_knots2, missing_knots, seam_once. rewrite E. reflexivity. Qed.

Lemma nth_upd_per1 (l : list (basis F)) d (bn : basis F) j : b_per1 bn = b_per1 (nth d l dB) ->
  b_per1 (nth j (upd l d bn) dB) = b_per1 (nth j l dB).
Proof.
  revert d j. induction l as [|a l IH]; intros d j E; [reflexivity|].
  destruct d as [|d]; destruct j as [|j]; cbn [upd nth] in *; try reflexivity; [exact E|]. apply IH. exact E.
Qed.

Lemma insert_knot_per1 (b b' : basis F) x C : basis_insert_knot b x = Ok (b', C) -> b_per1 b' = b_per1 b.
Proof.
  unfold basis_insert_knot. destruct (wrap_knot b x) as [y|e]; [|discriminate]. cbv zeta.
  destruct (negb _); [discriminate|]. intros E. injection E as <- _. reflexivity.
Qed.

Lemma insert_knots_per1 d xs : forall (o o' : obj F), obj_insert_knots o d xs = Ok o' -> forall j, per o' j = per o j.
Proof.
  induction xs as [|x xs IH]; intros o o' E j; cbn [obj_insert_knots] in E; [injection E as <-; reflexivity|].
  destruct (basis_insert_knot (nth d (o_bases o) dB) x) as [[b' C]|e] eqn:EB; [|discriminate].
  rewrite (IH _ _ E j). cbn [o_bases]. apply nth_upd_per1. apply (insert_knot_per1 _ _ _ _ EB).
Qed.

Lemma raise_basis_per1 tol (b : basis F) a : b_per1 (basis_raise_order tol b a) = b_per1 b.
Proof. unfold basis_raise_order. destruct (a =? 0)%nat; reflexivity. Qed.

Lemma change_bases_per1 tol : forall (news : list (basis F)) (o : obj F) d o',
  (forall j, (j < length news)%nat -> b_per1 (nth j news dB) = per o (d + j)) ->
  obj_change_bases tol o d news = Ok o' -> forall j, per o' j = per o j.
Proof.
  induction news as [|bn rest IH]; intros o d o' Hn E j; cbn [obj_change_bases] in E; [injection E as <-; reflexivity|].
  cbv zeta in E. destruct (order_change_matrix tol (nth d (o_bases o) dB) bn) as [M|e]; [|discriminate].
  assert (E0 : b_per1 bn = per o d) by (pose proof (Hn 0%nat ltac:(cbn; lia)) as H0; rewrite Nat.add_0_r in H0; exact H0).
  set (o1 := mkObj (upd (o_bases o) d bn) (apply_dir (o_ncomp o) (o_shape o) d M (o_cps o)) (o_dim o) (o_rat o)) in *.
  assert (Hrest : forall j', (j' < length rest)%nat -> b_per1 (nth j' rest dB) = per o1 (S d + j')).
  { intros j' Hj'. unfold o1. cbn [o_bases]. rewrite nth_upd_per1 by exact E0.
    replace (S d + j')%nat with (d + S j')%nat by lia. apply (Hn (S j')). cbn [length]. lia. }
  rewrite (IH o1 (S d) o' Hrest E j). unfold o1. cbn [o_bases]. apply nth_upd_per1. exact E0.
Qed.

Lemma combine_nth_lt {A B} (l : list A) : forall (l' : list B) j a b, (j < length (combine l l'))%nat ->
  nth j (combine l l') (a, b) = (nth j l a, nth j l' b).
Proof.
  induction l as [|x l IH]; intros l' j a b Hj; [cbn in Hj; lia|]. destruct l' as [|y l']; [cbn in Hj; lia|].
  destruct j as [|j]; [reflexivity|]. cbn [combine nth length] in *. apply IH. lia.
Qed.

Lemma raise_order_per1 tol (o o' : obj F) raises : obj_raise_order tol o raises = Ok o' -> forall j, per o' j = per o j.
Proof.
  unfold obj_raise_order. destruct (forallb _ raises); [intros E j; injection E as <-; reflexivity|].
  destruct (_ && _); [discriminate|]. intros E. refine (change_bases_per1 tol _ o 0%nat o' _ E).
  intros j Hj. rewrite map_length in Hj. cbn [Nat.add].
  rewrite (nth_indep _ dB (basis_raise_order tol (fst (dB, 0%nat)) (snd (dB, 0%nat)))) by (rewrite map_length; exact Hj).
  rewrite (map_nth (fun br => basis_raise_order tol (fst br) (snd br))). rewrite raise_basis_per1.
  rewrite combine_nth_lt by exact Hj. reflexivity.
Qed.

Lemma reparam_per1 (o o' : obj F) i s e : obj_reparam_dir o i s e = Ok o' -> forall j, per o' j = per o j.
Proof.
  unfold obj_reparam_dir. destruct (basis_reparam (nth i (o_bases o) dB) s e) as [b'|er] eqn:EB; [|discriminate].
  intros E j. injection E as <-. cbn [o_bases]. apply nth_upd_per1.
  unfold basis_reparam in EB. destruct (nleb e s); [discriminate|]. injection EB as <-. reflexivity.
Qed.

Lemma lower_per1 d t : forall fuel (o o' : obj F), obj_lower_periodic fuel o t d = Ok o' -> per o' d = t.
Proof.
  induction fuel as [|fuel IH]; intros o o' E; cbn [obj_lower_periodic] in E; cbv zeta in E.
  - destruct (Nat.ltb_spec t (per o d)) as [A|A]; [discriminate|].
    destruct (Nat.ltb_spec (per o d) t) as [B|B]; [discriminate|]. injection E as <-. lia.
  - destruct (Nat.ltb_spec t (per o d)) as [A|A].
    + destruct (obj_insert_knots o d [b_start (nth d (o_bases o) dB)]) as [o1|e]; [|discriminate]. apply (IH _ _ E).
    + destruct (Nat.ltb_spec (per o d) t) as [B|B]; [discriminate|]. injection E as <-. lia.
Qed.

Lemma compat_bases (o1 o2 a0 b0 : obj F) : obj_compatible o1 o2 = (a0, b0) -> o_bases a0 = o_bases o1 /\ o_bases b0 = o_bases o2.
Proof. intros E. pose proof (compatible_spec o1 o2) as S. cbv zeta in S. rewrite E in S. cbn [fst snd] in S. tauto. Qed.

(* direction i is non-periodic in one operand: the other one is opened, seam_once never removes anything *)
Theorem identical_dir2_eq_open tol (o1 o2 : obj F) i : per o1 i = 0%nat \/ per o2 i = 0%nat ->
  identical_dir2 tol o1 o2 i = identical_dir tol o1 o2 i.
Proof.
  intros Hd. unfold identical_dir2, identical_dir.
  destruct (obj_compatible o1 o2) as [a0 b0] eqn:EC. destruct (compat_bases _ _ _ _ EC) as [Ba Bb].
  destruct (obj_reparam_dir a0 i n0 n1) as [a1|e1] eqn:Ra; [|reflexivity].
  destruct (obj_reparam_dir b0 i n0 n1) as [b1|e2] eqn:Rb; [|reflexivity].
  cbv zeta.
  assert (Pa : per a1 i = per o1 i) by (rewrite (reparam_per1 _ _ _ _ _ Ra i), Ba; reflexivity).
  assert (Pb : per b1 i = per o2 i) by (rewrite (reparam_per1 _ _ _ _ _ Rb i), Bb; reflexivity).
  destruct (if (per a1 i <? per b1 i)%nat then obj_lower_periodic 64 b1 (per a1 i) i else Ok b1) as [b2|e3] eqn:L2; [|reflexivity].
  destruct (if (per b1 i <? per a1 i)%nat then obj_lower_periodic 64 a1 (per b1 i) i else Ok a1) as [a2|e4] eqn:L1; [|reflexivity].
  assert (Zb : per b2 i = 0%nat).
  { destruct (Nat.ltb_spec (per a1 i) (per b1 i)) as [A|A]; [rewrite (lower_per1 _ _ _ _ _ L2); lia|]. injection L2 as <-. lia. }
  assert (Za : per a2 i = 0%nat).
  { destruct (Nat.ltb_spec (per b1 i) (per a1 i)) as [A|A]; [rewrite (lower_per1 _ _ _ _ _ L1); lia|]. injection L1 as <-. lia. }
  destruct (obj_raise_order tol a2 _) as [a3|e5] eqn:R3a; [|reflexivity].
  destruct (obj_raise_order tol b2 _) as [b3|e6] eqn:R3b; [|reflexivity].
  rewrite missing_knots2_open by (rewrite (raise_order_per1 _ _ _ _ R3a i); exact Za).
  destruct (missing_knots tol _ _ _) as [ins2|e7]; [|reflexivity].
  destruct (obj_insert_knots b3 i ins2) as [b4|e8] eqn:I4; [|reflexivity].
  rewrite missing_knots2_open by (rewrite (insert_knots_per1 _ _ _ _ I4 i), (raise_order_per1 _ _ _ _ R3b i); exact Zb).
  reflexivity.
Qed.

Definition nonper (o : obj F) : Prop := forall j, per o j = 0%nat.

Lemma identical_dir_nonper tol (o1 o2 a b : obj F) i : nonper o1 -> nonper o2 -> identical_dir tol o1 o2 i = Ok (a, b) ->
  nonper a /\ nonper b.
Proof.
  intros N1 N2. unfold identical_dir.
  destruct (obj_compatible o1 o2) as [a0 b0] eqn:EC. destruct (compat_bases _ _ _ _ EC) as [Ba Bb].
  destruct (obj_reparam_dir a0 i n0 n1) as [a1|e1] eqn:Ra; [|discriminate].
  destruct (obj_reparam_dir b0 i n0 n1) as [b1|e2] eqn:Rb; [|discriminate].
  cbv zeta.
  assert (Pa : nonper a1) by (intros j; rewrite (reparam_per1 _ _ _ _ _ Ra j), Ba; apply N1).
  assert (Pb : nonper b1) by (intros j; rewrite (reparam_per1 _ _ _ _ _ Rb j), Bb; apply N2).
  rewrite (Pa i), (Pb i). cbn [Nat.ltb Nat.leb].
  destruct (obj_raise_order tol a1 _) as [a3|e5] eqn:R3a; [|discriminate].
  destruct (obj_raise_order tol b1 _) as [b3|e6] eqn:R3b; [|discriminate].
  destruct (missing_knots tol _ _ _) as [ins2|e7]; [|discriminate].
  destruct (obj_insert_knots b3 i ins2) as [b4|e8] eqn:I4; [|discriminate].
  destruct (missing_knots tol _ _ _) as [ins1|e9]; [|discriminate].
  destruct (obj_insert_knots a3 i ins1) as [a4|e10] eqn:I5; [|discriminate].
  intros E. injection E as <- <-. split; intros j.
  - rewrite (insert_knots_per1 _ _ _ _ I5 j), (raise_order_per1 _ _ _ _ R3a j). apply Pa.
  - rewrite (insert_knots_per1 _ _ _ _ I4 j), (raise_order_per1 _ _ _ _ R3b j). apply Pb.
Qed.

Lemma identical_dirs2_eq_nonper tol dirs : forall (o1 o2 : obj F), nonper o1 -> nonper o2 ->
  identical_dirs2 tol o1 o2 dirs = identical_dirs tol o1 o2 dirs.
Proof.
  induction dirs as [|i rest IH]; intros o1 o2 N1 N2; [reflexivity|]. cbn [identical_dirs2 identical_dirs].
  rewrite (identical_dir2_eq_open tol o1 o2 i (or_introl (N1 i))).
  destruct (identical_dir tol o1 o2 i) as [[a b]|e] eqn:E; [|reflexivity].
  destruct (identical_dir_nonper tol o1 o2 a b i N1 N2 E) as [Na Nb]. apply IH; assumption.
Qed.

(* objects without periodic directions: the repaired routine is the old one, whatever the direction argument *)
Theorem make_identical2_eq_nonperiodic tol (o1 o2 : obj F) dir : nonper o1 -> nonper o2 ->
  obj_make_identical2 tol o1 o2 dir = obj_make_identical tol o1 o2 dir.
Proof.
  intros N1 N2. unfold obj_make_identical2, obj_make_identical.
  destruct (obj_compatible o1 o2) as [a0 b0] eqn:EC. destruct (compat_bases _ _ _ _ EC) as [Ba Bb].
  assert (Na : nonper a0) by (intros j; rewrite Ba; apply N1). assert (Nb : nonper b0) by (intros j; rewrite Bb; apply N2).
  destruct dir as [i|]; [apply identical_dir2_eq_open; left; apply Na|apply identical_dirs2_eq_nonper; assumption].
Qed.

(* an explicit direction that is non-periodic in one operand (other directions may be periodic) *)
Theorem make_identical2_eq_open tol (o1 o2 : obj F) i : per o1 i = 0%nat \/ per o2 i = 0%nat ->
  obj_make_identical2 tol o1 o2 (Some i) = obj_make_identical tol o1 o2 (Some i).
Proof.
  intros Hd. unfold obj_make_identical2, obj_make_identical.
  destruct (obj_compatible o1 o2) as [a0 b0] eqn:EC. destruct (compat_bases _ _ _ _ EC) as [Ba Bb].
  apply identical_dir2_eq_open. rewrite Ba, Bb. exact Hd.
Qed.
End Structural.


(* ---- Part A, corollaries on R: the theorems of Proofs/IdenticalEndToEnd.v for the repaired functions ---- *)
Lemma hyps_open tol (o1 o2 : obj R) i : identical_hyps tol o1 o2 i -> b_per1 (nth i (o_bases o1) dflt_basis) = 0%nat.
Proof. intros H. exact (proj1 (ih_good1 _ _ _ _ H)). Qed.

Theorem identical_dir2_eq_nonper tol (o1 o2 : obj R) i : identical_hyps tol o1 o2 i ->
  @identical_dir2 R NumR tol o1 o2 i = @identical_dir R NumR tol o1 o2 i.
Proof. intros H. apply identical_dir2_eq_open. left. exact (hyps_open tol o1 o2 i H). Qed.

Theorem make_identical2_eq_nonper tol (o1 o2 : obj R) i : identical_hyps tol o1 o2 i ->
  @obj_make_identical2 R NumR tol o1 o2 (Some i) = @obj_make_identical R NumR tol o1 o2 (Some i).
Proof. intros H. apply make_identical2_eq_open. left. exact (hyps_open tol o1 o2 i H). Qed.

Section Main2.
Variable tol : R.
Variables o1 o2 : obj R.
Variable i : nat.
Hypothesis H : identical_hyps tol o1 o2 i.
Local Notation b1 := (nth i (o_bases o1) dflt_basis).
Local Notation b2 := (nth i (o_bases o2) dflt_basis).
Local Notation p1 := (b_order b1).
Local Notation p2 := (b_order b2).
Local Notation p := (Nat.max p1 p2).
Local Notation l1 := (b_knots (rp_basis b1 0 1)).
Local Notation l2 := (b_knots (rp_basis b2 0 1)).
Local Notation dim' := (Nat.max (o_dim o1) (o_dim o2)).

Theorem identical_dir2_same_order_ok : p1 = p2 -> exists a b, @identical_dir2 R NumR tol o1 o2 i = Ok (a, b).
Proof. intros E. rewrite (identical_dir2_eq_nonper tol o1 o2 i H). exact (identical_dir_same_order_ok tol o1 o2 i H E). Qed.

Variables a b : obj R.
Hypothesis Hid : @identical_dir2 R NumR tol o1 o2 i = Ok (a, b).

Lemma m2_old : @identical_dir R NumR tol o1 o2 i = Ok (a, b).
Proof. rewrite <- (identical_dir2_eq_nonper tol o1 o2 i H). exact Hid. Qed.

Theorem identical_dir2_knots :
  let ba := nth i (o_bases a) dflt_basis in let bb := nth i (o_bases b) dflt_basis in
  b_order ba = p /\ b_order bb = p /\ b_per1 ba = 0%nat /\ b_per1 bb = 0%nat /\
  @b_start R NumR ba = 0 /\ @b_end R NumR ba = 1 /\ @b_start R NumR bb = 0 /\ @b_end R NumR bb = 1 /\
  b_knots ba = b_knots bb /\ lsorted (b_knots ba) /\
  (forall v, mult (b_knots ba) v = Nat.max (rmult l1 (p - p1) v) (rmult l2 (p - p2) v)) /\
  wf_obj_R tol a /\ wf_obj_R tol b /\
  length (o_bases a) = length (o_bases o1) /\ length (o_bases b) = length (o_bases o2) /\
  (forall j, j <> i -> nth j (o_bases a) dflt_basis = nth j (o_bases o1) dflt_basis) /\
  (forall j, j <> i -> nth j (o_bases b) dflt_basis = nth j (o_bases o2) dflt_basis) /\
  o_dim a = dim' /\ o_dim b = dim' /\ o_rat a = (o_rat o1 || o_rat o2)%bool /\ o_rat b = (o_rat o1 || o_rat o2)%bool.
Proof. exact (identical_dir_knots tol o1 o2 i H a b m2_old). Qed.

Theorem identical_dir2_eval ts :
  dom_all tol o1 ts -> (i < length ts)%nat -> param_clear tol b1 b2 (nth i ts 0) ->
  @obj_eval R NumR tol a (upd ts i ((nth i ts 0 - @b_start R NumR b1) / (@b_end R NumR b1 - @b_start R NumR b1)))
  = res_map (pad (dim' - o_dim o1)) (@obj_eval R NumR tol o1 ts).
Proof. exact (identical_dir_eval tol o1 o2 i H a b m2_old ts). Qed.

Theorem identical_dir2_eval2 ts :
  dom_all tol o2 ts -> (i < length ts)%nat -> param_clear tol b2 b1 (nth i ts 0) ->
  @obj_eval R NumR tol b (upd ts i ((nth i ts 0 - @b_start R NumR b2) / (@b_end R NumR b2 - @b_start R NumR b2)))
  = res_map (pad (dim' - o_dim o2)) (@obj_eval R NumR tol o2 ts).
Proof. exact (identical_dir_eval2 tol o1 o2 i H a b m2_old ts). Qed.
End Main2.

Section MakeIdentical2.
Variable tol : R.
Variables o1 o2 : obj R.
Variable i : nat.
Hypothesis H : identical_hyps tol o1 o2 i.
Variables a b : obj R.
Hypothesis Hid : @obj_make_identical2 R NumR tol o1 o2 (Some i) = Ok (a, b).
Local Notation b1 := (nth i (o_bases o1) dflt_basis).
Local Notation b2 := (nth i (o_bases o2) dflt_basis).
Local Notation dim' := (Nat.max (o_dim o1) (o_dim o2)).

Lemma mi2_old : @obj_make_identical R NumR tol o1 o2 (Some i) = Ok (a, b).
Proof. rewrite <- (make_identical2_eq_nonper tol o1 o2 i H). exact Hid. Qed.

Theorem make_identical2_knots :
  let ba := nth i (o_bases a) dflt_basis in let bb := nth i (o_bases b) dflt_basis in
  b_order ba = Nat.max (b_order b1) (b_order b2) /\ b_order bb = Nat.max (b_order b1) (b_order b2) /\
  b_per1 ba = 0%nat /\ b_per1 bb = 0%nat /\
  @b_start R NumR ba = 0 /\ @b_end R NumR ba = 1 /\ @b_start R NumR bb = 0 /\ @b_end R NumR bb = 1 /\
  b_knots ba = b_knots bb /\ o_dim a = dim' /\ o_dim b = dim' /\ o_rat a = o_rat b.
Proof. exact (make_identical_knots tol o1 o2 i H a b mi2_old). Qed.

Theorem make_identical2_eval ts :
  dom_all tol o1 ts -> (i < length ts)%nat -> param_clear tol b1 b2 (nth i ts 0) ->
  @obj_eval R NumR tol a (upd ts i ((nth i ts 0 - @b_start R NumR b1) / (@b_end R NumR b1 - @b_start R NumR b1)))
  = res_map (pad (dim' - o_dim o1)) (@obj_eval R NumR tol o1 ts).
Proof. exact (make_identical_eval tol o1 o2 i H a b mi2_old ts). Qed.

Theorem make_identical2_eval2 ts :
  dom_all tol o2 ts -> (i < length ts)%nat -> param_clear tol b2 b1 (nth i ts 0) ->
  @obj_eval R NumR tol b (upd ts i ((nth i ts 0 - @b_start R NumR b2) / (@b_end R NumR b2 - @b_start R NumR b2)))
  = res_map (pad (dim' - o_dim o2)) (@obj_eval R NumR tol o2 ts).
Proof. exact (make_identical_eval2 tol o1 o2 i H a b mi2_old ts). Qed.
End MakeIdentical2.

(* ---- case (b) of Proofs/IdenticalPeriodic.v: one operand open, the periodic one is opened by lower_periodic ---- *)
Theorem identical_dir2_eq_open_per tol (o1 o2 : obj R) i nb Tb : identical_op_hyps tol o1 o2 i nb Tb ->
  @identical_dir2 R NumR tol o1 o2 i = @identical_dir R NumR tol o1 o2 i.
Proof. intros H. apply identical_dir2_eq_open. left. exact (proj1 (op_good1 _ _ _ _ _ _ H)). Qed.
Theorem identical_dir2_eq_per_open tol (o1 o2 : obj R) i na Ta : identical_po_hyps tol o1 o2 i na Ta ->
  @identical_dir2 R NumR tol o1 o2 i = @identical_dir R NumR tol o1 o2 i.
Proof. intros H. apply identical_dir2_eq_open. right. exact (proj1 (po_good2 _ _ _ _ _ _ H)). Qed.

Theorem identical_dir2_open_per_ok tol (o1 o2 : obj R) i nb Tb : identical_op_hyps tol o1 o2 i nb Tb ->
  exists a b kL, @identical_dir2 R NumR tol o1 o2 i = Ok (a, b) /\ lowered_knots (nth i (o_bases o2) dflt_basis) nb kL /\
    low_facts tol o1 o2 i (b_knots (rp_basis (nth i (o_bases o1) dflt_basis) 0 1)) kL a b.
Proof. intros H. rewrite (identical_dir2_eq_open_per tol o1 o2 i nb Tb H). exact (identical_dir_open_per_ok tol o1 o2 i nb Tb H). Qed.

Theorem identical_dir2_per_open_ok tol (o1 o2 : obj R) i na Ta : identical_po_hyps tol o1 o2 i na Ta ->
  exists a b kL, @identical_dir2 R NumR tol o1 o2 i = Ok (a, b) /\ lowered_knots (nth i (o_bases o1) dflt_basis) na kL /\
    low_facts tol o1 o2 i kL (b_knots (rp_basis (nth i (o_bases o2) dflt_basis) 0 1)) a b.
Proof. intros H. rewrite (identical_dir2_eq_per_open tol o1 o2 i na Ta H). exact (identical_dir_per_open_ok tol o1 o2 i na Ta H). Qed.

Theorem make_identical2_open_per_ok tol (o1 o2 : obj R) i nb Tb : identical_op_hyps tol o1 o2 i nb Tb ->
  exists a b, @obj_make_identical2 R NumR tol o1 o2 (Some i) = Ok (a, b).
Proof.
  intros H. rewrite make_identical2_eq_open by (left; exact (proj1 (op_good1 _ _ _ _ _ _ H))).
  exact (make_identical_open_per_ok tol o1 o2 i nb Tb H).
Qed.
Theorem make_identical2_per_open_ok tol (o1 o2 : obj R) i na Ta : identical_po_hyps tol o1 o2 i na Ta ->
  exists a b, @obj_make_identical2 R NumR tol o1 o2 (Some i) = Ok (a, b).
Proof.
  intros H. rewrite make_identical2_eq_open by (right; exact (proj1 (po_good2 _ _ _ _ _ _ H))).
  exact (make_identical_per_open_ok tol o1 o2 i na Ta H).
Qed.


(* ================================================================================================ *)
(* Part B/C, tools: missing_knots2 on canonical periodic lists *)

(* the fold of missing_knots over ANY list of values at which both continuities are exact *)
Lemma missing_fold_closed tol p pera perb (ka kb vs : list R) :
  sorted (@kn R NumR ka) -> sorted (@kn R NumR kb) -> 0 < tol ->
  (forall x, In x vs -> In x ka /\ knot_sep tol ka x /\ knot_sep tol kb x /\
     @kn R NumR ka (p - 1) <= x <= @kn R NumR ka (length ka - p) /\ @kn R NumR kb (p - 1) <= x <= @kn R NumR kb (length kb - p)) ->
  fold_left (fun acc k =>
      match acc with
      | Err e => Err e
      | Ok l =>
        match @basis_continuity R NumR tol (mkBasis p ka pera) k, @basis_continuity R NumR tol (mkBasis p kb perb) k with
        | Ok c1, Ok c2 => if cont_gt c2 c1 then Ok (l ++ repeat k (ins_count p c1 c2)) else Ok l
        | Err e, _ => Err e
        | _, Err e => Err e
        end
      end) vs (Ok []) = Ok (miss ka kb vs).
Proof.
  intros HKa HKb Htol Hv.
  assert (G : forall ws acc, (forall x, In x ws -> In x vs) ->
    fold_left (fun acc k =>
      match acc with
      | Err e => Err e
      | Ok l =>
        match @basis_continuity R NumR tol (mkBasis p ka pera) k, @basis_continuity R NumR tol (mkBasis p kb perb) k with
        | Ok c1, Ok c2 => if cont_gt c2 c1 then Ok (l ++ repeat k (ins_count p c1 c2)) else Ok l
        | Err e, _ => Err e
        | _, Err e => Err e
        end
      end) ws (Ok acc) = Ok (acc ++ miss ka kb ws)).
  { induction ws as [|x ws IH]; intros acc Hin; cbn [fold_left]; [unfold miss; cbn [flat_map]; rewrite app_nil_r; reflexivity|].
    destruct (Hv x (Hin x (or_introl eq_refl))) as (Ia & Sa & Sb & Ra & Rb).
    rewrite (continuity_mult_per tol ka p pera x HKa Htol Sa Ra), (continuity_mult_per tol kb p perb x HKb Htol Sb Rb).
    assert (M1 : (1 <= mult ka x)%nat) by (apply (count_occ_In Req_EM_T); exact Ia).
    destruct (Nat.eqb_spec (mult ka x) 0) as [E|_]; [lia|].
    pose proof (ins_count_mult p (mult ka x) (mult kb x) M1) as IC. cbv zeta in IC.
    unfold miss. cbn [flat_map]. fold (miss ka kb ws). rewrite <- IC. rewrite app_assoc.
    destruct (cont_gt _ _).
    - apply IH. intros y Hy. apply Hin. right. exact Hy.
    - cbn [repeat]. rewrite app_nil_r. apply IH. intros y Hy. apply Hin. right. exact Hy. }
  apply (G vs []). auto.
Qed.

(* knots()[:-1] of a canonical periodic list: its knot values in [start, end) *)
Section SpansPer2.
Variable tol : R.
Hypothesis Htol : 0 < tol.
Variable k : list R.
Variables (p per1 n : nat) (T : R).
Hypothesis Hcan : per_canon k p per1 n T.
Hypothesis Hsep : separated tol k.
Local Notation K := (@kn R NumR k).
Local Notation vals := (@knot_spans R NumR tol (mkBasis p k per1) false).
Local Notation rvals := (removelast vals).

Lemma sp2_split : vals = rvals ++ [K (n + per1)%nat].
Proof.
  pose proof (sp_vals_gap tol Htol k p per1 n T Hcan) as VG. pose proof (sp_vals_in tol Htol k p per1 n T Hcan Hsep) as VI.
  pose proof Hcan as (HK & Hper1 & Hpp & Hlen & Hreg & HT & _).
  pose proof (canon_period k p per1 n T Hcan) as Hper.
  assert (Hne : vals <> []) by (rewrite (sp_vals_eq tol k p per1 n T Hcan); discriminate).
  rewrite (app_removelast_last 0 Hne) at 1. f_equal. f_equal.
  assert (Il : In (last vals 0) vals).
  { rewrite (app_removelast_last 0 Hne) at 2. apply in_or_app. right. left. reflexivity. }
  assert (Ie : In (K (n + per1)%nat) vals) by (apply VI; split; [apply (cl_end_in k p per1 n T Hcan)|lra]).
  rewrite (app_removelast_last 0 Hne) in Ie, VG. apply in_app_or in Ie. destruct Ie as [Ie|[Ie|[]]]; [|exact Ie].
  destruct (ssorted_app _ _ _ VG) as (_ & _ & Hlt). pose proof (Hlt _ _ Ie (or_introl eq_refl)) as G. unfold gapt in G.
  apply VI in Il. lra.
Qed.

Lemma sp2_rvals_gap : StronglySorted (gapt tol) rvals.
Proof.
  pose proof (sp_vals_gap tol Htol k p per1 n T Hcan) as VG. rewrite sp2_split in VG. apply (ssorted_app _ _ _ VG).
Qed.

Lemma sp2_rvals_in x : In x rvals <-> (In x k /\ K (p - 1)%nat <= x < K (n + per1)%nat).
Proof.
  pose proof (sp_vals_gap tol Htol k p per1 n T Hcan) as VG. pose proof (sp_vals_in tol Htol k p per1 n T Hcan Hsep) as VI.
  rewrite sp2_split in VG. destruct (ssorted_app _ _ _ VG) as (_ & _ & Hlt). split.
  - intros Hx. pose proof (Hlt _ _ Hx (or_introl eq_refl)) as G. unfold gapt in G.
    assert (Iv : In x vals) by (rewrite sp2_split; apply in_or_app; left; exact Hx). apply VI in Iv. split; [tauto|lra].
  - intros (Hx & Rx). assert (Iv : In x vals) by (apply VI; split; [exact Hx|lra]).
    rewrite sp2_split in Iv. apply in_app_or in Iv. destruct Iv as [Iv|[Iv|[]]]; [exact Iv|lra].
Qed.
End SpansPer2.

(* one stage in a periodic direction: the repaired missing_knots2 *)
Section Stage2.
Variable tol : R.
Hypothesis Htol : 0 < tol.
Variables (i p per1 : nat) (T : R).
Variables kfrom kc : list R.
Variables nf nc : nat.
Variable U : list R.
Hypothesis Cc : per_canon kc p per1 nc T.
Hypothesis Sc : per_strict kc per1.
Hypothesis Cf : per_canon kfrom p per1 nf T.
Hypothesis Sf : per_strict kfrom per1.
Hypothesis Hst : @kn R NumR kfrom (p - 1) = @kn R NumR kc (p - 1).
Hypothesis HU : separated tol U.
Hypothesis Uf : forall v, In v (pvals kfrom per1 nf T) -> In v U.
Hypothesis Uc : forall v, In v (pvals kc per1 nc T) -> In v U.
Local Notation st := (@kn R NumR kc (p - 1)).
Local Notation vals := (@knot_spans R NumR tol (mkBasis p kfrom per1) false).
Local Notation rvals := (removelast vals).

Lemma st2_basic :
  (forall v, In v kfrom -> In v U) /\ (forall v, In v kc -> In v U) /\ separated tol kfrom /\
  @kn R NumR kc (nc + per1) = st + T /\ @kn R NumR kfrom (nf + per1) = st + T /\
  (length kfrom - p = nf + per1)%nat /\ (length kc - p = nc + per1)%nat /\ (1 <= per1)%nat.
Proof.
  pose proof Cc as (_ & Hper1 & Hpp & Hlenc & _). pose proof Cf as (_ & _ & _ & Hlenf & _).
  pose proof (canon_period kc p per1 nc T Cc) as Pc. pose proof (canon_period kfrom p per1 nf T Cf) as Pf. rewrite Hst in Pf.
  assert (Vf : forall v, In v kfrom -> In v U) by (intros v Hv; apply Uf, (canon_values kfrom p per1 nf T Cf v Hv)).
  assert (Vc : forall v, In v kc -> In v U) by (intros v Hv; apply Uc, (canon_values kc p per1 nc T Cc v Hv)).
  repeat split; try assumption; try lia. apply (separated_sub tol kfrom U Vf HU).
Qed.

Lemma st2_cond x : In x kfrom -> st <= x <= st + T ->
  In x kfrom /\ knot_sep tol kfrom x /\ knot_sep tol kc x /\
  @kn R NumR kfrom (p - 1) <= x <= @kn R NumR kfrom (length kfrom - p) /\ @kn R NumR kc (p - 1) <= x <= @kn R NumR kc (length kc - p).
Proof.
  destruct st2_basic as (Vf & Vc & Sepf & Pc & Pf & Elf & Elc & _). intros Hx Rx.
  split; [exact Hx|].
  split; [apply (separated_knot_sep' tol U x kfrom Htol HU (Vf x Hx) Vf)|].
  split; [apply (separated_knot_sep' tol U x kc Htol HU (Vf x Hx) Vc)|].
  rewrite Elf, Elc, Hst, Pf, Pc. split; exact Rx.
Qed.

Lemma stage_closed : @missing_knots R NumR tol p (mkBasis p kfrom per1) (mkBasis p kc per1) = Ok (miss kfrom kc vals).
Proof.
  destruct st2_basic as (Vf & Vc & Sepf & Pc & Pf & Elf & Elc & _).
  apply missing_knots_closed_per; [exact (proj1 Cf)|exact (proj1 Cc)|exact Htol|].
  intros x Hx. apply (sp_vals_in tol Htol kfrom p per1 nf T Cf Sepf) in Hx. destruct Hx as (Hx & Rx). rewrite Hst, Pf in Rx.
  apply st2_cond; assumption.
Qed.

Lemma stage2_closed : @missing_knots2 R NumR tol p (mkBasis p kfrom per1) (mkBasis p kc per1) = Ok (miss kfrom kc rvals).
Proof.
  destruct st2_basic as (Vf & Vc & Sepf & Pc & Pf & Elf & Elc & Hper1).
  unfold missing_knots2, seam_once. cbn [b_per1]. destruct (Nat.eqb_spec per1 0) as [E|_]; [lia|].
  apply missing_fold_closed; [exact (proj1 Cf)|exact (proj1 Cc)|exact Htol|].
  intros x Hx. apply (sp2_rvals_in tol Htol kfrom p per1 nf T Cf Sepf) in Hx. destruct Hx as (Hx & Rx). rewrite Hst, Pf in Rx.
  apply st2_cond; [exact Hx|lra].
Qed.

(* with the seam knot at least as multiple in the target, the end value contributes nothing: both versions agree *)
Lemma stage_eq : (cw kfrom per1 nf (@kn R NumR kfrom (p - 1)) <= cw kc per1 nc (@kn R NumR kc (p - 1)))%nat ->
  @missing_knots2 R NumR tol p (mkBasis p kfrom per1) (mkBasis p kc per1)
  = @missing_knots R NumR tol p (mkBasis p kfrom per1) (mkBasis p kc per1).
Proof.
  intros Hseam. destruct st2_basic as (Vf & Vc & Sepf & Pc & Pf & Elf & Elc & Hper1).
  rewrite stage_closed, stage2_closed. f_equal.
  rewrite (sp2_split tol Htol kfrom p per1 nf T Cf Sepf) at 2. unfold miss. rewrite flat_map_app. cbn [flat_map].
  rewrite (mult_end_window kfrom p per1 nf T Cf Sf). rewrite Pf, <- Pc. rewrite (mult_end_window kc p per1 nc T Cc Sc).
  unfold cw in Hseam. replace (Nat.min p _ - Nat.min p _)%nat with 0%nat by lia. cbn [repeat]. rewrite !app_nil_r. reflexivity.
Qed.

(* the whole stage for the repaired routine, WITHOUT any hypothesis on the seam multiplicities *)
Variable oc : obj R.
Hypothesis Hwf : wf_obj_R tol oc.
Hypothesis Hi : (i < length (o_bases oc))%nat.
Hypothesis Hb : nth i (o_bases oc) dflt_basis = mkBasis p kc per1.

Lemma ins_stage_per2 :
  exists ins so kf nk,
    @missing_knots2 R NumR tol p (mkBasis p kfrom per1) (mkBasis p kc per1) = Ok ins /\
    @obj_insert_knots R NumR oc i ins = Ok so /\ per_frame tol i p per1 T oc kc so kf nk /\
    (forall v, cw kf per1 nk v = Nat.max (cw kfrom per1 nf v) (cw kc per1 nc v)) /\
    forall ts, dom_all tol oc ts -> snapfree tol (pvals kc per1 nc T) (nth i ts 0) -> snapfree tol (pvals kfrom per1 nf T) (nth i ts 0) ->
      @obj_eval R NumR tol so ts = @obj_eval R NumR tol oc ts.
Proof.
  destruct st2_basic as (Vf & Vc & Sepf & Pc & Pf & Elf & Elc & Hper1).
  pose proof (sp2_rvals_gap tol Htol kfrom p per1 nf T Cf Sepf) as VG.
  pose proof (sp2_rvals_in tol Htol kfrom p per1 nf T Cf Sepf) as VI. rewrite Hst, Pf in VI.
  assert (VLt : StronglySorted Rlt rvals) by (apply (ssorted_gap_lt tol); [lra|exact VG]).
  assert (Mf : forall v, st <= v < st + T -> mult kfrom v = cw kfrom per1 nf v).
  { intros v Hv. apply (mult_window kfrom p per1 nf T Cf Sf). rewrite Hst, Pf. exact Hv. }
  assert (Mc : forall v, st <= v < st + T -> mult kc v = cw kc per1 nc v).
  { intros v Hv. apply (mult_window kc p per1 nc T Cc Sc). rewrite Pc. exact Hv. }
  destruct (insert_flat_per tol Htol i p per1 T (fun x => (mult kfrom x - mult kc x)%nat) st rvals oc kc nc Hwf Hi Hb Cc Sc eq_refl)
    as (so & kf & Hok & Hf & Hperm & Hev).
  { apply Forall_forall. intros x Hx. apply VI in Hx. right. tauto. }
  set (nk := (nc + length (flat_map (fun x => repeat x (mult kfrom x - mult kc x)) rvals))%nat) in *.
  exists (miss kfrom kc rvals), so, kf, nk. split; [exact stage2_closed|]. split; [exact Hok|]. split; [exact Hf|]. split.
  - intros v. unfold cw at 1. rewrite (proj1 (Permutation_count_occ Req_EM_T _ _) Hperm v), count_occ_app. fold (cw kc per1 nc v).
    assert (E : count_occ Req_EM_T (flat_map (fun x => repeat x (mult kfrom x - mult kc x)) rvals) v = (cw kfrom per1 nf v - cw kc per1 nc v)%nat).
    { destruct (In_dec Req_EM_T v rvals) as [I|N].
      - rewrite (count_flat_in _ rvals v VLt I). apply VI in I. destruct I as (Iv & Rv).
        rewrite (Mf v Rv), (Mc v Rv). reflexivity.
      - rewrite (count_flat_notin _ rvals v N).
        assert (Z0 : cw kfrom per1 nf v = 0%nat).
        { apply count_occ_not_In. intros Hin. apply N, VI. split; [apply (pwin_sub kfrom per1 nf v Hin)|].
          pose proof (pwin_range_strict kfrom p per1 nf T Cf Sf _ Hin) as H. rewrite Hst, Pf in H. exact H. }
        rewrite Z0. reflexivity. }
    rewrite E. lia.
  - intros ts Hdom Hsc Hsf. apply (Hev ts Hdom Hsc).
    apply Forall_forall. intros x Hx. apply VI in Hx. destruct Hx as (Hx & Rx). right.
    assert (Iw : In x (pwin kfrom per1 nf)) by (apply (cl_in_window kfrom p per1 nf T Cf Sf x Hx); rewrite Hst, Pf; exact Rx).
    intros v Hv. apply Hsf. apply pvals_in. cbn [In] in Hv. destruct Hv as [<-|[<-|[<-|[]]]].
    + left. exact Iw.
    + right. left. replace (x + T - T) with x by ring. exact Iw.
    + right. right. replace (x - T + T) with x by ring. exact Iw.
Qed.
End Stage2.


(* the body of identical_dir2 after make_splines_compatible *)
Definition identical_tail2 (tol : R) (a0 b0 : obj R) (i : nat) : res (obj R * obj R) :=
    match @obj_reparam_dir R NumR a0 i n0 n1, @obj_reparam_dir R NumR b0 i n0 n1 with
    | Ok a1, Ok b1 =>
      let dflt := mkBasis 0 [] 0 in
      let pa := b_per1 (nth i (o_bases a1) dflt) in let pb := b_per1 (nth i (o_bases b1) dflt) in
      match (if (pa <? pb)%nat then @obj_lower_periodic R NumR 64 b1 pa i else Ok b1),
            (if (pb <? pa)%nat then @obj_lower_periodic R NumR 64 a1 pb i else Ok a1) with
      | Ok b2, Ok a2 =>
        let p1 := b_order (nth i (o_bases a2) dflt) in let p2 := b_order (nth i (o_bases b2) dflt) in
        let p := Nat.max p1 p2 in
        match @obj_raise_order R NumR tol a2 (unit_vec (o_pardim a2) i (p - p1)), @obj_raise_order R NumR tol b2 (unit_vec (o_pardim b2) i (p - p2)) with
        | Ok a3, Ok b3 =>
          match @missing_knots2 R NumR tol p (nth i (o_bases a3) dflt) (nth i (o_bases b3) dflt) with
          | Err e => Err e
          | Ok ins2 =>
            match @obj_insert_knots R NumR b3 i ins2 with
            | Err e => Err e
            | Ok b4 =>
              match @missing_knots2 R NumR tol p (nth i (o_bases b4) dflt) (nth i (o_bases a3) dflt) with
              | Err e => Err e
              | Ok ins1 =>
                match @obj_insert_knots R NumR a3 i ins1 with
                | Err e => Err e
                | Ok a4 => Ok (a4, b4)
                end
              end
            end
          end
        | Err e, _ => Err e
        | _, Err e => Err e
        end
      | Err e, _ => Err e
      | _, Err e => Err e
      end
    | Err e, _ => Err e
    | _, Err e => Err e
    end.

Lemma identical_dir2_tail tol (o1 o2 : obj R) i :
  @identical_dir2 R NumR tol o1 o2 i = identical_tail2 tol (fst (@obj_compatible R NumR o1 o2)) (snd (@obj_compatible R NumR o1 o2)) i.
Proof. unfold identical_dir2, identical_tail2. destruct (@obj_compatible R NumR o1 o2); reflexivity. Qed.

(* ---- the two stages of the repaired routine on two periodic objects (per_forward without the seam hypothesis) ---- *)
Section PerStages2.
Variable tol : R.
Hypothesis Htol : 0 < tol.
Variables i p per1 : nat.
Variable U : list R.
Hypothesis HU : separated tol U.

Lemma per_forward2 (a2 b2 : obj R) (ka kb : list R) (na nb : nat) :
  per_ready tol i p per1 U a2 ka na -> per_ready tol i p per1 U b2 kb nb ->
  exists ins2 b4 ins1 a4 kk nk,
    @missing_knots2 R NumR tol p (mkBasis p ka per1) (mkBasis p kb per1) = Ok ins2 /\
    @obj_insert_knots R NumR b2 i ins2 = Ok b4 /\
    @missing_knots2 R NumR tol p (nth i (o_bases b4) dflt_basis) (mkBasis p ka per1) = Ok ins1 /\
    @obj_insert_knots R NumR a2 i ins1 = Ok a4 /\
    per_result tol i p per1 a2 b2 ka kb na nb a4 b4 kk nk.
Proof.
  intros (Wa & Ia & Na & A1 & A2 & A3 & Ua) (Wb & Ib & Nb & B1 & B2 & B3 & Ub).
  destruct (ins_stage_per2 tol Htol i p per1 1 ka kb na nb U B1 B2 A1 A2 ltac:(rewrite A3, B3; reflexivity) HU Ua Ub b2 Wb Ib Nb)
    as (ins2 & b4 & kb4 & n4 & M1 & I1 & F1 & Cn1 & Ev1).
  pose proof F1 as (Wb4 & Lb4 & Ob4 & Nb4 & Cb4 & Sb4 & Eb4). rewrite B3 in Eb4.
  assert (W4 : forall w, In w (pwin kb4 per1 n4) -> In w (pwin ka per1 na) \/ In w (pwin kb per1 nb)) by (apply cw_max_in; exact Cn1).
  assert (U4 : forall v, In v (pvals kb4 per1 n4 1) -> In v U).
  { intros v Hv. pose proof (pvals_mono kb4 ka kb per1 n4 na nb 1 W4 v Hv) as H. apply in_app_or in H. destruct H as [H|H]; [apply Ua, H|apply Ub, H]. }
  destruct (ins_stage_per2 tol Htol i p per1 1 kb4 ka n4 na U A1 A2 Cb4 Sb4 ltac:(rewrite A3, Eb4; reflexivity) HU U4 Ua a2 Wa Ia Na)
    as (ins1 & a4 & ka4 & n5 & M2 & I2 & F2 & Cn2 & Ev2).
  pose proof F2 as (Wa4 & La4 & Oa4 & Na4 & Ca4 & Sa4 & Ea4). rewrite A3 in Ea4.
  assert (Ewin : pwin ka4 per1 n5 = pwin kb4 per1 n4).
  { apply sorted_mult_eq; [apply pwin_lsorted; exact (proj1 Ca4)|apply pwin_lsorted; exact (proj1 Cb4)|].
    intros v. change (cw ka4 per1 n5 v = cw kb4 per1 n4 v). rewrite Cn2, Cn1. lia. }
  assert (En : n5 = n4).
  { pose proof Ca4 as (_ & _ & _ & L5 & _). pose proof Cb4 as (_ & _ & _ & L4 & _).
    rewrite <- (pwin_length ka4 per1 n5) by lia. rewrite Ewin. apply pwin_length. lia. }
  subst n5.
  assert (Ekk : ka4 = kb4) by (apply (canon_ext ka4 kb4 p per1 n4 1 Ca4 Cb4 Ewin)).
  destruct (insert_knots_dims i ins1 a2 a4 I2) as (Da & Rta). destruct (insert_knots_dims i ins2 b2 b4 I1) as (Db & Rtb).
  exists ins2, b4, ins1, a4, kb4, n4. split; [exact M1|]. split; [exact I1|]. split; [rewrite Nb4; exact M2|]. split; [exact I2|].
  unfold per_result.
  split; [exact Wa4|]. split; [exact Wb4|]. split; [exact La4|]. split; [exact Lb4|]. split; [exact Oa4|]. split; [exact Ob4|].
  split; [rewrite Na4, Ekk; reflexivity|]. split; [exact Nb4|]. split; [exact Cb4|]. split; [exact Sb4|]. split; [exact Eb4|].
  split; [exact Cn1|].
  split; [exact Da|]. split; [exact Rta|]. split; [exact Db|]. split; [exact Rtb|].
  split.
  - intros ts Hdom Fa Fb. apply (Ev2 _ Hdom Fa).
    intros v Hv. pose proof (pvals_mono kb4 ka kb per1 n4 na nb 1 W4 v Hv) as H. apply in_app_or in H. destruct H as [H|H]; [apply Fa, H|apply Fb, H].
  - intros ts Hdom Fa Fb. apply (Ev1 _ Hdom Fb Fa).
Qed.

(* with equal seam multiplicities both missing_knots2 calls of the repaired routine return what the old ones return *)
Lemma per_missing2_eq (a2 b2 : obj R) (ka kb : list R) (na nb : nat) (a4 b4 : obj R) kk nk :
  per_ready tol i p per1 U a2 ka na -> per_ready tol i p per1 U b2 kb nb -> cw ka per1 na 0 = cw kb per1 nb 0 ->
  per_result tol i p per1 a2 b2 ka kb na nb a4 b4 kk nk ->
  @missing_knots2 R NumR tol p (mkBasis p ka per1) (mkBasis p kb per1) = @missing_knots R NumR tol p (mkBasis p ka per1) (mkBasis p kb per1) /\
  @missing_knots2 R NumR tol p (nth i (o_bases b4) dflt_basis) (mkBasis p ka per1)
  = @missing_knots R NumR tol p (nth i (o_bases b4) dflt_basis) (mkBasis p ka per1).
Proof.
  intros (Wa & Ia & Na & A1 & A2 & A3 & Ua) (Wb & Ib & Nb & B1 & B2 & B3 & Ub) Hs0
         (_ & _ & _ & _ & _ & _ & _ & R8 & R9 & R10 & R11 & R12 & _).
  split.
  - apply (stage_eq tol Htol p per1 1 ka kb na nb U B1 B2 A1 A2 ltac:(rewrite A3, B3; reflexivity) HU Ua Ub).
    rewrite A3, B3, Hs0. lia.
  - rewrite R8.
    assert (W4 : forall w, In w (pwin kk per1 nk) -> In w (pwin ka per1 na) \/ In w (pwin kb per1 nb)) by (apply cw_max_in; exact R12).
    assert (U4 : forall v, In v (pvals kk per1 nk 1) -> In v U).
    { intros v Hv. pose proof (pvals_mono kk ka kb per1 nk na nb 1 W4 v Hv) as H. apply in_app_or in H. destruct H as [H|H]; [apply Ua, H|apply Ub, H]. }
    apply (stage_eq tol Htol p per1 1 kk ka nk na U A1 A2 R9 R10 ltac:(rewrite A3, R11; reflexivity) HU U4 Ua).
    rewrite A3, R11, R12, Hs0. lia.
Qed.
End PerStages2.


(* ---- identical_tail2 on two periodic operands normalised to the same continuity (Section PerCore of IdenticalPeriodic.v) ---- *)
Section PerCore2.
Variable tol : R.
Hypothesis Htol : 0 < tol.
Variables a0 b0 : obj R.
Hypothesis Wa : wf_obj_R tol a0.
Hypothesis Wb : wf_obj_R tol b0.
Variable i : nat.
Hypothesis Hia : (i < length (o_bases a0))%nat.
Hypothesis Hib : (i < length (o_bases b0))%nat.
Variables p per1 : nat.
Variable U : list R.
Hypothesis HU : separated tol U.
Local Notation a1 := (rp_obj a0 i 0 1).
Local Notation b1 := (rp_obj b0 i 0 1).
Variables a2 b2 : obj R.
Variables ka kb : list R.
Variables na nb : nat.
Hypothesis Na : pnorm_ok tol i p per1 U a0 a2 ka na.
Hypothesis Nb : pnorm_ok tol i p per1 U b0 b2 kb nb.
Hypothesis Hlow_b :
  (if (b_per1 (nth i (o_bases a1) dflt_basis) <? b_per1 (nth i (o_bases b1) dflt_basis))%nat
   then @obj_lower_periodic R NumR 64 b1 (b_per1 (nth i (o_bases a1) dflt_basis)) i else Ok b1) = Ok b2.
Hypothesis Hlow_a :
  (if (b_per1 (nth i (o_bases b1) dflt_basis) <? b_per1 (nth i (o_bases a1) dflt_basis))%nat
   then @obj_lower_periodic R NumR 64 a1 (b_per1 (nth i (o_bases b1) dflt_basis)) i else Ok a1) = Ok a2.

Lemma pc2_unfold (mk : R -> nat -> basis R -> basis R -> res (list R)) (T : res (obj R * obj R)) :
  T = match @obj_reparam_dir R NumR a0 i n0 n1, @obj_reparam_dir R NumR b0 i n0 n1 with
    | Ok a1, Ok b1 =>
      let dflt := mkBasis 0 [] 0 in
      let pa := b_per1 (nth i (o_bases a1) dflt) in let pb := b_per1 (nth i (o_bases b1) dflt) in
      match (if (pa <? pb)%nat then @obj_lower_periodic R NumR 64 b1 pa i else Ok b1),
            (if (pb <? pa)%nat then @obj_lower_periodic R NumR 64 a1 pb i else Ok a1) with
      | Ok b2, Ok a2 =>
        let p1 := b_order (nth i (o_bases a2) dflt) in let p2 := b_order (nth i (o_bases b2) dflt) in
        let p := Nat.max p1 p2 in
        match @obj_raise_order R NumR tol a2 (unit_vec (o_pardim a2) i (p - p1)), @obj_raise_order R NumR tol b2 (unit_vec (o_pardim b2) i (p - p2)) with
        | Ok a3, Ok b3 =>
          match mk tol p (nth i (o_bases a3) dflt) (nth i (o_bases b3) dflt) with
          | Err e => Err e
          | Ok ins2 =>
            match @obj_insert_knots R NumR b3 i ins2 with
            | Err e => Err e
            | Ok b4 =>
              match mk tol p (nth i (o_bases b4) dflt) (nth i (o_bases a3) dflt) with
              | Err e => Err e
              | Ok ins1 =>
                match @obj_insert_knots R NumR a3 i ins1 with
                | Err e => Err e
                | Ok a4 => Ok (a4, b4)
                end
              end
            end
          end
        | Err e, _ => Err e
        | _, Err e => Err e
        end
      | Err e, _ => Err e
      | _, Err e => Err e
      end
    | Err e, _ => Err e
    | _, Err e => Err e
    end ->
  T = match mk tol p (mkBasis p ka per1) (mkBasis p kb per1) with
      | Err e => Err e
      | Ok ins2 =>
        match @obj_insert_knots R NumR b2 i ins2 with
        | Err e => Err e
        | Ok b4 =>
          match mk tol p (nth i (o_bases b4) dflt_basis) (mkBasis p ka per1) with
          | Err e => Err e
          | Ok ins1 =>
            match @obj_insert_knots R NumR a2 i ins1 with
            | Err e => Err e
            | Ok a4 => Ok (a4, b4)
            end
          end
        end
      end.
Proof.
  intros ->. destruct Na as ((_ & _ & Ea & _) & _). destruct Nb as ((_ & _ & Eb & _) & _).
  change (@n0 R NumR) with 0. change (@n1 R NumR) with 1.
  rewrite (nr_a1_ok tol Htol a0 Wa i Hia), (nr_a1_ok tol Htol b0 Wb i Hib).
  cbv zeta. change (@mkBasis R 0 [] 0) with dflt_basis.
  rewrite Hlow_b, Hlow_a. rewrite Ea, Eb. cbn [b_order].
  rewrite Nat.max_id, Nat.sub_diag. rewrite !raise_zero.
  rewrite Ea, Eb. reflexivity.
Qed.

(* Part B: equal seam multiplicities: the repaired routine computes exactly what the old one computes *)
Theorem per_core2_eq : cw ka per1 na 0 = cw kb per1 nb 0 -> identical_tail2 tol a0 b0 i = identical_tail tol a0 b0 i.
Proof.
  intros Hs0. destruct Na as (Ra & _). destruct Nb as (Rb & _).
  destruct (per_forward tol Htol i p per1 U HU a2 b2 ka kb na nb Ra Rb Hs0) as (ins2 & b4 & ins1 & a4 & kk & nk & M1 & I1 & M2 & I2 & PR).
  destruct (per_missing2_eq tol Htol i p per1 U HU a2 b2 ka kb na nb a4 b4 kk nk Ra Rb Hs0 PR) as (Q1 & Q2).
  rewrite (pc2_unfold (@missing_knots2 R NumR) (identical_tail2 tol a0 b0 i) eq_refl).
  rewrite (pc2_unfold (@missing_knots R NumR) (identical_tail tol a0 b0 i) eq_refl).
  rewrite Q1, M1, I1, Q2, M2, I2. reflexivity.
Qed.

(* Part C: no hypothesis on the seam multiplicities *)
Theorem per_core2_ok : exists a b kk nk, identical_tail2 tol a0 b0 i = Ok (a, b) /\ per_core_facts tol a0 b0 i p per1 ka kb na nb a b kk nk.
Proof.
  destruct Na as (Ra & La & Oa & Da & Rta & Ca & Eva). destruct Nb as (Rb & Lb & Ob & Db & Rtb & Cb & Evb).
  destruct (per_forward2 tol Htol i p per1 U HU a2 b2 ka kb na nb Ra Rb) as (ins2 & b4 & ins1 & a4 & kk & nk & M1 & I1 & M2 & I2 & PR).
  exists a4, b4, kk, nk. split.
  { rewrite (pc2_unfold (@missing_knots2 R NumR) (identical_tail2 tol a0 b0 i) eq_refl). rewrite M1, I1, M2, I2. reflexivity. }
  destruct PR as (R1 & R2 & R3 & R4 & R5 & R6 & R7 & R8 & R9 & R10 & R11 & R12 & R13 & R14 & R15 & R16 & R17 & R18).
  unfold per_core_facts. cbv zeta.
  split; [exact R1|]. split; [exact R2|]. split; [lia|]. split; [lia|].
  split; [intros j Hj; rewrite (R5 j Hj); apply Oa; exact Hj|]. split; [intros j Hj; rewrite (R6 j Hj); apply Ob; exact Hj|].
  split; [exact R7|]. split; [exact R8|]. split; [exact R9|]. split; [exact R10|]. split; [exact R11|]. split; [exact R12|].
  split; [congruence|]. split; [congruence|]. split; [congruence|]. split; [congruence|].
  split.
  - intros ts Hdom Hit Hin (PC1 & PC2). destruct (Eva ts Hdom Hit Hin PC1) as (E1 & D1). cbv zeta in *.
    assert (Ru : 0 <= rp_map (nth i (o_bases a0) dflt_basis) 0 1 (nth i ts 0) <= 1)
      by (apply (dir_interval tol Htol _ (ol_wfb tol a0 Wa i Hia) 0 1 ltac:(lra) (nth i ts 0)); exact Hin).
    rewrite <- E1. apply (R17 _ D1); rewrite upd_nth_same by exact Hit.
    + apply (Ca _ Ru). apply (clear_rescaled tol Htol i a0 Wa Hia _ PC1).
    + apply (Cb _ Ru). exact PC2.
  - intros ts Hdom Hit Hin (PC1 & PC2). destruct (Evb ts Hdom Hit Hin PC1) as (E1 & D1). cbv zeta in *.
    assert (Ru : 0 <= rp_map (nth i (o_bases b0) dflt_basis) 0 1 (nth i ts 0) <= 1)
      by (apply (dir_interval tol Htol _ (ol_wfb tol b0 Wb i Hib) 0 1 ltac:(lra) (nth i ts 0)); exact Hin).
    rewrite <- E1. apply (R18 _ D1); rewrite upd_nth_same by exact Hit.
    + apply (Ca _ Ru). exact PC2.
    + apply (Cb _ Ru). apply (clear_rescaled tol Htol i b0 Wb Hib _ PC1).
Qed.
End PerCore2.


(* ================================================================================================ *)
(* Parts B and C, case (a): both operands periodic with the same continuity *)

(* identical_per_hyps of Proofs/IdenticalPeriodic.v WITHOUT ip_seam *)
Record identical_per_hyps2 (tol : R) (o1 o2 : obj R) (i na nb : nat) (Ta Tb : R) : Prop := {
  iq_tol : 0 < tol;
  iq_tol2 : 2 * tol <= 1;
  iq_wf1 : wf_obj_R tol o1;
  iq_wf2 : wf_obj_R tol o2;
  iq_dir1 : (i < length (o_bases o1))%nat;
  iq_dir2 : (i < length (o_bases o2))%nat;
  iq_order : b_order (nth i (o_bases o2) dflt_basis) = b_order (nth i (o_bases o1) dflt_basis);
  iq_per : b_per1 (nth i (o_bases o2) dflt_basis) = b_per1 (nth i (o_bases o1) dflt_basis);
  iq_canon1 : canon_dir o1 i na Ta;
  iq_canon2 : canon_dir o2 i nb Tb;
  iq_strict1 : per_strict (b_knots (nth i (o_bases o1) dflt_basis)) (b_per1 (nth i (o_bases o1) dflt_basis));
  iq_strict2 : per_strict (b_knots (nth i (o_bases o2) dflt_basis)) (b_per1 (nth i (o_bases o1) dflt_basis));
  iq_sep : separated tol (pvals (b_knots (rp_basis (nth i (o_bases o1) dflt_basis) 0 1)) (b_per1 (nth i (o_bases o1) dflt_basis)) na 1 ++
                          pvals (b_knots (rp_basis (nth i (o_bases o2) dflt_basis) 0 1)) (b_per1 (nth i (o_bases o1) dflt_basis)) nb 1)
}.

Lemma per_hyps_drop_seam tol o1 o2 i na nb Ta Tb : identical_per_hyps tol o1 o2 i na nb Ta Tb -> identical_per_hyps2 tol o1 o2 i na nb Ta Tb.
Proof. intros []. constructor; assumption. Qed.

Lemma per_hyps2_compat tol (o1 o2 : obj R) i na nb Ta Tb : identical_per_hyps2 tol o1 o2 i na nb Ta Tb ->
  identical_per_hyps2 tol (fst (@obj_compatible R NumR o1 o2)) (snd (@obj_compatible R NumR o1 o2)) i na nb Ta Tb.
Proof.
  intros H. destruct (compatible_eval tol o1 o2 [] (iq_tol _ _ _ _ _ _ _ _ H) (iq_wf1 _ _ _ _ _ _ _ _ H) (iq_wf2 _ _ _ _ _ _ _ _ H)) as (_ & _ & Wa & Wb & Ba & Bb & _).
  cbv zeta in *. destruct H. constructor; unfold canon_dir in *; rewrite ?Ba, ?Bb; assumption.
Qed.

(* both operands as they enter the stages: reparametrised, no lower_periodic call *)
Lemma pa_setup tol (a0 b0 : obj R) i na nb Ta Tb : identical_per_hyps2 tol a0 b0 i na nb Ta Tb ->
  let ba := nth i (o_bases a0) dflt_basis in let bb := nth i (o_bases b0) dflt_basis in
  let U := pvals (b_knots (rp_basis ba 0 1)) (b_per1 ba) na 1 ++ pvals (b_knots (rp_basis bb 0 1)) (b_per1 ba) nb 1 in
  pnorm_ok tol i (b_order ba) (b_per1 ba) U a0 (rp_obj a0 i 0 1) (b_knots (rp_basis ba 0 1)) na /\
  pnorm_ok tol i (b_order ba) (b_per1 ba) U b0 (rp_obj b0 i 0 1) (b_knots (rp_basis bb 0 1)) nb /\
  (if (b_per1 (nth i (o_bases (rp_obj a0 i 0 1)) dflt_basis) <? b_per1 (nth i (o_bases (rp_obj b0 i 0 1)) dflt_basis))%nat
   then @obj_lower_periodic R NumR 64 (rp_obj b0 i 0 1) (b_per1 (nth i (o_bases (rp_obj a0 i 0 1)) dflt_basis)) i else Ok (rp_obj b0 i 0 1))
  = Ok (rp_obj b0 i 0 1) /\
  (if (b_per1 (nth i (o_bases (rp_obj b0 i 0 1)) dflt_basis) <? b_per1 (nth i (o_bases (rp_obj a0 i 0 1)) dflt_basis))%nat
   then @obj_lower_periodic R NumR 64 (rp_obj a0 i 0 1) (b_per1 (nth i (o_bases (rp_obj b0 i 0 1)) dflt_basis)) i else Ok (rp_obj a0 i 0 1))
  = Ok (rp_obj a0 i 0 1).
Proof.
  intros [Htol Htol2 Wa Wb Hia Hib Eord Eper Ca Cb Sa Sb Hsep]. cbv zeta.
  set (ba := nth i (o_bases a0) dflt_basis) in *. set (bb := nth i (o_bases b0) dflt_basis) in *.
  set (U := pvals (b_knots (rp_basis ba 0 1)) (b_per1 ba) na 1 ++ pvals (b_knots (rp_basis bb 0 1)) (b_per1 ba) nb 1) in *.
  pose proof (pnorm_same tol i U a0 na Ta Htol Htol2 Hsep Wa Hia Ca Sa ltac:(intros v Hv; apply in_or_app; left; exact Hv)) as Na.
  fold ba in Na.
  assert (Sb' : per_strict (b_knots bb) (b_per1 bb)) by (rewrite Eper; exact Sb).
  pose proof (pnorm_same tol i U b0 nb Tb Htol Htol2 Hsep Wb Hib Cb Sb' ltac:(fold bb; rewrite Eper; intros v Hv; apply in_or_app; right; exact Hv)) as Nb.
  fold bb in Nb. rewrite Eord, Eper in Nb.
  assert (Pa : b_per1 (nth i (o_bases (rp_obj a0 i 0 1)) dflt_basis) = b_per1 ba) by (rewrite (nr_a1_i a0 i Hia); reflexivity).
  assert (Pb : b_per1 (nth i (o_bases (rp_obj b0 i 0 1)) dflt_basis) = b_per1 ba) by (rewrite (nr_a1_i b0 i Hib); exact Eper).
  split; [exact Na|]. split; [exact Nb|]. rewrite Pa, Pb, Nat.ltb_irrefl. split; reflexivity.
Qed.

(* Part B *)
Theorem identical_dir2_eq_per tol (o1 o2 : obj R) i na nb Ta Tb : identical_per_hyps tol o1 o2 i na nb Ta Tb ->
  @identical_dir2 R NumR tol o1 o2 i = @identical_dir R NumR tol o1 o2 i.
Proof.
  intros H. rewrite identical_dir2_tail, identical_dir_tail.
  pose proof (identical_per_hyps_compat tol o1 o2 i na nb Ta Tb H) as Hc.
  set (a0 := fst (@obj_compatible R NumR o1 o2)) in *. set (b0 := snd (@obj_compatible R NumR o1 o2)) in *.
  destruct (pa_setup tol a0 b0 i na nb Ta Tb (per_hyps_drop_seam _ _ _ _ _ _ _ _ Hc)) as (Na & Nb & Lb & La). cbv zeta in *.
  destruct Hc as [Htol Htol2 Wa Wb Hia Hib Eord Eper Ca Cb Sa Sb Hsep Hseam].
  apply (per_core2_eq tol Htol a0 b0 Wa Wb i Hia Hib _ _ _ Hsep _ _ _ _ na nb Na Nb Lb La).
  exact (cp_seam tol Htol a0 b0 Wa Wb i Hia Hib Eord Eper na nb Ta Tb Ca Cb Sa Sb Hseam).
Qed.

Theorem make_identical2_eq_per tol (o1 o2 : obj R) i na nb Ta Tb : identical_per_hyps tol o1 o2 i na nb Ta Tb ->
  @obj_make_identical2 R NumR tol o1 o2 (Some i) = @obj_make_identical R NumR tol o1 o2 (Some i).
Proof.
  intros H. pose proof (identical_dir2_eq_per tol _ _ i na nb Ta Tb (identical_per_hyps_compat tol o1 o2 i na nb Ta Tb H)) as E.
  unfold obj_make_identical2, obj_make_identical. destruct (@obj_compatible R NumR o1 o2) as [a0 b0]. exact E.
Qed.

(* Part C *)
Theorem identical_dir2_seam_ok tol (o1 o2 : obj R) i na nb Ta Tb : identical_per_hyps2 tol o1 o2 i na nb Ta Tb ->
  let b1 := nth i (o_bases o1) dflt_basis in let b2 := nth i (o_bases o2) dflt_basis in
  exists a b, @identical_dir2 R NumR tol o1 o2 i = Ok (a, b) /\
    per_facts tol o1 o2 i (b_per1 b1) (b_knots (rp_basis b1 0 1)) (b_knots (rp_basis b2 0 1)) na nb a b.
Proof.
  intros H. cbv zeta. pose proof (per_hyps2_compat tol o1 o2 i na nb Ta Tb H) as Hc.
  destruct (compatible_eval tol o1 o2 [] (iq_tol _ _ _ _ _ _ _ _ H) (iq_wf1 _ _ _ _ _ _ _ _ H) (iq_wf2 _ _ _ _ _ _ _ _ H)) as (_ & _ & _ & _ & Ba & Bb & _).
  cbv zeta in *.
  set (a0 := fst (@obj_compatible R NumR o1 o2)) in *. set (b0 := snd (@obj_compatible R NumR o1 o2)) in *.
  destruct (pa_setup tol a0 b0 i na nb Ta Tb Hc) as (Na & Nb & Lb & La). cbv zeta in *.
  destruct Hc as [Htol Htol2 Wa Wb Hia Hib Eord Eper Ca Cb Sa Sb Hsep].
  destruct (per_core2_ok tol Htol a0 b0 Wa Wb i Hia Hib _ _ _ Hsep _ _ _ _ na nb Na Nb Lb La) as (a & b & kk & nk & E & F).
  exists a, b. split; [rewrite identical_dir2_tail; exact E|].
  rewrite Ba, Bb in F.
  apply (per_facts_of_core tol o1 o2 i _ _ _ na nb a b kk nk (iq_tol _ _ _ _ _ _ _ _ H) (iq_wf1 _ _ _ _ _ _ _ _ H) (iq_wf2 _ _ _ _ _ _ _ _ H)
           (iq_dir1 _ _ _ _ _ _ _ _ H) (iq_dir2 _ _ _ _ _ _ _ _ H)). exact F.
Qed.

Theorem identical_dir2_seam tol (o1 o2 : obj R) i na nb Ta Tb a b : identical_per_hyps2 tol o1 o2 i na nb Ta Tb ->
  @identical_dir2 R NumR tol o1 o2 i = Ok (a, b) ->
  let b1 := nth i (o_bases o1) dflt_basis in let b2 := nth i (o_bases o2) dflt_basis in
  per_facts tol o1 o2 i (b_per1 b1) (b_knots (rp_basis b1 0 1)) (b_knots (rp_basis b2 0 1)) na nb a b.
Proof.
  intros H Hid. cbv zeta. destruct (identical_dir2_seam_ok tol o1 o2 i na nb Ta Tb H) as (a' & b' & E & F).
  rewrite Hid in E. injection E as <- <-. exact F.
Qed.

Theorem make_identical2_seam_ok tol (o1 o2 : obj R) i na nb Ta Tb : identical_per_hyps2 tol o1 o2 i na nb Ta Tb ->
  exists a b, @obj_make_identical2 R NumR tol o1 o2 (Some i) = Ok (a, b).
Proof.
  intros H. destruct (identical_dir2_seam_ok tol _ _ i na nb Ta Tb (per_hyps2_compat tol o1 o2 i na nb Ta Tb H)) as (a & b & E & _).
  exists a, b. unfold obj_make_identical2. destruct (@obj_compatible R NumR o1 o2) as [a0 b0]. exact E.
Qed.


(* ---- Part B, case (a) restated for the repaired functions (hypotheses identical_per_hyps, with ip_seam) ---- *)
Section MainP2.
Variable tol : R.
Variables o1 o2 : obj R.
Variable i : nat.
Variables (na nb : nat) (Ta Tb : R).
Hypothesis H : identical_per_hyps tol o1 o2 i na nb Ta Tb.
Local Notation b1 := (nth i (o_bases o1) dflt_basis).
Local Notation b2 := (nth i (o_bases o2) dflt_basis).
Local Notation p := (b_order b1).
Local Notation per1 := (b_per1 b1).
Local Notation l1 := (b_knots (rp_basis b1 0 1)).
Local Notation l2 := (b_knots (rp_basis b2 0 1)).
Local Notation dim' := (Nat.max (o_dim o1) (o_dim o2)).

Theorem identical_dir2_per_ok : exists a b, @identical_dir2 R NumR tol o1 o2 i = Ok (a, b).
Proof. rewrite (identical_dir2_eq_per tol o1 o2 i na nb Ta Tb H). exact (identical_dir_per_ok tol o1 o2 i na nb Ta Tb H). Qed.

Theorem make_identical2_per_ok : exists a b, @obj_make_identical2 R NumR tol o1 o2 (Some i) = Ok (a, b).
Proof. rewrite (make_identical2_eq_per tol o1 o2 i na nb Ta Tb H). exact (make_identical_per_ok tol o1 o2 i na nb Ta Tb H). Qed.

Variables a b : obj R.

Section Dir.
Hypothesis Hid : @identical_dir2 R NumR tol o1 o2 i = Ok (a, b).
Lemma mp2_old : @identical_dir R NumR tol o1 o2 i = Ok (a, b).
Proof. rewrite <- (identical_dir2_eq_per tol o1 o2 i na nb Ta Tb H). exact Hid. Qed.

Theorem identical_dir2_per_knots :
  let ba := nth i (o_bases a) dflt_basis in let bb := nth i (o_bases b) dflt_basis in
  b_order ba = p /\ b_order bb = p /\ b_per1 ba = per1 /\ b_per1 bb = per1 /\
  @b_start R NumR ba = 0 /\ @b_end R NumR ba = 1 /\ @b_start R NumR bb = 0 /\ @b_end R NumR bb = 1 /\
  b_knots ba = b_knots bb /\
  (exists nk, canon_dir a i nk 1 /\ canon_dir b i nk 1 /\ per_strict (b_knots ba) per1 /\
     forall v, cw (b_knots ba) per1 nk v = Nat.max (cw l1 per1 na v) (cw l2 per1 nb v)) /\
  wf_obj_R tol a /\ wf_obj_R tol b /\
  length (o_bases a) = length (o_bases o1) /\ length (o_bases b) = length (o_bases o2) /\
  (forall j, j <> i -> nth j (o_bases a) dflt_basis = nth j (o_bases o1) dflt_basis) /\
  (forall j, j <> i -> nth j (o_bases b) dflt_basis = nth j (o_bases o2) dflt_basis) /\
  o_dim a = dim' /\ o_dim b = dim' /\ o_rat a = (o_rat o1 || o_rat o2)%bool /\ o_rat b = (o_rat o1 || o_rat o2)%bool.
Proof. exact (identical_dir_per_knots tol o1 o2 i na nb Ta Tb H a b mp2_old). Qed.

Theorem identical_dir2_per_eval ts :
  dom_all tol o1 ts -> (i < length ts)%nat ->
  @b_start R NumR b1 <= nth i ts 0 <= @b_end R NumR b1 -> param_clear tol b1 b2 (nth i ts 0) ->
  @obj_eval R NumR tol a (upd ts i ((nth i ts 0 - @b_start R NumR b1) / (@b_end R NumR b1 - @b_start R NumR b1)))
  = res_map (pad (dim' - o_dim o1)) (@obj_eval R NumR tol o1 ts).
Proof. exact (identical_dir_per_eval tol o1 o2 i na nb Ta Tb H a b mp2_old ts). Qed.

Theorem identical_dir2_per_eval2 ts :
  dom_all tol o2 ts -> (i < length ts)%nat ->
  @b_start R NumR b2 <= nth i ts 0 <= @b_end R NumR b2 -> param_clear tol b2 b1 (nth i ts 0) ->
  @obj_eval R NumR tol b (upd ts i ((nth i ts 0 - @b_start R NumR b2) / (@b_end R NumR b2 - @b_start R NumR b2)))
  = res_map (pad (dim' - o_dim o2)) (@obj_eval R NumR tol o2 ts).
Proof. exact (identical_dir_per_eval2 tol o1 o2 i na nb Ta Tb H a b mp2_old ts). Qed.
End Dir.

Section Make.
Hypothesis Hid : @obj_make_identical2 R NumR tol o1 o2 (Some i) = Ok (a, b).
Lemma mip2_old : @obj_make_identical R NumR tol o1 o2 (Some i) = Ok (a, b).
Proof. rewrite <- (make_identical2_eq_per tol o1 o2 i na nb Ta Tb H). exact Hid. Qed.

Theorem make_identical2_per_knots :
  let ba := nth i (o_bases a) dflt_basis in let bb := nth i (o_bases b) dflt_basis in
  b_order ba = b_order b1 /\ b_order bb = b_order b1 /\ b_per1 ba = b_per1 b1 /\ b_per1 bb = b_per1 b1 /\
  @b_start R NumR ba = 0 /\ @b_end R NumR ba = 1 /\ @b_start R NumR bb = 0 /\ @b_end R NumR bb = 1 /\
  b_knots ba = b_knots bb /\ o_dim a = dim' /\ o_dim b = dim' /\ o_rat a = o_rat b.
Proof. exact (make_identical_per_knots tol o1 o2 i na nb Ta Tb H a b mip2_old). Qed.

Theorem make_identical2_per_eval ts :
  dom_all tol o1 ts -> (i < length ts)%nat ->
  @b_start R NumR b1 <= nth i ts 0 <= @b_end R NumR b1 -> param_clear tol b1 b2 (nth i ts 0) ->
  @obj_eval R NumR tol a (upd ts i ((nth i ts 0 - @b_start R NumR b1) / (@b_end R NumR b1 - @b_start R NumR b1)))
  = res_map (pad (dim' - o_dim o1)) (@obj_eval R NumR tol o1 ts).
Proof. exact (make_identical_per_eval tol o1 o2 i na nb Ta Tb H a b mip2_old ts). Qed.

Theorem make_identical2_per_eval2 ts :
  dom_all tol o2 ts -> (i < length ts)%nat ->
  @b_start R NumR b2 <= nth i ts 0 <= @b_end R NumR b2 -> param_clear tol b2 b1 (nth i ts 0) ->
  @obj_eval R NumR tol b (upd ts i ((nth i ts 0 - @b_start R NumR b2) / (@b_end R NumR b2 - @b_start R NumR b2)))
  = res_map (pad (dim' - o_dim o2)) (@obj_eval R NumR tol o2 ts).
Proof. exact (make_identical_per_eval2 tol o1 o2 i na nb Ta Tb H a b mip2_old ts). Qed.
End Make.
End MainP2.


(* ================================================================================================ *)
(* Part B, case (c): both periodic with different continuity *)
Lemma lo2_tail_eq tol (a0 b0 : obj R) i na nb Ta Tb : identical_lo2_hyps tol a0 b0 i na nb Ta Tb ->
  identical_tail2 tol a0 b0 i = identical_tail tol a0 b0 i.
Proof.
  intros [Htol Htol2 Wa Wb Hia Hib Eord Hper Hfuel Ca Cb Sa Sb Hsep Hseam].
  set (ba := nth i (o_bases a0) dflt_basis) in *. set (bb := nth i (o_bases b0) dflt_basis) in *.
  set (t := b_per1 ba) in *. set (m := (b_per1 bb - t)%nat) in *.
  set (U := pvals (b_knots (rp_basis ba 0 1)) t na 1 ++ pvals (b_knots (rp_basis bb 0 1)) (b_per1 bb) nb 1) in *.
  pose proof Ca as (_ & Ht & _). fold ba t in Ht.
  assert (Eb : b_per1 bb = (t + m)%nat) by (unfold m; lia).
  pose proof (pnorm_same tol i U a0 na Ta Htol Htol2 Hsep Wa Hia Ca Sa ltac:(intros v Hv; apply in_or_app; left; exact Hv)) as Na.
  fold ba t in Na.
  destruct (pnorm_side tol Htol Htol2 i U Hsep b0 Wb Hib nb Tb Cb Sb ltac:(intros v Hv; apply in_or_app; right; exact Hv) t m 64 Ht Eb Hfuel)
    as (b2 & k2 & Hlow & Pk & Nb). fold bb in Pk, Nb. rewrite Eord in Nb. fold ba in Nb.
  assert (Pa : b_per1 (nth i (o_bases (rp_obj a0 i 0 1)) dflt_basis) = t) by (rewrite (nr_a1_i a0 i Hia); reflexivity).
  assert (Pb : b_per1 (nth i (o_bases (rp_obj b0 i 0 1)) dflt_basis) = (t + m)%nat) by (rewrite (nr_a1_i b0 i Hib); exact Eb).
  destruct (canon_rescaled tol a0 i na Ta Htol Wa Hia Ca) as (CA & SA & ZA). specialize (SA Sa). fold ba t in CA, SA, ZA.
  destruct (canon_rescaled tol b0 i nb Tb Htol Wb Hib Cb) as (CB & SB & ZB). specialize (SB Sb). fold bb in CB, SB, ZB. rewrite Eb in CB, SB.
  apply (per_core2_eq tol Htol a0 b0 Wa Wb i Hia Hib (b_order ba) t U Hsep (rp_obj a0 i 0 1) b2 _ k2 na (nb + m)%nat Na Nb).
  - rewrite Pa, Pb. destruct (Nat.ltb_spec t (t + m)) as [_|C]; [exact Hlow|unfold m in C; lia].
  - rewrite Pa, Pb. destruct (Nat.ltb_spec (t + m) t) as [C|_]; [unfold m in C; lia|reflexivity].
  - rewrite (cw_lowered _ k2 (b_order bb) t m nb 1 CB SB ZB Pk).
    unfold cw. rewrite <- (mult_window _ (b_order ba) t na 1 CA SA 0).
    + fold ba bb t m in Hseam. rewrite Hseam. unfold m. lia.
    + pose proof CA as (_ & _ & _ & _ & _ & HT & _). rewrite (canon_period _ _ _ _ _ CA), ZA. lra.
Qed.

Lemma lo1_tail_eq tol (a0 b0 : obj R) i na nb Ta Tb : identical_lo1_hyps tol a0 b0 i na nb Ta Tb ->
  identical_tail2 tol a0 b0 i = identical_tail tol a0 b0 i.
Proof.
  intros [Htol Htol2 Wa Wb Hia Hib Eord Hper Hfuel Ca Cb Sa Sb Hsep Hseam].
  set (ba := nth i (o_bases a0) dflt_basis) in *. set (bb := nth i (o_bases b0) dflt_basis) in *.
  set (t := b_per1 bb) in *. set (m := (b_per1 ba - t)%nat) in *.
  set (U := pvals (b_knots (rp_basis ba 0 1)) (b_per1 ba) na 1 ++ pvals (b_knots (rp_basis bb 0 1)) t nb 1) in *.
  pose proof Cb as (_ & Ht & _). fold bb t in Ht.
  assert (Ea : b_per1 ba = (t + m)%nat) by (unfold m; lia).
  pose proof (pnorm_same tol i U b0 nb Tb Htol Htol2 Hsep Wb Hib Cb Sb ltac:(intros v Hv; apply in_or_app; right; exact Hv)) as Nb.
  fold bb t in Nb. rewrite Eord in Nb. fold ba in Nb.
  destruct (pnorm_side tol Htol Htol2 i U Hsep a0 Wa Hia na Ta Ca Sa ltac:(intros v Hv; apply in_or_app; left; exact Hv) t m 64 Ht Ea Hfuel)
    as (a2 & k2 & Hlow & Pk & Na). fold ba in Pk, Na.
  assert (Pb : b_per1 (nth i (o_bases (rp_obj b0 i 0 1)) dflt_basis) = t) by (rewrite (nr_a1_i b0 i Hib); reflexivity).
  assert (Pa : b_per1 (nth i (o_bases (rp_obj a0 i 0 1)) dflt_basis) = (t + m)%nat) by (rewrite (nr_a1_i a0 i Hia); exact Ea).
  destruct (canon_rescaled tol a0 i na Ta Htol Wa Hia Ca) as (CA & SA & ZA). specialize (SA Sa). fold ba in CA, SA, ZA. rewrite Ea in CA, SA.
  destruct (canon_rescaled tol b0 i nb Tb Htol Wb Hib Cb) as (CB & SB & ZB). specialize (SB Sb). fold bb t in CB, SB, ZB.
  apply (per_core2_eq tol Htol a0 b0 Wa Wb i Hia Hib (b_order ba) t U Hsep a2 (rp_obj b0 i 0 1) k2 _ (na + m)%nat nb Na Nb).
  - rewrite Pa, Pb. destruct (Nat.ltb_spec (t + m) t) as [C|_]; [unfold m in C; lia|reflexivity].
  - rewrite Pa, Pb. destruct (Nat.ltb_spec t (t + m)) as [_|C]; [exact Hlow|unfold m in C; lia].
  - rewrite (cw_lowered _ k2 (b_order ba) t m na 1 CA SA ZA Pk).
    unfold cw. rewrite <- (mult_window _ (b_order bb) t nb 1 CB SB 0).
    + fold ba bb t m in Hseam. rewrite Hseam. unfold m. lia.
    + pose proof CB as (_ & _ & _ & _ & _ & HT & _). rewrite (canon_period _ _ _ _ _ CB), ZB. lra.
Qed.

Theorem identical_dir2_eq_lower2 tol (o1 o2 : obj R) i na nb Ta Tb : identical_lo2_hyps tol o1 o2 i na nb Ta Tb ->
  @identical_dir2 R NumR tol o1 o2 i = @identical_dir R NumR tol o1 o2 i.
Proof. intros H. rewrite identical_dir2_tail, identical_dir_tail. exact (lo2_tail_eq tol _ _ i na nb Ta Tb (lo2_hyps_compat tol o1 o2 i na nb Ta Tb H)). Qed.
Theorem identical_dir2_eq_lower1 tol (o1 o2 : obj R) i na nb Ta Tb : identical_lo1_hyps tol o1 o2 i na nb Ta Tb ->
  @identical_dir2 R NumR tol o1 o2 i = @identical_dir R NumR tol o1 o2 i.
Proof. intros H. rewrite identical_dir2_tail, identical_dir_tail. exact (lo1_tail_eq tol _ _ i na nb Ta Tb (lo1_hyps_compat tol o1 o2 i na nb Ta Tb H)). Qed.

Theorem identical_dir2_lower2_ok tol (o1 o2 : obj R) i na nb Ta Tb : identical_lo2_hyps tol o1 o2 i na nb Ta Tb ->
  let b1 := nth i (o_bases o1) dflt_basis in let b2 := nth i (o_bases o2) dflt_basis in
  exists a b k2, @identical_dir2 R NumR tol o1 o2 i = Ok (a, b) /\ lowered_window b2 nb (b_per1 b1) k2 /\
    per_facts tol o1 o2 i (b_per1 b1) (b_knots (rp_basis b1 0 1)) k2 na (nb + (b_per1 b2 - b_per1 b1)) a b.
Proof. intros H. cbv zeta. rewrite (identical_dir2_eq_lower2 tol o1 o2 i na nb Ta Tb H). exact (identical_dir_lower2_ok tol o1 o2 i na nb Ta Tb H). Qed.

Theorem identical_dir2_lower1_ok tol (o1 o2 : obj R) i na nb Ta Tb : identical_lo1_hyps tol o1 o2 i na nb Ta Tb ->
  let b1 := nth i (o_bases o1) dflt_basis in let b2 := nth i (o_bases o2) dflt_basis in
  exists a b k2, @identical_dir2 R NumR tol o1 o2 i = Ok (a, b) /\ lowered_window b1 na (b_per1 b2) k2 /\
    per_facts tol o1 o2 i (b_per1 b2) k2 (b_knots (rp_basis b2 0 1)) (na + (b_per1 b1 - b_per1 b2)) nb a b.
Proof. intros H. cbv zeta. rewrite (identical_dir2_eq_lower1 tol o1 o2 i na nb Ta Tb H). exact (identical_dir_lower1_ok tol o1 o2 i na nb Ta Tb H). Qed.

Theorem make_identical2_lower2_ok tol (o1 o2 : obj R) i na nb Ta Tb : identical_lo2_hyps tol o1 o2 i na nb Ta Tb ->
  exists a b, @obj_make_identical2 R NumR tol o1 o2 (Some i) = Ok (a, b).
Proof.
  intros H. destruct (identical_dir2_lower2_ok tol _ _ i na nb Ta Tb (lo2_hyps_compat tol o1 o2 i na nb Ta Tb H)) as (a & b & _ & E & _).
  exists a, b. unfold obj_make_identical2. destruct (@obj_compatible R NumR o1 o2) as [a0 b0]. exact E.
Qed.
Theorem make_identical2_lower1_ok tol (o1 o2 : obj R) i na nb Ta Tb : identical_lo1_hyps tol o1 o2 i na nb Ta Tb ->
  exists a b, @obj_make_identical2 R NumR tol o1 o2 (Some i) = Ok (a, b).
Proof.
  intros H. destruct (identical_dir2_lower1_ok tol _ _ i na nb Ta Tb (lo1_hyps_compat tol o1 o2 i na nb Ta Tb H)) as (a & b & _ & E & _).
  exists a, b. unfold obj_make_identical2. destruct (@obj_compatible R NumR o1 o2) as [a0 b0]. exact E.
Qed.


(* ================================================================================================ *)
(* Part C, non-vacuity: ex_curve (cubic, C^2-periodic, knots -3..11) after insert_knot(start) -- the seam knot is double --
   against ex_curve itself: DIFFERENT seam multiplicities (2 and 1): identical_per_hyps2 holds (ip_seam does not) *)
Definition exs_knots : list R := [-3; -2; -1; 0; 0; 1; 2; 3; 4; 5; 6; 7; 8; 8; 9; 10].
Definition exs_curve : obj R := mkObj [mkBasis 4 exs_knots 3] exr_cps 2 false.

Example exs_canon : per_canon exs_knots 4 3 9 8.
Proof.
  unfold per_canon. split.
  { apply Proofs.RaiseNested.sorted_kn_lsorted. unfold exs_knots. repeat (constructor; try lra). }
  split; [lia|]. split; [lia|]. split; [reflexivity|]. split; [lia|]. split; [lra|]. split; [reflexivity|].
  intros i Hi. cbn [length exs_knots] in Hi.
  do 7 (destruct i as [|i]; [unfold kn, exs_knots; cbn; lra|]). lia.
Qed.

Example exs_wf : wf_obj_R exp_tol exs_curve.
Proof.
  split; [|split].
  - constructor; [|constructor]. split; [exact (proj1 exs_canon)|]. cbn [b_order b_knots].
    split; [lia|]. split; [cbn; lia|]. split; [unfold b_nfun; cbn; lia|].
    unfold b_start, b_end, kn, exs_knots, exp_tol. cbn. lra.
  - unfold exs_curve, exr_cps. cbn [o_cps]. repeat constructor.
  - reflexivity.
Qed.

Lemma exs_l : b_knots (rp_basis (mkBasis 4 exs_knots 3) 0 1)
  = [-3/8; -2/8; -1/8; 0; 0; 1/8; 2/8; 3/8; 4/8; 5/8; 6/8; 7/8; 1; 1; 9/8; 10/8].
Proof.
  cbn [rp_basis b_knots]. unfold rp_map, rp_al, aff, b_start, b_end, exs_knots, kn. cbn [b_knots b_order length Nat.sub nth map].
  repeat (apply f_equal2; [field; lra|]). reflexivity.
Qed.

Lemma exs_grid v : In v (pvals (b_knots (rp_basis (mkBasis 4 exs_knots 3) 0 1)) 3 9 1) -> exists z : Z, v = IZR z * (1/16).
Proof.
  rewrite exs_l. revert v. apply (grid_pvals (1/16) 16); try lra.
  intros v Hv; cbn [pwin skipn firstn] in Hv; in_cases Hv; grid16.
Qed.

Theorem exs_hyps2 : identical_per_hyps2 exp_tol exs_curve ex_curve 0 9 8 8 8.
Proof.
  constructor; cbn [ex_curve exs_curve o_bases nth length b_order b_per1].
  - unfold exp_tol; lra.
  - unfold exp_tol; lra.
  - exact exs_wf.
  - exact ex_wf.
  - lia.
  - lia.
  - reflexivity.
  - reflexivity.
  - exact exs_canon.
  - exact ex_canon.
  - unfold per_strict, kn, exs_knots. cbn. lra.
  - unfold per_strict, kn, ex_knots. cbn. lra.
  - apply (separated_grid exp_tol (1/16)); [lra|unfold exp_tol; lra|].
    intros v Hv. apply in_app_or in Hv. destruct Hv as [Hv|Hv]; [apply exs_grid, Hv|apply exb_grid_per, Hv].
Qed.

(* the seam multiplicities do differ: the hypothesis ip_seam of the old theorem fails on this pair *)
Lemma exs_seam_differs : mult (b_knots (rp_basis (mkBasis 4 exs_knots 3) 0 1)) 0 = 2%nat /\
                         mult (b_knots (rp_basis (mkBasis 4 ex_knots 3) 0 1)) 0 = 1%nat.
Proof.
  rewrite exs_l, exp_l1. unfold mult.
  split; repeat first [rewrite count_occ_cons_eq by lra | rewrite count_occ_cons_neq by lra]; reflexivity.
Qed.

Corollary exs_ok : exists a b, @identical_dir2 R NumR exp_tol exs_curve ex_curve 0 = Ok (a, b) /\
  b_knots (nth 0 (o_bases a) dflt_basis) = b_knots (nth 0 (o_bases b) dflt_basis).
Proof.
  destruct (identical_dir2_seam_ok _ _ _ _ _ _ _ _ exs_hyps2) as (a & b & E & F). exists a, b. split; [exact E|].
  unfold per_facts in F. cbv zeta in F. tauto.
Qed.


(* ================================================================================================ *)
(* Part D: executed on Q.  The cubic C^2-periodic curve with knots -3..11; [a] = the curve after the model's own
   insert_knot(0) (seam knot double, 9 functions); [b] = another curve on the same basis. *)
Section OnQ.
Open Scope Q_scope.
Definition q_knots : list Q := [-3; -2; -1; 0; 1; 2; 3; 4; 5; 6; 7; 8; 9; 10; 11].
Definition q_c1 : obj Q := mkObj [mkBasis 4 q_knots 3] [[1;0]; [1;1]; [0;1]; [-1;1]; [-1;0]; [-1;-1]; [0;-1]; [1;-1]] 2 false.
Definition q_c2 : obj Q := mkObj [mkBasis 4 q_knots 3] [[2;0]; [1;3]; [0;1]; [-1;2]; [-2;0]; [-1;-1]; [0;-3]; [1;-1]] 2 false.
Definition q_dB : basis Q := mkBasis 0 [] 0.
Definition q_kn (o : obj Q) : list Q := map Qred (b_knots (nth 0 (o_bases o) q_dB)).
Definition q_tol : Q := 1 # 10000000000.

(* the OLD model: the seam knot is inserted at 0 and again at 1 (wrapped onto 0): 18 knots against 17 *)
Example old_identical_seam_defect :
  exists a a' b', @obj_insert_knots Q NumQ q_c1 0 [0] = Ok a /\
    q_kn a = [-3; -2; -1; 0; 0; 1; 2; 3; 4; 5; 6; 7; 8; 8; 9; 10] /\
    @identical_dir Q NumQ q_tol a q_c2 0 = Ok (a', b') /\
    q_kn a' = [-3#8; -1#4; -1#8; 0; 0; 0; 0; 1#8; 1#4; 3#8; 1#2; 5#8; 3#4; 7#8; 1; 1; 1; 1] /\
    q_kn b' = [-3#8; -1#4; -1#8; 0; 0; 0; 1#8; 1#4; 3#8; 1#2; 5#8; 3#4; 7#8; 1; 1; 1; 9#8] /\
    length (q_kn a') = 18%nat /\ length (q_kn b') = 17%nat.
Proof.
  eexists. eexists. eexists. split; [vm_compute; reflexivity|]. split; [vm_compute; reflexivity|].
  split; [vm_compute; reflexivity|]. vm_compute. repeat split; reflexivity.
Qed.

(* the REPAIRED model on the same input: the same 16 knots in both results, seam knot double in both *)
Example repaired_identical_seam :
  exists a a' b', @obj_insert_knots Q NumQ q_c1 0 [0] = Ok a /\
    @identical_dir2 Q NumQ q_tol a q_c2 0 = Ok (a', b') /\
    q_kn a' = q_kn b' /\
    q_kn a' = [-3#8; -1#4; -1#8; 0; 0; 1#8; 1#4; 3#8; 1#2; 5#8; 3#4; 7#8; 1; 1; 9#8; 5#4] /\
    length (o_cps a') = 9%nat /\ length (o_cps b') = 9%nat.
Proof.
  eexists. eexists. eexists. split; [vm_compute; reflexivity|]. split; [vm_compute; reflexivity|].
  vm_compute. repeat split; reflexivity.
Qed.

(* ... and through obj_make_identical2 with direction = None *)
Example repaired_make_identical_seam :
  match @obj_insert_knots Q NumQ q_c1 0 [0] with
  | Ok a => match @obj_make_identical2 Q NumQ q_tol a q_c2 None with
            | Ok (a', b') => q_kn a' = q_kn b' /\ length (q_kn a') = 16%nat
            | Err _ => False
            end
  | Err _ => False
  end.
Proof. vm_compute. split; reflexivity. Qed.
End OnQ.


(* ================================================================================================ *)
Print Assumptions identical_dir2_eq_open.
Print Assumptions make_identical2_eq_nonperiodic.
Print Assumptions identical_dir2_knots.
Print Assumptions identical_dir2_eval.
Print Assumptions make_identical2_eval.
Print Assumptions identical_dir2_open_per_ok.
Print Assumptions identical_dir2_eq_per.
Print Assumptions identical_dir2_per_knots.
Print Assumptions identical_dir2_per_eval.
Print Assumptions make_identical2_per_eval.
Print Assumptions identical_dir2_eq_lower2.
Print Assumptions identical_dir2_lower1_ok.
Print Assumptions identical_dir2_seam_ok.
Print Assumptions identical_dir2_seam.
Print Assumptions make_identical2_seam_ok.
Print Assumptions exs_hyps2.
Print Assumptions exs_ok.
Print Assumptions old_identical_seam_defect.
Print Assumptions repaired_identical_seam.
