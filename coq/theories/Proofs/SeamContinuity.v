(* C08, seam smoothness at spec level (knot FUNCTIONS k : nat -> R).

   Setting: degree q, n >= 1 periodic functions, the knots are exact periodic images
   k (i + n) = k i + T, the coefficients are periodic c (i + n) = c i, the seam knot
   start = k q (= k (cont+1) = ... = k q, multiplicity q - cont) and end = k (q + n) = start + T.

     S side r t N = sum_{i < N} c i * dB side k r q i t       (r-th derivative, one-sided)

   Main results
     B_continuous_at_multiple_knot / dB_continuous_at_multiple_knot
                          continuity of B (resp. of the r-th derivative recurrence) at a knot of
                          multiplicity mu <= q (resp. mu + r <= q): generalises
                          Spec/Continuity.v: B_continuous_at_knot, which needs a SIMPLE knot
     seam_derivatives     r <= cont ->  S true r start N = S false r end N     (any N >= n + cont + 1)
     seam_value           the case r = 0 written with B
     wrap_value           sum_{a+n <= i < a+n+N} c i * dB_i (t + T) = sum_{a <= i < a+N} c i * dB_i t
     wrap_value_domain    for t in the domain the periodic extension has the same value at t and t + T
     seam_derivatives_list / seam_value_list
                          the same for a knot function that is periodic only on the index range of
                          a finite knot list (e.g. [kn k'], constant after the last knot), with the
                          model's exact summation range n_all = n + cont + 1 = length k' - p.
     seam_uniform         non-vacuity: uniform knots k i = i, period n, continuity q - 1.
   Instantiated on the output of basis_make_periodic in Proofs/MakePeriodicKnots.v (mp_seam_smooth, mp_seam_rows). *)
From Coq Require Import List Arith Reals Lra Lia Bool ZArith.
From SplipyModel Require Import Spec.BSpline Spec.Deriv Spec.Continuity.
Import ListNotations.
Open Scope R_scope.

(* ---------- small tools ---------- *)
Lemma sumf_reidx f a n : sumf f a n = sumf (fun j => f (j + a)%nat) 0 n.
Proof.
  revert a; induction n as [|n IH]; intros a; cbn [sumf]; [reflexivity|].
  cbn [Nat.add]. f_equal. rewrite (IH (S a)).
  rewrite <- (sumf_shift (fun j => f (j + a)%nat) 0 n).
  apply sumf_ext. intros i _. f_equal. lia.
Qed.

(* a sum whose terms vanish outside the window [a, a+len) *)
Lemma sumf_window f a len b N : (b <= a)%nat -> (a + len <= b + N)%nat ->
  (forall i, (b <= i < a)%nat -> f i = 0) -> (forall i, (a + len <= i < b + N)%nat -> f i = 0) ->
  sumf f b N = sumf f a len.
Proof.
  intros H1 H2 Z1 Z2.
  replace N with ((a - b) + (len + (b + N - a - len)))%nat by lia.
  rewrite !sumf_app.
  rewrite (sumf_zero f b (a - b)) by (intros i Hi; apply Z1; lia).
  replace (b + (a - b))%nat with a by lia.
  rewrite (sumf_zero f (a + len)) by (intros i Hi; apply Z2; lia).
  ring.
Qed.

(* ---------- locality: B_i only reads the knots i .. i+q+1 ---------- *)
Lemma B_ext side k k' q : forall i t, (forall j, (i <= j <= i + q + 1)%nat -> k j = k' j) ->
  B side k q i t = B side k' q i t.
Proof.
  induction q as [|q IH]; intros i t H; cbn [B].
  - rewrite (H i), (H (S i)) by lia. reflexivity.
  - rewrite (H i), (H (i+q+1)%nat), (H (i+1)%nat), (H (i+q+2)%nat) by lia.
    rewrite (IH i), (IH (i+1)%nat); [reflexivity| |]; intros j Hj; apply H; lia.
Qed.
Lemma dB_ext side k k' r : forall q i t, (forall j, (i <= j <= i + q + 1)%nat -> k j = k' j) ->
  dB side k r q i t = dB side k' r q i t.
Proof.
  induction r as [|r IH]; intros q i t H; cbn [dB].
  - apply B_ext; exact H.
  - destruct q as [|q]; [reflexivity|].
    rewrite (H i), (H (i + S q)%nat), (H (i+1)%nat), (H (i + S q + 1)%nat) by lia.
    rewrite (IH q i), (IH q (i+1)%nat); [reflexivity| |]; intros j Hj; apply H; lia.
Qed.

(* ---------- translation invariance on an index range ---------- *)
Lemma w_translate T a b t : w (a + T) (b + T) (t + T) = w a b t.
Proof.
  unfold w. destruct (Rltb_spec a b), (Rltb_spec (a+T) (b+T)); try lra.
  replace (t + T - (a + T)) with (t - a) by ring. replace (b + T - (a + T)) with (b - a) by ring. reflexivity.
Qed.
Lemma B0_translate side T a b t : B0 side (a + T) (b + T) (t + T) = B0 side a b t.
Proof.
  unfold B0. destruct side.
  - destruct (Rleb_spec a t), (Rltb_spec t b), (Rleb_spec (a+T) (t+T)), (Rltb_spec (t+T) (b+T)); cbn; try reflexivity; lra.
  - destruct (Rltb_spec a t), (Rleb_spec t b), (Rltb_spec (a+T) (t+T)), (Rleb_spec (t+T) (b+T)); cbn; try reflexivity; lra.
Qed.
Lemma dqR_translate T a b x : dqR (a + T) (b + T) x = dqR a b x.
Proof.
  unfold dqR. destruct (Rltb_spec a b), (Rltb_spec (a+T) (b+T)); try lra.
  replace (b + T - (a + T)) with (b - a) by ring. reflexivity.
Qed.

Lemma B_translate side k n T q : forall i t,
  (forall j, (i <= j <= i + q + 1)%nat -> k (j + n)%nat = k j + T) ->
  B side k q (i + n) (t + T) = B side k q i t.
Proof.
  induction q as [|q IH]; intros i t H; cbn [B].
  - replace (S (i + n)) with (S i + n)%nat by lia. rewrite !H by lia. apply B0_translate.
  - replace (i + n + q + 1)%nat with ((i + q + 1) + n)%nat by lia.
    replace (i + n + 1)%nat with ((i + 1) + n)%nat by lia.
    replace (i + n + q + 2)%nat with ((i + q + 2) + n)%nat by lia.
    rewrite !H by lia. rewrite !w_translate.
    rewrite (IH i), (IH (i+1)%nat); [reflexivity| |]; intros j Hj; apply H; lia.
Qed.
Lemma dB_translate side k n T r : forall q i t,
  (forall j, (i <= j <= i + q + 1)%nat -> k (j + n)%nat = k j + T) ->
  dB side k r q (i + n) (t + T) = dB side k r q i t.
Proof.
  induction r as [|r IH]; intros q i t H; cbn [dB].
  - apply B_translate; exact H.
  - destruct q as [|q]; [reflexivity|].
    replace (i + n + S q + 1)%nat with ((i + S q + 1) + n)%nat by lia.
    replace (i + n + S q)%nat with ((i + S q) + n)%nat by lia.
    replace (i + n + 1)%nat with ((i + 1) + n)%nat by lia.
    rewrite !H by lia. rewrite !dqR_translate.
    rewrite (IH q i), (IH q (i+1)%nat); [reflexivity| |]; intros j Hj; apply H; lia.
Qed.

(* ---------- continuity at a knot of multiplicity mu ---------- *)
Section MultKnot.
Variable k : nat -> R.
Hypothesis Hk : sorted k.
Variables a mu : nat.       (* k a < k (a+1) = ... = k (a+mu) < k (a+mu+1) *)
Hypothesis Hmu : (1 <= mu)%nat.
Hypothesis Hl : k a < k (S a).
Hypothesis He : k (S a) = k (a + mu)%nat.
Hypothesis Hr : k (a + mu)%nat < k (S (a + mu)).
Let x := k (S a).

Lemma mult_eq j : (S a <= j <= a + mu)%nat -> k j = x.
Proof.
  intros Hj. pose proof (Hk (S a) j ltac:(lia)). pose proof (Hk j (a + mu)%nat ltac:(lia)). unfold x. lra.
Qed.

Lemma repb_false m q : (S a <= S m <= a + mu)%nat -> (m + 1 - q <= a)%nat -> repb k m q = false.
Proof.
  intros Hm Hq. destruct (repb k m q) eqn:E; [|reflexivity]. exfalso.
  pose proof (repb_spec k m q E a ltac:(lia)) as Ha.
  rewrite (mult_eq (S m) ltac:(lia)) in Ha. unfold x in Ha. lra.
Qed.

Lemma P_chain q i : (mu <= q)%nat -> (q <= a)%nat -> forall j, (j < mu)%nat ->
  P k (S (a + j)) q i x = P k a q i x.
Proof.
  intros Hq Hqa. induction j as [|j IH]; intros Hj.
  - replace (a + 0)%nat with a by lia. unfold x.
    apply (pieces_agree k Hk a q Hqa). apply repb_false; lia.
  - rewrite <- IH by lia.
    replace (a + S j)%nat with (S (a + j)) by lia.
    replace x with (k (S (S (a + j)))) by (apply mult_eq; lia).
    apply (pieces_agree k Hk (S (a + j)) q ltac:(lia)). apply repb_false; lia.
Qed.

(* value continuity at a knot of multiplicity mu <= q *)
Theorem B_continuous_at_multiple_knot q i : (mu <= q)%nat -> (q <= a)%nat ->
  B true k q i x = B false k q i x.
Proof.
  intros Hq Hqa.
  assert (Ex : k (a + mu)%nat = x) by (apply mult_eq; lia).
  rewrite (B_is_P true k Hk (a + mu) x) by (unfold in_span; lra).
  rewrite (B_is_P false k Hk a x) by (unfold in_span, x; lra).
  replace (a + mu)%nat with (S (a + (mu - 1))) by lia.
  apply P_chain; lia.
Qed.

(* the r-th derivative recurrence is continuous at a knot of multiplicity mu <= q - r *)
Theorem dB_continuous_at_multiple_knot r : forall q i, (mu + r <= q)%nat -> (q <= a)%nat ->
  dB true k r q i x = dB false k r q i x.
Proof.
  induction r as [|r IH]; intros q i Hq Hqa; cbn [dB].
  - apply B_continuous_at_multiple_knot; lia.
  - destruct q as [|q]; [reflexivity|].
    rewrite (IH q i), (IH q (i+1)%nat) by lia. reflexivity.
Qed.
End MultKnot.

(* ---------- the seam of a periodic spline ---------- *)
(* one-sided domain conditions: evaluation from the right needs start <= t < end, from the left start < t <= end *)
Definition before_end (side : bool) (t e : R) : Prop := if side then t < e else t <= e.
Definition after_start (side : bool) (s t : R) : Prop := if side then s <= t else s < t.

Section Periodic.
Variable k : nat -> R.
Variables q n : nat.
Variable T : R.
Hypothesis Hper : forall i, k (i + n)%nat = k i + T.          (* ghost knots = exact periodic images *)
Variable c : nat -> R.
Hypothesis Hc : forall i, c (i + n)%nat = c i.                (* periodic coefficients *)

Definition Sd (side : bool) (r : nat) (t : R) (N : nat) : R := sumf (fun i => c i * dB side k r q i t) 0 N.
Definition Sv (side : bool) (t : R) (N : nat) : R := sumf (fun i => c i * B side k q i t) 0 N.

(* translation by one period, term by term and for any block of indices *)
Lemma wrap_term side r i t : c (i + n)%nat * dB side k r q (i + n) (t + T) = c i * dB side k r q i t.
Proof. rewrite Hc. f_equal. apply dB_translate. intros j _. apply Hper. Qed.

Theorem wrap_value side r a N t :
  sumf (fun i => c i * dB side k r q i (t + T)) (a + n) N = sumf (fun i => c i * dB side k r q i t) a N.
Proof.
  rewrite (sumf_reidx _ (a + n) N), (sumf_reidx _ a N). apply sumf_ext. intros i _.
  replace (i + (a + n))%nat with ((i + a) + n)%nat by lia. apply wrap_term.
Qed.

(* the periodic extension (all functions up to index n + N) at t + T equals the sum of the first N at t,
   for every t of the domain (from the right: start <= t, from the left: start < t) *)
Hypothesis Hk : sorted k.
Theorem wrap_value_domain side r N t : after_start side (k q) t ->
  Sd side r (t + T) (n + N) = Sd side r t N.
Proof.
  intros Ht. unfold Sd. rewrite sumf_app.
  rewrite sumf_zero.
  - rewrite Rplus_0_l. apply (wrap_value side r 0 N t).
  - intros i Hi. rewrite (dB_support side k Hk r q i (t + T)); [ring|].
    pose proof (Hk (i + q + 1)%nat (q + n)%nat ltac:(lia)) as H1. rewrite Hper in H1.
    unfold outside, after_start in *. destruct side; right; lra.
Qed.
End Periodic.

Section Seam.
Variable k : nat -> R.
Hypothesis Hk : sorted k.
Variables q n cont : nat.
Variable T : R.
Hypothesis Hn : (1 <= n)%nat.
Hypothesis Hcq : (cont < q)%nat.
Hypothesis Hper : forall i, k (i + n)%nat = k i + T.          (* ghost knots = exact periodic images *)
Variable c : nat -> R.
Hypothesis Hc : forall i, c (i + n)%nat = c i.                (* periodic coefficients *)
(* the seam knot k q has multiplicity q - cont: k cont < k (cont+1) = ... = k q < k (q+1) *)
Hypothesis Hs1 : k cont < k (S cont).
Hypothesis Hs2 : k (S cont) = k q.
Hypothesis Hs3 : k q < k (S q).

Local Notation Sd := (Sd k q c).
Local Notation Sv := (Sv k q c).

Let start := k q.
Let end_ := k (q + n)%nat.

Lemma period_pos : 0 < T.
Proof.
  pose proof (Hper q). pose proof (Hk (S q) (q + n)%nat ltac:(lia)). lra.
Qed.
Lemma end_start : end_ = start + T.
Proof. unfold end_, start. apply Hper. Qed.
Lemma seam_nfun : (q <= n + cont)%nat.
Proof.
  destruct (Nat.le_gt_cases q (n + cont)) as [L|L]; [exact L|exfalso].
  pose proof (Hk (S cont + n)%nat q ltac:(lia)) as H1. rewrite Hper in H1.
  pose proof period_pos. lra.
Qed.

(* the seam knot seen at the end of the domain: index a = n + cont, multiplicity q - cont *)
Lemma end_l : k (n + cont)%nat < k (S (n + cont)).
Proof.
  replace (n + cont)%nat with (cont + n)%nat by lia. replace (S (cont + n)) with (S cont + n)%nat by lia.
  rewrite !Hper. lra.
Qed.
Lemma end_e : k (S (n + cont)) = k (n + cont + (q - cont))%nat.
Proof.
  replace (S (n + cont)) with (S cont + n)%nat by lia. replace (n + cont + (q - cont))%nat with (q + n)%nat by lia.
  rewrite !Hper. lra.
Qed.
Lemma end_r : k (n + cont + (q - cont))%nat < k (S (n + cont + (q - cont))).
Proof.
  replace (n + cont + (q - cont))%nat with (q + n)%nat by lia. replace (S (q + n)) with (S q + n)%nat by lia.
  rewrite !Hper. lra.
Qed.
Lemma end_x : k (S (n + cont)) = end_.
Proof. rewrite end_e. unfold end_. f_equal. lia. Qed.

Lemma end_continuous r i : (r <= cont)%nat -> dB true k r q i end_ = dB false k r q i end_.
Proof.
  intros Hr. rewrite <- end_x.
  apply (dB_continuous_at_multiple_knot k Hk (n + cont) (q - cont) ltac:(lia) end_l end_e end_r r q i ltac:(lia)).
  apply seam_nfun.
Qed.

(* g r i : the i-th term at the end of the domain *)
Let g (r i : nat) : R := c i * dB false k r q i end_.

Lemma start_term r i : (r <= cont)%nat -> c i * dB true k r q i start = g r (i + n).
Proof.
  intros Hr. unfold g. rewrite Hc. f_equal.
  rewrite <- end_continuous by exact Hr. rewrite end_start.
  symmetry. apply dB_translate. intros j _. apply Hper.
Qed.
Lemma g_low r i : (r <= cont)%nat -> (i < n)%nat -> g r i = 0.
Proof.
  intros Hr Hi. unfold g. rewrite <- end_continuous by exact Hr.
  rewrite (dB_support true k Hk r q i end_); [ring|].
  unfold outside. right. unfold end_. apply Hk. lia.
Qed.
Lemma g_high r i : (n + cont + 1 <= i)%nat -> g r i = 0.
Proof.
  intros Hi. unfold g.
  rewrite (dB_support false k Hk r q i end_); [ring|].
  unfold outside. left. rewrite <- end_x. apply Hk. lia.
Qed.

(* C08: derivatives up to the periodic continuity agree across the seam *)
Theorem seam_derivatives r N : (r <= cont)%nat -> (n + cont + 1 <= N)%nat ->
  Sd true r start N = Sd false r end_ N.
Proof.
  intros Hr HN. unfold Sd.
  transitivity (sumf (g r) n N).
  - rewrite (sumf_reidx (g r) n N). apply sumf_ext. intros i _. apply start_term; exact Hr.
  - transitivity (sumf (g r) n (cont + 1)).
    + apply sumf_window; [lia|lia|intros i Hi; lia|intros i Hi; apply g_high; lia].
    + symmetry. change (sumf (fun i => c i * dB false k r q i end_) 0 N) with (sumf (g r) 0 N).
      apply sumf_window; [lia|lia|intros i Hi; apply g_low; [exact Hr|lia]|intros i Hi; apply g_high; lia].
Qed.

(* C08: the value from the right at the start equals the value from the left at the end *)
Theorem seam_value N : (n + cont + 1 <= N)%nat -> Sv true start N = Sv false end_ N.
Proof. intros HN. change (Sd true 0 start N = Sd false 0 end_ N). apply seam_derivatives; [lia|exact HN]. Qed.

(* the functions beyond the model's range n + cont + 1 do not contribute on the domain *)
Lemma Sd_range side r t N : (n + cont + 1 <= N)%nat -> before_end side t end_ ->
  Sd side r t N = Sd side r t (n + cont + 1).
Proof.
  intros HN Ht. unfold Sd. apply sumf_window; [lia|lia|intros i Hi; lia|intros i Hi].
  rewrite (dB_support side k Hk r q i t); [ring|].
  pose proof (Hk (S (n + cont)) i ltac:(lia)) as H1. rewrite end_x in H1.
  unfold outside, before_end in *. destruct side; left; lra.
Qed.

End Seam.

(* ---------- knot functions that are periodic only on the index range of a finite list ---------- *)
Section Ext.
Variable K : nat -> R.
Hypothesis HK : sorted K.
Variable n : nat.
Variable T : R.
Hypothesis Hn : (1 <= n)%nat.

Definition kext (j : nat) : R := K (j mod n) + INR (j / n) * T.

Lemma kext_per j : kext (j + n) = kext j + T.
Proof.
  unfold kext. replace (j + n)%nat with (j + 1 * n)%nat by lia.
  rewrite Nat.mod_add, Nat.div_add by lia. rewrite plus_INR. cbn [INR]. ring.
Qed.

Variable Lmax : nat.                     (* Lmax = last index on which periodicity is known *)
Hypothesis Hper : forall i, (i + n <= Lmax)%nat -> K (i + n)%nat = K i + T.
Hypothesis HL : (n <= Lmax)%nat.
Lemma kext_agree : forall j, (j <= Lmax)%nat -> kext j = K j.
Proof.
  intros j. induction j as [j IH] using lt_wf_ind. intros Hj.
  destruct (Nat.lt_ge_cases j n) as [L|L].
  - unfold kext. rewrite Nat.mod_small, Nat.div_small by exact L. cbn [INR]. ring.
  - replace j with ((j - n) + n)%nat at 1 by lia. rewrite kext_per. rewrite IH by lia.
    rewrite <- Hper by lia. f_equal. lia.
Qed.
Lemma kext_step j : kext j <= kext (S j).
Proof.
  unfold kext. pose proof (Nat.div_mod j n ltac:(lia)) as E.
  pose proof (Nat.mod_upper_bound j n ltac:(lia)) as B.
  set (d := (j / n)%nat) in *. set (r := (j mod n)%nat) in *.
  destruct (Nat.eq_dec (S r) n) as [Z|Z].
  - assert (E2 : S j = (n * (S d) + 0)%nat) by lia.
    rewrite <- (Nat.mod_unique (S j) n (S d) 0 ltac:(lia) E2).
    rewrite <- (Nat.div_unique (S j) n (S d) 0 ltac:(lia) E2).
    rewrite S_INR. pose proof (Hper 0%nat ltac:(lia)) as H0. cbn [Nat.add] in H0.
    pose proof (HK r n ltac:(lia)). lra.
  - assert (E2 : S j = (n * d + S r)%nat) by lia.
    rewrite <- (Nat.mod_unique (S j) n d (S r) ltac:(lia) E2).
    rewrite <- (Nat.div_unique (S j) n d (S r) ltac:(lia) E2).
    pose proof (HK r (S r) ltac:(lia)). lra.
Qed.
Lemma kext_sorted : sorted kext.
Proof.
  intros i j Hij. induction Hij as [|j Hij IH]; [lra|]. pose proof (kext_step j). lra.
Qed.
End Ext.

Section SeamList.
Variable K : nat -> R.                    (* e.g. kn k' for the knot list k' of a periodic basis *)
Hypothesis HK : sorted K.
Variables q n cont : nat.
Variable T : R.
Hypothesis Hn : (1 <= n)%nat.
Hypothesis Hcq : (cont < q)%nat.
(* periodicity only where both indices are inside a list of length n + cont + 1 + q + 1 *)
Hypothesis Hper : forall i, (i + n <= n + cont + q + 1)%nat -> K (i + n)%nat = K i + T.
Variable c : nat -> R.
Hypothesis Hc : forall i, c (i + n)%nat = c i.
Hypothesis Hs1 : K cont < K (S cont).
Hypothesis Hs2 : K (S cont) = K q.
Hypothesis Hs3 : K q < K (S q).

Let Lmax := (n + cont + q + 1)%nat.
Let ke := kext K n T.

Lemma ke_agree j : (j <= Lmax)%nat -> ke j = K j.
Proof. apply (kext_agree K n T Hn Lmax Hper). unfold Lmax. lia. Qed.

(* the model's summation range: all n_all = n + cont + 1 functions of the list *)
Theorem seam_derivatives_list r : (r <= cont)%nat ->
  sumf (fun i => c i * dB true K r q i (K q)) 0 (n + cont + 1)
  = sumf (fun i => c i * dB false K r q i (K (q + n)%nat)) 0 (n + cont + 1).
Proof.
  intros Hr.
  assert (Hsorted : sorted ke) by (apply (kext_sorted K HK n T Hn Lmax Hper); unfold Lmax; lia).
  pose proof (seam_derivatives ke Hsorted q n cont T Hn Hcq (kext_per K n T Hn) c Hc) as M.
  rewrite !ke_agree in M by (unfold Lmax; lia).
  specialize (M Hs1 Hs2 Hs3 r (n + cont + 1)%nat Hr (le_n _)).
  unfold Sd in M.
  etransitivity; [|etransitivity; [exact M|]].
  - apply sumf_ext. intros i Hi. f_equal. apply dB_ext. intros j Hj. symmetry. apply ke_agree. unfold Lmax. lia.
  - apply sumf_ext. intros i Hi. f_equal. apply dB_ext. intros j Hj. apply ke_agree. unfold Lmax. lia.
Qed.

Theorem seam_value_list :
  sumf (fun i => c i * B true K q i (K q)) 0 (n + cont + 1)
  = sumf (fun i => c i * B false K q i (K (q + n)%nat)) 0 (n + cont + 1).
Proof. apply (seam_derivatives_list 0). lia. Qed.
End SeamList.

(* non-vacuity: uniform knots k i = i, any degree q >= 1, n >= 1 functions, period n, maximal continuity q - 1 *)
Example seam_uniform (q n : nat) (c : nat -> R) r : (1 <= q)%nat -> (1 <= n)%nat ->
  (forall i, c (i + n)%nat = c i) -> (r <= q - 1)%nat ->
  Sd INR q c true r (INR q) (n + q) = Sd INR q c false r (INR (q + n)) (n + q).
Proof.
  intros Hq Hn Hc Hr.
  apply (seam_derivatives INR ltac:(intros i j H; apply le_INR; exact H) q n (q - 1) (INR n) Hn ltac:(lia)
           ltac:(intros i; apply plus_INR) c Hc).
  - apply lt_INR. lia.
  - f_equal. lia.
  - apply lt_INR. lia.
  - exact Hr.
  - lia.
Qed.

