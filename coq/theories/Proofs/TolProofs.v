(* C20 (tolerance half): evaluation treats a parameter within the tolerance of a knot as that knot;
   continuity() counts exactly the knots in the tolerance window; VertexDict's coordinate window. *)
From Coq Require Import List Arith Reals Lra Lia Bool ZArith.
From SplipyModel Require Import Spec.BSpline Model.Num Model.BasisDef Model.BasisEval Model.Obj Model.KnotInsert Model.Tol
  Proofs.KnotList Proofs.SpanCorrect Proofs.EvaluateSpec Proofs.SnapSpec Proofs.ObjEval.
Import ListNotations.
Open Scope R_scope.

(* evaluation (values and derivatives, both sides) at t is evaluation at snap(t) *)
Theorem evaluate_tolerant (k : list R) p per1 tol d fr t : sorted (@kn R NumR k) -> 0 < tol ->
  @basis_evaluate R NumR k p per1 tol d fr [t] = @basis_evaluate R NumR k p per1 tol d fr [@snap1 R NumR k tol t].
Proof.
  intros HK Htol. unfold basis_evaluate. cbv zeta. cbn [map]. rewrite snap1_idem by assumption. reflexivity.
Qed.

(* rounding fuzz just beyond the end of an open non-periodic domain does not raise: the parameter is the end knot *)
Theorem fuzz_beyond_end_ok (tol : R) (b : basis R) t :
  sorted (@kn R NumR (b_knots b)) -> 0 < tol -> b_knots b <> [] ->
  last (b_knots b) 0 = @b_end R NumR b ->
  @b_end R NumR b < t -> Rabs (@b_end R NumR b - t) < tol ->
  @snap1 R NumR (b_knots b) tol t = @b_end R NumR b.
Proof.
  intros HK Htol Hne Hlast Hgt Hnear.
  unfold snap1. cbv zeta.
  destruct (bisect_left_spec (@kn R NumR (b_knots b)) HK t (length (b_knots b))) as (A & Bm & Cm). cbv zeta in *.
  set (i := @bisect_left R NumR (@kn R NumR (b_knots b)) t (length (b_knots b))) in *.
  assert (Hlen : (0 < length (b_knots b))%nat) by (destruct (b_knots b); [congruence|cbn; lia]).
  assert (Hall : forall j, (j < length (b_knots b))%nat -> @kn R NumR (b_knots b) j <= @b_end R NumR b).
  { intros j Hj. rewrite <- Hlast.
    replace (last (b_knots b) 0) with (@kn R NumR (b_knots b) (length (b_knots b) - 1)).
    - apply HK. lia.
    - unfold kn. rewrite (nth_indep _ _ 0) by lia. apply nth_last_len. exact Hne. }
  assert (Ei : i = length (b_knots b)).
  { destruct (Nat.eq_dec i (length (b_knots b))) as [E|N]; [exact E|].
    pose proof (Cm i ltac:(lia)). pose proof (Hall i ltac:(lia)). lra. }
  rewrite Ei. rewrite Nat.ltb_irrefl. cbn [andb].
  destruct (Nat.ltb_spec 0 (length (b_knots b))) as [L|L]; [|lia]. cbn [andb].
  rewrite nabs_R. cbn [nltb nsub NumR].
  assert (El : @kn R NumR (b_knots b) (length (b_knots b) - 1) = @b_end R NumR b).
  { rewrite <- Hlast. unfold kn. rewrite (nth_indep _ _ 0) by lia. apply nth_last_len. exact Hne. }
  rewrite El. destruct (Rltb_spec (Rabs (@b_end R NumR b - t)) tol); [reflexivity|lra].
Qed.

(* continuity(): the knots counted are exactly those in the half-open window [x - tol, x + tol) *)
Theorem continuity_window (k : list R) (x tol : R) : sorted (@kn R NumR k) -> 0 < tol ->
  let hi := @py_bisect_left R NumR k (x + tol) in
  let lo := @py_bisect_left R NumR k (x - tol) in
  (lo <= hi <= length k)%nat /\
  forall j, (j < length k)%nat -> ((lo <= j < hi)%nat <-> x - tol <= @kn R NumR k j < x + tol).
Proof.
  intros HK Htol. cbv zeta. unfold py_bisect_left.
  destruct (bisect_left_spec (@kn R NumR k) HK (x + tol) (length k)) as (A1 & B1 & C1).
  destruct (bisect_left_spec (@kn R NumR k) HK (x - tol) (length k)) as (A2 & B2 & C2). cbv zeta in *.
  set (hi := @bisect_left R NumR (@kn R NumR k) (x + tol) (length k)) in *.
  set (lo := @bisect_left R NumR (@kn R NumR k) (x - tol) (length k)) in *.
  assert (Hlh : (lo <= hi)%nat).
  { destruct (Nat.le_gt_cases lo hi); [assumption|]. pose proof (B2 hi ltac:(lia)). pose proof (C1 hi ltac:(lia)). lra. }
  split; [lia|]. intros j Hj. split.
  - intros [L1 L2]. split; [apply C2; lia|apply B1; lia].
  - intros [L1 L2]. split.
    + destruct (Nat.le_gt_cases lo j); [assumption|]. pose proof (B2 j ltac:(lia)). lra.
    + destruct (Nat.lt_ge_cases j hi); [assumption|]. pose proof (C1 j ltac:(lia)). lra.
Qed.

(* VertexDict: in the main region (key >= atol, 0 <= rtol < 1, stored value v) the window test is the
   tolerance test  key - v <= atol + rtol*v  and  v - key < atol + rtol*v ... written without division *)
Theorem vertexdict_window (rtol atol key v : R) : 0 <= rtol < 1 -> 0 <= atol -> atol <= key ->
  @vd_coord_match R NumR rtol atol key v = true <->
  (key - atol <= v * (1 + rtol) /\ v * (1 - rtol) < key + atol).
Proof.
  intros Hr Ha Hk. unfold vd_coord_match, vd_bounds. cbv zeta. cbn [nleb nltb nadd nsub ndiv n1 NumR].
  destruct (Rleb_spec atol key) as [A|A]; [|lra]. cbn [fst snd].
  rewrite andb_true_iff.
  assert (P1 : 0 < 1 + rtol) by lra. assert (P2 : 0 < 1 - rtol) by lra.
  split.
  - intros [H1 H2].
    destruct (Rleb_spec ((key - atol) / (1 + rtol)) v) as [B|B]; [|discriminate].
    destruct (Rltb_spec v ((key + atol) / (1 - rtol))) as [C|C]; [|discriminate].
    split.
    + apply (Rmult_le_compat_r (1 + rtol)) in B; [|lra]. unfold Rdiv in B. rewrite Rmult_assoc, Rinv_l, Rmult_1_r in B by lra. exact B.
    + apply (Rmult_lt_compat_r (1 - rtol)) in C; [|lra]. unfold Rdiv in C. rewrite Rmult_assoc, Rinv_l, Rmult_1_r in C by lra. exact C.
  - intros [H1 H2]. split.
    + destruct (Rleb_spec ((key - atol) / (1 + rtol)) v) as [B|B]; [reflexivity|]. exfalso. apply B.
      apply (Rmult_le_reg_r (1 + rtol)); [lra|]. unfold Rdiv. rewrite Rmult_assoc, Rinv_l, Rmult_1_r by lra. exact H1.
    + destruct (Rltb_spec v ((key + atol) / (1 - rtol))) as [C|C]; [reflexivity|]. exfalso. apply C.
      apply (Rmult_lt_reg_r (1 - rtol)); [lra|]. unfold Rdiv. rewrite Rmult_assoc, Rinv_l, Rmult_1_r by lra. exact H2.
Qed.

(* consequences with rtol = 0 (the default): closer than atol (from below: at most atol) is the same vertex,
   farther than atol is a different one *)
Corollary vertexdict_atol (atol key v : R) : 0 <= atol -> atol <= key ->
  @vd_coord_match R NumR 0 atol key v = true <-> (key - atol <= v < key + atol).
Proof.
  intros Ha Hk. rewrite (vertexdict_window 0 atol key v) by lra. split; intros [A B]; split; lra.
Qed.
