(* The triangular scheme of basis_eval.pyx (as transcribed in Model/BasisEval.v),
   on the instance F := R, computes the Cox-de Boor values and the derivative
   recurrence.  No division by zero occurs: proved, not assumed. *)
From Coq Require Import List Arith Reals Lra Lia Bool ZArith.
From SplipyModel Require Import Spec.BSpline Spec.Deriv Model.Num Model.BasisDef Model.BasisEval Proofs.Bridge.
Import ListNotations.
Open Scope R_scope.

Lemma nth_map_seq (f : nat -> R) n j : (j < n)%nat -> nth j (map f (seq 0 n)) 0 = f j.
Proof.
  intros H. rewrite (nth_indep _ 0 (f 0%nat)) by (rewrite map_length, seq_length; lia).
  rewrite map_nth, seq_nth by lia. reflexivity.
Qed.

Section Alg.
Variable side : bool.
Variable k : nat -> R.
Hypothesis Hk : sorted k.
Variables (p mu : nat) (t : R).
Hypothesis Hp : (1 <= p)%nat.
Hypothesis Hmu : (p <= mu)%nat.
Hypothesis Hspan : in_span side (k (mu - 1)%nat) (k mu) t.

Let MgetR (M : list R) j := nth j M 0.

Lemma Mget_R M j : @Mget R NumR M j = nth j M 0.
Proof. reflexivity. Qed.

Lemma span_lt : k (mu - 1)%nat < k mu.
Proof. unfold in_span in Hspan; destruct side; lra. Qed.
Lemma span_le : k (mu - 1)%nat <= t <= k mu.
Proof. unfold in_span in Hspan; destruct side; lra. Qed.

Lemma out_hi j lo : (j <= mu - 1)%nat -> outside side lo (k j) t.
Proof. intros Hj. pose proof (Hk j (mu-1)%nat Hj). unfold in_span, outside in *. destruct side; right; lra. Qed.
Lemma out_lo j hi : (mu <= j)%nat -> outside side (k j) hi t.
Proof. intros Hj. pose proof (Hk mu j Hj). unfold in_span, outside in *. destruct side; left; lra. Qed.

Definition Inv (q : nat) (M : list R) : Prop :=
  length M = p /\
  forall j, (j < p)%nat ->
    nth j M 0 = if (p - q - 1 <=? j)%nat then B side k q (mu + j - p) t else 0.

Lemma init_inv : Inv 0 (repeat 0 (p - 1) ++ [1]).
Proof.
  split. { rewrite app_length, repeat_length; cbn; lia. }
  intros j Hj.
  destruct (Nat.leb_spec (p - 0 - 1) j) as [L|L].
  - assert (j = (p-1)%nat) by lia. subst j.
    rewrite app_nth2 by (rewrite repeat_length; lia). rewrite repeat_length, Nat.sub_diag. cbn [nth B].
    replace (mu + (p-1) - p)%nat with (mu - 1)%nat by lia. replace (S (mu-1)) with mu by lia.
    unfold B0, in_span in *. destruct side.
    + destruct (Rleb_spec (k (mu-1)%nat) t), (Rltb_spec t (k mu)); cbn; lra.
    + destruct (Rltb_spec (k (mu-1)%nat) t), (Rleb_spec t (k mu)); cbn; lra.
  - rewrite app_nth1 by (rewrite repeat_length; lia).
    apply nth_repeat.
Qed.

Lemma step_inv q M : (1 <= S q <= p - 1)%nat -> Inv q M -> Inv (S q) (@raise_step R NumR k p mu t (S q) M).
Proof.
  intros Hq [HL HM]. split. { unfold raise_step. rewrite map_length, seq_length. reflexivity. }
  intros j Hj. unfold raise_step. rewrite nth_map_seq by exact Hj. cbv zeta. rewrite !Mget_R.
  cbn [nadd nsub nmul ndiv NumR].
  pose proof span_lt as Hkmu. pose proof span_le as Hle.
  destruct (Nat.ltb_spec j (p - S q - 1)) as [A|A].
  { rewrite HM by lia. destruct (Nat.leb_spec (p - q - 1) j); [lia|].
    destruct (Nat.leb_spec (p - S q - 1) j); [lia|reflexivity]. }
  destruct (Nat.leb_spec (p - S q - 1) j) as [A'|A']; [|lia].
  set (i := (mu + j - p)%nat).
  cbn [B].
  destruct (Nat.eqb_spec j (p - S q - 1)) as [E|E].
  - rewrite (HM j) by lia. destruct (Nat.leb_spec (p - q - 1) j); [lia|].
    rewrite (HM (j+1)%nat) by lia. destruct (Nat.leb_spec (p - q - 1) (j+1)); [|lia].
    replace (mu + (j+1) - p)%nat with (i+1)%nat by (unfold i; lia).
    assert (Ei : (i + q + 1 = mu - 1)%nat) by (unfold i; lia).
    rewrite (B_support side k Hk q i t) by (apply out_hi; lia).
    assert (L1 : k (i+1)%nat <= k (mu-1)%nat) by (apply Hk; lia).
    assert (L2 : k mu <= k (i + q + 2)%nat) by (apply Hk; lia).
    rewrite (w_lt (k (i+1)%nat)) by lra.
    replace (i + S q + 1)%nat with (i + q + 2)%nat by lia.
    field. lra.
  - destruct (Nat.eqb_spec j (p - 1)) as [E2|E2].
    + rewrite (HM j) by lia. destruct (Nat.leb_spec (p - q - 1) j); [|lia].
      fold i.
      assert (Ei : (i = mu - 1)%nat) by (unfold i; lia).
      rewrite (B_support side k Hk q (i+1) t) by (apply out_lo; lia).
      assert (L2 : k mu <= k (i + q + 1)%nat) by (apply Hk; lia).
      assert (L0 : k i = k (mu - 1)%nat) by (f_equal; exact Ei).
      rewrite (w_lt (k i)) by lra.
      replace (i + S q)%nat with (i + q + 1)%nat by lia.
      field. lra.
    + rewrite (HM j) by lia. destruct (Nat.leb_spec (p - q - 1) j); [|lia].
      rewrite (HM (j+1)%nat) by lia. destruct (Nat.leb_spec (p - q - 1) (j+1)); [|lia].
      fold i. replace (mu + (j+1) - p)%nat with (i+1)%nat by (unfold i; lia).
      assert (L0 : k i <= k (mu-1)%nat) by (apply Hk; unfold i; lia).
      assert (L1 : k (i+1)%nat <= k (mu-1)%nat) by (apply Hk; unfold i; lia).
      assert (L2 : k mu <= k (i + q + 1)%nat) by (apply Hk; unfold i; lia).
      assert (L3 : k mu <= k (i + q + 2)%nat) by (apply Hk; unfold i; lia).
      rewrite (w_lt (k i)), (w_lt (k (i+1)%nat)) by lra.
      replace (i + S q + 1)%nat with (i + q + 2)%nat by lia. replace (i + S q)%nat with (i + q + 1)%nat by lia.
      field. lra.
Qed.

Lemma loop_inv n : forall q M, (q + n <= p - 1)%nat -> Inv q M -> Inv (q + n) (@raise_loop R NumR k p mu t n q M).
Proof.
  induction n as [|n IH]; intros q M Hb HI; cbn [raise_loop].
  - now rewrite Nat.add_0_r.
  - replace (q + S n)%nat with (S q + n)%nat by lia. apply IH; [lia|]. apply step_inv; [lia|exact HI].
Qed.

(* derivative phase: after r derivative iterations on top of degree q0, the row holds dB r (q0+r) *)
Definition InvD (r q : nat) (M : list R) : Prop :=
  length M = p /\
  forall j, (j < p)%nat ->
    nth j M 0 = if (p - q - 1 <=? j)%nat then dB side k r q (mu + j - p) t else 0.

Lemma Inv_InvD q M : Inv q M -> InvD 0 q M.
Proof. intros [A Bm]; split; [exact A|]. intros j Hj. rewrite Bm by exact Hj. reflexivity. Qed.

Lemma dstep_inv r q M : (S q <= p - 1)%nat -> InvD r q M -> InvD (S r) (S q) (@deriv_step R NumR k p mu (S q) M).
Proof.
  intros Hq [HL HM]. split. { unfold deriv_step. rewrite map_length, seq_length. reflexivity. }
  intros j Hj. unfold deriv_step. rewrite nth_map_seq by exact Hj. cbv zeta. rewrite !Mget_R.
  cbn [nadd nsub nmul ndiv NumR]. rewrite !nofnat_R.
  pose proof span_lt as Hkmu. pose proof span_le as Hle.
  destruct (Nat.ltb_spec j (p - S q - 1)) as [A|A].
  { rewrite HM by lia. destruct (Nat.leb_spec (p - q - 1) j); [lia|].
    destruct (Nat.leb_spec (p - S q - 1) j); [lia|reflexivity]. }
  destruct (Nat.leb_spec (p - S q - 1) j) as [A'|A']; [|lia].
  set (i := (mu + j - p)%nat).
  cbn [dB].
  assert (HS : INR (S q) <> 0) by (apply not_0_INR; lia).
  destruct (Nat.eqb_spec j (p - S q - 1)) as [E|E].
  - (* first entry *)
    destruct (Nat.eqb_spec j (p - 1)) as [E2|E2]; [lia|].
    rewrite (HM j) by lia. destruct (Nat.leb_spec (p - q - 1) j); [lia|].
    rewrite (HM (j+1)%nat) by lia. destruct (Nat.leb_spec (p - q - 1) (j+1)); [|lia].
    replace (mu + (j+1) - p)%nat with (i+1)%nat by (unfold i; lia).
    rewrite (dB_support side k Hk r q i t) by (apply out_hi; unfold i; lia).
    rewrite dqR_0.
    assert (L1 : k (i+1)%nat <= k (mu-1)%nat) by (apply Hk; unfold i; lia).
    assert (L2 : k mu <= k (i + S q + 1)%nat) by (apply Hk; unfold i; lia).
    rewrite dqR_lt by lra. field. lra.
  - rewrite (HM j) by lia. destruct (Nat.leb_spec (p - q - 1) j); [|lia].
    fold i.
    assert (L0 : k i <= k (mu-1)%nat) by (apply Hk; unfold i; lia).
    assert (L2 : k mu <= k (i + S q)%nat) by (apply Hk; unfold i; lia).
    rewrite (dqR_lt (k i)) by lra.
    destruct (Nat.eqb_spec j (p - 1)) as [E2|E2].
    + rewrite (dB_support side k Hk r q (i+1) t) by (apply out_lo; unfold i; lia).
      rewrite dqR_0. field. lra.
    + rewrite (HM (j+1)%nat) by lia. destruct (Nat.leb_spec (p - q - 1) (j+1)); [|lia].
      replace (mu + (j+1) - p)%nat with (i+1)%nat by (unfold i; lia).
      assert (L1 : k (i+1)%nat <= k (mu-1)%nat) by (apply Hk; unfold i; lia).
      assert (L3 : k mu <= k (i + S q + 1)%nat) by (apply Hk; unfold i; lia).
      rewrite (dqR_lt (k (i+1)%nat)) by lra. field. lra.
Qed.

Lemma dloop_inv n : forall r q M, (q + n <= p - 1)%nat -> InvD r q M ->
  InvD (r + n) (q + n) (@deriv_loop R NumR k p mu n (S q) M).
Proof.
  induction n as [|n IH]; intros r q M Hb HI; cbn [deriv_loop].
  - now rewrite !Nat.add_0_r.
  - replace (r + S n)%nat with (S r + n)%nat by lia. replace (q + S n)%nat with (S q + n)%nat by lia.
    apply IH; [lia|]. apply dstep_inv; [lia|exact HI].
Qed.

(* the whole row: eval_row's two loops on a knot function *)
Definition eval_row_fn (d : nat) : list R :=
  let M0 := repeat 0 (p - 1) ++ [1] in
  let M1 := @raise_loop R NumR k p mu t (p - d - 1) 0 M0 in
  @deriv_loop R NumR k p mu d (p - d) M1.

Theorem recurrence_correct d : (d < p)%nat -> forall j, (j < p)%nat ->
  nth j (eval_row_fn d) 0 = dB side k d (p - 1) (mu + j - p) t.
Proof.
  intros Hd j Hj. unfold eval_row_fn. cbv zeta.
  assert (Hq0 : exists q0, (q0 = p - d - 1)%nat) by (eexists; reflexivity). destruct Hq0 as [q0 Hq0].
  rewrite <- Hq0. replace (p - d)%nat with (S q0) by lia.
  pose proof (loop_inv q0 0 _ ltac:(lia) init_inv) as H1. cbn [Nat.add] in H1.
  apply Inv_InvD in H1.
  pose proof (dloop_inv d 0 q0 _ ltac:(lia) H1) as [_ H2]. cbn [Nat.add] in H2.
  rewrite (H2 j Hj). replace (q0 + d)%nat with (p - 1)%nat by lia.
  destruct (Nat.leb_spec (p - (p-1) - 1) j); [reflexivity|lia].
Qed.

Lemma eval_row_fn_length d : (d < p)%nat -> length (eval_row_fn d) = p.
Proof.
  intros Hd. unfold eval_row_fn. cbv zeta.
  assert (Hq0 : exists q0, (q0 = p - d - 1)%nat) by (eexists; reflexivity). destruct Hq0 as [q0 Hq0].
  rewrite <- Hq0. replace (p - d)%nat with (S q0) by lia.
  pose proof (loop_inv q0 0 _ ltac:(lia) init_inv) as H1. cbn [Nat.add] in H1.
  apply Inv_InvD in H1.
  pose proof (dloop_inv d 0 q0 _ ltac:(lia) H1) as [H2 _]. exact H2.
Qed.
End Alg.
