(* C04, end to end, for a LIST of knots (insert_knot with a list, refine, the graded refinement utilities all come
   down to this): [obj_insert_knots o d xs] succeeds, returns a well-formed object with the same domain, and
   [obj_eval] is unchanged at every parameter tuple of the domain whose d-th entry is farther than twice the
   snapping tolerance from every inserted value. *)
From Coq Require Import List Arith Reals Lra Lia Bool ZArith Permutation.
From SplipyModel Require Import Spec.BSpline Spec.Boehm Model.Num Model.BasisDef Model.BasisEval Model.Tensor Model.Obj Model.KnotInsert Model.Interp
  Proofs.KnotList Proofs.SpanCorrect Proofs.EvaluateSpec Proofs.EvalConsequences Proofs.SnapSpec Proofs.TensorLemmas Proofs.ObjEval
  Proofs.InsertMatrix Proofs.TensorApply Proofs.InsertObj Proofs.OrderRaise Proofs.SnapChar Proofs.InsertEndToEnd Proofs.ChangeDirEval.
Import ListNotations.
Open Scope R_scope.

Section One.
Variable tol : R.
Hypothesis Htol : 0 < tol.
Variable o : obj R.
Hypothesis Hwf : wf_obj_R tol o.
Variable d : nat.
Hypothesis Hd : (d < length (o_bases o))%nat.
Local Notation bd := (nth d (o_bases o) dflt_basis).
Hypothesis Hper : b_per1 bd = 0%nat.
Variable x : R.
Hypothesis Hx : @b_start R NumR bd <= x < @b_end R NumR bd.
Local Notation k := (b_knots bd).
Local Notation p := (b_order bd).
Local Notation mu := (@py_bisect_right R NumR k x).
Local Notation knew := (insert_at k mu x).
Local Notation Cmat := (@mat_of_writes R NumR (length k - p + 1) (length k - p) (@insert_writes R NumR k p (length k - p) mu x)).
Local Notation o1 := (mkObj (upd (o_bases o) d (mkBasis p knew 0)) (@apply_dir R NumR (@o_ncomp R o) (@o_shape R o) d Cmat (o_cps o)) (o_dim o) (o_rat o)).

Lemma one_facts : sorted (@kn R NumR k) /\ (1 <= p)%nat /\ (2 * p <= length k)%nat /\
  @kn R NumR k (p - 1) <= x < @kn R NumR k (length k - p).
Proof. destruct (bd_wf tol o Hwf d Hd) as (HK & Hp & Hlen & _). repeat split; try assumption; apply Hx. Qed.

Lemma one_rel side t : row_rel (Brow side k p t) (Brow side knew p t) Cmat.
Proof.
  destruct one_facts as (HK & Hp & Hlen & Hx').
  pose proof (row_rel_insert k p x HK Hp Hlen Hx' side t) as RR.
  unfold InsertObj.Nold, InsertObj.Nnew in RR. unfold Brow.
  rewrite (insert_at_length k mu x). replace (S (length k) - p)%nat with (length k - p + 1)%nat by lia. exact RR.
Qed.

Lemma one_wf : wf_obj_R tol o1.
Proof.
  destruct one_facts as (HK & Hp & Hlen & Hx').
  apply (change_dir_wf tol o Hwf d Hd Hper knew p Cmat).
  - apply (insert_knots_sorted k p x HK Hp Hlen Hx').
  - exact Hp.
  - rewrite insert_at_length. lia.
  - rewrite insert_at_length. lia.
  - apply (b'_start tol o Hwf d Hd Hper x Hx).
  - apply (b'_end tol o Hwf d Hd Hper x Hx).
  - exact one_rel.
Qed.

Lemma one_values v : In v knew <-> (In v k \/ v = x).
Proof.
  split; intros H.
  - apply (Permutation_in _ (insert_at_perm k mu x)) in H. destruct H as [<- | H]; [right; reflexivity|left; exact H].
  - apply (Permutation_in _ (Permutation_sym (insert_at_perm k mu x))). destruct H as [H | ->]; [right; exact H|left; reflexivity].
Qed.
End One.

Section ListE2E.
Variable tol : R.
Hypothesis Htol : 0 < tol.
Variable d : nat.
Variable ts : list R.
Local Notation td := (nth d ts 0).

Theorem insert_knots_eval : forall (xs : list R) (o : obj R),
  wf_obj_R tol o -> (d < length (o_bases o))%nat ->
  b_per1 (nth d (o_bases o) dflt_basis) = 0%nat ->
  (forall x, In x xs -> @b_start R NumR (nth d (o_bases o) dflt_basis) <= x < @b_end R NumR (nth d (o_bases o) dflt_basis) /\ 2 * tol <= Rabs (x - td)) ->
  (forall i, (i < length (o_bases o))%nat -> in_dom tol (nth i (o_bases o) dflt_basis) (nth i ts 0)) ->
  exists o', @obj_insert_knots R NumR o d xs = Ok o' /\ wf_obj_R tol o' /\
             @obj_eval R NumR tol o' ts = @obj_eval R NumR tol o ts /\
             length (o_bases o') = length (o_bases o) /\
             (forall i, i <> d -> nth i (o_bases o') dflt_basis = nth i (o_bases o) dflt_basis) /\
             @b_start R NumR (nth d (o_bases o') dflt_basis) = @b_start R NumR (nth d (o_bases o) dflt_basis) /\
             @b_end R NumR (nth d (o_bases o') dflt_basis) = @b_end R NumR (nth d (o_bases o) dflt_basis).
Proof.
  induction xs as [|x xs IH]; intros o Hwf Hd Hper Hxs Hdom.
  - exists o. cbn [obj_insert_knots]. split; [reflexivity|]. split; [exact Hwf|]. split; [reflexivity|]. split; [reflexivity|]. split; [intros; reflexivity|]. split; reflexivity.
  - destruct (Hxs x ltac:(left; reflexivity)) as (Hx & Hfar).
    set (bd := nth d (o_bases o) dflt_basis) in *.
    set (k := b_knots bd). set (p := b_order bd). set (mu := @py_bisect_right R NumR k x). set (knew := insert_at k mu x).
    set (Cmat := @mat_of_writes R NumR (length k - p + 1) (length k - p) (@insert_writes R NumR k p (length k - p) mu x)).
    set (o1 := mkObj (upd (o_bases o) d (mkBasis p knew 0)) (@apply_dir R NumR (@o_ncomp R o) (@o_shape R o) d Cmat (o_cps o)) (o_dim o) (o_rat o)).
    destruct (one_facts tol o Hwf d Hd x Hx) as (HK & Hp & Hlen & Hx').
    assert (HK' : sorted (@kn R NumR knew)) by (apply (insert_knots_sorted k p x HK Hp Hlen Hx')).
    assert (Hsn : forall u, tol <= Rabs (x - u) -> @snap1 R NumR knew tol u = @snap1 R NumR k tol u).
    { intros u Hu. apply (snap1_insert_far k knew x tol u HK HK' (one_values o d x) Htol Hu). }
    assert (Hs1 : @snap1 R NumR knew tol td = @snap1 R NumR k tol td) by (apply Hsn; lra).
    assert (Hs2 : @snap1 R NumR knew tol (@snap1 R NumR k tol td) = @snap1 R NumR k tol (@snap1 R NumR k tol td)).
    { apply Hsn. destruct (snap1_spec k HK tol Htol td) as [(i & Hi & E & N)|[E _]]; cbv zeta in *.
      - rewrite E. replace (x - @kn R NumR k i) with ((x - td) - (@kn R NumR k i - td)) by ring.
        pose proof (Rabs_triang_inv (x - td) (@kn R NumR k i - td)). lra.
      - rewrite E. lra. }
    assert (Hev1 : @obj_eval R NumR tol o1 ts = @obj_eval R NumR tol o ts)
      by (apply (insert_knot_eval tol Htol o Hwf d Hd Hper x Hx ts Hdom Hs1 Hs2)).
    assert (Hwf1 : wf_obj_R tol o1) by (apply (one_wf tol o Hwf d Hd Hper x Hx)).
    assert (Hst1 : @b_start R NumR (mkBasis p knew 0) = @b_start R NumR bd) by (apply (b'_start tol o Hwf d Hd Hper x Hx)).
    assert (Hen1 : @b_end R NumR (mkBasis p knew 0) = @b_end R NumR bd) by (apply (b'_end tol o Hwf d Hd Hper x Hx)).
    assert (Hnd1 : nth d (o_bases o1) dflt_basis = mkBasis p knew 0) by (unfold o1; cbn [o_bases]; apply upd_nth_same; exact Hd).
    destruct (IH o1 Hwf1) as (o' & Hins & Hwf' & Hev' & Hlen' & Hoth' & Hst' & Hen').
    + unfold o1. cbn [o_bases]. rewrite upd_length. exact Hd.
    + rewrite Hnd1. reflexivity.
    + intros y Hy. rewrite Hnd1, Hst1, Hen1. apply Hxs. right. exact Hy.
    + intros i Hi. unfold o1 in Hi. cbn [o_bases] in Hi. rewrite upd_length in Hi.
      destruct (Nat.eq_dec i d) as [->|Hne].
      * rewrite Hnd1. unfold in_dom. cbn [b_per1 b_knots]. intros _. rewrite Hst1, Hen1, Hs1. apply (Hdom d Hd Hper).
      * unfold o1. cbn [o_bases]. rewrite upd_nth_other by exact Hne. apply Hdom. exact Hi.
    + exists o'. split.
      * cbn [obj_insert_knots]. change (mkBasis 0 [] 0) with dflt_basis. fold bd.
        assert (Ebd : bd = mkBasis p k 0) by (apply (bd_eq o d Hper x Hx)).
        replace (@basis_insert_knot R NumR bd x) with (@basis_insert_knot R NumR (mkBasis p k 0) x) by (rewrite <- Ebd; reflexivity).
        rewrite (basis_insert_knot_nonperiodic k p x HK Hp Hlen Hx'). exact Hins.
      * split; [exact Hwf'|]. split; [rewrite Hev'; exact Hev1|].
        split; [rewrite Hlen'; unfold o1; cbn [o_bases]; apply upd_length|].
        split; [intros i Hi; rewrite (Hoth' i Hi); unfold o1; cbn [o_bases]; apply upd_nth_other; exact Hi|].
        split; [rewrite Hst', Hnd1; exact Hst1|rewrite Hen', Hnd1; exact Hen1].
Qed.
End ListE2E.
