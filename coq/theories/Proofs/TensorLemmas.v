(* Linear-algebra facts about the tensor-product evaluation [teval] on R:
   coordinates of linear combinations, convex-hull (bounding box) property. *)
From Coq Require Import List Arith Reals Lra Lia Bool ZArith.
From SplipyModel Require Import Spec.BSpline Model.Num Model.Tensor.
Import ListNotations.
Open Scope R_scope.

Definition coord (c : nat) (v : list R) : R := nth c v 0.
Definition rsum (l : list R) : R := fold_right Rplus 0 l.

Lemma vzero_R n : @vzero R NumR n = repeat 0 n. Proof. reflexivity. Qed.
Lemma coord_vzero c n : coord c (@vzero R NumR n) = 0.
Proof. unfold coord. rewrite vzero_R. apply nth_repeat. Qed.
Lemma length_vzero n : length (@vzero R NumR n) = n.
Proof. apply repeat_length. Qed.

Lemma length_vadd a b : length (@vadd R NumR a b) = Nat.min (length a) (length b).
Proof. unfold vadd. rewrite map_length, combine_length. reflexivity. Qed.
Lemma length_vscale x a : length (@vscale R NumR x a) = length a.
Proof. unfold vscale. apply map_length. Qed.

Lemma coord_vadd c a b : (c < length a)%nat -> (c < length b)%nat ->
  coord c (@vadd R NumR a b) = coord c a + coord c b.
Proof.
  revert c b; induction a as [|x a IH]; intros c b Ha Hb; [cbn in Ha; lia|].
  destruct b as [|y b]; [cbn in Hb; lia|]. destruct c as [|c]; [reflexivity|].
  unfold coord in *. cbn [vadd combine map nth]. apply (IH c b); cbn in *; lia.
Qed.
Lemma coord_vscale c x a : coord c (@vscale R NumR x a) = x * coord c a.
Proof.
  unfold coord, vscale. revert c; induction a as [|y a IH]; intros c; destruct c; cbn; try ring; try reflexivity.
  apply IH.
Qed.

Definition lc (c : nat) (cs : list R) (vs : list (list R)) : R :=
  fold_right (fun cv acc => fst cv * coord c (snd cv) + acc) 0 (combine cs vs).

Lemma vlincomb_cons dim x cs v vs : @vlincomb R NumR dim (x :: cs) (v :: vs) = @vadd R NumR (@vscale R NumR x v) (@vlincomb R NumR dim cs vs).
Proof. reflexivity. Qed.
Lemma vlincomb_nil_l dim vs : @vlincomb R NumR dim [] vs = @vzero R NumR dim.
Proof. reflexivity. Qed.
Lemma vlincomb_nil_r dim cs : @vlincomb R NumR dim cs [] = @vzero R NumR dim.
Proof. destruct cs; reflexivity. Qed.
Lemma lc_cons c x cs v vs : lc c (x :: cs) (v :: vs) = x * coord c v + lc c cs vs.
Proof. reflexivity. Qed.
Lemma lc_nil_l c vs : lc c [] vs = 0. Proof. reflexivity. Qed.
Lemma lc_nil_r c cs : lc c cs [] = 0. Proof. destruct cs; reflexivity. Qed.

Lemma vlincomb_length dim cs vs : Forall (fun v => length v = dim) vs -> length (@vlincomb R NumR dim cs vs) = dim.
Proof.
  intros Hv. revert vs Hv; induction cs as [|x cs IH]; intros vs Hv; [rewrite vlincomb_nil_l; apply length_vzero|].
  destruct vs as [|v vs]; [rewrite vlincomb_nil_r; apply length_vzero|]. rewrite vlincomb_cons.
  inversion Hv; subst. rewrite length_vadd, length_vscale, IH by assumption. lia.
Qed.

Lemma vlincomb_coord dim cs vs c : Forall (fun v => length v = dim) vs -> (c < dim)%nat ->
  coord c (@vlincomb R NumR dim cs vs) = lc c cs vs.
Proof.
  intros Hv Hc. revert vs Hv; induction cs as [|x cs IH]; intros vs Hv; [rewrite vlincomb_nil_l; apply coord_vzero|].
  destruct vs as [|v vs]; [rewrite vlincomb_nil_r, lc_nil_r; apply coord_vzero|]. rewrite vlincomb_cons, lc_cons.
  inversion Hv as [|? ? Hl Hr]; subst.
  rewrite coord_vadd.
  - rewrite coord_vscale. f_equal. apply IH. assumption.
  - rewrite length_vscale. lia.
  - rewrite (vlincomb_length (length v) cs vs Hr). lia.
Qed.

(* convex combinations stay inside coordinate bounds *)
Lemma lc_bounds c cs vs lo hi : length cs = length vs ->
  Forall (fun x => 0 <= x) cs -> rsum cs = 1 ->
  Forall (fun v => lo <= coord c v <= hi) vs -> lo <= lc c cs vs <= hi.
Proof.
  intros HL Hpos Hsum Hb.
  assert (G : forall s, rsum cs = s -> lo * s <= lc c cs vs <= hi * s).
  { clear Hsum. revert vs HL Hb; induction cs as [|x cs IH]; intros vs HL Hb s Hs.
    - rewrite lc_nil_l. cbn in Hs. subst. lra.
    - destruct vs as [|v vs]; [cbn in HL; lia|].
      assert (Es : s = x + rsum cs) by (rewrite <- Hs; reflexivity). clear Hs.
      inversion Hpos as [|? ? Hx Hcs]. inversion Hb as [|? ? Hv Hvs]. subst.
      rewrite lc_cons.
      specialize (IH Hcs vs ltac:(cbn in HL; lia) Hvs (rsum cs) eq_refl). nra. }
  specialize (G 1 Hsum). lra.
Qed.

Lemma Forall_firstn {A} (P : A -> Prop) n l : Forall P l -> Forall P (firstn n l).
Proof. revert n; induction l as [|a l IH]; intros n H; destruct n; cbn; try constructor; inversion H; auto. Qed.
Lemma Forall_skipn {A} (P : A -> Prop) n l : Forall P l -> Forall P (skipn n l).
Proof. revert n; induction l as [|a l IH]; intros n H; destruct n; cbn; auto. inversion H; auto. Qed.
Lemma Forall_chunk {A} (P : A -> Prop) m i l : Forall P l -> Forall P (chunk m i l).
Proof. intros H. unfold chunk. apply Forall_firstn, Forall_skipn, H. Qed.
Lemma length_chunk {A} m i (l : list A) : ((i + 1) * m <= length l)%nat -> length (chunk m i l) = m.
Proof. intros H. unfold chunk. rewrite firstn_length, skipn_length. lia. Qed.

Definition prodl (l : list nat) : nat := fold_right Nat.mul 1%nat l.

(* structural well-formedness of a net for given rows *)
Definition net_ok (dim : nat) (rows : list (list R)) (cps : list (list R)) : Prop :=
  Forall (fun v => length v = dim) cps /\ length cps = prodl (map (@length R) rows).

Lemma teval_length dim rows : forall cps, net_ok dim rows cps -> length (@teval R NumR dim rows cps) = dim.
Proof.
  induction rows as [|N rest IH]; intros cps [Hv Hl]; cbn [teval].
  - cbn in Hl. destruct cps as [|v cps]; [cbn in Hl; lia|]. inversion Hv; subst. reflexivity.
  - cbv zeta. apply vlincomb_length. apply Forall_forall. intros v Hin.
    apply in_map_iff in Hin. destruct Hin as (i & <- & Hi). apply in_seq in Hi.
    cbn [map prodl fold_right] in Hl. fold (prodl (map (@length R) rest)) in Hl.
    assert (Hm : (length cps / length N = prodl (map (@length R) rest))%nat).
    { rewrite Hl. rewrite Nat.mul_comm. apply Nat.div_mul. lia. }
    apply IH. split; [apply Forall_chunk; exact Hv|].
    rewrite Hm. apply length_chunk. rewrite Hl. nia.
Qed.

(* C02.5: with non-negative rows that sum to one, every coordinate of the evaluated point
   lies between the minimum and the maximum of that coordinate over the control points *)
Theorem teval_bounds dim rows c lo hi : (c < dim)%nat ->
  Forall (fun N => Forall (fun x => 0 <= x) N /\ rsum N = 1) rows ->
  forall cps, net_ok dim rows cps ->
  Forall (fun v => lo <= coord c v <= hi) cps ->
  lo <= coord c (@teval R NumR dim rows cps) <= hi.
Proof.
  intros Hc. induction rows as [|N rest IH]; intros HR cps [Hv Hl] Hb; cbn [teval].
  - cbn in Hl. destruct cps as [|v cps]; [cbn in Hl; lia|]. inversion Hb; subst. assumption.
  - cbv zeta. inversion HR as [|? ? [HN1 HN2] HR']; subst.
    cbn [map prodl fold_right] in Hl. fold (prodl (map (@length R) rest)) in Hl.
    assert (HNpos : (0 < length N)%nat).
    { destruct N; [cbn in HN2; lra|cbn; lia]. }
    assert (Hm : (length cps / length N = prodl (map (@length R) rest))%nat).
    { rewrite Hl. rewrite Nat.mul_comm. apply Nat.div_mul. lia. }
    assert (Hsub : forall i, (i < length N)%nat -> net_ok dim rest (chunk (length cps / length N) i cps)).
    { intros i Hi. split; [apply Forall_chunk; exact Hv|]. rewrite Hm. apply length_chunk. rewrite Hl. nia. }
    rewrite vlincomb_coord with (dim := dim); [| |exact Hc].
    + apply lc_bounds; [rewrite map_length, seq_length; reflexivity|exact HN1|exact HN2|].
      apply Forall_forall. intros v Hin. apply in_map_iff in Hin. destruct Hin as (i & <- & Hi). apply in_seq in Hi.
      apply IH; [exact HR'|apply Hsub; lia|apply Forall_chunk; exact Hb].
    + apply Forall_forall. intros v Hin. apply in_map_iff in Hin. destruct Hin as (i & <- & Hi). apply in_seq in Hi.
      apply teval_length. apply Hsub. lia.
Qed.

Lemma skipn_S_cons {A} n (l : list A) a r : skipn n l = a :: r -> skipn (S n) l = r.
Proof.
  revert l; induction n as [|n IH]; intros l H.
  - cbn in H. subst. reflexivity.
  - destruct l as [|b l]; [cbn in H; discriminate|]. cbn [skipn] in H. apply IH in H. exact H.
Qed.

(* pardim 1: the defining sum *)
Lemma teval_curve dim N cps c : Forall (fun v => length v = dim) cps -> length cps = length N -> (c < dim)%nat ->
  coord c (@teval R NumR dim [N] cps) = lc c N cps.
Proof.
  intros Hv Hl Hc. cbn [teval]. cbv zeta.
  destruct (Nat.eq_dec (length N) 0) as [E|E].
  { destruct N; [|cbn in E; lia]. destruct cps; [|cbn in Hl; lia]. cbn. apply coord_vzero. }
  assert (Hm : (length cps / length N = 1)%nat) by (rewrite Hl; apply Nat.div_same; exact E).
  rewrite Hm.
  rewrite vlincomb_coord with (dim := dim); [| |exact Hc].
  - unfold lc. f_equal.
    assert (G : forall (N : list R) (cps : list (list R)) off, length cps = length N ->
       forall full, skipn off full = cps ->
       combine N (map (fun i => nth 0 (chunk 1 i full) (@vzero R NumR dim)) (seq off (length N))) = combine N cps).
    { clear. induction N as [|x N IH]; intros cps off Hl full Hs; [reflexivity|].
      destruct cps as [|v cps]; [cbn in Hl; lia|]. cbn [length seq map combine]. f_equal.
      - f_equal. unfold chunk. rewrite Nat.mul_1_r, Hs. reflexivity.
      - apply IH; [cbn in Hl; lia|]. apply (skipn_S_cons off full v cps Hs). }
    apply (G N cps 0%nat Hl cps). reflexivity.
  - apply Forall_forall. intros v Hin. apply in_map_iff in Hin. destruct Hin as (i & <- & Hi). apply in_seq in Hi.
    unfold chunk. rewrite Nat.mul_1_r.
    destruct (skipn i cps) as [|u rest] eqn:Es.
    + cbn. apply length_vzero.
    + cbn. assert (In u cps). { rewrite <- (firstn_skipn i cps), Es. apply in_or_app. right. left. reflexivity. }
      rewrite Forall_forall in Hv. apply Hv. assumption.
Qed.
