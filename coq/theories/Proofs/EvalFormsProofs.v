(* C02, calling forms of SplineObject.evaluate (Model/EvalForms.v):
   grid (tensor=True), pointwise (tensor=False), scalars.

   (2) grid_spec            the grid has prod(lengths) entries, the entry at a multi-index is obj_eval at that tuple
   (1) pointwise_diagonal   tensor=False = the diagonal of the grid (flat position i * sum_d m^(D-1-d))
   (3) grid_singletons, scalars_eval   singleton lists give exactly one point = obj_eval of the scalars
   (4) grid_err_iff_tuple, grid_err_iff_lists, grid_value_error_iff (R)
                             the grid raises (always ValueError) iff some tuple does / iff some non-periodic
                             direction has an empty list or a parameter outside its domain
   All but the last are proved for every Num instance. *)
From Coq Require Import List Arith Reals Lra Lia Bool ZArith.
From SplipyModel Require Import Spec.BSpline Model.Num Model.BasisDef Model.BasisEval Model.Tensor Model.Obj Model.EvalForms
  Proofs.TensorLemmas Proofs.ObjEval.
Import ListNotations.

(* ------------------------------------------------------------------ *)
(* list lemmas                                                         *)
(* ------------------------------------------------------------------ *)
Lemma nth_map_lt' {A B} (f : A -> B) l i d d' : (i < length l)%nat -> nth i (map f l) d = f (nth i l d').
Proof.
  revert i; induction l as [|a l IH]; intros i Hi; cbn [length] in Hi; [lia|].
  destruct i; cbn [map nth]; [reflexivity|]. apply IH. lia.
Qed.

Lemma flat_map_length_const {A B} (f : A -> list B) m l :
  (forall x, length (f x) = m) -> length (flat_map f l) = (length l * m)%nat.
Proof.
  intros Hf. induction l as [|a l IH]; cbn [flat_map length]; [reflexivity|].
  rewrite app_length, IH, Hf. lia.
Qed.

Lemma flat_map_nth_const {A B} (f : A -> list B) m l a d : (forall x, length (f x) = m) ->
  forall i j, (i < length l)%nat -> (j < m)%nat -> nth (i * m + j) (flat_map f l) d = nth j (f (nth i l a)) d.
Proof.
  intros Hf. induction l as [|x l IH]; intros i j Hi Hj; cbn [length] in Hi; [lia|].
  cbn [flat_map]. destruct i as [|i]; cbn [nth].
  - cbn [Nat.mul Nat.add]. apply app_nth1. rewrite Hf. exact Hj.
  - rewrite app_nth2 by (rewrite Hf; nia). rewrite Hf.
    replace (S i * m + j - m)%nat with (i * m + j)%nat by nia. apply IH; lia.
Qed.

Lemma tl_nth {A} (l : list A) i d : nth i (tl l) d = nth (S i) l d.
Proof. destruct l; [destruct i|]; reflexivity. Qed.
Lemma hd_nth {A} (l : list A) d : hd d l = nth 0 l d.
Proof. destruct l; reflexivity. Qed.

Lemma Forall2_nth {A B} (P : A -> B -> Prop) l1 l2 a b : Forall2 P l1 l2 ->
  length l1 = length l2 /\ forall i, (i < length l1)%nat -> P (nth i l1 a) (nth i l2 b).
Proof.
  induction 1 as [|x y l1 l2 Hxy HF [IHl IH]]; cbn [length]; split; try reflexivity.
  - intros i Hi. lia.
  - lia.
  - intros [|i] Hi; cbn [nth]; [exact Hxy|]. apply IH. lia.
Qed.

(* geometric sum m^(D-1) + ... + m^0: flat position of the diagonal multi-index (1,..,1) of an m x .. x m grid *)
Fixpoint gsum (m D : nat) : nat := match D with O => O | S D' => (m ^ D' + gsum m D')%nat end.

Lemma prodl_repeat m D : prodl (repeat m D) = (m ^ D)%nat.
Proof. induction D as [|D IH]; cbn [repeat prodl fold_right Nat.pow]; [reflexivity|]. fold (prodl (repeat m D)). rewrite IH. reflexivity. Qed.

Lemma ravel_diag m i D : ravel (repeat m D) (repeat i D) = (i * gsum m D)%nat.
Proof.
  induction D as [|D IH]; cbn [repeat ravel gsum]; [lia|].
  rewrite IH. fold (prodl (repeat m D)). rewrite prodl_repeat. lia.
Qed.

Lemma ravel_lt : forall (shape idx : list nat), Forall2 (fun n i => (i < n)%nat) shape idx ->
  (ravel shape idx < prodl shape)%nat.
Proof.
  induction 1 as [|n i shape idx Hi HF IH]; cbn [ravel prodl fold_right]; [lia|].
  fold (prodl shape). nia.
Qed.

(* ------------------------------------------------------------------ *)
Section Poly.
Context {F : Type} `{Num F}.

Definition dfb : basis F := mkBasis 0 [] 0.

(* ---- res_seq ---- *)
Lemma res_seq_ok {A B} (f : A -> res B) : forall l g, res_seq (map f l) = Ok g ->
  length g = length l /\ forall i d d', (i < length l)%nat -> f (nth i l d) = Ok (nth i g d').
Proof.
  induction l as [|a l IH]; intros g; cbn [map res_seq].
  - intros [= <-]. split; [reflexivity|]. intros i d d' Hi. cbn [length] in Hi. lia.
  - destruct (f a) as [v|e] eqn:Ea; [|discriminate].
    destruct (res_seq (map f l)) as [g'|e] eqn:Er; [|discriminate].
    intros [= <-]. destruct (IH g' eq_refl) as [IHl IHn]. split; [cbn [length]; lia|].
    intros [|i] d d' Hi; cbn [nth]; [exact Ea|]. apply IHn. cbn [length] in Hi. lia.
Qed.

Lemma res_seq_map_ok {A B} (f : A -> res B) (h : A -> B) : forall l,
  (forall x, In x l -> f x = Ok (h x)) -> res_seq (map f l) = Ok (map h l).
Proof.
  induction l as [|a l IH]; intros Hf; cbn [map res_seq]; [reflexivity|].
  rewrite (Hf a) by (left; reflexivity). rewrite IH by (intros x Hx; apply Hf; right; exact Hx). reflexivity.
Qed.

Lemma res_seq_err {A B} (f : A -> res B) : forall l e, res_seq (map f l) = Err e -> exists x, In x l /\ f x = Err e.
Proof.
  induction l as [|a l IH]; intros e; cbn [map res_seq]; [discriminate|].
  destruct (f a) as [v|e'] eqn:Ea.
  - destruct (res_seq (map f l)) as [g'|e''] eqn:Er; [discriminate|].
    intros [= <-]. destruct (IH e'' eq_refl) as (x & Hx & Ex). exists x. split; [right; exact Hx|exact Ex].
  - intros [= <-]. exists a. split; [left; reflexivity|exact Ea].
Qed.

Lemma res_seq_err_intro {A B} (f : A -> res B) : forall l x e, In x l -> f x = Err e -> exists e', res_seq (map f l) = Err e'.
Proof.
  induction l as [|a l IH]; intros x e Hx Ex; [destruct Hx|]. cbn [map res_seq].
  destruct (f a) as [v|e'] eqn:Ea; [|exists e'; reflexivity].
  destruct Hx as [<-|Hx]; [congruence|].
  destruct (IH x e Hx Ex) as (e'' & Er). rewrite Er. exists e''. reflexivity.
Qed.

Lemma res_seq_ok_intro {A B} (f : A -> res B) : forall l,
  (forall x, In x l -> exists v, f x = Ok v) -> exists g, res_seq (map f l) = Ok g.
Proof.
  intros l Hf. destruct (res_seq (map f l)) as [g|e] eqn:E; [exists g; reflexivity|].
  destruct (res_seq_err f l e E) as (x & Hx & Ex). destruct (Hf x Hx) as (v & Ev). congruence.
Qed.

(* ---- cartesian product ---- *)
Lemma cart_length (lists : list (list F)) : length (cart lists) = prodl (map (@length F) lists).
Proof.
  induction lists as [|l lists IH]; cbn [cart map prodl fold_right]; [reflexivity|].
  fold (prodl (map (@length F) lists)).
  rewrite (flat_map_length_const _ (length (cart lists))) by (intros x; apply map_length).
  rewrite IH. reflexivity.
Qed.

Lemma cart_nth : forall (lists : list (list F)) (idx : list nat),
  Forall2 (fun l i => (i < length l)%nat) lists idx ->
  nth (ravel (map (@length F) lists) idx) (cart lists) [] = tuple_at lists idx.
Proof.
  induction 1 as [|l i lists idx Hi HF IH]; [reflexivity|].
  cbn [map ravel cart]. fold (prodl (map (@length F) lists)). rewrite <- cart_length.
  assert (Hr : (ravel (map (@length F) lists) idx < length (cart lists))%nat).
  { rewrite cart_length. apply ravel_lt. clear -HF. induction HF; cbn [map]; constructor; assumption. }
  rewrite (flat_map_nth_const _ (length (cart lists)) l n0 []) by (try (intros x; apply map_length); assumption).
  rewrite (nth_map_lt' _ (cart lists) _ [] []) by exact Hr.
  rewrite IH. reflexivity.
Qed.

Lemma In_cart : forall (lists : list (list F)) ts, In ts (cart lists) <-> Forall2 (fun t l => In t l) ts lists.
Proof.
  induction lists as [|l lists IH]; intros ts; cbn [cart].
  - split.
    + intros [<-|[]]. constructor.
    + intros HF. inversion HF. left. reflexivity.
  - rewrite in_flat_map. split.
    + intros (x & Hx & Hin). apply in_map_iff in Hin. destruct Hin as (ts' & <- & Hts').
      constructor; [exact Hx|]. apply IH. exact Hts'.
    + intros HF. inversion HF as [|x lq tsq listsq Hx HFq]; subst.
      exists x. split; [exact Hx|]. apply in_map_iff. exists tsq. split; [reflexivity|]. apply IH. exact HFq.
Qed.

Lemma In_cart_nth lists ts : In ts (cart lists) ->
  length ts = length lists /\ forall i, (i < length lists)%nat -> In (nth i ts n0) (nth i lists []).
Proof.
  intros Hin. apply In_cart in Hin. destruct (Forall2_nth _ _ _ n0 [] Hin) as [HL Hn].
  split; [exact HL|]. intros i Hi. apply Hn. lia.
Qed.

Lemma cart_inhabited : forall (lists : list (list F)), (forall l, In l lists -> l <> []) -> exists ts, In ts (cart lists).
Proof.
  induction lists as [|l lists IH]; intros Hne; [exists []; left; reflexivity|].
  destruct IH as (ts & Hts); [intros l0 Hl0; apply Hne; right; exact Hl0|].
  destruct l as [|x l2]; [exfalso; apply (Hne []); [left; reflexivity|reflexivity]|].
  exists (x :: ts). apply In_cart. constructor; [left; reflexivity|]. apply In_cart. exact Hts.
Qed.

(* with non-empty lists every parameter of every direction occurs in some tuple of the grid *)
Lemma cart_pick : forall (lists : list (list F)) i t, (forall l, In l lists -> l <> []) ->
  (i < length lists)%nat -> In t (nth i lists []) -> exists ts, In ts (cart lists) /\ nth i ts n0 = t.
Proof.
  induction lists as [|l lists IH]; intros i t Hne Hi Ht; cbn [length] in Hi; [lia|].
  assert (Hne2 : forall l0, In l0 lists -> l0 <> []) by (intros l0 Hl0; apply Hne; right; exact Hl0).
  destruct i as [|i]; cbn [nth] in Ht.
  - destruct (cart_inhabited lists Hne2) as (ts & Hts). exists (t :: ts). split; [|reflexivity].
    apply In_cart. constructor; [exact Ht|]. apply In_cart. exact Hts.
  - destruct (IH i t Hne2 ltac:(lia) Ht) as (ts & Hts & En).
    destruct l as [|x l2]; [exfalso; apply (Hne []); [left; reflexivity|reflexivity]|].
    exists (x :: ts). split; [|exact En].
    apply In_cart. constructor; [left; reflexivity|]. apply In_cart. exact Hts.
Qed.

Lemma cart_singletons (ts : list F) : cart (map (fun t => [t]) ts) = [ts].
Proof. induction ts as [|t ts IH]; cbn [map cart flat_map]; [reflexivity|]. rewrite IH. reflexivity. Qed.

Lemma tuple_at_diag : forall (lists : list (list F)) i, tuple_at lists (repeat i (length lists)) = diag_tuple lists i.
Proof.
  unfold tuple_at, diag_tuple. induction lists as [|l lists IH]; intros i; cbn [length repeat combine map]; [reflexivity|].
  rewrite IH. reflexivity.
Qed.

(* ---- validation: only ValueError, located at one direction ---- *)
Lemma validate1_cases tol (b : basis F) t :
  validate1 tol b t = Err ValueError \/ validate1 tol b t = Ok (snap1 (b_knots b) tol t).
Proof. unfold validate1. cbv zeta. destruct (_ && _); [left|right]; reflexivity. Qed.

Lemma validate_err_find tol : forall (bs : list (basis F)) ts e, validate tol bs ts = Err e ->
  e = ValueError /\ exists i, (i < length bs)%nat /\ validate1 tol (nth i bs dfb) (nth i ts n0) = Err ValueError.
Proof.
  induction bs as [|b bs IH]; intros ts e; cbn [validate]; [discriminate|].
  destruct (validate1_cases tol b (hd n0 ts)) as [E|E]; rewrite E.
  - intros [= <-]. split; [reflexivity|]. exists 0%nat. split; [cbn [length]; lia|]. cbn [nth]. rewrite <- hd_nth. exact E.
  - destruct (validate tol bs (tl ts)) as [r|e'] eqn:Ev; [discriminate|].
    intros [= <-]. destruct (IH (tl ts) e' Ev) as (He & i & Hi & Ei). split; [exact He|].
    exists (S i). split; [cbn [length]; lia|]. cbn [nth]. rewrite <- tl_nth. exact Ei.
Qed.

Lemma validate_err_at tol : forall (bs : list (basis F)) ts i, (i < length bs)%nat ->
  validate1 tol (nth i bs dfb) (nth i ts n0) = Err ValueError -> validate tol bs ts = Err ValueError.
Proof.
  induction bs as [|b bs IH]; intros ts i Hi Ei; cbn [length] in Hi; [lia|]. cbn [validate].
  destruct (validate1_cases tol b (hd n0 ts)) as [E|E]; rewrite E; [reflexivity|].
  destruct i as [|i]; cbn [nth] in Ei.
  - rewrite <- hd_nth in Ei. congruence.
  - rewrite <- tl_nth in Ei. rewrite (IH (tl ts) i) by (try lia; exact Ei). reflexivity.
Qed.

Lemma obj_eval_err_find tol (o : obj F) ts e : obj_eval tol o ts = Err e ->
  e = ValueError /\ exists i, (i < o_pardim o)%nat /\ validate1 tol (nth i (o_bases o) dfb) (nth i ts n0) = Err ValueError.
Proof.
  unfold obj_eval. destruct (validate tol (o_bases o) ts) as [r|e'] eqn:Ev; [discriminate|].
  intros [= <-]. apply (validate_err_find tol _ _ _ Ev).
Qed.

Lemma obj_eval_err_at tol (o : obj F) ts i : (i < o_pardim o)%nat ->
  validate1 tol (nth i (o_bases o) dfb) (nth i ts n0) = Err ValueError -> obj_eval tol o ts = Err ValueError.
Proof. intros Hi Ei. unfold obj_eval. rewrite (validate_err_at tol _ ts i Hi Ei). reflexivity. Qed.

(* a direction whose list-level check fails: non-periodic, and the list is empty or holds an outside parameter *)
Definition dir_bad (tol : F) (b : basis F) (l : list F) : Prop :=
  b_per1 b = 0%nat /\ (l = [] \/ exists t, In t l /\ validate1 tol b t = Err ValueError).

Lemma validate_dir_cases tol (b : basis F) l :
  (dir_bad tol b l /\ validate_dir tol b l = Err ValueError) \/
  (~ dir_bad tol b l /\ validate_dir tol b l = Ok (map (snap1 (b_knots b) tol) l)).
Proof.
  unfold validate_dir, dir_bad. cbv zeta.
  destruct (Nat.eqb_spec (b_per1 b) 0) as [Ep|Ep]; [|right; split; [intros [A _]; contradiction|reflexivity]].
  destruct l as [|x l]; [left; split; [split; [exact Ep|left; reflexivity]|reflexivity]|].
  set (l0 := x :: l). change (map (snap1 (b_knots b) tol) l0) with (snap1 (b_knots b) tol x :: map (snap1 (b_knots b) tol) l) at 1.
  cbv iota beta. change (snap1 (b_knots b) tol x :: map (snap1 (b_knots b) tol) l) with (map (snap1 (b_knots b) tol) l0).
  destruct (existsb _ (map (snap1 (b_knots b) tol) l0)) eqn:Ex.
  - left. split; [|reflexivity]. split; [exact Ep|]. right.
    apply existsb_exists in Ex. destruct Ex as (t' & Hin & Ht'). apply in_map_iff in Hin. destruct Hin as (t & <- & Ht).
    exists t. split; [exact Ht|]. unfold validate1. cbv zeta. rewrite Ep, Ht'. reflexivity.
  - right. split; [|reflexivity]. intros [_ [E|(t & Ht & Et)]]; [discriminate|].
    assert (Hex : existsb (fun t0 => nltb t0 (b_start b) || nltb (b_end b) t0) (map (snap1 (b_knots b) tol) l0) = true).
    { apply existsb_exists. exists (snap1 (b_knots b) tol t). split; [apply in_map; exact Ht|].
      unfold validate1 in Et. cbv zeta in Et. rewrite Ep in Et. cbn [Nat.eqb andb] in Et.
      destruct (nltb _ _ || nltb _ _); [reflexivity|discriminate]. }
    congruence.
Qed.

Lemma validate_lists_cases tol : forall (bs : list (basis F)) lists,
  ((exists i, (i < length bs)%nat /\ (i < length lists)%nat /\ dir_bad tol (nth i bs dfb) (nth i lists [])) /\
   validate_lists tol bs lists = Err ValueError) \/
  ((forall i, (i < length bs)%nat -> (i < length lists)%nat -> ~ dir_bad tol (nth i bs dfb) (nth i lists [])) /\
   validate_lists tol bs lists = Ok tt).
Proof.
  induction bs as [|b bs IH]; intros lists; cbn [validate_lists].
  - right. split; [intros i Hi; cbn [length] in Hi; lia|reflexivity].
  - destruct lists as [|l lists]; [right; split; [intros i _ Hi; cbn [length] in Hi; lia|reflexivity]|].
    destruct (validate_dir_cases tol b l) as [[Hb E]|[Hb E]]; rewrite E.
    + left. split; [|reflexivity]. exists 0%nat. cbn [length nth]. split; [lia|]. split; [lia|]. exact Hb.
    + destruct (IH lists) as [[(i & Hi & Hi' & Hbad) E']|[Hok E']]; rewrite E'.
      * left. split; [|reflexivity]. exists (S i). cbn [length nth]. split; [lia|]. split; [lia|]. exact Hbad.
      * right. split; [|reflexivity]. intros [|i] Hi Hi'; cbn [nth]; [exact Hb|]. cbn [length] in Hi, Hi'. apply Hok; lia.
Qed.

(* ------------------------------------------------------------------ *)
(* (4a) only ValueError                                                *)
(* ------------------------------------------------------------------ *)
Lemma tuples_err_VE tol (o : obj F) tuples e : obj_eval_tuples tol o tuples = Err e -> e = ValueError.
Proof.
  unfold obj_eval_tuples. intros E. destruct (res_seq_err _ _ _ E) as (ts & _ & Ets).
  apply (obj_eval_err_find tol o ts e Ets).
Qed.

Theorem grid_err_VE tol (o : obj F) lists e : obj_eval_grid tol o lists = Err e -> e = ValueError.
Proof.
  unfold obj_eval_grid.
  destruct (validate_lists_cases tol (o_bases o) lists) as [[_ E]|[_ E]]; rewrite E.
  - intros [= <-]. reflexivity.
  - apply tuples_err_VE.
Qed.

Theorem pointwise_err_VE tol (o : obj F) lists e : obj_eval_pointwise tol o lists = Err e -> e = ValueError.
Proof.
  unfold obj_eval_pointwise. destruct lists as [|l0 rest]; [intros [= <-]; reflexivity|].
  destruct (forallb _ rest); [|intros [= <-]; reflexivity].
  destruct (validate_lists_cases tol (o_bases o) (l0 :: rest)) as [[_ E]|[_ E]]; rewrite E.
  - intros [= <-]. reflexivity.
  - apply tuples_err_VE.
Qed.

(* ------------------------------------------------------------------ *)
(* (2) structure of the grid                                           *)
(* ------------------------------------------------------------------ *)
Theorem grid_spec tol (o : obj F) lists g : obj_eval_grid tol o lists = Ok g ->
  length g = prodl (map (@length F) lists) /\
  forall idx, Forall2 (fun l i => (i < length l)%nat) lists idx ->
    obj_eval tol o (tuple_at lists idx) = Ok (nth (ravel (map (@length F) lists) idx) g []).
Proof.
  unfold obj_eval_grid. destruct (validate_lists tol (o_bases o) lists) as [u|e]; [|discriminate].
  unfold obj_eval_tuples. intros E. destruct (res_seq_ok _ _ _ E) as [HL Hn]. split.
  - rewrite HL. apply cart_length.
  - intros idx Hidx. rewrite <- (cart_nth lists idx Hidx). apply Hn.
    rewrite cart_length. apply ravel_lt. clear -Hidx. induction Hidx; cbn [map]; constructor; assumption.
Qed.

(* ------------------------------------------------------------------ *)
(* (1) tensor=False is the diagonal of the grid                        *)
(* ------------------------------------------------------------------ *)
Lemma all_length_repeat (lists : list (list F)) m : (forall l, In l lists -> length l = m) ->
  map (@length F) lists = repeat m (length lists).
Proof.
  induction lists as [|l lists IH]; intros Hm; cbn [map length repeat]; [reflexivity|].
  rewrite (Hm l) by (left; reflexivity). rewrite IH by (intros l' Hl'; apply Hm; right; exact Hl'). reflexivity.
Qed.

Theorem pointwise_diagonal tol (o : obj F) lists m g :
  lists <> [] -> (forall l, In l lists -> length l = m) ->
  obj_eval_grid tol o lists = Ok g ->
  obj_eval_pointwise tol o lists
  = Ok (map (fun i => nth (i * gsum m (length lists))%nat g []) (seq 0 m)).
Proof.
  intros Hne Hm Hg. destruct (grid_spec tol o lists g Hg) as [_ Hentry].
  unfold obj_eval_pointwise. destruct lists as [|l0 rest] eqn:El; [contradiction|]. rewrite <- El in *.
  assert (Hl0 : length l0 = m) by (apply Hm; rewrite El; left; reflexivity).
  assert (Hfa : forallb (fun l => (length l =? length l0)%nat) rest = true).
  { apply forallb_forall. intros l Hl. apply Nat.eqb_eq. rewrite Hl0. apply Hm. rewrite El. right. exact Hl. }
  rewrite Hfa. unfold obj_eval_grid in Hg.
  destruct (validate_lists tol (o_bases o) lists) as [u|e]; [|discriminate].
  unfold obj_eval_tuples. rewrite map_map. rewrite Hl0.
  apply res_seq_map_ok. intros i Hi. apply in_seq in Hi.
  rewrite <- tuple_at_diag.
  rewrite <- ravel_diag. rewrite <- (all_length_repeat lists m Hm).
  apply Hentry.
  clear -Hm Hi. induction lists as [|l lists IH]; cbn [length repeat]; constructor.
  - rewrite (Hm l) by (left; reflexivity). lia.
  - apply IH. intros l' Hl'. apply Hm. right. exact Hl'.
Qed.

(* the diagonal position written out: i * (m^(D-1) + ... + m + 1) = sum_d i * m^(D-1-d) *)
Lemma gsum_unfold m D : gsum m (S D) = (m ^ D + gsum m D)%nat.
Proof. reflexivity. Qed.

(* unequal lengths: ValueError (the lists must have the same length) *)
Theorem pointwise_unequal tol (o : obj F) l0 rest :
  (exists l, In l rest /\ length l <> length l0) -> obj_eval_pointwise tol o (l0 :: rest) = Err ValueError.
Proof.
  intros (l & Hl & Hne). unfold obj_eval_pointwise.
  destruct (forallb (fun l => (length l =? length l0)%nat) rest) eqn:Ef; [|reflexivity].
  rewrite forallb_forall in Ef. specialize (Ef l Hl). apply Nat.eqb_eq in Ef. contradiction.
Qed.

(* ------------------------------------------------------------------ *)
(* (3) singleton lists / scalars                                       *)
(* ------------------------------------------------------------------ *)
Theorem grid_singletons tol (o : obj F) ts :
  obj_eval_grid tol o (map (fun t => [t]) ts)
  = match obj_eval tol o ts with Ok v => Ok [v] | Err e => Err e end.
Proof.
  unfold obj_eval_grid.
  destruct (validate_lists_cases tol (o_bases o) (map (fun t => [t]) ts)) as [[(i & Hi & Hi' & Hbad) E]|[_ E]]; rewrite E.
  - rewrite map_length in Hi'. rewrite (nth_map_lt' _ ts i [] n0) in Hbad by exact Hi'.
    destruct Hbad as [_ [Hnil|(t & [<-|[]] & Et)]]; [discriminate|].
    rewrite (obj_eval_err_at tol o ts i Hi Et). reflexivity.
  - unfold obj_eval_tuples. rewrite cart_singletons. cbn [map res_seq].
    destruct (obj_eval tol o ts); reflexivity.
Qed.

Theorem scalars_eval tol (o : obj F) ts : obj_eval_scalars tol o ts = obj_eval tol o ts.
Proof. unfold obj_eval_scalars. rewrite grid_singletons. destruct (obj_eval tol o ts); reflexivity. Qed.

(* tensor=False on singletons is the same single point *)
Theorem pointwise_singletons tol (o : obj F) ts : ts <> [] ->
  obj_eval_pointwise tol o (map (fun t => [t]) ts)
  = match obj_eval tol o ts with Ok v => Ok [v] | Err e => Err e end.
Proof.
  intros Hne. destruct (obj_eval_grid tol o (map (fun t => [t]) ts)) as [g|e] eqn:Eg.
  - rewrite (pointwise_diagonal tol o _ 1 g).
    + rewrite grid_singletons in Eg. destruct (obj_eval tol o ts) as [v|e]; [|discriminate].
      injection Eg as <-. cbn [seq map]. rewrite Nat.mul_0_l. reflexivity.
    + destruct ts; [contradiction|discriminate].
    + intros l Hl. apply in_map_iff in Hl. destruct Hl as (t & <- & _). reflexivity.
    + exact Eg.
  - rewrite grid_singletons in Eg. destruct (obj_eval tol o ts) as [v|e'] eqn:Ev; [discriminate|]. injection Eg as ->.
    destruct (obj_eval_err_find tol o ts e Ev) as (-> & i & Hi & Ei).
    unfold obj_eval_pointwise. destruct ts as [|t0 ts']; [contradiction|]. cbn [map].
    assert (Hfa : forallb (fun l : list F => (length l =? length [t0])%nat) (map (fun t => [t]) ts') = true).
    { apply forallb_forall. intros l Hl. apply in_map_iff in Hl. destruct Hl as (t & <- & _). reflexivity. }
    rewrite Hfa. change ([t0] :: map (fun t => [t]) ts') with (map (fun t => [t]) (t0 :: ts')).
    destruct (validate_lists_cases tol (o_bases o) (map (fun t => [t]) (t0 :: ts'))) as [[_ E]|[_ E]]; rewrite E; [reflexivity|].
    unfold obj_eval_tuples. cbn [length seq map res_seq].
    replace (diag_tuple (map (fun t => [t]) (t0 :: ts')) 0) with (t0 :: ts').
    2:{ unfold diag_tuple. rewrite map_map. cbn [nth]. rewrite map_id. reflexivity. }
    rewrite Ev. reflexivity.
Qed.

(* ------------------------------------------------------------------ *)
(* (4) when the grid raises                                            *)
(* ------------------------------------------------------------------ *)
(* non-empty lists: the grid raises iff the evaluation of one of its tuples raises *)
Theorem grid_err_iff_tuple tol (o : obj F) lists : (forall l, In l lists -> l <> []) ->
  (obj_eval_grid tol o lists = Err ValueError <->
   exists ts, In ts (cart lists) /\ obj_eval tol o ts = Err ValueError).
Proof.
  intros Hne. split.
  - unfold obj_eval_grid.
    destruct (validate_lists_cases tol (o_bases o) lists) as [[(i & Hi & Hi' & Hbad) E]|[_ E]]; rewrite E.
    + intros _. destruct Hbad as [_ [Hnil|(t & Ht & Et)]].
      * exfalso. apply (Hne (nth i lists [])); [apply nth_In; exact Hi'|exact Hnil].
      * destruct (cart_pick lists i t Hne Hi' Ht) as (ts & Hts & En). exists ts. split; [exact Hts|].
        apply (obj_eval_err_at tol o ts i Hi). rewrite En. exact Et.
    + unfold obj_eval_tuples. intros Er. apply (res_seq_err _ _ _ Er).
  - intros (ts & Hts & Ets). destruct (obj_eval_grid tol o lists) as [g|e] eqn:Eg.
    + exfalso. unfold obj_eval_grid in Eg. destruct (validate_lists tol (o_bases o) lists); [|discriminate].
      unfold obj_eval_tuples in Eg. destruct (res_seq_err_intro _ _ ts _ Hts Ets) as (e' & Ee'). congruence.
    + rewrite (grid_err_VE tol o lists e Eg). reflexivity.
Qed.

(* a family of tuples drawn from the lists evaluates without error once the list-level check passes *)
Lemma tuples_ok_of_lists_ok tol (o : obj F) lists tuples : length lists = o_pardim o ->
  validate_lists tol (o_bases o) lists = Ok tt ->
  (forall ts, In ts tuples -> Forall2 (fun t l => In t l) ts lists) ->
  exists g, obj_eval_tuples tol o tuples = Ok g.
Proof.
  intros HL Hv Hin. apply res_seq_ok_intro. intros ts Hts.
  destruct (obj_eval tol o ts) as [v|e] eqn:Ev; [exists v; reflexivity|exfalso].
  destruct (obj_eval_err_find tol o ts e Ev) as (_ & i & Hi & Ei).
  destruct (validate_lists_cases tol (o_bases o) lists) as [[_ E]|[Hok _]]; [congruence|].
  apply (Hok i Hi ltac:(unfold o_pardim in *; lia)).
  destruct (Forall2_nth _ _ _ n0 [] (Hin ts Hts)) as [HLt Hn].
  unfold dir_bad. split.
  - unfold validate1 in Ei. cbv zeta in Ei. destruct (Nat.eqb_spec (b_per1 (nth i (o_bases o) dfb)) 0) as [A|A]; [exact A|].
    cbn [andb] in Ei. discriminate.
  - right. exists (nth i ts n0). split; [apply Hn; unfold o_pardim in *; lia|exact Ei].
Qed.

(* one list per direction: the grid raises iff the list-level check of some direction fails, i.e. some
   non-periodic direction has an empty list or a parameter that alone makes obj_eval raise *)
Theorem grid_err_iff_lists tol (o : obj F) lists : length lists = o_pardim o ->
  (obj_eval_grid tol o lists = Err ValueError <->
   exists i, (i < o_pardim o)%nat /\ dir_bad tol (nth i (o_bases o) dfb) (nth i lists [])).
Proof.
  intros HL. unfold obj_eval_grid.
  destruct (validate_lists_cases tol (o_bases o) lists) as [[(i & Hi & Hi' & Hbad) E]|[Hok E]].
  - rewrite E. split; [intros _|reflexivity]. exists i. split; [exact Hi|exact Hbad].
  - split.
    + rewrite E. intros Er. exfalso.
      destruct (tuples_ok_of_lists_ok tol o lists (cart lists) HL E) as (g & Eg); [intros ts Hts; apply In_cart; exact Hts|].
      congruence.
    + intros (i & Hi & Hbad). exfalso. apply (Hok i Hi ltac:(unfold o_pardim in *; lia) Hbad).
Qed.

(* equal lengths, one list per direction: tensor=False raises exactly when the grid does *)
Theorem pointwise_err_iff_grid tol (o : obj F) lists m : lists <> [] -> length lists = o_pardim o ->
  (forall l, In l lists -> length l = m) ->
  (obj_eval_pointwise tol o lists = Err ValueError <-> obj_eval_grid tol o lists = Err ValueError).
Proof.
  intros Hne HL Hm. split.
  - intros Ep. destruct (obj_eval_grid tol o lists) as [g|e] eqn:Eg.
    + rewrite (pointwise_diagonal tol o lists m g Hne Hm Eg) in Ep. discriminate.
    + rewrite (grid_err_VE tol o lists e Eg). reflexivity.
  - intros Eg. destruct (obj_eval_pointwise tol o lists) as [g|e] eqn:Ep; [exfalso|rewrite (pointwise_err_VE tol o lists e Ep); reflexivity].
    unfold obj_eval_grid in Eg. unfold obj_eval_pointwise in Ep.
    destruct lists as [|l0 rest] eqn:El; [contradiction|]. rewrite <- El in *.
    destruct (forallb _ rest); [|discriminate].
    destruct (validate_lists_cases tol (o_bases o) lists) as [[_ E]|[_ E]]; rewrite E in Eg, Ep; [discriminate|].
    destruct (tuples_ok_of_lists_ok tol o lists (cart lists) HL E) as (g' & Eg'); [intros ts Hts; apply In_cart; exact Hts|].
    congruence.
Qed.
End Poly.

(* ------------------------------------------------------------------ *)
(* (4) on R: in terms of the domain                                    *)
(* ------------------------------------------------------------------ *)
Open Scope R_scope.

Lemma validate1_err_iff tol (b : basis R) t : @validate1 R NumR tol b t = Err ValueError <-> ~ in_dom tol b t.
Proof.
  split.
  - intros E D. rewrite (validate1_ok tol b t D) in E. discriminate.
  - apply validate1_err.
Qed.

(* C02 (calling forms, error side): with one parameter list per direction, the tensor-grid evaluation raises
   ValueError exactly when some non-periodic direction has an empty list or a parameter that (after snapping)
   lies outside [start, end]; otherwise it returns the whole grid *)
Theorem grid_value_error_iff tol (o : obj R) (lists : list (list R)) : length lists = @o_pardim R o ->
  (@obj_eval_grid R NumR tol o lists = Err ValueError <->
   exists i, (i < @o_pardim R o)%nat /\ b_per1 (nth i (o_bases o) dflt_basis) = 0%nat /\
     (nth i lists [] = [] \/ exists t, In t (nth i lists []) /\ ~ in_dom tol (nth i (o_bases o) dflt_basis) t)) /\
  ((forall i, (i < @o_pardim R o)%nat -> b_per1 (nth i (o_bases o) dflt_basis) = 0%nat ->
      nth i lists [] <> [] /\ forall t, In t (nth i lists []) -> in_dom tol (nth i (o_bases o) dflt_basis) t) ->
   exists g, @obj_eval_grid R NumR tol o lists = Ok g).
Proof.
  intros HL.
  assert (Hiff : @obj_eval_grid R NumR tol o lists = Err ValueError <->
    exists i, (i < @o_pardim R o)%nat /\ b_per1 (nth i (o_bases o) dflt_basis) = 0%nat /\
     (nth i lists [] = [] \/ exists t, In t (nth i lists []) /\ ~ in_dom tol (nth i (o_bases o) dflt_basis) t)).
  { rewrite (@grid_err_iff_lists R NumR tol o lists HL). unfold dir_bad. change (@dfb R) with dflt_basis.
    split; intros (i & Hi & Hp & [Hn|(t & Ht & Et)]); exists i; (split; [exact Hi|]); (split; [exact Hp|]);
      try (left; exact Hn); right; exists t; (split; [exact Ht|]); apply validate1_err_iff; exact Et. }
  split; [exact Hiff|].
  intros Hall. destruct (@obj_eval_grid R NumR tol o lists) as [g|e] eqn:Eg; [exists g; reflexivity|exfalso].
  pose proof (@grid_err_VE R NumR tol o lists e Eg) as ->.
  destruct Hiff as [Hiff _]. destruct (Hiff eq_refl) as (i & Hi & Hp & [Hn|(t & Ht & Et)]).
  - apply (proj1 (Hall i Hi Hp)). exact Hn.
  - apply Et. apply (proj2 (Hall i Hi Hp)). exact Ht.
Qed.

(* ------------------------------------------------------------------ *)
(* Executable sanity check on Q: a bilinear surface on [0,1]x[0,2], 2x2 parameters *)
(* ------------------------------------------------------------------ *)
Close Scope R_scope.
From Coq Require Import QArith.
Open Scope Q_scope.
Definition ex_surf : obj Q :=
  @mkObj Q [@mkBasis Q 2 [0; 0; 1; 1] 0; @mkBasis Q 2 [0; 0; 2; 2] 0]
           [[0; 0]; [0; 2]; [1; 0]; [1; 2]] 2 false.
Definition qpts (r : res (list (list Q))) : res (list (list Q)) :=
  match r with Ok g => Ok (map (map Qred) g) | Err e => Err e end.
Example forms_on_Q :
  qpts (@obj_eval_grid Q NumQ (1#1000) ex_surf [[1#4; 3#4]; [1#2; 3#2]])
    = Ok [[1#4; 1#2]; [1#4; 3#2]; [3#4; 1#2]; [3#4; 3#2]] /\
  qpts (@obj_eval_pointwise Q NumQ (1#1000) ex_surf [[1#4; 3#4]; [1#2; 3#2]])
    = Ok [[1#4; 1#2]; [3#4; 3#2]] /\
  @obj_eval_pointwise Q NumQ (1#1000) ex_surf [[1#4; 3#4]; [1#2]] = Err ValueError /\
  @obj_eval_grid Q NumQ (1#1000) ex_surf [[1#4; 3#4]; [1#2; 5#2]] = Err ValueError /\
  @obj_eval_grid Q NumQ (1#1000) ex_surf [[]; [1#2]] = Err ValueError /\
  (match @obj_eval_scalars Q NumQ (1#1000) ex_surf [1#4; 3#2] with Ok v => Ok (map Qred v) | Err e => Err e end)
    = Ok [1#4; 3#2].
Proof. vm_compute. repeat split. Qed.

