(* BSplineBasis.matches (Model/Matches.v) on the instance R: specification, affine invariance, reflexivity,
   symmetry (rtol = 0 only), the reverse flag, separation, the effect of numpy's default rtol; examples on Q.

   NOTE on Orientation.compute (splinemodel.py) -- how its use of matches is to be modelled (no proof here):

     for perm in permutations(range(pardim)):  transposed = cps_b.transpose(perm + (pardim,))
       for flip in product([False, True], repeat=pardim):  test_b = transposed[reversed along axis i iff flip[i]]
         if allclose(cps_a, test_b, ...) and
            all(cpa.bases[i].matches(cpb.bases[perm[i]], reverse=flip[i]) for i in range(pardim)):  return cls(perm, flip)

   * `i` is a direction of the REFERENCE system cpa (the first argument, `self` of matches); it is paired with the
     direction perm[i] of the mapped system cpb (class docstring: "direction d in the reference system is mapped to
     direction perm[d] in the actual system; flip[d]: direction d in the reference system should be reversed").
     The control-net test uses the same convention: axis i of `transposed` is axis perm[i] of cps_b, reversed iff
     flip[i], and is compared with axis i of cps_a.
   * So the model is: for every i < pardim,
        basis_matches ktol (nth i (o_bases a)) (nth (nth i perm) (o_bases b)) (nth i flip)
     with a's basis as FIRST operand: with the flag it is a's knot vector that is reversed (last - knots[::-1]) / dt,
     and b's normalised knot vector is the one that enters the rtol term.  This is Model/Orient.v [orient_compute]
     (its [basis_matches] is shown equal to the present one below, [orient_basis_matches_eq], outside dt = 0).
   * By [matches_reverse_flag_l] the flag means "a's basis, reversed (basis_reverse), matches b's basis in direction
     perm[i]"; for rtol = 0 this is the same as "a's basis matches b's reversed basis" ([matches_reverse_flag_r]);
     with numpy's default rtol = 1e-5 the two differ by the asymmetric rtol term only (sandwich [matches_strict_imp],
     [matches_imp_strict]).
   * knot counts: within compute, order, periodicity and the number of functions (shape test) agree, so both knot
     vectors have the same length and the ValueError of [basis_matches_res] cannot occur there.
   * By [matches_affine_invariant] the parametrisation (domain length) of either object is irrelevant for this test. *)
From Coq Require Import QArith.
From Coq Require Import List Arith Reals Lra Lia Bool ZArith.
From SplipyModel Require Import Spec.BSpline Model.Num Model.BasisDef Model.Obj Model.Reparam Model.Orient Model.Matches.
From SplipyModel Require Import Proofs.EvaluateSpec.
Import ListNotations.
Open Scope R_scope.

(* ---------- lists ---------- *)
Lemma mt_hd_map {A B} (f : A -> B) d d' k : k <> [] -> hd d' (map f k) = f (hd d k).
Proof. destruct k; [congruence|reflexivity]. Qed.

Lemma mt_last_map {A B} (f : A -> B) d d' k : k <> [] -> last (map f k) d' = f (last k d).
Proof.
  induction k as [|x k IH]; [congruence|]. intros _. destruct k as [|y k]; [reflexivity|].
  change (last (map f (x :: y :: k)) d') with (last (map f (y :: k)) d').
  change (last (x :: y :: k) d) with (last (y :: k) d). apply IH. discriminate.
Qed.

Lemma mt_last_rev {A} (d : A) k : last (rev k) d = hd d k.
Proof. destruct k; [reflexivity|]. cbn [rev hd]. apply last_last. Qed.

Lemma mt_hd_rev {A} (d : A) k : hd d (rev k) = last k d.
Proof. rewrite <- (rev_involutive k) at 2. rewrite mt_last_rev. reflexivity. Qed.

Lemma mt_last_app {A} (d : A) l r : r <> [] -> last (l ++ r) d = last r d.
Proof.
  intros Hr. induction l as [|x l IH]; [reflexivity|].
  cbn [app]. destruct (l ++ r) eqn:E.
  - destruct l; [cbn in E; congruence|discriminate].
  - exact IH.
Qed.

Lemma mt_hd_app {A} (d : A) l r : l <> [] -> hd d (l ++ r) = hd d l.
Proof. destruct l; [congruence|reflexivity]. Qed.

Lemma mt_nth_map {A B} (f : A -> B) l d d' i : (i < length l)%nat -> nth i (map f l) d' = f (nth i l d).
Proof.
  revert i; induction l as [|x l IH]; intros [|i] Hi; cbn [length map nth] in *; try lia; try reflexivity.
  apply IH. lia.
Qed.

Lemma all2_spec {F} (d : F) p a b :
  all2 p a b = true <-> length a = length b /\ forall i, (i < length a)%nat -> p (nth i a d) (nth i b d) = true.
Proof.
  revert b; induction a as [|x a IH]; intros [|y b]; cbn [all2 length].
  - split; [intros _; split; [reflexivity|intros i Hi; lia]|reflexivity].
  - split; [discriminate|intros [E _]; discriminate].
  - split; [discriminate|intros [E _]; discriminate].
  - rewrite andb_true_iff, IH. split.
    + intros [Hp [El Hn]]. split; [lia|]. intros [|i] Hi; cbn [nth]; [exact Hp|apply Hn; lia].
    + intros [El Hn]. split; [exact (Hn 0%nat ltac:(lia))|]. split; [lia|]. intros i Hi. apply (Hn (S i)). lia.
Qed.

Lemma all2_sym {F} (p : F -> F -> bool) a b : (forall x y, p x y = p y x) -> all2 p a b = all2 p b a.
Proof.
  intros Hp. revert b; induction a as [|x a IH]; intros [|y b]; cbn [all2]; try reflexivity.
  rewrite Hp, IH. reflexivity.
Qed.

Lemma all2_map {F} (p : F -> F -> bool) (f : F -> F) a b : all2 p (map f a) (map f b) = all2 (fun x y => p (f x) (f y)) a b.
Proof.
  revert b; induction a as [|x a IH]; intros [|y b]; cbn [all2 map]; try reflexivity.
  rewrite IH. reflexivity.
Qed.

Lemma all2_ext {F} (p q : F -> F -> bool) a b : (forall x y, p x y = q x y) -> all2 p a b = all2 q a b.
Proof.
  intros Hp. revert b; induction a as [|x a IH]; intros [|y b]; cbn [all2]; try reflexivity.
  rewrite Hp, IH. reflexivity.
Qed.

Lemma all2_rev {F} (d : F) (p : F -> F -> bool) a b : all2 p (rev a) (rev b) = all2 p a b.
Proof.
  assert (K : forall a b, all2 p a b = true -> all2 p (rev a) (rev b) = true).
  { clear a b. intros a b Hab. apply (all2_spec d) in Hab. destruct Hab as [El Hn].
    apply (all2_spec d). rewrite !rev_length. split; [exact El|]. intros i Hi.
    rewrite !rev_nth by lia. rewrite <- El. apply Hn. lia. }
  apply eq_true_iff_eq. split; [|apply K].
  intros Hr. apply K in Hr. rewrite !rev_involutive in Hr. exact Hr.
Qed.

(* the form used in Model/Orient.v *)
Lemma all2_combine {F} (p : F -> F -> bool) a b :
  all2 p a b = (length a =? length b)%nat && forallb (fun xy => p (fst xy) (snd xy)) (combine a b).
Proof.
  revert b; induction a as [|x a IH]; intros [|y b]; cbn [all2 length combine forallb Nat.eqb andb fst snd]; try reflexivity.
  rewrite IH. destruct (length a =? length b)%nat; cbn [andb]; [reflexivity|]. rewrite andb_false_r. reflexivity.
Qed.

(* ---------- the pieces on R ---------- *)
Notation NK := (@normalised_knots R NumR).
Notation NKR := (@normalised_knots_rev R NumR).
Notation DT := (@knots_dt R NumR).

Lemma DT_R k : DT k = last k 0 - hd 0 k.
Proof. reflexivity. Qed.

Lemma isclose_R rtol tol a b : @isclose R NumR rtol tol a b = Rleb (Rabs (a - b)) (tol + rtol * Rabs b).
Proof. unfold isclose. rewrite !nabs_R. reflexivity. Qed.

Lemma isclose_iff rtol tol a b : @isclose R NumR rtol tol a b = true <-> Rabs (a - b) <= tol + rtol * Rabs b.
Proof. rewrite isclose_R. destruct (Rleb_spec (Rabs (a - b)) (tol + rtol * Rabs b)); split; auto; discriminate. Qed.

Lemma isclose0_sym tol a b : @isclose R NumR 0 tol a b = @isclose R NumR 0 tol b a.
Proof. rewrite !isclose_R, !Rmult_0_l, (Rabs_minus_sym a b). reflexivity. Qed.

Lemma isclose0_flip tol a b : @isclose R NumR 0 tol (1 - a) (1 - b) = @isclose R NumR 0 tol a b.
Proof.
  rewrite !isclose_R, !Rmult_0_l. replace (1 - a - (1 - b)) with (b - a) by ring.
  rewrite (Rabs_minus_sym b a). reflexivity.
Qed.

Lemma nth_NK k i : (i < length k)%nat -> nth i (NK k) 0 = (nth i k 0 - hd 0 k) / (last k 0 - hd 0 k).
Proof.
  intros Hi. unfold normalised_knots.
  rewrite (mt_nth_map _ _ 0) by exact Hi. reflexivity.
Qed.

Lemma nth_NKR k i :
  (i < length k)%nat -> nth i (NKR k) 0 = (last k 0 - nth (length k - 1 - i) k 0) / (last k 0 - hd 0 k).
Proof.
  intros Hi. unfold normalised_knots_rev.
  rewrite (mt_nth_map _ _ 0) by (rewrite rev_length; exact Hi). rewrite rev_nth by exact Hi.
  replace (length k - S i)%nat with (length k - 1 - i)%nat by lia. reflexivity.
Qed.

Lemma NK_length k : length (NK k) = length k.
Proof. unfold normalised_knots. apply map_length. Qed.
Lemma NKR_length k : length (NKR k) = length k.
Proof. unfold normalised_knots_rev. rewrite map_length. apply rev_length. Qed.

(* affine maps *)
Lemma DT_affine a c k : DT (map (fun x => a * x + c) k) = a * DT k.
Proof.
  destruct k as [|x0 k0]; [rewrite !DT_R; cbn [map last hd]; ring|]. set (k := x0 :: k0).
  rewrite !DT_R, (mt_last_map _ 0 0), (mt_hd_map _ 0 0) by discriminate. ring.
Qed.

Lemma div_affine a c x h dt : a <> 0 -> (a * x + c - (a * h + c)) / (a * dt) = (x - h) / dt.
Proof.
  intros Ha. destruct (Req_dec dt 0) as [E|E].
  - rewrite E, Rmult_0_r. unfold Rdiv. rewrite Rinv_0. ring.
  - field. split; assumption.
Qed.

Lemma NK_affine a c k : a <> 0 -> NK (map (fun x => a * x + c) k) = NK k.
Proof.
  intros Ha. destruct k as [|x0 k0]; [reflexivity|]. set (k := x0 :: k0).
  unfold normalised_knots. rewrite map_map, DT_affine, (mt_hd_map _ 0 0) by discriminate.
  apply map_ext. intros x. cbn [ndiv nsub n0 NumR]. apply div_affine. exact Ha.
Qed.

Lemma NKR_affine a c k : a <> 0 -> NKR (map (fun x => a * x + c) k) = NKR k.
Proof.
  intros Ha. destruct k as [|x0 k0]; [reflexivity|]. set (k := x0 :: k0).
  unfold normalised_knots_rev. rewrite <- map_rev, map_map, DT_affine, (mt_last_map _ 0 0) by discriminate.
  apply map_ext. intros x. cbn [ndiv nsub n0 NumR].
  replace (a * last k 0 + c - (a * x + c)) with (a * last k 0 + c - (a * x + c)) by reflexivity.
  apply div_affine. exact Ha.
Qed.

(* reflections x -> s - x of the reversed list *)
Lemma DT_reflect s k : DT (map (fun x => s - x) (rev k)) = DT k.
Proof.
  destruct k as [|x0 k0]; [rewrite !DT_R; cbn [map rev last hd]; ring|]. set (k := x0 :: k0).
  assert (Hr : rev k <> []) by (intros E; apply (f_equal (@length R)) in E; rewrite rev_length in E; discriminate).
  rewrite !DT_R, (mt_last_map _ 0 0), (mt_hd_map _ 0 0) by exact Hr.
  rewrite mt_last_rev, mt_hd_rev. ring.
Qed.

Lemma NK_reflect s k : NK (map (fun x => s - x) (rev k)) = NKR k.
Proof.
  destruct k as [|x0 k0]; [reflexivity|]. set (k := x0 :: k0).
  assert (Hr : rev k <> []) by (intros E; apply (f_equal (@length R)) in E; rewrite rev_length in E; discriminate).
  unfold normalised_knots, normalised_knots_rev. rewrite map_map, DT_reflect, (mt_hd_map _ 0 0) by exact Hr.
  rewrite mt_hd_rev. apply map_ext. intros x. cbn [ndiv nsub n0 NumR]. f_equal. ring.
Qed.

Lemma NKR_reflect s k : NKR (map (fun x => s - x) (rev k)) = NK k.
Proof.
  destruct k as [|x0 k0]; [reflexivity|]. set (k := x0 :: k0).
  assert (Hr : rev k <> []) by (intros E; apply (f_equal (@length R)) in E; rewrite rev_length in E; discriminate).
  unfold normalised_knots, normalised_knots_rev.
  rewrite <- map_rev, rev_involutive, map_map, DT_reflect, (mt_last_map _ 0 0) by exact Hr.
  rewrite mt_last_rev. apply map_ext. intros x. cbn [ndiv nsub n0 NumR]. f_equal. ring.
Qed.

(* the reversed normalised vector is 1 - (normalised vector), read backwards *)
Definition flipv (v : list R) : list R := map (fun x => 1 - x) (rev v).

Lemma flipv_invol v : flipv (flipv v) = v.
Proof.
  unfold flipv. rewrite <- map_rev, rev_involutive, map_map. rewrite <- (map_id v) at 2.
  apply map_ext. intros x. ring.
Qed.

Lemma NKR_flip k : DT k <> 0 -> NKR k = flipv (NK k).
Proof.
  intros Hd. unfold flipv, normalised_knots, normalised_knots_rev. rewrite <- map_rev, map_map.
  apply map_ext. intros x. cbn [ndiv nsub n0 NumR]. rewrite DT_R in *. field. exact Hd.
Qed.

Lemma all2_flip tol u v :
  all2 (@isclose R NumR 0 tol) (flipv u) (flipv v) = all2 (@isclose R NumR 0 tol) u v.
Proof.
  unfold flipv. rewrite all2_map, (all2_rev 0). apply all2_ext. intros x y. apply isclose0_flip.
Qed.

Lemma all2_flip_l tol u v :
  all2 (@isclose R NumR 0 tol) (flipv u) v = all2 (@isclose R NumR 0 tol) u (flipv v).
Proof. rewrite <- (flipv_invol v) at 1. apply all2_flip. Qed.

(* ---------- 1. SPEC ---------- *)
Definition nk1 (k : list R) (rev : bool) : list R := if rev then NKR k else NK k.

Lemma gen_unfold rtol tol b1 b2 rev :
  @basis_matches_gen R NumR rtol tol b1 b2 rev =
  (b_order b1 =? b_order b2)%nat && (b_per1 b1 =? b_per1 b2)%nat &&
  (negb (Reqb (DT (b_knots b1)) 0) && negb (Reqb (DT (b_knots b2)) 0) &&
   all2 (@isclose R NumR rtol tol) (nk1 (b_knots b1) rev) (NK (b_knots b2))).
Proof. reflexivity. Qed.

Lemma nk1_length k rev : length (nk1 k rev) = length k.
Proof. destruct rev; [apply NKR_length|apply NK_length]. Qed.

(* matches answers True exactly when order and periodicity agree, both knot vectors have a non-zero total length and
   the same number of knots, and the normalised knots agree one by one within tol + rtol * |second| *)
Theorem basis_matches_gen_spec rtol tol b1 b2 rev :
  @basis_matches_gen R NumR rtol tol b1 b2 rev = true <->
  b_order b1 = b_order b2 /\ b_per1 b1 = b_per1 b2 /\
  DT (b_knots b1) <> 0 /\ DT (b_knots b2) <> 0 /\
  length (b_knots b1) = length (b_knots b2) /\
  forall i, (i < length (b_knots b1))%nat ->
    Rabs (nth i (nk1 (b_knots b1) rev) 0 - nth i (NK (b_knots b2)) 0)
    <= tol + rtol * Rabs (nth i (NK (b_knots b2)) 0).
Proof.
  rewrite gen_unfold, !andb_true_iff, !Nat.eqb_eq, !negb_true_iff, (all2_spec 0), nk1_length, NK_length.
  destruct (Reqb_spec (DT (b_knots b1)) 0) as [E1|E1]; destruct (Reqb_spec (DT (b_knots b2)) 0) as [E2|E2];
    try (split; [intros [[_ _] [[A B] _]]; discriminate | intros (_ & _ & A & B & _); congruence]).
  split.
  - intros [[Ho Hp] [_ [Hl Hn]]]. repeat split; try assumption. intros i Hi. apply isclose_iff. apply Hn. exact Hi.
  - intros (Ho & Hp & _ & _ & Hl & Hn). repeat split; try assumption. intros i Hi. apply isclose_iff. apply Hn. exact Hi.
Qed.

(* the same with the normalised knots written out:
   not reversed: (k1[i] - k1[0]) / dt1;  reversed: (k1[-1] - k1[n-1-i]) / dt1;  second: (k2[i] - k2[0]) / dt2 *)
Theorem basis_matches_gen_spec_explicit rtol tol b1 b2 rev :
  let k1 := b_knots b1 in let k2 := b_knots b2 in
  let dt1 := last k1 0 - hd 0 k1 in let dt2 := last k2 0 - hd 0 k2 in
  @basis_matches_gen R NumR rtol tol b1 b2 rev = true <->
  b_order b1 = b_order b2 /\ b_per1 b1 = b_per1 b2 /\ dt1 <> 0 /\ dt2 <> 0 /\ length k1 = length k2 /\
  forall i, (i < length k1)%nat ->
    Rabs ((if rev then (last k1 0 - nth (length k1 - 1 - i) k1 0) / dt1 else (nth i k1 0 - hd 0 k1) / dt1)
          - (nth i k2 0 - hd 0 k2) / dt2)
    <= tol + rtol * Rabs ((nth i k2 0 - hd 0 k2) / dt2).
Proof.
  cbv zeta. rewrite basis_matches_gen_spec, !DT_R.
  split; intros (Ho & Hp & H1 & H2 & Hl & Hn); repeat split; try assumption; intros i Hi; specialize (Hn i Hi).
  - rewrite nth_NK in Hn by (rewrite <- Hl; exact Hi). destruct rev; cbn [nk1] in Hn.
    + rewrite nth_NKR in Hn by exact Hi. exact Hn.
    + rewrite nth_NK in Hn by exact Hi. exact Hn.
  - rewrite nth_NK by (rewrite <- Hl; exact Hi). destruct rev; cbn [nk1].
    + rewrite nth_NKR by exact Hi. exact Hn.
    + rewrite nth_NK by exact Hi. exact Hn.
Qed.

(* BSplineBasis.matches itself: numpy's default rtol = 1e-5 *)
Lemma np_rtol_default_R : @np_rtol_default R NumR = 1 / 100000.
Proof. reflexivity. Qed.

Theorem basis_matches_spec tol b1 b2 rev :
  @basis_matches R NumR tol b1 b2 rev = true <->
  b_order b1 = b_order b2 /\ b_per1 b1 = b_per1 b2 /\
  DT (b_knots b1) <> 0 /\ DT (b_knots b2) <> 0 /\
  length (b_knots b1) = length (b_knots b2) /\
  forall i, (i < length (b_knots b1))%nat ->
    Rabs (nth i (nk1 (b_knots b1) rev) 0 - nth i (NK (b_knots b2)) 0)
    <= tol + 1 / 100000 * Rabs (nth i (NK (b_knots b2)) 0).
Proof. unfold basis_matches. rewrite basis_matches_gen_spec, np_rtol_default_R. reflexivity. Qed.

(* the exceptions: when both knot vectors are non-empty and of the same length, the result is the boolean *)
Theorem basis_matches_res_ok tol (b1 b2 : basis R) rev :
  b_knots b1 <> [] -> length (b_knots b1) = length (b_knots b2) ->
  @basis_matches_res R NumR tol b1 b2 rev = Ok (@basis_matches R NumR tol b1 b2 rev).
Proof.
  intros Hne Hl. unfold basis_matches_res. cbv zeta.
  destruct ((b_order b1 =? b_order b2)%nat && (b_per1 b1 =? b_per1 b2)%nat) eqn:E; cbn [negb].
  - rewrite <- Hl, Nat.eqb_refl. cbn [negb andb].
    destruct (b_knots b1); [congruence|]. reflexivity.
  - unfold basis_matches. rewrite gen_unfold, E. reflexivity.
Qed.

Theorem basis_matches_res_value tol (b1 b2 : basis R) rev v :
  @basis_matches_res R NumR tol b1 b2 rev = Ok v -> @basis_matches R NumR tol b1 b2 rev = v.
Proof.
  unfold basis_matches_res. cbv zeta.
  destruct ((b_order b1 =? b_order b2)%nat && (b_per1 b1 =? b_per1 b2)%nat) eqn:E; cbn [negb].
  - destruct ((length (b_knots b1) =? 0)%nat || (length (b_knots b2) =? 0)%nat); [discriminate|].
    destruct (negb (length (b_knots b1) =? length (b_knots b2))%nat && negb (length (b_knots b1) =? 1)%nat
              && negb (length (b_knots b2) =? 1)%nat); [discriminate|]. congruence.
  - intros Hv. injection Hv as <-. unfold basis_matches. rewrite gen_unfold, E. reflexivity.
Qed.

(* ---------- bridge: the test inside Model/Orient.v orient_compute ---------- *)
Theorem orient_basis_matches_eq {F} `{Num F} (ktol : F) (a b : basis F) rev :
  neqb (knots_dt (b_knots a)) n0 = false -> neqb (knots_dt (b_knots b)) n0 = false ->
  Orient.basis_matches ktol a b rev = Matches.basis_matches ktol a b rev.
Proof.
  intros Ha Hb. unfold Orient.basis_matches, Matches.basis_matches, basis_matches_gen. cbv zeta.
  rewrite Ha, Hb. cbn [negb andb]. rewrite all2_combine.
  destruct rev; reflexivity.
Qed.

(* ---------- 2. INVARIANCE under affine reparametrisation ---------- *)
Lemma Reqb_scale a x : a <> 0 -> Reqb (a * x) 0 = Reqb x 0.
Proof.
  intros Ha. destruct (Reqb_spec (a * x) 0) as [E|E]; destruct (Reqb_spec x 0) as [E'|E']; try reflexivity.
  - apply Rmult_integral in E. destruct E; congruence.
  - subst x. rewrite Rmult_0_r in E. congruence.
Qed.

Lemma nk1_affine a c k rev : a <> 0 -> nk1 (map (fun x => a * x + c) k) rev = nk1 k rev.
Proof. intros Ha. destruct rev; [apply NKR_affine|apply NK_affine]; exact Ha. Qed.

Theorem matches_affine_l rtol tol a c b1 b2 rev :
  a <> 0 ->
  @basis_matches_gen R NumR rtol tol (basis_shift b1 (fun x => a * x + c)) b2 rev =
  @basis_matches_gen R NumR rtol tol b1 b2 rev.
Proof.
  intros Ha. rewrite !gen_unfold. cbn [basis_shift b_order b_knots b_per1].
  rewrite DT_affine, Reqb_scale, nk1_affine by exact Ha. reflexivity.
Qed.

Theorem matches_affine_r rtol tol a c b1 b2 rev :
  a <> 0 ->
  @basis_matches_gen R NumR rtol tol b1 (basis_shift b2 (fun x => a * x + c)) rev =
  @basis_matches_gen R NumR rtol tol b1 b2 rev.
Proof.
  intros Ha. rewrite !gen_unfold. cbn [basis_shift b_order b_knots b_per1].
  rewrite DT_affine, Reqb_scale, NK_affine by exact Ha. reflexivity.
Qed.

(* matches depends only on the shape of the two knot vectors: both may be rescaled and shifted independently *)
Theorem matches_affine_invariant rtol tol a1 c1 a2 c2 b1 b2 rev :
  a1 > 0 -> a2 > 0 ->
  @basis_matches_gen R NumR rtol tol (basis_shift b1 (fun x => a1 * x + c1)) (basis_shift b2 (fun x => a2 * x + c2)) rev =
  @basis_matches_gen R NumR rtol tol b1 b2 rev.
Proof. intros H1 H2. rewrite matches_affine_l, matches_affine_r by lra. reflexivity. Qed.

Corollary basis_matches_affine_invariant tol a1 c1 a2 c2 b1 b2 rev :
  a1 > 0 -> a2 > 0 ->
  @basis_matches R NumR tol (basis_shift b1 (fun x => a1 * x + c1)) (basis_shift b2 (fun x => a2 * x + c2)) rev =
  @basis_matches R NumR tol b1 b2 rev.
Proof. apply matches_affine_invariant. Qed.

(* the model's BSplineBasis.reparam(s, e) is such a map *)
Lemma mt_kn_map (f : R -> R) (k : list R) i : k <> [] -> @kn R NumR (map f k) i = f (@kn R NumR k i).
Proof.
  intros Hk. unfold kn. cbn [n0 NumR]. rewrite (mt_last_map f 0 0) by exact Hk. apply map_nth.
Qed.

Lemma basis_reparam_affine (b : basis R) s e b' :
  @basis_reparam R NumR b s e = Ok b' -> @b_start R NumR b <> @b_end R NumR b ->
  b' = basis_shift b (fun x => (e - s) / (@b_end R NumR b - @b_start R NumR b) * x
                               + (s - (e - s) / (@b_end R NumR b - @b_start R NumR b) * @b_start R NumR b)).
Proof.
  unfold basis_reparam. cbv zeta. destruct (nleb e s); [discriminate|]. intros Hb Hse. injection Hb as <-.
  unfold basis_shift. cbn [b_order b_knots b_per1]. f_equal.
  destruct (b_knots b) as [|x0 k0] eqn:Ek; [reflexivity|]. rewrite <- Ek.
  assert (Hk : b_knots b <> []) by (rewrite Ek; discriminate).
  rewrite !map_map. apply map_ext. intros x.
  unfold b_end at 1. cbn [b_order b_knots b_per1]. rewrite map_length, mt_kn_map by exact Hk.
  fold (@b_end R NumR b). cbn [nadd nmul ndiv nsub NumR]. field. lra.
Qed.

Theorem matches_reparam_l rtol tol (b1 b2 : basis R) s e b1' rev :
  @basis_reparam R NumR b1 s e = Ok b1' -> @b_start R NumR b1 < @b_end R NumR b1 ->
  @basis_matches_gen R NumR rtol tol b1' b2 rev = @basis_matches_gen R NumR rtol tol b1 b2 rev.
Proof.
  intros Hr Hse. assert (Hes : s < e).
  { unfold basis_reparam in Hr. cbn [nleb NumR] in Hr. destruct (Rleb_spec e s); [discriminate|lra]. }
  rewrite (basis_reparam_affine _ _ _ _ Hr) by lra. apply matches_affine_l.
  apply Rgt_not_eq. apply Rdiv_lt_0_compat; lra.
Qed.

Theorem matches_reparam_r rtol tol (b1 b2 : basis R) s e b2' rev :
  @basis_reparam R NumR b2 s e = Ok b2' -> @b_start R NumR b2 < @b_end R NumR b2 ->
  @basis_matches_gen R NumR rtol tol b1 b2' rev = @basis_matches_gen R NumR rtol tol b1 b2 rev.
Proof.
  intros Hr Hse. assert (Hes : s < e).
  { unfold basis_reparam in Hr. cbn [nleb NumR] in Hr. destruct (Rleb_spec e s); [discriminate|lra]. }
  rewrite (basis_reparam_affine _ _ _ _ Hr) by lra. apply matches_affine_r.
  apply Rgt_not_eq. apply Rdiv_lt_0_compat; lra.
Qed.

(* ---------- 3. reflexivity, symmetry, the reverse flag ---------- *)
Theorem matches_refl rtol tol (b : basis R) :
  0 <= tol -> 0 <= rtol -> DT (b_knots b) <> 0 -> @basis_matches_gen R NumR rtol tol b b false = true.
Proof.
  intros Ht Hr Hd. apply basis_matches_gen_spec. repeat split; try assumption. intros i Hi.
  cbn [nk1]. rewrite Rminus_diag_eq by reflexivity. rewrite Rabs_R0.
  pose proof (Rabs_pos (nth i (NK (b_knots b)) 0)). nra.
Qed.

Corollary basis_matches_refl tol (b : basis R) :
  0 <= tol -> DT (b_knots b) <> 0 -> @basis_matches R NumR tol b b false = true.
Proof. intros Ht Hd. apply matches_refl; [exact Ht|rewrite np_rtol_default_R; lra|exact Hd]. Qed.

(* a knot vector of zero total length matches nothing, not even itself (numpy: 0/0 = nan) *)
Theorem matches_degenerate rtol tol (b1 b2 : basis R) rev :
  DT (b_knots b1) = 0 \/ DT (b_knots b2) = 0 -> @basis_matches_gen R NumR rtol tol b1 b2 rev = false.
Proof.
  intros Hd. rewrite gen_unfold.
  destruct Hd as [E|E]; rewrite E; destruct (Reqb_spec 0 0) as [_|N]; try (exfalso; apply N; reflexivity);
    cbn [negb andb]; rewrite ?andb_false_r; reflexivity.
Qed.

(* rtol = 0: the test is symmetric, with or without the flag *)
Theorem matches_sym tol (b1 b2 : basis R) rev :
  @basis_matches_gen R NumR 0 tol b1 b2 rev = @basis_matches_gen R NumR 0 tol b2 b1 rev.
Proof.
  rewrite !gen_unfold. rewrite (Nat.eqb_sym (b_order b2)), (Nat.eqb_sym (b_per1 b2)).
  destruct (Reqb_spec (DT (b_knots b1)) 0) as [E1|E1]; destruct (Reqb_spec (DT (b_knots b2)) 0) as [E2|E2];
    cbn [negb andb]; rewrite ?andb_false_r; try reflexivity.
  f_equal. destruct rev; cbn [nk1].
  - rewrite !NKR_flip by assumption. rewrite all2_flip_l. apply all2_sym. apply isclose0_sym.
  - apply all2_sym. apply isclose0_sym.
Qed.

(* the model's BSplineBasis.reverse(): knots -> (start + end) - knots, read backwards *)
Lemma basis_reverse_knots (b : basis R) :
  @b_start R NumR b <> @b_end R NumR b ->
  b_knots (@basis_reverse R NumR b) = map (fun x => (@b_start R NumR b + @b_end R NumR b) - x) (rev (b_knots b)).
Proof.
  intros Hse. unfold basis_reverse. cbv zeta. cbn [b_knots]. apply map_ext. intros x.
  cbn [nadd nmul ndiv nsub NumR]. field. lra.
Qed.

(* matching with the flag = the REVERSED first basis matches the second one (any rtol) *)
Theorem matches_reverse_flag_l rtol tol (b1 b2 : basis R) :
  @b_start R NumR b1 <> @b_end R NumR b1 ->
  @basis_matches_gen R NumR rtol tol b1 b2 true = @basis_matches_gen R NumR rtol tol (@basis_reverse R NumR b1) b2 false.
Proof.
  intros Hse. rewrite !gen_unfold, (basis_reverse_knots _ Hse). cbn [nk1].
  rewrite DT_reflect, NK_reflect. reflexivity.
Qed.

(* ... and without the flag = the reversed first basis matches with the flag *)
Theorem matches_reverse_unflag_l rtol tol (b1 b2 : basis R) :
  @b_start R NumR b1 <> @b_end R NumR b1 ->
  @basis_matches_gen R NumR rtol tol b1 b2 false = @basis_matches_gen R NumR rtol tol (@basis_reverse R NumR b1) b2 true.
Proof.
  intros Hse. rewrite !gen_unfold, (basis_reverse_knots _ Hse). cbn [nk1].
  rewrite DT_reflect, NKR_reflect. reflexivity.
Qed.

(* rtol = 0: matching with the flag = the first basis matches the REVERSED second one *)
Theorem matches_reverse_flag_r tol (b1 b2 : basis R) :
  @b_start R NumR b2 <> @b_end R NumR b2 ->
  @basis_matches_gen R NumR 0 tol b1 b2 true = @basis_matches_gen R NumR 0 tol b1 (@basis_reverse R NumR b2) false.
Proof.
  intros Hse. rewrite !gen_unfold, (basis_reverse_knots _ Hse). cbn [nk1 basis_reverse b_order b_per1].
  rewrite DT_reflect, NK_reflect.
  destruct (Reqb_spec (DT (b_knots b1)) 0) as [E1|E1]; destruct (Reqb_spec (DT (b_knots b2)) 0) as [E2|E2];
    cbn [negb andb]; rewrite ?andb_false_r; try reflexivity.
  f_equal. rewrite !NKR_flip by assumption. apply all2_flip_l.
Qed.

(* rtol = 0: reversing both operands changes nothing, with or without the flag *)
Theorem matches_reverse_both tol (b1 b2 : basis R) rev :
  @b_start R NumR b1 <> @b_end R NumR b1 -> @b_start R NumR b2 <> @b_end R NumR b2 ->
  @basis_matches_gen R NumR 0 tol (@basis_reverse R NumR b1) (@basis_reverse R NumR b2) rev =
  @basis_matches_gen R NumR 0 tol b1 b2 rev.
Proof.
  intros H1 H2. rewrite !gen_unfold, (basis_reverse_knots _ H1), (basis_reverse_knots _ H2).
  cbn [basis_reverse b_order b_per1]. rewrite !DT_reflect, NK_reflect.
  destruct (Reqb_spec (DT (b_knots b1)) 0) as [E1|E1]; destruct (Reqb_spec (DT (b_knots b2)) 0) as [E2|E2];
    cbn [negb andb]; rewrite ?andb_false_r; try reflexivity.
  f_equal. destruct rev; cbn [nk1].
  - rewrite NKR_reflect, !NKR_flip by assumption. symmetry. apply all2_flip_l.
  - rewrite NK_reflect, !NKR_flip by assumption. apply all2_flip.
Qed.

(* any rtol: flag and reversal of the first operand cancel *)
Theorem matches_reverse_flag_cancel rtol tol (b1 b2 : basis R) :
  @b_start R NumR b1 <> @b_end R NumR b1 ->
  @basis_matches_gen R NumR rtol tol (@basis_reverse R NumR b1) b2 true = @basis_matches_gen R NumR rtol tol b1 b2 false.
Proof. intros Hse. symmetry. apply matches_reverse_unflag_l. exact Hse. Qed.

(* ---------- 4. SEPARATION ---------- *)
Theorem matches_separated rtol tol (b1 b2 : basis R) rev i :
  (i < length (b_knots b1))%nat ->
  Rabs (nth i (nk1 (b_knots b1) rev) 0 - nth i (NK (b_knots b2)) 0) > tol + rtol * Rabs (nth i (NK (b_knots b2)) 0) ->
  @basis_matches_gen R NumR rtol tol b1 b2 rev = false.
Proof.
  intros Hi Hgt. apply not_true_is_false. intros Hm. apply basis_matches_gen_spec in Hm.
  destruct Hm as (_ & _ & _ & _ & _ & Hn). specialize (Hn i Hi). lra.
Qed.

Theorem matches_length_mismatch rtol tol (b1 b2 : basis R) rev :
  length (b_knots b1) <> length (b_knots b2) -> @basis_matches_gen R NumR rtol tol b1 b2 rev = false.
Proof.
  intros Hl. apply not_true_is_false. intros Hm. apply basis_matches_gen_spec in Hm. tauto.
Qed.

(* the effect of numpy's default rtol: the strict test (rtol = 0) implies the actual one, and the actual one implies
   the strict test with the tolerance tol + rtol (second knot vector within [first knot, last knot]) *)
Theorem matches_strict_imp rtol tol (b1 b2 : basis R) rev :
  0 <= rtol -> @basis_matches_gen R NumR 0 tol b1 b2 rev = true -> @basis_matches_gen R NumR rtol tol b1 b2 rev = true.
Proof.
  intros Hr Hm. apply basis_matches_gen_spec in Hm. apply basis_matches_gen_spec.
  destruct Hm as (Ho & Hp & H1 & H2 & Hl & Hn). repeat split; try assumption. intros i Hi. specialize (Hn i Hi).
  pose proof (Rabs_pos (nth i (NK (b_knots b2)) 0)). nra.
Qed.

Lemma NK_unit k i :
  (i < length k)%nat -> (forall x, In x k -> hd 0 k <= x <= last k 0) -> DT k <> 0 -> Rabs (nth i (NK k) 0) <= 1.
Proof.
  intros Hi Hb Hd. rewrite nth_NK by exact Hi. rewrite DT_R in Hd.
  destruct (Hb (nth i k 0) (nth_In _ _ Hi)) as [A B].
  assert (Hpos : 0 < last k 0 - hd 0 k) by lra.
  rewrite Rabs_right.
  - apply (Rmult_le_reg_r (last k 0 - hd 0 k)); [exact Hpos|]. unfold Rdiv. rewrite Rmult_assoc, Rinv_l by lra. lra.
  - apply Rle_ge. apply Rmult_le_pos; [lra|]. apply Rlt_le. apply Rinv_0_lt_compat. exact Hpos.
Qed.

Theorem matches_imp_strict rtol tol (b1 b2 : basis R) rev :
  0 <= rtol -> (forall x, In x (b_knots b2) -> hd 0 (b_knots b2) <= x <= last (b_knots b2) 0) ->
  @basis_matches_gen R NumR rtol tol b1 b2 rev = true -> @basis_matches_gen R NumR 0 (tol + rtol) b1 b2 rev = true.
Proof.
  intros Hr Hb Hm. apply basis_matches_gen_spec in Hm. apply basis_matches_gen_spec.
  destruct Hm as (Ho & Hp & H1 & H2 & Hl & Hn). repeat split; try assumption. intros i Hi. specialize (Hn i Hi).
  pose proof (NK_unit (b_knots b2) i ltac:(lia) Hb H2). nra.
Qed.

(* one interior knot moved: k1 = l ++ x :: r, k2 = l ++ (x + delta) :: r, same ends, total length len *)
Section MovedKnot.
  Variables (l r : list R) (x delta : R).
  Hypothesis Hl : l <> [].
  Hypothesis Hr : r <> [].
  Let k1 := l ++ x :: r.
  Let k2 := l ++ (x + delta) :: r.
  Let len := last r 0 - hd 0 l.

  Lemma moved_hd y : hd 0 (l ++ y :: r) = hd 0 l.
  Proof. apply mt_hd_app. exact Hl. Qed.
  Lemma moved_last y : last (l ++ y :: r) 0 = last r 0.
  Proof.
    rewrite mt_last_app by discriminate. destruct r; [congruence|]. reflexivity.
  Qed.
  Lemma moved_length y : length (l ++ y :: r) = S (length l + length r).
  Proof. rewrite app_length. cbn [length]. lia. Qed.
  Lemma moved_nth_other y i : i <> length l -> nth i (l ++ y :: r) 0 = nth i (l ++ x :: r) 0.
  Proof.
    intros Hi. destruct (Nat.lt_ge_cases i (length l)) as [A|A].
    - rewrite !app_nth1 by exact A. reflexivity.
    - rewrite !app_nth2 by exact A. destruct (i - length l)%nat eqn:E; [lia|]. reflexivity.
  Qed.

  (* exact threshold, any rtol: the two bases match iff the displacement, measured on the normalised vector, is within
     tol + rtol * (normalised position of the moved knot) *)
  Theorem matches_moved_knot_iff rtol tol p per :
    len <> 0 -> 0 <= tol -> 0 <= rtol ->
    @basis_matches_gen R NumR rtol tol (mkBasis p k1 per) (mkBasis p k2 per) false = true <->
    Rabs (delta / len) <= tol + rtol * Rabs ((x + delta - hd 0 l) / len).
  Proof.
    intros Hlen Ht Hrt. rewrite basis_matches_gen_spec_explicit. cbv zeta. cbn [b_order b_knots b_per1].
    unfold k1, k2. rewrite !moved_hd, !moved_last, !moved_length. fold len. split.
    - intros (_ & _ & _ & _ & _ & Hn). specialize (Hn (length l) ltac:(lia)). rewrite !nth_middle in Hn.
      replace ((x - hd 0 l) / len - (x + delta - hd 0 l) / len) with (- (delta / len)) in Hn by (field; exact Hlen).
      rewrite Rabs_Ropp in Hn. exact Hn.
    - intros Hd. repeat split; try assumption; try reflexivity. intros i Hi.
      destruct (Nat.eq_dec i (length l)) as [E|E].
      + subst i. rewrite !nth_middle.
        replace ((x - hd 0 l) / len - (x + delta - hd 0 l) / len) with (- (delta / len)) by (field; exact Hlen).
        rewrite Rabs_Ropp. exact Hd.
      + rewrite (moved_nth_other (x + delta)) by exact E. rewrite Rminus_diag_eq by reflexivity. rewrite Rabs_R0.
        pose proof (Rabs_pos ((nth i (l ++ x :: r) 0 - hd 0 l) / len)). nra.
  Qed.

  (* rtol = 0 (the tolerance alone): match iff |delta| <= tol * length *)
  Corollary matches_moved_knot_strict tol p per :
    0 < len -> 0 <= tol ->
    @basis_matches_gen R NumR 0 tol (mkBasis p k1 per) (mkBasis p k2 per) false = true <-> Rabs delta <= tol * len.
  Proof.
    intros Hlen Ht. rewrite matches_moved_knot_iff by lra. rewrite Rmult_0_l, Rplus_0_r.
    unfold Rdiv. rewrite Rabs_mult, (Rabs_right (/ len)) by (apply Rle_ge, Rlt_le, Rinv_0_lt_compat; exact Hlen).
    split; intros Hd.
    - apply (Rmult_le_compat_r len) in Hd; [|lra]. rewrite Rmult_assoc, Rinv_l in Hd by lra. lra.
    - apply (Rmult_le_reg_r len); [exact Hlen|]. rewrite Rmult_assoc, Rinv_l by lra. lra.
  Qed.

  (* "non-matching objects are reported as such": an interior knot moved by more than (tol + rtol) * length (and kept
     inside the knot range) is reported, whatever the length of the domain *)
  Corollary matches_moved_knot_reported rtol tol p per :
    0 < len -> 0 <= tol -> 0 <= rtol -> hd 0 l <= x + delta <= last r 0 ->
    Rabs delta > (tol + rtol) * len ->
    @basis_matches_gen R NumR rtol tol (mkBasis p k1 per) (mkBasis p k2 per) false = false.
  Proof.
    intros Hlen Ht Hrt Hin Hd. apply not_true_is_false. intros Hm. apply matches_moved_knot_iff in Hm; try lra.
    assert (Hi : / len > 0) by (apply Rinv_0_lt_compat; exact Hlen).
    unfold Rdiv in Hm. rewrite !Rabs_mult, (Rabs_right (/ len)) in Hm by lra.
    assert (Hu : Rabs (x + delta - hd 0 l) * / len <= 1).
    { rewrite Rabs_right by lra. apply (Rmult_le_reg_r len); [exact Hlen|]. rewrite Rmult_assoc, Rinv_l by lra.
      unfold len. lra. }
    assert (Hd' : Rabs delta * / len <= tol + rtol) by nra.
    apply (Rmult_le_compat_r len) in Hd'; [|lra]. rewrite Rmult_assoc, Rinv_l in Hd' by lra. lra.
  Qed.

  (* and with rtol = 0: moved by more than tol * length *)
  Corollary matches_moved_knot_reported_strict tol p per :
    0 < len -> 0 <= tol -> Rabs delta > tol * len ->
    @basis_matches_gen R NumR 0 tol (mkBasis p k1 per) (mkBasis p k2 per) false = false.
  Proof.
    intros Hlen Ht Hd. apply not_true_is_false. intros Hm. apply matches_moved_knot_strict in Hm; lra.
  Qed.
End MovedKnot.

(* ---------- 5. examples on Q (the executable instance) ---------- *)
Section Examples.
  Open Scope Q_scope.
  Definition qtol : Q := 1 # 10000000000.
  Definition qb (p : nat) (k : list Q) : basis Q := mkBasis p k 0.

  (* same shape, other domain: matches *)
  Example ex_match_scaled :
    @basis_matches Q NumQ qtol (qb 2 [0; 0; 1; 2; 2]) (qb 2 [10; 10; 15; 20; 20]) false = true.
  Proof. vm_compute. reflexivity. Qed.
  (* interior knot moved by 0.1 on a domain of length 2: reported *)
  Example ex_nomatch :
    @basis_matches Q NumQ qtol (qb 2 [0; 0; 1; 2; 2]) (qb 2 [0; 0; 11 # 10; 2; 2]) false = false.
  Proof. vm_compute. reflexivity. Qed.
  (* tiny domain [0, 2e-7], interior knot moved by 30% (3e-8 in absolute terms): still reported *)
  Example ex_nomatch_tiny :
    @basis_matches Q NumQ qtol (qb 2 [0; 0; 1 # 10000000; 2 # 10000000; 2 # 10000000])
                               (qb 2 [0; 0; 13 # 100000000; 2 # 10000000; 2 # 10000000]) false = false.
  Proof. vm_compute. reflexivity. Qed.
  (* the tiny vector does match the unit-size one of the same shape *)
  Example ex_match_tiny :
    @basis_matches Q NumQ qtol (qb 2 [0; 0; 1 # 10000000; 2 # 10000000; 2 # 10000000]) (qb 2 [0; 0; 1; 2; 2]) false = true.
  Proof. vm_compute. reflexivity. Qed.
  (* reverse flag: [0,0,.3,1,1] read backwards is [0,0,.7,1,1] (here on [5,7]) *)
  Example ex_reverse :
    @basis_matches Q NumQ qtol (qb 2 [0; 0; 3 # 10; 1; 1]) (qb 2 [5; 5; 64 # 10; 7; 7]) true = true /\
    @basis_matches Q NumQ qtol (qb 2 [0; 0; 3 # 10; 1; 1]) (qb 2 [5; 5; 64 # 10; 7; 7]) false = false /\
    @basis_matches Q NumQ qtol (@basis_reverse Q NumQ (qb 2 [0; 0; 3 # 10; 1; 1])) (qb 2 [5; 5; 64 # 10; 7; 7]) false = true.
  Proof. vm_compute. repeat split; reflexivity. Qed.
  (* order / periodicity / knot count *)
  Example ex_order :
    @basis_matches Q NumQ qtol (qb 2 [0; 0; 1; 2; 2]) (qb 1 [0; 0; 1; 2; 2]) false = false /\
    @basis_matches Q NumQ qtol (qb 2 [0; 0; 1; 2; 2]) (mkBasis 2 [0; 0; 1; 2; 2] 1) false = false /\
    @basis_matches Q NumQ qtol (qb 2 [0; 0; 1; 2; 2]) (qb 2 [0; 0; 1; 2; 3; 3]) false = false /\
    @basis_matches_res Q NumQ qtol (qb 2 [0; 0; 1; 2; 2]) (qb 2 [0; 0; 1; 2; 3; 3]) false = Err ValueError.
  Proof. vm_compute. repeat split; reflexivity. Qed.
  (* numpy's default rtol = 1e-5 is active: with knot_tolerance = 1e-10 a knot moved by 1e-5 on a domain of length 2
     (5e-6 on the normalised vector) is NOT reported (Python: True); the strict test (rtol = 0) reports it *)
  Example ex_rtol_accepts :
    @basis_matches Q NumQ qtol (qb 2 [0; 0; 1; 2; 2]) (qb 2 [0; 0; 100001 # 100000; 2; 2]) false = true /\
    @basis_matches_gen Q NumQ 0 qtol (qb 2 [0; 0; 1; 2; 2]) (qb 2 [0; 0; 100001 # 100000; 2; 2]) false = false /\
    @basis_matches Q NumQ qtol (qb 2 [0; 0; 1; 2; 2]) (qb 2 [0; 0; 10001 # 10000; 2; 2]) false = false.
  Proof. vm_compute. repeat split; reflexivity. Qed.
  (* huge domain [0, 2e6]: a knot moved by 1 (absolute) is accepted for the same reason (Python: True) *)
  Example ex_rtol_big :
    @basis_matches Q NumQ qtol (qb 2 [0; 0; 1000000; 2000000; 2000000]) (qb 2 [0; 0; 1000001; 2000000; 2000000]) false = true.
  Proof. vm_compute. reflexivity. Qed.
  (* with the default rtol the test is NOT symmetric (Python: a.matches(b) = True, b.matches(a) = False) *)
  Example ex_asymmetric :
    @basis_matches Q NumQ qtol (qb 2 [0; 0; 1; 2; 2]) (qb 2 [0; 0; 100001000024 # 100000000000; 2; 2]) false = true /\
    @basis_matches Q NumQ qtol (qb 2 [0; 0; 100001000024 # 100000000000; 2; 2]) (qb 2 [0; 0; 1; 2; 2]) false = false.
  Proof. vm_compute. repeat split; reflexivity. Qed.
  (* zero-length knot vector BSplineBasis(1,[1,1]): matches nothing, not even itself (Python: False, 0/0 = nan);
     the test in Model/Orient.v (total division, no guard) answers true there *)
  Example ex_degenerate :
    @basis_matches Q NumQ qtol (qb 1 [1; 1]) (qb 1 [1; 1]) false = false /\
    @Orient.basis_matches Q NumQ qtol (qb 1 [1; 1]) (qb 1 [1; 1]) false = true.
  Proof. vm_compute. repeat split; reflexivity. Qed.
End Examples.

Print Assumptions basis_matches_gen_spec.
Print Assumptions basis_matches_gen_spec_explicit.
Print Assumptions basis_matches_spec.
Print Assumptions basis_matches_res_ok.
Print Assumptions basis_matches_res_value.
Print Assumptions orient_basis_matches_eq.
Print Assumptions matches_affine_invariant.
Print Assumptions basis_matches_affine_invariant.
Print Assumptions matches_reparam_l.
Print Assumptions matches_reparam_r.
Print Assumptions matches_refl.
Print Assumptions basis_matches_refl.
Print Assumptions matches_degenerate.
Print Assumptions matches_sym.
Print Assumptions matches_reverse_flag_l.
Print Assumptions matches_reverse_unflag_l.
Print Assumptions matches_reverse_flag_r.
Print Assumptions matches_reverse_both.
Print Assumptions matches_reverse_flag_cancel.
Print Assumptions matches_separated.
Print Assumptions matches_length_mismatch.
Print Assumptions matches_strict_imp.
Print Assumptions matches_imp_strict.
Print Assumptions matches_moved_knot_iff.
Print Assumptions matches_moved_knot_strict.
Print Assumptions matches_moved_knot_reported.
Print Assumptions matches_moved_knot_reported_strict.
Print Assumptions ex_match_scaled.
Print Assumptions ex_asymmetric.
