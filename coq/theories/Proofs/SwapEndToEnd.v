(* C06, end to end on the model's own functions: [obj_swap] followed by [obj_eval], every parametric dimension and
   every pair of distinct directions d1, d2.

     tsum_swap       the tensor-product contraction with the rows d1 and d2 exchanged, over the re-indexed net,
                     equals the contraction over the original net (generalises ReparamObj.tsum_swap2)
     swap_eval       obj_eval (obj_swap o d1 d2) ts2 = obj_eval o ts   when ts2 is ts with entries d1, d2 exchanged
     swap_eval_idx   the same with ts2 = swap_idx 0 ts d1 d2
     swap_eval_surface, swap_eval_volume01/02/12   the pardim 2 and pardim 3 instances written out
     swap_wf, swap_bases   the result is well formed; its bases are the old bases exchanged
     swap_involution obj_swap (obj_swap o d1 d2) d1 d2 = o  (bases, control net as a list, everything)
     swap_curve      objects of pardim 1 are returned unchanged

   No hypothesis on the parameters beyond membership in the domain: swap does not touch knots, sides or snapping. *)
From Coq Require Import List Arith Reals Lra Lia Bool ZArith.
From SplipyModel Require Import Spec.BSpline Model.Num Model.BasisDef Model.BasisEval Model.Tensor Model.Obj Model.KnotInsert Model.Interp Model.Reparam
  Proofs.KnotList Proofs.SpanCorrect Proofs.EvaluateSpec Proofs.EvalConsequences Proofs.SnapSpec Proofs.TensorLemmas Proofs.ObjEval
  Proofs.InsertMatrix Proofs.TensorApply Proofs.OrderRaise Proofs.InsertEndToEnd Proofs.ChangeDirEval.
Import ListNotations.
Open Scope R_scope.

(* ------------------------------------------------------------------------------------------------ *)
(* swap_idx as a transposition of positions *)
Definition tr (d1 d2 i : nat) : nat := if (i =? d1)%nat then d2 else if (i =? d2)%nat then d1 else i.

Lemma tr_invol d1 d2 i : tr d1 d2 (tr d1 d2 i) = i.
Proof.
  unfold tr. destruct (Nat.eqb_spec i d1) as [->|N1].
  - destruct (Nat.eqb_spec d2 d1) as [E|N]; [exact E|]. rewrite Nat.eqb_refl. reflexivity.
  - destruct (Nat.eqb_spec i d2) as [->|N2].
    + rewrite Nat.eqb_refl. reflexivity.
    + destruct (Nat.eqb_spec i d1); [contradiction|]. destruct (Nat.eqb_spec i d2); [contradiction|]. reflexivity.
Qed.
Lemma tr_lt d1 d2 i n : (d1 < n)%nat -> (d2 < n)%nat -> (i < n)%nat -> (tr d1 d2 i < n)%nat.
Proof. intros. unfold tr. destruct (i =? d1)%nat; [assumption|]. destruct (i =? d2)%nat; assumption. Qed.
Lemma tr_sym d1 d2 i : tr d1 d2 i = tr d2 d1 i.
Proof.
  unfold tr. destruct (Nat.eqb_spec i d1) as [E1|N1]; destruct (Nat.eqb_spec i d2) as [E2|N2]; try reflexivity.
  congruence.
Qed.

Lemma swap_idx_length {A} (dflt : A) l d1 d2 : length (swap_idx dflt l d1 d2) = length l.
Proof. unfold swap_idx. rewrite !upd_length. reflexivity. Qed.

Lemma swap_idx_nth {A} (dflt dflt' : A) l d1 d2 i : (d1 < length l)%nat -> (d2 < length l)%nat ->
  nth i (swap_idx dflt l d1 d2) dflt' = nth (tr d1 d2 i) l dflt'.
Proof.
  intros H1 H2. unfold swap_idx, tr.
  destruct (Nat.eqb_spec i d2) as [->|N2].
  - rewrite upd_nth_same by (rewrite upd_length; exact H2).
    destruct (Nat.eqb_spec d2 d1) as [->|N]; apply nth_indep; assumption.
  - rewrite upd_nth_other by exact N2.
    destruct (Nat.eqb_spec i d1) as [->|N1].
    + rewrite upd_nth_same by exact H1. apply nth_indep. exact H2.
    + rewrite upd_nth_other by exact N1. reflexivity.
Qed.

Lemma upd_map' {A B} (f : A -> B) l i v : map f (upd l i v) = upd (map f l) i (f v).
Proof. revert i. induction l as [|x l IH]; intros i; [destruct i; reflexivity|]. destruct i; cbn [upd map]; [reflexivity|]. f_equal. apply IH. Qed.

Lemma swap_idx_map {A B} (f : A -> B) (dflt : A) l d1 d2 :
  map f (swap_idx dflt l d1 d2) = swap_idx (f dflt) (map f l) d1 d2.
Proof. unfold swap_idx. rewrite !upd_map', !map_nth. reflexivity. Qed.

Lemma swap_idx_dflt {A} (dflt dflt' : A) l d1 d2 : (d1 < length l)%nat -> (d2 < length l)%nat ->
  swap_idx dflt l d1 d2 = swap_idx dflt' l d1 d2.
Proof. intros H1 H2. unfold swap_idx. rewrite (nth_indep l dflt dflt' H1), (nth_indep l dflt dflt' H2). reflexivity. Qed.

Lemma swap_idx_sym {A} (dflt : A) l d1 d2 : (d1 < length l)%nat -> (d2 < length l)%nat ->
  swap_idx dflt l d1 d2 = swap_idx dflt l d2 d1.
Proof.
  intros H1 H2. apply (nth_ext _ _ dflt dflt); [rewrite !swap_idx_length; reflexivity|].
  intros i _. rewrite !swap_idx_nth by assumption. rewrite tr_sym. reflexivity.
Qed.

Lemma swap_idx_invol {A} (dflt : A) l d1 d2 : (d1 < length l)%nat -> (d2 < length l)%nat ->
  swap_idx dflt (swap_idx dflt l d1 d2) d1 d2 = l.
Proof.
  intros H1 H2. apply (nth_ext _ _ dflt dflt); [rewrite !swap_idx_length; reflexivity|].
  intros i _. rewrite swap_idx_nth by (rewrite swap_idx_length; assumption).
  rewrite swap_idx_nth by assumption. rewrite tr_invol. reflexivity.
Qed.

Lemma upd_upd' {A} (l : list A) i v w : upd (upd l i v) i w = upd l i w.
Proof. revert i. induction l as [|x l IH]; intros i; [destruct i; reflexivity|]. destruct i; cbn [upd]; [reflexivity|]. f_equal. apply IH. Qed.

(* ------------------------------------------------------------------------------------------------ *)
(* multi-index form of the contraction *)
Fixpoint gsum (rows : list (list R)) (g : list nat -> R) : R :=
  match rows with
  | [] => g []
  | N :: rest => lcf N (fun i => gsum rest (fun idx => g (i :: idx)))
  end.

Definition inshape (idx shape : list nat) : Prop := Forall2 lt idx shape.

Lemma inshape_length idx shape : inshape idx shape -> length idx = length shape.
Proof. induction 1; [reflexivity|cbn; lia]. Qed.

Lemma gsum_ext rows : forall g h, (forall idx, inshape idx (map (@length R) rows) -> g idx = h idx) -> gsum rows g = gsum rows h.
Proof.
  induction rows as [|N rest IH]; intros g h H; cbn [gsum].
  - apply H. constructor.
  - apply lcf_ext. intros i Hi. apply IH. intros idx Hidx. apply H. cbn [map]. constructor; assumption.
Qed.

Lemma tsum_gsum rows : forall f, tsum rows f = gsum rows (fun idx => f (@ravel (map (@length R) rows) idx)).
Proof.
  induction rows as [|N rest IH]; intros f; cbn [tsum gsum]; [reflexivity|]. cbv zeta.
  apply lcf_ext. intros i _. rewrite IH. reflexivity.
Qed.

Lemma lcf_exchange N M (X : nat -> nat -> R) :
  lcf N (fun i => lcf M (fun j => X i j)) = lcf M (fun j => lcf N (fun i => X i j)).
Proof.
  unfold lcf.
  rewrite (sumf_ext _ (fun i => sumf (fun j => nth i N 0 * (nth j M 0 * X i j)) 0 (length M))).
  2:{ intros i _. rewrite <- sumf_scal. reflexivity. }
  rewrite sumf_exchange. apply sumf_ext. intros j _. rewrite <- sumf_scal. apply sumf_ext. intros i _. ring.
Qed.

Lemma lcf_one G : lcf [1] G = G 0%nat.
Proof. unfold lcf. cbn [length sumf nth]. ring. Qed.

(* pull the sum over position e out to the front; the position keeps a dummy one-point row *)
Lemma gsum_pull : forall e rows g, (e < length rows)%nat ->
  gsum rows g = lcf (nth e rows []) (fun j => gsum (upd rows e [1]) (fun idx => g (upd idx e j))).
Proof.
  induction e as [|e IH]; intros rows g He; (destruct rows as [|N rest]; [cbn in He; lia|]).
  - cbn [nth upd gsum]. apply lcf_ext. intros j _. rewrite lcf_one. reflexivity.
  - cbn [nth upd gsum].
    rewrite (lcf_ext N _ (fun i => lcf (nth e rest []) (fun j => gsum (upd rest e [1]) (fun idx => g (i :: upd idx e j))))).
    2:{ intros i _. rewrite (IH rest) by (cbn in He; lia). reflexivity. }
    rewrite lcf_exchange. reflexivity.
Qed.

Lemma gsum_swap0 e N rest g : (e < length rest)%nat ->
  gsum (swap_idx [] (N :: rest) 0 (S e)) (fun idx => g (swap_idx 0%nat idx 0 (S e))) = gsum (N :: rest) g.
Proof.
  intros He. unfold swap_idx at 1. cbn [nth upd gsum].
  (* left: sum over M first, then pull N out of position e *)
  rewrite (lcf_ext (nth e rest []) _ (fun j => lcf N (fun i => gsum (upd rest e [1]) (fun idx => g (i :: upd idx e j))))).
  2:{ intros j _. rewrite (gsum_pull e (upd rest e N)) by (rewrite upd_length; exact He).
      rewrite upd_nth_same by exact He. rewrite upd_upd'. apply lcf_ext. intros i _.
      apply gsum_ext. intros idx Hidx. apply inshape_length in Hidx. rewrite map_length, upd_length in Hidx.
      unfold swap_idx. cbn [nth upd]. rewrite upd_nth_same by lia. rewrite upd_upd'. reflexivity. }
  rewrite lcf_exchange. apply lcf_ext. intros i _. rewrite (gsum_pull e rest) by exact He. reflexivity.
Qed.

Lemma gsum_swap_lt : forall d1 d2 rows g, (d1 < d2)%nat -> (d2 < length rows)%nat ->
  gsum (swap_idx [] rows d1 d2) (fun idx => g (swap_idx 0%nat idx d1 d2)) = gsum rows g.
Proof.
  induction d1 as [|d1 IH]; intros d2 rows g H12 H2; (destruct rows as [|N rest]; [cbn in H2; lia|]);
    (destruct d2 as [|d2]; [lia|]).
  - apply gsum_swap0. cbn in H2. lia.
  - unfold swap_idx at 1. cbn [nth upd gsum]. apply lcf_ext. intros i _.
    rewrite <- (IH d2 rest (fun idx => g (i :: idx))) by (cbn in H2; lia). reflexivity.
Qed.

Theorem gsum_swap d1 d2 rows g : d1 <> d2 -> (d1 < length rows)%nat -> (d2 < length rows)%nat ->
  gsum (swap_idx [] rows d1 d2) (fun idx => g (swap_idx 0%nat idx d1 d2)) = gsum rows g.
Proof.
  intros Hne H1 H2. destruct (Nat.lt_ge_cases d1 d2) as [L|L]; [apply gsum_swap_lt; assumption|].
  rewrite (swap_idx_sym [] rows d1 d2) by assumption.
  rewrite <- (gsum_swap_lt d2 d1 rows g) by lia.
  apply gsum_ext. intros idx Hidx. apply inshape_length in Hidx. rewrite map_length, swap_idx_length in Hidx.
  rewrite (swap_idx_sym 0%nat idx d1 d2) by lia. reflexivity.
Qed.

(* ------------------------------------------------------------------------------------------------ *)
(* ravel / unravel *)
Lemma ravel_lt : forall shape idx, inshape idx shape -> (@ravel shape idx < prodl shape)%nat.
Proof.
  induction shape as [|n sh IH]; intros idx H; inversion H as [|i n' idx' sh' Hi Hrest]; subst; cbn [ravel prodl fold_right]; [lia|].
  specialize (IH idx' Hrest). unfold prodl in IH. nia.
Qed.

Lemma unravel_ravel : forall shape idx, inshape idx shape -> @unravel shape (@ravel shape idx) = idx.
Proof.
  induction shape as [|n sh IH]; intros idx H; inversion H as [|i n' idx' sh' Hi Hrest]; subst; cbn [ravel unravel]; [reflexivity|].
  cbv zeta. pose proof (ravel_lt sh idx' Hrest) as Hr. unfold prodl in Hr.
  set (P := fold_right Nat.mul 1%nat sh) in *. set (r := @ravel sh idx') in *.
  assert (E1 : ((i * P + r) / P = i)%nat).
  { rewrite Nat.add_comm, Nat.div_add by lia. rewrite Nat.div_small by exact Hr. reflexivity. }
  assert (E2 : ((i * P + r) mod P = r)%nat).
  { rewrite Nat.add_comm, Nat.mod_add by lia. apply Nat.mod_small. exact Hr. }
  rewrite E1, E2. f_equal. apply IH. exact Hrest.
Qed.

Lemma unravel_inshape : forall shape flat, (flat < prodl shape)%nat -> inshape (@unravel shape flat) shape.
Proof.
  induction shape as [|n sh IH]; intros flat H; cbn [unravel]; [constructor|]. cbv zeta.
  cbn [prodl fold_right] in H. set (P := fold_right Nat.mul 1%nat sh) in *.
  assert (HP : (0 < P)%nat) by nia.
  constructor.
  - apply Nat.div_lt_upper_bound; lia.
  - apply IH. change (prodl sh) with P. apply Nat.mod_upper_bound. lia.
Qed.

Lemma ravel_unravel : forall shape flat, (flat < prodl shape)%nat -> @ravel shape (@unravel shape flat) = flat.
Proof.
  induction shape as [|n sh IH]; intros flat H; cbn [unravel ravel]; [cbn in H; lia|]. cbv zeta.
  cbn [prodl fold_right] in H. set (P := fold_right Nat.mul 1%nat sh) in *.
  assert (HP : (0 < P)%nat) by nia.
  rewrite IH by (change (prodl sh) with P; apply Nat.mod_upper_bound; lia).
  rewrite (Nat.div_mod flat P) at 3 by lia. lia.
Qed.

Lemma inshape_nth idx shape : inshape idx shape <-> (length idx = length shape /\ forall i, (i < length shape)%nat -> (nth i idx 0 < nth i shape 0)%nat).
Proof.
  split.
  - induction 1 as [|i n idx sh Hi Hrest IH]; [split; [reflexivity|cbn; lia]|].
    destruct IH as [EL IH]. split; [cbn; lia|]. intros j Hj. destruct j; cbn [nth]; [exact Hi|]. apply IH. cbn in Hj. lia.
  - revert shape. induction idx as [|i idx IH]; intros shape [EL H]; destruct shape as [|n sh]; try (cbn in EL; lia); [constructor|].
    constructor; [apply (H 0%nat); cbn; lia|]. apply IH. split; [cbn in EL; lia|]. intros j Hj. apply (H (S j)). cbn. lia.
Qed.

Lemma inshape_swap idx shape d1 d2 : (d1 < length shape)%nat -> (d2 < length shape)%nat ->
  inshape idx shape -> inshape (swap_idx 0%nat idx d1 d2) (swap_idx 0%nat shape d1 d2).
Proof.
  intros H1 H2 H. apply inshape_nth in H. destruct H as [EL H]. apply inshape_nth. rewrite !swap_idx_length.
  split; [exact EL|]. intros i Hi. rewrite !swap_idx_nth by lia. apply H. apply tr_lt; assumption.
Qed.

Lemma reindex_nth {A} (dflt : A) sh sh' fn cps flat : (flat < prodl sh')%nat ->
  nth flat (@reindex A dflt sh sh' fn cps) dflt = nth (@ravel sh (fn (@unravel sh' flat))) cps dflt.
Proof.
  intros H. unfold reindex. rewrite (nth_map_gen _ _ flat dflt 0%nat) by (rewrite seq_length; exact H).
  rewrite seq_nth by exact H. reflexivity.
Qed.
Lemma reindex_length {A} (dflt : A) sh sh' fn cps : length (@reindex A dflt sh sh' fn cps) = prodl sh'.
Proof. unfold reindex. rewrite map_length, seq_length. reflexivity. Qed.

(* the contraction with two rows exchanged, over the re-indexed net *)
Theorem tsum_swap rows d1 d2 (f : nat -> R) : d1 <> d2 -> (d1 < length rows)%nat -> (d2 < length rows)%nat ->
  let sh := map (@length R) rows in
  let sh' := swap_idx 0%nat sh d1 d2 in
  tsum (swap_idx [] rows d1 d2) (fun flat => f (@ravel sh (swap_idx 0%nat (@unravel sh' flat) d1 d2))) = tsum rows f.
Proof.
  intros Hne H1 H2 sh sh'. rewrite !tsum_gsum.
  assert (Esh : map (@length R) (swap_idx [] rows d1 d2) = sh') by (rewrite swap_idx_map; reflexivity).
  rewrite Esh. fold sh.
  rewrite <- (gsum_swap d1 d2 rows (fun idx => f (@ravel sh idx)) Hne H1 H2).
  apply gsum_ext. intros idx Hidx. rewrite Esh in Hidx. rewrite unravel_ravel by exact Hidx. reflexivity.
Qed.

(* ------------------------------------------------------------------------------------------------ *)
(* object level *)
Lemma sw_obj (o : obj R) d1 d2 : d1 <> d2 -> (d1 < length (o_bases o))%nat -> (d2 < length (o_bases o))%nat ->
  @obj_swap R NumR o d1 d2 =
  mkObj (swap_idx dflt_basis (o_bases o) d1 d2)
        (reindex (@vzero R NumR (@o_ncomp R o)) (@o_shape R o) (swap_idx 0%nat (@o_shape R o) d1 d2)
                 (fun idx => swap_idx 0%nat idx d1 d2) (o_cps o))
        (o_dim o) (o_rat o).
Proof.
  intros Hne H1 H2. unfold obj_swap, o_pardim. destruct (Nat.eqb_spec (length (o_bases o)) 1) as [E|E]; [lia|reflexivity].
Qed.

(* curves are returned unchanged *)
Lemma swap_curve (o : obj R) d1 d2 : length (o_bases o) = 1%nat -> @obj_swap R NumR o d1 d2 = o.
Proof. intros E. unfold obj_swap, o_pardim. rewrite E. reflexivity. Qed.

Lemma sw_shape (o : obj R) d1 d2 : d1 <> d2 -> (d1 < length (o_bases o))%nat -> (d2 < length (o_bases o))%nat ->
  @o_shape R (@obj_swap R NumR o d1 d2) = swap_idx 0%nat (@o_shape R o) d1 d2.
Proof.
  intros Hne H1 H2. rewrite sw_obj by assumption. unfold o_shape. cbn [o_bases]. rewrite swap_idx_map.
  apply swap_idx_dflt; rewrite map_length; assumption.
Qed.

Lemma nth_Forall_dflt {A} (P : A -> Prop) l d i : Forall P l -> P d -> P (nth i l d).
Proof.
  intros HF Hd. destruct (Nat.lt_ge_cases i (length l)) as [L|L].
  - rewrite Forall_forall in HF. apply HF, nth_In, L.
  - rewrite nth_overflow by exact L. exact Hd.
Qed.

Section SwapObj.
Variable tol : R.
Hypothesis Htol : 0 < tol.
Variable o : obj R.
Hypothesis Hwf : wf_obj_R tol o.
Variables d1 d2 : nat.
Hypothesis Hne : d1 <> d2.
Hypothesis H1 : (d1 < length (o_bases o))%nat.
Hypothesis H2 : (d2 < length (o_bases o))%nat.
Local Notation o' := (@obj_swap R NumR o d1 d2).
Local Notation sw := (fun idx : list nat => swap_idx 0%nat idx d1 d2).
Local Notation sh := (@o_shape R o).
Local Notation sh' := (swap_idx 0%nat (@o_shape R o) d1 d2).

Lemma sw_len_bases : length (o_bases o') = length (o_bases o).
Proof. rewrite sw_obj by assumption. cbn [o_bases]. apply swap_idx_length. Qed.

(* the bases are the old bases with d1 and d2 exchanged *)
Theorem swap_bases i : nth i (o_bases o') dflt_basis = nth (tr d1 d2 i) (o_bases o) dflt_basis.
Proof. rewrite sw_obj by assumption. cbn [o_bases]. apply swap_idx_nth; assumption. Qed.

Lemma sw_ncomp : @o_ncomp R o' = @o_ncomp R o.
Proof. rewrite sw_obj by assumption. reflexivity. Qed.
Lemma sw_cps : o_cps o' = reindex (@vzero R NumR (@o_ncomp R o)) sh sh' sw (o_cps o).
Proof. rewrite sw_obj by assumption. reflexivity. Qed.

Lemma sw_len_sh : length sh = length (o_bases o).
Proof. unfold o_shape. apply map_length. Qed.

Theorem swap_wf : wf_obj_R tol o'.
Proof.
  destruct Hwf as (HB & HV & HL). split; [|split].
  - apply Forall_forall. intros b Hb. destruct (In_nth _ _ dflt_basis Hb) as (i & Hi & <-). rewrite sw_len_bases in Hi.
    rewrite swap_bases. rewrite Forall_forall in HB. apply HB, nth_In. apply tr_lt; assumption.
  - rewrite sw_ncomp, sw_cps. apply Forall_forall. intros v Hv. unfold reindex in Hv. apply in_map_iff in Hv.
    destruct Hv as (flat & <- & _). apply nth_Forall_dflt; [exact HV|apply length_vzero].
  - rewrite sw_cps, reindex_length, sw_shape by assumption. reflexivity.
Qed.

(* ---------- evaluation ---------- *)
Variables ts ts2 : list R.
Hypothesis Hdom : forall i, (i < length (o_bases o))%nat -> in_dom tol (nth i (o_bases o) dflt_basis) (nth i ts 0).
Hypothesis Hts2 : forall i, nth i ts2 0 = nth (tr d1 d2 i) ts 0.

Lemma sw_dom_new : forall i, (i < length (o_bases o'))%nat -> in_dom tol (nth i (o_bases o') dflt_basis) (nth i ts2 0).
Proof. intros i Hi. rewrite sw_len_bases in Hi. rewrite swap_bases, Hts2. apply Hdom. apply tr_lt; assumption. Qed.

Local Notation ts' := (map (fun i => @snap1 R NumR (b_knots (nth i (o_bases o) dflt_basis)) tol (nth i ts 0)) (seq 0 (length (o_bases o)))).
Local Notation ts2' := (map (fun i => @snap1 R NumR (b_knots (nth i (o_bases o') dflt_basis)) tol (nth i ts2 0)) (seq 0 (length (o_bases o')))).
Local Notation rows := (@rows_at R NumR tol (o_bases o) [] [] ts').
Local Notation rows' := (@rows_at R NumR tol (o_bases o') [] [] ts2').

Lemma sw_ts'_nth i : (i < length (o_bases o))%nat -> nth i ts' 0 = @snap1 R NumR (b_knots (nth i (o_bases o) dflt_basis)) tol (nth i ts 0).
Proof. intros Hi. rewrite (nth_map_gen _ _ i 0 0%nat) by (rewrite seq_length; exact Hi). rewrite seq_nth by exact Hi. reflexivity. Qed.
Lemma sw_ts2'_nth i : (i < length (o_bases o))%nat -> nth i ts2' 0 = @snap1 R NumR (b_knots (nth i (o_bases o') dflt_basis)) tol (nth i ts2 0).
Proof. intros Hi. rewrite (nth_map_gen _ _ i 0 0%nat) by (rewrite seq_length, sw_len_bases; exact Hi). rewrite seq_nth by (rewrite sw_len_bases; exact Hi). reflexivity. Qed.

(* the rows of basis values of the swapped object are the old rows exchanged *)
Lemma sw_rows' : rows' = swap_idx [] rows d1 d2.
Proof.
  apply (nth_ext _ _ [] []).
  - rewrite swap_idx_length, !rows_at_length. exact sw_len_bases.
  - intros i Hi. rewrite rows_at_length, sw_len_bases in Hi.
    rewrite rows_at_nth by (rewrite sw_len_bases; exact Hi). rewrite !nth_nil_any. rewrite sw_ts2'_nth by exact Hi.
    rewrite swap_bases, Hts2.
    rewrite swap_idx_nth by (rewrite rows_at_length; assumption).
    assert (Ht : (tr d1 d2 i < length (o_bases o))%nat) by (apply tr_lt; assumption).
    rewrite rows_at_nth by exact Ht. rewrite !nth_nil_any. rewrite sw_ts'_nth by exact Ht. reflexivity.
Qed.

Theorem swap_eval : @obj_eval R NumR tol o' ts2 = @obj_eval R NumR tol o ts.
Proof.
  unfold obj_eval.
  destruct (validate_spec tol (o_bases o) ts) as [V1 _]. rewrite (V1 Hdom).
  destruct (validate_spec tol (o_bases o') ts2) as [V2 _]. rewrite (V2 sw_dom_new).
  replace (o_rat o') with (o_rat o) by (rewrite sw_obj by assumption; reflexivity).
  replace (o_dim o') with (o_dim o) by (rewrite sw_obj by assumption; reflexivity).
  assert (EH : @eval_h R NumR tol o' [] [] ts2' = @eval_h R NumR tol o [] [] ts').
  { unfold eval_h. rewrite sw_rows', sw_ncomp, sw_cps.
    destruct Hwf as (HB & HV & HL).
    assert (Hr1 : (d1 < length rows)%nat) by (rewrite rows_at_length; exact H1).
    assert (Hr2 : (d2 < length rows)%nat) by (rewrite rows_at_length; exact H2).
    assert (Hnet : net_ok (@o_ncomp R o) rows (o_cps o)) by (split; [exact HV|rewrite cd_shape_rows; exact HL]).
    assert (Esh : map (@length R) (swap_idx [] rows d1 d2) = sh').
    { rewrite swap_idx_map. rewrite cd_shape_rows. reflexivity. }
    assert (Hnet' : net_ok (@o_ncomp R o) (swap_idx [] rows d1 d2) (reindex (@vzero R NumR (@o_ncomp R o)) sh sh' sw (o_cps o))).
    { split.
      - apply Forall_forall. intros v Hv. unfold reindex in Hv. apply in_map_iff in Hv.
        destruct Hv as (flat & <- & _). apply nth_Forall_dflt; [exact HV|apply length_vzero].
      - rewrite reindex_length, Esh. reflexivity. }
    apply (nth_ext _ _ 0 0).
    - rewrite (teval_length _ _ _ Hnet'), (teval_length _ _ _ Hnet). reflexivity.
    - intros c Hc. rewrite (teval_length _ _ _ Hnet') in Hc.
      change (nth c ?v 0) with (coord c v).
      rewrite (teval_tsum (@o_ncomp R o) c _ Hc _ Hnet'), (teval_tsum (@o_ncomp R o) c rows Hc (o_cps o) Hnet).
      rewrite <- (tsum_swap rows d1 d2 (cnet (@o_ncomp R o) c (o_cps o)) Hne Hr1 Hr2). cbv zeta.
      apply tsum_ext. intros flat Hflat. rewrite Esh in Hflat. unfold cnet.
      rewrite reindex_nth by exact Hflat. rewrite cd_shape_rows. reflexivity. }
  rewrite EH. reflexivity.
Qed.
End SwapObj.

(* with the parameter tuple written with swap_idx *)
Theorem swap_eval_idx tol (o : obj R) d1 d2 ts :
  0 < tol -> wf_obj_R tol o -> d1 <> d2 -> (d1 < length (o_bases o))%nat -> (d2 < length (o_bases o))%nat ->
  (d1 < length ts)%nat -> (d2 < length ts)%nat ->
  (forall i, (i < length (o_bases o))%nat -> in_dom tol (nth i (o_bases o) dflt_basis) (nth i ts 0)) ->
  @obj_eval R NumR tol (@obj_swap R NumR o d1 d2) (swap_idx 0 ts d1 d2) = @obj_eval R NumR tol o ts.
Proof.
  intros Htol Hwf Hne H1 H2 T1 T2 Hdom.
  apply (swap_eval tol o Hwf d1 d2 Hne H1 H2 ts _ Hdom). intros i. apply swap_idx_nth; assumption.
Qed.

(* surfaces and volumes written out *)
Corollary swap_eval_surface tol (o : obj R) u v :
  0 < tol -> wf_obj_R tol o -> length (o_bases o) = 2%nat ->
  in_dom tol (nth 0 (o_bases o) dflt_basis) u -> in_dom tol (nth 1 (o_bases o) dflt_basis) v ->
  @obj_eval R NumR tol (@obj_swap R NumR o 0 1) [v; u] = @obj_eval R NumR tol o [u; v].
Proof.
  intros Htol Hwf HL Du Dv.
  apply (swap_eval_idx tol o 0 1 [u; v] Htol Hwf); try (rewrite ?HL; cbn; lia).
  intros i Hi. rewrite HL in Hi. destruct i as [|[|i]]; [exact Du|exact Dv|lia].
Qed.

Corollary swap_eval_volume tol (o : obj R) u v w :
  0 < tol -> wf_obj_R tol o -> length (o_bases o) = 3%nat ->
  in_dom tol (nth 0 (o_bases o) dflt_basis) u -> in_dom tol (nth 1 (o_bases o) dflt_basis) v ->
  in_dom tol (nth 2 (o_bases o) dflt_basis) w ->
  @obj_eval R NumR tol (@obj_swap R NumR o 0 1) [v; u; w] = @obj_eval R NumR tol o [u; v; w] /\
  @obj_eval R NumR tol (@obj_swap R NumR o 0 2) [w; v; u] = @obj_eval R NumR tol o [u; v; w] /\
  @obj_eval R NumR tol (@obj_swap R NumR o 1 2) [u; w; v] = @obj_eval R NumR tol o [u; v; w] /\
  @obj_eval R NumR tol (@obj_swap R NumR o 1 0) [v; u; w] = @obj_eval R NumR tol o [u; v; w].
Proof.
  intros Htol Hwf HL Du Dv Dw.
  assert (Hdom : forall i, (i < length (o_bases o))%nat -> in_dom tol (nth i (o_bases o) dflt_basis) (nth i [u; v; w] 0)).
  { intros i Hi. rewrite HL in Hi. destruct i as [|[|[|i]]]; [exact Du|exact Dv|exact Dw|lia]. }
  repeat split.
  - apply (swap_eval_idx tol o 0 1 [u; v; w] Htol Hwf); try (rewrite ?HL; cbn; lia). exact Hdom.
  - apply (swap_eval_idx tol o 0 2 [u; v; w] Htol Hwf); try (rewrite ?HL; cbn; lia). exact Hdom.
  - apply (swap_eval_idx tol o 1 2 [u; v; w] Htol Hwf); try (rewrite ?HL; cbn; lia). exact Hdom.
  - apply (swap_eval_idx tol o 1 0 [u; v; w] Htol Hwf); try (rewrite ?HL; cbn; lia). exact Hdom.
Qed.

(* ------------------------------------------------------------------------------------------------ *)
(* involution: swapping twice gives back the object itself *)
Theorem swap_involution tol (o : obj R) d1 d2 :
  wf_obj_R tol o -> d1 <> d2 -> (d1 < length (o_bases o))%nat -> (d2 < length (o_bases o))%nat ->
  @obj_swap R NumR (@obj_swap R NumR o d1 d2) d1 d2 = o.
Proof.
  intros (HB & HV & HL) Hne H1 H2.
  assert (L1 : length (o_bases (@obj_swap R NumR o d1 d2)) = length (o_bases o)).
  { rewrite sw_obj by assumption. cbn [o_bases]. apply swap_idx_length. }
  rewrite (sw_obj (@obj_swap R NumR o d1 d2) d1 d2 Hne) by (rewrite L1; assumption).
  rewrite (sw_shape o d1 d2 Hne H1 H2).
  assert (Ls : length (@o_shape R o) = length (o_bases o)) by (unfold o_shape; apply map_length).
  rewrite (swap_idx_invol 0%nat (@o_shape R o) d1 d2) by (rewrite Ls; assumption).
  rewrite sw_obj by assumption. cbn [o_bases o_cps o_dim o_rat].
  rewrite (swap_idx_invol dflt_basis (o_bases o) d1 d2) by assumption.
  match goal with |- mkObj _ (reindex (@vzero _ _ ?nc) _ _ _ _) _ _ = _ => change nc with (@o_ncomp R o) end.
  set (sh := @o_shape R o) in *. set (sh1 := swap_idx 0%nat sh d1 d2).
  set (vz := @vzero R NumR (@o_ncomp R o)).
  assert (Ec : reindex vz sh1 sh (fun idx => swap_idx 0%nat idx d1 d2) (reindex vz sh sh1 (fun idx => swap_idx 0%nat idx d1 d2) (o_cps o)) = o_cps o).
  { apply (nth_ext _ _ vz vz); [rewrite reindex_length; symmetry; exact HL|].
    intros flat Hflat. rewrite reindex_length in Hflat.
    rewrite reindex_nth by exact Hflat.
    pose proof (unravel_inshape sh flat Hflat) as Hin.
    pose proof (inshape_swap _ _ d1 d2 ltac:(rewrite Ls; exact H1) ltac:(rewrite Ls; exact H2) Hin) as Hin1. fold sh1 in Hin1.
    rewrite reindex_nth by (apply ravel_lt; exact Hin1).
    rewrite unravel_ravel by exact Hin1.
    pose proof (inshape_length _ _ Hin) as Li.
    rewrite swap_idx_invol by (rewrite Li, Ls; assumption).
    rewrite ravel_unravel by exact Hflat. reflexivity. }
  rewrite Ec. destruct o; reflexivity.
Qed.

