(* C05: raise_order by any amount on an open (clamped), non-periodic knot vector.
   - nestedness matrix for any amount (composition of the one-step matrices of RaiseNested.v);
   - knot_spans returns exactly the knot values when distinct knots are separated by more than the tolerance;
   - an open knot vector keeps its parametric domain under raise_order;
   - the instantiation of the generic theorems of OrderRaise.v for BSplineBasis.raise_order. *)
From Coq Require Import List Arith Reals Lra Lia Bool ZArith Permutation.
From SplipyModel Require Import Spec.BSpline Spec.Nested
  Model.Num Model.BasisDef Model.BasisEval Model.Tensor Model.Obj Model.KnotInsert Model.Solve Model.Interp Model.Order
  Proofs.KnotList Proofs.EvaluateSpec Proofs.EvalConsequences Proofs.TensorLemmas Proofs.TensorApply Proofs.OrderProofs Proofs.LinAlg
  Proofs.RaiseNested Proofs.OrderRaise.
Import ListNotations.
Open Scope R_scope.

(* ---- the knot vector of raise_order(amount) as a chain of one-step raises ---- *)
Fixpoint chain (l spans : list R) (a : nat) : list R :=
  match a with O => l | S a' => @sort_list R NumR (chain l spans a' ++ spans) end.

Lemma repeat_list_S {A} (s : list A) a : repeat_list s (S a) = s ++ repeat_list s a.
Proof. reflexivity. Qed.
Lemma repeat_list_length {A} (s : list A) a : length (repeat_list s a) = (a * length s)%nat.
Proof. induction a as [|a IH]; cbn [repeat_list]; [reflexivity|]. rewrite app_length, IH. lia. Qed.

Lemma chain_sorted l spans a : lsorted l -> lsorted (chain l spans a).
Proof. intros Hs. destruct a; cbn [chain]; [exact Hs|apply sort_list_sorted]. Qed.
Lemma chain_perm l spans a : Permutation (chain l spans a) (l ++ repeat_list spans a).
Proof.
  induction a as [|a IH]; cbn [chain repeat_list]; [rewrite app_nil_r; reflexivity|].
  rewrite sort_list_perm, IH. rewrite <- app_assoc. apply Permutation_app_head. apply Permutation_app_comm.
Qed.
Lemma chain_eq l spans a : lsorted l -> chain l spans a = @sort_list R NumR (l ++ repeat_list spans a).
Proof.
  intros Hs. apply sorted_perm_unique; [apply chain_sorted, Hs|apply sort_list_sorted|].
  rewrite chain_perm, sort_list_perm. reflexivity.
Qed.
Lemma chain_length l spans a : length (chain l spans a) = (length l + a * length spans)%nat.
Proof. rewrite (Permutation_length (chain_perm l spans a)), app_length, repeat_list_length. reflexivity. Qed.
Lemma in_repeat_list {A} (s : list A) a x : In x (repeat_list s a) -> In x s.
Proof. induction a as [|a IH]; cbn [repeat_list]; [intros []|]. intros Hx. apply in_app_or in Hx. destruct Hx; auto. Qed.
Lemma chain_values l spans a : (forall x, In x spans -> In x l) -> forall x, In x (chain l spans a) <-> In x l.
Proof.
  intros Hsp x. split; intros Hx.
  - apply (Permutation_in _ (chain_perm l spans a)) in Hx. apply in_app_or in Hx. destruct Hx as [Hx|Hx]; [exact Hx|].
    apply Hsp. eapply in_repeat_list. exact Hx.
  - apply (Permutation_in _ (Permutation_sym (chain_perm l spans a))). apply in_or_app. left. exact Hx.
Qed.

Lemma ident_pick (f : nat -> R) n i : (i < n)%nat ->
  sumf (fun r => f r * ment (@ident R NumR n) r i) 0 n = f i.
Proof.
  intros Hi. rewrite (sumf_ext _ (fun r => if (r =? i)%nat then f r else 0)).
  - apply sumf_pick. lia.
  - intros r Hr. rewrite ident_ent by lia. destruct (Nat.eqb_spec r i); ring.
Qed.

Section Amount.
Variable l : list R.
Variable spans : list R.
Variable q : nat.
Hypothesis Hs : lsorted l.
Hypothesis Hsp1 : forall x, In x l -> In x spans.
Hypothesis Hsp2 : forall x, In x spans -> In x l.
Hypothesis Hlen : (q + 1 < length l)%nat.
Local Notation n := (length l - (q + 1))%nat.
Local Notation s := (length spans - 1)%nat.

Theorem raise_nested_amount a :
  exists C : list (list R), mat (n + a * s) n C /\
    forall side t i, (i < n)%nat ->
      B side (@kn R NumR l) q i t = sumf (fun r => B side (@kn R NumR (chain l spans a)) (q + a) r t * ment C r i) 0 (n + a * s).
Proof.
  pose proof (spans_nonempty l spans q Hs Hsp1 Hsp2 Hlen) as Hsne.
  remember (length spans - 1)%nat as sv eqn:Esv.
  assert (Hspl : length spans = (1 + sv)%nat) by lia.
  induction a as [|a IH].
  - exists (@ident R NumR n). cbn [chain Nat.mul]. rewrite !Nat.add_0_r. split; [apply ident_mat|].
    intros side t i Hi. symmetry. apply (ident_pick (fun r => B side (@kn R NumR l) q r t) n i Hi).
  - destruct IH as (C & HC & HCe).
    set (la := chain l spans a) in *.
    assert (Hla : length la = (length l + a * length spans)%nat) by apply chain_length.
    assert (Hmul : (a * length spans = a + a * sv)%nat) by (rewrite Hspl; ring).
    destruct (raise_nested_matrix la spans (q + a)) as (D & HD & HDe).
    { apply chain_sorted, Hs. }
    { intros x Hx. apply Hsp1. apply (chain_values l spans a Hsp2). exact Hx. }
    { intros x Hx. apply (chain_values l spans a Hsp2). apply Hsp2, Hx. }
    { rewrite Hla. lia. }
    rewrite <- Esv in HD, HDe.
    assert (E1 : (length la - (q + a + 1) = n + a * sv)%nat) by (rewrite Hla; lia).
    rewrite E1 in HD, HDe.
    replace (n + a * sv + sv)%nat with (n + S a * sv)%nat in HD, HDe by lia.
    assert (Hpos : (0 < n + a * sv)%nat) by lia.
    exists (@matmul R NumR D C). split; [apply (matmul_mat _ (n + a * sv)); assumption|].
    intros side t i Hi. rewrite (HCe side t i Hi).
    rewrite (sumf_ext _ (fun r => sumf (fun u => B side (@kn R NumR (chain l spans (S a))) (q + S a) u t * ment D u r * ment C r i) 0 (n + S a * sv))).
    2:{ intros r Hr. rewrite (HDe side t r ltac:(lia)). rewrite Rmult_comm, <- sumf_scal.
        replace (S (q + a)) with (q + S a)%nat by lia. apply sumf_ext. intros u _. cbn [chain]. fold la. ring. }
    rewrite sumf_exchange. apply sumf_ext. intros u Hu.
    rewrite (matmul_ent (n + S a * sv) (n + a * sv) n D C u i HD HC Hpos ltac:(lia) Hi).
    rewrite <- sumf_scal. apply sumf_ext. intros r _. ring.
Qed.
End Amount.

(* ---- knot_spans: exactly the knot values, when distinct knots differ by more than the tolerance ---- *)
Definition separated (tol : R) (l : list R) : Prop := forall y z, In y l -> In z l -> y = z \/ tol < Rabs (y - z).

Lemma uniq_tol_values tol : 0 <= tol -> forall l last, separated tol (last :: l) ->
  forall y, In y (last :: @uniq_tol R NumR tol last l) <-> In y (last :: l).
Proof.
  intros Ht. induction l as [|x l IH]; intros last Sep y; cbn [uniq_tol]; [reflexivity|].
  cbn [nltb nsub NumR]. rewrite nabs_R.
  destruct (Rltb_spec tol (Rabs (x - last))) as [A|A].
  - assert (S2 : separated tol (x :: l)).
    { intros a b Ha Hb. apply Sep; right; assumption. }
    specialize (IH x S2 y). cbn [In] in IH |- *. tauto.
  - assert (Ex : x = last).
    { destruct (Sep x last ltac:(right; left; reflexivity) ltac:(left; reflexivity)) as [E|E]; [exact E|lra]. }
    subst x.
    assert (S2 : separated tol (last :: l)).
    { intros a b Ha Hb. apply Sep; cbn [In] in *; tauto. }
    specialize (IH last S2 y). cbn [In] in *. tauto.
Qed.

Lemma knot_spans_values tol p (l : list R) : 0 <= tol -> l <> [] -> separated tol l ->
  forall y, In y (@knot_spans R NumR tol (mkBasis p l 0) true) <-> In y l.
Proof.
  intros Ht Hne Sep y. unfold knot_spans. cbn [b_knots b_order].
  destruct l as [|a l0]; [congruence|].
  assert (E0 : @kn R NumR (a :: l0) 0 = a) by reflexivity. rewrite E0.
  assert (S2 : separated tol (a :: a :: l0)).
  { intros u v Hu Hv. apply Sep; cbn [In] in *; tauto. }
  rewrite (uniq_tol_values tol Ht (a :: l0) a S2 y). cbn [In]. tauto.
Qed.

(* ---- open knot vectors keep their domain ---- *)
Definition Rdec := Req_EM_T.
Lemma count_prefix (L : list R) a0 : lsorted L -> (forall y, In y L -> a0 <= y) ->
  forall m, (m < count_occ Rdec L a0)%nat -> nth m L 0 = a0.
Proof.
  induction L as [|y L IH]; intros Hs Hge m Hm; [cbn in Hm; lia|].
  cbn [count_occ] in Hm. destruct (Rdec y a0) as [E|E].
  - destruct m; [exact E|]. cbn [nth]. apply IH; [eapply lsorted_tl; eassumption|intros; apply Hge; right; assumption|lia].
  - exfalso. assert (count_occ Rdec L a0 = 0%nat); [|lia].
    apply count_occ_not_In. intros Hin. pose proof (lsorted_hd_le y L Hs a0 Hin). pose proof (Hge y ltac:(left; reflexivity)). lra.
Qed.
Lemma count_all (L : list R) e : (forall y, In y L -> y = e) -> count_occ Rdec L e = length L.
Proof.
  induction L as [|y L IH]; intros H; [reflexivity|]. cbn [count_occ length].
  destruct (Rdec y e) as [E|E]; [f_equal; apply IH; intros; apply H; right; assumption|].
  exfalso. apply E, H. left. reflexivity.
Qed.
Lemma count_le_length (L : list R) e : (count_occ Rdec L e <= length L)%nat.
Proof. induction L as [|y L IH]; cbn [count_occ length]; [lia|]. destruct (Rdec y e); lia. Qed.
Lemma count_suffix (L : list R) e : lsorted L -> (forall y, In y L -> y <= e) ->
  forall m, (m < count_occ Rdec L e)%nat -> nth (length L - 1 - m) L 0 = e.
Proof.
  induction L as [|y L IH]; intros Hs Hle m Hm; [cbn in Hm; lia|].
  pose proof (count_le_length L e) as Hc.
  destruct (Nat.lt_ge_cases m (count_occ Rdec L e)) as [A|A].
  - cbn [length]. replace (S (length L) - 1 - m)%nat with (S (length L - 1 - m)) by lia. cbn [nth].
    apply IH; [eapply lsorted_tl; eassumption|intros; apply Hle; right; assumption|exact A].
  - cbn [count_occ] in Hm. destruct (Rdec y e) as [E|E]; [|lia].
    assert (Hall : forall z, In z L -> z = e).
    { intros z Hz. pose proof (lsorted_hd_le y L Hs z Hz). pose proof (Hle z ltac:(right; assumption)). lra. }
    rewrite (count_all L e Hall) in *. cbn [length]. replace (S (length L) - 1 - m)%nat with 0%nat by lia. exact E.
Qed.
Lemma count_ge_prefix (l : list R) a0 : forall pp, (pp <= length l)%nat -> (forall i, (i < pp)%nat -> nth i l 0 = a0) ->
  (pp <= count_occ Rdec l a0)%nat.
Proof.
  induction l as [|y l IH]; intros pp Hp H; [cbn in Hp; lia|]. destruct pp; [lia|].
  cbn [count_occ]. pose proof (H 0%nat ltac:(lia)) as H0. cbn [nth] in H0. destruct (Rdec y a0); [|contradiction].
  apply le_n_S. apply IH; [cbn in Hp; lia|]. intros i Hi. apply (H (S i)). lia.
Qed.
Lemma count_repeat_list (sp : list R) a x : count_occ Rdec (repeat_list sp a) x = (a * count_occ Rdec sp x)%nat.
Proof. induction a as [|a IH]; cbn [repeat_list]; [reflexivity|]. rewrite count_occ_app, IH. lia. Qed.

Definition open_knots (l : list R) (p : nat) : Prop :=
  (forall i, (i < p)%nat -> nth i l 0 = nth 0 l 0) /\ (forall i, (i < p)%nat -> nth (length l - 1 - i) l 0 = nth (length l - 1) l 0).

Section Open.
Variable l spans : list R.
Variable p a : nat.
Hypothesis Hs : lsorted l.
Hypothesis Hsp1 : forall x, In x l -> In x spans.
Hypothesis Hsp2 : forall x, In x spans -> In x l.
Hypothesis Hp : (1 <= p)%nat.
Hypothesis Hlen : (2 * p <= length l)%nat.
Hypothesis Hopen : open_knots l p.
Local Notation L := (chain l spans a).

Lemma count_chain x : In x l -> (count_occ Rdec l x + a <= count_occ Rdec L x)%nat.
Proof.
  intros Hx.
  pose proof (proj1 (Permutation_count_occ Rdec _ _) (chain_perm l spans a) x) as E. rewrite E, count_occ_app, count_repeat_list.
  assert (1 <= count_occ Rdec spans x)%nat by (apply count_occ_In, Hsp1, Hx). nia.
Qed.

Lemma a_le_mul : (a <= a * length spans)%nat.
Proof.
  assert (1 <= length spans)%nat.
  { assert (I : In (nth 0 l 0) spans) by (apply Hsp1, nth_In; lia). destruct spans; [destruct I|cbn; lia]. }
  pose proof (Nat.mul_le_mono_l 1 (length spans) a H). lia.
Qed.

Lemma open_same_start : @kn R NumR L (p + a - 1) = @kn R NumR l (p - 1).
Proof.
  destruct Hopen as [Ho1 _]. set (a0 := nth 0 l 0).
  assert (Hin : In a0 l) by (apply nth_In; lia).
  rewrite (kn_in l (p - 1) ltac:(lia) 0), (Ho1 (p - 1)%nat ltac:(lia)).
  rewrite (kn_in L (p + a - 1) ltac:(rewrite chain_length; pose proof a_le_mul; lia) 0).
  apply count_prefix; [apply chain_sorted, Hs| |].
  - intros y Hy. apply (chain_values l spans a Hsp2) in Hy. destruct (In_nth l y 0 Hy) as (j & Hj & <-).
    apply (lsorted_nth l Hs 0 j). lia.
  - pose proof (count_chain a0 Hin). pose proof (count_ge_prefix l a0 p ltac:(lia) Ho1). unfold a0 in *. lia.
Qed.

Lemma open_same_end : @kn R NumR L (length L - (p + a)) = @kn R NumR l (length l - p).
Proof.
  destruct Hopen as [_ Ho2]. set (e := nth (length l - 1) l 0).
  assert (Hin : In e l) by (apply nth_In; lia).
  rewrite (kn_in l (length l - p) ltac:(lia) 0). replace (length l - p)%nat with (length l - 1 - (p - 1))%nat by lia.
  rewrite (Ho2 (p - 1)%nat ltac:(lia)).
  rewrite (kn_in L (length L - (p + a)) ltac:(rewrite chain_length; pose proof a_le_mul; lia) 0).
  replace (length L - (p + a))%nat with (length L - 1 - (p + a - 1))%nat by (rewrite chain_length; pose proof a_le_mul; lia).
  apply count_suffix; [apply chain_sorted, Hs| |].
  - intros y Hy. apply (chain_values l spans a Hsp2) in Hy. destruct (In_nth l y 0 Hy) as (j & Hj & <-).
    apply (lsorted_nth l Hs j (length l - 1)). lia.
  - pose proof (count_chain e Hin).
    assert (p <= count_occ Rdec l e)%nat.
    { rewrite <- (count_occ_rev Rdec l e). apply count_ge_prefix; [rewrite rev_length; lia|].
      intros i Hi. rewrite rev_nth by lia. replace (length l - S i)%nat with (length l - 1 - i)%nat by lia. apply Ho2, Hi. }
    unfold e in *. lia.
Qed.
End Open.

(* ---- the instantiation for BSplineBasis.raise_order on an open, non-periodic basis ---- *)
Section RaiseOrder.
Variable l : list R.
Variable p a : nat.
Variable tol : R.
Hypothesis Hs : lsorted l.
Hypothesis Hp : (1 <= p)%nat.
Hypothesis Hlen : (2 * p <= length l)%nat.
Hypothesis Hopen : open_knots l p.
Hypothesis Htol : 0 < tol.
Hypothesis Hsep : separated tol l.
Hypothesis Hdom : nth 0 l 0 < nth (length l - 1) l 0.      (* start < end *)

Let b := @mkBasis R p l 0.
Let spans := @knot_spans R NumR tol b true.
Let b' := @basis_raise_order R NumR tol b a.
Local Notation L := (chain l spans a).

Lemma l_ne : l <> [].
Proof. destruct l; [cbn in Hlen; lia|discriminate]. Qed.
Lemma Hsp1 : forall x, In x l -> In x spans.
Proof. intros x Hx. apply (knot_spans_values tol p l ltac:(lra) l_ne Hsep). exact Hx. Qed.
Lemma Hsp2 : forall x, In x spans -> In x l.
Proof. intros x Hx. apply (knot_spans_values tol p l ltac:(lra) l_ne Hsep). exact Hx. Qed.
Lemma spans_two : (2 <= length spans)%nat.
Proof.
  assert (I1 : In (nth 0 l 0) spans) by (apply Hsp1, nth_In; lia).
  assert (I2 : In (nth (length l - 1) l 0) spans) by (apply Hsp1, nth_In; lia).
  destruct spans as [|u [|v r]]; cbn [length]; [destruct I1| |lia].
  cbn [In] in I1, I2. destruct I1 as [I1|[]], I2 as [I2|[]]. lra.
Qed.

(* 1. what raise_order builds: order p+a, the sorted union of the old knots and a copies of every distinct knot *)
Theorem raise_order_basis : b' = mkBasis (p + a) L 0.
Proof.
  unfold b', basis_raise_order. destruct (Nat.eqb_spec a 0) as [E|E].
  - rewrite E. cbn [chain]. rewrite Nat.add_0_r. reflexivity.
  - cbv zeta. unfold b at 2 3 4. cbn [b_per1 b_order b_knots Nat.eqb].
    fold b. fold spans. rewrite (chain_eq l spans a Hs). reflexivity.
Qed.
Theorem raise_order_knots : lsorted L /\ Permutation L (l ++ repeat_list spans a) /\ (forall x, In x spans <-> In x l).
Proof. split; [apply chain_sorted, Hs|]. split; [apply chain_perm|]. intros x. split; [apply Hsp2|apply Hsp1]. Qed.

Local Notation n := (length l - p)%nat.
Local Notation N := (length L - (p + a))%nat.

Lemma N_eq : N = (n + a * (length spans - 1))%nat.
Proof. rewrite chain_length. pose proof spans_two. nia. Qed.

Lemma N_pos : (0 < N)%nat.
Proof. rewrite N_eq. apply Nat.add_pos_l. lia. Qed.
Lemma L_len : (2 * (p + a) <= length L)%nat.
Proof. rewrite chain_length. pose proof spans_two. nia. Qed.

Lemma nest_hyp : exists C : list (list R), mat N n C /\
    forall side t i, (i < n)%nat ->
      B side (@kn R NumR l) (p - 1) i t = sumf (fun r => B side (@kn R NumR L) (p + a - 1) r t * ment C r i) 0 N.
Proof.
  destruct (raise_nested_amount l spans (p - 1) Hs Hsp1 Hsp2 ltac:(lia) a) as (C & HC & HCe).
  replace (p - 1 + 1)%nat with p in HC, HCe by lia. rewrite <- N_eq in HC, HCe.
  replace (p - 1 + a)%nat with (p + a - 1)%nat in HCe by lia.
  exists C. split; assumption.
Qed.

Local Notation GEN := (fun (X : forall (l0 L0 : list R) (p0 P0 : nat) (tol0 : R), Prop) => X l L p (p + a)%nat tol).

(* 2. the evaluated map is unchanged (direction d of any tensor-product object, every parameter, both sides) *)
Theorem raise_order_preserves_map M dim c side t (rows : list (list R)) d cps :
  @order_change_matrix R NumR tol b b' = Ok M ->
  (d < length rows)%nat -> (c < dim)%nat -> nth d rows [] = Brow side l p t ->
  net_ok dim rows cps -> (0 < prodl (map (@length R) rows))%nat ->
  coord c (@teval R NumR dim (@upd (list R) rows d (Brow side L (p + a) t))
                  (@apply_dir R NumR dim (map (@length R) rows) d M cps))
  = coord c (@teval R NumR dim rows cps).
Proof.
  rewrite raise_order_basis. intros HM.
  pose proof spans_two as H2.
  apply (order_change_preserves_map l L p (p + a) tol
           (sorted_kn_lsorted l Hs) (sorted_kn_lsorted L (chain_sorted l spans a Hs))
           (fun x => iff_sym (chain_values l spans a Hsp2 x)) Hp ltac:(lia) Hlen L_len Htol N_pos
           (open_same_start l spans p a Hs Hsp1 Hsp2 Hp Hlen Hopen)
           (open_same_end l spans p a Hs Hsp1 Hsp2 Hp Hlen Hopen)
           nest_hyp M dim c side t rows d cps HM).
Qed.

(* 3. lowering back with the reverse change of basis restores the control points: M2 M = I *)
Theorem lower_after_raise_order M M2 :
  (0 < n)%nat ->
  @order_change_matrix R NumR tol b b' = Ok M -> @order_change_matrix R NumR tol b' b = Ok M2 ->
  @matmul R NumR M2 M = @ident R NumR n.
Proof.
  rewrite raise_order_basis. intros Hn HM HM2.
  pose proof spans_two as H2.
  apply (lower_after_raise l L p (p + a) tol
           (sorted_kn_lsorted l Hs) (sorted_kn_lsorted L (chain_sorted l spans a Hs))
           (fun x => iff_sym (chain_values l spans a Hsp2 x)) Hp ltac:(lia) Hlen L_len Htol N_pos
           (open_same_start l spans p a Hs Hsp1 Hsp2 Hp Hlen Hopen)
           (open_same_end l spans p a Hs Hsp1 Hsp2 Hp Hlen Hopen)
           nest_hyp M M2 Hn HM HM2).
Qed.
(* everything the end-to-end proof needs about one direction, in one statement (any amount, 0 included) *)
Lemma raise_dir_facts :
  b' = mkBasis (p + a) L 0 /\ sorted (@kn R NumR L) /\ (2 * (p + a) <= length L)%nat /\ (0 < length L - (p + a))%nat /\
  (forall x, In x l <-> In x L) /\
  @kn R NumR L (p + a - 1) = @kn R NumR l (p - 1) /\ @kn R NumR L (length L - (p + a)) = @kn R NumR l (length l - p) /\
  (forall M side t, @order_change_matrix R NumR tol b b' = Ok M -> row_rel (Brow side l p t) (Brow side L (p + a) t) M).
Proof.
  split; [exact raise_order_basis|]. split; [apply sorted_kn_lsorted, chain_sorted, Hs|]. split; [exact L_len|]. split; [exact N_pos|].
  split; [intros x; symmetry; apply (chain_values l spans a Hsp2)|].
  split; [apply (open_same_start l spans p a Hs Hsp1 Hsp2 Hp Hlen Hopen)|].
  split; [apply (open_same_end l spans p a Hs Hsp1 Hsp2 Hp Hlen Hopen)|].
  intros M side t HM. rewrite raise_order_basis in HM.
  apply (order_change_row_rel l L p (p + a) tol
           (sorted_kn_lsorted l Hs) (sorted_kn_lsorted L (chain_sorted l spans a Hs))
           (fun x => iff_sym (chain_values l spans a Hsp2 x)) Hp ltac:(lia) Hlen L_len Htol N_pos
           (open_same_start l spans p a Hs Hsp1 Hsp2 Hp Hlen Hopen)
           (open_same_end l spans p a Hs Hsp1 Hsp2 Hp Hlen Hopen)
           nest_hyp M side t HM).
Qed.
End RaiseOrder.
