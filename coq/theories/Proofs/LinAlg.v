(* Matrices as lists of rows over R: entries of the model's matmul / ident / transpose, associativity, identity. *)
From Coq Require Import List Arith Reals Lra Lia Bool ZArith.
From SplipyModel Require Import Spec.BSpline Model.Num Model.Solve Model.Interp Proofs.EvalConsequences Proofs.AffineProofs Proofs.OrderProofs.
Import ListNotations.
Open Scope R_scope.

Definition ment (A : list (list R)) (i j : nat) : R := nth j (nth i A []) 0.
Definition mat (r c : nat) (A : list (list R)) : Prop := length A = r /\ Forall (fun row => length row = c) A.

Lemma mat_row r c A i : mat r c A -> (i < r)%nat -> length (nth i A []) = c.
Proof. intros [HL HF] Hi. rewrite Forall_forall in HF. apply HF, nth_In. lia. Qed.

Lemma mat_ext r c A B : mat r c A -> mat r c B ->
  (forall i j, (i < r)%nat -> (j < c)%nat -> ment A i j = ment B i j) -> A = B.
Proof.
  intros HA HB E. apply (nth_ext A B [] []); [destruct HA, HB; lia|].
  intros i Hi. destruct HA as [LA FA]. rewrite LA in Hi.
  apply (nth_ext _ _ 0 0).
  - rewrite (mat_row r c A i (conj LA FA) Hi), (mat_row r c B i HB Hi). reflexivity.
  - intros j Hj. rewrite (mat_row r c A i (conj LA FA) Hi) in Hj. apply E; assumption.
Qed.

Lemma fold_dot (j : nat) : forall (ra : list R) (B : list (list R)) (a0 : R),
  fold_left (fun acc ib => @nnorm R NumR (@nadd R NumR acc (@nmul R NumR (fst ib) (nth j (snd ib) (@n0 R NumR))))) (combine ra B) a0
  = a0 + sumf (fun l => nth l ra 0 * nth j (nth l B []) 0) 0 (Nat.min (length ra) (length B)).
Proof.
  induction ra as [|x ra IH]; intros B a0; [cbn; ring|].
  destruct B as [|b B]; [cbn; ring|].
  cbn [combine fold_left length Nat.min fst snd]. rewrite IH. cbn [nnorm nadd nmul n0 NumR].
  rewrite sumf_S. cbn [nth]. rewrite <- (sumf_shift (fun l => nth l (x :: ra) 0 * nth j (nth l (b :: B) []) 0)).
  cbn [nth]. ring.
Qed.

Lemma matmul_length A B : length (@matmul R NumR A B) = length A.
Proof. unfold matmul. rewrite map_length. reflexivity. Qed.

Lemma matmul_mat r n c A B : mat r n A -> mat n c B -> (0 < n)%nat -> mat r c (@matmul R NumR A B).
Proof.
  intros [LA FA] [LB FB] Hn. split; [rewrite matmul_length; exact LA|].
  unfold matmul. cbv zeta. apply Forall_forall. intros row Hr. apply in_map_iff in Hr. destruct Hr as (ra & <- & _).
  rewrite map_length, seq_length. destruct B as [|b B]; [cbn in LB; lia|]. cbn [hd].
  rewrite Forall_forall in FB. apply FB. left. reflexivity.
Qed.

Lemma matmul_ent r n c A B i j : mat r n A -> mat n c B -> (0 < n)%nat -> (i < r)%nat -> (j < c)%nat ->
  ment (@matmul R NumR A B) i j = sumf (fun l => ment A i l * ment B l j) 0 n.
Proof.
  intros HA HB Hn Hi Hj. pose proof (mat_row r n A i HA Hi) as Hrow. destruct HA as [LA FA]. destruct HB as [LB FB].
  assert (Hc : length (hd [] B) = c).
  { destruct B as [|b B]; [cbn in LB; lia|]. cbn [hd]. rewrite Forall_forall in FB. apply FB. left. reflexivity. }
  unfold ment, matmul. cbv zeta.
  rewrite (nth_map_gen _ A i [] []) by lia.
  rewrite (nth_map_gen _ (seq 0 (length (hd [] B))) j 0 0%nat) by (rewrite seq_length; lia).
  rewrite seq_nth by lia. cbn [Nat.add]. rewrite fold_dot. rewrite Hrow, LB, Nat.min_id.
  cbn [n0 NumR]. ring.
Qed.

Lemma ident_mat n : mat n n (@ident R NumR n).
Proof.
  unfold ident. split; [rewrite map_length, seq_length; reflexivity|].
  apply Forall_forall. intros row Hr. apply in_map_iff in Hr. destruct Hr as (i & <- & _). rewrite map_length, seq_length. reflexivity.
Qed.
Lemma ident_ent n i j : (i < n)%nat -> (j < n)%nat -> ment (@ident R NumR n) i j = if (i =? j)%nat then 1 else 0.
Proof.
  intros Hi Hj. unfold ment, ident.
  rewrite (nth_map_gen _ (seq 0 n) i [] 0%nat) by (rewrite seq_length; lia).
  rewrite (nth_map_gen _ (seq 0 n) j 0 0%nat) by (rewrite seq_length; lia).
  rewrite !seq_nth by lia. cbn [Nat.add n0 n1 NumR]. reflexivity.
Qed.

Lemma transpose_mat r c A : mat r c A -> mat c r (@transpose R NumR c A).
Proof.
  intros [LA FA]. unfold transpose. split; [rewrite map_length, seq_length; reflexivity|].
  apply Forall_forall. intros row Hr. apply in_map_iff in Hr. destruct Hr as (j & <- & _). rewrite map_length. exact LA.
Qed.
Lemma transpose_ent r c A i j : mat r c A -> (i < c)%nat -> (j < r)%nat -> ment (@transpose R NumR c A) i j = ment A j i.
Proof.
  intros [LA FA] Hi Hj. unfold ment, transpose.
  rewrite (nth_map_gen _ (seq 0 c) i [] 0%nat) by (rewrite seq_length; lia).
  rewrite seq_nth by lia. cbn [Nat.add].
  rewrite (nth_map_gen _ A j 0 []) by lia. reflexivity.
Qed.

Theorem matmul_assoc r n m c A B C : mat r n A -> mat n m B -> mat m c C -> (0 < n)%nat -> (0 < m)%nat ->
  @matmul R NumR (@matmul R NumR A B) C = @matmul R NumR A (@matmul R NumR B C).
Proof.
  intros HA HB HC Hn Hm.
  pose proof (matmul_mat r n m A B HA HB Hn) as HAB. pose proof (matmul_mat n m c B C HB HC Hm) as HBC.
  apply (mat_ext r c); [apply (matmul_mat r m c); assumption|apply (matmul_mat r n c); assumption|].
  intros i j Hi Hj.
  rewrite (matmul_ent r m c) by assumption. rewrite (matmul_ent r n c) by assumption.
  rewrite (sumf_ext _ (fun l => sumf (fun q => ment A i q * ment B q l * ment C l j) 0 n)).
  2:{ intros l Hl. rewrite (matmul_ent r n m) by (try assumption; lia). rewrite Rmult_comm, <- sumf_scal. apply sumf_ext. intros q _. ring. }
  rewrite sumf_exchange. apply sumf_ext. intros q Hq.
  rewrite (matmul_ent n m c) by (try assumption; lia). rewrite <- sumf_scal. apply sumf_ext. intros l _. ring.
Qed.

Theorem matmul_ident_l n c B : mat n c B -> (0 < n)%nat -> @matmul R NumR (@ident R NumR n) B = B.
Proof.
  intros HB Hn. apply (mat_ext n c); [apply (matmul_mat n n c); [apply ident_mat|exact HB|exact Hn]|exact HB|].
  intros i j Hi Hj. rewrite (matmul_ent n n c) by (try assumption; apply ident_mat).
  rewrite (sumf_ext _ (fun l => (if (l =? i)%nat then 1 else 0) * ment B l j)).
  - apply (sumf_unit (fun l => ment B l j) i n Hi).
  - intros l Hl. rewrite ident_ent by lia. rewrite Nat.eqb_sym. reflexivity.
Qed.

Lemma shape_b_mat r c A : @shape_b R r c A = true -> mat r c A.
Proof.
  unfold shape_b. rewrite andb_true_iff. intros [HL HF]. apply Nat.eqb_eq in HL. split; [exact HL|].
  apply Forall_forall. intros row Hr. rewrite forallb_forall in HF. apply Nat.eqb_eq, HF, Hr.
Qed.

(* the model's inverse is a well-shaped two-sided inverse *)
Theorem inverse_spec (A X : list (list R)) : @inverse R NumR A = Ok X ->
  @matmul R NumR A X = @ident R NumR (length A) /\ @matmul R NumR X A = @ident R NumR (length A) /\ mat (length A) (length A) X.
Proof.
  unfold inverse. cbv zeta. destruct (@solve R NumR A _) as [Y|e] eqn:ES; [|discriminate].
  destruct (@mat_eqb R NumR _ _ && _) eqn:EM; [|discriminate]. intros [= <-]. apply andb_true_iff in EM. destruct EM as [EM ESh].
  split; [apply solve_is_solution, ES|split; [apply mat_eqb_eq, EM|apply shape_b_mat, ESh]].
Qed.

Theorem solve_shaped_spec (A B X : list (list R)) : @solve_shaped R NumR A B = Ok X ->
  @matmul R NumR A X = B /\ mat (length A) (length (hd [] B)) X.
Proof.
  unfold solve_shaped. destruct (@solve R NumR A B) as [Y|e] eqn:ES; [|discriminate].
  destruct (@shape_b R _ _ Y) eqn:ESh; [|discriminate]. intros [= <-].
  split; [apply solve_is_solution, ES|apply shape_b_mat, ESh].
Qed.
